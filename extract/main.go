// Regenerated facts: tiny go/ast extractors (std-lib only) that rewrite
// lean/Tabmodel/Generated/*.lean from /repo's current source on every check.
//
//   WriteSites  every call that passes an io.Writer parameter (or calls a method on it) in the
//               renderer packages, with checked = "its error result reaches a return"
//   TypeSwitch  the ordered arms of the type switch in (*Cell).Update with what each assigns to c.str
//   Schedule    every invokePropertyCallbacks call of the core package, in source order, with nesting
//   Globals     every package-level variable of every non-test file, whether anything outside init
//               writes it, and for the registry whether each access is between Lock and Unlock
package main

import (
	"bytes"
	"strconv"
	"flag"
	"fmt"
	"go/ast"
	"go/parser"
	"go/printer"
	"go/token"
	"os"
	"path/filepath"
	"sort"
	"strings"
)

func main() {
	repo := flag.String("repo", "/repo", "repository root")
	out := flag.String("out", ".", "output directory")
	flag.Parse()
	if err := run(*repo, *out); err != nil {
		fmt.Fprintln(os.Stderr, "extract:", err)
		os.Exit(1)
	}
}

var fset = token.NewFileSet()

func src(n ast.Node) string {
	var b bytes.Buffer
	printer.Fprint(&b, fset, n)
	s := b.String()
	s = strings.Join(strings.Fields(s), " ")
	return s
}

func leanStr(s string) string {
	var b strings.Builder
	b.WriteByte('"')
	for _, r := range s {
		switch {
		case r == '"':
			b.WriteString("\\\"")
		case r == '\\':
			b.WriteString("\\\\")
		case r < 0x20 || r > 0x7e:
			b.WriteByte('?')
		default:
			b.WriteRune(r)
		}
	}
	b.WriteByte('"')
	return b.String()
}

func parseDir(dir string) ([]*ast.File, error) {
	ents, err := os.ReadDir(dir)
	if err != nil {
		return nil, err
	}
	var files []*ast.File
	for _, e := range ents {
		n := e.Name()
		if e.IsDir() || !strings.HasSuffix(n, ".go") || strings.HasSuffix(n, "_test.go") {
			continue
		}
		f, err := parser.ParseFile(fset, filepath.Join(dir, n), nil, parser.ParseComments)
		if err != nil {
			return nil, err
		}
		files = append(files, f)
	}
	return files, nil
}

func run(repo, out string) error {
	if err := writeSites(repo, out); err != nil {
		return err
	}
	if err := typeSwitch(repo, out); err != nil {
		return err
	}
	if err := schedule(repo, out); err != nil {
		return err
	}
	if err := constants(repo, out); err != nil {
		return err
	}
	if err := ints(repo, out); err != nil {
		return err
	}
	if err := aliasing(repo, out); err != nil {
		return err
	}
	return globals(repo, out)
}

// ---------------------------------------------------------------- write sites

type site struct {
	file    string
	line    int
	call    string
	checked bool
}

func isIOWriter(e ast.Expr) bool {
	s, ok := e.(*ast.SelectorExpr)
	if !ok {
		return false
	}
	x, ok := s.X.(*ast.Ident)
	return ok && x.Name == "io" && s.Sel.Name == "Writer"
}

// usesWriter: the call passes one of the writer identifiers as an argument or calls a method on it
func usesWriter(c *ast.CallExpr, ws map[string]bool) bool {
	// a local closure that captures the writer (`put := func(s string) error { … w … }`) is a write helper
	if id, ok := c.Fun.(*ast.Ident); ok && ws["closure:"+id.Name] {
		return true
	}
	for _, a := range c.Args {
		if id, ok := a.(*ast.Ident); ok && ws[id.Name] {
			return true
		}
	}
	if s, ok := c.Fun.(*ast.SelectorExpr); ok {
		if id, ok := s.X.(*ast.Ident); ok && ws[id.Name] {
			return true
		}
	}
	return false
}

func isErrNotNil(e ast.Expr) (string, bool) {
	b, ok := e.(*ast.BinaryExpr)
	if !ok || b.Op != token.NEQ {
		return "", false
	}
	id, ok := b.X.(*ast.Ident)
	nl, ok2 := b.Y.(*ast.Ident)
	if !ok || !ok2 || nl.Name != "nil" {
		return "", false
	}
	return id.Name, true
}

func bodyReturns(b *ast.BlockStmt) bool {
	if b == nil || len(b.List) == 0 {
		return false
	}
	_, ok := b.List[len(b.List)-1].(*ast.ReturnStmt)
	return ok
}

// lastLHSName: the identifier receiving the call's last (error) result
func lastLHSName(a *ast.AssignStmt) string {
	if len(a.Lhs) == 0 {
		return ""
	}
	if id, ok := a.Lhs[len(a.Lhs)-1].(*ast.Ident); ok {
		return id.Name
	}
	return ""
}

func writeSites(repo, out string) error {
	var sites []site
	for _, pkg := range []string{"csv", "json", "markdown", "html", "texttable"} {
		files, err := parseDir(filepath.Join(repo, pkg))
		if err != nil {
			return err
		}
		// constructors that only capture the writer (`newRecordWriter(w, n)` returning a struct that holds it):
		// no error result and no call through the parameter in the body — calling one writes nothing, exactly
		// like the composite literal `&recordWriter{dst: w}` it stands for
		captureOnly := map[string]bool{}
		for _, f := range files {
			for _, d := range f.Decls {
				fn, ok := d.(*ast.FuncDecl)
				if !ok || fn.Body == nil {
					continue
				}
				pw := map[string]bool{}
				for _, p := range fn.Type.Params.List {
					if isIOWriter(p.Type) {
						for _, n := range p.Names {
							pw[n.Name] = true
						}
					}
				}
				if len(pw) == 0 {
					continue
				}
				returnsErr := false
				if fn.Type.Results != nil {
					for _, r := range fn.Type.Results.List {
						if id, ok := r.Type.(*ast.Ident); ok && id.Name == "error" {
							returnsErr = true
						}
					}
				}
				uses := false
				ast.Inspect(fn.Body, func(m ast.Node) bool {
					if c, ok := m.(*ast.CallExpr); ok && usesWriter(c, pw) {
						uses = true
					}
					return !uses
				})
				if !returnsErr && !uses {
					captureOnly[fn.Name.Name] = true
				}
			}
		}
		calleeName := func(c *ast.CallExpr) string {
			switch f := c.Fun.(type) {
			case *ast.Ident:
				return f.Name
			case *ast.SelectorExpr:
				return f.Sel.Name
			}
			return ""
		}
		for _, f := range files {
			for _, d := range f.Decls {
				fn, ok := d.(*ast.FuncDecl)
				if !ok || fn.Body == nil {
					continue
				}
				ws := map[string]bool{}
				for _, p := range fn.Type.Params.List {
					if isIOWriter(p.Type) {
						for _, n := range p.Names {
							ws[n.Name] = true
						}
					}
				}
				if len(ws) == 0 {
					continue
				}
				// local closures whose body uses the writer
				ast.Inspect(fn.Body, func(n ast.Node) bool {
					as, ok := n.(*ast.AssignStmt)
					if !ok || len(as.Lhs) != 1 || len(as.Rhs) != 1 {
						return true
					}
					fl, ok := as.Rhs[0].(*ast.FuncLit)
					id, ok2 := as.Lhs[0].(*ast.Ident)
					if !ok || !ok2 {
						return true
					}
					uses := false
					ast.Inspect(fl.Body, func(m ast.Node) bool {
						if c, ok := m.(*ast.CallExpr); ok && usesWriter(c, ws) {
							uses = true
						}
						return !uses
					})
					if uses {
						ws["closure:"+id.Name] = true
					}
					return true
				})
				checked := map[*ast.CallExpr]bool{}
				var calls []*ast.CallExpr
				// classify by statement shape
				var walkBlock func(list []ast.Stmt)
				walkStmt := func(s ast.Stmt, next ast.Stmt) {}
				walkBlock = func(list []ast.Stmt) {
					for i, s := range list {
						var next ast.Stmt
						if i+1 < len(list) {
							next = list[i+1]
						}
						walkStmt(s, next)
					}
				}
				// tailAssigns: writer calls whose error lands in a variable as the LAST thing the statement does
				// on some path (an assignment; the ends of the branches of an if/else or switch)
				type pend struct {
					c    *ast.CallExpr
					name string
				}
				var tailAssigns func(s ast.Stmt) []pend
				tailOf := func(list []ast.Stmt) []pend {
					if len(list) == 0 {
						return nil
					}
					return tailAssigns(list[len(list)-1])
				}
				tailAssigns = func(s ast.Stmt) []pend {
					switch st := s.(type) {
					case *ast.AssignStmt:
						if len(st.Rhs) == 1 {
							if c, ok := st.Rhs[0].(*ast.CallExpr); ok && usesWriter(c, ws) {
								return []pend{{c, lastLHSName(st)}}
							}
						}
					case *ast.BlockStmt:
						return tailOf(st.List)
					case *ast.IfStmt:
						out := tailOf(st.Body.List)
						if st.Else != nil {
							out = append(out, tailAssigns(st.Else)...)
						}
						return out
					case *ast.SwitchStmt:
						var out []pend
						for _, cc := range st.Body.List {
							out = append(out, tailOf(cc.(*ast.CaseClause).Body)...)
						}
						return out
					}
					return nil
				}
				walkStmt = func(s ast.Stmt, next ast.Stmt) {
					if ifs, ok := next.(*ast.IfStmt); ok && ifs.Init == nil {
						if name, ok := isErrNotNil(ifs.Cond); ok && bodyReturns(ifs.Body) && name != "_" {
							for _, p := range tailAssigns(s) {
								if p.name == name {
									checked[p.c] = true
								}
							}
						}
					}
					switch st := s.(type) {
					case *ast.IfStmt:
						if as, ok := st.Init.(*ast.AssignStmt); ok && len(as.Rhs) == 1 {
							if c, ok := as.Rhs[0].(*ast.CallExpr); ok && usesWriter(c, ws) {
								if name, ok := isErrNotNil(st.Cond); ok && name == lastLHSName(as) && bodyReturns(st.Body) {
									checked[c] = true
								}
							}
						}
						walkBlock(st.Body.List)
						if st.Else != nil {
							if eb, ok := st.Else.(*ast.BlockStmt); ok {
								walkBlock(eb.List)
							} else {
								walkStmt(st.Else, nil)
							}
						}
					case *ast.AssignStmt:
						if len(st.Rhs) == 1 {
							if fl, ok := st.Rhs[0].(*ast.FuncLit); ok {
								walkBlock(fl.Body.List)
							}
							if c, ok := st.Rhs[0].(*ast.CallExpr); ok && usesWriter(c, ws) {
								if ifs, ok := next.(*ast.IfStmt); ok && ifs.Init == nil {
									if name, ok := isErrNotNil(ifs.Cond); ok && name == lastLHSName(st) && bodyReturns(ifs.Body) {
										checked[c] = true
									}
								}
								// `_, err := f(w, …)` directly followed by `return err` / `return …, err`
								if rs, ok := next.(*ast.ReturnStmt); ok && len(rs.Results) > 0 {
									if id, ok := rs.Results[len(rs.Results)-1].(*ast.Ident); ok && id.Name == lastLHSName(st) && id.Name != "_" {
										checked[c] = true
									}
								}
							}
						}
					case *ast.ReturnStmt:
						for _, r := range st.Results {
							if c, ok := r.(*ast.CallExpr); ok && usesWriter(c, ws) {
								checked[c] = true
							}
						}
					case *ast.BlockStmt:
						walkBlock(st.List)
					case *ast.ForStmt:
						walkBlock(st.Body.List)
					case *ast.RangeStmt:
						walkBlock(st.Body.List)
					case *ast.SwitchStmt:
						for _, cc := range st.Body.List {
							walkBlock(cc.(*ast.CaseClause).Body)
						}
					case *ast.TypeSwitchStmt:
						for _, cc := range st.Body.List {
							walkBlock(cc.(*ast.CaseClause).Body)
						}
					}
				}
				walkBlock(fn.Body.List)
				ast.Inspect(fn.Body, func(n ast.Node) bool {
					if c, ok := n.(*ast.CallExpr); ok && usesWriter(c, ws) && !captureOnly[calleeName(c)] {
						calls = append(calls, c)
					}
					return true
				})
				for _, c := range calls {
					p := fset.Position(c.Pos())
					rel, _ := filepath.Rel(repo, p.Filename)
					sites = append(sites, site{rel, p.Line, src(c.Fun), checked[c]})
				}
			}
		}
	}
	sort.Slice(sites, func(i, j int) bool {
		if sites[i].file != sites[j].file {
			return sites[i].file < sites[j].file
		}
		return sites[i].line < sites[j].line
	})
	var b strings.Builder
	b.WriteString("-- GENERATED by extract/ from /repo on every check; do not edit.\nnamespace Tab.Generated\n")
	b.WriteString("structure WriteSite where\n  file : String\n  line : Nat\n  call : String\n  checked : Bool\n  deriving DecidableEq, Repr\n\n")
	b.WriteString("def writeSites : List WriteSite := [\n")
	for i, s := range sites {
		sep := ","
		if i == len(sites)-1 {
			sep = ""
		}
		fmt.Fprintf(&b, "  ⟨%s, %d, %s, %v⟩%s\n", leanStr(s.file), s.line, leanStr(s.call), s.checked, sep)
	}
	b.WriteString("]\nend Tab.Generated\n")
	return os.WriteFile(filepath.Join(out, "WriteSites.lean"), []byte(b.String()), 0o644)
}

// ---------------------------------------------------------------- type switch

func typeSwitch(repo, out string) error {
	files, err := parseDir(repo)
	if err != nil {
		return err
	}
	type arm struct{ typ, assign string }
	var arms []arm
	found := false
	// every type switch in the core package that has a Stringer arm (wherever a refactoring moved it)
	for _, f := range files {
		for _, d := range f.Decls {
			fn, ok := d.(*ast.FuncDecl)
			if !ok || fn.Body == nil {
				continue
			}
			ast.Inspect(fn.Body, func(n ast.Node) bool {
				ts, ok := n.(*ast.TypeSwitchStmt)
				if !ok || found {
					return true
				}
				hasStringer := false
				for _, c := range ts.Body.List {
					for _, t := range c.(*ast.CaseClause).List {
						if src(t) == "Stringer" {
							hasStringer = true
						}
					}
				}
				if !hasStringer {
					return true
				}
				found = true
				for _, c := range ts.Body.List {
					cc := c.(*ast.CaseClause)
					typ := "default"
					if cc.List != nil {
						var ts []string
						for _, t := range cc.List {
							ts = append(ts, src(t))
						}
						typ = strings.Join(ts, ",")
					}
					assign := ""
					for _, s := range cc.Body {
						if as, ok := s.(*ast.AssignStmt); ok && len(as.Lhs) == 1 && strings.HasSuffix(src(as.Lhs[0]), "str") {
							assign = src(as.Rhs[0])
						}
						if rs, ok := s.(*ast.ReturnStmt); ok && len(rs.Results) == 1 && assign == "" {
							assign = src(rs.Results[0])
						}
					}
					arms = append(arms, arm{typ, assign})
				}
				return false
			})
		}
	}
	var b strings.Builder
	b.WriteString("-- GENERATED by extract/ from /repo on every check; do not edit.\nnamespace Tab.Generated\n")
	fmt.Fprintf(&b, "def typeSwitchFound : Bool := %v\n", found)
	b.WriteString("/-- (case type, expression assigned to the cell text in that arm) in source order -/\n")
	b.WriteString("def typeSwitchArms : List (String × String) := [\n")
	for i, a := range arms {
		sep := ","
		if i == len(arms)-1 {
			sep = ""
		}
		fmt.Fprintf(&b, "  (%s, %s)%s\n", leanStr(a.typ), leanStr(a.assign), sep)
	}
	b.WriteString("]\nend Tab.Generated\n")
	return os.WriteFile(filepath.Join(out, "TypeSwitch.lean"), []byte(b.String()), 0o644)
}

// ---------------------------------------------------------------- callback schedule

// isInvoke: a call whose second argument is one of the exported CB_AT_* time constants — the
// callback-invoking helper, whatever it is called.
func isInvoke(c *ast.CallExpr) bool {
	if len(c.Args) < 3 {
		return false
	}
	id, ok := c.Args[1].(*ast.Ident)
	return ok && strings.HasPrefix(id.Name, "CB_AT_")
}

func containsInvoke(fn *ast.FuncDecl) bool {
	found := false
	ast.Inspect(fn.Body, func(n ast.Node) bool {
		if c, ok := n.(*ast.CallExpr); ok && isInvoke(c) {
			found = true
		}
		return !found
	})
	return found
}

// fieldOf: the callback-set expression reduced to its field name (receiver variable names are free to change)
func fieldOf(e ast.Expr) string {
	if s, ok := e.(*ast.SelectorExpr); ok {
		return s.Sel.Name
	}
	return src(e)
}

func schedule(repo, out string) error {
	files, err := parseDir(repo)
	if err != nil {
		return err
	}
	type call struct {
		fn     string
		depth  int
		guard  string
		set    string
		time   string
		target string
		addrOf bool
	}
	var calls []call
	methods := map[string]*ast.FuncDecl{} // by name; Add only for Row
	for _, f := range files {
		for _, d := range f.Decls {
			if fn, ok := d.(*ast.FuncDecl); ok && fn.Body != nil && fn.Recv != nil {
				key := fn.Name.Name
				if key == "Add" && !strings.Contains(src(fn.Recv.List[0].Type), "Row") {
					continue
				}
				methods[key] = fn
			}
		}
	}
	// the per-row traversal: the method InvokeRenderCallbacks calls that itself invokes callbacks
	rowTraversal := ""
	if top := methods["InvokeRenderCallbacks"]; top != nil {
		ast.Inspect(top.Body, func(n ast.Node) bool {
			if c, ok := n.(*ast.CallExpr); ok {
				if s, ok := c.Fun.(*ast.SelectorExpr); ok {
					if m := methods[s.Sel.Name]; m != nil && s.Sel.Name != "InvokeRenderCallbacks" && containsInvoke(m) {
						rowTraversal = s.Sel.Name
					}
				}
			}
			return true
		})
	}
	wanted := [][2]string{{"InvokeRenderCallbacks", "InvokeRenderCallbacks"}, {rowTraversal, "rowTraversal"}, {"Add", "Add"}, {"AddRow", "AddRow"}, {"AddHeaders", "AddHeaders"}}
	for _, wn := range wanted {
		fn := methods[wn[0]]
		label := wn[1]
		if fn == nil {
			continue
		}
		var walk func(n ast.Node, depth int, guard string)
		walk = func(n ast.Node, depth int, guard string) {
			switch st := n.(type) {
			case *ast.BlockStmt:
				for _, s := range st.List {
					walk(s, depth, guard)
				}
			case *ast.ForStmt:
				walk(st.Body, depth+1, guard)
			case *ast.RangeStmt:
				walk(st.Body, depth+1, guard)
			case *ast.IfStmt:
				g := "if"
				c := src(st.Cond)
				// the only two guards the documented schedule knows: "the column exists", "a header exists"
				if strings.HasSuffix(c, "!= nil") {
					if strings.Contains(c, "eader") {
						g = "header"
					} else {
						g = "nonnil"
					}
				}
				walk(st.Body, depth, g)
				if st.Else != nil {
					walk(st.Else, depth, "else")
				}
			case *ast.ExprStmt:
				if c, ok := st.X.(*ast.CallExpr); ok {
					if isInvoke(c) {
						// the address of a plain variable (a loop copy, a by-value parameter) is not the live object;
						// the address of a slice element or field is
						addr := false
						if u, ok := c.Args[2].(*ast.UnaryExpr); ok && u.Op == token.AND {
							_, addr = u.X.(*ast.Ident)
						}
						calls = append(calls, call{label, depth, guard, fieldOf(c.Args[0]), src(c.Args[1]), src(c.Args[2]), addr})
					}
					if s, ok := c.Fun.(*ast.SelectorExpr); ok && rowTraversal != "" && s.Sel.Name == rowTraversal {
						calls = append(calls, call{label, depth, guard, "->row", "", "", false})
					}
				}
			}
		}
		walk(fn.Body, 0, "")
	}
	var b strings.Builder
	b.WriteString("-- GENERATED by extract/ from /repo on every check; do not edit.\nnamespace Tab.Generated\n")
	b.WriteString("structure SchedCall where\n  fn : String\n  depth : Nat\n  guard : String\n  set : String\n  time : String\n  target : String\n  targetAddrOf : Bool\n  deriving DecidableEq, Repr\n\n")
	b.WriteString("/-- every callback invocation of the core package's render/add paths, in source order -/\n")
	b.WriteString("def schedule : List SchedCall := [\n")
	for i, c := range calls {
		sep := ","
		if i == len(calls)-1 {
			sep = ""
		}
		fmt.Fprintf(&b, "  ⟨%s, %d, %s, %s, %s, %s, %v⟩%s\n", leanStr(c.fn), c.depth, leanStr(c.guard), leanStr(c.set), leanStr(c.time), leanStr(c.target), c.addrOf, sep)
	}
	b.WriteString("]\nend Tab.Generated\n")
	return os.WriteFile(filepath.Join(out, "Schedule.lean"), []byte(b.String()), 0o644)
}

// ---------------------------------------------------------------- globals

func globals(repo, out string) error {
	type gv struct {
		pkg, name    string
		mutated      bool // written by a statement outside init / its own declaration
		mutable      bool // of a kind that can be shared mutable state (not an error value / key pointer)
		lockGuarded  bool
		accessCount  int
		unguardedAcc int
	}
	var all []gv
	var pkgs []string
	filepath.Walk(repo, func(p string, info os.FileInfo, err error) error {
		if err == nil && info.IsDir() {
			base := filepath.Base(p)
			if strings.HasPrefix(base, ".") && p != repo {
				return filepath.SkipDir
			}
			pkgs = append(pkgs, p)
		}
		return nil
	})
	sort.Strings(pkgs)
	for _, dir := range pkgs {
		files, err := parseDir(dir)
		if err != nil || len(files) == 0 {
			continue
		}
		rel, _ := filepath.Rel(repo, dir)
		names := map[string]*gv{}
		concurrencySafe := map[string]bool{}
		pkgObjs := map[*ast.Object]bool{}
		var order []string
		for _, f := range files {
			for _, d := range f.Decls {
				gd, ok := d.(*ast.GenDecl)
				if !ok || gd.Tok != token.VAR {
					continue
				}
				for _, sp := range gd.Specs {
					vs := sp.(*ast.ValueSpec)
					for _, n := range vs.Names {
						if n.Name == "_" {
							continue
						}
						names[n.Name] = &gv{pkg: rel, name: n.Name}
						order = append(order, n.Name)
						// values documented as safe for concurrent use by multiple goroutines: calling their
						// methods is not a mutation of shared state
						for i, v := range vs.Values {
							if i < len(vs.Names) && vs.Names[i] == n {
								if c, ok := v.(*ast.CallExpr); ok {
									switch src(c.Fun) {
									case "strings.NewReplacer", "regexp.MustCompile", "regexp.MustCompilePOSIX":
										concurrencySafe[n.Name] = true
									}
								}
							}
						}
						if n.Obj != nil {
							pkgObjs[n.Obj] = true
						}
					}
				}
			}
		}
		// self-locking methods: every use of the receiver (other than as the receiver of Lock/Unlock itself)
		// lies between recv[.mu].Lock()/RLock() and the matching Unlock (or a deferred one), writes under
		// the exclusive lock only.  A call of such a method on a package-level variable is a guarded access.
		selfLocking := map[string]bool{}
		notSelfLocking := map[string]bool{}
		for _, f := range files {
			for _, d := range f.Decls {
				fn, ok := d.(*ast.FuncDecl)
				if !ok || fn.Body == nil || fn.Recv == nil || len(fn.Recv.List) != 1 || len(fn.Recv.List[0].Names) != 1 {
					continue
				}
				recv := fn.Recv.List[0].Names[0].Name
				if methodSelfLocks(fn, recv) {
					selfLocking[fn.Name.Name] = true
				} else {
					notSelfLocking[fn.Name.Name] = true
				}
			}
		}
		for m := range notSelfLocking {
			delete(selfLocking, m)
		}
		// scan function bodies for writes to those names
		for _, f := range files {
			for _, d := range f.Decls {
				fn, ok := d.(*ast.FuncDecl)
				if !ok || fn.Body == nil {
					continue
				}
				isInit := fn.Name.Name == "init" && fn.Recv == nil
				// local shadowing is ignored: conservative (may flag more)
				rootOf := func(e ast.Expr) string {
					for {
						switch x := e.(type) {
						case *ast.SelectorExpr:
							e = x.X
						case *ast.IndexExpr:
							e = x.X
						case *ast.StarExpr:
							e = x.X
						case *ast.ParenExpr:
							e = x.X
						case *ast.Ident:
							return x.Name
						default:
							return ""
						}
					}
				}
				// lock regions: between X.Lock()/RLock() and the following X.Unlock()/RUnlock() (or to the end
				// of the function when the unlock is deferred), for any X rooted at a package-level variable
				type region struct {
					from, to token.Pos
					shared   bool // RLock: readers may run concurrently
				}
				var regions []region
				var locks []region
				deferred := map[*ast.CallExpr]bool{}
				hasDeferUnlock := false
				ast.Inspect(fn.Body, func(n ast.Node) bool {
					switch st := n.(type) {
					case *ast.DeferStmt:
						deferred[st.Call] = true
						if s, ok := st.Call.Fun.(*ast.SelectorExpr); ok && (s.Sel.Name == "Unlock" || s.Sel.Name == "RUnlock") {
							if _, isG := names[rootOf(s.X)]; isG {
								hasDeferUnlock = true
							}
						}
					case *ast.CallExpr:
						if deferred[st] {
							return true
						}
						if s, ok := st.Fun.(*ast.SelectorExpr); ok {
							if _, isG := names[rootOf(s.X)]; isG {
								switch s.Sel.Name {
								case "Lock", "RLock":
									locks = append(locks, region{from: st.Pos(), shared: s.Sel.Name == "RLock"})
								case "Unlock", "RUnlock":
									if len(locks) > 0 {
										l := locks[len(locks)-1]
										regions = append(regions, region{l.from, st.Pos(), l.shared})
										locks = locks[:len(locks)-1]
									}
								}
							}
						}
					}
					return true
				})
				if hasDeferUnlock {
					for _, l := range locks {
						regions = append(regions, region{l.from, fn.Body.End(), l.shared})
					}
				}
				// a read is guarded inside any region; a write only inside an exclusive one
				guarded := func(pos token.Pos, write bool) bool {
					for _, r := range regions {
						if r.from < pos && pos < r.to && !(write && r.shared) {
							return true
						}
					}
					return false
				}
				writes := map[*ast.Ident]bool{} // identifiers that are the root of an assignment target
				var rootIdent func(e ast.Expr) *ast.Ident
				rootIdent = func(e ast.Expr) *ast.Ident {
					switch x := e.(type) {
					case *ast.SelectorExpr:
						return rootIdent(x.X)
					case *ast.IndexExpr:
						return rootIdent(x.X)
					case *ast.StarExpr:
						return rootIdent(x.X)
					case *ast.ParenExpr:
						return rootIdent(x.X)
					case *ast.Ident:
						return x
					}
					return nil
				}
				ast.Inspect(fn.Body, func(n ast.Node) bool {
					switch st := n.(type) {
					case *ast.AssignStmt:
						for _, l := range st.Lhs {
							if id := rootIdent(l); id != nil {
								writes[id] = true
							}
						}
					case *ast.IncDecStmt:
						if id := rootIdent(st.X); id != nil {
							writes[id] = true
						}
					}
					return true
				})
				lockRecv := map[*ast.Ident]bool{}     // identifiers used only as the receiver of Lock/Unlock
				selfLockRecv := map[*ast.Ident]bool{} // identifiers used as the receiver of a self-locking method
				ast.Inspect(fn.Body, func(n ast.Node) bool {
					if c, ok := n.(*ast.CallExpr); ok {
						if s, ok := c.Fun.(*ast.SelectorExpr); ok {
							switch s.Sel.Name {
							case "Lock", "Unlock", "RLock", "RUnlock":
								if id := rootIdent(s.X); id != nil {
									lockRecv[id] = true
								}
							default:
								if id, ok := s.X.(*ast.Ident); ok && selfLocking[s.Sel.Name] {
									selfLockRecv[id] = true
								}
							}
						}
					}
					return true
				})
				ast.Inspect(fn.Body, func(n ast.Node) bool {
					switch st := n.(type) {
					case *ast.AssignStmt:
						for _, l := range st.Lhs {
							if g, ok := names[rootOf(l)]; ok && !isInit {
								g.mutated = true
							}
						}
					case *ast.IncDecStmt:
						if g, ok := names[rootOf(st.X)]; ok && !isInit {
							g.mutated = true
						}
					case *ast.UnaryExpr:
						if st.Op == token.AND {
							if g, ok := names[rootOf(st.X)]; ok && !isInit {
								g.mutated = true
							}
						}
					case *ast.CallExpr:
						if id, ok := st.Fun.(*ast.Ident); ok && id.Name == "delete" && len(st.Args) > 0 {
							if g, ok := names[rootOf(st.Args[0])]; ok && !isInit {
								g.mutated = true
							}
						}
						// a field or element of a package-level variable handed to a callee (`access(registry.table)`):
						// what it refers to may be written there, so it counts as written after init — and the
						// place where it is handed over must then lie inside the lock like any other use
						if !isInit {
							// callees that may write through what they are given: a function of this package, a
							// closure or a function-valued parameter (a plain identifier that is not a builtin),
							// and the in-place sorters; other package-qualified calls (fmt, strings, …) are
							// taken to read (there are no types here to tell a string from a map)
							mayWrite := false
							switch f := st.Fun.(type) {
							case *ast.Ident:
								switch f.Name {
								case "len", "cap", "append", "copy", "delete", "make", "new", "panic", "print", "println", "min", "max":
								default:
									mayWrite = true
								}
							case *ast.SelectorExpr:
								if x, ok := f.X.(*ast.Ident); ok && (x.Name == "sort" || x.Name == "slices") {
									mayWrite = true
								}
							}
							builtinRead := !mayWrite
							for _, a := range st.Args {
								switch a.(type) {
								case *ast.SelectorExpr, *ast.IndexExpr:
									if id := rootIdent(a); id != nil && !builtinRead && (id.Obj == nil || pkgObjs[id.Obj]) {
										if g, ok := names[id.Name]; ok && !concurrencySafe[id.Name] {
											g.mutated = true
										}
									}
								}
							}
						}
						// a method called on a package-level variable may mutate what it points to
						// (e.g. (*template.Template).Funcs); pure-by-convention and lock methods excepted
						if sel, ok := st.Fun.(*ast.SelectorExpr); ok && !isInit {
							if id, ok := sel.X.(*ast.Ident); ok && (id.Obj == nil || pkgObjs[id.Obj]) {
								if g, ok := names[id.Name]; ok {
									switch sel.Sel.Name {
									case "Lock", "Unlock", "RLock", "RUnlock", "Error", "String", "GoString", "Value":
									default:
										if !concurrencySafe[id.Name] || sel.Sel.Name == "Longest" {
											g.mutated = true
										}
									}
								}
							}
						}
					case *ast.Ident:
						// any use of the variable other than as the receiver of its own Lock/Unlock
						if g, ok := names[st.Name]; ok && !lockRecv[st] && (st.Obj == nil || pkgObjs[st.Obj]) {
							g.accessCount++
							if !selfLockRecv[st] && !guarded(st.Pos(), writes[st]) {
								g.unguardedAcc++
							}
						}
					}
					return true
				})
			}
		}
		for _, n := range order {
			g := names[n]
			g.lockGuarded = g.accessCount > 0 && g.unguardedAcc == 0
			all = append(all, *g)
		}
	}
	var b strings.Builder
	b.WriteString("-- GENERATED by extract/ from /repo on every check; do not edit.\nnamespace Tab.Generated\n")
	b.WriteString("structure GlobalVar where\n  pkg : String\n  name : String\n  mutatedOutsideInit : Bool\n  fieldAccesses : Nat\n  unguardedAccesses : Nat\n  deriving DecidableEq, Repr\n\n")
	b.WriteString("/-- every package-level variable of every non-test file -/\n")
	b.WriteString("def globals : List GlobalVar := [\n")
	for i, g := range all {
		sep := ","
		if i == len(all)-1 {
			sep = ""
		}
		fmt.Fprintf(&b, "  ⟨%s, %s, %v, %d, %d⟩%s\n", leanStr(g.pkg), leanStr(g.name), g.mutated, g.accessCount, g.unguardedAcc, sep)
	}
	b.WriteString("]\nend Tab.Generated\n")
	return os.WriteFile(filepath.Join(out, "Globals.lean"), []byte(b.String()), 0o644)
}

// ---------------------------------------------------------------- constants the model copies from the source

func findFunc(files []*ast.File, name string, recvContains string) *ast.FuncDecl {
	for _, f := range files {
		for _, d := range f.Decls {
			fn, ok := d.(*ast.FuncDecl)
			if !ok || fn.Body == nil || fn.Name.Name != name {
				continue
			}
			if recvContains != "" && (fn.Recv == nil || !strings.Contains(src(fn.Recv.List[0].Type), recvContains)) {
				continue
			}
			return fn
		}
	}
	return nil
}

func strLit(e ast.Expr) (string, bool) {
	b, ok := e.(*ast.BasicLit)
	if !ok || b.Kind != token.STRING {
		return "", false
	}
	v, err := strconvUnquote(b.Value)
	return v, err == nil
}

// fieldName: "X" from a string literal "X", a selector d.X, or &d.X
func fieldName(e ast.Expr) string {
	if v, ok := strLit(e); ok {
		return v
	}
	switch x := e.(type) {
	case *ast.SelectorExpr:
		return x.Sel.Name
	case *ast.UnaryExpr:
		return fieldName(x.X)
	}
	return ""
}

func leanBytes(s string) string {
	var l []string
	for i := 0; i < len(s); i++ {
		l = append(l, fmt.Sprint(s[i]))
	}
	return "[" + strings.Join(l, ", ") + "]"
}

func constants(repo, out string) error {
	var b strings.Builder
	b.WriteString("-- GENERATED by extract/ from /repo on every check; do not edit.\nnamespace Tab.Generated\n")
	strList := func(name, doc string, l []string) {
		fmt.Fprintf(&b, "/-- %s -/\ndef %s : List (List UInt8) := [", doc, name)
		for i, x := range l {
			if i > 0 {
				b.WriteString(", ")
			}
			b.WriteString(leanBytes(x))
		}
		b.WriteString("]\n")
	}
	// 1. Populate: base defaults and the ordered (toFill, src) pairs
	dfiles, err := parseDir(filepath.Join(repo, "texttable", "decoration"))
	if err != nil {
		return err
	}
	var base, pairs [][2]string
	if pop := findFunc(dfiles, "Populate", "Decoration"); pop != nil {
		for _, st := range pop.Body.List {
			switch x := st.(type) {
			case *ast.IfStmt: // if d.X == "" { d.X = "lit" }
				if len(x.Body.List) == 1 {
					if as, ok := x.Body.List[0].(*ast.AssignStmt); ok && len(as.Lhs) == 1 && len(as.Rhs) == 1 {
						if v, ok := strLit(as.Rhs[0]); ok && fieldName(as.Lhs[0]) != "" {
							base = append(base, [2]string{fieldName(as.Lhs[0]), v})
						}
					}
				}
			case *ast.ExprStmt:
				if c, ok := x.X.(*ast.CallExpr); ok && len(c.Args) >= 2 {
					a, s2 := fieldName(c.Args[len(c.Args)-2]), fieldName(c.Args[len(c.Args)-1])
					if a != "" && s2 != "" {
						pairs = append(pairs, [2]string{a, s2})
					}
				}
			}
		}
	}
	b.WriteString("/-- Populate: fields defaulted to a literal when empty, in source order -/\ndef populateBase : List (String × List UInt8) := [")
	for i, p := range base {
		if i > 0 {
			b.WriteString(", ")
		}
		fmt.Fprintf(&b, "(%s, %s)", leanStr(p[0]), leanBytes(p[1]))
	}
	b.WriteString("]\n/-- Populate: (field to fill, field it defaults to), in source order -/\ndef populatePairs : List (String × String) := [")
	for i, p := range pairs {
		if i > 0 {
			b.WriteString(", ")
		}
		fmt.Fprintf(&b, "(%s, %s)", leanStr(p[0]), leanStr(p[1]))
	}
	b.WriteString("]\n")
	// 2. auto: the switch's case literals and what ListStyles appends
	afiles, err := parseDir(filepath.Join(repo, "auto"))
	if err != nil {
		return err
	}
	var cases, extra []string
	for _, f := range afiles {
		ast.Inspect(f, func(n ast.Node) bool {
			switch x := n.(type) {
			case *ast.CaseClause:
				for _, e := range x.List {
					if v, ok := strLit(e); ok {
						cases = append(cases, v)
					}
				}
			case *ast.CallExpr:
				if id, ok := x.Fun.(*ast.Ident); ok && id.Name == "append" {
					for _, e := range x.Args[1:] {
						if v, ok := strLit(e); ok {
							extra = append(extra, v)
						}
					}
				}
			}
			return true
		})
	}
	strList("autoCases", "auto.Wrap: the string literals of the style switch, in source order", cases)
	strList("listStylesExtra", "auto.ListStyles: the literals appended to the registered decoration names", extra)
	// 3. markdown: the (old, new) pairs of strings.Replace in the cell escaper; 4. every string literal written by json / csv
	lits := func(pkg string, pred func(c *ast.CallExpr) []ast.Expr) []string {
		files, err := parseDir(filepath.Join(repo, pkg))
		if err != nil {
			return nil
		}
		var l []string
		for _, f := range files {
			ast.Inspect(f, func(n ast.Node) bool {
				if c, ok := n.(*ast.CallExpr); ok {
					for _, e := range pred(c) {
						if v, ok := strLit(e); ok {
							l = append(l, v)
						}
					}
				}
				return true
			})
		}
		return l
	}
	calledAs := func(c *ast.CallExpr, names ...string) bool {
		s, ok := c.Fun.(*ast.SelectorExpr)
		if !ok {
			return false
		}
		for _, n := range names {
			if s.Sel.Name == n {
				return true
			}
		}
		return false
	}
	md := lits("markdown", func(c *ast.CallExpr) []ast.Expr {
		if calledAs(c, "Replace", "ReplaceAll") && len(c.Args) >= 3 {
			return c.Args[1:3]
		}
		if calledAs(c, "NewReplacer") {
			return c.Args
		}
		return nil
	})
	strList("mdReplacements", "markdown cell escaper: old/new literals of its strings.Replace calls, innermost call last in source text", md)
	js := lits("json", func(c *ast.CallExpr) []ast.Expr {
		if calledAs(c, "WriteString") && len(c.Args) == 2 {
			return c.Args[1:]
		}
		return nil
	})
	strList("jsonWritten", "json: every string literal passed to io.WriteString, in source order", js)
	b.WriteString("end Tab.Generated\n")
	return os.WriteFile(filepath.Join(out, "Constants.lean"), []byte(b.String()), 0o644)
}

func strconvUnquote(v string) (string, error) { return strconv.Unquote(v) }

// ---------------------------------------------------------------- integer widths

// ints lists every struct field whose type is an integer type narrower than int, and every explicit
// conversion to such a type, in the library's packages.  The model counts rows, columns, widths and
// heights with unbounded naturals; that stands for Go's int (64 bits, sizes bounded by memory) and
// for nothing narrower.
func ints(repo, out string) error {
	narrow := map[string]bool{"int8": true, "int16": true, "int32": true, "uint8": true, "uint16": true, "uint32": true}
	dirs := []string{".", "auto", "csv", "html", "json", "markdown", "texttable", "texttable/decoration", "length", "properties", "properties/align"}
	var fields, convs []string
	for _, d := range dirs {
		files, err := parseDir(filepath.Join(repo, d))
		if err != nil {
			continue
		}
		// named types of the package with a narrow underlying type
		named := map[string]string{}
		for _, f := range files {
			for _, decl := range f.Decls {
				gd, ok := decl.(*ast.GenDecl)
				if !ok {
					continue
				}
				for _, sp := range gd.Specs {
					if ts, ok := sp.(*ast.TypeSpec); ok {
						if id, ok := ts.Type.(*ast.Ident); ok && narrow[id.Name] {
							named[ts.Name.Name] = id.Name
						}
					}
				}
			}
		}
		isNarrow := func(e ast.Expr) (string, bool) {
			id, ok := e.(*ast.Ident)
			if !ok {
				return "", false
			}
			if narrow[id.Name] {
				return id.Name, true
			}
			if u, ok := named[id.Name]; ok {
				return id.Name + "=" + u, true
			}
			return "", false
		}
		for _, f := range files {
			ast.Inspect(f, func(n ast.Node) bool {
				switch x := n.(type) {
				case *ast.TypeSpec:
					if st, ok := x.Type.(*ast.StructType); ok {
						for _, fl := range st.Fields.List {
							if tn, ok := isNarrow(fl.Type); ok {
								for _, nm := range fl.Names {
									fields = append(fields, fmt.Sprintf("%s: %s.%s %s", d, x.Name.Name, nm.Name, tn))
								}
							}
						}
					}
				case *ast.CallExpr:
					if tn, ok := isNarrow(x.Fun); ok && len(x.Args) == 1 {
						if _, lit := x.Args[0].(*ast.BasicLit); !lit {
							convs = append(convs, fmt.Sprintf("%s: %s(%s)", d, tn, src(x.Args[0])))
						}
					}
				}
				return true
			})
		}
	}
	var b strings.Builder
	b.WriteString("-- GENERATED by extract/ from /repo on every check; do not edit.\nnamespace Tab.Generated\n")
	list := func(name, doc string, l []string) {
		fmt.Fprintf(&b, "/-- %s -/\ndef %s : List String := [", doc, name)
		for i, x := range l {
			if i > 0 {
				b.WriteString(", ")
			}
			b.WriteString(leanStr(x))
		}
		b.WriteString("]\n")
	}
	list("narrowIntFields", "struct fields of an integer type narrower than int", fields)
	list("narrowIntConversions", "explicit conversions of a non-literal to an integer type narrower than int", convs)
	b.WriteString("end Tab.Generated\n")
	return os.WriteFile(filepath.Join(out, "Ints.lean"), []byte(b.String()), 0o644)
}

// methodSelfLocks: see the comment at its use in globals.
func methodSelfLocks(fn *ast.FuncDecl, recv string) bool {
	type region struct {
		from, to token.Pos
		shared   bool
	}
	var rootIdent func(e ast.Expr) *ast.Ident
	rootIdent = func(e ast.Expr) *ast.Ident {
		switch x := e.(type) {
		case *ast.SelectorExpr:
			return rootIdent(x.X)
		case *ast.IndexExpr:
			return rootIdent(x.X)
		case *ast.StarExpr:
			return rootIdent(x.X)
		case *ast.ParenExpr:
			return rootIdent(x.X)
		case *ast.Ident:
			return x
		}
		return nil
	}
	var regions, locks []region
	deferred := map[*ast.CallExpr]bool{}
	hasDeferUnlock := false
	lockRecv := map[*ast.Ident]bool{}
	ast.Inspect(fn.Body, func(n ast.Node) bool {
		switch st := n.(type) {
		case *ast.DeferStmt:
			deferred[st.Call] = true
			if s, ok := st.Call.Fun.(*ast.SelectorExpr); ok && (s.Sel.Name == "Unlock" || s.Sel.Name == "RUnlock") {
				if id := rootIdent(s.X); id != nil && id.Name == recv {
					hasDeferUnlock = true
					lockRecv[id] = true
				}
			}
		case *ast.CallExpr:
			if deferred[st] {
				return true
			}
			if s, ok := st.Fun.(*ast.SelectorExpr); ok {
				if id := rootIdent(s.X); id != nil && id.Name == recv {
					switch s.Sel.Name {
					case "Lock", "RLock":
						lockRecv[id] = true
						locks = append(locks, region{from: st.Pos(), shared: s.Sel.Name == "RLock"})
					case "Unlock", "RUnlock":
						lockRecv[id] = true
						if len(locks) > 0 {
							l := locks[len(locks)-1]
							regions = append(regions, region{l.from, st.Pos(), l.shared})
							locks = locks[:len(locks)-1]
						}
					}
				}
			}
		}
		return true
	})
	if hasDeferUnlock {
		for _, l := range locks {
			regions = append(regions, region{l.from, fn.Body.End(), l.shared})
		}
	}
	if len(regions) == 0 {
		return false
	}
	writes := map[*ast.Ident]bool{}
	ast.Inspect(fn.Body, func(n ast.Node) bool {
		switch st := n.(type) {
		case *ast.AssignStmt:
			for _, l := range st.Lhs {
				if _, plain := l.(*ast.Ident); plain {
					continue // assigning to a local of the same name is not a write through the receiver
				}
				if id := rootIdent(l); id != nil {
					writes[id] = true
				}
			}
		case *ast.IncDecStmt:
			if id := rootIdent(st.X); id != nil {
				writes[id] = true
			}
		case *ast.CallExpr:
			if id, ok := st.Fun.(*ast.Ident); ok && id.Name == "delete" && len(st.Args) > 0 {
				if r := rootIdent(st.Args[0]); r != nil {
					writes[r] = true
				}
			}
		}
		return true
	})
	ok := true
	ast.Inspect(fn.Body, func(n ast.Node) bool {
		id, isId := n.(*ast.Ident)
		if !isId || id.Name != recv || lockRecv[id] {
			return true
		}
		in := false
		for _, r := range regions {
			if r.from < id.Pos() && id.Pos() < r.to && !(writes[id] && r.shared) {
				in = true
			}
		}
		if !in {
			ok = false
		}
		return true
	})
	return ok
}

// ---------------------------------------------------------------- representation facts (aliasing)

// aliasing extracts the syntactic facts behind three things the model takes for granted by its
// representation: (1) a link of a property chain is never written after it was built (owners share
// tails of chains, so an in-place write would show through another owner); (2) AllRows hands out a
// slice of its own making, not the table's; (3) the column list holds pointers, so Column(n) is the
// live column and stays so when the list grows.
func aliasing(repo, out string) error {
	files, err := parseDir(repo)
	if err != nil {
		return err
	}
	// (1) struct types with a field whose type is an interface declared in the package and that also have
	// a field named like a key: the chain link types.  Field names of those types:
	ifaces := map[string]bool{}
	for _, f := range files {
		for _, d := range f.Decls {
			if gd, ok := d.(*ast.GenDecl); ok {
				for _, sp := range gd.Specs {
					if ts, ok := sp.(*ast.TypeSpec); ok {
						if _, ok := ts.Type.(*ast.InterfaceType); ok {
							ifaces[ts.Name.Name] = true
						}
					}
				}
			}
		}
	}
	linkFields := map[string]string{} // field name -> link type
	var linkTypes []string
	for _, f := range files {
		for _, d := range f.Decls {
			gd, ok := d.(*ast.GenDecl)
			if !ok {
				continue
			}
			for _, sp := range gd.Specs {
				ts, ok := sp.(*ast.TypeSpec)
				if !ok {
					continue
				}
				st, ok := ts.Type.(*ast.StructType)
				if !ok {
					continue
				}
				hasParent, hasKey := false, false
				var names []string
				for _, fl := range st.Fields.List {
					if id, ok := fl.Type.(*ast.Ident); ok && ifaces[id.Name] && id.Name == "propertySet" {
						hasParent = true
					}
					for _, n := range fl.Names {
						names = append(names, n.Name)
						if strings.Contains(strings.ToLower(n.Name), "key") {
							hasKey = true
						}
					}
				}
				if hasParent && hasKey {
					linkTypes = append(linkTypes, ts.Name.Name)
					for _, n := range names {
						linkFields[n] = ts.Name.Name
					}
				}
			}
		}
	}
	var linkWrites []string
	for _, f := range files {
		for _, d := range f.Decls {
			fn, ok := d.(*ast.FuncDecl)
			if !ok || fn.Body == nil {
				continue
			}
			// identifiers bound to a link built in this very function (`x := &T{…}`, `new(T)`): filling in a
			// link nobody else has seen yet is construction, not a write to an existing one
			fresh := map[string]bool{}
			ast.Inspect(fn.Body, func(n ast.Node) bool {
				as, ok := n.(*ast.AssignStmt)
				if !ok || len(as.Lhs) != len(as.Rhs) {
					return true
				}
				for i, r := range as.Rhs {
					id, ok := as.Lhs[i].(*ast.Ident)
					if !ok {
						continue
					}
					e := r
					if u, ok := e.(*ast.UnaryExpr); ok && u.Op == token.AND {
						e = u.X
					}
					if _, ok := e.(*ast.CompositeLit); ok {
						fresh[id.Name] = true
					}
					if c, ok := e.(*ast.CallExpr); ok {
						if f, ok := c.Fun.(*ast.Ident); ok && f.Name == "new" {
							fresh[id.Name] = true
						}
					}
				}
				return true
			})
			ast.Inspect(fn.Body, func(n ast.Node) bool {
				var lhs []ast.Expr
				switch st := n.(type) {
				case *ast.AssignStmt:
					lhs = st.Lhs
				case *ast.IncDecStmt:
					lhs = []ast.Expr{st.X}
				}
				for _, l := range lhs {
					if sel, ok := l.(*ast.SelectorExpr); ok {
						if base, ok := sel.X.(*ast.Ident); ok && fresh[base.Name] {
							continue
						}
						if _, isLink := linkFields[sel.Sel.Name]; isLink && sel.Sel.Name != "properties" {
							linkWrites = append(linkWrites, fmt.Sprintf("%s: %s", fn.Name.Name, src(l)))
						}
					}
				}
				return true
			})
		}
	}
	// (2) AllRows: what it returns
	var allRowsReturns []string
	allRowsOwn := true
	if fn := findFunc(files, "AllRows", "ATable"); fn != nil && fn.Recv != nil && len(fn.Recv.List) == 1 && len(fn.Recv.List[0].Names) == 1 {
		recv := fn.Recv.List[0].Names[0].Name
		ast.Inspect(fn.Body, func(n ast.Node) bool {
			rs, ok := n.(*ast.ReturnStmt)
			if !ok {
				return true
			}
			for _, r := range rs.Results {
				allRowsReturns = append(allRowsReturns, src(r))
				e := r
				for {
					if sl, ok := e.(*ast.SliceExpr); ok {
						e = sl.X
						continue
					}
					if pe, ok := e.(*ast.ParenExpr); ok {
						e = pe.X
						continue
					}
					break
				}
				if sel, ok := e.(*ast.SelectorExpr); ok {
					if id, ok := sel.X.(*ast.Ident); ok && id.Name == recv {
						allRowsOwn = false // hands out (a slice of) a field of the table itself
					}
				}
			}
			return true
		})
	} else {
		allRowsReturns = []string{"(AllRows not found)"}
	}
	// (3) the table's column list: element type
	colElem := ""
	for _, f := range files {
		for _, d := range f.Decls {
			gd, ok := d.(*ast.GenDecl)
			if !ok {
				continue
			}
			for _, sp := range gd.Specs {
				ts, ok := sp.(*ast.TypeSpec)
				if !ok || ts.Name.Name != "ATable" {
					continue
				}
				if st, ok := ts.Type.(*ast.StructType); ok {
					for _, fl := range st.Fields.List {
						if at, ok := fl.Type.(*ast.ArrayType); ok && at.Len == nil {
							el := src(at.Elt)
							if strings.HasSuffix(el, "column") {
								colElem = el
							}
						}
					}
				}
			}
		}
	}
	var b strings.Builder
	b.WriteString("-- GENERATED by extract/ from /repo on every check; do not edit.\nnamespace Tab.Generated\n")
	list := func(name, doc string, l []string) {
		fmt.Fprintf(&b, "/-- %s -/\ndef %s : List String := [", doc, name)
		for i, x := range l {
			if i > 0 {
				b.WriteString(", ")
			}
			b.WriteString(leanStr(x))
		}
		b.WriteString("]\n")
	}
	list("chainLinkTypes", "struct types that are links of a property chain (a parent link of the chain interface type and a key)", linkTypes)
	list("chainLinkWrites", "assignments through a field of a chain link, anywhere in the core package (construction by composite literal is not one)", linkWrites)
	list("allRowsReturns", "the expressions AllRows returns", allRowsReturns)
	fmt.Fprintf(&b, "/-- AllRows returns nothing that is (a slice of) a field of the table -/\ndef allRowsOwnSlice : Bool := %v\n", allRowsOwn)
	fmt.Fprintf(&b, "/-- element type of the table's column list -/\ndef columnListElem : String := %s\n", leanStr(colElem))
	b.WriteString("end Tab.Generated\n")
	return os.WriteFile(filepath.Join(out, "Aliasing.lean"), []byte(b.String()), 0o644)
}
