// Regenerated facts: tiny go/ast extractors (std-lib only) that rewrite
// lean/Tabmodel/Generated/*.lean from /repo's current source on every check.
package main

import (
	"flag"
	"fmt"
	"os"
)

func main() {
	repo := flag.String("repo", "/repo", "repository root")
	out := flag.String("out", ".", "output directory")
	flag.Parse()
	if err := run(*repo, *out); err != nil {
		fmt.Fprintln(os.Stderr, "extract:", err)
		os.Exit(1)
	}
}

func run(repo, out string) error {
	return nil
}
