#!/bin/bash
# Build the framework from files on disk only (offline): Lean model + proofs + driver, Go harness + extractor.
set -e
cd "$(dirname "$0")"
export GOFLAGS=-mod=mod GOPROXY=off GOSUMDB=off GOTOOLCHAIN=local RUNEWIDTH_EASTASIAN=0
mkdir -p .work evidence replays
cp /repo/go.sum harness/go.sum
(cd harness && go build -tags verif -o ../.work/harness .)
(cd extract && go build -o ../.work/extract .)
(cd lean && lake build)
echo setup-ok
