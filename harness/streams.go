package main

// A stream generates one case (ops executed on the real library as they are
// generated) and then applies the property's direct oracle to the real outputs.

type stream struct {
	property   string
	oracleDoc  string
	run        func(g *Gen, caseNo int) (violations []string, known []string, nontrivial bool)
	oracleOnly func(g *Gen) (violations []string, known []string) // replay: oracle over whatever the ops built
}

var streams = map[string]stream{}
