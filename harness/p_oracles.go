package main

// Direct oracles: each checks its property's statement on the real outputs,
// reading the table only through its public observers.  They are used for
// failing-input search and replay, never as the decision.

import (
	"bytes"
	"encoding/json"
	"fmt"
	"html"
	"strings"
	"unicode/utf8"

	"go.pennock.tech/tabular"
	"go.pennock.tech/tabular/length"
	"go.pennock.tech/tabular/properties"
	"go.pennock.tech/tabular/properties/align"
)

// ---------- shared ----------

func effProp(tb *tabular.ATable, col int, key interface{}) interface{} {
	if v := tb.Column(col).GetProperty(key); v != nil {
		return v
	}
	return tb.Column(0).GetProperty(key)
}

type gridRow struct {
	sep   bool
	cells []tabular.Cell
}

func grid(tb *tabular.ATable) (hdr []tabular.Cell, hasHdr bool, rows []gridRow) {
	hdr = tb.Headers()
	hasHdr = hdr != nil
	for _, r := range tb.AllRows() {
		rows = append(rows, gridRow{sep: r.IsSeparator(), cells: r.Cells()})
	}
	return
}

// ---------- text tables: C03 / C04 ----------

func declaredWidth(c *tabular.Cell) (int, bool) {
	if w, ok := c.Item().(tabular.TerminalCellWidther); ok {
		n := w.TerminalCellWidth()
		if n < 0 {
			n = 0
		}
		return n, true
	}
	return 0, false
}

func declaredHeight(c *tabular.Cell) (int, bool) {
	if h, ok := c.Item().(tabular.Heighter); ok {
		return h.Height(), true
	}
	return 0, false
}

// cellLayout: the text lines of a cell and the width each is laid out with
func cellLayout(c *tabular.Cell) (lines []string, widths []int, nlines int, colw int) {
	lines = length.Lines(c.String())
	dw, hasW := declaredWidth(c)
	for _, l := range lines {
		w := length.StringCells(l)
		if hasW && len(lines) == 1 {
			w = dw
		}
		widths = append(widths, w)
		if !hasW && w > colw {
			colw = w
		}
	}
	if hasW {
		colw = dw
	}
	nlines = len(lines)
	if h, ok := declaredHeight(c); ok && h > nlines {
		nlines = h
	}
	return
}

func alignSlot(text string, w, cw int, al interface{}) string {
	pad := cw - w
	if pad < 0 {
		pad = 0
	}
	switch al {
	case align.Right:
		return strings.Repeat(" ", pad) + text
	case align.Center:
		return strings.Repeat(" ", pad/2) + text + strings.Repeat(" ", pad-pad/2)
	}
	return text + strings.Repeat(" ", pad)
}

func oracleText(g *Gen, t, w, res string, sizes bool) (viol, known []string) {
	if res == "PANIC" {
		return []string{"text render panicked: " + lastPanic}, nil
	}
	class, f := parseRes(res)
	tb := g.x.tables[idOf(t)]
	d := g.x.wrappers[idOf(w)].decor
	if class != "ok" {
		return []string{"text render failed: " + class}, nil
	}
	n := tb.NColumns()
	if n == 0 {
		return nil, nil // the property is about tables with at least one column
	}
	out := unhx(f["out"])
	hdr, hasHdr, rows := grid(tb)
	boxless := isBoxless(d)
	// column widths from the cell texts
	cw := make([]int, n)
	overflow := false // a multi-line item that declares a width narrower than its text: outside the stated property
	scan := func(cells []tabular.Cell) {
		for i := range cells {
			if i >= n {
				break
			}
			_, ws, _, colw := cellLayout(&cells[i])
			if colw > cw[i] {
				cw[i] = colw
			}
			_ = ws
		}
	}
	scan(hdr)
	for _, r := range rows {
		if !r.sep {
			scan(r.cells)
		}
	}
	als := make([]interface{}, n)
	for i := 0; i < n; i++ {
		als[i] = effProp(tb, i+1, align.PropertyType)
	}
	rule := func(left, horiz, cross, right string) string {
		if boxless {
			return ""
		}
		var b strings.Builder
		b.WriteString(left)
		for i := 0; i < n; i++ {
			b.WriteString(strings.Repeat(horiz, cw[i]+2))
			if i < n-1 {
				b.WriteString(cross)
			}
		}
		b.WriteString(right)
		return b.String() + "\n"
	}
	content := func(cells []tabular.Cell, left, inner, right string) []string {
		lay := make([]struct {
			lines  []string
			widths []int
		}, n)
		lc := 1
		for i := 0; i < n && i < len(cells); i++ {
			ls, ws, nl, _ := cellLayout(&cells[i])
			lay[i].lines, lay[i].widths = ls, ws
			if nl > lc {
				lc = nl
			}
			for _, x := range ws {
				if x > cw[i] {
					overflow = true
				}
			}
		}
		var out []string
		for l := 0; l < lc; l++ {
			var fields []string
			if left != "" {
				fields = append(fields, left)
			}
			for i := 0; i < n; i++ {
				txt, wd := "", 0
				if l < len(lay[i].lines) {
					txt, wd = lay[i].lines[l], lay[i].widths[l]
				}
				fields = append(fields, alignSlot(txt, wd, cw[i], als[i]))
				if i < n-1 && inner != "" {
					fields = append(fields, inner)
				}
			}
			if right != "" {
				fields = append(fields, right)
			}
			out = append(out, strings.Join(fields, " ")+"\n")
		}
		return out
	}
	var exp []string
	if hasHdr {
		exp = append(exp, rule(d.TopLeft, d.HOuter, d.HTopDown, d.TopRight))
		exp = append(exp, content(hdr, d.VHeader, d.VHeader, d.VHeader)...)
		exp = append(exp, rule(d.HBLeft, d.HOuter, d.HBCross, d.HBRight))
	} else {
		exp = append(exp, rule(d.TopLeft, d.HOuter, d.BTopDown, d.TopRight))
	}
	for _, r := range rows {
		if r.sep {
			exp = append(exp, rule(d.LeftBodyRule, d.HRule, d.CrossPiece, d.RightBodyRule))
		} else {
			exp = append(exp, content(r.cells, d.VBodyBorder, d.VBodyInner, d.VBodyBorder)...)
		}
	}
	exp = append(exp, rule(d.BottomLeft, d.HOuter, d.BBottomUp, d.BottomRight))
	want := strings.Join(exp, "")
	if want != out {
		// locate the first differing line for the message
		wl, ol := strings.SplitAfter(want, "\n"), strings.SplitAfter(out, "\n")
		msg := fmt.Sprintf("output has %d lines, the table's shape and texts require %d", len(ol)-1, len(wl)-1)
		for i := 0; i < len(wl) && i < len(ol); i++ {
			if wl[i] != ol[i] {
				msg = fmt.Sprintf("line %d is %q, the cell texts/alignment/decoration require %q", i, ol[i], wl[i])
				break
			}
		}
		return []string{msg}, nil
	}
	if overflow || sizes {
		// declared sizes deliberately disagree with the measured text: only the slots are specified
		return nil, nil
	}
	// rectangle by the library's own whole-line measure
	total := n - 1
	if !boxless {
		total = 1 + 3*n
	}
	for _, c := range cw {
		total += c
	}
	for i, l := range strings.Split(strings.TrimSuffix(out, "\n"), "\n") {
		if out == "" {
			break
		}
		if m := length.StringCells(l); m != total {
			_ = i
			// every byte is the expected one, yet the line does not measure what its parts add up to.
			// Either a glyph of the decoration is not one cell wide (the layout counts each as one: D25) ...
			wide := false
			dd := d
			for _, gp := range decorFields(&dd) {
				if *gp != "" && length.StringCells(*gp) != 1 {
					wide = true
				}
			}
			if wide {
				known = append(known, "d25-decoration-glyph-not-one-cell")
				break
			}
			// ... or every part measures what was assumed and the dependency's measure is not additive here (D20)
			known = append(known, "d20-nonadditive-line-width")
			break
		}
	}
	return nil, known
}

// ---------- HTML: C06 ----------

type htmlTok struct {
	tag  bool
	body string
}

func htmlTokens(s string) ([]htmlTok, error) {
	var toks []htmlTok
	for len(s) > 0 {
		if s[0] == '<' {
			j := strings.IndexByte(s, '>')
			if j < 0 {
				return nil, fmt.Errorf("unterminated tag")
			}
			toks = append(toks, htmlTok{true, s[1:j]})
			s = s[j+1:]
			continue
		}
		j := strings.IndexByte(s, '<')
		if j < 0 {
			j = len(s)
		}
		if strings.ContainsAny(s[:j], ">") {
			return nil, fmt.Errorf("stray > in text")
		}
		toks = append(toks, htmlTok{false, s[:j]})
		s = s[j:]
	}
	return toks, nil
}

// pendingKnown: classifications of recorded findings made by oracles that have no return value for them;
// the case loop collects and clears it
var pendingKnown []string

// nulNorm: html/template writes U+FFFD for a NUL (recorded finding D23): the one way a text may fail to decode to itself
func nulNorm(s string) string { return strings.ReplaceAll(s, "\x00", "�") }

func oracleHTML(g *Gen, t, w, res string) (viol []string) {
	if res == "PANIC" {
		return []string{"html render panicked: " + lastPanic}
	}
	class, f := parseRes(res)
	if class != "ok" {
		return []string{"html render failed: " + class}
	}
	tb := g.x.tables[idOf(t)]
	cfg := g.x.wrappers[idOf(w)].html
	out := unhx(f["out"])
	toks, err := htmlTokens(out)
	if err != nil {
		return []string{"html output does not tokenise: " + err.Error()}
	}
	// expected token stream
	type etok struct {
		tag   bool
		name  string
		attrs [][2]string
		text  string
		ws    bool
	}
	var exp []etok
	tag := func(name string, attrs ...[2]string) { exp = append(exp, etok{tag: true, name: name, attrs: attrs}) }
	ws := func() { exp = append(exp, etok{ws: true}) }
	text := func(s string) {
		if s != "" {
			exp = append(exp, etok{text: s})
		}
	}
	var tattrs [][2]string
	if cfg.cls != "" {
		tattrs = append(tattrs, [2]string{"class", cfg.cls})
	}
	if cfg.id != "" {
		tattrs = append(tattrs, [2]string{"id", cfg.id})
	}
	tag("table", tattrs...)
	ws()
	if cfg.cap != "" {
		tag("caption")
		text(cfg.cap)
		tag("/caption")
		ws()
	}
	tag("thead")
	ws()
	var expCalls []int
	trAttrs := func(n int) [][2]string {
		if cfg.rc == nil {
			return nil
		}
		expCalls = append(expCalls, n)
		return [][2]string{{"class", cfg.rc[n]}}
	}
	tag("tr", trAttrs(0)...)
	for _, h := range tb.Headers() {
		tag("th")
		text(h.String())
		tag("/th")
	}
	tag("/tr")
	ws()
	tag("/thead")
	ws()
	tag("tbody")
	ws()
	for i, r := range tb.AllRows() {
		if r.IsSeparator() {
			continue
		}
		tag("tr", trAttrs(i+1)...)
		for _, c := range r.Cells() {
			tag("td")
			text(c.String())
			tag("/td")
		}
		tag("/tr")
		ws()
	}
	tag("/tbody")
	ws()
	tag("/table")
	ws()
	// compare
	i := 0
	for _, e := range exp {
		if i >= len(toks) {
			return []string{"html output ends early"}
		}
		tk := toks[i]
		switch {
		case e.ws:
			if tk.tag || strings.TrimSpace(tk.body) != "" {
				return []string{fmt.Sprintf("expected whitespace between tags, found %q", tk.body)}
			}
		case e.tag:
			if !tk.tag {
				return []string{fmt.Sprintf("expected <%s>, found text %q", e.name, tk.body)}
			}
			want := e.name
			rest := tk.body
			if !strings.HasPrefix(rest, want) {
				return []string{fmt.Sprintf("expected <%s>, found <%s>", e.name, tk.body)}
			}
			rest = rest[len(want):]
			for _, a := range e.attrs {
				pre := " " + a[0] + "=\""
				if !strings.HasPrefix(rest, pre) {
					return []string{fmt.Sprintf("tag <%s>: expected attribute %s, found %q", e.name, a[0], rest)}
				}
				rest = rest[len(pre):]
				j := strings.IndexByte(rest, '"')
				if j < 0 {
					return []string{"unterminated attribute value"}
				}
				if got := html.UnescapeString(rest[:j]); got != a[1] {
					if got != nulNorm(a[1]) {
						return []string{fmt.Sprintf("attribute %s decodes to %q, supplied %q", a[0], got, a[1])}
					}
					pendingKnown = append(pendingKnown, "d23-html-nul-becomes-fffd")
				}
				rest = rest[j+1:]
			}
			if rest != "" {
				return []string{fmt.Sprintf("tag <%s> carries extra content %q", e.name, rest)}
			}
		default:
			if tk.tag {
				return []string{fmt.Sprintf("expected text %q, found <%s>", e.text, tk.body)}
			}
			if got := html.UnescapeString(tk.body); got != e.text {
				if got != nulNorm(e.text) {
					return []string{fmt.Sprintf("text decodes to %q, supplied %q", got, e.text)}
				}
				pendingKnown = append(pendingKnown, "d23-html-nul-becomes-fffd")
			}
			if strings.ContainsAny(tk.body, "\"'") {
				return []string{fmt.Sprintf("raw quote in text %q", tk.body)}
			}
		}
		i++
	}
	if i != len(toks) {
		return []string{fmt.Sprintf("html output has %d extra tokens, first %q", len(toks)-i, toks[i].body)}
	}
	if cfg.rc != nil {
		if fmt.Sprint(rcCalls) != fmt.Sprint(expCalls) {
			viol = append(viol, fmt.Sprintf("row-class generator called with %v, expected %v", rcCalls, expCalls))
		}
	}
	return
}

// ---------- JSON: C07 ----------

func oracleJSON(g *Gen, t, res string) (viol []string) {
	if res == "PANIC" {
		return []string{"json render panicked: " + lastPanic}
	}
	class, f := parseRes(res)
	tb := g.x.tables[idOf(t)]
	n := tb.NColumns()
	hdr, hasHdr, rows := grid(tb)
	// expected error?
	expErr := ""
	skip := make([]bool, n)
	switch {
	case n == 0:
		expErr = "err:no-columns"
	default:
		def := false
		if v := tb.Column(0).GetProperty(properties.Skipable); v != nil {
			b, ok := v.(bool)
			if !ok {
				expErr = "err:nonbool-skipable"
			}
			def = b
		}
		if expErr == "" && !hasHdr {
			expErr = "err:no-headers"
		}
		if expErr == "" && len(hdr) < n {
			expErr = "err:too-few-headers"
		}
		if expErr == "" {
			seen := map[string]bool{}
			for i := 0; i < n && expErr == ""; i++ {
				s := hdr[i].String()
				if s == "" {
					expErr = "err:empty-header"
				} else if seen[s] {
					expErr = "err:dup-header"
				}
				seen[s] = true
				if expErr == "" {
					if v := tb.Column(i + 1).GetProperty(properties.Skipable); v != nil {
						b, ok := v.(bool)
						if !ok {
							expErr = "err:nonbool-skipable"
						}
						skip[i] = b
					} else {
						skip[i] = def
					}
				}
			}
		}
	}
	type kvp struct{ k, v string }
	var expObjs [][]kvp
	if expErr == "" {
	outer:
		for _, r := range rows {
			if r.sep {
				continue
			}
			var o []kvp
			for i := range r.cells {
				c := &r.cells[i]
				if skip[i] && c.String() == "" { // "empty" as the statement means it: the text, not the cell's own flag
					continue
				}
				b, err := json.Marshal(c.Item())
				if err != nil {
					expErr = "err:marshal"
					break outer
				}
				if string(b) == "{}" && c.String() != "" {
					b, _ = json.Marshal(c.String())
				}
				o = append(o, kvp{hdr[i].String(), string(b)})
			}
			expObjs = append(expObjs, o)
		}
	}
	if expErr != "" {
		if class == "ok" {
			return []string{"json rendered a table that must be refused: expected " + expErr}
		}
		if !strings.HasPrefix(class, "err:") {
			return []string{"json: " + class}
		}
		return nil
	}
	if class != "ok" {
		return []string{"json render of a well-formed table failed: " + class}
	}
	out := []byte(unhx(f["out"]))
	if !json.Valid(out) {
		return []string{fmt.Sprintf("json output is not valid JSON: %q", string(out))}
	}
	dec := json.NewDecoder(bytes.NewReader(out))
	dec.UseNumber()
	tk, err := dec.Token()
	if err != nil || tk != json.Delim('[') {
		return []string{"json output is not an array"}
	}
	var got [][]kvp
	for dec.More() {
		tk, err = dec.Token()
		if err != nil || tk != json.Delim('{') {
			return []string{"json array element is not an object"}
		}
		var o []kvp
		for dec.More() {
			ktk, err := dec.Token()
			if err != nil {
				return []string{"json: bad key"}
			}
			var raw json.RawMessage
			if err := dec.Decode(&raw); err != nil {
				return []string{"json: bad value"}
			}
			var cb bytes.Buffer
			json.Compact(&cb, raw)
			o = append(o, kvp{ktk.(string), cb.String()})
		}
		dec.Token()
		got = append(got, o)
	}
	if len(got) != len(expObjs) {
		return []string{fmt.Sprintf("json: %d objects, table has %d non-separator rows", len(got), len(expObjs))}
	}
	for i := range got {
		if len(got[i]) != len(expObjs[i]) {
			viol = append(viol, fmt.Sprintf("json object %d has %d members, expected %d", i, len(got[i]), len(expObjs[i])))
			continue
		}
		for j := range got[i] {
			var cb bytes.Buffer
			json.Compact(&cb, []byte(expObjs[i][j].v))
			if got[i][j].k != expObjs[i][j].k && got[i][j].v == cb.String() && !utf8.ValidString(expObjs[i][j].k) &&
				got[i][j].k == perByteFFFD(expObjs[i][j].k) {
				// the key is the header text with its ill-formed bytes replaced (the JSON encoder's doing): recorded finding D27
				pendingKnown = append(pendingKnown, "d27-json-invalid-utf8-header")
				continue
			}
			if got[i][j].k != expObjs[i][j].k || got[i][j].v != cb.String() {
				viol = append(viol, fmt.Sprintf("json object %d member %d is %q:%s, expected %q:%s", i, j, got[i][j].k, got[i][j].v, expObjs[i][j].k, cb.String()))
			}
		}
	}
	return
}

// ---------- Markdown: C08 ----------

func splitPipes(line string) []string {
	var cells []string
	cur := strings.Builder{}
	for i := 0; i < len(line); i++ {
		if line[i] == '|' && (i == 0 || line[i-1] != '\\') {
			cells = append(cells, cur.String())
			cur.Reset()
			continue
		}
		cur.WriteByte(line[i])
	}
	cells = append(cells, cur.String())
	return cells
}

var mdEntities = []string{"&amp;", "&#39;", "&lt;", "&gt;", "&#34;", "&#x7c;", "&#x0a;"}

func mdInert(raw string) bool {
	s := raw
	for _, e := range mdEntities {
		s = strings.ReplaceAll(s, e, "")
	}
	return !strings.ContainsAny(s, "|\n<>&\"'")
}

func oracleMD(g *Gen, t, res string) (viol []string) {
	if res == "PANIC" {
		return []string{"markdown render panicked: " + lastPanic}
	}
	class, f := parseRes(res)
	tb := g.x.tables[idOf(t)]
	n := tb.NColumns()
	hdr, hasHdr, rows := grid(tb)
	if n == 0 {
		if !strings.HasPrefix(class, "err") {
			return []string{"markdown: zero-column table not refused: " + class}
		}
		return nil
	}
	if !hasHdr {
		if !strings.HasPrefix(class, "err") {
			return []string{"markdown: table without headers not refused: " + class}
		}
		return nil
	}
	if class != "ok" {
		return []string{"markdown render failed: " + class}
	}
	out := unhx(f["out"])
	if !strings.HasSuffix(out, "\n") {
		return []string{"markdown output does not end with a newline"}
	}
	lines := strings.Split(strings.TrimSuffix(out, "\n"), "\n")
	var body [][]tabular.Cell
	for _, r := range rows {
		if !r.sep {
			body = append(body, r.cells)
		}
	}
	if len(lines) != 2+len(body) {
		return []string{fmt.Sprintf("markdown: %d lines, expected header + delimiter + %d rows", len(lines), len(body))}
	}
	checkRow := func(li int, cells []tabular.Cell) {
		parts := splitPipes(lines[li])
		if len(parts) != n+2 {
			viol = append(viol, fmt.Sprintf("markdown line %d has %d unescaped pipes, expected %d: %q", li, len(parts)-1, n+1, lines[li]))
			return
		}
		if parts[0] != "" || parts[n+1] != "" {
			viol = append(viol, fmt.Sprintf("markdown line %d does not start and end with a pipe", li))
		}
		for i := 0; i < n; i++ {
			raw := parts[i+1]
			want := ""
			if i < len(cells) {
				want = strings.Trim(cells[i].String(), " ")
			}
			if gotc := html.UnescapeString(strings.Trim(raw, " ")); gotc != want {
				viol = append(viol, fmt.Sprintf("markdown line %d cell %d decodes to %q, cell text is %q", li, i, gotc, want))
			}
			if !mdInert(raw) {
				viol = append(viol, fmt.Sprintf("markdown line %d cell %d carries unescaped markup: %q", li, i, raw))
			}
		}
	}
	checkRow(0, hdr)
	// delimiter
	parts := splitPipes(lines[1])
	if len(parts) != n+2 {
		viol = append(viol, fmt.Sprintf("markdown delimiter line has %d unescaped pipes, expected %d", len(parts)-1, n+1))
	} else {
		for i := 0; i < n; i++ {
			c := parts[i+1]
			if len(c) < 5 || strings.Trim(c[1:len(c)-1], "-") != "" {
				viol = append(viol, fmt.Sprintf("markdown delimiter cell %d is %q: needs at least three dashes between its markers", i, c))
				continue
			}
			l, r := c[0], c[len(c)-1]
			wl, wr := byte(' '), byte(' ')
			switch effProp(tb, i+1, align.PropertyType) {
			case align.Right:
				wr = ':'
			case align.Center:
				wl, wr = ':', ':'
			}
			if l != wl || r != wr {
				viol = append(viol, fmt.Sprintf("markdown delimiter cell %d is %q, effective alignment requires markers %q %q", i, c, wl, wr))
			}
		}
	}
	for i, cells := range body {
		checkRow(2+i, cells)
	}
	return
}

// perByteFFFD: every byte that does not start a well-formed UTF-8 sequence replaced by U+FFFD (what
// encoding/json does to a string; strings.ToValidUTF8 would collapse a run into one)
func perByteFFFD(s string) string {
	var b strings.Builder
	for i := 0; i < len(s); {
		r, n := utf8.DecodeRuneInString(s[i:])
		if r == utf8.RuneError && n == 1 {
			b.WriteString("\uFFFD")
		} else {
			b.WriteString(s[i : i+n])
		}
		i += n
	}
	return b.String()
}
