package main

import (
	"os"
	"runtime/coverage"
)

// writeCoverage flushes coverage counters when the binary was built with -cover (tools/coverage.sh)
func writeCoverage() {
	if d := os.Getenv("VERIF_COVDIR"); d != "" {
		if err := coverage.WriteMetaDir(d); err != nil {
			os.Stderr.WriteString("coverage meta: " + err.Error() + "\n")
		}
		if err := coverage.WriteCountersDir(d); err != nil {
			os.Stderr.WriteString("coverage counters: " + err.Error() + "\n")
		}
	}
}
