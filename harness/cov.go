package main

import (
	"os"
	"runtime/coverage"
)

// writeCoverage flushes coverage counters when the binary was built with -cover (tools/coverage.sh)
func writeCoverage() {
	if d := os.Getenv("VERIF_COVDIR"); d != "" {
		_ = coverage.WriteMetaDir(d)
		_ = coverage.WriteCountersDir(d)
	}
}
