package main

// Exhaustive small scope: ALL build histories up to a given length over a 12-op alphabet, each
// observed after every op (C02's reference oracle) and rendered in all five formats (C09's).
// The case number is the index of the history in length-then-lexicographic order.

import (
	"fmt"
	"sort"
)

const xOps = 12

// xCount: number of histories of length 1..L
func xCount(L int) int {
	n, p := 0, 1
	for k := 1; k <= L; k++ {
		p *= xOps
		n += p
	}
	return n
}

func xDecode(c int) []int {
	L, p := 1, xOps
	for c >= p {
		c -= p
		p *= xOps
		L++
	}
	d := make([]int, L)
	for i := L - 1; i >= 0; i-- {
		d[i] = c % xOps
		c /= xOps
	}
	return d
}

func init() {
	streams["X02"] = stream{
		property:  "C02",
		oracleDoc: "exhaustive: every history of length <= L over {AddHeaders(0|2), AddRowItems(0|1|3), AddSeparator, AppendNewRow, NewRow, AddRow(last pre-built), Row.Add(last created row), Row.Add(first attached row), zero-value row + AddRow}; reference slice-of-slices after every op; all five renderers at the end must not panic and an error must come with no text",
		run: func(g *Gen, c int) ([]string, []string, bool) {
			t := g.do("newtable")
			rt := &refTable{det: map[int]*refRow{}}
			var viol []string
			a, b := g.strItem("a"), g.strItem("b\nc")
			last := -1 // last created cell row (attached or not)
			for _, op := range xDecode(c) {
				switch op {
				case 0:
					g.do("addheaders " + t + " []")
					rt.hdrCur = 0
				case 1:
					g.do("addheaders " + t + " " + a + "," + b)
					rt.hdrCur = 2
					if rt.hdrMax < 2 {
						rt.hdrMax = 2
					}
				case 2, 3, 4:
					n := []int{0, 1, 3}[op-2]
					ids := []string{a, b, a}[:n]
					id := idOf(g.do("addrowitems " + t + " " + joinC(ids)))
					rt.rows = append(rt.rows, &refRow{id: id, n: n})
					last = id
				case 5:
					id := idOf(g.do("addsep " + t))
					rt.rows = append(rt.rows, &refRow{id: id, sep: true})
				case 6:
					id := idOf(g.do("appendnewrow " + t))
					rt.rows = append(rt.rows, &refRow{id: id})
					last = id
				case 7:
					id := idOf(g.do("newrow"))
					rt.det[id] = &refRow{id: id}
					last = id
				case 8:
					if len(rt.det) == 0 {
						continue
					}
					var ids []int
					for id := range rt.det {
						ids = append(ids, id)
					}
					sort.Ints(ids)
					id := ids[len(ids)-1]
					g.do(fmt.Sprintf("addrow %s R%d", t, id))
					rt.rows = append(rt.rows, rt.det[id])
					delete(rt.det, id)
				case 9:
					if last < 0 {
						continue
					}
					g.do(fmt.Sprintf("rowadd R%d %s", last, b))
					if rr, ok := rt.det[last]; ok {
						rr.n++
					} else {
						for _, rr := range rt.rows {
							if rr.id == last {
								rr.n++
							}
						}
					}
				case 10:
					var first *refRow
					for _, rr := range rt.rows {
						if !rr.sep && !rr.nil_ {
							first = rr
							break
						}
					}
					if first == nil {
						continue
					}
					g.do(fmt.Sprintf("rowadd R%d %s", first.id, a))
					first.n++
				case 11:
					id := idOf(g.do("zerorow"))
					g.do(fmt.Sprintf("addrow %s R%d", t, id))
					rt.rows = append(rt.rows, &refRow{id: id, nil_: true})
				}
				viol = append(viol, checkObs(rt, g.do("obs "+t))...)
			}
			for _, k := range []string{"csv", "json", "markdown", "html", "text"} {
				w := g.do("wrap " + k + " " + t)
				res := g.do("render " + w)
				if res == "PANIC" {
					viol = append(viol, k+" render panicked: "+lastPanic)
				}
			}
			w := g.do("wrap text " + t)
			g.do("setdecornamed " + w + " " + hx("none"))
			if g.do("render "+w) == "PANIC" {
				viol = append(viol, "boxless text render panicked: "+lastPanic)
			}
			if len(viol) > 4 {
				viol = viol[:4]
			}
			return viol, nil, len(rt.rows) > 0
		},
	}
}
