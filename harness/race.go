package main

// Validation under the race detector (never the decision): goroutines that own
// their tables build and render them concurrently (C16), and goroutines that
// register, look up, list and render by decoration name concurrently (C17).
// Shares nothing with the Exec machinery (which has process-wide state).

import (
	"encoding/json"
	"fmt"
	"html/template"
	"os"
	"sort"
	"strings"
	"sync"

	"go.pennock.tech/tabular"
	"go.pennock.tech/tabular/auto"
	"go.pennock.tech/tabular/csv"
	thtml "go.pennock.tech/tabular/html"
	tjson "go.pennock.tech/tabular/json"
	"go.pennock.tech/tabular/markdown"
	"go.pennock.tech/tabular/properties/align"
	"go.pennock.tech/tabular/texttable"
	"go.pennock.tech/tabular/texttable/decoration"
)

// sharedItems is spread into AddRowItems by every goroutine; nobody but the library could write to it
var sharedItems = []interface{}{"shared", []byte("bytes"), 7, strer{"s"}, nil}

type strer struct{ s string }

func (s strer) String() string { return s.s }

// buildAndRender: one goroutine's whole job, a pure function of its seed
func buildAndRender(seed uint64, styles []string) []string {
	r := &rng{seed}
	t := tabular.New()
	ncols := 1 + r.n(4)
	var hs []interface{}
	for i := 0; i < ncols; i++ {
		hs = append(hs, fmt.Sprintf("h%d-%d", i, r.n(100)))
	}
	t.AddHeaders(hs...)
	for i := 0; i < 1+r.n(6); i++ {
		if r.chance(1, 6) {
			t.AddSeparator()
			continue
		}
		var its []interface{}
		for j := 0; j < r.n(ncols+1); j++ {
			switch r.n(4) {
			case 0:
				its = append(its, r.n(1000))
			case 1:
				its = append(its, strer{r.text(alphaText, 3)})
			case 2:
				its = append(its, nil)
			default:
				its = append(its, r.text(alphaText, 3))
			}
		}
		row := t.NewRowSizedFor()
		for _, it := range its {
			row.Add(tabular.NewCell(it))
		}
		t.AddRow(row)
	}
	// values every goroutine hands to its own table from one shared, read-only argument list
	t.AddRowItems(sharedItems[:ncols]...)
	if r.chance(1, 2) {
		t.Column(0).SetProperty(align.PropertyType, align.Right)
	}
	var out []string
	rec := func(s string, err error) {
		if err != nil {
			out = append(out, "ERR:"+classify(err))
		} else {
			out = append(out, s)
		}
	}
	rec(csv.Wrap(t).Render())
	rec(tjson.Wrap(t).Render())
	rec(markdown.Wrap(t).Render())
	rec(thtml.Wrap(t).Render())
	// with a row-class generator of its own (and a caption), as applications use it
	hw := thtml.Wrap(t)
	hw.Caption = fmt.Sprintf("table %d", seed)
	hw.SetRowClassGenerator(func(n int, ctx interface{}) template.HTMLAttr {
		return template.HTMLAttr(fmt.Sprintf("g%v-r%d", ctx, n))
	}, seed)
	rec(hw.Render())
	rec(hw.Render())
	// every public field of the wrapper is the caller's to set: a template name, an id, a class
	hn := thtml.Wrap(t)
	hn.TemplateName, hn.Id, hn.Class = fmt.Sprintf("tmpl%d", seed%3), "i", "c"
	rec(hn.Render())
	rec(hn.Render())
	rec(texttable.Wrap(t).Render())
	rec(texttable.Render(t))
	for _, s := range styles {
		rec(auto.Render(t, s))
	}
	// the registry is read while others render: listings too
	if l := auto.ListStyles(); !sort.StringsAreSorted(l) {
		out = append(out, "UNSORTED-LISTING")
	}
	_ = decoration.RegisteredDecorationNames()
	nested := texttable.Wrap(csv.Wrap(markdown.Wrap(t)))
	rec(nested.Render())
	return out
}

type raceReport struct {
	Which      string   `json:"which"`
	Goroutines int      `json:"goroutines"`
	Rounds     int      `json:"rounds"`
	Renders    int      `json:"renders"`
	Mismatches []string `json:"mismatches"`
}

func raceC16(seed int64, workers, rounds int) raceReport {
	styles := []string{"csv", "html", "json", "markdown", "texttable", "utf8-light", "ascii-simple", "none", "utf8-double", "texttable.utf8-light-curved"}
	rep := raceReport{Which: "c16", Goroutines: workers, Rounds: rounds}
	for round := 0; round < rounds; round++ {
		seeds := make([]uint64, workers)
		want := make([][]string, workers)
		for i := range seeds {
			seeds[i] = mixSeed(seed, "race16", round*1000+i)
		}
		// a registration before the goroutines start: whatever the registry caches is stale when they read it
		decoration.RegisterDecorationName(fmt.Sprintf("race16-%d", round), decoration.ASCIIBoxSimple())
		got := make([][]string, workers)
		var wg sync.WaitGroup
		start := make(chan struct{})
		for i := 0; i < workers; i++ {
			wg.Add(1)
			go func(i int) {
				defer wg.Done()
				<-start
				got[i] = buildAndRender(seeds[i], styles)
			}(i)
		}
		// the registry is read concurrently while they run
		wg.Add(1)
		go func() {
			defer wg.Done()
			<-start
			for k := 0; k < 200; k++ {
				_ = decoration.RegisteredDecorationNames()
				_ = decoration.Named("utf8-heavy")
			}
		}()
		close(start)
		wg.Wait()
		for i := range seeds {
			want[i] = buildAndRender(seeds[i], styles) // the same tables alone, sequentially
		}
		for i := range got {
			rep.Renders += len(got[i])
			if strings.Join(got[i], "\x00") != strings.Join(want[i], "\x00") {
				rep.Mismatches = append(rep.Mismatches, fmt.Sprintf("round %d goroutine %d (seed %d): concurrent outputs differ from the outputs of the same table rendered alone", round, i, seeds[i]))
			}
		}
	}
	return rep
}

func raceC17(seed int64, workers, rounds int) raceReport {
	rep := raceReport{Which: "c17", Goroutines: workers, Rounds: rounds}
	builtins := decoration.RegisteredDecorationNames()
	names := []string{"race-a", "race-b", "race-c", "RACE-A"}
	var mu sync.Mutex
	bad := func(s string) {
		mu.Lock()
		if len(rep.Mismatches) < 20 {
			rep.Mismatches = append(rep.Mismatches, s)
		}
		mu.Unlock()
	}
	mk := func(name string, g, k int) decoration.Decoration {
		d := decoration.Decoration{Horizontal: "-", Vertical: "|", CrossPiece: "+", TopDown: fmt.Sprintf("%s/%d/%d", name, g, k)}
		d.Populate()
		return d
	}
	for round := 0; round < rounds; round++ {
		lastOf := make([]map[string]decoration.Decoration, workers)
		var wg sync.WaitGroup
		start := make(chan struct{})
		for g := 0; g < workers; g++ {
			wg.Add(1)
			lastOf[g] = map[string]decoration.Decoration{}
			go func(g int) {
				defer wg.Done()
				r := &rng{mixSeed(seed, "race17", round*1000+g)}
				<-start
				for k := 0; k < 60; k++ {
					n := names[r.n(len(names))]
					switch r.n(4) {
					case 0:
						d := mk(n, g, round*100+k)
						decoration.RegisterDecorationName(n, d)
						lastOf[g][n] = d
					case 1:
						d := decoration.Named(n)
						if d != decoration.EmptyDecoration && !strings.HasPrefix(d.TopDown, n+"/") {
							bad(fmt.Sprintf("Named(%q) returned a decoration registered under another name (%q)", n, d.TopDown))
						}
						if e := decoration.Named("race-never-registered"); e != decoration.EmptyDecoration {
							bad("lookup of a never-registered name returned a non-empty decoration")
						}
					case 2:
						l := decoration.RegisteredDecorationNames()
						if !sort.StringsAreSorted(l) {
							bad("listing not sorted")
						}
						seen := map[string]bool{}
						for _, x := range l {
							if seen[x] {
								bad("listing has duplicate " + x)
							}
							seen[x] = true
						}
						for _, b := range builtins {
							if !seen[b] {
								bad("listing lost built-in " + b)
							}
						}
						for n2 := range lastOf[g] {
							if !seen[n2] {
								bad("listing lacks a name this goroutine registered: " + n2)
							}
						}
					default:
						t := texttable.New()
						t.AddHeaders("h")
						t.AddRowItems("x")
						name := n
						if r.chance(1, 3) {
							name = "race-never-registered"
						}
						_, err := t.SetDecorationNamed(name)
						s, rerr := t.Render()
						if err != nil && (rerr == nil || s != "") {
							bad(fmt.Sprintf("unknown decoration %q rendered anyway", name))
						}
						if name == "race-never-registered" && err == nil {
							bad("setting a never-registered decoration name reported no error")
						}
					}
				}
			}(g)
		}
		close(start)
		wg.Wait()
		rep.Renders += workers * 60
		// registrations have finished: each name holds the last registration of some goroutine
		for _, n := range names {
			d := decoration.Named(n)
			any, ok := false, false
			for g := range lastOf {
				if ld, has := lastOf[g][n]; has {
					any = true
					if ld == d {
						ok = true
					}
				}
			}
			if any && !ok {
				bad(fmt.Sprintf("after all registrations finished Named(%q) is not the last registration of any goroutine", n))
			}
		}
		// the first registration of a name, by all goroutines at once from a common gate, many times over:
		// afterwards the name is there, once, holding one of the values given, and everything is still sorted
		for burst := 0; burst < 40; burst++ {
			fresh := fmt.Sprintf("race-fresh-%d-%d-%d", seed, round, burst)
			gate := make(chan struct{})
			var wg2 sync.WaitGroup
			vals := make([]decoration.Decoration, workers)
			for g := 0; g < workers; g++ {
				vals[g] = mk(fresh, g, burst)
				wg2.Add(1)
				go func(g int) {
					defer wg2.Done()
					<-gate
					decoration.RegisterDecorationName(fresh, vals[g])
					_ = decoration.Named(fresh)
				}(g)
			}
			close(gate)
			wg2.Wait()
			l := decoration.RegisteredDecorationNames()
			cnt := 0
			for _, x := range l {
				if x == fresh {
					cnt++
				}
			}
			if cnt != 1 {
				bad(fmt.Sprintf("a name first registered by %d goroutines at once is listed %d times", workers, cnt))
			}
			if !sort.StringsAreSorted(l) {
				bad("listing not sorted after concurrent first registrations")
			}
			d := decoration.Named(fresh)
			okv := false
			for _, v := range vals {
				okv = okv || v == d
			}
			if !okv {
				bad("after concurrent first registrations the name holds none of the values registered")
			}
		}
	}
	return rep
}

func raceMain(which string, seed int64, workers, rounds int, outDir string) {
	var rep raceReport
	if which == "c17" {
		first := firstTouch() // before anything else in this process has asked the registry anything
		rep = raceC17(seed, workers, rounds)
		if first != "" {
			rep.Mismatches = append(rep.Mismatches, first)
		}
	} else {
		rep = raceC16(seed, workers, rounds)
	}
	b, _ := json.MarshalIndent(rep, "", " ")
	os.WriteFile(outDir+"/race.json", b, 0o644)
	if len(rep.Mismatches) > 0 {
		os.Exit(3)
	}
}
