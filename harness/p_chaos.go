package main

// Chaos streams (G<nn>): one or two tables live through a long random interleaving of EVERY
// operation the harness knows — building in any order (headers late, twice, zero-cell rows, rows
// attached twice, cells added to separator rows and to attached rows, growth across the column
// capacity), properties of every owner with valid and invalid values, callbacks of every
// owner/time/target/behaviour (including ones that set the alignment or skipable property during
// the render), errors, item mutation and Update, by-value copies, column handles, caller scribbles,
// wrappers of every kind nested and long-lived, every render entry point including faulted writers
// and auto with listed, unknown and oddly-cased styles, and registry changes in between.
//
// There is no oracle of their own: the model is executable for every one of these operations, so
// the judge is the line-by-line comparison with the model (plus, for the focus format, the
// property's output oracle after fault-free renders of tables the oracle's domain covers).  What
// the per-property streams sample along one axis, these sample across axes.

import (
	"fmt"
	"strings"

	"go.pennock.tech/tabular/texttable/decoration"
)

type chaosW struct {
	tok, kind, t string
}

type chaos struct {
	g        *Gen
	r        *rng
	focus    string
	alpha    []string
	tabs     []string
	rows     map[string][]string // table -> row tokens in attach order (a row may occur twice)
	seps     map[string]bool
	loose    []string
	items    []string
	objs     []string // mutable items
	objCells [][2]string
	ws       []chaosW
	copies   []string
	handles  []string
	userDec  []string
	viol     []string
	known    []string
	rawDecor bool // a hand-assembled decoration is in use: the text output oracle does not apply
	left     map[string]bool // tables an out-of-domain input was given to: no output oracle for them, differences on them recorded only
	hostile  bool // an alignment value that is no Alignment, a hand-assembled decoration: outside every property's domain
}

// leave: the case sets an input no property speaks about; say so once, in both streams
func (s *chaos) leave(tables ...string) {
	for _, t := range tables {
		if !s.left[t] {
			s.left[t] = true
			s.g.do("leftdomain " + t)
		}
	}
	s.hostile = len(s.left) > 0
}

func (s *chaos) newItem() string {
	g, r := s.g, s.r
	switch q := r.n(12); {
	case q < 5:
		it := g.strItem(r.text(s.alpha, 3))
		s.items = append(s.items, it)
		return it
	case q < 8:
		mask := r.n(8)
		extra := ""
		if r.chance(1, 3) {
			mask |= []int{8, 16, 24}[r.n(3)]
			extra = fmt.Sprintf(":h=%d:w=%d", []int{0, 1, 2, 3, 5, -1}[r.n(6)], []int{0, 1, 2, 3, 7, 12, -2}[r.n(7)])
		}
		if mask == 0 {
			mask = 1
		}
		it := g.item(fmt.Sprintf("obj:%d:s=%s:g=%s:e=%s%s", mask, hx(r.text(s.alpha, 3)), hx(r.text(s.alpha, 3)), hx(r.text(s.alpha, 3)), extra))
		s.items = append(s.items, it)
		s.objs = append(s.objs, it)
		return it
	default:
		it := g.anyItem(s.alpha, 3)
		s.items = append(s.items, it)
		return it
	}
}

func (s *chaos) someItems(n int) string {
	var ids []string
	for i := 0; i < n; i++ {
		if len(s.items) > 0 && s.r.chance(1, 3) {
			ids = append(ids, s.r.pick(s.items))
		} else {
			ids = append(ids, s.newItem())
		}
	}
	return joinC(ids)
}

func (s *chaos) table() string { return s.r.pick(s.tabs) }

// rowCells: how many cells the row (attached or loose, not a header) holds now
func (s *chaos) rowCells(row string) int {
	if p := s.g.x.rows[idOf(row)]; p != nil {
		return len(p.Cells())
	}
	return 0
}

func (s *chaos) anyRow() string {
	var all []string
	for _, t := range s.tabs {
		all = append(all, s.rows[t]...)
	}
	all = append(all, s.loose...)
	if len(all) == 0 {
		return ""
	}
	return s.r.pick(all)
}

// owner: a token naming some live property owner
func (s *chaos) owner() string {
	r := s.r
	t := s.table()
	ti := idOf(t)
	for tries := 0; tries < 6; tries++ {
		switch r.n(7) {
		case 0:
			return fmt.Sprintf("t:%d", ti)
		case 1:
			return fmt.Sprintf("c:%d:%d", ti, r.n(s.g.ncols(t)+1))
		case 2:
			if row := s.anyRow(); row != "" {
				return "r:" + row[1:]
			}
		case 3, 4:
			if row := s.anyRow(); row != "" && s.rowCells(row) > 0 {
				return fmt.Sprintf("x:%s:%d", row[1:], r.n(s.rowCells(row)))
			}
		case 5:
			if len(s.copies) > 0 {
				return "y:" + r.pick(s.copies)[1:]
			}
		default:
			if len(s.handles) > 0 {
				return r.pick(s.handles)
			}
		}
	}
	return fmt.Sprintf("t:%d", ti)
}

func (s *chaos) build() {
	g, r := s.g, s.r
	t := s.table()
	switch q := r.n(20); {
	case q < 2: // headers: first time, again, shorter, longer, none
		n := g.ncols(t)
		k := []int{n, n, n + 1, 0, 1, n - 1, 11}[r.n(7)]
		if n == 0 {
			k = 1 + r.n(3)
		}
		if k < 0 {
			k = 0
		}
		if k == 11 && !r.chance(1, 4) {
			k = n
		}
		g.do("addheaders " + t + " " + s.someItems(k))
	case q < 7:
		n := g.ncols(t)
		k := r.n(n + 2)
		if r.chance(1, 30) {
			k = 9 + r.n(4)
		}
		row := g.do("addrowitems " + t + " " + s.someItems(k))
		s.rows[t] = append(s.rows[t], row)
	case q < 8:
		row := g.do("addsep " + t)
		s.rows[t] = append(s.rows[t], row)
		s.seps[row] = true
	case q < 9:
		row := g.do("appendnewrow " + t)
		s.rows[t] = append(s.rows[t], row)
	case q < 11: // a loose row
		row := g.do(r.pick([]string{"newrow", "newrow", "newrowsized " + t, "zerorow"}))
		s.loose = append(s.loose, row)
	case q < 15: // a cell added to a row, attached or not (separators included: an error, not a cell)
		if row := s.anyRow(); row != "" {
			if s.seps[row] {
				s.hostile = s.hostile || false // recorded as an error by the library; still within the domain
			}
			if len(s.copies) > 0 && r.chance(1, 5) {
				g.do("rowaddcopy " + row + " " + r.pick(s.copies))
			} else {
				g.do("rowadd " + row + " " + s.someItems(1))
			}
		}
	case q < 17: // attach a loose row
		if len(s.loose) > 0 {
			i := r.n(len(s.loose))
			row := s.loose[i]
			g.do("addrow " + t + " " + row)
			s.rows[t] = append(s.rows[t], row)
			s.loose = append(s.loose[:i], s.loose[i+1:]...)
		}
	case q < 18: // attach a row that is already attached (to this or the other table)
		if row := s.anyRow(); row != "" && r.chance(1, 2) {
			isLoose := false
			for _, l := range s.loose {
				isLoose = isLoose || l == row
			}
			if !isLoose {
				inT := false
				for _, x := range s.rows[t] {
					inT = inT || x == row
				}
				if !inT {
					// one *Row in two tables: it knows only the table it joined last, so the other one no
					// longer hears of cells added to it — outside what the properties describe
					s.leave(s.tabs...)
				}
				g.do("addrow " + t + " " + row)
				s.rows[t] = append(s.rows[t], row)
			}
		}
	case q < 19:
		g.do("scribblerows " + t)
	default:
		es := fmt.Sprintf("%d", 500+r.n(40))
		if r.chance(1, 6) {
			es = "nil" // recording "no error"
		} else if r.chance(1, 8) {
			// an error whose value is the zero value of its type: as much an error as any other
			es = r.pick([]string{"0", "900001", "900002", "900003"})
		}
		switch r.n(5) {
		case 4:
			if es == "nil" {
				es = "555"
			}
			if row := s.anyRow(); row != "" && g.x.rows[idOf(row)] != nil && r.chance(1, 2) {
				g.do("rowadderrself " + row + " " + es)
			} else {
				g.do("tadderrself " + t + " " + es)
			}
		case 0:
			g.do("tadderr " + t + " " + es)
		case 1:
			g.do("tadderrlist " + t + " nil," + es + ",nil")
		case 2:
			if row := s.anyRow(); row != "" {
				g.do("rowadderr " + row + " " + es)
			}
		default:
			if row := s.anyRow(); row != "" {
				g.do("rowadderrlist " + row + " " + es + "," + fmt.Sprintf("%d", 600+r.n(40)))
			}
		}
	}
}

func (s *chaos) props() {
	g, r := s.g, s.r
	o := s.owner()
	switch q := r.n(10); {
	case q < 5:
		key := r.pick([]string{"align", "align", "skip", "u1", "u2", "u3"})
		var val string
		switch key {
		case "align":
			val = r.pick([]string{"a1", "a2", "a3", "nil"})
			if r.chance(1, 12) {
				val = r.pick([]string{"a99999", "u5", "b1"})
				switch o[0] {
				case 'c': // a column of one table: what the renderers read
					s.leave("T" + strings.Split(o, ":")[1])
				case 'h': // a column handle: of whichever table
					s.leave(s.tabs...)
				}
			}
		case "skip":
			val = r.pick([]string{"b0", "b1", "nil"})
			if r.chance(1, 12) {
				val = r.pick([]string{"u5", "a1"}) // refused by the JSON renderer, ignored by the others
			}
		default:
			val = fmt.Sprintf("u%d", r.n(30))
			if r.chance(1, 5) {
				val = "nil"
			}
			if r.chance(1, 5) {
				val = fmt.Sprintf("P%d", 500000+r.n(4)) // one of a few pointers with equal payloads
			}
		}
		g.do(fmt.Sprintf("setprop %s %s %s", o, key, val))
	case q < 8:
		g.do(fmt.Sprintf("getprop %s %s", o, r.pick([]string{"align", "skip", "u1", "u2", "u3"})))
	case q < 9:
		g.do("chainlen " + o + " 8") // five keys are in play here, three more are the renderers' own
	default:
		t := s.table()
		if h := g.do(fmt.Sprintf("colhandle %s %d", t, r.n(g.ncols(t)+1))); h != "nil" {
			s.handles = append(s.handles, "h:"+h[1:])
		}
	}
}

func (s *chaos) callbacks() {
	g, r := s.g, s.r
	t := s.table()
	o := s.owner()
	if o[0] == 'y' || o[0] == 'h' && r.chance(1, 2) {
		o = fmt.Sprintf("t:%d", idOf(t))
	}
	g.cbN++
	id := 7000 + g.cbN
	when := r.pick([]string{"add", "pre", "render", "post"})
	if r.chance(1, 30) {
		when = "bad"
	}
	target := r.pick([]string{"itself", "cell", "row"})
	var cb string
	switch q := r.n(10); {
	case q < 5:
		cb = fmt.Sprintf("log:%d", id)
	case q < 8:
		key := r.pick([]string{"u1", "u2", "align", "skip"})
		val := fmt.Sprintf("u%d", 100+r.n(20))
		if key == "align" {
			val = r.pick([]string{"a1", "a2", "a3"})
		}
		if key == "skip" {
			val = r.pick([]string{"b0", "b1"})
		}
		cb = fmt.Sprintf("set:%d:%s:%s", id, key, val)
	default:
		cb = fmt.Sprintf("fail:%d:%d", id, 100000+id*10+r.n(5))
		if r.chance(1, 8) {
			cb = fmt.Sprintf("fail:%d:%s", id, r.pick([]string{"0", "900001", "900002", "900003"}))
		}
	}
	// the table through which the registration is made owns nothing: any table will do for any owner
	g.do(fmt.Sprintf("regcb %s %s %s %s %s", t, o, when, target, cb))
}

func (s *chaos) itemsOps() {
	g, r := s.g, s.r
	switch q := r.n(8); {
	case q < 3 && len(s.objs) > 0:
		it := r.pick(s.objs)
		txt := r.text(s.alpha, 3)
		if r.chance(1, 3) {
			txt = r.pick([]string{"", "x", "one\ntwo", "a\nb\nc\nd"})
		}
		g.do(fmt.Sprintf("mutate %s s=%s g=%s e=%s", it, hx(txt), hx(txt), hx(txt)))
	case q < 5:
		if row := s.anyRow(); row != "" && s.rowCells(row) > 0 {
			g.do(fmt.Sprintf("update %s %d", row, r.n(s.rowCells(row))))
		}
	case q < 6:
		if row := s.anyRow(); row != "" && s.rowCells(row) > 0 {
			if y := g.do(fmt.Sprintf("copycell %s %d", row, r.n(s.rowCells(row)))); y != "nocell" {
				s.copies = append(s.copies, y)
			}
		}
	case q < 7 && len(s.copies) > 0:
		y := r.pick(s.copies)
		if r.chance(1, 2) {
			g.do("copyupdate " + y)
		}
		g.do("copyobs " + y)
	default:
		if row := s.anyRow(); row != "" && s.rowCells(row) > 0 {
			g.do(fmt.Sprintf("cellobs %s %d", row, r.n(s.rowCells(row))))
		}
	}
}

func (s *chaos) observe() {
	g, r := s.g, s.r
	switch r.n(4) {
	case 0:
		g.do("obs " + s.table())
	case 1:
		if row := s.anyRow(); row != "" {
			g.do("rowobs " + row)
		}
	case 2:
		g.do("events")
	default:
		g.do("invoke " + s.table())
		g.do("events")
	}
}

func (s *chaos) wrapper(kind string) chaosW {
	g, r := s.g, s.r
	var have []chaosW
	for _, w := range s.ws {
		if w.kind == kind {
			have = append(have, w)
		}
	}
	if len(have) > 0 && r.chance(3, 4) {
		return have[r.n(len(have))]
	}
	var w chaosW
	if len(s.ws) > 0 && r.chance(1, 4) {
		in := s.ws[r.n(len(s.ws))]
		w = chaosW{g.do("rewrap " + kind + " " + in.tok), kind, in.t}
	} else {
		t := s.table()
		w = chaosW{g.do("wrap " + kind + " " + t), kind, t}
	}
	s.ws = append(s.ws, w)
	return w
}

func (s *chaos) settings() {
	g, r := s.g, s.r
	switch q := r.n(6); {
	case q < 3:
		w := s.wrapper("text")
		switch r.n(4) {
		case 0:
			g.do("setdecornamed " + w.tok + " " + hx(r.pick(g.registeredNames())))
		case 1:
			g.do("setdecor " + w.tok + " " + g.customDecor())
		case 2:
			g.do("setdecornamed " + w.tok + " " + hx(r.pick([]string{"nope", "", "UTF8-LIGHT", "texttable.utf8-light"})))
		default:
			var d decoration.Decoration
			fs := decorFields(&d)
			for i := range fs {
				if r.chance(1, 3) {
					*fs[i] = r.pick([]string{"|", "-", "+", "#", "═"})
				}
			}
			g.do("setdecor " + w.tok + " " + showDecor(d))
			s.rawDecor = true // no rectangle is promised for it, but totality (C09) is: compared with the model as usual
		}
	case q < 4:
		w := s.wrapper("html")
		args := " id=" + hx(r.text(alphaHTML, 2)) + " cls=" + hx(r.text(alphaHTML, 2)) + " cap=" + hx(r.text(alphaHTML, 2)) + r.pick([]string{"", "", " tn=" + hx("layout"), " tn=" + hx("x{{y}}"), " tn=" + hx(r.pick([]string{"tr", "td", "th", "table", "row", "cell", "T", "tbody", "thead", "Headers", "Rows"}))})
		if r.chance(2, 3) {
			var l []string
			for n := 0; n <= g.x.tables[idOf(w.t)].NRows()+3; n++ {
				l = append(l, fmt.Sprintf("%d:%s", n, hx(fmt.Sprintf("g%d%s", n, r.text(alphaHTML, 1)))))
			}
			args += " rc=" + joinC(l)
		}
		g.do("sethtml " + w.tok + args)
	default:
		n := r.pick([]string{"Chaos", "chaos-1", "MiXed", "utf8-light", "kK"})
		if r.chance(1, 5) {
			g.do("register " + hx(n) + " " + showDecor(decoration.Decoration{}))
		} else {
			g.do("register " + hx(n) + " " + g.customDecor())
		}
		s.userDec = append(s.userDec, n)
		if r.chance(1, 2) {
			g.do("names")
			g.do("liststyles")
		}
	}
}

func (s *chaos) render() {
	g, r := s.g, s.r
	kind := s.focus
	if r.chance(1, 3) {
		kind = r.pick([]string{"csv", "json", "markdown", "html", "text"})
	}
	switch q := r.n(12); {
	case q < 5:
		w := s.wrapper(kind)
		res := g.do("render " + w.tok)
		s.judge(kind, w, res)
	case q < 6:
		w := s.wrapper(kind)
		g.do("renderbuf " + w.tok + " " + r.pick([]string{"buffer", "builder", "bufio"}))
	case q < 7:
		w := s.wrapper(kind)
		g.do("renderstr " + w.tok)
	case q < 9: // a faulted write, then a healthy one through the same wrapper
		w := s.wrapper(kind)
		res := g.do("render " + w.tok)
		if res == "PANIC" {
			return
		}
		n := len(lastChunks[idOf(w.tok)])
		if n == 0 {
			return
		}
		script := fmt.Sprintf("%s:%d", r.pick([]string{"from", "only", "partial"}), r.n(n))
		if strings.HasPrefix(script, "partial") {
			script += fmt.Sprintf(":%d", r.n(6))
		}
		g.do("frender " + w.tok + " " + script)
		g.do("render " + w.tok)
	case q < 10:
		ref := s.table()
		if len(s.ws) > 0 && r.chance(1, 2) {
			ref = s.ws[r.n(len(s.ws))].tok
		}
		g.do("prender " + kind + " " + ref)
	default:
		ref := s.table()
		if len(s.ws) > 0 && r.chance(1, 2) {
			ref = s.ws[r.n(len(s.ws))].tok
		}
		styles := append([]string{"csv", "CSV", "html", "Json", "markdown.x", "texttable", "TextTable.utf8-light", "texttable.utf8-light.x", "texttable.", ".", "", "nope", "texttable.nope"}, g.registeredNames()...)
		g.do("autorender " + ref + " " + hx(r.pick(styles)))
	}
}

// judge: the focus format's output oracle, where its domain is not left
func (s *chaos) judge(kind string, w chaosW, res string) {
	if kind != s.focus || s.left[w.t] || res == "PANIC" {
		return
	}
	g := s.g
	var v []string
	switch kind {
	case "csv":
		v = oracleCSV(g, w.t, res)
	case "json":
		v = oracleJSON(g, w.t, res)
	case "markdown":
		v = oracleMD(g, w.t, res)
	case "html":
		v = oracleHTML(g, w.t, w.tok, res)
	case "text":
		if cl, _ := parseRes(res); strings.HasPrefix(cl, "err") && g.x.wrappers[idOf(w.tok)].decor == decoration.EmptyDecoration {
			break // set to a name nobody registered (or registered as empty): refused, as it must be
		}
		if !s.rawDecor {
			var k []string
			v, k = oracleText(g, w.t, w.tok, res, true)
			s.known = append(s.known, k...)
		}
	}
	for _, m := range v {
		s.viol = append(s.viol, "chaos: "+m)
	}
}

func chaosStream(prop, focus string, alpha []string, weights [7]int) stream {
	return stream{
		property:  prop,
		oracleDoc: "chaos: 25-60 random operations of every kind (build, properties, callbacks, items, observation, wrapper/registry settings, renders) on one or two tables, weighted towards " + focus + "; judged by the comparison with the model on every line, plus the " + focus + " output oracle while no operation has left its domain",
		run: func(g *Gen, c int) ([]string, []string, bool) {
			r := g.r
			s := &chaos{g: g, r: r, focus: focus, alpha: alpha, rows: map[string][]string{}, seps: map[string]bool{}, left: map[string]bool{}}
			s.tabs = append(s.tabs, g.do("newtable"))
			if c%4 == 3 {
				s.tabs = append(s.tabs, g.do("newtable"))
			}
			if c%5 == 0 {
				res := strings.Fields(g.do("newvia " + focus))
				s.tabs = append(s.tabs, res[0])
				s.ws = append(s.ws, chaosW{res[1], focus, res[0]})
			}
			total := 0
			for _, w := range weights {
				total += w
			}
			steps := 25 + r.n(36)
			for i := 0; i < steps; i++ {
				q := r.n(total)
				k := 0
				for q >= weights[k] {
					q -= weights[k]
					k++
				}
				switch k {
				case 0:
					s.build()
				case 1:
					s.props()
				case 2:
					s.callbacks()
				case 3:
					s.itemsOps()
				case 4:
					s.observe()
				case 5:
					s.settings()
				default:
					s.render()
				}
			}
			for _, t := range s.tabs {
				g.do("obs " + t)
			}
			g.do("events")
			if len(s.viol) > 4 {
				s.viol = s.viol[:4]
			}
			return s.viol, s.known, true
		},
	}
}

func init() {
	//                                   build props cbs items obs settings render
	structural := [7]int{10, 5, 4, 4, 5, 1, 3}
	rendering := [7]int{8, 3, 2, 3, 2, 3, 9}
	streams["G01"] = chaosStream("C01", "text", alphaText, [7]int{6, 1, 1, 10, 4, 1, 4})
	streams["G02"] = chaosStream("C02", "csv", alphaPlain, structural)
	streams["G03"] = chaosStream("C03", "text", alphaText, rendering)
	streams["G04"] = chaosStream("C04", "text", alphaTextLines, rendering)
	streams["G05"] = chaosStream("C05", "csv", alphaCSV, rendering)
	streams["G06"] = chaosStream("C06", "html", alphaHTML, rendering)
	streams["G07"] = chaosStream("C07", "json", append(append([]string{}, alphaHTML...), alphaPlain...), rendering)
	streams["G08"] = chaosStream("C08", "markdown", alphaMD, rendering)
	streams["G09"] = chaosStream("C09", "text", alphaText, rendering)
	streams["G10"] = chaosStream("C10", "text", alphaPlain, [7]int{5, 2, 1, 2, 1, 5, 12})
	streams["G11"] = chaosStream("C11", "csv", alphaPlain, [7]int{12, 1, 8, 2, 5, 0, 3})
	streams["G12"] = chaosStream("C12", "csv", alphaPlain, [7]int{6, 14, 3, 5, 3, 0, 2})
	streams["G13"] = chaosStream("C13", "csv", alphaPlain, [7]int{8, 3, 12, 3, 6, 0, 3})
	streams["G14"] = chaosStream("C14", "text", alphaText, [7]int{4, 2, 2, 2, 6, 3, 12})
	streams["G15"] = chaosStream("C15", "markdown", alphaPlain, rendering)
	streams["G18"] = chaosStream("C18", "text", alphaLen, [7]int{5, 1, 1, 12, 3, 0, 4})
	streams["G19"] = chaosStream("C19", "text", alphaPlain, [7]int{4, 1, 1, 1, 1, 8, 10})
}
