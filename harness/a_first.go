package main

import (
	"go.pennock.tech/tabular/texttable/decoration"
)

// firstTouch is the first thing its process asks of the decoration registry: a registration over a
// built-in name, before any lookup or listing, must win like any other.
// (Run in the race-validation process only, as its very first act: the process that produces the
// protocol streams and the regenerated decoration facts must see the built-ins exactly as the library's
// init left them.)

func firstTouch() string {
	custom := decoration.ASCIIBoxSimple()
	custom.Horizontal, custom.CrossPiece = "~", "*"
	custom.Populate()
	decoration.RegisterDecorationName(decoration.D_UTF8_DOUBLE, custom)
	got := decoration.Named(decoration.D_UTF8_DOUBLE)
	decoration.RegisterDecorationName(decoration.D_UTF8_DOUBLE, decoration.UTF8BoxDouble())
	if got != custom {
		return "the very first registry call of the process registered a decoration over the built-in name utf8-double; Named then returned a different one"
	}
	names := decoration.RegisteredDecorationNames()
	seen := map[string]bool{}
	for _, n := range names {
		seen[n] = true
	}
	for _, n := range []string{decoration.D_ASCII_SIMPLE, decoration.D_NONE, decoration.D_UTF8_LIGHT, decoration.D_UTF8_LIGHT_CURVED, decoration.D_UTF8_HEAVY, decoration.D_UTF8_DOUBLE} {
		if !seen[n] {
			return "after an early registration the listing lacks the built-in " + n
		}
	}
	return ""
}
