package main

import (
	"go.pennock.tech/tabular/texttable/decoration"
)

// firstTouch is the first thing this process asks of the decoration registry (every other
// package-level initialiser that reads the registry depends on it): a registration over a built-in
// name, before any lookup or listing, must win like any other.  The built-in is put back afterwards
// so that nothing else in the run notices.
var startupViolation = firstTouch()

func firstTouch() string {
	custom := decoration.ASCIIBoxSimple()
	custom.Horizontal, custom.CrossPiece = "~", "*"
	custom.Populate()
	decoration.RegisterDecorationName(decoration.D_UTF8_DOUBLE, custom)
	got := decoration.Named(decoration.D_UTF8_DOUBLE)
	decoration.RegisterDecorationName(decoration.D_UTF8_DOUBLE, decoration.UTF8BoxDouble())
	if got != custom {
		return "the very first registry call of the process registered a decoration over the built-in name utf8-double; Named then returned a different one"
	}
	names := decoration.RegisteredDecorationNames()
	seen := map[string]bool{}
	for _, n := range names {
		seen[n] = true
	}
	for _, n := range []string{decoration.D_ASCII_SIMPLE, decoration.D_NONE, decoration.D_UTF8_LIGHT, decoration.D_UTF8_LIGHT_CURVED, decoration.D_UTF8_HEAVY, decoration.D_UTF8_DOUBLE} {
		if !seen[n] {
			return "after an early registration the listing lacks the built-in " + n
		}
	}
	return ""
}
