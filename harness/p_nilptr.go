package main

import (
	"fmt"

	"go.pennock.tech/tabular"
)

// ---------- P01: typed nil pointers whose text method has a value receiver (oracle only) ----------
//
// (*T)(nil) where T's String/GoString/Error has a VALUE receiver "offers" that method by its method set,
// but the call itself dereferences the nil pointer and panics before any result exists; fmt's %v prints
// "<nil>" for such a value.  NewCell calls the method directly.  Recorded finding D30.

type valStr struct{ s string }

func (v valStr) String() string { return v.s }

type valGo struct{ s string }

func (v valGo) GoString() string { return v.s }

type valErr struct{ s string }

func (v valErr) Error() string { return v.s }

func init() {
	streams["P01"] = stream{
		property:  "C01",
		oracleDoc: "NewCell of typed nil pointers (*T)(nil) whose String / GoString / Error method has a value receiver, and of the same pointers non-nil: the non-nil ones give the method's result; a nil one either gives fmt's \"<nil>\" or panics in the method call — the latter is classified as the recorded finding D30",
		run: func(g *Gen, c int) ([]string, []string, bool) {
			var viol, known []string
			type probe struct {
				what string
				item interface{}
				want string
			}
			ps := []probe{
				{"&valStr{x}", &valStr{"x"}, "x"}, {"&valGo{y}", &valGo{"y"}, "y"}, {"&valErr{z}", &valErr{"z"}, "z"},
				{"(*valStr)(nil)", (*valStr)(nil), "<nil>"}, {"(*valGo)(nil)", (*valGo)(nil), "<nil>"}, {"(*valErr)(nil)", (*valErr)(nil), "<nil>"},
			}
			p := ps[c%len(ps)]
			func() {
				defer func() {
					if r := recover(); r != nil {
						if p.want == "<nil>" {
							known = append(known, "d30-typed-nil-pointer-value-receiver")
						} else {
							viol = append(viol, fmt.Sprintf("NewCell(%s) panicked: %v", p.what, r))
						}
					}
				}()
				cell := tabular.NewCell(p.item)
				if got := cell.String(); got != p.want {
					viol = append(viol, fmt.Sprintf("NewCell(%s) has text %q, expected %q", p.what, got, p.want))
				}
			}()
			return viol, known, true
		},
	}
}
