package main

// Size streams (Z03 text, Z05 csv, Z06 html, Z07 json, Z08 markdown): each case takes ONE dimension
// to an extreme — hundreds of rows, dozens of columns, a cell of several thousand bytes, a cell of a
// hundred lines, a run of separators — so that the output crosses the sizes at which buffers flush,
// slices regrow and fast paths hand over (4 KiB, 64 KiB, capacity doublings).  Rendered fault-free,
// into a bufio.Writer, as a string, and with a writer failing at a late write; the focus format's
// oracle applies as in the other streams, and every line is compared with the model.

import (
	"fmt"
	"strings"
)

func sizeStream(prop, focus string, alpha []string) stream {
	return stream{
		property:  prop,
		oracleDoc: "one dimension at an extreme per case (up to 400 rows, 40 columns, a 6,000-byte cell, a 120-line cell, 30 consecutive separators): output sizes cross 4 KiB and 64 KiB; fault-free, bufio, string and late-failing renders; the " + focus + " output oracle; every line compared with the model",
		run: func(g *Gen, c int) ([]string, []string, bool) {
			r := g.r
			var viol []string
			t := g.do("newtable")
			ncols, nrows := 2+r.n(3), 3+r.n(4)
			cell := func() string { return g.strItem(r.text(alpha, 3)) }
			special := ""
			switch []int{0, 2, 1, 2, 3, 2, 4, 2}[c%8] {
			case 0:
				nrows = 150 + r.n(250)
				if c%16 == 0 {
					nrows = 1200 + r.n(600) // past 64 KiB of output in every format
				}
			case 1:
				ncols = 20 + r.n(21)
			case 2:
				// a single value of several KiB, also one whose ESCAPED form is what crosses 4 KiB
				unit := r.pick([]string{"x", "ab ", "世", "é-", "\"", "a\"", "<", "&x", "|", "a\\", "\"\"x"})
				if r.chance(1, 2) {
					// the characters this format has to escape: the escaped form is the longer one
					unit = r.pick(map[string][]string{"csv": {"\"", "a\"", "\"\""}, "html": {"<", "&", "'", "\"x"}, "markdown": {"|", "<", "a|"},
						"json": {"\"", "\\", "\x01"}, "text": {"世", "x"}}[focus])
				}
				reps := 1500 + r.n(1500)
				if r.chance(1, 3) {
					reps = (3700 + r.n(600)) / len(unit) // raw just under 4 KiB, escaped just over
				}
				special = g.strItem(strings.Repeat(unit, reps))
			case 3:
				var ls []string
				nl := 60 + r.n(60)
				if (c/8)%2 == 0 {
					nl = 500 + r.n(1800) // past every plausible fixed-size line table
				}
				for i := 0; i < nl; i++ {
					ls = append(ls, r.text(alpha, 1))
				}
				special = g.strItem(strings.Join(ls, "\n"))
			default:
				nrows = 40
			}
			var hs []string
			for i := 0; i < ncols; i++ {
				hs = append(hs, g.strItem(fmt.Sprintf("h%d", i)))
			}
			g.do("addheaders " + t + " " + joinC(hs))
			fixed := cell()
			for i := 0; i < nrows; i++ {
				if c%8 == 6 && i%2 == 1 {
					for k := 0; k < 1+r.n(30); k++ {
						g.do("addsep " + t)
					}
					continue
				}
				var ids []string
				for j := 0; j < ncols; j++ {
					switch {
					case special != "" && i == 1 && j == ncols-1:
						ids = append(ids, special)
					case nrows > 100 && r.chance(9, 10):
						ids = append(ids, fixed) // few distinct items: the protocol stays small, the output does not
					default:
						ids = append(ids, cell())
					}
				}
				g.do("addrowitems " + t + " " + joinC(ids))
			}
			if r.chance(1, 2) {
				g.do("addsep " + t) // the table ends in a separator
				if r.chance(1, 2) {
					g.do("addsep " + t)
				}
			}
			if focus == "text" || focus == "markdown" {
				g.assignProps(t, "align", alignVals)
			}
			w := g.do("wrap " + focus + " " + t)
			res := g.do("render " + w)
			if res == "PANIC" {
				return []string{focus + " render panicked: " + lastPanic}, nil, true
			}
			switch focus {
			case "csv":
				viol = append(viol, oracleCSV(g, t, res)...)
			case "json":
				viol = append(viol, oracleJSON(g, t, res)...)
			case "markdown":
				viol = append(viol, oracleMD(g, t, res)...)
			case "html":
				viol = append(viol, oracleHTML(g, t, w, res)...)
			case "text":
				v, _ := oracleText(g, t, w, res, false)
				viol = append(viol, v...)
			}
			cl, f := parseRes(res)
			for _, kind := range []string{"bufio", "builder"} {
				c2, f2 := parseRes(g.do("renderbuf " + w + " " + kind))
				if c2 != cl || f2["out"] != f["out"] {
					viol = append(viol, fmt.Sprintf("%s output into a %s differs from the output into a plain writer", focus, kind))
				}
			}
			if c3, f3 := parseRes(g.do("renderstr " + w)); cl == "ok" && (c3 != "ok" || f3["str"] != f["out"]) {
				viol = append(viol, focus+" Render() differs from what RenderTo writes")
			}
			// a writer that fails late: at the last write, in the middle, and just past 4 KiB / 64 KiB of output
			n := len(lastChunks[idOf(w)])
			if n > 0 {
				ks := []int{n - 1, n / 2}
				sum := 0
				for i, sz := range lastChunks[idOf(w)] {
					sum += sz
					if (sum >= 4096 && sum-sz < 4096) || (sum >= 65536 && sum-sz < 65536) {
						ks = append(ks, i, i+1)
					}
				}
				full := unhx(f["out"])
				for _, k := range ks {
					if k < 0 || k >= n {
						continue
					}
					for _, mode := range []string{"from", "only", "partial"} {
						script := fmt.Sprintf("%s:%d", mode, k)
						if mode == "partial" {
							script += fmt.Sprintf(":%d", 1+r.n(5000)) // the failing write accepts part of its bytes
						}
						fc, ff := parseRes(g.do("frender " + w + " " + script))
						if fc == "ok" {
							viol = append(viol, fmt.Sprintf("%s RenderTo returned nil with a writer failing %s write %d of %d", focus, mode, k, n))
						}
						if !strings.HasPrefix(full, unhx(ff["acc"])) {
							viol = append(viol, fmt.Sprintf("%s with a writer failing %s write %d: accepted bytes are not a prefix of the output", focus, mode, k))
						}
					}
				}
			}
			if len(viol) > 4 {
				viol = viol[:4]
			}
			return viol, nil, true
		},
	}
}

func init() {
	streams["Z03"] = sizeStream("C03", "text", alphaText)
	streams["Z05"] = sizeStream("C05", "csv", alphaCSV)
	streams["Z06"] = sizeStream("C06", "html", alphaHTML)
	streams["Z07"] = sizeStream("C07", "json", alphaPlain)
	streams["Z08"] = sizeStream("C08", "markdown", alphaMD)
}
