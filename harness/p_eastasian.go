package main

import (
	"fmt"
	"strings"

	runewidth "github.com/mattn/go-runewidth"
	"go.pennock.tech/tabular"
	"go.pennock.tech/tabular/length"
	"go.pennock.tech/tabular/texttable"
	"go.pennock.tech/tabular/texttable/decoration"
)

// ---------- E03: the library's measure in its East-Asian mode (oracle only; the model is not driven) ----------
//
// Every other stream runs with RUNEWIDTH_EASTASIAN=0.  With East-Asian width on (the environment
// variable set to 1, or a CJK locale), go-runewidth counts the "ambiguous width" characters — the
// box-drawing range among them — as two cells, while the layout still counts one cell per glyph.  The
// property names the library's own measure as the judge and does not restrict the environment, so
// this is a recorded finding (D24), witnessed here by flipping the condition at run time.

func init() {
	streams["E03"] = stream{
		property:  "C03",
		oracleDoc: "a small ASCII table under every built-in decoration with go-runewidth's EastAsianWidth condition switched on: all lines of one render must have the same display width by length.StringCells; a mismatch under a decoration with box-drawing glyphs is classified as the recorded finding D24, under ascii-simple or none it is a violation",
		run: func(g *Gen, c int) ([]string, []string, bool) {
			var viol, known []string
			old := runewidth.DefaultCondition.EastAsianWidth
			runewidth.DefaultCondition.EastAsianWidth = true
			defer func() { runewidth.DefaultCondition.EastAsianWidth = old }()
			names := decoration.RegisteredDecorationNames()
			name := names[c%len(names)]
			t := tabular.New()
			t.AddHeaders("h1", "h2")
			t.AddRowItems("a", strings.Repeat("b", 1+c%5))
			t.AddSeparator()
			t.AddRowItems("cc", "d")
			tt := texttable.Wrap(t)
			if _, err := tt.SetDecorationNamed(name); err != nil {
				return nil, nil, true // a name registered with the empty value by an earlier stream of this process
			}
			out, err := tt.Render()
			if err != nil {
				return []string{fmt.Sprintf("decoration %q: render failed in East-Asian mode: %v", name, err)}, nil, true
			}
			w := -1
			for _, l := range strings.Split(strings.TrimSuffix(out, "\n"), "\n") {
				m := length.StringCells(l)
				if w >= 0 && m != w {
					ascii := true
					for _, r := range out {
						if r > 0x7e {
							ascii = false
						}
					}
					if ascii {
						viol = append(viol, fmt.Sprintf("decoration %q (ASCII only) in East-Asian mode: lines of %d and %d cells", name, w, m))
					} else {
						known = append(known, "d24-east-asian-ambiguous-width")
					}
					break
				}
				w = m
			}
			return viol, known, true
		},
	}
}
