package main

// Lifecycle streams: one table (sometimes two) lives through a random interleaving of building,
// mutation (cells added to attached rows, items mutated and cells updated, properties, wrapper
// settings, registry registrations) and renders of every kind through LONG-LIVED wrappers —
// fault-free, into standard-library writers, faulted, and again healthy after a fault.  After
// every fault-free render the oracle of the focus property is applied.  State left behind by an
// earlier call (caches, buffers, stale slots, flags) is what these streams are after.

import (
	"fmt"
	"strings"

	"go.pennock.tech/tabular/texttable/decoration"
)

type lifeCell struct {
	row   string
	idx   int
	item  string
	isObj bool
}

type lifeState struct {
	g        *Gen
	t        string
	focus    string // "csv" | "json" | "markdown" | "html" | "text"
	prop     string
	ws       map[string][]string // kind -> wrappers
	cells    []lifeCell
	rows     []string // attached non-separator rows
	viol     []string
	known    []string
	alpha    []string
	sizes    bool
	lastOut  map[string]string // wrapper -> last fault-free result
	lastVer  map[string]int    // wrapper -> table version at that render
	version  int
	nRenders int
}

func (s *lifeState) newItem() (string, bool) {
	g, r := s.g, s.g.r
	if r.chance(1, 3) {
		mask := r.n(8)
		extra := ""
		if s.sizes && r.chance(1, 2) {
			mask |= []int{8, 16, 24}[r.n(3)]
			extra = fmt.Sprintf(":h=%d:w=%d", r.n(5), r.n(8))
		}
		if mask == 0 {
			mask = 1
		}
		return g.item(fmt.Sprintf("obj:%d:s=%s:g=%s:e=%s%s", mask, hx(r.text(s.alpha, 3)), hx(r.text(s.alpha, 3)), hx(r.text(s.alpha, 3)), extra)), true
	}
	if s.focus == "json" && r.chance(1, 5) {
		return g.item(fmt.Sprintf("sample:%d", r.n(nSamples))), false
	}
	return g.strItem(r.text(s.alpha, 3)), false
}

func (s *lifeState) wrapper(kind string) string {
	if l := s.ws[kind]; len(l) > 0 && s.g.r.chance(4, 5) {
		return l[s.g.r.n(len(l))]
	}
	w := s.g.do("wrap " + kind + " " + s.t)
	s.ws[kind] = append(s.ws[kind], w)
	return w
}

func (s *lifeState) oracle(kind, w, res string) {
	g := s.g
	if kind != s.focus {
		return // other formats are rendered for their side effects; their own streams judge them
	}
	var v []string
	switch kind {
	case "csv":
		v = oracleCSV(g, s.t, res)
	case "json":
		v = oracleJSON(g, s.t, res)
	case "markdown":
		v = oracleMD(g, s.t, res)
	case "html":
		v = oracleHTML(g, s.t, w, res)
	case "text":
		var k []string
		v, k = oracleText(g, s.t, w, res, s.sizes)
		s.known = append(s.known, k...)
	}
	for _, m := range v {
		s.viol = append(s.viol, fmt.Sprintf("after %d renders: %s", s.nRenders, m))
	}
}

func (s *lifeState) render(kind string) {
	g, r := s.g, s.g.r
	w := s.wrapper(kind)
	s.nRenders++
	switch q := r.n(10); {
	case q < 5:
		res := g.do("render " + w)
		if res == "PANIC" {
			s.viol = append(s.viol, kind+" render panicked: "+lastPanic)
			return
		}
		s.oracle(kind, w, res)
		if prev, ok := s.lastOut[w]; ok && s.lastVer[w] == s.version && prev != res {
			s.viol = append(s.viol, kind+" render differs from the previous render of the unchanged table")
		}
		s.lastOut[w] = res
		s.lastVer[w] = s.version
	case q < 7:
		res := g.do("renderbuf " + w + " " + r.pick([]string{"buffer", "builder", "bufio"}))
		if res == "PANIC" {
			s.viol = append(s.viol, kind+" render panicked: "+lastPanic)
			return
		}
		s.oracle(kind, w, res)
	case q < 8:
		rs := g.do("renderstr " + w)
		if cl, f := parseRes(rs); strings.HasPrefix(cl, "err") && f["str"] != "-" && f["str"] != "" {
			s.viol = append(s.viol, "Render returned text together with an error")
		}
	default:
		// a fault, then (later) healthy renders through the same wrapper
		res := g.do("render " + w)
		class, f := parseRes(res)
		if res == "PANIC" {
			s.viol = append(s.viol, kind+" render panicked: "+lastPanic)
			return
		}
		s.oracle(kind, w, res)
		n := len(lastChunks[idOf(w)])
		if n == 0 {
			return
		}
		k := r.n(n)
		script := fmt.Sprintf("%s:%d", r.pick([]string{"from", "only", "partial"}), k)
		if strings.HasPrefix(script, "partial") {
			script += fmt.Sprintf(":%d", r.n(6))
		}
		fr := g.do("frender " + w + " " + script)
		if fr == "PANIC" {
			s.viol = append(s.viol, fmt.Sprintf("%s RenderTo panicked with writer script %s: %s", kind, script, lastPanic))
			return
		}
		fc, ff := parseRes(fr)
		if !strings.HasPrefix(unhx(f["out"]), unhx(ff["acc"])) {
			s.viol = append(s.viol, fmt.Sprintf("%s with writer script %s: accepted bytes are not a prefix of the fault-free output", kind, script))
		}
		if class == "ok" && fc == "ok" {
			s.viol = append(s.viol, fmt.Sprintf("%s with writer script %s (of %d writes): RenderTo returned nil", kind, script, n))
		}
		// healthy again
		res2 := g.do("render " + w)
		if res2 == "PANIC" {
			s.viol = append(s.viol, kind+" render after a failed one panicked: "+lastPanic)
			return
		}
		s.oracle(kind, w, res2)
		if res2 != res {
			s.viol = append(s.viol, kind+" render after a failed write differs from the render before it")
		}
	}
}

func (s *lifeState) mutate() {
	g, r := s.g, s.g.r
	s.version++
	switch q := r.n(12); {
	case q < 3 && len(s.rows) > 0: // a cell added to a row already in the table
		row := s.rows[r.n(len(s.rows))]
		it, obj := s.newItem()
		g.do("rowadd " + row + " " + it)
		s.cells = append(s.cells, lifeCell{row, len(g.x.rows[idOf(row)].Cells()) - 1, it, obj})
	case q < 5: // a new row (sometimes wider than the table)
		n := g.ncols(s.t)
		k := r.n(n + 2)
		var ids []string
		var objs []bool
		for j := 0; j < k; j++ {
			it, obj := s.newItem()
			ids = append(ids, it)
			objs = append(objs, obj)
		}
		row := g.do("addrowitems " + s.t + " " + joinC(ids))
		s.rows = append(s.rows, row)
		for j := range ids {
			s.cells = append(s.cells, lifeCell{row, j, ids[j], objs[j]})
		}
	case q == 5:
		g.do("addsep " + s.t)
	case q < 9: // mutate an item and update its cell (often to a shorter text)
		var objs []lifeCell
		for _, c := range s.cells {
			if c.isObj {
				objs = append(objs, c)
			}
		}
		if len(objs) == 0 {
			return
		}
		c := objs[r.n(len(objs))]
		txt := r.text(s.alpha, 3)
		if r.chance(1, 2) {
			txt = r.pick([]string{"", "x", "one\ntwo", "a\nb\nc\nd"})
		}
		g.do(fmt.Sprintf("mutate %s s=%s g=%s e=%s", c.item, hx(txt), hx(txt), hx(txt)))
		if r.chance(5, 6) {
			g.do(fmt.Sprintf("update %s %d", c.row, c.idx))
		}
		// (without Update the cell must keep its old text)
	case q == 9:
		key, vals := "align", alignVals
		if s.focus == "json" {
			key, vals = "skip", skipVals
		}
		g.do(fmt.Sprintf("setprop c:%d:%d %s %s", idOf(s.t), r.n(g.ncols(s.t)+1), key, r.pick(vals)))
	case q == 10 && s.focus == "html" && len(s.ws["html"]) > 0:
		w := s.ws["html"][r.n(len(s.ws["html"]))]
		args := " id=" + hx(r.text(alphaHTML, 2)) + " cls=" + hx(r.text(alphaHTML, 2)) + " cap=" + hx(r.text(alphaHTML, 2)) + r.pick([]string{"", "", " tn=" + hx("layout"), " tn=" + hx("x{{y}}"), " tn=" + hx(r.pick([]string{"tr", "td", "th", "table", "row", "cell", "T", "tbody", "thead", "Headers", "Rows"}))})
		if r.chance(2, 3) {
			var l []string
			for n := 0; n <= g.x.tables[idOf(s.t)].NRows()+2; n++ {
				l = append(l, fmt.Sprintf("%d:%s", n, hx(fmt.Sprintf("g%d%s", s.nRenders, r.text(alphaHTML, 1)))))
			}
			args += " rc=" + joinC(l)
		}
		g.do("sethtml " + w + args)
	case q == 10 && s.focus == "text" && len(s.ws["text"]) > 0:
		w := s.ws["text"][r.n(len(s.ws["text"]))]
		if r.chance(1, 2) {
			g.do("setdecornamed " + w + " " + hx(r.pick(g.registeredNames())))
		} else {
			g.do("setdecor " + w + " " + g.customDecor())
		}
	default:
		// header replaced / set late
		n := g.ncols(s.t)
		var hs []string
		for i := 0; i < n; i++ {
			hs = append(hs, g.strItem(fmt.Sprintf("H%d%s", i, r.text(s.alpha, 1))))
		}
		g.do("addheaders " + s.t + " " + joinC(hs))
	}
}

func lifeStream(prop, focus string, alpha []string, sizes bool) stream {
	return stream{
		property:  prop,
		oracleDoc: "lifecycle: building, mutation and renders of every kind interleaved on one table through long-lived wrappers (incl. a failed write followed by healthy renders); the " + focus + " oracle after every fault-free render; an unchanged table must render the same again",
		run: func(g *Gen, c int) ([]string, []string, bool) {
			r := g.r
			s := &lifeState{g: g, focus: focus, prop: prop, ws: map[string][]string{}, alpha: alpha, sizes: sizes, lastOut: map[string]string{}, lastVer: map[string]int{}}
			s.t = g.do("newtable")
			ncols := 1 + r.n(3)
			var hs []string
			for i := 0; i < ncols; i++ {
				hs = append(hs, g.strItem(fmt.Sprintf("h%d", i)))
			}
			if r.chance(2, 3) {
				if r.chance(1, 4) && ncols > 1 {
					hs = hs[:ncols-1] // a ragged, shorter header: the last column has no header cell
				}
				g.do("addheaders " + s.t + " " + joinC(hs))
			}
			for i := 0; i < 1+r.n(2); i++ {
				s.mutate()
			}
			others := []string{"csv", "json", "markdown", "html", "text"}
			steps := 6 + r.n(10)
			for i := 0; i < steps; i++ {
				if r.chance(1, 2) {
					kind := focus
					if r.chance(1, 4) {
						kind = r.pick(others)
					}
					s.render(kind)
				} else {
					s.mutate()
				}
			}
			s.render(focus)
			if len(s.viol) > 5 {
				s.viol = s.viol[:5]
			}
			return s.viol, s.known, true
		},
	}
}

func init() {
	streams["L03"] = lifeStream("C03", "text", alphaText, false)
	streams["L04"] = lifeStream("C04", "text", alphaText, true)
	streams["L05"] = lifeStream("C05", "csv", alphaCSV, false)
	streams["L06"] = lifeStream("C06", "html", alphaHTML, false)
	streams["L07"] = lifeStream("C07", "json", append(append([]string{}, alphaHTML...), alphaPlain...), false)
	streams["L08"] = lifeStream("C08", "markdown", alphaMD, false)
	streams["L09"] = lifeStream("C09", "text", alphaText, true)
	streams["L14"] = lifeStream("C14", "text", alphaText, false)
	streams["L15"] = lifeStream("C15", "csv", alphaPlain, false)
}

// ---------- hostile stream: inputs OUTSIDE the properties' stated domains ----------
// (invalid / non-alignment values, partial decorations incl. on zero-column tables, the same row
// attached twice, headers replaced by shorter ones).  No oracle: at these points the library may
// panic or mis-render; what is checked is that the MODEL says exactly what the code does there,
// so that the hypotheses of the theorems are the only place where model and properties part.
func init() {
	streams["H09"] = stream{
		property:  "C09",
		oracleDoc: "no oracle: correspondence only, at inputs the theorems exclude (invalid alignment values, partial decorations, double attach)",
		run: func(g *Gen, c int) ([]string, []string, bool) {
			r := g.r
			o := tableOpts{alpha: alphaPlain, parts: 2, maxCols: 3, maxRows: 4, postAdd: true}
			t := g.buildTable(o)
			ti := idOf(t)
			// a hand-assembled decoration, registered under a name, on the table as it is and on a column-less one:
			// no rectangle is promised, totality is (C09 speaks of every registered decoration)
			{
				var d decoration.Decoration
				fs := decorFields(&d)
				for i := range fs {
					if r.chance(1, 4) {
						*fs[i] = r.pick([]string{"|", "-", "+", "#"})
					}
				}
				name := fmt.Sprintf("raw-%d", c%7)
				g.do("register " + hx(name) + " " + showDecor(d))
				if res := g.do("autorender " + t + " " + hx(name)); res == "PANIC" {
					return []string{"auto.Render under a registered hand-assembled decoration panicked: " + lastPanic}, nil, true
				}
				e := g.do("newtable")
				g.do("addrowitems " + e + " []")
				if res := g.do("autorender " + e + " " + hx(name)); res == "PANIC" {
					return []string{"auto.Render of a column-less table under a registered hand-assembled decoration panicked: " + lastPanic}, nil, true
				}
			}
			g.do("leftdomain " + t) // what follows on this table is outside every property's domain: differences are recorded, not reported
			n := g.ncols(t)
			for i := 0; i < 1+r.n(2); i++ {
				g.do(fmt.Sprintf("setprop c:%d:%d align %s", ti, r.n(n+1), r.pick([]string{"a99999", "u5", "b1", "a1", "a3"})))
			}
			if r.chance(1, 3) {
				g.do(fmt.Sprintf("setprop c:%d:%d skip %s", ti, r.n(n+1), r.pick([]string{"u5", "a1"})))
			}
			if r.chance(1, 3) {
				rows := g.x.tables[ti].AllRows()
				if len(rows) > 0 { // the same row attached a second time
					g.do(fmt.Sprintf("addrow %s R%d", t, g.x.rowID[rows[r.n(len(rows))]]))
				}
			}
			if r.chance(1, 3) {
				g.do("addheaders " + t + " " + g.strItem("short"))
			}
			for _, k := range []string{"markdown", "json", "csv"} {
				g.do("render " + g.do("wrap "+k+" "+t))
			}
			w := g.do("wrap text " + t)
			g.do("render " + w)
			// a partial decoration, NOT completed by Populate
			var d decoration.Decoration
			fs := decorFields(&d)
			for i := range fs {
				if r.chance(1, 4) {
					*fs[i] = r.pick([]string{"|", "-", "+", "#"})
				}
			}
			g.do("setdecor " + w + " " + showDecor(d))
			g.do("render " + w)
			g.do("render " + w) // again: the wrapper's decoration is not completed behind the caller's back
			g.do("obs " + t)
			return nil, nil, true
		},
	}
}
