package main

import (
	"fmt"
	"sort"

	"go.pennock.tech/tabular"
)

// ---------- S11: callbacks that act on what they are handed (oracle only; the model is not driven) ----------
//
// The model's callback language is log / set-property / fail.  A callback may just as well call
// AddError on the row (or table) it is handed, or add a cell to that row.  The property does not
// care who records an error on a row that is, or is being, attached: it reaches the table exactly
// once.  This stream states that directly against the real code.

type recCB struct {
	tag  int
	next *int
	made *[]string
}

func (c recCB) UpdateProperties(po tabular.PropertyOwner) error {
	*c.next++
	e := idErr{900000 + c.tag*1000 + *c.next}
	switch v := po.(type) {
	case *tabular.Row:
		v.AddError(e)
	case *tabular.ATable:
		v.AddError(e)
	default:
		return nil
	}
	*c.made = append(*c.made, fmt.Sprint(e.id))
	return nil
}

func init() {
	streams["S11"] = stream{
		property:  "C11",
		oracleDoc: "add-time callbacks (on the row, on the table for rows) that call AddError on the row or table they are handed, over AddRow of pre-built rows, AddRowItems and AppendNewRow, with earlier errors on rows and table: the table's error list holds, as a multiset, every error recorded on the table or on a row that is attached, exactly once",
		run: func(g *Gen, c int) ([]string, []string, bool) {
			r := g.r
			var viol []string
			t := tabular.New()
			n := 0
			var made []string
			if r.chance(2, 3) {
				t.RegisterPropertyCallback(t, tabular.CB_AT_ADD, tabular.CB_ON_ROW, recCB{1, &n, &made})
			}
			if r.chance(1, 3) {
				t.RegisterPropertyCallback(t, tabular.CB_AT_ADD, tabular.CB_ON_ITSELF, recCB{2, &n, &made})
			}
			if r.chance(1, 2) {
				e := idErr{800000 + c}
				t.AddError(e)
				made = append(made, fmt.Sprint(e.id))
			}
			for i := 0; i < 1+r.n(4); i++ {
				switch r.n(4) {
				case 0:
					t.AddRowItems("a", "b")
				case 1:
					row := t.AppendNewRow()
					row.Add(tabular.NewCell("x"))
				default:
					var row *tabular.Row
					if r.chance(1, 2) {
						row = tabular.NewRow()
					} else {
						row = t.NewRowSizedFor()
					}
					if r.chance(2, 3) {
						if r.chance(1, 2) {
							t.RegisterPropertyCallback(row, tabular.CB_AT_ADD, tabular.CB_ON_ITSELF, recCB{3 + i, &n, &made})
						} else {
							t.RegisterPropertyCallback(row, tabular.CB_AT_ADD, tabular.CB_ON_ROW, recCB{3 + i, &n, &made})
						}
					}
					if r.chance(1, 2) {
						e := idErr{700000 + c*10 + i}
						row.AddError(e)
						made = append(made, fmt.Sprint(e.id))
					}
					row.Add(tabular.NewCell("y"))
					t.AddRow(row)
					if r.chance(1, 3) {
						e := idErr{600000 + c*10 + i}
						row.AddError(e)
						made = append(made, fmt.Sprint(e.id))
					}
				}
			}
			var got []string
			for _, e := range t.Errors() {
				got = append(got, fmt.Sprint(errID(e)))
			}
			sort.Strings(got)
			sort.Strings(made)
			if fmt.Sprint(got) != fmt.Sprint(made) {
				viol = append(viol, fmt.Sprintf("errors recorded on the table and its rows (by callers and by callbacks handed the row): %v; the table reports %v", made, got))
			}
			return viol, nil, true
		},
	}
}
