package main

import (
	"fmt"

	"go.pennock.tech/tabular"
)

// ---------- B02: shapes past 2^8 and 2^16 (oracle only; the model is not driven) ----------
//
// Counts, positions and sizes are Go ints; the Lean model reads them as unbounded naturals.  The
// regenerated fact `ints_not_narrowed` states that no struct field or conversion narrows them; this
// stream is the search for a concrete wrapped value when that obligation breaks, and a standing
// check that addressing stays exact at sizes the random streams never reach.

func init() {
	streams["B02"] = stream{
		property:  "C02",
		oracleDoc: "rows of 300 and 65,537 cells (added to an attached row, pre-built, as headers) and a table of 66,000 rows: NColumns/NRows, CellAt at the 2^8 and 2^16 boundaries returning the cell whose own Location is the one asked for, Column(n) non-nil up to the count, rows reporting their own position",
		run: func(g *Gen, c int) ([]string, []string, bool) {
			var viol []string
			probe := func(tb *tabular.ATable, what string, r int, cols []int) {
				for _, k := range cols {
					if k < 1 || k > tb.NColumns() {
						continue
					}
					p, err := tb.CellAt(tabular.CellLocation{Row: r, Column: k})
					if err != nil || p == nil {
						viol = append(viol, fmt.Sprintf("%s: CellAt(%d,%d) fails: %v", what, r, k, err))
						continue
					}
					if l := p.Location(); l.Row != r || l.Column != k {
						viol = append(viol, fmt.Sprintf("%s: the cell at (%d,%d) reports location (%d,%d)", what, r, k, l.Row, l.Column))
					}
					if got := p.String(); got != fmt.Sprint(k) {
						viol = append(viol, fmt.Sprintf("%s: the cell at (%d,%d) holds %q", what, r, k, got))
					}
					if tb.Column(k) == nil {
						viol = append(viol, fmt.Sprintf("%s: Column(%d) is nil with %d columns", what, k, tb.NColumns()))
					}
				}
			}
			edges := []int{1, 127, 128, 129, 255, 256, 257, 300, 32767, 32768, 32769, 65535, 65536, 65537}
			n := []int{300, 65537}[c%2]
			switch (c / 2) % 4 {
			case 0: // cells added one by one to a row the table already holds
				tb := tabular.New()
				tb.AddRowItems("first")
				r := tb.AppendNewRow()
				for i := 1; i <= n; i++ {
					r.Add(tabular.NewCell(i))
				}
				if tb.NColumns() != n {
					viol = append(viol, fmt.Sprintf("attached row grown to %d cells: NColumns %d", n, tb.NColumns()))
				}
				probe(tb, "attached row", 2, edges)
			case 1: // a pre-built row
				tb := tabular.New()
				r := tabular.NewRow()
				for i := 1; i <= n; i++ {
					r.Add(tabular.NewCell(i))
				}
				tb.AddRow(r)
				if tb.NColumns() != n {
					viol = append(viol, fmt.Sprintf("pre-built row of %d cells: NColumns %d", n, tb.NColumns()))
				}
				probe(tb, "pre-built row", 1, edges)
			case 2: // headers
				tb := tabular.New()
				items := make([]interface{}, n)
				for i := range items {
					items[i] = i + 1
				}
				tb.AddHeaders(items...)
				tb.AddRowItems(items...)
				if tb.NColumns() != n || len(tb.Headers()) != n {
					viol = append(viol, fmt.Sprintf("%d headers: NColumns %d, %d header cells", n, tb.NColumns(), len(tb.Headers())))
				}
				probe(tb, "row under wide headers", 1, edges)
			default: // many rows
				tb := tabular.New()
				m := n + 463
				for i := 1; i <= m; i++ {
					if i%1000 == 0 {
						tb.AddSeparator()
					} else {
						tb.AddRowItems(1, 2)
					}
				}
				if tb.NRows() != m {
					viol = append(viol, fmt.Sprintf("%d rows added: NRows %d", m, tb.NRows()))
				}
				rows := tb.AllRows()
				for _, r := range append(edges, m) {
					if r > m || r%1000 == 0 {
						continue
					}
					probe(tb, "tall table", r, []int{1, 2})
					if l := rows[r-1].Location(); l.Row != r {
						viol = append(viol, fmt.Sprintf("row %d of %d reports position %d", r, m, l.Row))
					}
				}
			}
			if len(viol) > 4 {
				viol = viol[:4]
			}
			return viol, nil, true
		},
	}
}
