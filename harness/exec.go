package main

// The Go-side interpreter of the line protocol: executes each op on the real
// library (in-process, panics recovered) and returns (a) the line(s) to feed the
// Lean driver and (b) the observation line(s) in the driver's output format.

import (
	"bufio"
	"bytes"
	"encoding/hex"
	"encoding/json"
	"errors"
	"fmt"
	"html/template"
	"io"
	"math"
	"reflect"
	"sort"
	"strconv"
	"strings"
	"sync"

	"go.pennock.tech/tabular"
	"go.pennock.tech/tabular/auto"
	"go.pennock.tech/tabular/csv"
	thtml "go.pennock.tech/tabular/html"
	tjson "go.pennock.tech/tabular/json"
	"go.pennock.tech/tabular/length"
	"go.pennock.tech/tabular/markdown"
	"go.pennock.tech/tabular/properties"
	"go.pennock.tech/tabular/properties/align"
	"go.pennock.tech/tabular/texttable"
	"go.pennock.tech/tabular/texttable/decoration"
)

// ---------- encoding helpers (must match lean/Driver.lean) ----------

func hx(s string) string {
	if s == "" {
		return "-"
	}
	return hex.EncodeToString([]byte(s))
}

func unhx(s string) string {
	if s == "-" || s == "~" {
		return ""
	}
	b, err := hex.DecodeString(s)
	if err != nil {
		panic("bad hex " + s)
	}
	return string(b)
}

func joinC(l []string) string {
	if len(l) == 0 {
		return "[]"
	}
	return strings.Join(l, ",")
}

func listOf(s string) []string {
	if s == "[]" || s == "" {
		return nil
	}
	return strings.Split(s, ",")
}

func idOf(s string) int {
	n, err := strconv.Atoi(s[1:])
	if err != nil {
		panic("bad id " + s)
	}
	return n
}

func atoi(s string) int {
	n, err := strconv.Atoi(s)
	if err != nil {
		panic("bad int " + s)
	}
	return n
}

func b01(b bool) string {
	if b {
		return "1"
	}
	return "0"
}

func kv(args []string, k string) string {
	for _, a := range args {
		if strings.HasPrefix(a, k+"=") {
			return a[len(k)+1:]
		}
	}
	return "~"
}

// ---------- errors with identity ----------

type idErr struct{ id int }

func (e idErr) Error() string { return fmt.Sprintf("verif error #%d", e.id) }

// error values of other shapes with the same identity scheme: a pointer type, and "report" errors that
// implement Unwrap() []error (the errors.Join shape) with two children or none.  A container must keep
// the value it was given, whatever its dynamic type.
type ptrIdErr struct{ id int }

func (e *ptrIdErr) Error() string { return fmt.Sprintf("verif error *#%d", e.id) }

type multiIdErr struct {
	id   int
	kids []error
}

func (e *multiIdErr) Error() string   { return fmt.Sprintf("verif report #%d", e.id) }
func (e *multiIdErr) Unwrap() []error { return e.kids }

// errors whose dynamic value is the zero value of its type (field-less sentinels, the library's own
// NoSuchCellError{}): non-nil as errors, so recorded like any other.  idErr{0} is a third such value.
type sentinelErrA struct{}
type sentinelErrB struct{}

func (sentinelErrA) Error() string { return "verif sentinel A" }
func (sentinelErrB) Error() string { return "verif sentinel B" }

const (
	idSentinelA  = 900001
	idSentinelB  = 900002
	idNoSuchCell = 900003
)

func mkErr(id int) error {
	switch id {
	case idSentinelA:
		return sentinelErrA{}
	case idSentinelB:
		return sentinelErrB{}
	case idNoSuchCell:
		return tabular.NoSuchCellError{}
	}
	switch id % 5 {
	case 2:
		return &ptrIdErr{id}
	case 3:
		return &multiIdErr{id, []error{idErr{id + 100000}, idErr{id + 200000}}}
	case 4:
		return &multiIdErr{id, nil}
	}
	return idErr{id}
}

func errID(e error) int {
	if e == nil {
		return -1
	}
	switch v := e.(type) {
	case idErr:
		return v.id
	case *ptrIdErr:
		return v.id
	case *multiIdErr:
		return v.id
	case sentinelErrA:
		return idSentinelA
	case sentinelErrB:
		return idSentinelB
	case tabular.NoSuchCellError:
		if v == (tabular.NoSuchCellError{}) {
			return idNoSuchCell
		}
	}
	// an error the library wrapped with context (%w) still reports the one that was raised: all three shapes alike
	var me *multiIdErr // first: its kids are idErr values, which the search below would otherwise find
	if errors.As(e, &me) {
		return me.id
	}
	var pe *ptrIdErr
	if errors.As(e, &pe) {
		return pe.id
	}
	var ie idErr
	if errors.As(e, &ie) {
		return ie.id
	}
	switch {
	case e == texttable.ErrNotCellProperties:
		return 1000002
	case e == markdown.ErrNotCellProperties:
		return 1000003
	case e.Error() == "can't add cells to a non-cell row":
		return 1000001
	}
	return 999999
}

func showErrs(es []error) string {
	if es == nil {
		return "[]"
	}
	l := make([]string, len(es))
	for i, e := range es {
		if e == nil {
			l[i] = "NIL"
		} else {
			l[i] = strconv.Itoa(errID(e))
		}
	}
	if len(l) == 0 {
		return "EMPTY-NONNIL"
	}
	return strings.Join(l, ",")
}

// errScratch is reused for every AddErrorList call, the way a caller collecting errors per row
// reuses one buffer: a container that adopts the caller's slice instead of copying it shows up as
// errors changing afterwards.
var errScratch = make([]error, 0, 16)

func scratchErrs(s string) []error {
	errScratch = errScratch[:0]
	for i := range errScratch[:cap(errScratch)] {
		errScratch[:cap(errScratch)][i] = idErr{-7}
	}
	errScratch = append(errScratch, parseErrs(s)...)
	return errScratch
}

func parseErrs(s string) []error {
	var out []error
	for _, e := range listOf(s) {
		if e == "nil" {
			out = append(out, nil)
		} else {
			out = append(out, mkErr(atoi(e)))
		}
	}
	return out
}

// ---------- property keys and values ----------

type keyK string // a distinct named type with the same underlying values as string keys

type structKey struct {
	A int
	B string
}

var ptrKeys = map[int]*int{}

// keys of struct and array kind that hold a pointer: two of them with distinct pointers are distinct keys
// although what the pointers point at is equal (== compares the pointers; reflect.DeepEqual would not)
type keyPayload struct{ Name string }
type ptrStructKey struct {
	P *keyPayload
	S string
}

var payloadKeys = map[int]*keyPayload{}

// user key n: the harness maps n to a Go key so that distinct n are distinct
// (dynamic type, value) pairs, deliberately colliding on value across types.
func userKey(n int) interface{} {
	if n%8 >= 6 {
		p, ok := payloadKeys[n]
		if !ok {
			p = &keyPayload{"renderer"}
			payloadKeys[n] = p
		}
		if n%8 == 6 {
			return ptrStructKey{p, "width"}
		}
		return [1]*keyPayload{p}
	}
	n = n/8*6 + n%8 // the six older shapes keep their spacing
	switch n % 6 {
	case 0:
		return fmt.Sprintf("k%d", n/6)
	case 1:
		return keyK(fmt.Sprintf("k%d", n/6))
	case 2:
		return n / 6
	case 3:
		return int64(n / 6)
	case 4:
		return structKey{n / 6, "k"}
	default:
		p, ok := ptrKeys[n]
		if !ok {
			p = new(int)
			ptrKeys[n] = p
		}
		return p
	}
}

func parseKey(s string) interface{} {
	switch s {
	case "align":
		return align.PropertyType
	case "skip":
		return properties.Skipable
	}
	return userKey(atoi(s[1:]))
}

type userVal struct{ N int }

func parseVal(s string) interface{} {
	switch {
	case s == "nil":
		return nil
	case s == "b1":
		return true
	case s == "b0":
		return false
	case s[0] == 'P':
		// a pointer value: P<k> names one allocation; every allocation points at an equal payload,
		// so two of them differ by identity only
		k := atoi(s[1:])
		if ptrVals[k] == nil {
			ptrVals[k] = &ptrPayload{N: 7, L: []int{1, 2}}
		}
		return ptrVals[k]
	case s[0] == 'u':
		return userVal{atoi(s[1:])}
	case s[0] == 'a':
		switch atoi(s[1:]) {
		case 1:
			return align.Left
		case 2:
			return align.Right
		case 3:
			return align.Center
		default:
			return align.TestingInvalidAlignment()
		}
	}
	panic("bad val " + s)
}

type ptrPayload struct {
	N int
	L []int
}

var ptrVals = map[int]*ptrPayload{}

func showVal(v interface{}) string {
	switch x := v.(type) {
	case nil:
		return "nil"
	case *ptrPayload:
		for k, p := range ptrVals {
			if p == x {
				return fmt.Sprintf("P%d", k)
			}
		}
		return "P?"
	case bool:
		return "b" + b01(x)
	case userVal:
		return fmt.Sprintf("u%d", x.N)
	case align.Alignment:
		switch x {
		case align.Left:
			return "a1"
		case align.Right:
			return "a2"
		case align.Center:
			return "a3"
		}
		return "a99999"
	}
	return fmt.Sprintf("?%T", v)
}

// ---------- decorations ----------

func decorFields(d *decoration.Decoration) []*string {
	return []*string{&d.Horizontal, &d.Vertical, &d.CrossPiece, &d.TopDown, &d.VBorder, &d.HOuter, &d.HRule,
		&d.VHeader, &d.VBodyBorder, &d.VBodyInner, &d.TopLeft, &d.TopRight, &d.BottomLeft, &d.BottomRight,
		&d.LeftBodyRule, &d.RightBodyRule, &d.HTopDown, &d.BTopDown, &d.BBottomUp, &d.HBCross, &d.HBLeft, &d.HBRight}
}

func isBoxless(d decoration.Decoration) bool {
	// unexported field: visible through %#v
	return strings.Contains(fmt.Sprintf("%#v", d), "isBoxless:true")
}

func showDecor(d decoration.Decoration) string {
	fs := decorFields(&d)
	l := make([]string, 0, 23)
	for _, f := range fs {
		l = append(l, hx(*f))
	}
	l = append(l, b01(isBoxless(d)))
	return strings.Join(l, ",")
}

func parseDecor(s string) decoration.Decoration {
	parts := strings.Split(s, ",")
	var d decoration.Decoration
	if len(parts) > 22 && parts[22] == "1" {
		d = decoration.NoBox()
	}
	for i, f := range decorFields(&d) {
		*f = unhx(parts[i])
	}
	return d
}

// ---------- writer with faults ----------

type faultWriter struct {
	mode   string // "", from, only, partial
	k, n   int
	calls  int
	acc    bytes.Buffer
	chunks []int
}

var errInjected = errors.New("injected writer failure")

func (f *faultWriter) Write(p []byte) (int, error) {
	i := f.calls
	f.calls++
	fail := false
	take := 0
	switch f.mode {
	case "from":
		fail = i >= f.k
	case "only":
		fail = i == f.k
	case "partial":
		fail = i == f.k
		take = f.n
	}
	if fail {
		if take > len(p) {
			take = len(p)
		}
		f.acc.Write(p[:take])
		return take, errInjected
	}
	f.acc.Write(p)
	f.chunks = append(f.chunks, len(p))
	return len(p), nil
}

// faultStringWriter is the same writer with a WriteString method as well (the shape of *os.File,
// *bufio.Writer, *bytes.Buffer): io.WriteString and fmt take that route when it exists, and the
// failure schedule counts a WriteString like a Write.
type faultStringWriter struct{ *faultWriter }

func (f faultStringWriter) WriteString(s string) (int, error) { return f.faultWriter.Write([]byte(s)) }

// ---------- the executor ----------

type renderTable interface {
	tabular.Table
	Render() (string, error)
	RenderTo(io.Writer) error
}

type wrapper struct {
	kind  string
	obj   renderTable
	core  int
	decor decoration.Decoration // what the harness set on a text wrapper (for the oracles)
	html  struct {
		id, cls, cap string
		rc           map[int]string
	}
}

type event struct {
	id  int
	tgt string
}

type Exec struct {
	tables   []*tabular.ATable
	rows     []*tabular.Row
	rowID    map[*tabular.Row]int
	hdrOf    map[int]int // table -> reserved header row id
	items    []interface{}
	itemSpec []string
	copies   []*tabular.Cell
	handles  []tabular.PropertyOwner // column handles taken earlier
	wrappers []wrapper
	ecs      []*tabular.ErrorContainer
	events   []event
	objN     int
	seenDW   map[string]bool
	seenJS   map[string]bool
	curTable int
	pending  int      // row id reserved for a row the library is creating right now (-1: none)
	pre      []string // extra lean lines (dw/js) to emit before the current op
}

func NewExec() *Exec {
	return &Exec{rowID: map[*tabular.Row]int{}, hdrOf: map[int]int{}, seenDW: map[string]bool{}, seenJS: map[string]bool{}, pending: -1}
}

func (x *Exec) resetCase() {
	lastChunks = map[int][]int{}
	x.tables = nil
	x.rows = nil
	x.rowID = map[*tabular.Row]int{}
	x.hdrOf = map[int]int{}
	x.items = nil
	x.itemSpec = nil
	x.copies = nil
	x.handles = nil
	x.wrappers = nil
	x.ecs = nil
	x.events = nil
}

func pureASCII(s string) bool {
	for i := 0; i < len(s); i++ {
		if s[i] < 0x20 || s[i] > 0x7e {
			return false
		}
	}
	return true
}

func (x *Exec) needDW(s string) {
	if pureASCII(s) || x.seenDW[s] {
		return
	}
	x.seenDW[s] = true
	x.pre = append(x.pre, fmt.Sprintf("dw %s %d", hx(s), length.StringCells(s)))
}

func mdEscape(in string) string {
	r := strings.NewReplacer("&", "&amp;", "'", "&#39;", "<", "&lt;", ">", "&gt;", "\"", "&#34;", "|", "&#x7c;", "\n", "&#x0a;")
	return r.Replace(in)
}

func (x *Exec) needText(s string) {
	for _, l := range strings.Split(s, "\n") {
		x.needDW(l)
	}
	x.needDW(mdEscape(s))
	if !x.seenJS[s] {
		x.seenJS[s] = true
		j, err := json.Marshal(s)
		if err == nil {
			x.pre = append(x.pre, fmt.Sprintf("js %s %s", hx(s), hx(string(j))))
		}
	}
}

func (x *Exec) newRowID(r *tabular.Row) int {
	id := len(x.rows)
	x.rows = append(x.rows, r)
	if r != nil {
		x.rowID[r] = id
	}
	return id
}

// sample values of assorted dynamic types for the `default` arm
func sampleValue(k int) interface{} {
	samples := []interface{}{
		42, -7, int64(1) << 40, uint8(200), 3.5, float32(0.25), true, false,
		[]int{1, 2, 3}, []string{"a", "b"}, map[string]int{"z": 1, "a": 2}, struct{}{},
		struct{ A, B int }{1, 2}, []byte("hi"), [2]bool{true, false}, complex(1, 2),
		math.NaN(), math.Inf(1), make(chan int), (*int)(nil), []interface{}{nil, "x", 1.5},
		map[string]interface{}{"k": []int{1}}, json.Number("12"), struct{ X string }{"<&>"},
		int32(0x4e16), 'x', int32(-1), int32(0xD800), int32(0x110000), uint16(7), "",
		errors.New("plain error"), fmt.Errorf("wrapped: %w", io.EOF), strings.NewReplacer(), &struct{ P int }{5},
		float32(0.1), float32(3.14), float32(1.31), float64(0.1), 1e21, float32(1e10), int8(-128), uint64(1) << 63, uintptr(7),
		complex64(complex(0.1, -2)), namedString("named"), namedFloat(0.1), (*namedPtr)(nil), []float32{0.1, 2.5}, time2{3},
	}
	return samples[k%len(samples)]
}

const nSamples = 50

type namedString string
type namedFloat float32
type namedPtr struct{ X int }
type time2 struct{ N int } // a type with both String and Error: String must win

func (t time2) String() string { return fmt.Sprintf("S%d", t.N) }
func (t time2) Error() string  { return fmt.Sprintf("E%d", t.N) }

func (x *Exec) buildItem(spec string) interface{} {
	parts := strings.Split(spec, ":")
	switch parts[0] {
	case "nil":
		return nil
	case "str":
		return unhx(parts[1])
	case "rune":
		return rune(atoi(parts[1]))
	case "sample":
		return sampleValue(atoi(parts[1]))
	case "obj":
		mask := atoi(parts[1])
		x.objN++
		id := x.objN
		d := &objData{}
		objStore[id] = d
		setObj(d, parts[2:])
		return newObj(mask, id)
	case "cell":
		return tabular.NewCell(x.items[idOf(parts[1])])
	case "cellptr":
		c := tabular.NewCell(x.items[idOf(parts[1])])
		return &c
	case "zerocell":
		return tabular.Cell{}
	case "cellp": // a Cell item that carries properties of its own: they belong to it, not to the cell made from it
		c := tabular.NewCell(x.items[idOf(parts[1])])
		for _, k := range []string{"u1", "u2", "u3", "align", "skip"} {
			c.SetProperty(parseKey(k), parseVal("u7"))
		}
		return c
	}
	panic("bad item spec " + spec)
}

func setObj(d *objData, kvs []string) {
	for _, p := range kvs {
		if len(p) < 2 || p[1] != '=' {
			continue
		}
		v := p[2:]
		switch p[0] {
		case 's':
			d.s = unhx(v)
		case 'g':
			d.g = unhx(v)
		case 'e':
			d.e = unhx(v)
		case 'h':
			d.h = atoi(v)
		case 'w':
			d.w = atoi(v)
		}
	}
}

func objIDOf(it interface{}) int {
	v := reflect.ValueOf(it)
	if !v.IsValid() || v.Kind() != reflect.Struct {
		return 0
	}
	var find func(v reflect.Value) int
	find = func(v reflect.Value) int {
		if v.Type() == reflect.TypeOf(objBase{}) {
			return int(v.Field(0).Int())
		}
		if v.Kind() == reflect.Struct {
			for i := 0; i < v.NumField(); i++ {
				if n := find(v.Field(i)); n != 0 {
					return n
				}
			}
		}
		return 0
	}
	return find(v)
}

// describeItem produces the observational record of an item for the Lean model.
func (x *Exec) describeItem(id int, it interface{}) string {
	var b strings.Builder
	fmt.Fprintf(&b, "item I%d", id)
	opt := func(tag string, present bool, f func() string) {
		if present {
			fmt.Fprintf(&b, " %s=%s", tag, hx(f()))
		} else {
			fmt.Fprintf(&b, " %s=~", tag)
		}
	}
	switch v := it.(type) {
	case nil:
		b.WriteString(" kind=nil")
	case tabular.Cell:
		// the four fields the Cell arm copies; width/height read through reflection-free accessors
		// are clamped, so use %#v-independent knowledge: NewCell-built cells are described by their source
		w, h := rawCellDims(v)
		fmt.Fprintf(&b, " kind=cell cs=%s cw=%d ch=%d ce=%s", hx(v.String()), w, h, b01((&v).Empty()))
	case string:
		fmt.Fprintf(&b, " kind=str s=%s", hx(v))
	case rune:
		fmt.Fprintf(&b, " kind=rune r=%d", v)
	default:
		b.WriteString(" kind=other")
	}
	s, isS := it.(tabular.Stringer)
	g, isG := it.(tabular.GoStringer)
	e, isE := it.(error)
	opt("S", isS && !isNilPtr(it), func() string { return s.String() })
	opt("G", isG && !isNilPtr(it), func() string { return g.GoString() })
	opt("E", isE && !isNilPtr(it), func() string { return e.Error() })
	fmt.Fprintf(&b, " V=%s", hx(fmt.Sprintf("%v", it)))
	if h, ok := it.(tabular.Heighter); ok && !isNilPtr(it) {
		fmt.Fprintf(&b, " H=%d", h.Height())
	} else {
		b.WriteString(" H=~")
	}
	if w, ok := it.(tabular.TerminalCellWidther); ok && !isNilPtr(it) {
		fmt.Fprintf(&b, " W=%d", w.TerminalCellWidth())
	} else {
		b.WriteString(" W=~")
	}
	j, err := json.Marshal(it)
	if err != nil {
		b.WriteString(" J=~")
	} else {
		fmt.Fprintf(&b, " J=%s", hx(string(j)))
	}
	return b.String()
}

func isNilPtr(it interface{}) bool {
	v := reflect.ValueOf(it)
	return v.IsValid() && v.Kind() == reflect.Ptr && v.IsNil()
}

// rawCellDims recovers the unexported width/height of a Cell value from %#v-free
// public behaviour: for cells built by NewCell the raw width/height are only
// observable clamped; we read the raw fields by reflection (read-only).
func rawCellDims(c tabular.Cell) (int, int) {
	v := reflect.ValueOf(c)
	return int(v.FieldByName("width").Int()), int(v.FieldByName("height").Int())
}

func (x *Exec) declareItem(id int, spec string, it interface{}) {
	for len(x.items) <= id {
		x.items = append(x.items, nil)
		x.itemSpec = append(x.itemSpec, "nil")
	}
	x.items[id] = it
	x.itemSpec[id] = spec
	txt := safeText(it)
	x.needText(txt)
}

func safeText(it interface{}) (s string) {
	defer func() {
		if r := recover(); r != nil {
			s = ""
		}
	}()
	return tabular.NewCell(it).String()
}

// ---------- recording callbacks ----------

type cbLog struct {
	x  *Exec
	id int
}
type cbSet struct {
	x    *Exec
	id   int
	k, v interface{}
}
type cbFail struct {
	x  *Exec
	id int
	e  int
}

func (c cbLog) UpdateProperties(po tabular.PropertyOwner) error {
	c.x.events = append(c.x.events, event{c.id, c.x.identify(po)})
	return nil
}
func (c cbSet) UpdateProperties(po tabular.PropertyOwner) error {
	c.x.events = append(c.x.events, event{c.id, c.x.identify(po)})
	po.SetProperty(c.k, c.v)
	return nil
}
func (c cbFail) UpdateProperties(po tabular.PropertyOwner) error {
	c.x.events = append(c.x.events, event{c.id, c.x.identify(po)})
	return mkErr(c.e)
}

func (x *Exec) findCell(p *tabular.Cell) string {
	for id, r := range x.rows {
		if r == nil {
			continue
		}
		cs := r.Cells()
		for i := range cs {
			if &cs[i] == p {
				return fmt.Sprintf("x:%d:%d", id, i)
			}
		}
	}
	for t, tb := range x.tables {
		hs := tb.Headers()
		for i := range hs {
			if &hs[i] == p {
				return fmt.Sprintf("x:%d:%d", x.hdrOf[t], i)
			}
		}
	}
	for i, c := range x.copies {
		if c == p {
			return fmt.Sprintf("y:%d", i)
		}
	}
	// a row the library created inside the current call and that we have not been handed yet
	if x.pending >= 0 {
		for _, tb := range x.tables {
			for _, r := range tb.AllRows() {
				if _, known := x.rowID[r]; known {
					continue
				}
				cs := r.Cells()
				for i := range cs {
					if &cs[i] == p {
						x.rowID[r] = x.pending
						x.rows[x.pending] = r
						return fmt.Sprintf("x:%d:%d", x.pending, i)
					}
				}
			}
		}
	}
	return "x:?"
}

func (x *Exec) identify(po tabular.PropertyOwner) string {
	switch v := po.(type) {
	case *tabular.ATable:
		for i, t := range x.tables {
			if t == v {
				return fmt.Sprintf("t:%d", i)
			}
		}
		return "t:?"
	case *tabular.Row:
		if id, ok := x.rowID[v]; ok {
			return fmt.Sprintf("r:%d", id)
		}
		// a row the library is creating inside the current call (AddRowItems / AddHeaders)
		if x.pending >= 0 {
			x.rowID[v] = x.pending
			x.rows[x.pending] = v
			return fmt.Sprintf("r:%d", x.pending)
		}
		// otherwise an unknown row pointer can only be the header row of the table being rendered
		if id, ok := x.hdrOf[x.curTable]; ok {
			if !sameBacking(v.Cells(), x.tables[x.curTable].Headers()) {
				return "r:NOT-LIVE" // not the header row the table holds
			}
			x.rowID[v] = id
			x.rows[id] = v
			return fmt.Sprintf("r:%d", id)
		}
		return "r:?"
	case *tabular.Cell:
		return x.findCell(v)
	default:
		// *column is unexported: compare with each table's Column(n)
		for ti, t := range x.tables {
			for n := 0; n <= t.NColumns(); n++ {
				if interface{}(t.Column(n)) == interface{}(po) {
					return fmt.Sprintf("c:%d:%d", ti, n)
				}
			}
		}
	}
	return "?"
}

func (x *Exec) owner(s string) tabular.PropertyOwner {
	p := strings.Split(s, ":")
	switch p[0] {
	case "t":
		return x.tables[atoi(p[1])]
	case "c":
		return x.tables[atoi(p[1])].Column(atoi(p[2]))
	case "r":
		return x.rows[atoi(p[1])]
	case "x":
		return x.cellPtr(atoi(p[1]), atoi(p[2]))
	case "y":
		return x.copies[atoi(p[1])]
	case "h":
		return x.handles[atoi(p[1])]
	}
	panic("bad owner " + s)
}

func (x *Exec) cellPtr(r, c int) *tabular.Cell {
	if row := x.rows[r]; row != nil {
		cs := row.Cells()
		if c < len(cs) {
			return &cs[c]
		}
		return nil
	}
	// a header row we never saw the pointer of: reach its cells through Headers()
	for t, id := range x.hdrOf {
		if id == r {
			hs := x.tables[t].Headers()
			if c < len(hs) {
				return &hs[c]
			}
		}
	}
	return nil
}

func (x *Exec) cellsOfRow(r int) ([]tabular.Cell, bool) {
	if row := x.rows[r]; row != nil {
		return row.Cells(), true
	}
	for t, id := range x.hdrOf {
		if id == r {
			return x.tables[t].Headers(), true
		}
	}
	return nil, false
}

func classify(err error) string {
	if err == nil {
		return "ok"
	}
	if errors.Is(err, errInjected) {
		return "err:writer"
	}
	m := err.Error()
	switch {
	case strings.Contains(m, "require headers") || strings.Contains(m, "without headers"):
		return "err:no-headers"
	case strings.Contains(m, "can't emit a table with"):
		return "err:no-columns"
	case strings.Contains(m, "headers for keys, only found"):
		return "err:too-few-headers"
	case strings.Contains(m, "has an empty header"):
		return "err:empty-header"
	case strings.Contains(m, "header matches previous"):
		return "err:dup-header"
	case strings.Contains(m, "Skipable property is non-boolean"):
		return "err:nonbool-skipable"
	case strings.Contains(m, "structural bug"):
		return "err:structural"
	case strings.Contains(m, "JSON encoding"):
		return "err:marshal"
	case strings.Contains(m, "no decoration at all"):
		return "err:no-decoration"
	}
	lastErrText = m
	return "err:other"
}

func (x *Exec) showCellLoc(c *tabular.Cell) string {
	l := c.Location()
	return fmt.Sprintf("%d.%d", l.Row, l.Column)
}

func (x *Exec) obsTable(t int) string {
	tb := x.tables[t]
	nrows, ncols := tb.NRows(), tb.NColumns()
	var cols []string
	for n := -1; n <= ncols+1; n++ {
		cols = append(cols, fmt.Sprintf("%d:%s", n, b01(tb.Column(n) != nil)))
	}
	var cellat []string
	for r := 0; r <= nrows+1; r++ {
		for c := 0; c <= ncols+1; c++ {
			loc := tabular.CellLocation{Row: r, Column: c}
			p, err := tb.CellAt(loc)
			if err != nil {
				var nsc tabular.NoSuchCellError
				if errors.As(err, &nsc) && p == nil && nsc.Location == loc {
					cellat = append(cellat, fmt.Sprintf("%d.%d:x", r, c))
				} else {
					cellat = append(cellat, fmt.Sprintf("%d.%d:badnosuch", r, c))
				}
				continue
			}
			id := x.findCell(p)
			cellat = append(cellat, fmt.Sprintf("%d.%d:R%s@%s", r, c, strings.TrimPrefix(id, "x:"), x.showCellLoc(p)))
		}
	}
	// mutate the returned row list: the table must not notice
	all := tb.AllRows()
	var rows []string
	for _, r := range all {
		id, ok := x.rowID[r]
		if !ok {
			rows = append(rows, "R?")
		} else {
			rows = append(rows, fmt.Sprintf("R%d", id))
		}
	}
	for i := range all {
		all[i] = nil
	}
	if len(all) > 1 {
		all = all[:1]
	}
	_ = all
	hdr := "~"
	if tb.Headers() != nil {
		hdr = fmt.Sprintf("R%d", x.hdrOf[t])
	}
	return fmt.Sprintf("nrows=%d ncols=%d hdr=%s rows=%s errs=%s cols=%s cellat=%s",
		nrows, ncols, hdr, joinC(rows), showErrs(tb.Errors()), joinC(cols), joinC(cellat))
}

func (x *Exec) obsRow(r int) string {
	row := x.rows[r]
	cs, _ := x.cellsOfRow(r)
	cells := "~"
	rownum, sep, errs := 0, false, "-"
	if row != nil {
		if row.Cells() != nil {
			cells = strconv.Itoa(len(row.Cells()))
		}
		l := row.Location()
		rownum = l.Row
		if l.Column != 0 {
			rownum = -1000
		}
		sep = row.IsSeparator()
		errs = showErrs(row.Errors())
	} else {
		// header row whose pointer is not exposed: the model's view of it
		cells = strconv.Itoa(len(cs))
		for t, id := range x.hdrOf {
			if id == r {
				errs = showErrs(x.tables[t].Errors())
			}
		}
	}
	var texts, empty, locs []string
	for i := range cs {
		texts = append(texts, hx(cs[i].String()))
		empty = append(empty, b01((&cs[i]).Empty()))
		locs = append(locs, x.showCellLoc(&cs[i]))
	}
	return fmt.Sprintf("rownum=%d sep=%s cells=%s errs=%s texts=%s empty=%s locs=%s",
		rownum, b01(sep), cells, errs, joinC(texts), joinC(empty), joinC(locs))
}

func obsCell(c tabular.Cell) string {
	var ls []string
	for _, l := range c.Lines() {
		ls = append(ls, hx(l))
	}
	return fmt.Sprintf("text=%s empty=%s h=%d w=%d lines=%s", hx(c.String()), b01((&c).Empty()), c.Height(), c.TerminalCellWidth(), joinC(ls))
}

func (x *Exec) makeWrapper(kind string, inner tabular.Table, core int) string {
	var o renderTable
	switch kind {
	case "csv":
		o = csv.Wrap(inner)
	case "json":
		o = tjson.Wrap(inner)
	case "html":
		o = thtml.Wrap(inner)
	case "markdown":
		o = markdown.Wrap(inner)
	case "text":
		o = texttable.Wrap(inner)
	default:
		panic("bad kind " + kind)
	}
	x.wrappers = append(x.wrappers, wrapper{kind: kind, obj: o, core: core, decor: decoration.UTF8BoxHeavy()})
	return fmt.Sprintf("W%d", len(x.wrappers)-1)
}

func kindOf(o interface{}) string {
	switch o.(type) {
	case *csv.CSVTable:
		return "csv"
	case *tjson.JSONTable:
		return "json"
	case *thtml.HTMLTable:
		return "html"
	case *markdown.MarkdownTable:
		return "markdown"
	case *texttable.TextTable:
		return "text"
	}
	return fmt.Sprintf("?%T", o)
}

// Do executes one op line. It returns the lines for the Lean driver and the
// expected-format observation lines (same count).
func (x *Exec) Do(line string) (lean []string, out []string) {
	x.pre = nil
	res, leanLine := x.do1(line)
	for _, p := range x.pre {
		lean = append(lean, p)
		out = append(out, "ok")
	}
	lean = append(lean, leanLine)
	out = append(out, res)
	return
}

func (x *Exec) do1(line string) (res string, leanLine string) {
	leanLine = line
	defer func() {
		if r := recover(); r != nil {
			res = fmt.Sprintf("PANIC")
			lastPanic = fmt.Sprint(r)
		}
	}()
	toks := strings.Fields(line)
	if len(toks) == 0 {
		return "", line
	}
	switch toks[0] {
	case "case":
		x.resetCase()
		return "case " + toks[1], line
	case "item": // item I3 <spec>
		id := idOf(toks[1])
		it := x.buildItem(toks[2])
		x.declareItem(id, toks[2], it)
		return "ok", x.describeItem(id, it)
	case "mutate": // mutate I3 s=.. h=..
		id := idOf(toks[1])
		oid := objIDOf(x.items[id])
		if oid == 0 {
			return "ok", x.describeItem(id, x.items[id])
		}
		setObj(objStore[oid], toks[2:])
		x.needText(safeText(x.items[id]))
		return "ok", x.describeItem(id, x.items[id])
	case "newtable":
		x.tables = append(x.tables, tabular.New())
		return fmt.Sprintf("T%d", len(x.tables)-1), line
	case "newvia": // X.New(): a wrapper with a fresh core table inside
		var o renderTable
		switch toks[1] {
		case "csv":
			o = csv.New()
		case "json":
			o = tjson.New()
		case "html":
			o = thtml.New()
		case "markdown":
			o = markdown.New()
		case "text":
			o = texttable.New()
		}
		var core *tabular.ATable
		switch v := o.(type) {
		case *csv.CSVTable:
			core = v.Table.(*tabular.ATable)
		case *tjson.JSONTable:
			core = v.Table.(*tabular.ATable)
		case *thtml.HTMLTable:
			core = v.Table.(*tabular.ATable)
		case *markdown.MarkdownTable:
			core = v.Table.(*tabular.ATable)
		case *texttable.TextTable:
			core = v.Table.(*tabular.ATable)
		}
		x.tables = append(x.tables, core)
		x.wrappers = append(x.wrappers, wrapper{kind: toks[1], obj: o, core: len(x.tables) - 1, decor: decoration.UTF8BoxHeavy()})
		return fmt.Sprintf("T%d W%d", len(x.tables)-1, len(x.wrappers)-1), line
	case "autonew": // auto.New(style)
		o := auto.New(unhx(toks[1]))
		var core *tabular.ATable
		switch v := o.(type) {
		case *csv.CSVTable:
			core = v.Table.(*tabular.ATable)
		case *tjson.JSONTable:
			core = v.Table.(*tabular.ATable)
		case *thtml.HTMLTable:
			core = v.Table.(*tabular.ATable)
		case *markdown.MarkdownTable:
			core = v.Table.(*tabular.ATable)
		case *texttable.TextTable:
			core = v.Table.(*tabular.ATable)
		}
		x.tables = append(x.tables, core)
		x.wrappers = append(x.wrappers, wrapper{kind: kindOf(o), obj: o, core: len(x.tables) - 1})
		return fmt.Sprintf("T%d W%d kind=%s", len(x.tables)-1, len(x.wrappers)-1, kindOf(o)), line
	case "prender": // package-level X.Render(ref): ref is T<n> or W<n>
		var ref tabular.Table
		if toks[2][0] == 'T' {
			ref = x.tables[idOf(toks[2])]
			x.curTable = idOf(toks[2])
		} else {
			ref = x.wrappers[idOf(toks[2])].obj
			x.curTable = x.wrappers[idOf(toks[2])].core
		}
		var str string
		var err error
		var buf bytes.Buffer
		var err2 error
		switch toks[1] {
		case "csv":
			str, err = csv.Render(ref)
			err2 = csv.RenderTo(ref, &buf)
		case "json":
			str, err = tjson.Render(ref)
			err2 = tjson.RenderTo(ref, &buf)
		case "markdown":
			str, err = markdown.Render(ref)
			err2 = markdown.RenderTo(ref, &buf)
		case "text":
			str, err = texttable.Render(ref)
			err2 = texttable.RenderTo(ref, &buf)
		case "html":
			str, err = thtml.Wrap(ref).Render()
			err2 = thtml.Wrap(ref).RenderTo(&buf)
		}
		return fmt.Sprintf("res=%s str=%s res2=%s out2=%s", classify(err), hx(str), classify(err2), hx(buf.String())), line
	case "autorender": // auto.Render(ref, style) and auto.RenderTo
		var ref tabular.Table
		if toks[1][0] == 'T' {
			ref = x.tables[idOf(toks[1])]
			x.curTable = idOf(toks[1])
		} else {
			ref = x.wrappers[idOf(toks[1])].obj
			x.curTable = x.wrappers[idOf(toks[1])].core
		}
		str, err := auto.Render(ref, unhx(toks[2]))
		var buf bytes.Buffer
		err2 := auto.RenderTo(ref, &buf, unhx(toks[2]))
		return fmt.Sprintf("res=%s str=%s res2=%s out2=%s", classify(err), hx(str), classify(err2), hx(buf.String())), line
	case "colhandle": // colhandle T n : keep t.Column(n) for later use as owner h:<k>
		h := x.tables[idOf(toks[1])].Column(atoi(toks[2]))
		if h == nil {
			return "nil", line
		}
		x.handles = append(x.handles, h)
		return fmt.Sprintf("H%d", len(x.handles)-1), line
	case "populate":
		d := parseDecor(toks[1])
		d.Populate()
		return showDecor(d), line
	case "leftdomain":
		return "leftdomain", line
	case "scribblerows":
		// what AllRows returns is the caller's to overwrite, reorder and extend
		rr := x.tables[idOf(toks[1])].AllRows()
		for i, j := 0, len(rr)-1; i < j; i, j = i+1, j-1 {
			rr[i], rr[j] = rr[j], rr[i]
		}
		if len(rr) > 0 {
			rr[0] = nil
		}
		_ = append(rr, tabular.NewRow())
		return "ok", line
	case "lenobs":
		s0 := unhx(toks[1])
		var ls []string
		for _, l := range length.Lines(s0) {
			ls = append(ls, hx(l))
			x.needDW(l)
		}
		return fmt.Sprintf("lines=%s lb=%d lr=%d lc=%d sb=%d sr=%d", joinC(ls), length.LongestLineBytes(s0), length.LongestLineRunes(s0), length.LongestLineCells(s0), length.StringBytes(s0), length.StringRunes(s0)), line
	case "wrap":
		t := idOf(toks[2])
		return x.makeWrapper(toks[1], x.tables[t], t), line
	case "rewrap":
		w := x.wrappers[idOf(toks[2])]
		return x.makeWrapper(toks[1], w.obj, w.core), line
	case "setdecor":
		tt := x.wrappers[idOf(toks[1])].obj.(*texttable.TextTable)
		tt.SetDecoration(parseDecor(toks[2]))
		x.wrappers[idOf(toks[1])].decor = parseDecor(toks[2])
		return "ok", line
	case "setdecornamed":
		tt := x.wrappers[idOf(toks[1])].obj.(*texttable.TextTable)
		r, err := tt.SetDecorationNamed(unhx(toks[2]))
		x.wrappers[idOf(toks[1])].decor = decoration.Named(unhx(toks[2]))
		if r != tt {
			return "badchain", line
		}
		if err != nil {
			return "unknown", line
		}
		return "ok", line
	case "sethtml":
		ht := x.wrappers[idOf(toks[1])].obj.(*thtml.HTMLTable)
		ht.Id, ht.Class, ht.Caption = unhx(kv(toks, "id")), unhx(kv(toks, "cls")), unhx(kv(toks, "cap"))
		if tn := kv(toks, "tn"); tn != "~" {
			ht.TemplateName = unhx(tn) // names the template; no output depends on it
		}
		hw := &x.wrappers[idOf(toks[1])]
		hw.html.id, hw.html.cls, hw.html.cap, hw.html.rc = ht.Id, ht.Class, ht.Caption, nil
		if rc := kv(toks, "rc"); rc != "~" {
			tbl := map[int]string{}
			for _, e := range listOf(rc) {
				p := strings.Split(e, ":")
				tbl[atoi(p[0])] = unhx(p[1])
			}
			hw.html.rc = tbl
			ht.SetRowClassGenerator(func(n int, ctx interface{}) template.HTMLAttr {
				rcCalls = append(rcCalls, n)
				return template.HTMLAttr(tbl[n])
			}, nil)
		} else {
			ht.SetRowClassGenerator(nil, nil)
		}
		return "ok", line
	case "addheaders":
		t := idOf(toks[1])
		x.curTable = t
		var its []interface{}
		for _, i := range listOf(toks[2]) {
			its = append(its, x.items[idOf(i)])
		}
		id := x.newRowID(nil)
		x.hdrOf[t] = id
		x.pending = id
		defer func() { x.pending = -1 }()
		if ret := x.tables[t].AddHeaders(its...); ret != tabular.Table(x.tables[t]) {
			return fmt.Sprintf("R%d !badchain", id), line
		}
		if !sameItems(its, x, toks[2]) {
			return fmt.Sprintf("R%d !CALLER-SLICE-MODIFIED", id), line
		}
		if r := x.rows[id]; r != nil && !sameBacking(r.Cells(), x.tables[t].Headers()) {
			// a callback was shown a row that is not the header row the table holds
			return fmt.Sprintf("R%d !ROW-NOT-LIVE", id), line
		}
		return fmt.Sprintf("R%d", id), line
	case "addrowitems":
		t := idOf(toks[1])
		x.curTable = t
		var its []interface{}
		for _, i := range listOf(toks[2]) {
			its = append(its, x.items[idOf(i)])
		}
		before := x.tables[t].NRows()
		// the model allocates the row id before running callbacks; reserve it the same way
		id := x.newRowID(nil)
		x.pending = id
		defer func() { x.pending = -1 }()
		flag := ""
		if ret := x.tables[t].AddRowItems(its...); ret != tabular.Table(x.tables[t]) {
			flag = " !badchain"
		}
		if !sameItems(its, x, toks[2]) {
			flag = " !CALLER-SLICE-MODIFIED"
		}
		all := x.tables[t].AllRows()
		if len(all) == before+1 {
			if r := x.rows[id]; r != nil && r != all[before] {
				flag = " !ROW-NOT-LIVE" // a callback was shown a row that is not the one the table holds
			}
			x.rows[id] = all[before]
			x.rowID[all[before]] = id
		}
		return fmt.Sprintf("R%d%s", id, flag), line
	case "newrow":
		return fmt.Sprintf("R%d", x.newRowID(tabular.NewRow())), line
	case "newrowsized":
		return fmt.Sprintf("R%d", x.newRowID(x.tables[idOf(toks[1])].NewRowSizedFor())), "newrow"
	case "zerorow":
		return fmt.Sprintf("R%d", x.newRowID(&tabular.Row{})), line
	case "appendnewrow":
		t := idOf(toks[1])
		x.curTable = t
		id := x.newRowID(nil) // reserved first: add-time row callbacks see the row before we are handed it
		x.pending = id
		defer func() { x.pending = -1 }()
		r := x.tables[t].AppendNewRow()
		flag := ""
		if seen := x.rows[id]; seen != nil && seen != r {
			flag = " !ROW-NOT-LIVE" // a callback was shown a row that is not the one handed back
		}
		if all := x.tables[t].AllRows(); len(all) == 0 || all[len(all)-1] != r {
			flag = " !ROW-NOT-LIVE" // the row handed back is not the one the table holds
		}
		x.rows[id] = r
		x.rowID[r] = id
		return fmt.Sprintf("R%d%s", id, flag), line
	case "rowadd":
		x.rows[idOf(toks[1])].Add(tabular.NewCell(x.items[idOf(toks[2])]))
		return "ok", line
	case "rowaddcopy":
		x.rows[idOf(toks[1])].Add(*x.copies[idOf(toks[2])])
		return "ok", line
	case "addrow":
		t := idOf(toks[1])
		x.curTable = t
		ret := x.tables[t].AddRow(x.rows[idOf(toks[2])])
		if ret != tabular.Table(x.tables[t]) {
			return "badchain", line
		}
		return "ok", line
	case "addsep":
		t := idOf(toks[1])
		x.curTable = t
		id := x.newRowID(nil)
		x.pending = id
		defer func() { x.pending = -1 }()
		flag := ""
		if ret := x.tables[t].AddSeparator(); ret != tabular.Table(x.tables[t]) {
			flag = " !badchain"
		}
		all := x.tables[t].AllRows()
		if seen := x.rows[id]; seen != nil && seen != all[len(all)-1] {
			flag = " !ROW-NOT-LIVE"
		}
		x.rows[id] = all[len(all)-1]
		x.rowID[all[len(all)-1]] = id
		return fmt.Sprintf("R%d%s", id, flag), line
	case "rowadderr":
		for _, e := range parseErrs(toks[2]) {
			x.rows[idOf(toks[1])].AddError(e)
		}
		return "ok", line
	case "rowadderrlist":
		x.rows[idOf(toks[1])].AddErrorList(scratchErrs(toks[2]))
		return "ok", line
	case "tadderr":
		for _, e := range parseErrs(toks[2]) {
			x.tables[idOf(toks[1])].AddError(e)
		}
		return "ok", line
	case "tadderrlist":
		x.tables[idOf(toks[1])].AddErrorList(scratchErrs(toks[2]))
		return "ok", line
	case "tadderrself", "rowadderrself":
		// the caller extends the list the container handed out and gives it back: the argument
		// shares its backing array with the container's own list
		var cur []error
		if toks[0] == "tadderrself" {
			cur = x.tables[idOf(toks[1])].Errors()
		} else {
			cur = x.rows[idOf(toks[1])].Errors()
		}
		ids := []string{}
		for _, e := range cur {
			ids = append(ids, strconv.Itoa(errID(e)))
		}
		ids = append(ids, toks[2])
		l := append(cur, mkErr(atoi(toks[2])))
		if toks[0] == "tadderrself" {
			x.tables[idOf(toks[1])].AddErrorList(l)
			return "ok", "tadderrlist " + toks[1] + " " + strings.Join(ids, ",")
		}
		x.rows[idOf(toks[1])].AddErrorList(l)
		return "ok", "rowadderrlist " + toks[1] + " " + strings.Join(ids, ",")
	case "obs":
		return x.obsTable(idOf(toks[1])), line
	case "rowobs":
		return x.obsRow(idOf(toks[1])), line
	case "cellobs":
		p := x.cellPtr(idOf(toks[1]), atoi(toks[2]))
		if p == nil {
			return "nocell", line
		}
		return obsCell(*p), line
	case "probe":
		it := x.items[idOf(toks[1])]
		c := tabular.NewCell(it)
		same := itemSame(c.Item(), it)
		if !same {
			return obsCell(c) + " ITEM-CHANGED", line
		}
		return obsCell(c), line
	case "update":
		p := x.cellPtr(idOf(toks[1]), atoi(toks[2]))
		p.Update()
		return "ok", line
	case "copycell":
		p := x.cellPtr(idOf(toks[1]), atoi(toks[2]))
		if p == nil {
			return "nocell", line
		}
		cp := *p
		x.copies = append(x.copies, &cp)
		return fmt.Sprintf("Y%d", len(x.copies)-1), line
	case "copyobs": // observe a by-value copy of a cell held by the caller
		return obsCell(*x.copies[idOf(toks[1])]), line
	case "copyupdate": // Update() on the copy only
		x.copies[idOf(toks[1])].Update()
		return "ok", line
	case "setprop":
		err := x.owner(toks[1]).SetProperty(parseKey(toks[2]), parseVal(toks[3]))
		if err != nil {
			return "err", line
		}
		return "ok", line
	case "getprop":
		return showVal(x.owner(toks[1]).GetProperty(parseKey(toks[2]))), line
	case "chainlen": // chainlen <owner> <bound>: at most <bound> links? (read from %#v: an unreadable format counts as 0)
		if x.chainLen(toks[1]) <= atoi(toks[2]) {
			return "le", line
		}
		return "gt", line
	case "regcb": // regcb T owner when target cb
		t := idOf(toks[1])
		var cb tabular.PropertyCallback
		p := strings.Split(toks[5], ":")
		switch p[0] {
		case "log":
			cb = cbLog{x, atoi(p[1])}
		case "set":
			cb = cbSet{x, atoi(p[1]), parseKey(p[2]), parseVal(p[3])}
		case "fail":
			cb = cbFail{x, atoi(p[1]), atoi(p[2])}
		}
		err := registerCB(x.tables[t], x.owner(toks[2]), toks[3], toks[4], cb)
		if err != nil {
			return "refused", line
		}
		return "ok", line
	case "invoke":
		x.curTable = idOf(toks[1])
		x.tables[idOf(toks[1])].InvokeRenderCallbacks()
		return "ok", line
	case "events":
		var l []string
		for _, e := range x.events {
			l = append(l, fmt.Sprintf("%d@%s", e.id, e.tgt))
		}
		x.events = nil
		return joinC(l), line
	case "render":
		w := x.wrappers[idOf(toks[1])]
		x.curTable = w.core
		fw := &faultWriter{}
		rcCalls = nil
		err := w.obj.RenderTo(fw)
		lastChunks[idOf(toks[1])] = fw.chunks
		extra := ""
		if w.kind == "html" {
			var l []string
			for _, n := range rcCalls {
				l = append(l, strconv.Itoa(n))
			}
			extra = " rc=" + joinC(l)
		}
		return fmt.Sprintf("res=%s out=%s%s", classify(err), hx(fw.acc.String()), extra), line
	case "renderbuf": // RenderTo into a standard-library writer kind: buffer | builder | bufio
		w := x.wrappers[idOf(toks[1])]
		x.curTable = w.core
		rcCalls = nil
		var err error
		var got string
		switch toks[2] {
		case "builder":
			var sb strings.Builder
			err = w.obj.RenderTo(&sb)
			got = sb.String()
		case "bufio":
			var bb bytes.Buffer
			bw := bufio.NewWriter(&bb)
			err = w.obj.RenderTo(bw)
			bw.Flush()
			got = bb.String()
		default:
			var bb bytes.Buffer
			err = w.obj.RenderTo(&bb)
			got = bb.String()
		}
		extra := ""
		if w.kind == "html" {
			var l []string
			for _, n := range rcCalls {
				l = append(l, strconv.Itoa(n))
			}
			extra = " rc=" + joinC(l)
		}
		return fmt.Sprintf("res=%s out=%s%s", classify(err), hx(got), extra), "render " + toks[1]
	case "renderstr":
		w := x.wrappers[idOf(toks[1])]
		x.curTable = w.core
		s, err := w.obj.Render()
		return fmt.Sprintf("res=%s str=%s", classify(err), hx(s)), line
	case "frender": // frender W mode:k[:n]  (cs= appended for lean from the last fault-free render)
		w := x.wrappers[idOf(toks[1])]
		x.curTable = w.core
		p := strings.Split(toks[2], ":")
		fw := &faultWriter{mode: p[0], k: atoi(p[1])}
		if len(p) > 2 {
			fw.n = atoi(p[2])
		}
		lc := lastChunks[idOf(toks[1])]
		cs := make([]string, len(lc))
		for i, c := range lc {
			cs[i] = strconv.Itoa(c)
		}
		leanLine = fmt.Sprintf("frender %s %s cs=%s", toks[1], toks[2], joinC(cs))
		var dst io.Writer = fw
		if (fw.k+len(lc))%2 == 1 {
			dst = faultStringWriter{fw}
		}
		err := w.obj.RenderTo(dst)
		return fmt.Sprintf("res=%s calls=%d acc=%s", classify(err), fw.calls, hx(fw.acc.String())), leanLine
	case "register":
		builtinNames() // the built-in list is what is there before this process registers anything
		decoration.RegisterDecorationName(unhx(toks[1]), parseDecor(toks[2]))
		registeredNames[unhx(toks[1])] = toks[2]
		return "ok", line
	case "named":
		return showDecor(decoration.Named(unhx(toks[1]))), line
	case "names":
		var l []string
		for _, n := range decoration.RegisteredDecorationNames() {
			l = append(l, hx(n))
		}
		return joinC(l), line
	case "liststyles":
		var l []string
		for _, n := range auto.ListStyles() {
			l = append(l, hx(n))
		}
		return joinC(l), line
	case "autowrap":
		t := idOf(toks[1])
		o := auto.Wrap(x.tables[t], unhx(toks[2]))
		k := kindOf(o)
		x.wrappers = append(x.wrappers, wrapper{kind: k, obj: o, core: t})
		nodecor := false
		if tt, ok := o.(*texttable.TextTable); ok {
			nodecor = strings.Contains(fmt.Sprintf("%#v", tt), "decor:decoration.Decoration{Horizontal:\"\", Vertical:\"\", CrossPiece:\"\", TopDown:\"\", VBorder:\"\", HOuter:\"\", HRule:\"\", VHeader:\"\", VBodyBorder:\"\", VBodyInner:\"\", TopLeft:\"\", TopRight:\"\", BottomLeft:\"\", BottomRight:\"\", LeftBodyRule:\"\", RightBodyRule:\"\", HTopDown:\"\", BTopDown:\"\", BBottomUp:\"\", HBCross:\"\", HBLeft:\"\", HBRight:\"\", isBoxless:false}")
		}
		return fmt.Sprintf("W%d kind=%s nodecor=%s", len(x.wrappers)-1, k, b01(nodecor)), line
	case "ecnew":
		var ec *tabular.ErrorContainer
		switch toks[1] {
		case "new":
			ec = tabular.NewErrorContainer()
		case "zero":
			ec = &tabular.ErrorContainer{}
		case "nil":
			ec = nil
		}
		x.ecs = append(x.ecs, ec)
		return fmt.Sprintf("E%d", len(x.ecs)-1), line
	case "ecadd":
		for _, e := range parseErrs(toks[2]) {
			x.ecs[idOf(toks[1])].AddError(e)
		}
		return "ok", line
	case "ecaddlist":
		if toks[2] == "nillist" {
			x.ecs[idOf(toks[1])].AddErrorList(nil)
			return "ok", "ecaddlist " + toks[1] + " []"
		}
		x.ecs[idOf(toks[1])].AddErrorList(scratchErrs(toks[2]))
		return "ok", line
	case "ecerrors":
		es := x.ecs[idOf(toks[1])].Errors()
		if es == nil {
			return "nil", line
		}
		return showErrs(es), line
	}
	// never equal to the model's "bad-op": an operation neither side implements is a difference, not an agreement
	return "BAD-OP", line
}

var lastChunks = map[int][]int{}
var lastPanic string
var lastErrText string

// registeredNames: every decoration name this process registered (name -> encoded decoration),
// kept by the harness so the oracles do not have to trust the registry's own listing.
var registeredNames = map[string]string{}

// builtinNames: what the library's init registered, read on first use (not at package initialisation:
// the race-validation process probes the registry before anything else has touched it)
var (
	builtinOnce sync.Once
	builtinList []string
)

// sameBacking reports whether two cell slices are the same slice (length and first element): how a *Row the
// library showed a callback is told from a copy of the row the table really holds
func sameBacking(a, b []tabular.Cell) bool {
	if len(a) != len(b) {
		return false
	}
	if len(a) == 0 {
		return true
	}
	return &a[0] == &b[0]
}

func builtinNames() []string {
	builtinOnce.Do(func() { builtinList = decoration.RegisteredDecorationNames() })
	return builtinList
}

var rcCalls []int

func itemSame(a, b interface{}) (same bool) {
	defer func() {
		if recover() != nil {
			same = reflect.DeepEqual(a, b)
		}
	}()
	if a == nil || b == nil {
		return a == nil && b == nil
	}
	if reflect.TypeOf(a) != reflect.TypeOf(b) {
		return false
	}
	if reflect.TypeOf(a).Comparable() {
		if a == b {
			return true
		}
		// NaN and friends
		return fmt.Sprintf("%#v", a) == fmt.Sprintf("%#v", b)
	}
	return reflect.DeepEqual(a, b) || fmt.Sprintf("%#v", a) == fmt.Sprintf("%#v", b)
}

func registerCB(t *tabular.ATable, owner tabular.PropertyOwner, when, target string, cb tabular.PropertyCallback) error {
	tg := tabular.CB_ON_ITSELF
	switch target {
	case "cell":
		tg = tabular.CB_ON_CELL
	case "row":
		tg = tabular.CB_ON_ROW
	case "bad":
		tg = tabular.CB_ON_ROW + 5
	}
	tm := tabular.CB_AT_ADD
	switch when {
	case "pre":
		tm = tabular.CB_AT_RENDER_PRECELL
	case "render":
		tm = tabular.CB_AT_RENDER
	case "post":
		tm = tabular.CB_AT_RENDER_POSTCELL
	case "bad":
		tm = tabular.CB_AT_RENDER_POSTCELL + 7
	}
	return t.RegisterPropertyCallback(owner, tm, tg, cb)
}

// chainLen counts the links of an owner's property chain through %#v.
// chainLenWalk counts the links of an owner's property chain by walking the structure itself with
// reflection: from the owner, the (embedded) holder struct whose only field is of an interface type, then
// from node to node along the field of that same interface type, until a node has none.  Independent of
// field names and of the debug output's format; ok=false when the structure is not of that shape.
func chainLenWalk(po interface{}) (n int, ok bool) {
	defer func() {
		if recover() != nil {
			n, ok = 0, false
		}
	}()
	v := reflect.ValueOf(po)
	for v.Kind() == reflect.Ptr || v.Kind() == reflect.Interface {
		if v.IsNil() {
			return 0, false
		}
		v = v.Elem()
	}
	if v.Kind() != reflect.Struct {
		return 0, false
	}
	var head reflect.Value
	for i := 0; i < v.NumField() && !head.IsValid(); i++ {
		f := v.Field(i)
		if f.Kind() == reflect.Struct && f.NumField() == 1 && f.Field(0).Kind() == reflect.Interface {
			head = f.Field(0)
		}
	}
	if !head.IsValid() {
		return 0, false
	}
	cur := head
	for steps := 0; steps < 1000000; steps++ {
		if cur.IsNil() {
			return n, true
		}
		e := cur.Elem()
		if e.Kind() != reflect.Ptr || e.IsNil() || e.Elem().Kind() != reflect.Struct {
			return n, true // the terminal "no property" value
		}
		st := e.Elem()
		var next reflect.Value
		for i := 0; i < st.NumField(); i++ {
			if f := st.Field(i); f.Kind() == reflect.Interface && f.Type() == head.Type() {
				next = f
				break
			}
		}
		if !next.IsValid() {
			return n, true
		}
		n++
		cur = next
	}
	return 0, false
}

func (x *Exec) chainLen(owner string) int {
	if n, ok := chainLenWalk(x.owner(owner)); ok {
		return n
	}
	p := strings.Split(owner, ":")
	var s string
	switch p[0] {
	case "t":
		s = fmt.Sprintf("%#v", x.tables[atoi(p[1])])
		if i := strings.Index(s, ".Columns{"); i >= 0 {
			s = s[:i]
		}
	case "r":
		s = fmt.Sprintf("%#v", x.rows[atoi(p[1])])
		if i := strings.Index(s, ".Cells{"); i >= 0 {
			s = s[:i]
		}
	case "x":
		s = fmt.Sprintf("%#v", x.cellPtr(atoi(p[1]), atoi(p[2])))
	case "y":
		s = fmt.Sprintf("%#v", x.copies[atoi(p[1])])
	case "h":
		// find which column the handle is, then read it through the table's %#v
		for ti, t := range x.tables {
			for n := 0; n <= t.NColumns(); n++ {
				if interface{}(t.Column(n)) == interface{}(x.handles[atoi(p[1])]) {
					return x.chainLen(fmt.Sprintf("c:%d:%d", ti, n))
				}
			}
		}
		return -1
	case "c":
		s = fmt.Sprintf("%#v", x.tables[atoi(p[1])])
		i := strings.Index(s, ".Columns{")
		j := strings.Index(s, "}.NoHeaders.Body[")
		if j < 0 {
			j = strings.Index(s, "}.HeaderRow{")
		}
		s = s[i:j]
		// pick the n-th column entry
		n := atoi(p[2])
		start := strings.Index(s, fmt.Sprintf("C(%d, ", n))
		end := strings.Index(s, fmt.Sprintf("C(%d, ", n+1))
		if start < 0 {
			return -1
		}
		if end < 0 {
			end = len(s)
		}
		s = s[start:end]
	}
	i := strings.Index(s, ".Props{")
	if i < 0 {
		return 0
	}
	return strings.Count(s[i:], "Value(")
}

var _ = sort.Strings

// sameItems: the argument slice a caller spreads into AddRowItems / AddHeaders is the caller's: after
// the call it still holds the very items that were put there
func sameItems(its []interface{}, x *Exec, list string) bool {
	ids := listOf(list)
	if len(ids) != len(its) {
		return false
	}
	for i, id := range ids {
		if !itemSame(its[i], x.items[idOf(id)]) {
			return false
		}
	}
	return true
}
