module verifharness

go 1.19

require (
	github.com/mattn/go-runewidth v0.0.14
	go.pennock.tech/tabular v0.0.0
)

require github.com/rivo/uniseg v0.4.4 // indirect

replace go.pennock.tech/tabular => /repo
