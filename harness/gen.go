package main

// Case generators.  Every random choice of a case derives from one splitmix64
// state seeded by (VERIF_SEED, property stream, case number), so any case
// replays exactly from its recorded op list.

import (
	"fmt"
	"strings"
)

type rng struct{ s uint64 }

func (r *rng) next() uint64 {
	r.s += 0x9e3779b97f4a7c15
	z := r.s
	z = (z ^ (z >> 30)) * 0xbf58476d1ce4e5b9
	z = (z ^ (z >> 27)) * 0x94d049bb133111eb
	return z ^ (z >> 31)
}
func (r *rng) n(k int) int {
	if k <= 0 {
		return 0
	}
	return int(r.next() % uint64(k))
}
func (r *rng) chance(num, den int) bool { return r.n(den) < num }
func (r *rng) pick(l []string) string   { return l[r.n(len(l))] }

func mixSeed(seed int64, stream string, caseNo int) uint64 {
	h := uint64(seed)*0x9e3779b97f4a7c15 + uint64(caseNo)*0xd1342543de82ef95
	for i := 0; i < len(stream); i++ {
		h = (h ^ uint64(stream[i])) * 0x100000001b3
	}
	return h
}

// ---------- alphabets ----------

var alphaPlain = []string{"a", "b", "c", "xyz", "0", "42", " ", "Hello", "-", "_"}
var alphaCSV = []string{"\x7f", "\"\xe9", "\t", "\"", "\"\"", ",", "\r", "\n", "\r\n", "\x00", "\xff", "\xc3", "é", "世界", "a", "b,c", " ", "x\"y"}
var alphaHTML = []string{"\xff", "caf\xe9", "\xe4\xb8", "\r", "\r\n", "\ufffe", "\ufdd0", "\u0085", "\u009f", "\ufeff", "\ufffd", "\x7f", "\x01", "<", ">", "&", "\"", "'", "+", "&amp;", "&lt;", "&#34;", "&#x7c;", "<script>", "</td>", "<b>", "\n", "a", "b c", "é", "`", "=", "/", "<!--", "-->", "]]>", "{{.}}", "\x00"}
var alphaMD = []string{"\xff", "caf\xe9", "\xe4\xb8", "\x7f", "\t", "|", "\\", "\\|", "\n", "<", ">", "&", "\"", "'", "&#x7c;", "&amp;", "a", "b", " ", "  ", "世", "*x*", "`", "---", ":", "é", "x\\"}

// multi-line mixes of narrow and wide runs (a later line with fewer runes but more cells, etc.)
var alphaTextLines = []string{"abc\n世界", "世界\nabcd", "é\n世", "ab\nｗｗ", "a\nbb\nccc", "世\n\nxy", "wide 世界 mix\nshort", "x\n世界界"}

var alphaText = []string{"\xff", "\xff\xfe", "\xe2\x82x", "caf\xe9", "\x7f", "ab\x7f", "\x1b[1m", "a", "bc", " ", "世", "界", "é", "é", "​", "👨‍👩‍👧", "🇯🇵", "\n", "\n\n", "x", "ｗ", "\t", "0", "Ωmega", "­"}

// D20 triggers (go-runewidth clusters a leading mark with the padding space); only in the dedicated stream
var alphaD20 = []string{"ः", "\U0001F3FB", "ൎ", "؀"}

// structured text: 1-3 lines, each a run of narrow, wide or mixed characters
func (r *rng) lineText() string {
	var ls []string
	for i := 0; i < 1+r.n(3); i++ {
		var b strings.Builder
		for j := 0; j < r.n(4); j++ {
			switch r.n(4) {
			case 0:
				b.WriteString(strings.Repeat("世", 1+r.n(3)))
			case 1:
				b.WriteString("é")
			default:
				b.WriteString(strings.Repeat(string(rune('a'+r.n(26))), 1+r.n(4)))
			}
		}
		ls = append(ls, b.String())
	}
	return strings.Join(ls, "\n")
}

func (r *rng) text(alpha []string, maxParts int) string {
	if r.chance(1, 40) {
		// a long run: paddings of 64 and more in the same column as short texts
		return strings.Repeat(r.pick([]string{"x", "ab", "-"}), 33+r.n(40))
	}
	if len(alpha) > 0 && &alpha[0] == &alphaText[0] && r.chance(1, 4) {
		if r.chance(1, 2) {
			return r.pick(alphaTextLines)
		}
		return r.lineText()
	}
	n := r.n(maxParts + 1)
	var b strings.Builder
	for i := 0; i < n; i++ {
		b.WriteString(r.pick(alpha))
	}
	return b.String()
}

// ---------- generator context ----------

type Gen struct {
	cbN    int
	x      *Exec
	r      *rng
	goOps  []string // Go-level op lines of the current case
	leanIn []string
	goOut  []string
	nItems int
	stats  map[string]int
	mid    map[string][]string // table -> wrappers created before the content (rendered mid-history)
}

func (g *Gen) do(line string) string {
	g.goOps = append(g.goOps, line)
	lean, out := g.x.Do(line)
	g.leanIn = append(g.leanIn, lean...)
	g.goOut = append(g.goOut, out...)
	op := line
	if i := strings.IndexByte(line, ' '); i > 0 {
		op = line[:i]
	}
	g.stats["op:"+op]++
	res := out[len(out)-1]
	if res == "PANIC" {
		g.stats["panic"]++
	}
	// `R3 !ROW-NOT-LIVE`: the harness's own finding rides behind the result; the generator carries on with the id
	if i := strings.Index(res, " !"); i > 0 && res[0] == 'R' {
		g.stats["harness-flag:"+res[i+2:]]++
		return res[:i]
	}
	return res
}

func (g *Gen) item(spec string) string {
	id := fmt.Sprintf("I%d", g.nItems)
	g.nItems++
	g.do("item " + id + " " + spec)
	return id
}

func (g *Gen) strItem(s string) string { return g.item("str:" + hx(s)) }

// an item of a random kind whose text is drawn from alpha
func (g *Gen) anyItem(alpha []string, parts int) string {
	r := g.r
	switch k := r.n(20); {
	case k < 11:
		return g.strItem(r.text(alpha, parts))
	case k == 11:
		return g.item("nil")
	case k == 12:
		return g.item(fmt.Sprintf("rune:%d", []int{65, 0x4e16, 0xe9, 0x1F600, 10, 34, 60, 124, 0, -1, 0xD800, 0x110000}[r.n(12)]))
	case k == 13:
		if r.chance(1, 4) {
			return g.item("zerocell")
		}
		return g.item(fmt.Sprintf("sample:%d", r.n(nSamples)))
	case k < 18:
		mask := r.n(8) // text-form interfaces only; size overrides are for the size streams
		return g.item(fmt.Sprintf("obj:%d:s=%s:g=%s:e=%s", mask, hx(r.text(alpha, parts)), hx(r.text(alpha, parts)), hx(r.text(alpha, parts))))
	case k == 18:
		inner := g.strItem(r.text(alpha, parts))
		g.do("probe " + inner) // the text and size the nested cell will copy are the library's: observe them here
		if r.chance(1, 3) {
			return g.item("cellp:" + inner)
		}
		return g.item("cell:" + inner)
	default:
		inner := g.strItem(r.text(alpha, parts))
		g.do("probe " + inner)
		return g.item("cellptr:" + inner)
	}
}

type tableOpts struct {
	alpha      []string
	parts      int
	maxCols    int
	maxRows    int
	headerMode int // 0 random, 1 always full distinct non-empty, 2 never
	sizeItems  bool
	sizeEvery  int      // one cell in this many is a size-declaring item (default 4)
	plainItems bool     // strings only
	postAdd    bool     // allow Row.Add after attach, AddRow of pre-built rows, zero rows
	midRender  []string // wrapper kinds created right after the table and rendered between building steps
	earlyProp  string   // "align" / "skip": a value set on the defaults column before the table has any column
}

func (g *Gen) cellItem(o tableOpts) string {
	r := g.r
	every := 4
	if o.sizeEvery > 0 {
		every = o.sizeEvery
	}
	if o.sizeItems && r.chance(1, every) {
		mask := r.n(32) | []int{8, 16, 24}[r.n(3)]
		h := []int{0, 1, 2, 3, 5, -1, 8}[r.n(7)]
		w := []int{0, 1, 2, 3, 7, 12, -2, 40}[r.n(8)]
		return g.item(fmt.Sprintf("obj:%d:s=%s:g=%s:e=%s:h=%d:w=%d", mask, hx(r.text(o.alpha, o.parts)), hx(r.text(o.alpha, o.parts)), hx(r.text(o.alpha, o.parts)), h, w))
	}
	if o.plainItems {
		return g.strItem(r.text(o.alpha, o.parts))
	}
	return g.anyItem(o.alpha, o.parts)
}

// buildTable emits the ops building one table and returns its id token ("T0").
func (g *Gen) buildTable(o tableOpts) string {
	r := g.r
	t := g.do("newtable")
	var mids []string
	for _, k := range o.midRender {
		mids = append(mids, g.do("wrap "+k+" "+t))
	}
	g.mid[t] = mids
	if o.earlyProp != "" {
		g.do(fmt.Sprintf("setprop c:%s:0 %s %s", t[1:], o.earlyProp, map[string]string{"align": r.pick([]string{"a2", "a3"}), "skip": "b1"}[o.earlyProp]))
	}
	maybeRender := func() {
		if len(mids) > 0 && r.chance(1, 3) {
			g.do("render " + mids[r.n(len(mids))])
		}
	}
	defer maybeRender()
	ncols := r.n(o.maxCols + 1)
	hm := o.headerMode
	if hm == 0 {
		hm = []int{1, 1, 1, 2, 3, 4}[r.n(6)]
	}
	switch hm {
	case 1: // full, distinct, non-empty
		var ids []string
		for i := 0; i < ncols; i++ {
			ids = append(ids, g.strItem(fmt.Sprintf("h%d%s", i, r.text(o.alpha, 2))))
		}
		g.do("addheaders " + t + " " + joinC(ids))
	case 2: // none
	case 3: // short or long, arbitrary
		n := r.n(o.maxCols + 2)
		var ids []string
		for i := 0; i < n; i++ {
			ids = append(ids, g.cellItem(o))
		}
		g.do("addheaders " + t + " " + joinC(ids))
	case 4: // empty header
		g.do("addheaders " + t + " []")
	}
	nrows := r.n(o.maxRows + 1)
	for i := 0; i < nrows; i++ {
		maybeRender()
		k := r.n(12)
		switch {
		case k < 2:
			g.do("addsep " + t)
		case k == 2 && o.postAdd:
			row := g.do("appendnewrow " + t)
			n := r.n(ncols + 2)
			for j := 0; j < n; j++ {
				g.do("rowadd " + row + " " + g.cellItem(o))
			}
		case k == 3 && o.postAdd:
			row := g.do("newrow")
			n := r.n(ncols + 2)
			for j := 0; j < n; j++ {
				g.do("rowadd " + row + " " + g.cellItem(o))
			}
			g.do("addrow " + t + " " + row)
			if r.chance(1, 3) {
				g.do("rowadd " + row + " " + g.cellItem(o))
			}
		case k == 4 && o.postAdd && r.chance(1, 3):
			row := g.do("zerorow")
			g.do("addrow " + t + " " + row)
		default:
			n := ncols
			switch r.n(6) {
			case 0:
				n = r.n(ncols + 1)
			case 1:
				n = 0
			case 2:
				if o.postAdd {
					n = ncols + r.n(2)
				}
			}
			var ids []string
			for j := 0; j < n; j++ {
				ids = append(ids, g.cellItem(o))
			}
			g.do("addrowitems " + t + " " + joinC(ids))
		}
	}
	return t
}

func (g *Gen) ncols(t string) int { return g.x.tables[idOf(t)].NColumns() }

// random alignment / skipable assignments on column 0 and each column
// assignPropsAtRender: callbacks on some columns (and the defaults column) that set the property
// during the render pass; the render that runs them already lays out with the value they set.
func (g *Gen) assignPropsAtRender(t string, key string, vals []string) {
	n := g.ncols(t)
	for c := 0; c <= n; c++ {
		if g.r.chance(1, 3) {
			g.cbN++
			g.do(fmt.Sprintf("regcb %s c:%d:%d %s itself set:%d:%s:%s", t, idOf(t), c, g.r.pick([]string{"pre", "render", "post"}), 9000+g.cbN, key, g.r.pick(vals)))
		}
	}
}

// reattach: with the given odds, AddRow once more a row the table already holds (usually the last one),
// so that one *Row sits at two positions.
func (g *Gen) reattach(t string, num, den int) {
	if !g.r.chance(num, den) {
		return
	}
	rows := g.x.tables[idOf(t)].AllRows()
	if len(rows) == 0 {
		return
	}
	i := len(rows) - 1
	if g.r.chance(1, 3) {
		i = g.r.n(len(rows))
	}
	if id, ok := g.x.rowID[rows[i]]; ok {
		g.do(fmt.Sprintf("addrow %s R%d", t, id))
	}
}

// retireDefault: the value set early on the defaults column is replaced or withdrawn once the table is built
func (g *Gen) retireDefault(t string, key string) {
	g.do(fmt.Sprintf("setprop c:%s:0 %s %s", t[1:], key, map[string]string{"align": g.r.pick([]string{"nil", "a1", "a3", "a2"}), "skip": g.r.pick([]string{"nil", "b0"})}[key]))
}

func (g *Gen) assignProps(t string, key string, vals []string) {
	n := g.ncols(t)
	for c := 0; c <= n; c++ {
		if g.r.chance(1, 2) {
			g.do(fmt.Sprintf("setprop c:%d:%d %s %s", idOf(t), c, key, g.r.pick(vals)))
		}
	}
}
