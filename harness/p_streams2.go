package main

import (
	"fmt"
	"reflect"
	"sort"
	"strconv"
	"strings"
	"unicode/utf8"

	"go.pennock.tech/tabular"
	"go.pennock.tech/tabular/length"
	"go.pennock.tech/tabular/texttable/decoration"
)

// ---------- C01: the documented text form, by reflection on method sets (no type switch) ----------

func docText(it interface{}) string {
	if it == nil {
		return ""
	}
	v := reflect.ValueOf(it)
	switch v.Type() {
	case reflect.TypeOf(tabular.Cell{}):
		return it.(tabular.Cell).String()
	case reflect.TypeOf(""):
		return v.String()
	case reflect.TypeOf(rune(0)):
		return string(rune(v.Int()))
	}
	for _, name := range []string{"String", "GoString", "Error"} {
		m := v.MethodByName(name)
		if m.IsValid() && m.Type().NumIn() == 0 && m.Type().NumOut() == 1 && m.Type().Out(0).Kind() == reflect.String {
			return m.Call(nil)[0].String()
		}
	}
	return fmt.Sprintf("%v", it)
}

func checkProbe(g *Gen, id string, viol *[]string) {
	res := g.do("probe " + id)
	if res == "PANIC" {
		*viol = append(*viol, "NewCell panicked: "+lastPanic)
		return
	}
	_, f := parseRes(res)
	it := g.x.items[idOf(id)]
	want := docText(it)
	if unhx(f["text"]) != want {
		*viol = append(*viol, fmt.Sprintf("item %s (%T): cell text %q, documented form %q", g.x.itemSpec[idOf(id)], it, unhx(f["text"]), want))
	}
	if (f["empty"] == "1") != (want == "") {
		*viol = append(*viol, fmt.Sprintf("item %s (%T): Empty()=%s but text is %q", g.x.itemSpec[idOf(id)], it, f["empty"], want))
	}
	if strings.Contains(res, "ITEM-CHANGED") {
		*viol = append(*viol, "Item() does not hand back the stored item")
	}
}

func init() {
	streams["C01"] = stream{
		property:  "C01",
		oracleDoc: "the documented text form recomputed by reflection on the item's method set and dynamic type (independent of the type switch); Empty() iff that text is empty; Item() returns the stored item; a mutated item is re-read only by Update",
		run: func(g *Gen, c int) ([]string, []string, bool) {
			r := g.r
			var viol []string
			alpha := [][]string{alphaText, alphaCSV, alphaPlain}[c%3]
			// all 32 interface combinations over the case stream, plus every other kind
			mask := c % 32
			for i := 0; i < 6; i++ {
				var id string
				switch i {
				case 0:
					id = g.item(fmt.Sprintf("obj:%d:s=%s:g=%s:e=%s:h=%d:w=%d", mask, hx(r.text(alpha, 3)), hx(r.text(alpha, 3)), hx(r.text(alpha, 3)), r.n(5)-1, r.n(9)-2))
				case 1:
					id = g.item(fmt.Sprintf("sample:%d", (c+i)%nSamples))
				case 2:
					id = g.item(fmt.Sprintf("rune:%d", []int{65, 0x4e16, 0xe9, 0x1F600, 10, 0, -1, 0xD800, 0xDFFF, 0x10FFFF, 0x110000, 0x7f, 0x80, 0x7ff, 0x800, 0xffff, 0x10000}[r.n(17)]))
					if r.chance(1, 2) {
						// any code point at all (most are not in the hand-picked list above), and a few past the range
						id = g.item(fmt.Sprintf("rune:%d", r.n(0x110400)-0x200))
					}
				default:
					id = g.anyItem(alpha, 3)
				}
				checkProbe(g, id, &viol)
			}
			// stale until Update
			m := r.n(32)
			it := g.item(fmt.Sprintf("obj:%d:s=%s:g=%s:e=%s:h=%d:w=%d", m, hx(r.text(alpha, 2)), hx(r.text(alpha, 2)), hx(r.text(alpha, 2)), r.n(4), r.n(6)))
			early := g.item("cell:" + it)     // a Cell value wrapping the item as it is NOW
			earlyP := g.item("cellptr:" + it) // and a *Cell
			row := g.do("newrow")
			g.do("rowadd " + row + " " + it)
			cp := g.do("copycell " + row + " 0")
			cpBefore := g.do("copyobs " + cp)
			before := g.do("cellobs " + row + " 0")
			g.do(fmt.Sprintf("mutate %s s=%s g=%s e=%s h=%d w=%d", it, hx(r.text(alpha, 3)), hx(r.text(alpha, 3)), hx(r.text(alpha, 3)), r.n(4), r.n(6)))
			stale := g.do("cellobs " + row + " 0")
			if stale != before {
				viol = append(viol, "cell changed when its item was mutated without Update")
			}
			// a cell wrapping the earlier Cell value keeps showing the wrapped cell's stored text
			checkProbe(g, early, &viol)
			checkProbe(g, earlyP, &viol)
			g.do("update " + row + " 0")
			if g.do("copyobs "+cp) != cpBefore {
				viol = append(viol, "a by-value copy of a cell changed when the original was updated")
			}
			after := g.do("cellobs " + row + " 0")
			g.do("copyupdate " + cp)
			if g.do("cellobs "+row+" 0") != after {
				viol = append(viol, "a cell changed when a by-value copy of it was updated")
			}
			_, f := parseRes(after)
			if want := docText(g.x.items[idOf(it)]); unhx(f["text"]) != want {
				viol = append(viol, fmt.Sprintf("after Update the cell text is %q, documented form of the mutated item is %q", unhx(f["text"]), want))
			} else if (f["empty"] == "1") != (want == "") {
				viol = append(viol, fmt.Sprintf("after Update Empty()=%s but the text is %q", f["empty"], want))
			}
			// empty -> non-empty -> empty through Update
			it2 := g.item(fmt.Sprintf("obj:%d:s=-:g=-:e=-", 1+r.n(7)))
			row2 := g.do("newrow")
			g.do("rowadd " + row2 + " " + it2)
			for _, txt := range []string{r.text(alphaPlain, 2) + "x", ""} {
				g.do(fmt.Sprintf("mutate %s s=%s g=%s e=%s", it2, hx(txt), hx(txt), hx(txt)))
				g.do("update " + row2 + " 0")
				_, f2 := parseRes(g.do("cellobs " + row2 + " 0"))
				want2 := docText(g.x.items[idOf(it2)])
				if unhx(f2["text"]) != want2 || (f2["empty"] == "1") != (want2 == "") {
					viol = append(viol, fmt.Sprintf("after mutating an item to %q and Update: text %q, Empty()=%s", want2, unhx(f2["text"]), f2["empty"]))
				}
			}
			// nested cells, including the zero value
			z := g.item("zerocell")
			checkProbe(g, z, &viol)
			nested := g.item("cell:" + it)
			checkProbe(g, nested, &viol)
			if c%8 == 0 {
				// a Cell in a Cell in a Cell ... a dozen deep, by value and by pointer alternately
				deep := nested
				for d := 0; d < 6+r.n(10); d++ {
					deep = g.item([]string{"cell:", "cellptr:"}[d%2] + deep)
				}
				checkProbe(g, deep, &viol)
			}
			return viol, nil, true
		},
	}
}

// ---------- C02: histories ----------

type refRow struct {
	id   int
	sep  bool
	n    int  // cells
	nil_ bool // zero-value row: no cell slice
}

type refTable struct {
	rows    []*refRow
	hdrMax  int // widest header the table has ever had
	hdrCur  int // cells of the header it has now
	det     map[int]*refRow
	maxCols int
}

// ncols: the largest number of cells in the header (the current one) or in any row — the statement
func (rt *refTable) ncols() int {
	m := rt.hdrCur
	for _, r := range rt.rows {
		if r.n > m {
			m = r.n
		}
	}
	return m
}

// ncolsEver: the same with the widest header the table has ever had — what the library keeps when a
// header is replaced by a shorter one (recorded finding D26)
func (rt *refTable) ncolsEver() int {
	m := rt.ncols()
	if rt.hdrMax > m {
		m = rt.hdrMax
	}
	return m
}

func checkObs(rt *refTable, obs string) (viol []string) {
	if obs == "PANIC" {
		return []string{"observer panicked: " + lastPanic}
	}
	_, f := parseRes(obs)
	nrows, ncols := len(rt.rows), rt.ncols()
	if f["nrows"] != strconv.Itoa(nrows) {
		viol = append(viol, fmt.Sprintf("NRows()=%s after %d rows/separators were added", f["nrows"], nrows))
	}
	if f["ncols"] != strconv.Itoa(ncols) {
		if ever := rt.ncolsEver(); f["ncols"] == strconv.Itoa(ever) {
			// the header was replaced by a shorter one and the column count stayed: the recorded finding;
			// the rest of the observation is judged against the count the library keeps
			pendingKnown = append(pendingKnown, "d26-columns-never-shrink")
			ncols = ever
		} else {
			viol = append(viol, fmt.Sprintf("NColumns()=%s, widest header/row has %d cells", f["ncols"], ncols))
		}
	}
	var ids []string
	for _, r := range rt.rows {
		ids = append(ids, fmt.Sprintf("R%d", r.id))
	}
	if f["rows"] != joinC(ids) {
		viol = append(viol, fmt.Sprintf("AllRows() order %s, insertion order %s", f["rows"], joinC(ids)))
	}
	for _, e := range listOf(f["cols"]) {
		p := strings.Split(e, ":")
		n := atoi(p[0])
		if (p[1] == "1") != (n >= 0 && n <= ncols) {
			viol = append(viol, fmt.Sprintf("Column(%d) existence=%s with %d columns", n, p[1], ncols))
		}
	}
	for _, e := range listOf(f["cellat"]) {
		i := strings.IndexByte(e, ':')
		loc, rest := e[:i], e[i+1:]
		lp := strings.Split(loc, ".")
		r, c := atoi(lp[0]), atoi(lp[1])
		valid := r >= 1 && r <= nrows && c >= 1 && !rt.rows[r-1].sep && !rt.rows[r-1].nil_ && c <= rt.rows[r-1].n
		if !valid {
			if rest != "x" {
				viol = append(viol, fmt.Sprintf("CellAt(%s) should be a no-such-cell error, got %s", loc, rest))
			}
			continue
		}
		want := fmt.Sprintf("R%d:%d@%d.%d", rt.rows[r-1].id, c-1, r, c)
		if rest != want {
			viol = append(viol, fmt.Sprintf("CellAt(%s) = %s, expected %s (row:index@own location)", loc, rest, want))
		}
	}
	return
}

func init() {
	streams["C02"] = stream{
		property:  "C02",
		oracleDoc: "a reference slice-of-slices updated per operation; after every op NRows, NColumns, AllRows order and identity, Column(n) existence for -1..ncols+1, CellAt for every (r,c) in 0..nrows+1 x 0..ncols+1 with the returned cell's identity and own Location(), row Location(); the slice returned by AllRows is overwritten and truncated before re-observing",
		run: func(g *Gen, c int) ([]string, []string, bool) {
			r := g.r
			t := g.do("newtable")
			rt := &refTable{det: map[int]*refRow{}}
			var viol []string
			items := []string{g.strItem("a"), g.strItem("b\nc"), g.item("nil"), g.strItem("")}
			pick := func(n int) string {
				var ids []string
				for i := 0; i < n; i++ {
					ids = append(ids, items[r.n(len(items))])
				}
				return joinC(ids)
			}
			// a second, wider table: rows it sizes for itself may end up in the first one
			aux := ""
			if c%3 == 1 {
				aux = g.do("newtable")
				g.do("addheaders " + aux + " " + pick(2+r.n(3)))
			}
			nops := 1 + r.n(10)
			if c%25 == 0 {
				nops = 55 + r.n(60) // past the row list's initial capacity and a doubling beyond
			}
			var known []int // all non-separator rows with a cell slice, attached or not
			if aux != "" {
				// first of all: a row the wider table sized, filled before or after it joins this (still empty) one
				id := idOf(g.do("newrowsized " + aux))
				rr := &refRow{id: id}
				known = append(known, id)
				fill := func() {
					for j := 0; j < 1+r.n(2); j++ {
						g.do(fmt.Sprintf("rowadd R%d %s", id, items[r.n(len(items))]))
						rr.n++
					}
				}
				if r.chance(1, 2) {
					fill()
				}
				g.do(fmt.Sprintf("addrow %s R%d", t, id))
				rt.rows = append(rt.rows, rr)
				if rr.n == 0 || r.chance(1, 2) {
					fill()
				}
				viol = append(viol, checkObs(rt, g.do("obs "+t))...)
			}
			for i := 0; i < nops; i++ {
				switch k := r.n(12); {
				case k == 0:
					n := r.n(5)
					g.do("addheaders " + t + " " + pick(n))
					rt.hdrCur = n
					if n > rt.hdrMax {
						rt.hdrMax = n
					}
				case k <= 3:
					n := r.n(5)
					id := idOf(g.do("addrowitems " + t + " " + pick(n)))
					rt.rows = append(rt.rows, &refRow{id: id, n: n})
					known = append(known, id)
				case k == 4:
					id := idOf(g.do("addsep " + t))
					rt.rows = append(rt.rows, &refRow{id: id, sep: true})
				case k == 5:
					id := idOf(g.do("appendnewrow " + t))
					rt.rows = append(rt.rows, &refRow{id: id})
					known = append(known, id)
				case k == 6:
					var id int
					if r.chance(1, 2) {
						id = idOf(g.do("newrow"))
					} else if aux != "" {
						id = idOf(g.do("newrowsized " + aux))
					} else {
						id = idOf(g.do("newrowsized " + t))
					}
					rt.det[id] = &refRow{id: id}
					known = append(known, id)
				case k == 7 && len(rt.det) > 0:
					// attach a pre-built row (each at most once)
					var ids []int
					for id := range rt.det {
						ids = append(ids, id)
					}
					sort.Ints(ids)
					id := ids[r.n(len(ids))]
					g.do(fmt.Sprintf("addrow %s R%d", t, id))
					rt.rows = append(rt.rows, rt.det[id])
					delete(rt.det, id)
				case k == 8 && r.chance(1, 3):
					id := idOf(g.do("zerorow"))
					g.do(fmt.Sprintf("addrow %s R%d", t, id))
					rt.rows = append(rt.rows, &refRow{id: id, nil_: true})
				case k == 9 && (c%5 == 2 || r.chance(1, 3)):
					// a cell offered to a row that cannot hold cells (a separator, a zero-value row): refused,
					// so nothing about the table changes — in particular no column appears
					var no []int
					for _, rr := range rt.rows {
						if rr.sep || rr.nil_ {
							no = append(no, rr.id)
						}
					}
					if len(no) == 0 {
						id := idOf(g.do("addsep " + t))
						rt.rows = append(rt.rows, &refRow{id: id, sep: true})
						no = append(no, id)
					}
					g.do(fmt.Sprintf("rowadd R%d %s", no[r.n(len(no))], items[r.n(len(items))]))
				default:
					if len(known) == 0 {
						continue
					}
					id := known[r.n(len(known))]
					g.do(fmt.Sprintf("rowadd R%d %s", id, items[r.n(len(items))]))
					if rr, ok := rt.det[id]; ok {
						rr.n++
					} else {
						for _, rr := range rt.rows {
							if rr.id == id {
								rr.n++
							}
						}
					}
				}
				if r.chance(1, 6) {
					g.do("scribblerows " + t)
				}
				viol = append(viol, checkObs(rt, g.do("obs "+t))...)
			}
			for pos, rr := range rt.rows {
				ro := g.do(fmt.Sprintf("rowobs R%d", rr.id))
				_, f := parseRes(ro)
				if f["rownum"] != strconv.Itoa(pos+1) {
					viol = append(viol, fmt.Sprintf("row R%d reports position %s, it is at %d", rr.id, f["rownum"], pos+1))
				}
			}
			return viol, nil, len(rt.rows) > 0
		},
	}
}

// ---------- C11: errors ----------

func multiset(l []string) map[string]int {
	m := map[string]int{}
	for _, e := range l {
		m[e]++
	}
	return m
}

func sameMultiset(a, b []string) bool { return reflect.DeepEqual(multiset(a), multiset(b)) }

// subsequence order per source is checked on ids: errors of one source are given increasing ids
func orderedPerSource(got []string, src map[string]int, rank map[string]int) bool {
	last := map[int]int{}
	for _, e := range got {
		n, ok := rank[e] // the order of issue (ids are not always increasing numbers)
		if !ok {
			continue
		}
		s, ok := src[e]
		if !ok {
			continue
		}
		if n < last[s] {
			return false
		}
		last[s] = n
	}
	return true
}

func init() {
	streams["C11"] = stream{
		property:  "C11",
		oracleDoc: "containers: Errors() = the non-nil inputs in order, nil when none, never an empty non-nil slice or a nil entry (constructed, zero-value and nil containers). Tables: every raised error (direct, pre-attach row errors, failing callbacks at add and render time at every level, separator misuse) tagged with an id; the table's list is compared as a multiset with everything raised on the table or on rows attached to it, per-source order checked, unattached rows report exactly their own",
		run: func(g *Gen, c int) ([]string, []string, bool) {
			r := g.r
			var viol []string
			if c%3 == 0 {
				// container level
				kinds := []string{"new", "zero", "nil"}
				k := kinds[r.n(3)]
				e := g.do("ecnew " + k)
				var want []string
				next := 1
				// errors whose value is the zero value of its type (a field-less sentinel, the library's own
				// NoSuchCellError{}, id 0): each at most once, so that "exactly once" still reads off the list
				zeroPool := []string{"0", "900001", "900002", "900003"}
				steps := 1 + r.n(6)
				if c%15 == 0 {
					steps = 40 + r.n(60) // a container that has seen a hundred errors
				}
				for i := 0; i < steps; i++ {
					if r.chance(1, 2) {
						v := "nil"
						if r.chance(2, 3) {
							v = strconv.Itoa(next)
							next++
							if (c%12 == 3 || r.chance(1, 10)) && len(zeroPool) > 0 {
								v, zeroPool = zeroPool[0], zeroPool[1:]
							}
							if k != "nil" {
								want = append(want, v)
							}
						}
						g.do("ecadd " + e + " " + v)
					} else {
						var l []string
						ln := r.n(4)
						if r.chance(1, 12) {
							ln = 17 + r.n(20) // a list longer than the scratch buffer's spare capacity
						}
						for j := 0; j < ln; j++ {
							if r.chance(1, 3) {
								l = append(l, "nil")
							} else {
								l = append(l, strconv.Itoa(next))
								if k != "nil" {
									want = append(want, strconv.Itoa(next))
								}
								next++
							}
						}
						if len(l) == 0 && r.chance(1, 2) {
							g.do("ecaddlist " + e + " nillist")
						} else {
							g.do("ecaddlist " + e + " " + joinC(l))
						}
					}
					got := g.do("ecerrors " + e)
					exp := "nil"
					if len(want) > 0 {
						exp = strings.Join(want, ",")
					}
					if got != exp {
						viol = append(viol, fmt.Sprintf("%s container: Errors() = %s, the non-nil errors added are %s", k, got, exp))
					}
				}
				return viol, nil, true
			}
			// table level
			t := g.do("newtable")
			ti := idOf(t)
			next := 1
			zeroPool := []string{"900003", "0", "900002", "900001"} // zero-valued error values, each at most once
			rank := map[string]int{} // directly recorded errors, in order of issue
			newErr := func() string {
				next++
				v := strconv.Itoa(next)
				if (c%8 == 5 || r.chance(1, 12)) && len(zeroPool) > 0 {
					v, zeroPool = zeroPool[0], zeroPool[1:]
				}
				rank[v] = next
				return v
			}
			selfDup := false             // the caller re-submitted the table's own list: per-source order no longer applies
			raised := map[int][]string{} // row id (or -1 table) -> errors raised there, in order
			failCbs := map[int]string{}  // cb id -> error id it raises
			cbN := 0
			regFail := func(owner, when, target string) {
				cbN++
				e := strconv.Itoa(100000 + cbN*100 + r.n(5)) // the last digit picks the error value's shape (mkErr)
				if (c%8 == 6 || r.chance(1, 12)) && len(zeroPool) > 0 {
					e, zeroPool = zeroPool[0], zeroPool[1:]
				}
				res := g.do(fmt.Sprintf("regcb %s %s %s %s fail:%d:%s", t, owner, when, target, cbN, e))
				if res == "ok" {
					failCbs[cbN] = e
				}
			}
			whens := []string{"add", "pre", "render", "post"}
			if r.chance(2, 3) {
				regFail("t:"+strconv.Itoa(ti), r.pick(whens), r.pick([]string{"itself", "cell", "row"}))
			}
			item := g.strItem("x")
			g.do("addheaders " + t + " " + joinC([]string{item, item}))
			if r.chance(1, 2) {
				regFail(fmt.Sprintf("c:%d:%d", ti, r.n(3)), r.pick(whens), r.pick([]string{"itself", "cell"}))
			}
			var attached, detached []int
			nrows := 1 + r.n(4)
			for i := 0; i < nrows; i++ {
				switch r.n(5) {
				case 0:
					id := idOf(g.do("addsep " + t))
					attached = append(attached, id)
					if r.chance(1, 2) { // misuse: a cell added to a separator row
						g.do(fmt.Sprintf("rowadd R%d %s", id, item))
						raised[id] = append(raised[id], "1000001")
					}
				case 1, 2:
					row := g.do("newrow")
					if r.chance(1, 3) {
						// a row the table made for the caller: still the caller's until AddRow, its errors its own
						row = g.do("newrowsized " + t)
						if r.chance(1, 2) {
							e := newErr()
							g.do("tadderr " + t + " " + e)
							raised[-1] = append(raised[-1], e)
						}
					}
					id := idOf(row)
					if r.chance(1, 2) {
						regFail("r:"+strconv.Itoa(id), r.pick(whens), r.pick([]string{"itself", "cell", "row"}))
					}
					for j := 0; j < r.n(3); j++ {
						g.do("rowadd " + row + " " + item)
					}
					if r.chance(1, 4) {
						// "no error" recorded on the row (the row.AddError(validate(x)) idiom): it may leave the row
						// with a container of its own, an empty one
						g.do(r.pick([]string{"rowadderr " + row + " nil", "rowadderrlist " + row + " nil", "rowadderrlist " + row + " nil,nil"}))
					}
					if r.chance(1, 2) {
						e := newErr()
						g.do("rowadderr " + row + " " + e)
						raised[id] = append(raised[id], e)
					}
					if r.chance(1, 3) {
						e1, e2 := newErr(), newErr()
						g.do("rowadderrlist " + row + " " + e1 + ",nil," + e2)
						raised[id] = append(raised[id], e1, e2)
					}
					if r.chance(3, 4) {
						g.do("addrow " + t + " " + row)
						attached = append(attached, id)
						if r.chance(1, 3) {
							g.do("rowadd " + row + " " + item)
							e := newErr()
							g.do("rowadderr " + row + " " + e)
							raised[id] = append(raised[id], e)
						}
					} else {
						detached = append(detached, id)
					}
				default:
					id := idOf(g.do("addrowitems " + t + " " + joinC([]string{item, item}[:r.n(3)])))
					attached = append(attached, id)
					if r.chance(1, 4) && len(g.x.rows[id].Cells()) > 0 {
						regFail(fmt.Sprintf("x:%d:0", id), "render", "cell")
					}
				}
			}
			if r.chance(1, 2) {
				e := newErr()
				g.do("tadderr " + t + " " + e)
				raised[-1] = append(raised[-1], e)
			}
			if r.chance(1, 3) {
				e := newErr()
				g.do("tadderrlist " + t + " nil," + e)
				raised[-1] = append(raised[-1], e)
			}
			if c%10 == 9 {
				// a long list, nil-free, onto a container that already holds some: more than doubles it
				var l []string
				for j := 0; j < 11+r.n(40); j++ {
					e := newErr()
					l = append(l, e)
					raised[-1] = append(raised[-1], e)
				}
				g.do("tadderrlist " + t + " " + strings.Join(l, ","))
			}
			if r.chance(1, 4) {
				// the list handed out by Errors(), extended by the caller and handed back: everything
				// already recorded is recorded once more, then the new one
				_, f0 := parseRes(g.do("obs " + t))
				cur := listOf(f0["errs"])
				e := newErr()
				g.do("tadderrself " + t + " " + e)
				selfDup = true
				for _, old := range cur {
					raised[-1] = append(raised[-1], old)
				}
				raised[-1] = append(raised[-1], e)
			}
			for p := 0; p < r.n(3); p++ {
				g.do("invoke " + t)
			}
			// collect the failures the callbacks raised, by where their target lives
			isAttached := map[int]bool{}
			for _, id := range attached {
				isAttached[id] = true
			}
			if h, ok := g.x.hdrOf[ti]; ok {
				isAttached[h] = true
			}
			ev := g.do("events")
			for _, e := range listOf(ev) {
				p := strings.SplitN(e, "@", 2)
				id := atoi(p[0])
				errID, isFail := failCbs[id]
				if !isFail {
					continue
				}
				tp := strings.Split(p[1], ":")
				where := -1
				if tp[0] == "r" || tp[0] == "x" {
					where = atoi(tp[1])
				}
				raised[where] = append(raised[where], errID)
			}
			var wantTable []string
			wantTable = append(wantTable, raised[-1]...)
			for id, es := range raised {
				if id >= 0 && isAttached[id] {
					wantTable = append(wantTable, es...)
				}
			}
			_, f := parseRes(g.do("obs " + t))
			got := listOf(f["errs"])
			if strings.Contains(f["errs"], "NIL") || strings.Contains(f["errs"], "EMPTY") {
				viol = append(viol, "table error list holds nil entries or is an empty non-nil slice: "+f["errs"])
			}
			if !sameMultiset(got, wantTable) {
				sort.Strings(wantTable)
				viol = append(viol, fmt.Sprintf("table reports errors %v; raised on the table or its rows: %v", got, wantTable))
			}
			src := map[string]int{}
			for id, es := range raised {
				for _, e := range es {
					if _, direct := rank[e]; direct {
						src[e] = id
					}
				}
			}
			if !selfDup && !orderedPerSource(got, src, rank) {
				viol = append(viol, fmt.Sprintf("errors of one source are out of order in %v", got))
			}
			for _, id := range detached {
				_, f := parseRes(g.do(fmt.Sprintf("rowobs R%d", id)))
				if !sameMultiset(listOf(f["errs"]), raised[id]) {
					viol = append(viol, fmt.Sprintf("unattached row R%d reports %s, raised on it: %v", id, f["errs"], raised[id]))
				}
			}
			return viol, nil, true
		},
	}
}

// ---------- C12: properties ----------

func init() {
	streams["C12"] = stream{
		property:  "C12",
		oracleDoc: "a reference map[owner]map[key]value updated per set; every get on every owner compared (keys of equal value and distinct dynamic type, pointers, structs); by-value cell copies and their originals are distinct owners; column handles taken before growth past the initial capacity keep addressing their column; the chain length read from %#v never exceeds the number of live keys",
		run: func(g *Gen, c int) ([]string, []string, bool) {
			r := g.r
			var viol []string
			t := g.do("newtable")
			ti := idOf(t)
			item := g.strItem("v")
			if c%2 == 1 {
				// the item is itself a Cell carrying properties: they are its own, not the new cell's
				item = g.item("cellp:" + item)
			}
			g.do("addheaders " + t + " " + joinC([]string{item, item}))
			row1 := g.do("addrowitems " + t + " " + joinC([]string{item, item}))
			det := g.do("newrow")
			g.do("rowadd " + det + " " + item)
			owners := []string{fmt.Sprintf("t:%d", ti), fmt.Sprintf("c:%d:0", ti), fmt.Sprintf("c:%d:1", ti), fmt.Sprintf("c:%d:2", ti),
				"r:" + row1[1:], "r:" + det[1:], fmt.Sprintf("x:%s:0", row1[1:]), fmt.Sprintf("x:%s:1", row1[1:]), fmt.Sprintf("x:%s:0", det[1:])}
			// a handle taken now, used after growth
			h := g.do(fmt.Sprintf("colhandle %s %d", t, 1+r.n(2)))
			alias := map[string]string{} // owner token -> canonical owner
			if h != "nil" {
				hn := "h:" + h[1:]
				owners = append(owners, hn)
			}
			ref := map[string]map[string]string{}
			canon := func(o string) string {
				if a, ok := alias[o]; ok {
					return a
				}
				return o
			}
			if h != "nil" {
				// which column it is: recover from the op we issued
				last := g.goOps[len(g.goOps)-1]
				alias["h:"+h[1:]] = fmt.Sprintf("c:%d:%s", ti, strings.Fields(last)[2])
			}
			keys := []string{"u0", "u1", "u2", "u3", "u4", "u5", "u6", "u7", "u8", "u9", "u10", "u11"}
			if c%6 == 0 {
				for k := 12; k < 40; k++ { // dozens of keys on one owner
					keys = append(keys, fmt.Sprintf("u%d", k))
				}
			}
			deep := ""
			if c%3 == 0 {
				deep = owners[6+r.n(3)] // a cell that will carry 9-12 keys
			}
			nops := 8 + r.n(20)
			if len(keys) > 12 {
				nops += 36
			}
			ptrN := 0
			for i := 0; i < nops; i++ {
				o := owners[r.n(len(owners))]
				k := keys[r.n(len(keys))]
				if deep != "" && i < len(keys) && i < nops-6 {
					o, k = deep, keys[i]
				}
				switch q := r.n(10); {
				case q < 5:
					v := fmt.Sprintf("u%d", r.n(50))
					if r.chance(1, 5) {
						v = "nil"
					}
					if r.chance(1, 4) {
						// a pointer: a fresh allocation every time (all with equal payloads), sometimes an earlier one again
						ptrN++
						v = fmt.Sprintf("P%d", c*1000+ptrN)
						if r.chance(1, 3) && ptrN > 1 {
							v = fmt.Sprintf("P%d", c*1000+1+r.n(ptrN-1))
						}
					}
					g.do(fmt.Sprintf("setprop %s %s %s", o, k, v))
					co := canon(o)
					if ref[co] == nil {
						ref[co] = map[string]string{}
					}
					if v == "nil" {
						delete(ref[co], k)
					} else {
						ref[co][k] = v
					}
				case q == 5 || (deep != "" && i == 12):
					// copy a cell by value: a new owner starting with the original's properties
					src := owners[6+r.n(3)]
					if deep != "" && i == 12 {
						src = deep
					}
					p := strings.Split(src, ":")
					y := g.do(fmt.Sprintf("copycell R%s %s", p[1], p[2]))
					if y != "nocell" {
						yo := "y:" + y[1:]
						owners = append(owners, yo)
						ref[yo] = map[string]string{}
						for kk, vv := range ref[canon(src)] {
							ref[yo][kk] = vv
						}
					}
				case q == 6:
					// grow the table (columns slice reallocates past its capacity of 10)
					n := 3 + r.n(12)
					var ids []string
					for j := 0; j < n; j++ {
						ids = append(ids, item)
					}
					g.do("addrowitems " + t + " " + joinC(ids))
				default:
				}
				// observe every owner for this key and one other
				for _, oo := range owners {
					for _, kk := range []string{k, keys[r.n(len(keys))]} {
						got := g.do(fmt.Sprintf("getprop %s %s", oo, kk))
						want, ok := ref[canon(oo)][kk]
						if !ok {
							want = "nil"
						}
						if got != want {
							viol = append(viol, fmt.Sprintf("GetProperty(%s) on %s = %s, last set %s", kk, oo, got, want))
						}
					}
				}
				// (no renderer runs in this stream, so the live keys are all there is)
				if cl := g.do(fmt.Sprintf("chainlen %s %d", o, len(ref[canon(o)]))); cl == "gt" {
					viol = append(viol, fmt.Sprintf("owner %s stores more links than its %d live keys", o, len(ref[canon(o)])))
				}
			}
			if len(viol) > 6 {
				viol = viol[:6]
			}
			return viol, nil, true
		},
	}
}

// ---------- C13: callbacks ----------

type reg struct {
	id                  int
	owner, when, target string
	ok                  bool
}

func acceptedReg(ownerKind, target string) bool {
	switch ownerKind {
	case "t":
		return true
	case "c":
		return target != "row"
	case "r":
		return true
	default: // cell
		return target != "row"
	}
}

func init() {
	streams["C13"] = stream{
		property:  "C13",
		oracleDoc: "a recording callback logs (registration id, identity of the object handed over); the expected log is built from the documented nesting order and compared event for event; refused registrations are exactly the unsupported owner/target/time combinations; a set-property callback's effect is read back through the table",
		run: func(g *Gen, c int) ([]string, []string, bool) {
			r := g.r
			var viol []string
			t := g.do("newtable")
			ti := idOf(t)
			item := g.strItem("x")
			ncols := 1 + r.n(3)
			mk := func(n int) string {
				var ids []string
				for i := 0; i < n; i++ {
					ids = append(ids, item)
				}
				return joinC(ids)
			}
			whens := []string{"add", "pre", "render", "post"}
			targets := []string{"itself", "cell", "row"}
			var regs []reg
			nreg := 0
			sameTime := r.chance(1, 2) // pairs at the same time are what exposes ordering
			setCbs := map[int][2]string{}
			// add-time oracle: what each building call must fire, from the registrations made so far
			// (expAdd: as documented; expAddLib: without column-level callbacks on header cells, finding D29)
			var expAdd, expAddLib []string
			setOf := func(rg reg) string {
				switch rg.owner[:1] {
				case "t":
					return map[string]string{"itself": "self", "cell": "cell", "row": "row"}[rg.target]
				case "c":
					return map[string]string{"itself": "self", "cell": "cell"}[rg.target]
				case "r":
					return map[string]string{"itself": "self", "row": "self", "cell": "cell"}[rg.target]
				}
				return "self"
			}
			fireAdd := func(owner, set, tgt string, lib bool) {
				for _, rg := range regs {
					if rg.ok && rg.when == "add" && rg.owner == owner && setOf(rg) == set {
						expAdd = append(expAdd, fmt.Sprintf("%d@%s", rg.id, tgt))
						if lib {
							expAddLib = append(expAddLib, fmt.Sprintf("%d@%s", rg.id, tgt))
						}
					}
				}
			}
			tOwn := fmt.Sprintf("t:%d", ti)
			attach := func(rid, ncell int, header bool) {
				ro := fmt.Sprintf("r:%d", rid)
				if !header {
					fireAdd(ro, "self", ro, true)
				}
				fireAdd(tOwn, "row", ro, true)
				for i := 0; i < ncell; i++ {
					xo := fmt.Sprintf("x:%d:%d", rid, i)
					fireAdd(fmt.Sprintf("c:%d:%d", ti, i+1), "cell", xo, !header)
					fireAdd(tOwn, "cell", xo, true)
				}
			}
			do := func(op string) string {
				toks := strings.Fields(op)
				before := 0
				if toks[0] == "rowadd" || toks[0] == "rowaddcopy" {
					if rw := g.x.rows[idOf(toks[1])]; rw != nil {
						before = len(rw.Cells())
					}
				}
				res := g.do(op)
				switch toks[0] {
				case "rowadd", "rowaddcopy":
					fireAdd("r:"+toks[1][1:], "cell", fmt.Sprintf("x:%s:%d", toks[1][1:], before), true)
				case "addrow":
					attach(idOf(toks[2]), len(g.x.rows[idOf(toks[2])].Cells()), false)
				case "addrowitems":
					attach(idOf(res), len(listOf(toks[2])), false)
				case "appendnewrow":
					attach(idOf(res), 0, false)
				case "addheaders":
					attach(idOf(res), len(listOf(toks[2])), true)
				}
				return res
			}
			forceWhen, forceTarget := "", ""
			register := func(owner string) {
				nreg++
				when, target := whens[(c+nreg)%4], targets[(c/4+nreg)%3]
				if sameTime {
					when = whens[c%4]
					if r.chance(2, 3) {
						target = "cell"
					}
				}
				if r.chance(1, 25) {
					when = "bad"
				}
				if forceWhen != "" {
					when, target = forceWhen, forceTarget
				}
				cb := fmt.Sprintf("log:%d", nreg)
				if r.chance(1, 3) {
					cb = fmt.Sprintf("set:%d:u%d:u%d", nreg, nreg, 100+nreg)
				}
				res := g.do(fmt.Sprintf("regcb %s %s %s %s %s", t, owner, when, target, cb))
				want := acceptedReg(owner[:1], target) && when != "bad"
				if res == "ok" && strings.HasPrefix(cb, "set:") {
					setCbs[nreg] = [2]string{fmt.Sprintf("u%d", nreg), fmt.Sprintf("u%d", 100+nreg)}
				}
				if (res == "ok") != want {
					viol = append(viol, fmt.Sprintf("registering owner %s target %s time %s: %s, documented matrix says accepted=%v", owner, target, when, res, want))
				}
				regs = append(regs, reg{nreg, owner, when, target, res == "ok"})
			}
			early := r.chance(1, 2)
			if early {
				register(fmt.Sprintf("t:%d", ti))
			}
			if r.chance(1, 2) {
				do("addheaders " + t + " " + mk(ncols))
			}
			var rows []string
			pre := g.do("newrow")
			if r.chance(1, 2) {
				register("r:" + pre[1:])
			}
			do("rowadd " + pre + " " + item)
			do("addrow " + t + " " + pre)
			rows = append(rows, pre)
			if r.chance(1, 2) {
				register(fmt.Sprintf("c:%d:%d", ti, r.n(g.x.tables[ti].NColumns()+1)))
			}
			for i := 0; i < r.n(3); i++ {
				if r.chance(1, 4) {
					sep := do("addsep " + t)
					rows = append(rows, sep)
					if c%5 == 2 {
						// a separator is a row like any other for row-level callbacks: its own pre/post
						// render callbacks fire in its place in the traversal (stored change C13-M skipped it)
						forceWhen, forceTarget = []string{"pre", "post"}[(c/5)%2], "itself"
						register("r:" + sep[1:])
						forceWhen, forceTarget = "", ""
					}
				} else if r.chance(1, 4) {
					// a row the table makes and attaches itself, filled afterwards
					nr := do("appendnewrow " + t)
					rows = append(rows, nr)
					if c%6 == 4 || r.chance(1, 3) {
						// a row that is already in the table gets its cell callbacks now: cells added to it
						// from here on are handed to them
						if c%6 == 4 {
							forceWhen, forceTarget = "add", "cell"
						}
						register("r:" + nr[1:])
						forceWhen, forceTarget = "", ""
					}
					if c%6 == 4 || r.chance(2, 3) {
						do("rowadd " + nr + " " + item)
					}
				} else {
					rows = append(rows, do("addrowitems "+t+" "+mk(r.n(ncols+1))))
				}
			}
			if !early || r.chance(1, 2) {
				register(fmt.Sprintf("t:%d", ti))
			}
			if r.chance(1, 2) {
				register(fmt.Sprintf("x:%s:0", pre[1:]))
			}
			if c%10 == 3 {
				// a table past 32 and 64 columns, with callbacks on columns on either side of those marks
				wide := []int{33, 40, 64, 65, 70}[(c/10)%5]
				rows = append(rows, do("addrowitems "+t+" "+mk(wide)))
				for _, n := range []int{31, 32, 33, 63, 64, 65, wide} {
					if n <= wide {
						register(fmt.Sprintf("c:%d:%d", ti, n))
					}
				}
			}
			if r.chance(1, 4) {
				// callbacks on the currently last column, then growth past the initial capacity of 10
				register(fmt.Sprintf("c:%d:%d", ti, g.x.tables[ti].NColumns()))
				rows = append(rows, do("addrowitems "+t+" "+mk(10+r.n(4))))
			}
			if r.chance(1, 4) {
				// a cell that already carries callbacks is added BY VALUE twice; each copy then gets one more
				proto := g.do("newrow")
				do("rowadd " + proto + " " + item)
				for k := 0; k < 1+r.n(3); k++ {
					register(fmt.Sprintf("x:%s:0", proto[1:]))
				}
				y := g.do("copycell " + proto + " 0")
				dst := g.do("newrow")
				// a copy carries the registrations its original had when it was copied
				for _, rg := range append([]reg(nil), regs...) {
					if rg.owner == fmt.Sprintf("x:%s:0", proto[1:]) {
						for k := 0; k < 2; k++ {
							cl := rg
							cl.owner = fmt.Sprintf("x:%s:%d", dst[1:], k)
							regs = append(regs, cl)
						}
					}
				}
				do("rowaddcopy " + dst + " " + y)
				do("rowaddcopy " + dst + " " + y)
				do("addrow " + t + " " + dst)
				rows = append(rows, dst)
				register(fmt.Sprintf("x:%s:0", dst[1:]))
				register(fmt.Sprintf("x:%s:1", dst[1:]))
			}
			if r.chance(1, 3) {
				late := do("addrowitems " + t + " " + mk(r.n(ncols+1)))
				rows = append(rows, late)
				if r.chance(1, 2) {
					if r.chance(1, 2) {
						forceWhen, forceTarget = "add", "cell"
					}
					register("r:" + late[1:])
					forceWhen, forceTarget = "", ""
				}
				do("rowadd " + late + " " + item)
			}
			// the object handed to a callback is the live one: what a set-property callback wrote is
			// readable afterwards through the table
			readBack := func(evs string) {
				seen := map[string]bool{}
				for _, e := range listOf(evs) {
					p := strings.SplitN(e, "@", 2)
					if strings.Contains(p[1], "?") {
						viol = append(viol, fmt.Sprintf("callback %s was handed an object that is none of the live table, columns, rows or cells", p[0]))
						continue
					}
					kv2, isSet := setCbs[atoi(p[0])]
					if !isSet || seen[e] {
						continue
					}
					seen[e] = true
					if got := g.do(fmt.Sprintf("getprop %s %s", p[1], kv2[0])); got != kv2[1] {
						viol = append(viol, fmt.Sprintf("callback %s set %s=%s on %s, reading it back through the table gives %s", p[0], kv2[0], kv2[1], p[1], got))
					}
				}
			}
			addEv := g.do("events") // add-time events (also compared Go vs model)
			if addEv != joinC(expAdd) {
				if addEv == joinC(expAddLib) {
					pendingKnown = append(pendingKnown, "d29-header-cells-no-column-callbacks")
				} else {
					viol = append(viol, fmt.Sprintf("add-time callbacks fired as %s, the building calls made so far require %s", addEv, joinC(expAdd)))
				}
			}
			readBack(addEv)
			passes := 1 + r.n(2)
			for p := 0; p < passes; p++ {
				g.do("invoke " + t)
				got := g.do("events")
				want := joinC(expectedRenderLog(g, ti, regs))
				if got != want {
					if got == joinC(expectedRenderLogH(g, ti, regs, false)) {
						// exactly the documented order minus the column-level cell callbacks on header cells
						pendingKnown = append(pendingKnown, "d29-header-cells-no-column-callbacks")
					} else {
						viol = append(viol, fmt.Sprintf("render pass %d: callbacks fired as %s, documented order gives %s", p+1, got, want))
					}
				}
				readBack(got)
			}
			// live objects: properties set by callbacks are visible through the table
			for _, rg := range regs {
				_ = rg
			}
			g.do("obs " + t)
			for _, rw := range rows {
				g.do("rowobs " + rw)
			}
			if len(viol) > 4 {
				viol = viol[:4]
			}
			return viol, nil, true
		},
	}
}

// expectedRenderLog: the documented render-time order, for the registrations that were accepted.
func expectedRenderLog(g *Gen, ti int, regs []reg) []string {
	return expectedRenderLogH(g, ti, regs, true)
}

// expectedRenderLogH: the documented order; with headerCols false, as the library has it — the cells of the
// header row receive no column-level cell callbacks (recorded finding D29)
func expectedRenderLogH(g *Gen, ti int, regs []reg, headerCols bool) []string {
	tb := g.x.tables[ti]
	var out []string
	// callback lists per (owner, target-set, time)
	fire := func(ownerMatch func(string) bool, set string, when string, tgt string) {
		for _, rg := range regs {
			if !rg.ok || rg.when != when || !ownerMatch(rg.owner) {
				continue
			}
			// which set a registration lands in
			kind := rg.owner[:1]
			s := ""
			switch kind {
			case "t":
				s = map[string]string{"itself": "self", "cell": "cell", "row": "row"}[rg.target]
			case "c":
				s = map[string]string{"itself": "self", "cell": "cell"}[rg.target]
			case "r":
				s = map[string]string{"itself": "self", "row": "self", "cell": "cell"}[rg.target]
			case "x":
				s = "self"
			}
			if s == set {
				out = append(out, fmt.Sprintf("%d@%s", rg.id, tgt))
			}
		}
	}
	tOwner := fmt.Sprintf("t:%d", ti)
	isT := func(o string) bool { return o == tOwner }
	fire(isT, "self", "pre", tOwner)
	n := tb.NColumns()
	for cidx := 0; cidx <= n; cidx++ {
		co := fmt.Sprintf("c:%d:%d", ti, cidx)
		fire(func(o string) bool { return o == co }, "self", "pre", co)
	}
	doRow := func(rid int, cells int, isHeader bool) {
		ro := fmt.Sprintf("r:%d", rid)
		isR := func(o string) bool { return o == ro }
		fire(isR, "self", "pre", ro)
		for i := 0; i < cells; i++ {
			xo := fmt.Sprintf("x:%d:%d", rid, i)
			co := fmt.Sprintf("c:%d:%d", ti, i+1)
			isC := func(o string) bool { return (headerCols || !isHeader) && o == co }
			fire(isT, "cell", "pre", xo)
			fire(isC, "cell", "pre", xo)
			fire(isR, "cell", "pre", xo)
			fire(isT, "cell", "render", xo)
			fire(func(o string) bool { return o == xo }, "self", "render", xo)
			fire(isR, "cell", "post", xo)
			fire(isC, "cell", "post", xo)
			fire(isT, "cell", "post", xo)
		}
		fire(isR, "self", "post", ro)
	}
	if hs := tb.Headers(); hs != nil {
		doRow(g.x.hdrOf[ti], len(hs), true)
	}
	for _, rw := range tb.AllRows() {
		doRow(g.x.rowID[rw], len(rw.Cells()), false)
	}
	for cidx := 0; cidx <= n; cidx++ {
		co := fmt.Sprintf("c:%d:%d", ti, cidx)
		fire(func(o string) bool { return o == co }, "self", "post", co)
	}
	fire(isT, "self", "post", tOwner)
	return out
}

// ---------- C14: repeatability ----------

// manyProps: how many user keys the C14 stream may set on one cell (and snapshot reads back)
const manyProps = 24

func snapshot(g *Gen, t string) string {
	var b strings.Builder
	b.WriteString(g.do("obs " + t))
	tb := g.x.tables[idOf(t)]
	if h, ok := g.x.hdrOf[idOf(t)]; ok && tb.Headers() != nil {
		b.WriteString("|" + g.do(fmt.Sprintf("rowobs R%d", h)))
	}
	for _, rw := range tb.AllRows() {
		b.WriteString("|" + g.do(fmt.Sprintf("rowobs R%d", g.x.rowID[rw])))
	}
	// the first cell of every row and of the header: every user key that a case may have set on it
	rowIDs := []int{}
	if h, ok := g.x.hdrOf[idOf(t)]; ok && len(tb.Headers()) > 0 {
		rowIDs = append(rowIDs, h)
	}
	for _, rw := range tb.AllRows() {
		if len(rw.Cells()) > 0 {
			rowIDs = append(rowIDs, g.x.rowID[rw])
		}
	}
	for _, id := range rowIDs {
		for k := 1; k <= manyProps; k++ {
			b.WriteString("|" + g.do(fmt.Sprintf("getprop x:%d:0 u%d", id, k)))
		}
		// every further cell of the row, and the row itself, for the keys any stream sets on them
		ncell := 0
		if cs, ok := g.x.cellsOfRow(id); ok {
			ncell = len(cs)
		}
		for ci := 1; ci < ncell; ci++ {
			for _, k := range []string{"u1", "u2", "u3", "align", "skip"} {
				b.WriteString("|" + g.do(fmt.Sprintf("getprop x:%d:%d %s", id, ci, k)))
			}
		}
		if g.x.rows[id] != nil {
			for _, k := range []string{"u1", "u2", "u3", "align", "skip"} {
				b.WriteString("|" + g.do(fmt.Sprintf("getprop r:%d %s", id, k)))
			}
		}
	}
	for _, k := range []string{"u1", "u2", "align", "skip"} {
		b.WriteString("|" + g.do(fmt.Sprintf("getprop t:%d %s", idOf(t), k)))
		for cidx := 0; cidx <= tb.NColumns(); cidx++ {
			b.WriteString("|" + g.do(fmt.Sprintf("getprop c:%d:%d %s", idOf(t), cidx, k)))
		}
	}
	return b.String()
}

func init() {
	streams["C14"] = stream{
		property:  "C14",
		oracleDoc: "a random sequence of 3-9 renders over all formats, decorations and entry points on one table: each output is compared with the first output of the same format/decoration; counts, every cell's text and location, user properties and the error list are snapshotted before and after",
		run: func(g *Gen, c int) ([]string, []string, bool) {
			r := g.r
			o := tableOpts{alpha: alphaText, parts: 3, maxCols: 4, maxRows: 5, headerMode: 1, sizeItems: c%2 == 0, postAdd: true}
			if c%5 == 0 {
				o.headerMode = 0
			}
			t := g.buildTable(o)
			if r.chance(1, 2) {
				g.assignProps(t, "align", alignVals)
			}
			if r.chance(1, 2) {
				g.assignProps(t, "skip", skipVals)
			}
			if r.chance(1, 2) {
				g.do(fmt.Sprintf("setprop t:%d u1 u77", idOf(t)))
				g.do(fmt.Sprintf("setprop c:%d:0 u2 u78", idOf(t)))
			}
			if r.chance(1, 2) {
				for _, rw := range g.x.tables[idOf(t)].AllRows() {
					id := g.x.rowID[rw]
					if r.chance(1, 2) {
						g.do(fmt.Sprintf("setprop r:%d u%d u%d", id, 1+r.n(3), 300+id))
					}
					if n := len(rw.Cells()); n > 1 {
						g.do(fmt.Sprintf("setprop x:%d:%d %s %s", id, 1+r.n(n-1), r.pick([]string{"u1", "u2", "align"}), r.pick([]string{"u5", "a2", "u9"})))
					}
				}
			}
			if c%4 == 1 {
				// a cell (and a header cell) with many properties of the caller's own: renders add theirs on top
				var ids []int
				if h, ok := g.x.hdrOf[idOf(t)]; ok && len(g.x.tables[idOf(t)].Headers()) > 0 {
					ids = append(ids, h)
				}
				for _, rw := range g.x.tables[idOf(t)].AllRows() {
					if len(rw.Cells()) > 0 {
						ids = append(ids, g.x.rowID[rw])
					}
				}
				for _, id := range ids {
					n := 10 + r.n(manyProps-9)
					for k := 1; k <= n; k++ {
						g.do(fmt.Sprintf("setprop x:%d:0 u%d u%d", id, k, 200+k))
					}
				}
			}
			if r.chance(1, 3) {
				g.do(fmt.Sprintf("regcb %s t:%d %s cell log:1", t, idOf(t), r.pick([]string{"pre", "render", "post"})))
			}
			var viol []string
			before := snapshot(g, t)
			if r.chance(1, 4) {
				g.do("scribblerows " + t)
			}
			first := map[string]string{}
			ws := map[string]string{}
			rawDecor := ""
			n := 3 + r.n(7)
			if c%10 == 0 {
				n = 30 + r.n(30) // dozens of renders of the same wrappers
			}
			all := g.registeredNames()
			names := []string{all[r.n(len(all))], all[r.n(len(all))]} // few names per case, so that paths meet
			for i := 0; i < n; i++ {
				kind := []string{"csv", "json", "markdown", "html", "text", "text"}[r.n(6)]
				key := kind
				var res string
				switch r.n(3) {
				case 0: // a long-lived wrapper
					w, ok := ws[kind]
					if !ok {
						w = g.do("wrap " + kind + " " + t)
						ws[kind] = w
					}
					if kind == "text" {
						name := r.pick(names)
						g.do("setdecornamed " + w + " " + hx(name))
						key = "text/" + name
						if r.chance(1, 3) {
							// a hand-assembled decoration that Populate never completed, the same one all case long
							if rawDecor == "" {
								var d decoration.Decoration
								fs := decorFields(&d)
								for i := range fs {
									if r.chance(1, 3) {
										*fs[i] = r.pick([]string{"|", "-", "+", "#", "═"})
									}
								}
								rawDecor = showDecor(d)
							}
							g.do("setdecor " + w + " " + rawDecor)
							key = "text/raw"
							// straight away once before the compared render: the first use of a decoration value
							// is no different from the second
							if cl0, f0 := parseRes(g.do("render " + w)); cl0 == "ok" {
								if prev, ok := first[key]; !ok {
									first[key] = cl0 + "|" + f0["out"]
								} else if prev != cl0+"|"+f0["out"] {
									viol = append(viol, "render with the hand-assembled decoration differs from its first render")
								}
							}
						}
					}
					cl, f := parseRes(g.do("render " + w))
					res = cl + "|" + f["out"]
					if cl != "ok" {
						res = cl
					}
				case 1: // package-level function: a fresh wrapper every time
					if kind == "text" {
						key = "text/utf8-heavy"
					}
					cl, f := parseRes(g.do("prender " + kind + " " + t))
					res = cl + "|" + f["str"]
					if cl != "ok" {
						res = cl
					}
				default:
					style := kind
					if kind == "text" {
						name := r.pick(names)
						if r.chance(1, 4) {
							// a style nobody registered: refused every time, and the table none the wiser
							name = r.pick([]string{"no-such-style", "texttable.bogus", "", "texttable."})
						}
						style = name
						key = "text/" + name
					}
					cl, f := parseRes(g.do("autorender " + t + " " + hx(style)))
					res = cl + "|" + f["str"]
					if cl != "ok" {
						res = cl
					}
				}
				if strings.HasPrefix(res, "PANIC") {
					viol = append(viol, "render panicked: "+lastPanic)
					continue
				}
				if prev, ok := first[key]; ok {
					if prev != res {
						viol = append(viol, fmt.Sprintf("render %d of %s differs from the first render of it", i+1, key))
					}
				} else {
					first[key] = res
				}
			}
			g.do("events")
			after := snapshot(g, t)
			if before != after {
				viol = append(viol, "the table's observable state changed across renders")
			}
			return viol, nil, hasRows(g, t)
		},
	}
}

// ---------- C18: length metrics ----------

var alphaLen = []string{"\x7f", "ab\x7f", "\x1b[0m", "\x01", "\n", "\n", "\n\n", "a", "bc", " ", "世", "é", "é", "​", "👨‍👩‍👧", "\xff", "\xc3", "\xe4\xb8", "\xf0\x9f", "\xed\xa0\x80", "\xc0\x80", "ｗ", "\t", "\r", "🇯🇵"}

func init() {
	streams["C18"] = stream{
		property:  "C18",
		oracleDoc: "for every generated string: join(Lines) = s or s minus one trailing LF, no line contains LF, LongestLine{Bytes,Runes,Cells} = max of the per-line measure, runes <= bytes and cells <= 2*runes per line; for cells without size overrides Height = len(Lines) and TerminalCellWidth = LongestLineCells",
		run: func(g *Gen, c int) ([]string, []string, bool) {
			r := g.r
			var viol []string
			// the measure itself, against a table that does not come from the library (the one place where
			// display width is not "whatever StringCells says"): narrow, wide, combining, zero-width, controls,
			// a flag, ill-formed bytes, box glyphs — with East-Asian width off, as everywhere but in E03
			for _, p := range []struct {
				s string
				w int
			}{{"", 0}, {"a", 1}, {"abc", 3}, {" ", 1}, {"é", 1}, {"e\u0301", 1}, {"世", 2}, {"世界", 4}, {"ｗ", 2}, {"\u200b", 0},
				{"\u0301", 0}, {"\t", 0}, {"\x7f", 0}, {"\x01", 0}, {"😀", 2}, {"─", 1}, {"┃", 1}, {"╬", 1}, {"•", 1}, {"Ω", 1},
				{"a\u0301b", 2}, {"x世y", 4}, {"\u00ad", 0}} {
				if got := length.StringCells(p.s); got != p.w {
					viol = append(viol, fmt.Sprintf("StringCells(%q) = %d; the reference table of display widths has %d", p.s, got, p.w))
				}
			}
			for i := 0; i < 8; i++ {
				s := r.text(alphaLen, 7)
				if i == 0 {
					s = strings.Repeat("\n", c%4) + r.text(alphaLen, 3) + strings.Repeat("\n", (c/4)%4)
				}
				if i == 2 {
					// many lines: every count up to 40 and the powers of two beyond, with the longest line first,
					// last or in the middle, with and without a closing newline
					k := 2 + c%39
					if c%7 == 0 {
						k = []int{63, 64, 65, 127, 128, 129, 255, 256, 257}[(c/7)%9]
					}
					ls := make([]string, k)
					for j := range ls {
						ls[j] = r.pick([]string{"", "a", "bc", "世"})
					}
					ls[[]int{0, k - 1, k - 1, k / 2}[r.n(4)]] = "the longest line of them all"
					s = strings.Join(ls, "\n") + []string{"", "", "\n"}[r.n(3)]
				}
				res := g.do("lenobs " + hx(s))
				_, f := parseRes(res)
				var ls []string
				for _, h := range listOf(f["lines"]) {
					ls = append(ls, unhx(h))
				}
				j := strings.Join(ls, "\n")
				if !(j == s || j+"\n" == s) {
					viol = append(viol, fmt.Sprintf("Lines(%q) = %q loses more than one trailing newline", s, ls))
				}
				mb, mr, mc := 0, 0, 0
				for _, l := range ls {
					if strings.Contains(l, "\n") {
						viol = append(viol, fmt.Sprintf("a line of %q contains a newline", s))
					}
					b, rn, cl := len(l), utf8.RuneCountInString(l), length.StringCells(l)
					if rn > b {
						viol = append(viol, fmt.Sprintf("line %q: %d runes > %d bytes", l, rn, b))
					}
					if cl > 2*rn {
						viol = append(viol, fmt.Sprintf("line %q: %d cells > 2 x %d runes", l, cl, rn))
					}
					if b > mb {
						mb = b
					}
					if rn > mr {
						mr = rn
					}
					if cl > mc {
						mc = cl
					}
				}
				if f["lb"] != strconv.Itoa(mb) || f["lr"] != strconv.Itoa(mr) || f["lc"] != strconv.Itoa(mc) {
					viol = append(viol, fmt.Sprintf("LongestLine{Bytes,Runes,Cells}(%q) = %s,%s,%s; per-line maxima are %d,%d,%d", s, f["lb"], f["lr"], f["lc"], mb, mr, mc))
				}
				if i == 1 {
					// a mutable item: cell, copy, mutate to a text with no more lines, update one, inspect the other
					ls0 := strings.Split(strings.TrimSuffix(s, "\n"), "\n")
					it := g.item(fmt.Sprintf("obj:1:s=%s", hx(s)))
					row := g.do("newrow")
					g.do("rowadd " + row + " " + it)
					cp := g.do("copycell " + row + " 0")
					cpBefore := g.do("copyobs " + cp)
					t2 := r.text(alphaLen, 2) + "a considerably longer first line"
					if len(ls0) > 1 {
						t2 += "\nz"
					}
					g.do(fmt.Sprintf("mutate %s s=%s", it, hx(t2)))
					g.do("update " + row + " 0")
					if g.do("copyobs "+cp) != cpBefore {
						viol = append(viol, fmt.Sprintf("the copy of a cell of %q reports different lines/metrics after the original was updated to %q", s, t2))
					}
					_, of := parseRes(g.do("cellobs " + row + " 0"))
					if unhx(of["text"]) != t2 {
						viol = append(viol, "updated cell does not show the new text")
					}
					// and on to a shorter text, often the empty one: no metric of the longer text survives
					t3 := r.pick([]string{"", "", "\n", "x", "世", r.text(alphaLen, 1)})
					g.do(fmt.Sprintf("mutate %s s=%s", it, hx(t3)))
					g.do("update " + row + " 0")
					_, of = parseRes(g.do("cellobs " + row + " 0"))
					l3 := length.Lines(t3)
					if of["h"] != strconv.Itoa(len(l3)) || of["w"] != strconv.Itoa(length.LongestLineCells(t3)) || len(listOf(of["lines"])) != len(l3) {
						viol = append(viol, fmt.Sprintf("cell updated from %q to %q: Height %s, width %s, %d lines; the text has %d lines, longest %d cells", t2, t3, of["h"], of["w"], len(listOf(of["lines"])), len(l3), length.LongestLineCells(t3)))
					}
				}
				id := g.strItem(s)
				_, pf := parseRes(g.do("probe " + id))
				if pf["h"] != strconv.Itoa(len(ls)) {
					viol = append(viol, fmt.Sprintf("cell of %q: Height %s, %d lines", s, pf["h"], len(ls)))
				}
				if pf["w"] != strconv.Itoa(mc) {
					viol = append(viol, fmt.Sprintf("cell of %q: width %s, longest line %d cells", s, pf["w"], mc))
				}
			}
			return viol, nil, true
		},
	}
}
