package main

import (
	"sync"
	"fmt"
	"sort"
	"strings"

	"go.pennock.tech/tabular/texttable/decoration"
)

// ---------- C17: registry histories (sequential; the concurrent part is mode=race) ----------

func init() {
	streams["C17"] = stream{
		property:  "C17",
		oracleDoc: "sequential histories of RegisterDecorationName / Named / RegisteredDecorationNames: a lookup returns the last decoration registered under the name, else the empty decoration; the listing is strictly sorted (bytewise), duplicate-free and contains every built-in and every registered name; a text table set to an unknown name reports the error, then RenderTo fails and Render returns no text",
		run: func(g *Gen, c int) ([]string, []string, bool) {
			r := g.r
			var viol []string
			ref := map[string]string{}
			for _, n := range builtinNames() {
				ref[n] = builtinDecorF()[n]
			}
			for n, d := range registeredNames {
				ref[n] = d
			}
			names := []string{fmt.Sprintf("c%d-a", c), fmt.Sprintf("c%d-b", c), fmt.Sprintf("C%d-A", c), fmt.Sprintf("c%d\xffz", c), "utf8-light", fmt.Sprintf("c%d é", c),
				"", // the empty name
				// names that sort after, and before, every name registered so far
				fmt.Sprintf("zz%09d", c), fmt.Sprintf("\xfe%09d", c), fmt.Sprintf(" %09d", 999999999-c), fmt.Sprintf("\x00%09d", 999999999-c)}
			t := g.do("newtable")
			it := g.strItem("x")
			g.do("addheaders " + t + " " + it)
			g.do("addrowitems " + t + " " + it)
			w := g.do("wrap text " + t)
			for i := 0; i < 4+r.n(8); i++ {
				n := r.pick(names)
				switch r.n(5) {
				case 0, 1:
					d := g.customDecor()
					if r.chance(1, 5) {
						// the empty decoration is a value like any other: the name is registered and listed
						d = showDecor(decoration.Decoration{})
					}
					g.do("register " + hx(n) + " " + d)
					ref[n] = d
				case 2:
					got := g.do("named " + hx(n))
					want, ok := ref[n]
					if !ok {
						want = showDecor(decoration.Decoration{})
					}
					if got != want {
						viol = append(viol, fmt.Sprintf("Named(%q) is not the decoration last registered under that name", n))
					}
				case 3:
					got := listOf(g.do("names"))
					var want []string
					for k := range ref {
						want = append(want, k)
					}
					sort.Strings(want)
					var gs []string
					for _, h := range got {
						gs = append(gs, unhx(h))
					}
					if strings.Join(gs, "\x01") != strings.Join(want, "\x01") {
						viol = append(viol, fmt.Sprintf("RegisteredDecorationNames() = %q, registered set sorted is %q", gs, want))
					}
				default:
					name := n
					if r.chance(1, 2) {
						name = fmt.Sprintf("never-registered-%d-%d", c, i)
					}
					res := g.do("setdecornamed " + w + " " + hx(name))
					_, known := ref[name]
					if ref[name] == showDecor(decoration.Decoration{}) {
						known = false // registered with the empty value: selecting it is refused like an unknown name
						pendingKnown = append(pendingKnown, "d21-registered-empty-decoration") // (recorded under C19)
					}
					if (res == "ok") != known {
						viol = append(viol, fmt.Sprintf("SetDecorationNamed(%q) = %s, registered=%v", name, res, known))
					}
					rr := g.do("render " + w)
					cl, _ := parseRes(rr)
					for _, kind := range []string{"buffer", "builder", "bufio"} {
						cl2, f2 := parseRes(g.do("renderbuf " + w + " " + kind))
						if !known && (!strings.HasPrefix(cl2, "err") || (f2["out"] != "-" && f2["out"] != "")) {
							viol = append(viol, fmt.Sprintf("text table set to unknown decoration %q rendered into a %s: %s", name, kind, cl2))
						}
					}
					if !known {
						ar := g.do("autorender " + t + " " + hx(name))
						ca, fa := parseRes(ar)
						if !strings.HasPrefix(ca, "err") || !strings.HasPrefix(fa["res2"], "err") {
							viol = append(viol, fmt.Sprintf("auto.Render/RenderTo with unknown style %q did not fail closed: %s / %s", name, ca, fa["res2"]))
						}
					}
					rs := g.do("renderstr " + w)
					_, f := parseRes(rs)
					if !known {
						if !strings.HasPrefix(cl, "err") {
							viol = append(viol, fmt.Sprintf("text table set to unknown decoration %q rendered: %s", name, cl))
						}
						if f["str"] != "-" {
							viol = append(viol, "Render returned text after an unknown decoration name")
						}
					} else if cl != "ok" {
						viol = append(viol, fmt.Sprintf("text table set to registered decoration %q failed: %s", name, cl))
					}
				}
			}
			return viol, nil, true
		},
	}
}

var (
	builtinDecorOnce sync.Once
	builtinDecorMap  map[string]string
)

func builtinDecorF() map[string]string {
	builtinDecorOnce.Do(func() { builtinDecorMap = builtinDecorInit() })
	return builtinDecorMap
}

func builtinDecorInit() map[string]string {
	m := map[string]string{}
	for _, n := range builtinNames() {
		m[n] = showDecor(decoration.Named(n))
	}
	return m
}

// ---------- C19: style strings ----------

func caseVariant(r *rng, s string) string {
	b := []byte(s)
	for i := range b {
		if b[i] >= 'a' && b[i] <= 'z' && r.chance(1, 2) {
			b[i] -= 32
		}
	}
	out := string(b)
	if r.chance(1, 4) {
		// strings.ToLower is Unicode-aware: KELVIN SIGN folds to k, U+0130 to i
		out = strings.NewReplacer("k", "\u212a", "K", "\u212a").Replace(out)
	}
	return out
}

func init() {
	subpkgs := []string{"csv", "html", "json", "markdown", "texttable"}
	plain := func(reg map[string]bool, n string) (bool, string) {
		if strings.Contains(n, ".") {
			return false, "d21-dotted-decoration-name"
		}
		for _, s := range subpkgs {
			if strings.ToLower(n) == s {
				return false, "d21-name-folds-to-subpackage"
			}
		}
		if decoration.Named(n) == decoration.EmptyDecoration {
			return false, "d21-registered-empty-decoration"
		}
		return true, ""
	}
	streams["C19"] = stream{
		property:  "C19",
		oracleDoc: "every name in ListStyles() is accepted by auto and renders a well-formed table without error (names outside the plain class are the three recorded findings); the listing is sorted and contains csv/html/json/markdown and every registered decoration; sub-package names match case-insensitively and ignore trailing sections; texttable.NAME and NAME resolve alike; texttable alone is the default decoration; unknown names fail to render",
		run: func(g *Gen, c int) ([]string, []string, bool) {
			r := g.r
			var viol, known []string
			// extend the registry: mostly plain names, sometimes the three hostile classes
			nreg := r.n(3)
			if c%40 == 5 {
				nreg = 1 + r.n(2)
			}
			var mine []string // what this case registers: each is rendered below, not left to the sampling
			if c%40 == 7 {
				nreg++
			}
			for i := 0; i < nreg; i++ {
				n := fmt.Sprintf("style%d-%d", c, i)
				if r.chance(1, 3) {
					n = fmt.Sprintf("Corp-Style%d-%d", c, i) // plain names may contain upper-case letters
				}
				if c%40 == 5 && i == 0 {
					n = "" // the empty string is a name like any other: registered, listed, selectable
				}
				k := r.n(12)
				if c%40 == 7 && i == nreg-1 {
					k = 3
				}
				mine = append(mine, n)
				switch k {
				case 0:
					n = fmt.Sprintf("my.style%d", c)
					mine[len(mine)-1] = n
				case 1:
					n = caseVariant(r, r.pick(subpkgs[:4]))
					if n == strings.ToLower(n) {
						n = strings.ToUpper(n)
					}
					mine[len(mine)-1] = n
				case 2:
					g.do("register " + hx(n) + " " + showDecor(decoration.Decoration{}))
					continue
				case 3:
					// only the template fields that no renderer reads, never completed by Populate: not the
					// empty decoration, so a registered name like any other (it draws no lines at all)
					g.do("register " + hx(n) + " " + showDecor(decoration.Decoration{Horizontal: "-", Vertical: "|", TopDown: r.pick([]string{"", "+"}), VBorder: r.pick([]string{"", "|"})}))
					continue
				}
				g.do("register " + hx(n) + " " + g.customDecor())
			}
			t := g.do("newtable")
			a, b := g.strItem("h1"), g.strItem("h2")
			g.do("addheaders " + t + " " + joinC([]string{a, b}))
			g.do("addrowitems " + t + " " + joinC([]string{g.strItem("x"), g.strItem("y z")}))
			styles := g.listStyles()
			if !sort.StringsAreSorted(styles) {
				viol = append(viol, "ListStyles() is not sorted")
			}
			have := map[string]bool{}
			for _, s := range styles {
				have[s] = true
			}
			expect := append([]string{"csv", "html", "json", "markdown"}, builtinNames()...)
			for n := range registeredNames {
				expect = append(expect, n)
			}
			for _, s := range expect {
				if !have[s] {
					viol = append(viol, fmt.Sprintf("ListStyles() omits %q", s))
				}
			}
			if len(styles) != len(expect) {
				viol = append(viol, fmt.Sprintf("ListStyles() has %d entries, %d names are registered or built in", len(styles), len(expect)))
			}
			// the listing is stable when asked again
			if again := g.listStyles(); strings.Join(again, "\x00") != strings.Join(styles, "\x00") {
				viol = append(viol, "ListStyles() differs between two consecutive calls")
			}
			render := func(style string) (kind string, class string, out string) {
				res := g.do("autowrap " + t + " " + hx(style))
				p := strings.Fields(res)
				_, f := parseRes(res)
				rr := g.do("render " + p[0])
				cl, rf := parseRes(rr)
				return f["kind"], cl, rf["out"]
			}
			// every listed style works (sample a few per case; all over the run)
			for i := 0; i < 4 && len(styles) > 0; i++ {
				s := styles[r.n(len(styles))]
				_, cl, _ := render(s)
				if cl != "ok" {
					if ok, tag := plain(have, s); !ok && !(s == "csv" || s == "html" || s == "json" || s == "markdown") {
						known = append(known, tag)
					} else {
						viol = append(viol, fmt.Sprintf("listed style %q does not render: %s", s, cl))
					}
				}
			}
			for _, s := range mine {
				if _, cl, _ := render(s); cl != "ok" {
					if ok, tag := plain(have, s); !ok {
						known = append(known, tag)
					} else {
						viol = append(viol, fmt.Sprintf("registered style %q does not render: %s", s, cl))
					}
				}
			}
			// sub-package names: case-insensitive, trailing sections ignored
			sp := subpkgs[r.n(4)]
			k1, c1, o1 := render(sp)
			k2, c2, o2 := render(caseVariant(r, sp) + "." + r.text(alphaPlain, 2) + ".zz")
			if k1 != sp && !(sp == "texttable") {
				viol = append(viol, fmt.Sprintf("style %q selected renderer %s", sp, k1))
			}
			if k1 != k2 || c1 != c2 || o1 != o2 {
				viol = append(viol, fmt.Sprintf("case variant / trailing sections of %q resolve differently", sp))
			}
			// not a case variant: LONG S does not fold to s (correspondence only, no expectation)
			render(strings.NewReplacer("s", "\u017f").Replace(sp))
			// texttable.NAME == NAME for plain names
			names := decoration.RegisteredDecorationNames()
			n := names[r.n(len(names))]
			if ok, tag := plain(have, n); !ok && tag == "d21-name-folds-to-subpackage" {
				ka, _, _ := render(n)
				kb, _, _ := render("texttable." + n)
				if ka != kb {
					known = append(known, tag)
				}
			} else if ok {
				_, ca, oa := render(n)
				_, cb, ob := render("texttable." + n)
				if ca != cb || oa != ob {
					viol = append(viol, fmt.Sprintf("%q and texttable.%s resolve differently", n, n))
				}
				_, cc, oc := render("TextTable." + n + ".ignored")
				if ca != cc || oa != oc {
					viol = append(viol, fmt.Sprintf("TextTable.%s.ignored resolves differently from %q", n, n))
				}
			}
			// plain texttable: the default decoration
			_, cd, od := render("texttable")
			_, ch, oh := render("utf8-heavy")
			if cd != "ok" || cd != ch || od != oh {
				viol = append(viol, "style texttable is not the default (utf8-heavy) decoration")
			}
			// unknown names fail
			unk := fmt.Sprintf("no-such-style-%d", c)
			if _, cu, _ := render(unk); cu == "ok" {
				viol = append(viol, fmt.Sprintf("unknown style %q rendered", unk))
			}
			if _, cu, _ := render("texttable." + unk); cu == "ok" {
				viol = append(viol, fmt.Sprintf("unknown style texttable.%s rendered", unk))
			}
			return viol, known, true
		},
	}
}
