package main

import (
	"bufio"

	"go.pennock.tech/tabular/texttable/decoration"

	"flag"
	"fmt"
	"os"
)

func main() {
	mode := flag.String("mode", "replay", "replay | gen")
	in := flag.String("in", "", "ops file (replay)")
	outDir := flag.String("out", ".", "output directory: lean.in, go.out")
	flag.Parse()
	switch *mode {
	case "replay":
		f, err := os.Open(*in)
		if err != nil {
			fmt.Fprintln(os.Stderr, err)
			os.Exit(2)
		}
		defer f.Close()
		x := NewExec()
		li, _ := os.Create(*outDir + "/lean.in")
		gout, _ := os.Create(*outDir + "/go.out")
		lw, gw := bufio.NewWriter(li), bufio.NewWriter(gout)
		for _, l := range preamble() {
			fmt.Fprintln(lw, l)
			fmt.Fprintln(gw, "ok")
		}
		sc := bufio.NewScanner(f)
		sc.Buffer(make([]byte, 1<<20), 1<<26)
		for sc.Scan() {
			lean, out := x.Do(sc.Text())
			for i := range lean {
				fmt.Fprintln(lw, lean[i])
				fmt.Fprintln(gw, out[i])
			}
		}
		lw.Flush()
		gw.Flush()
	}
}

// preamble tells the driver the registry's initial content and the default decoration.
func preamble() []string {
	var out []string
	out = append(out, "heavy "+showDecor(decoration.UTF8BoxHeavy()))
	for _, n := range decoration.RegisteredDecorationNames() {
		out = append(out, fmt.Sprintf("reginit %s %s", hx(n), showDecor(decoration.Named(n))))
	}
	return out
}
