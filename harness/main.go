package main

import (
	"bufio"
	"crypto/sha256"
	"encoding/json"
	"flag"
	"fmt"
	"os"
	"sort"
	"strings"

	"go.pennock.tech/tabular/length"
	"go.pennock.tech/tabular/texttable/decoration"
)

// preamble tells the driver the registry's initial content and the default decoration.
func preamble() []string {
	var out []string
	out = append(out, "heavy "+showDecor(decoration.UTF8BoxHeavy()))
	for _, n := range decoration.RegisteredDecorationNames() {
		out = append(out, fmt.Sprintf("reginit %s %s", hx(n), showDecor(decoration.Named(n))))
	}
	return out
}

type caseInfo struct {
	Case       int      `json:"case"`
	FirstLine  int      `json:"first_line"` // 1-based line in lean.in / go.out
	LastLine   int      `json:"last_line"`
	Violations []string `json:"violations,omitempty"`
	Known      []string `json:"known,omitempty"`
	Panics     int      `json:"panics,omitempty"`
}

type report struct {
	Property    string         `json:"property"`
	Stream      string         `json:"stream"`
	Seed        int64          `json:"seed"`
	Cases       int            `json:"cases"`
	Distinct    int            `json:"distinct_nontrivial"`
	Lines       int            `json:"lines"`
	Stats       map[string]int `json:"stats"`
	Samples     [][]string     `json:"samples"`
	Violating   []caseInfo     `json:"violating"`
	KnownHits   map[string]int `json:"known_hits"`
	CaseIndex   []caseInfo     `json:"-"`
	OracleRules string         `json:"oracle"`
}

func main() {
	mode := flag.String("mode", "gen", "replay | gen")
	in := flag.String("in", "", "ops file (replay)")
	outDir := flag.String("out", ".", "output directory: lean.in, go.out, go.ops, report.json, cases.idx")
	prop := flag.String("prop", "", "property stream, e.g. C05")
	seed := flag.Int64("seed", 1, "VERIF_SEED")
	n := flag.Int("n", 100, "number of cases")
	from := flag.Int("from", 0, "first case number")
	flag.Parse()
	if *mode == "race" {
		raceMain(*prop, *seed, 8, *n, *outDir)
		return
	}
	if *mode == "decorations" {
		if err := os.WriteFile(*outDir+"/Decorations.lean", []byte(decorationsLean()), 0o644); err != nil {
			fmt.Fprintln(os.Stderr, err)
			os.Exit(1)
		}
		return
	}
	li, _ := os.Create(*outDir + "/lean.in")
	gout, _ := os.Create(*outDir + "/go.out")
	gops, _ := os.Create(*outDir + "/go.ops")
	lw, gw, ow := bufio.NewWriterSize(li, 1<<20), bufio.NewWriterSize(gout, 1<<20), bufio.NewWriterSize(gops, 1<<20)
	defer func() { lw.Flush(); gw.Flush(); ow.Flush(); writeCoverage() }()
	lineNo := 0
	emit := func(lean, out []string) {
		for i := range lean {
			fmt.Fprintln(lw, lean[i])
			fmt.Fprintln(gw, out[i])
			lineNo++
		}
	}
	pre := preamble()
	ok := make([]string, len(pre))
	for i := range ok {
		ok[i] = "ok"
	}
	emit(pre, ok)
	x := NewExec()
	switch *mode {
	case "replay":
		f, err := os.Open(*in)
		if err != nil {
			fmt.Fprintln(os.Stderr, err)
			os.Exit(2)
		}
		defer f.Close()
		sc := bufio.NewScanner(f)
		sc.Buffer(make([]byte, 1<<20), 1<<26)
		g := &Gen{x: x, r: &rng{1}, stats: map[string]int{}, mid: map[string][]string{}}
		for sc.Scan() {
			l := sc.Text()
			if strings.HasPrefix(l, "#") {
				continue
			}
			g.do(l)
		}
		emit(g.leanIn, g.goOut)
		// the property oracle of the recorded stream, if named in the file header
		if *prop != "" {
			if st, okk := streams[*prop]; okk && st.oracleOnly != nil {
				v, k := st.oracleOnly(g)
				rep := map[string]interface{}{"violations": v, "known": k}
				b, _ := json.MarshalIndent(rep, "", " ")
				os.WriteFile(*outDir+"/oracle.json", b, 0o644)
			}
		}
	case "gen":
		st, okk := streams[*prop]
		if !okk {
			fmt.Fprintln(os.Stderr, "unknown stream", *prop)
			os.Exit(2)
		}
		rep := report{Property: st.property, Stream: *prop, Seed: *seed, Stats: map[string]int{}, KnownHits: map[string]int{}, OracleRules: st.oracleDoc}
		seen := map[[32]byte]bool{}
		idx, _ := os.Create(*outDir + "/cases.idx")
		iw := bufio.NewWriter(idx)
		defer iw.Flush()
		for c := *from; c < *from+*n; c++ {
			g := &Gen{x: x, r: &rng{mixSeed(*seed, *prop, c)}, stats: rep.Stats, mid: map[string][]string{}}
			g.do(fmt.Sprintf("case %d", c))
			pendingKnown = nil
			viol, known, nontrivial := st.run(g, c)
			for _, k := range pendingKnown {
				dup := false
				for _, k2 := range known {
					dup = dup || k2 == k
				}
				if !dup {
					known = append(known, k)
				}
			}
			first := lineNo + 1
			emit(g.leanIn, g.goOut)
			for _, l := range g.goOps {
				fmt.Fprintln(ow, l)
			}
			fmt.Fprintf(iw, "%d %d %d\n", c, first, lineNo)
			h := sha256.Sum256([]byte(strings.Join(g.goOps[1:], "\n")))
			if nontrivial && !seen[h] {
				seen[h] = true
				rep.Distinct++
			}
			rep.Cases++
			if len(rep.Samples) < 3 && nontrivial && len(g.goOps) < 60 {
				rep.Samples = append(rep.Samples, g.goOps)
			}
			for _, k := range known {
				rep.KnownHits[k]++
			}
			if len(viol) > 0 {
				rep.Violating = append(rep.Violating, caseInfo{Case: c, FirstLine: first, LastLine: lineNo, Violations: viol, Known: known})
			}
		}
		rep.Lines = lineNo
		keys := make([]string, 0, len(rep.Stats))
		for k := range rep.Stats {
			keys = append(keys, k)
		}
		sort.Strings(keys)
		b, _ := json.MarshalIndent(rep, "", " ")
		os.WriteFile(*outDir+"/report.json", b, 0o644)
	}
}

// decorationsLean dumps the decorations registered at init (by running the real code) with every
// glyph field as bytes and the library's own measured width of each glyph.
func decorationsLean() string {
	var b strings.Builder
	b.WriteString("-- GENERATED by harness -mode decorations (a run of /repo's code) on every check; do not edit.\nimport Tabmodel.Model.Decoration\nnamespace Tab.Generated\n")
	bytesLit := func(s string) string {
		var l []string
		for i := 0; i < len(s); i++ {
			l = append(l, fmt.Sprint(s[i]))
		}
		return "[" + strings.Join(l, ", ") + "]"
	}
	fieldNames := []string{"horizontal", "vertical", "crossPiece", "topDown", "vBorder", "hOuter", "hRule", "vHeader", "vBodyBorder", "vBodyInner", "topLeft", "topRight", "bottomLeft", "bottomRight", "leftBodyRule", "rightBodyRule", "hTopDown", "bTopDown", "bBottomUp", "hBCross", "hBLeft", "hBRight"}
	decorLit := func(d decoration.Decoration) string {
		var l []string
		for i, f := range decorFields(&d) {
			l = append(l, fmt.Sprintf("%s := %s", fieldNames[i], bytesLit(*f)))
		}
		l = append(l, fmt.Sprintf("isBoxless := %v", isBoxless(d)))
		return "{ " + strings.Join(l, ", ") + " }"
	}
	names := decoration.RegisteredDecorationNames()
	b.WriteString("/-- (name, decoration) for every name registered at init, in listing order -/\ndef builtins : List (Bytes × Decoration) := [\n")
	for i, n := range names {
		sep := ","
		if i == len(names)-1 {
			sep = ""
		}
		fmt.Fprintf(&b, "  (%s, %s)%s\n", bytesLit(n), decorLit(decoration.Named(n)), sep)
	}
	b.WriteString("]\n\n/-- texttable's default decoration (UTF8BoxHeavy()) -/\n")
	fmt.Fprintf(&b, "def heavy : Decoration := %s\n\n", decorLit(decoration.UTF8BoxHeavy()))
	b.WriteString("/-- length.StringCells of every distinct glyph used by a built-in, measured by the library -/\ndef glyphWidths : List (Bytes × Nat) := [\n")
	seen := map[string]bool{}
	var gl []string
	for _, n := range names {
		d := decoration.Named(n)
		for _, f := range decorFields(&d) {
			if !seen[*f] {
				seen[*f] = true
				gl = append(gl, *f)
			}
		}
	}
	sort.Strings(gl)
	for i, g := range gl {
		sep := ","
		if i == len(gl)-1 {
			sep = ""
		}
		fmt.Fprintf(&b, "  (%s, %d)%s\n", bytesLit(g), length.StringCells(g), sep)
	}
	b.WriteString("]\nend Tab.Generated\n")
	return b.String()
}
