package main

import (
	"fmt"
	"strings"

	"go.pennock.tech/tabular/texttable/decoration"
)

func hasRows(g *Gen, t string) bool {
	tb := g.x.tables[idOf(t)]
	return tb.NRows() > 0 || tb.Headers() != nil
}

var alignVals = []string{"a1", "a2", "a3", "nil"}
var skipVals = []string{"b0", "b1", "nil"}

// a random custom decoration: some glyph fields set (single-width), then Populate
func (g *Gen) customDecor() string {
	r := g.r
	glyphs := []string{"-", "|", "+", "=", "#", "*", "~", ":", "─", "│", "┼", "╬", "•", "o", "."}
	var d decoration.Decoration
	fs := decorFields(&d)
	for i := range fs {
		if r.chance(1, 3) {
			*fs[i] = r.pick(glyphs)
		}
	}
	if r.chance(1, 12) {
		// a glyph that is not one cell wide: two characters, a full-width one, a zero-width one
		*fs[r.n(3)] = r.pick([]string{"==", "－", "║║", "\u200b", "ab"})
	}
	return g.do("populate " + showDecor(d))
}

func (g *Gen) registeredNames() []string {
	return decoration.RegisteredDecorationNames()
}

// ---------- C15: faulty writers ----------

func runFaults(g *Gen, w string, kind string) (viol []string) {
	res := g.do("render " + w)
	class, f := parseRes(res)
	if class == "PANIC" || res == "PANIC" {
		return []string{kind + " render panicked: " + lastPanic}
	}
	full := unhx(f["out"])
	n := len(lastChunks[idOf(w)])
	ks := []int{}
	if n <= 24 {
		for k := 0; k <= n; k++ {
			ks = append(ks, k)
		}
	} else {
		for i := 0; i < 24; i++ {
			ks = append(ks, g.r.n(n+1))
		}
	}
	for _, k := range ks {
		for _, mode := range []string{"from", "only", "partial"} {
			script := fmt.Sprintf("%s:%d", mode, k)
			if mode == "partial" {
				script += fmt.Sprintf(":%d", g.r.n(6))
			}
			fr := g.do("frender " + w + " " + script)
			if fr == "PANIC" {
				viol = append(viol, fmt.Sprintf("%s RenderTo panicked with writer script %s: %s", kind, script, lastPanic))
				continue
			}
			fc, ff := parseRes(fr)
			acc := unhx(ff["acc"])
			if !strings.HasPrefix(full, acc) {
				viol = append(viol, fmt.Sprintf("%s with writer script %s: accepted bytes are not a prefix of the fault-free output", kind, script))
			}
			if k < n && class == "ok" && fc == "ok" {
				viol = append(viol, fmt.Sprintf("%s with writer script %s (of %d writes): RenderTo returned nil", kind, script, n))
			}
		}
	}
	return
}

func init() {
	streams["C15"] = stream{
		property:  "C15",
		oracleDoc: "for every write index k of the fault-free run and modes {from k, only k, partial at k}: RenderTo returns a non-nil error, does not panic, and the bytes accepted are a prefix of the fault-free output",
		run: func(g *Gen, c int) ([]string, []string, bool) {
			kind := []string{"csv", "json", "markdown", "text", "html"}[c%5]
			o := tableOpts{alpha: alphaPlain, parts: 3, maxCols: 3, maxRows: 4, headerMode: 0, postAdd: true}
			if kind == "json" || kind == "markdown" || g.r.chance(1, 2) {
				o.headerMode = 1
			}
			if g.r.chance(1, 3) {
				o.alpha = alphaText
			}
			t := g.buildTable(o)
			w := g.do("wrap " + kind + " " + t)
			if kind == "text" && g.r.chance(1, 2) {
				g.do("setdecornamed " + w + " " + hx(g.r.pick(g.registeredNames())))
			}
			viol := runFaults(g, w, kind)
			return viol, nil, hasRows(g, t)
		},
	}
}

// ---------- text tables (C03, C04), html, json, markdown: correspondence streams; oracles in p_oracles.go ----------

func init() {
	textStream := func(sizes bool, d20 bool) func(g *Gen, c int) ([]string, []string, bool) {
		return func(g *Gen, c int) ([]string, []string, bool) {
			alpha := alphaText
			if d20 {
				alpha = append(append([]string{}, alphaText...), alphaD20...)
			}
			o := tableOpts{alpha: alpha, parts: 4, maxCols: 4, maxRows: 5, sizeItems: sizes, postAdd: true}
			if c%3 == 0 {
				o.alpha = append(append([]string{}, alpha...), alphaPlain...)
			}
			if c%2 == 1 {
				o.midRender = []string{"text"}
			}
			var t string
			if c%6 == 0 && !d20 {
				// padding sweep: one wide line per column, next to short, empty and missing ones, so that every
				// padding length from 1 up to 150 occurs on the left, on the right and split around a centred text
				t = g.do("newtable")
				w1, w2 := 1+(c/6)%150, 1+(c/6*7)%150
				g.do("addheaders " + t + " " + joinC([]string{g.strItem("h"), g.strItem("")}))
				g.do("addrowitems " + t + " " + joinC([]string{g.strItem(strings.Repeat("x", w1)), g.strItem(g.r.pick([]string{"", "a", "ab"}))}))
				g.do("addrowitems " + t + " " + joinC([]string{g.strItem(g.r.pick([]string{"", "a", "ab", "世"})), g.strItem(strings.Repeat("-", w2) + "\nz")}))
				g.do("addrowitems " + t + " " + g.strItem("q"))
			} else {
				if c%6 == 3 {
					o.earlyProp = "align"
				}
				t = g.buildTable(o)
				if o.earlyProp != "" {
					g.retireDefault(t, "align")
				}
			}
			if sizes || g.r.chance(1, 2) {
				g.assignProps(t, "align", alignVals)
			}
			if g.r.chance(1, 5) {
				g.assignPropsAtRender(t, "align", []string{"a1", "a2", "a3"})
			}
			var w string
			if len(g.mid[t]) > 0 {
				w = g.mid[t][0]
			} else {
				w = g.do("wrap text " + t)
			}
			var viol, known []string
			check := func(decorDesc string) {
				res := g.do("render " + w)
				v, k := oracleText(g, t, w, res, sizes)
				for _, m := range v {
					viol = append(viol, decorDesc+": "+m)
				}
				known = append(known, k...)
			}
			check("utf8-heavy(default)")
			names := g.registeredNames()
			for i := 0; i < 2; i++ {
				n := g.r.pick(names)
				g.do("setdecornamed " + w + " " + hx(n))
				check(n)
			}
			if g.r.chance(1, 2) {
				d := g.customDecor()
				g.do("setdecor " + w + " " + d)
				check("custom")
			}
			return viol, known, hasRows(g, t)
		}
	}
	streams["C03"] = stream{property: "C03", run: textStream(false, false),
		oracleDoc: "split the real output on LF; every line's display width (length.StringCells) equal; column widths recomputed from cell texts; dividers at equal display offsets; line multiplicities (top, header block, per-row tallest cell, separators, bottom); boxless: content lines only"}
	streams["C03D20"] = stream{property: "C03", run: textStream(false, true),
		oracleDoc: "as C03 over an alphabet that includes go-runewidth cluster-with-padding triggers; whole-line mismatch with equal segment sums is the recorded finding D20"}
	streams["C04"] = stream{property: "C04", run: textStream(true, false),
		oracleDoc: "every slot of every content line rebuilt from the cell's text line, the column width and the effective alignment and compared byte for byte; declared width/height honoured"}

	streams["C06"] = stream{
		property:  "C06",
		oracleDoc: "tokenise the real output into tags and text; tag sequence equals the fixed skeleton for the table's shape; each text / attribute value entity-decodes (html.UnescapeString) to the supplied string; row-class generator calls = 0 then 1-based positions of non-separator rows, once each",
		run: func(g *Gen, c int) ([]string, []string, bool) {
			o := tableOpts{alpha: alphaHTML, parts: 4, maxCols: 4, maxRows: 6, postAdd: true}
			t := g.buildTable(o)
			if g.r.chance(1, 8) {
				if rows := g.x.tables[idOf(t)].AllRows(); len(rows) > 0 {
					g.do(fmt.Sprintf("addrow %s R%d", t, g.x.rowID[rows[g.r.n(len(rows))]]))
				}
			}
			w := g.do("wrap html " + t)
			r := g.r
			args := ""
			if r.chance(1, 2) {
				args += " id=" + hx(r.text(alphaHTML, 3))
			}
			if r.chance(1, 2) {
				args += " cls=" + hx(r.text(alphaHTML, 3))
			}
			if r.chance(1, 2) {
				args += " cap=" + hx(r.text(alphaHTML, 4))
			}
			if r.chance(1, 4) {
				// a template name of the caller's choosing, set before the first render: no output depends on it
				args += " tn=" + hx(r.pick([]string{"tr", "td", "th", "table", "row", "cell", "T", "tbody", "thead", "Headers", "Rows", "layout", "x{{y}}", "a b", "\x00"}))
			}
			if r.chance(1, 2) {
				var l []string
				for n := 0; n <= g.x.tables[idOf(t)].NRows(); n++ {
					l = append(l, fmt.Sprintf("%d:%s", n, hx(r.text(alphaHTML, 2))))
				}
				args += " rc=" + joinC(l)
			}
			if args != "" {
				g.do("sethtml " + w + args)
			}
			res := g.do("render " + w)
			viol := oracleHTML(g, t, w, res)
			if r.chance(1, 2) { // same wrapper, a different generator (or none, or a first one), rendered again
				args2 := " id=" + hx(g.x.wrappers[idOf(w)].html.id) + " cls=" + hx(g.x.wrappers[idOf(w)].html.cls) + " cap=" + hx(g.x.wrappers[idOf(w)].html.cap)
				if r.chance(3, 4) {
					var l []string
					for n := 0; n <= g.x.tables[idOf(t)].NRows(); n++ {
						l = append(l, fmt.Sprintf("%d:%s", n, hx("second"+r.text(alphaHTML, 1))))
					}
					args2 += " rc=" + joinC(l)
				}
				g.do("sethtml " + w + args2)
				res = g.do("render " + w)
				viol = append(viol, oracleHTML(g, t, w, res)...)
			}
			if r.chance(1, 3) { // same wrapper rendered again after changing the caption
				g.do("sethtml " + w + " cap=" + hx(r.text(alphaHTML, 3)))
				res = g.do("render " + w)
				viol = append(viol, oracleHTML(g, t, w, res)...)
			}
			return viol, nil, hasRows(g, t)
		},
	}

	streams["C07"] = stream{
		property:  "C07",
		oracleDoc: "decode the real output with encoding/json's token reader (order-preserving): an array of one object per non-separator row; keys are header texts; values equal json.Marshal(item) (or of the text when that is {} and the text is non-empty); absent cells and empty skipable cells omitted; the listed header/skipable defects yield an error and Render returns no text",
		run: func(g *Gen, c int) ([]string, []string, bool) {
			o := tableOpts{alpha: append(append([]string{}, alphaHTML...), alphaPlain...), parts: 3, maxCols: 4, maxRows: 6, postAdd: c%3 == 0}
			if c%4 == 2 {
				// header and cell texts that are not valid UTF-8 (a key can only be the header text if the encoder keeps it)
				o.alpha = append(append([]string{}, o.alpha...), "\xff", "\xfe", "caf\xe9", "\xe4\xb8", "\xc0\xaf")
			}
			if g.r.chance(3, 4) {
				o.headerMode = 1
			}
			var t string
			if g.r.chance(1, 6) {
				// headers with a duplicate of an earlier column (often the first one)
				t = g.do("newtable")
				n := 2 + g.r.n(3)
				var hs []string
				for i := 0; i < n; i++ {
					hs = append(hs, g.strItem(fmt.Sprintf("k%d", i)))
				}
				src := 0
				if g.r.chance(1, 3) {
					src = g.r.n(n - 1)
				}
				dst := src + 1 + g.r.n(n-src-1)
				hs[dst] = hs[src]
				g.do("addheaders " + t + " " + joinC(hs))
				for i := 0; i < 1+g.r.n(3); i++ {
					var ids []string
					for j := 0; j < g.r.n(n+1); j++ {
						ids = append(ids, g.anyItem(alphaPlain, 2))
					}
					g.do("addrowitems " + t + " " + joinC(ids))
				}
			} else {
				if c%6 == 3 {
					o.earlyProp = "skip"
				}
				t = g.buildTable(o)
				if o.earlyProp != "" {
					g.retireDefault(t, "skip")
				}
			}
			g.reattach(t, 1, 8)
			if c%6 != 3 || g.r.chance(1, 2) {
				g.assignProps(t, "skip", skipVals)
			}
			if g.r.chance(1, 6) {
				g.assignPropsAtRender(t, "skip", []string{"b0", "b1"})
			}
			if g.r.chance(1, 12) {
				g.do(fmt.Sprintf("setprop c:%d:%d skip u5", idOf(t), g.r.n(g.ncols(t)+1)))
			}
			if c%15 == 7 {
				// every column has its own boolean setting and the defaults column holds something that is no boolean:
				// refused all the same
				for n := 1; n <= g.ncols(t); n++ {
					g.do(fmt.Sprintf("setprop c:%d:%d skip %s", idOf(t), n, g.r.pick([]string{"b0", "b1"})))
				}
				g.do(fmt.Sprintf("setprop c:%d:0 skip %s", idOf(t), g.r.pick([]string{"u5", "a1"})))
			}
			w := g.do("wrap json " + t)
			res := g.do("render " + w)
			viol := oracleJSON(g, t, res)
			rs := g.do("renderstr " + w)
			if cl, f := parseRes(rs); strings.HasPrefix(cl, "err") && f["str"] != "-" && f["str"] != "" {
				viol = append(viol, "Render returned text together with an error")
			}
			return viol, nil, hasRows(g, t)
		},
	}

	streams["C08"] = stream{
		property:  "C08",
		oracleDoc: "split each real output line on pipes not preceded by a backslash: ncols+1 unescaped pipes per line; delimiter cells have >=3 dashes and the colon markers of the effective alignment; trimmed, entity-decoded cells equal the trimmed texts; no raw | LF < > & \" ' from content; no headers / no columns refused",
		run: func(g *Gen, c int) ([]string, []string, bool) {
			o := tableOpts{alpha: alphaMD, parts: 4, maxCols: 4, maxRows: 6, postAdd: true}
			if g.r.chance(3, 4) {
				o.headerMode = 1
			}
			if c%6 == 3 {
				o.earlyProp = "align"
			}
			t := g.buildTable(o)
			if o.earlyProp != "" {
				g.retireDefault(t, "align")
			}
			g.reattach(t, 1, 8)
			if c%6 != 3 || g.r.chance(1, 2) {
				g.assignProps(t, "align", alignVals)
			}
			if g.r.chance(1, 5) {
				g.assignPropsAtRender(t, "align", []string{"a1", "a2", "a3"})
			}
			w := g.do("wrap markdown " + t)
			res := g.do("render " + w)
			viol := oracleMD(g, t, res)
			return viol, nil, hasRows(g, t)
		},
	}
}

// ---------- C09: totality over histories x all renderers x all styles ----------

func init() {
	streams["C09"] = stream{
		property:  "C09",
		oracleDoc: "recover() around every Render/RenderTo of every wrapper kind and auto.Render of every listed style: no panic; a returned error comes with an empty string",
		run: func(g *Gen, c int) ([]string, []string, bool) {
			o := tableOpts{alpha: alphaText, parts: 3, maxCols: 4, maxRows: 6, sizeItems: true, postAdd: true}
			if c%2 == 0 {
				o.alpha = alphaPlain
			}
			if c%3 == 0 {
				o.midRender = []string{"text", "markdown", "csv"}
			}
			hostileSizes := c%4 == 1
			if hostileSizes {
				// few cells, most of them declaring sizes that disagree with their (multi-line) text, always aligned
				o.alpha, o.maxCols, o.maxRows, o.sizeEvery = alphaTextLines, 2, 3, 2
			}
			t := g.buildTable(o)
			if c%5 == 2 {
				// the column count crosses the column list's initial capacity (10) in one step or cell by cell
				var ids []string
				for j := 0; j < 9+g.r.n(5); j++ {
					ids = append(ids, g.strItem("w"))
				}
				switch g.r.n(3) {
				case 0:
					g.do("addrowitems " + t + " " + joinC(ids))
				case 1:
					nr := g.do("appendnewrow " + t)
					for _, id := range ids {
						g.do("rowadd " + nr + " " + id)
					}
				default:
					if g.x.tables[idOf(t)].Headers() == nil {
						g.do("addheaders " + t + " " + joinC(ids))
					} else {
						g.do("addrowitems " + t + " " + joinC(ids))
					}
				}
			}
			if hostileSizes || g.r.chance(1, 3) {
				g.assignProps(t, "align", alignVals)
			}
			if g.r.chance(1, 3) {
				g.assignProps(t, "skip", skipVals)
			}
			var viol []string
			chk := func(what, res string) {
				if res == "PANIC" {
					viol = append(viol, what+" panicked: "+lastPanic)
					return
				}
				cl, f := parseRes(res)
				if strings.HasPrefix(cl, "err") && f["str"] != "" && f["str"] != "-" {
					viol = append(viol, what+": error together with non-empty text")
				}
				if strings.HasPrefix(f["res2"], "PANIC") {
					viol = append(viol, what+" panicked")
				}
			}
			for _, k := range []string{"csv", "json", "markdown", "html", "text"} {
				w := g.do("wrap " + k + " " + t)
				chk(k+" RenderTo", g.do("render "+w))
				chk(k+" RenderTo(stdlib writer)", g.do("renderbuf "+w+" "+g.r.pick([]string{"buffer", "builder", "bufio"})))
				chk(k+" Render", g.do("renderstr "+w))
			}
			for _, s := range g.listStyles() {
				chk("auto.Render style "+s, g.do("autorender "+t+" "+hx(s)))
			}
			// the long-lived wrappers that already rendered while the table was being built
			for _, w := range g.mid[t] {
				chk("long-lived wrapper RenderTo", g.do("render "+w))
				chk("long-lived wrapper Render", g.do("renderstr "+w))
			}
			if len(g.mid[t]) > 0 {
				// widen the table after those renders, then render through the same wrappers again
				var ids []string
				for j := 0; j < g.ncols(t)+1; j++ {
					ids = append(ids, g.strItem("wide"))
				}
				g.do("addrowitems " + t + " " + joinC(ids))
				for _, w := range g.mid[t] {
					chk("long-lived wrapper RenderTo after widening", g.do("render "+w))
				}
			}
			return viol, nil, true
		},
	}
}

func (g *Gen) listStyles() []string {
	res := g.do("liststyles")
	var out []string
	for _, h := range listOf(res) {
		out = append(out, unhx(h))
	}
	return out
}

// ---------- C10: creation paths and wrapper nestings ----------

func init() {
	kinds := []string{"csv", "json", "markdown", "html", "text"}
	streams["C10"] = stream{
		property:  "C10",
		oracleDoc: "for one table content: outputs through the wrapper method, the package-level Render/RenderTo, auto.Render with the corresponding style, and wrappers nested to depth 3 over every creation path are byte-identical per format; Render equals what RenderTo writes",
		run: func(g *Gen, c int) ([]string, []string, bool) {
			r := g.r
			if c%6 == 1 {
				// two tables with the same content and the same user callback (one that reports an error for
				// every cell, registered before anything renders): one created bare and wrapped afterwards —
				// its measuring callback comes after the user's — one created by the sub-package's New, where
				// it comes first.  What created the table must not show in the bytes.
				var viol []string
				k := []string{"text", "markdown"}[(c/6)%2]
				a := g.do("newtable")
				p := strings.Fields(g.do("newvia " + k))
				b, wb := p[0], p[1]
				hs := joinC([]string{g.strItem("h0"), g.strItem("header one")})
				var rows []string
				for i := 0; i < 1+r.n(3); i++ {
					rows = append(rows, joinC([]string{g.anyItem(alphaText, 3), g.anyItem(alphaText, 2)}[:1+r.n(2)]))
				}
				for i, t := range []string{a, b} {
					g.do("addheaders " + t + " " + hs)
					for _, row := range rows {
						g.do("addrowitems " + t + " " + row)
					}
					g.do(fmt.Sprintf("regcb %s t:%d render cell fail:%d:%d", t, idOf(t), 1+i, 100100+i*100))
				}
				wa := g.do("wrap " + k + " " + a)
				for round := 0; round < 2; round++ {
					ca, fa := parseRes(g.do("render " + wa))
					cb, fb := parseRes(g.do("render " + wb))
					if ca != cb || fa["out"] != fb["out"] {
						viol = append(viol, fmt.Sprintf("format %s: a table created bare and wrapped renders differently from the same content created by the sub-package's New (a user callback reports errors)", k))
					}
				}
				return viol, nil, true
			}
			var t, w0 string
			switch r.n(3) {
			case 0:
				t = g.do("newtable")
			case 1:
				res := g.do("newvia " + r.pick(kinds))
				p := strings.Fields(res)
				t, w0 = p[0], p[1]
			default:
				styles := append([]string{"csv", "html", "json", "markdown", "texttable", "CSV", "Json.x"}, g.registeredNames()...)
				res := g.do("autonew " + hx(r.pick(styles)))
				p := strings.Fields(res)
				t, w0 = p[0], p[1]
			}
			// content
			ncols := 1 + r.n(3)
			var hs []string
			for i := 0; i < ncols; i++ {
				hs = append(hs, g.strItem(fmt.Sprintf("h%d", i)))
			}
			g.do("addheaders " + t + " " + joinC(hs))
			for i := 0; i < r.n(4); i++ {
				if r.chance(1, 5) {
					g.do("addsep " + t)
					continue
				}
				var ids []string
				for j := 0; j < r.n(ncols+1); j++ {
					ids = append(ids, g.anyItem(alphaText, 3))
				}
				g.do("addrowitems " + t + " " + joinC(ids))
			}
			// a nest of wrappers
			refs := []string{t}
			if w0 != "" {
				refs = append(refs, w0)
			}
			cur := refs[len(refs)-1]
			depth := r.n(4)
			if c%12 == 0 {
				depth = 8 + r.n(8) // a tower of wrappers
				if c%24 == 0 {
					depth = 33 + r.n(9) // each storey registers its measuring callback on the core table
				}
			}
			storey := ""
			if depth >= 30 {
				storey = []string{"markdown", "text"}[(c/24)%2] // every storey of one measuring kind: its callback piles up before the other kind's first arrives
			}
			for d := 0; d < depth; d++ {
				k := r.pick(kinds)
				if storey != "" {
					k = storey
				}
				if cur[0] == 'T' {
					cur = g.do("wrap " + k + " " + cur)
				} else {
					cur = g.do("rewrap " + k + " " + cur)
				}
				if storey == "" || d%8 == 0 || d == depth-1 {
					refs = append(refs, cur)
				}
			}
			var viol []string
			// a user decoration under a name that lower-casing alters: the wrapper method set to it by name,
			// the bare name and the texttable.-prefixed name through auto must all select the same decoration
			userDecor := ""
			if r.chance(1, 3) {
				userDecor = r.pick([]string{"Boxy", "MyStyle", "ASCII-Simple", "light\xc4", "Utf8-Heavy", "K"})
				g.do("register " + hx(userDecor) + " " + g.customDecor())
			}
			refOut := map[string]string{}
			kept := map[string]string{} // (format, ref) -> the wrapper used in round 0, reused after the change
			for round := 0; round < 2; round++ {
				if round == 1 {
					// change the table after it has been rendered through every path, then compare again:
					// a cell added to a row already in the table, a mutated item re-read, an alignment set
					rows := g.x.tables[idOf(t)].AllRows()
					if len(rows) > 0 && !rows[len(rows)-1].IsSeparator() {
						g.do(fmt.Sprintf("rowadd R%d %s", g.x.rowID[rows[len(rows)-1]], g.anyItem(alphaText, 3)))
					} else {
						nr := g.do("appendnewrow " + t)
						g.do("rowadd " + nr + " " + g.strItem("late"))
					}
					g.do(fmt.Sprintf("setprop c:%d:0 align %s", idOf(t), r.pick([]string{"a2", "a3"})))
					if r.chance(1, 2) { // widen the table past every earlier render
						var ids []string
						for j := 0; j < g.ncols(t)+1+r.n(2); j++ {
							ids = append(ids, g.strItem("w"))
						}
						g.do("addrowitems " + t + " " + joinC(ids))
					}
				}
				for _, k := range kinds {
					base := ""
					cmp := func(what, class, out string) {
						if class == "PANIC" {
							viol = append(viol, what+" panicked: "+lastPanic)
							return
						}
						sig := class + "|" + out
						if class != "ok" {
							sig = class // on error RenderTo may have written a prefix while Render returns nothing
						}
						if base == "" {
							base = sig
						} else if sig != base {
							viol = append(viol, fmt.Sprintf("format %s: %s differs from the first path", k, what))
						}
					}
					for _, ref := range refs {
						w := kept[k+"/"+ref]
						if w == "" {
							if ref[0] == 'T' {
								w = g.do("wrap " + k + " " + ref)
							} else {
								w = g.do("rewrap " + k + " " + ref)
							}
							kept[k+"/"+ref] = w
						}
						byName := k == "text" && userDecor != ""
						if byName {
							g.do("setdecornamed " + w + " " + hx(userDecor))
						}
						cl, f := parseRes(g.do("render " + w))
						cmp("method RenderTo via "+ref, cl, f["out"])
						cl, f = parseRes(g.do("renderstr " + w))
						cmp("method Render via "+ref, cl, f["str"])
						var res string
						if !byName { // the package-level functions render with the default decoration
							res = g.do("prender " + k + " " + ref)
							cl, f = parseRes(res)
							cmp("package Render via "+ref, cl, f["str"])
							cmp("package RenderTo via "+ref, f["res2"], f["out2"])
						}
						style := map[string]string{"csv": "csv", "json": "JSON", "markdown": "markdown.gfm", "html": "Html", "text": "texttable"}[k]
						if k == "text" && r.chance(1, 2) {
							style = "utf8-heavy"
						}
						if byName {
							style = r.pick([]string{"", "texttable.", "TextTable."}) + userDecor
						}
						res = g.do("autorender " + ref + " " + hx(style))
						cl, f = parseRes(res)
						cmp("auto.Render("+style+") via "+ref, cl, f["str"])
						cmp("auto.RenderTo("+style+") via "+ref, f["res2"], f["out2"])
						if ref[0] == 'W' {
							// the wrapper that was handed in is no different for having been wrapped or rendered through
							out := g.do("render " + ref)
							rk := fmt.Sprintf("%d/%s", round, ref)
							if prev, ok := refOut[rk]; ok && prev != out {
								viol = append(viol, fmt.Sprintf("wrapper %s renders differently after being passed to format %s paths", ref, k))
							}
							refOut[rk] = out
						}
					}
				}
			}
			return viol, nil, true
		},
	}
}
