package main

import (
	"fmt"
	"strings"
)

// strictCSV parses RFC 4180 all-fields-quoted records terminated by LF.
func strictCSV(s string) ([][]string, error) {
	var recs [][]string
	i := 0
	for i < len(s) {
		var rec []string
		for {
			if i >= len(s) || s[i] != '"' {
				return nil, fmt.Errorf("field at %d does not open with a quote", i)
			}
			i++
			var f strings.Builder
			for {
				if i >= len(s) {
					return nil, fmt.Errorf("unterminated field")
				}
				if s[i] == '"' {
					if i+1 < len(s) && s[i+1] == '"' {
						f.WriteByte('"')
						i += 2
						continue
					}
					i++
					break
				}
				f.WriteByte(s[i])
				i++
			}
			rec = append(rec, f.String())
			if i >= len(s) {
				return nil, fmt.Errorf("record not terminated by LF")
			}
			if s[i] == ',' {
				i++
				continue
			}
			if s[i] == '\n' {
				i++
				break
			}
			return nil, fmt.Errorf("byte %q after closing quote at %d", s[i], i)
		}
		recs = append(recs, rec)
	}
	return recs, nil
}

// expectedRecords reads the table through its public observers.
func (x *Exec) expectedRecords(t int) [][]string {
	tb := x.tables[t]
	n := tb.NColumns()
	var recs [][]string
	add := func(texts []string) {
		rec := make([]string, n)
		copy(rec, texts)
		recs = append(recs, rec)
	}
	if hs := tb.Headers(); hs != nil {
		var ts []string
		for i := range hs {
			ts = append(ts, hs[i].String())
		}
		add(ts)
	}
	for _, r := range tb.AllRows() {
		if r.IsSeparator() {
			continue
		}
		var ts []string
		for _, c := range r.Cells() {
			ts = append(ts, c.String())
		}
		add(ts)
	}
	return recs
}

func parseRes(res string) (class string, fields map[string]string) {
	fields = map[string]string{}
	if res == "PANIC" { // the whole call panicked: no fields at all
		return "PANIC", fields
	}
	for _, f := range strings.Fields(res) {
		if i := strings.IndexByte(f, '='); i > 0 {
			fields[f[:i]] = f[i+1:]
		}
	}
	return fields["res"], fields
}

func oracleCSV(g *Gen, t string, res string) (viol []string) {
	class, f := parseRes(res)
	tb := g.x.tables[idOf(t)]
	if class == "PANIC" || res == "PANIC" {
		return []string{"csv render panicked: " + lastPanic}
	}
	if tb.NColumns() == 0 {
		if !strings.HasPrefix(class, "err") {
			viol = append(viol, "zero-column table not refused: "+class)
		}
		return
	}
	if class != "ok" {
		return []string{"csv render of a table with columns failed: " + class}
	}
	out := unhx(f["out"])
	recs, err := strictCSV(out)
	if err != nil {
		return []string{"csv output does not parse strictly: " + err.Error()}
	}
	exp := g.x.expectedRecords(idOf(t))
	if len(recs) != len(exp) {
		return []string{fmt.Sprintf("csv: %d records, expected %d", len(recs), len(exp))}
	}
	for i := range recs {
		if len(recs[i]) != tb.NColumns() {
			viol = append(viol, fmt.Sprintf("csv record %d has %d fields, table has %d columns", i, len(recs[i]), tb.NColumns()))
			continue
		}
		for j := range recs[i] {
			if recs[i][j] != exp[i][j] {
				viol = append(viol, fmt.Sprintf("csv record %d field %d = %q, cell text %q", i, j, recs[i][j], exp[i][j]))
			}
		}
	}
	return
}

func init() {
	streams["C05"] = stream{
		property:  "C05",
		oracleDoc: "strict all-quoted RFC 4180 parser (independent of encoding/csv) on the real output; records compared with Headers()/AllRows()/Cells() texts padded to NColumns(); zero columns must be refused",
		run: func(g *Gen, c int) ([]string, []string, bool) {
			o := tableOpts{alpha: alphaCSV, parts: 4, maxCols: 5, maxRows: 7, postAdd: true}
			if c%4 == 1 {
				o.alpha = append(append([]string{}, alphaCSV...), alphaPlain...)
			}
			t := g.buildTable(o)
			g.reattach(t, 1, 10)
			w := g.do("wrap csv " + t)
			res := g.do("render " + w)
			viol := oracleCSV(g, t, res)
			rs := g.do("renderstr " + w)
			if cl, f := parseRes(rs); cl != "ok" && f["str"] != "-" && f["str"] != "" {
				viol = append(viol, "Render returned text together with an error")
			}
			return viol, nil, g.x.tables[idOf(t)].NRows() > 0 || g.x.tables[idOf(t)].Headers() != nil
		},
		oracleOnly: func(g *Gen) ([]string, []string) {
			var viol []string
			for wi, w := range g.x.wrappers {
				if w.kind != "csv" {
					continue
				}
				res := g.do(fmt.Sprintf("render W%d", wi))
				viol = append(viol, oracleCSV(g, fmt.Sprintf("T%d", w.core), res)...)
			}
			return viol, nil
		},
	}
}
