#!/bin/bash
# usage: one_stream.sh <stream> <seed> <n>  -- run one stream through harness and driver, show the first differences
export GOFLAGS=-mod=mod GOPROXY=off GOSUMDB=off GOTOOLCHAIN=local RUNEWIDTH_EASTASIAN=0
V=$(cd "$(dirname "$0")/.." && pwd)
(cd $V/harness && go build -o $V/.work/harness-t .) || exit 1
d=$V/.work/one_$1; mkdir -p $d; cd $d
$V/.work/harness-t -mode gen -prop $1 -seed $2 -n $3 -out . || echo HARNESS-FAIL
$V/lean/.lake/build/bin/driver < lean.in > lean.out
sed -E 's/(res2?=err):[^ ]*/\1/g' go.out > go.n; sed -E 's/(res2?=err):[^ ]*/\1/g' lean.out > lean.n
echo "diff lines: $(diff go.n lean.n | grep -c '^<')"
python3 - <<'PY'
import json
r=json.load(open('report.json'))
v=r['violating'] or []
print('cases',r['cases'],'violating',len(v))
for x in v[:3]: print('  ',x.get('case'),x.get('violations',[''])[:1])
import subprocess
d=subprocess.run("diff go.n lean.n | grep -E '^[0-9]' | head -3",shell=True,capture_output=True,text=True).stdout.split()
idx=[tuple(map(int,l.split())) for l in open('cases.idx')]
lines=open('lean.in').read().split('\n')
go=open('go.n').read().split('\n'); le=open('lean.n').read().split('\n')
for h in d[:2]:
    n=int(h.replace('c',',').replace('a',',').replace('d',',').split(',')[0])
    for c,a,b in idx:
        if a<=n<=b:
            print(f"--- first diff at line {n} (case {c}, lines {a}-{b}): op = {lines[n-1][:200]}")
            print("   go  :",go[n-1][:400]); print("   lean:",le[n-1][:400])
PY
