#!/bin/bash
# re-run every stored seeded change (seeded/<id>/patch.diff) against the check of its property; writes seeded/RESULTS.md
cd "$(dirname "$0")/.."
echo "| seeded change | property check | result | replay kind |" > seeded/RESULTS.md
echo "|---|---|---|---|" >> seeded/RESULTS.md
for d in seeded/C*/; do
  id=$(basename $d)
  prop=${id%%-*}
  [ "$id" = "C06-A" ] && prop=C16
  git -C /repo apply /verif/$d/patch.diff 2>/dev/null || { echo "| $id | $prop | patch does not apply | |" >> seeded/RESULTS.md; continue; }
  out=$(./check $prop 2>&1 | grep -E "VIOLATION" | head -1)
  git -C /repo checkout -q -- .
  if [ -z "$out" ]; then res="MISSED"; kind=""; else res="caught"; kind=$(echo "$out" | grep -q no-failing-input-found && echo "obligation/correspondence broken, no-failing-input-found" || echo "concrete failing input"); fi
  echo "| $id | $prop | $res | $kind |" >> seeded/RESULTS.md
  echo "$id $prop $res $kind"
done
git -C /repo status --short | grep -v '^??' | head -2
