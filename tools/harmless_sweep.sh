#!/bin/bash
# apply each stored behaviour-preserving patch (seeded/harmless-*/patch.diff) to /repo, run every check, restore; any alarm is a false alarm
cd "$(dirname "$0")/.."
export GOFLAGS=-mod=mod GOPROXY=off GOSUMDB=off GOTOOLCHAIN=local RUNEWIDTH_EASTASIAN=0
for d in seeded/harmless-*/; do
  id=$(basename $d)
  git -C /repo apply "$PWD/$d/patch.diff" || { echo "$id: patch does not apply"; continue; }
  out=$(tools/runall.sh 2>&1 | grep -E "FAIL|VIOLATION")
  git -C /repo checkout -q -- .
  if [ -z "$out" ]; then echo "$id: no alarm"; else echo "$id: ALARM"; echo "$out" | cut -c1-200; fi
done
