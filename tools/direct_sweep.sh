#!/bin/bash
# usage: direct_sweep.sh <n> <seed>...   -- run every stream straight through harness+driver (no lake build, no /repo change) and report
export GOFLAGS=-mod=mod GOPROXY=off GOSUMDB=off GOTOOLCHAIN=local RUNEWIDTH_EASTASIAN=0
V=$(cd "$(dirname "$0")/.." && pwd)
n=$1; shift
(cd $V/harness && go build -o $V/.work/harness-t .) || exit 1
for seed in "$@"; do
for p in C01 C02 C03 C03D20 C04 C05 C06 C07 C08 C09 C10 C11 C12 C13 C14 C15 C17 C18 C19 L03 L04 L05 L06 L07 L08 L09 L14 L15 H09 G01 G02 G03 G04 G05 G06 G07 G08 G09 G10 G11 G12 G13 G14 G15 G18 G19 S11 B02 Z03 Z05 Z06 Z07 Z08; do
 ( d=$V/.work/ds_$p; mkdir -p $d; cd $d; $V/.work/harness-t -mode gen -prop $p -seed $seed -n $n -out . >/dev/null 2>&1 || echo "$p seed $seed HARNESS-FAIL"
   $V/lean/.lake/build/bin/driver < lean.in > lean.out
   sed -E 's/(res2?=err):[^ ]*/\1/g' go.out > go.n; sed -E 's/(res2?=err):[^ ]*/\1/g' lean.out > lean.n
   cmp -s go.n lean.n || echo "$p seed $seed DIFF"
   python3 -c "
import json;r=json.load(open('report.json'))
v=r['violating'] or []
if v: print('$p seed $seed viol',len(v),v[0].get('violations',[''])[:1])" ) &
done; wait
done
echo sweep-done
