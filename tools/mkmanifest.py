#!/usr/bin/env python3
"""Regenerate MANIFEST.json from tools/props.py: a property is claimed once all its theorem modules exist."""
import json, os, sys
sys.path.insert(0, os.path.dirname(os.path.abspath(__file__)))
from props import PROPS, COMMON_TRUST
VERIF = os.path.dirname(os.path.dirname(os.path.abspath(__file__)))
checks, missing = [], []
for pid in sorted(PROPS):
    cfg = PROPS[pid]
    ok = all(os.path.exists(os.path.join(VERIF, "lean", *m.split(".")) + ".lean") for m in cfg["modules"])
    if not ok:
        missing.append(pid); continue
    checks.append({
        "property_id": pid,
        "quick_cmd": "./check %s --tier quick" % pid,
        "thorough_cmd": "./check %s --tier thorough" % pid,
        "evidence_file": "evidence/%s.json" % pid,
        "replay_cmd_template": "./check %s --replay {path}" % pid,
        "engine": "lean-model",
        "level_claimed": {"category": "proof", "text": cfg["level_text"], "design_ref": "DESIGN.md section 7, " + pid},
        "level_note": COMMON_TRUST + "; " + "; ".join(cfg.get("assumptions", [])),
        "technique": cfg["technique"],
    })
claimed = [c["property_id"] for c in checks]
m = {
    "version": 1,
    "setup_cmd": "./setup.sh",
    "hooks": {
        "guard": "verif",
        "enable": "go build -tags verif (no hook files exist in /repo: the harness uses only the public API)",
        "baseline_off_cmd": "cd /repo && GOFLAGS=-mod=mod GOPROXY=off GOSUMDB=off GOTOOLCHAIN=local go test -vet=off -count=1 ./...",
        "source_commits": [],
        "add_only": True,
    },
    "engines": [
        {"name": "lean-model", "path": "lean/", "serves_properties": claimed, "kind_free_text": "Lean 4 model of the library (L1, code-shaped: cells, world, renderers, registry) + property theorems (Props/), helper lemmas (Proofs/), regenerated facts (Generated/); compiled core-only driver for the line protocol"},
        {"name": "go-harness", "path": "harness/", "serves_properties": claimed, "kind_free_text": "correspondence harness: runs generated op sequences on the real library in-process and through the model, diffs; direct oracles for failing-input search and replay; race-detector validation for C16/C17"},
        {"name": "extractors", "path": "extract/", "serves_properties": ["C01", "C13", "C15", "C16", "C17"], "kind_free_text": "go/ast fact extractors regenerating lean/Tabmodel/Generated (write sites, type-switch arms, callback schedule, globals) on every run"},
    ],
    "checks": checks,
    "not_applicable": [{"property_id": p, "reason": "under construction in this round: the theorem module for this property has not landed yet (see DESIGN.md); nothing is claimed for it"} for p in missing],
    "notes": "Every check: regenerate facts from /repo, lake build the property's theorem modules, audit axioms, rebuild the Go harness against /repo's working tree, run the correspondence streams and oracles, write evidence. See DESIGN.md.",
}
json.dump(m, open(os.path.join(VERIF, "MANIFEST.json"), "w"), indent=1)
print("claimed:", " ".join(claimed)); print("missing:", " ".join(missing))
