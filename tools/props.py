"""Per-property configuration of ./check: Lean modules, correspondence streams (name, quick case count), notes."""

PROPS = {
    "C05": {
        "modules": ["Tabmodel.Props.C05"],
        "streams": [("C05", 1500)],
        "rule": "tables over the byte-hostile CSV alphabet (quotes, commas, CR, LF, NUL, invalid UTF-8), ragged/zero-cell rows, "
                "optional/empty/short headers, separators anywhere, post-attach Row.Add; a case is non-trivial when the table has a "
                "header or at least one row; distinct = distinct op lists (sha256)",
        "assumptions": ["fmt.Fprint/Fprintln write their operands' concatenation in one Write call (chunking is informational only)"],
    },
}
