#!/bin/bash
# usage: fixcommit.sh "fix: message"  -- run the unedited suite, then commit tracked changes in /repo
set -e
export GOFLAGS=-mod=mod GOPROXY=off GOSUMDB=off GOTOOLCHAIN=local
cd /repo
go build ./... && go vet ./... >/dev/null 2>&1 || { echo "build/vet failed"; go vet ./...; exit 1; }
out=$(go test -count=1 ./... 2>&1) || { echo "$out"; echo TESTS FAILED; exit 1; }
git add -A && git commit -q -m "$1" && git log --oneline | head -1
