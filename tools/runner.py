"""Orchestration of one property check (python3, stdlib only)."""
import fcntl, hashlib, json, os, re, shutil, subprocess, sys, time, glob

VERIF = os.path.dirname(os.path.dirname(os.path.abspath(__file__)))
LEAN = os.path.join(VERIF, "lean")
HARNESS = os.path.join(VERIF, "harness")
WORK = os.path.join(VERIF, ".work")
REPO = "/repo"
ALLOWED_AXIOMS = {"propext", "Classical.choice", "Quot.sound"}
FORBIDDEN = re.compile(r"\b(sorry|admit|native_decide|bv_decide|implemented_by|unsafe)\b|^\s*axiom\s|maxHeartbeats\s+0")

GOENV = dict(os.environ, GOFLAGS="-mod=mod", GOPROXY="off", GOSUMDB="off", GOTOOLCHAIN="local",
             RUNEWIDTH_EASTASIAN="0", CGO_ENABLED=os.environ.get("CGO_ENABLED", "0"))

from props import PROPS  # per-property configuration


def sh(cmd, cwd=None, env=None, timeout=None, inp=None, memlimit=None):
    """Run a command; memlimit (bytes) caps its address space, so that a change to the library which
    makes a render grow without bound ends in a crashed harness (reported), not in an exhausted machine."""
    pre = None
    if memlimit:
        import resource
        def pre():
            resource.setrlimit(resource.RLIMIT_AS, (memlimit, memlimit))
    try:
        p = subprocess.run(cmd, cwd=cwd, env=env, stdout=subprocess.PIPE, stderr=subprocess.STDOUT,
                           timeout=timeout, input=inp, preexec_fn=pre)
    except subprocess.TimeoutExpired as e:
        return 124, (e.stdout or b"").decode("utf-8", "replace") + "\n[timed out after %ss]" % timeout
    return p.returncode, p.stdout.decode("utf-8", "replace")


HARNESS_MEM = 6 << 30    # address-space cap for the (non-race) harness: the largest stream needs well under 1 GiB


class Lock:
    def __init__(self, name):
        os.makedirs(WORK, exist_ok=True)
        self.path = os.path.join(WORK, name)
    def __enter__(self):
        self.f = open(self.path, "w")
        fcntl.flock(self.f, fcntl.LOCK_EX)
    def __exit__(self, *a):
        fcntl.flock(self.f, fcntl.LOCK_UN)
        self.f.close()


def write_if_changed(path, content):
    old = None
    if os.path.exists(path):
        old = open(path).read()
    if old != content:
        with open(path, "w") as f:
            f.write(content)
        return True
    return False


# ---------------------------------------------------------------- build steps

def build_harness(log):
    """go build of the harness and the extractor against /repo's working tree."""
    shutil.copy(os.path.join(REPO, "go.sum"), os.path.join(HARNESS, "go.sum"))
    rc, out = sh(["go", "build", "-tags", "verif", "-o", os.path.join(WORK, "harness"), "."], cwd=HARNESS, env=GOENV, timeout=600)
    log.append(("go build harness", rc, out[-3000:]))
    if rc != 0:
        return False
    rc, out = sh(["go", "build", "-o", os.path.join(WORK, "extract"), "."], cwd=os.path.join(VERIF, "extract"), env=GOENV, timeout=600)
    log.append(("go build extract", rc, out[-3000:]))
    return rc == 0


def regenerate(log):
    """Regenerate lean/Tabmodel/Generated/*.lean from /repo (go/ast extractors + a run of the real code)."""
    gen_dir = os.path.join(LEAN, "Tabmodel", "Generated")
    tmp = os.path.join(WORK, "gen.tmp")
    shutil.rmtree(tmp, ignore_errors=True)
    os.makedirs(tmp)
    rc, out = sh([os.path.join(WORK, "extract"), "-repo", REPO, "-out", tmp], env=GOENV, timeout=300)
    log.append(("extract", rc, out[-3000:]))
    rc2, out2 = sh([os.path.join(WORK, "harness"), "-mode", "decorations", "-out", tmp], env=GOENV, timeout=300)
    log.append(("decorations", rc2, out2[-3000:]))
    info = {}
    for name in sorted(os.listdir(tmp)):
        if name.endswith(".lean"):
            changed = write_if_changed(os.path.join(gen_dir, name), open(os.path.join(tmp, name)).read())
            info[name] = "changed" if changed else "same"
        elif name.endswith(".json"):
            info[name] = json.load(open(os.path.join(tmp, name)))
    shutil.rmtree(tmp, ignore_errors=True)
    return rc == 0 and rc2 == 0, info


def lake_build(targets, log):
    rc, out = sh(["lake", "build"] + targets, cwd=LEAN, timeout=3000)
    errs = [l for l in out.splitlines() if "error" in l.lower()]
    log.append(("lake build " + " ".join(targets), rc, "\n".join(errs[:40]) if rc else "ok"))
    return rc == 0, out


def theorem_names(module_file):
    """Theorem names relative to the root namespace `Tab` (nested `namespace X … end X` blocks are followed)."""
    names, stack = [], []
    for l in open(module_file):
        m = re.match(r"^namespace\s+([A-Za-z0-9_.]+)", l)
        if m:
            stack.append(m.group(1)); continue
        m = re.match(r"^end\s+([A-Za-z0-9_.]+)", l)
        if m and stack and stack[-1] == m.group(1):
            stack.pop(); continue
        m = re.match(r"^\s*theorem\s+([A-Za-z0-9_.']+)", l)
        if m:
            ns = [x for x in stack if x != "Tab"]
            names.append(".".join(ns + [m.group(1)]))
    return names


def forbidden_tokens():
    hits = []
    for path in glob.glob(os.path.join(LEAN, "**", "*.lean"), recursive=True):
        if "/.lake/" in path:
            continue
        in_block = 0
        for i, l in enumerate(open(path), 1):
            s = l
            # strip comments (good enough for our sources: line comments and /- -/ blocks opened at line start)
            if in_block:
                if "-/" in s:
                    in_block = 0
                continue
            if s.lstrip().startswith("/-"):
                if "-/" not in s:
                    in_block = 1
                continue
            s = s.split("--")[0]
            if FORBIDDEN.search(s):
                hits.append("%s:%d: %s" % (os.path.relpath(path, VERIF), i, l.strip()))
    return hits


def axiom_audit(pid, modules, log):
    """#print axioms on every theorem of the property's Props module(s)."""
    thms = []
    for mod in modules:
        f = os.path.join(LEAN, *mod.split(".")) + ".lean"
        for n in theorem_names(f):
            thms.append((mod, n))
    # one audit file per module: some Props modules declare helper names that clash when imported together
    os.makedirs(os.path.join(WORK, "audit"), exist_ok=True)
    rc, out = 0, ""
    for k, mod in enumerate(modules):
        src = "import %s\n" % mod
        src += "".join("#print axioms Tab.%s\n" % n for m, n in thms if m == mod)
        path = os.path.join(WORK, "audit", "Audit_%s_%d_%d.lean" % (pid, os.getpid(), k))
        open(path, "w").write(src)
        rc1, out1 = sh(["lake", "env", "lean", path], cwd=LEAN, timeout=1200)
        os.remove(path)
        rc = rc or rc1
        out += out1 + "\n"
    results = {}
    cur = None
    text = out.replace("\n  ", " ")
    for m in re.finditer(r"'Tab\.([^']+)' (depends on axioms: \[([^\]]*)\]|does not depend on any axioms)", text):
        axs = set(a.strip() for a in (m.group(3) or "").split(",") if a.strip())
        results[m.group(1)] = sorted(axs)
    bad = []
    for _, n in thms:
        if n not in results:
            bad.append((n, "not checked: " + out[-400:]))
        elif not set(results[n]) <= ALLOWED_AXIOMS:
            bad.append((n, "axioms " + ",".join(results[n])))
    log.append(("axiom audit", rc, "%d theorems, %d bad" % (len(thms), len(bad))))
    return thms, results, bad


# ---------------------------------------------------------------- correspondence

def _excused(lin, go, a, i):
    """Is the difference at line i of a case starting at line a outside every property's domain?
    `leftdomain T<k>` taints table k; what is created from a tainted object is tainted (wrappers of it, wrappers
    of those, its rows); a difference is excused only when its operation addresses something tainted (or is the
    global event log).  A bare `leftdomain` taints everything that follows in the case."""
    tainted_t, everything = set(), False
    wt, rt = {}, {}          # wrapper -> its table; row -> the tables it was given to
    for j in range(a, i + 1):
        op = lin[j].decode("utf-8", "replace").split() if j < len(lin) else []
        out = go[j].decode("utf-8", "replace").split() if j < len(go) else []
        if not op:
            continue
        if op[0] == "leftdomain":
            if len(op) > 1:
                tainted_t.add(op[1])
            else:
                everything = True
            continue
        if j == i:
            break
        # who belongs to whom (whenever it was created: a wrapper made before its table left the domain
        # still renders that table)
        if op[0] in ("wrap", "autowrap") and len(op) > 2 and out and out[0].startswith("W"):
            t = op[2] if op[0] == "wrap" else op[1]
            wt[out[0]] = wt.get(t, t)            # wrapping a wrapper reaches the same table
        if op[0] == "rewrap" and len(op) > 2 and out and out[0].startswith("W"):
            wt[out[0]] = wt.get(op[2], op[2])
        if op[0] in ("newvia", "autonew") and len(out) > 1 and out[0].startswith("T") and out[1].startswith("W"):
            wt[out[1]] = out[0]
        if op[0] in ("addrowitems", "addheaders", "appendnewrow", "addsep") and len(op) > 1 and out and out[0].startswith("R"):
            rt.setdefault(out[0], set()).add(op[1])
        if op[0] == "addrow" and len(op) > 2:
            rt.setdefault(op[2], set()).add(op[1])
    tainted_w = {w for w, t in wt.items() if t in tainted_t}
    tainted_r = {r for r, ts in rt.items() if ts & tainted_t}
    if everything:
        return True
    if not tainted_t:
        return False
    op = lin[i].decode("utf-8", "replace") if i < len(lin) else ""
    if op.startswith("events"):
        return True
    toks = re.split(r"[ ,]", op)
    tk = {t[1:] for t in tainted_t}
    rk = {r[1:] for r in tainted_r}
    for t in toks:
        if t in tainted_t or t in tainted_w or t in tainted_r:
            return True
        m = re.match(r"^(t|c):(\d+)", t)
        if m and m.group(2) in tk:
            return True
        m = re.match(r"^(r|x):(\d+)", t)
        if m and m.group(2) in rk:
            return True
        if t.startswith("h:") or t.startswith("y:") or t.startswith("Y"):
            return True   # handles and copies: not tracked, given the benefit of the doubt
    return False


def run_stream(pid, stream, seed, n, first, tag):
    """Generate n cases on the real library, run the model, diff. Returns a dict."""
    d = os.path.join(WORK, "%s-%s-%d" % (pid, tag, os.getpid()))
    shutil.rmtree(d, ignore_errors=True)
    os.makedirs(d)
    t0 = time.time()
    rc, out = sh([os.path.join(WORK, "harness"), "-mode", "gen", "-prop", stream, "-seed", str(seed),
                  "-n", str(n), "-from", str(first), "-out", d], env=GOENV, timeout=3000, memlimit=HARNESS_MEM)
    res = {"dir": d, "stream": stream, "seed": seed, "n": n, "harness_rc": rc, "harness_out": out[-2000:],
           "divergences": [], "report": None}
    if rc != 0:
        return res
    with open(os.path.join(d, "lean.in"), "rb") as fin, open(os.path.join(d, "lean.out"), "wb") as fout:
        p = subprocess.run([os.path.join(LEAN, ".lake", "build", "bin", "driver")], stdin=fin, stdout=fout,
                           stderr=subprocess.PIPE, timeout=3000)
    res["driver_rc"] = p.returncode
    res["report"] = json.load(open(os.path.join(d, "report.json")))
    # diff
    idx = [tuple(map(int, l.split())) for l in open(os.path.join(d, "cases.idx"))]
    # error CLASSES are not compared (wording and wrapping of errors may change harmlessly):
    # only ok / error / panic, which is all the properties speak about
    norm = lambda b: re.sub(rb"(res2?=err):[^ ]*", rb"\1", b)
    go = norm(open(os.path.join(d, "go.out"), "rb").read()).split(b"\n")
    le = norm(open(os.path.join(d, "lean.out"), "rb").read()).split(b"\n")
    lin = None
    drift = 0
    if go != le:
        lin = open(os.path.join(d, "lean.in"), "rb").read().split(b"\n")
        bad_lines = [i for i in range(max(len(go), len(le))) if (go[i] if i < len(go) else None) != (le[i] if i < len(le) else None)]
        seen_cases = set()
        # a case that has issued `leftdomain` has set an input no property speaks about (an alignment
        # value that is not an Alignment, a hand-assembled decoration never completed): from there on a
        # difference between model and code is recorded, not reported
        bounds = {c: (a, b) for (c, a, b) in idx}
        for i in bad_lines:
            ln = i + 1
            case = next((c for (c, a, b) in idx if a <= ln <= b), None)
            if case in seen_cases:
                continue
            seen_cases.add(case)
            if case is not None and _excused(lin, go, bounds[case][0] - 1, i):
                res.setdefault("outside_domain", []).append({"case": case, "line": ln,
                    "op": lin[i].decode("utf-8", "replace")[:300] if i < len(lin) else ""})
                continue
            res["divergences"].append({
                "case": case, "line": ln,
                "op": lin[i].decode("utf-8", "replace")[:2000] if i < len(lin) else "",
                "go": go[i].decode("utf-8", "replace")[:4000] if i < len(go) else "<missing>",
                "lean": le[i].decode("utf-8", "replace")[:4000] if i < len(le) else "<missing>"})
            if len(res["divergences"]) >= 20:
                break
    res["lines"] = len(go)
    res["wall_s"] = time.time() - t0
    return res


def run_race(which, seed, rounds, log):
    """Validation only: goroutines under the race detector (C16 / C17)."""
    with Lock("build.lock"):
        env = dict(GOENV, CGO_ENABLED="1")
        rc, out = sh(["go", "build", "-race", "-o", os.path.join(WORK, "harness-race"), "."], cwd=HARNESS, env=env, timeout=900)
        log.append(("go build -race harness", rc, out[-1500:]))
    if rc != 0:
        return {"built": False, "note": "race-enabled build unavailable: " + out[-300:]}
    d = os.path.join(WORK, "race-%s-%d" % (which, os.getpid()))
    def one(sd, n):
        shutil.rmtree(d, ignore_errors=True); os.makedirs(d)
        rc, out = sh([os.path.join(WORK, "harness-race"), "-mode", "race", "-prop", which, "-seed", str(sd), "-n", str(n), "-out", d],
                     env=dict(GOENV, GORACE="halt_on_error=0 exitcode=66"), timeout=1800)
        info = {"built": True, "rc": rc, "data_race": "DATA RACE" in out, "output_tail": out[-2500:] if rc else ""}
        try:
            info.update(json.load(open(os.path.join(d, "race.json"))))
        except Exception:
            pass
        shutil.rmtree(d, ignore_errors=True)
        return info
    # cold starts first: a race on something initialised at first use (a hand-rolled once, a lazily built
    # table) can only happen once per process, so several fresh processes each get one concurrent first use
    cold = 4 if rounds <= 6 else 16
    for i in range(cold):
        info = one(seed + 1000 + i, 1)
        if info.get("data_race") or info.get("mismatches") or info["rc"] not in (0,):
            info["cold_start"] = i
            log.append(("race validation %s (cold start %d)" % (which, i), info["rc"], "data_race=%s" % info["data_race"]))
            return info
    info = one(seed, rounds)
    info["cold_starts"] = cold
    log.append(("race validation " + which, info["rc"], "data_race=%s" % info["data_race"]))
    return info


def case_ops(run_dir, case):
    """The Go-level op lines of one case."""
    ops, on = [], False
    for l in open(os.path.join(run_dir, "go.ops")):
        l = l.rstrip("\n")
        if l.startswith("case "):
            on = (l == "case %d" % case)
        if on:
            ops.append(l)
    return ops


CREATING = ("case", "item", "newtable", "wrap", "rewrap", "newvia", "autonew", "autowrap", "addheaders", "addrowitems",
            "newrow", "newrowsized", "zerorow", "appendnewrow", "addsep", "copycell", "colhandle", "ecnew", "prender",
            "autorender", "register")


def _replay_diff(stream, ops, d):
    """Run ops on the real library and the model; return (index of first differing op or None, go line, lean line)."""
    open(os.path.join(d, "ops.txt"), "w").write("\n".join(ops) + "\n")
    rc, out = sh([os.path.join(WORK, "harness"), "-mode", "replay", "-in", os.path.join(d, "ops.txt"), "-out", d], env=GOENV, timeout=120, memlimit=HARNESS_MEM)
    if rc != 0:
        return None, "", "", ""
    with open(os.path.join(d, "lean.in"), "rb") as fin, open(os.path.join(d, "lean.out"), "wb") as fout:
        subprocess.run([os.path.join(LEAN, ".lake", "build", "bin", "driver")], stdin=fin, stdout=fout, timeout=120)
    norm = lambda t: re.sub(r"(res2?=err):[^ ]*", r"\1", t)
    go = norm(open(os.path.join(d, "go.out"), errors="replace").read()).split("\n")
    le = norm(open(os.path.join(d, "lean.out"), errors="replace").read()).split("\n")
    lin = open(os.path.join(d, "lean.in"), errors="replace").read().split("\n")
    for i, (a, b) in enumerate(zip(go, le)):
        if a != b:
            return i, a, b, lin[i] if i < len(lin) else ""
    return None, "", "", ""


def shrink_ops(stream, ops):
    """Delta-shrink a diverging case: cut everything after the first differing op, then drop every
    op that creates no object and whose removal keeps the same op diverging. Returns (ops, difference) or None."""
    d = os.path.join(WORK, "shrink-%d" % os.getpid())
    shutil.rmtree(d, ignore_errors=True); os.makedirs(d)
    try:
        r = _replay_diff(stream, ops, d)
        if r[0] is None:
            return None
        # map the differing lean.in line back to an op: replay op by op is costly, so bisect on prefixes
        lo, hi = 1, len(ops)
        while lo < hi:
            mid = (lo + hi) // 2
            if _replay_diff(stream, ops[:mid], d)[0] is not None:
                hi = mid
            else:
                lo = mid + 1
        ops = ops[:lo]
        target = ops[-1]
        i = len(ops) - 2
        budget = 150
        while i >= 1 and budget > 0:
            if ops[i].split(" ")[0] not in CREATING:
                cand = ops[:i] + ops[i + 1:]
                budget -= 1
                rr = _replay_diff(stream, cand, d)
                if rr[0] is not None and cand[-1] == target and rr[3].split(" ")[0] == target.split(" ")[0]:
                    ops = cand
            i -= 1
        rr = _replay_diff(stream, ops, d)
        return ops, {"op": rr[3][:2000], "go": rr[1][:4000], "lean": rr[2][:4000]}
    finally:
        shutil.rmtree(d, ignore_errors=True)


def load_known():
    p = os.path.join(VERIF, "known_findings.json")
    return json.load(open(p)) if os.path.exists(p) else {"findings": []}


def write_replay(pid, kind, detail):
    os.makedirs(os.path.join(VERIF, "replays"), exist_ok=True)
    h = hashlib.sha1(json.dumps(detail, sort_keys=True).encode()).hexdigest()[:10]
    path = os.path.join(VERIF, "replays", "%s-%s-%s.json" % (pid, kind, h))
    json.dump(dict(detail, property=pid, kind=kind), open(path, "w"), indent=1)
    return path


# ---------------------------------------------------------------- replay

def do_replay(pid, path):
    r = json.load(open(path))
    log = []
    with Lock("build.lock"):
        if not build_harness(log):
            print("harness build failed"); return 2
    d = os.path.join(WORK, "replay-%d" % os.getpid())
    shutil.rmtree(d, ignore_errors=True); os.makedirs(d)
    status = 0
    if r.get("ops"):
        open(os.path.join(d, "ops.txt"), "w").write("\n".join(r["ops"]) + "\n")
        rc, out = sh([os.path.join(WORK, "harness"), "-mode", "replay", "-prop", r.get("stream", pid), "-in", os.path.join(d, "ops.txt"), "-out", d], env=GOENV, timeout=600, memlimit=HARNESS_MEM)
        with open(os.path.join(d, "lean.in"), "rb") as fin, open(os.path.join(d, "lean.out"), "wb") as fout:
            subprocess.run([os.path.join(LEAN, ".lake", "build", "bin", "driver")], stdin=fin, stdout=fout)
        norm = lambda t: re.sub(r"(res2?=err):[^ ]*", r"\1", t)
        go = norm(open(os.path.join(d, "go.out")).read()).split("\n")
        le = norm(open(os.path.join(d, "lean.out")).read()).split("\n")
        lin = open(os.path.join(d, "lean.in")).read().split("\n")
        for i, (a, b) in enumerate(zip(go, le)):
            if a != b:
                print("DIVERGES at op: %s\n  go:   %s\n  lean: %s" % (lin[i][:300], a[:600], b[:600]))
                status = 1
                break
        op = os.path.join(d, "oracle.json")
        if os.path.exists(op):
            o = json.load(open(op))
            for v in o.get("violations") or []:
                print("ORACLE: " + v); status = 1
            for k in o.get("known") or []:
                print("KNOWN-FINDING: property=%s %s" % (pid, k))
    else:
        print("replay file names no input: " + json.dumps({k: r[k] for k in r if k != "ops"})[:1500])
        status = 1
    shutil.rmtree(d, ignore_errors=True)
    print("replay: %s" % ("still failing" if status else "passes now"))
    return status


# ---------------------------------------------------------------- main

def main(argv):
    if not argv:
        print(__doc__); return 2
    pid = argv[0]
    tier = os.environ.get("VERIF_TIER", "quick")
    replay = None
    i = 1
    while i < len(argv):
        if argv[i] == "--tier":
            tier = argv[i + 1]; i += 2
        elif argv[i] == "--replay":
            replay = argv[i + 1]; i += 2
        else:
            i += 1
    if pid not in PROPS:
        print("unknown property", pid); return 2
    if replay:
        return do_replay(pid, replay)
    seed = int(os.environ.get("VERIF_SEED", "1"))
    cfg = PROPS[pid]
    t0 = time.time()
    log = []
    broken = []      # (what, detail): proof obligations / extraction that no longer check
    os.makedirs(WORK, exist_ok=True)

    with Lock("build.lock"):
        ok_h = build_harness(log)
        if not ok_h:
            # the harness uses only the public API: if it no longer builds, the API changed under us
            broken.append(("harness-build", log[-1][2]))
            gen_info = {}
        else:
            ok_g, gen_info = regenerate(log)
            if not ok_g:
                broken.append(("extraction", json.dumps(log[-2:])[:2000]))
        targets = cfg["modules"] + ["driver"]
        ok_l, lake_out = lake_build(targets, log)
        if not ok_l:
            errs = [l for l in lake_out.splitlines() if re.search(r"error", l)]
            broken.append(("lake-build", "\n".join(errs[:30])))
        thms, axres, bad = ([], {}, [])
        for mod in [m for m in cfg["modules"] if ".Props." in m]:
            f = os.path.join(LEAN, *mod.split(".")) + ".lean"
            if os.path.exists(f):
                thms += [(mod, n) for n in theorem_names(f)]
        if ok_l:
            thms, axres, bad = axiom_audit(pid, [m for m in cfg["modules"] if ".Props." in m], log)
            for n, why in bad:
                broken.append(("axiom-audit:" + n, why))
        if ok_l and tier == "thorough":
            # independent re-check of the compiled theorem modules
            for mod in [m for m in cfg["modules"] if ".Props." in m]:
                rc, out = sh(["lake", "env", "leanchecker", mod], cwd=LEAN, timeout=3000)
                log.append(("leanchecker " + mod, rc, out[-300:]))
                if rc != 0:
                    broken.append(("leanchecker:" + mod, out[-1500:]))
        forb = forbidden_tokens()
        for h in forb:
            broken.append(("forbidden-token", h))
        # if the library no longer builds the driver, fall back to the last good binary if any
        have_driver = os.path.exists(os.path.join(LEAN, ".lake", "build", "bin", "driver"))

    runs = []
    exhaustive_info = []
    if ok_h and have_driver:
        mult = cfg.get("thorough_mult", 10) if tier == "thorough" else 1
        for (stream, nq, nt) in cfg.get("exhaustive", []):
            # enumerated streams: the case number indexes the space; seeds are irrelevant
            total = nt if tier == "thorough" else nq
            if tier == "thorough" and total > 40000:
                import concurrent.futures as cf
                parts = 8
                step = (total + parts - 1) // parts
                with cf.ThreadPoolExecutor(max_workers=parts) as ex:
                    futs = [ex.submit(run_stream, pid, stream, seed, min(step, total - k * step), k * step, "%s-p%d" % (stream, k)) for k in range(parts) if k * step < total]
                    rs = [f.result() for f in futs]
            else:
                rs = [run_stream(pid, stream, seed, total, 0, stream)]
            for r in rs:
                r["exhaustive"] = True
            runs += rs
            exhaustive_info.append({"stream": stream, "cases": total})
        for (stream, n) in cfg["streams"]:
            if tier == "thorough":
                # several seeds, in parallel processes
                import concurrent.futures as cf
                seeds = [seed + 1000 * k for k in range(8)]
                with cf.ThreadPoolExecutor(max_workers=8) as ex:
                    futs = [ex.submit(run_stream, pid, stream, s, n * mult // 4, 0, "%s-s%d" % (stream, s)) for s in seeds]
                    runs += [f.result() for f in futs]
            else:
                runs.append(run_stream(pid, stream, seed, n, 0, stream))

    race_info = None
    if ok_h and cfg.get("race"):
        race_info = run_race(cfg["race"], seed, 40 if tier == "thorough" else 6, log)
        if race_info.get("data_race") or race_info.get("mismatches"):
            race_replay = write_replay(pid, "race", race_info)
            race_fail = True
        else:
            race_fail = False
    else:
        race_fail = False

    # an open finding is recorded under the property it violates; a stream of another property that runs the
    # same oracle meets it too
    known = [f for f in load_known()["findings"] if f.get("status") == "open" and f.get("match")]
    known_tags = {f["match"]: f for f in known}

    violations = []   # concrete failing inputs (oracle hits not listed as known)
    known_hit = {}
    divergences = []
    total_cases = total_distinct = total_lines = 0
    stats = {}
    samples = []
    for r in runs:
        if r["harness_rc"] != 0 or r["report"] is None:
            broken.append(("harness-run:" + r["stream"], r["harness_out"]))
            continue
        rep = r["report"]
        total_cases += rep["cases"]; total_distinct += rep["distinct_nontrivial"]; total_lines += r["lines"]
        for k, v in (rep.get("stats") or {}).items():
            stats[k] = stats.get(k, 0) + v
        if len(samples) < 3:
            samples += (rep.get("samples") or [])[:2]
        for k, v in (rep.get("known_hits") or {}).items():
            known_hit[k] = known_hit.get(k, 0) + v
        for v in rep.get("violating") or []:
            violations.append((r, v))
        for dv in r["divergences"]:
            divergences.append((r, dv))

    unlisted_known = [k for k in known_hit if k not in known_tags]
    status = 0
    out_lines = []
    for k in sorted(known_hit):
        if k in known_tags:
            if known_tags[k]["property"] == pid:
                out_lines.append("KNOWN-FINDING: property=%s %s" % (pid, known_tags[k]["what"]))
            # (a finding of another property met by a shared oracle is accepted silently: its own check reports it)
    for k in unlisted_known:
        # a classifier fired that the committed file does not list: that is a violation, not a finding
        p = write_replay(pid, "oracle", {"what": "classified as %s but not listed in known_findings.json" % k})
        out_lines.append("VIOLATION property=%s replay=%s" % (pid, os.path.relpath(p, VERIF)))
        status = 1
    if violations:
        r, v = violations[0]
        full = case_ops(r["dir"], v["case"])
        det = {"stream": r["stream"], "seed": r["seed"], "case": v["case"], "what": v["violations"][:10], "ops": full}
        try:
            sh_res = shrink_ops(r["stream"], full) if os.environ.get("VERIF_NOSHRINK") != "1" else None
            if sh_res:
                det["ops_shrunk"] = sh_res[0]
                det["model_vs_implementation"] = sh_res[1]
        except Exception as e:  # shrinking is a convenience, never a reason to fail differently
            det["shrink_error"] = str(e)
        p = write_replay(pid, "oracle", det)
        out_lines.append("VIOLATION property=%s replay=%s" % (pid, os.path.relpath(p, VERIF)))
        status = 1
    elif divergences or broken:
        # the model/code tie or a proof obligation broke and the oracles found no failing input on
        # everything explored: widen the search (oracle only) before giving up
        found = None
        if ok_h and cfg["streams"]:
            for k in range(1, 4):
                for (stream, n) in cfg["streams"]:
                    r = run_stream(pid, stream, seed + 7919 * k, n * 3, 0, "search%d-%s" % (k, stream))
                    runs.append(r)
                    if r["report"] and r["report"].get("violating"):
                        found = (r, r["report"]["violating"][0]); break
                if found:
                    break
        if found:
            r, v = found
            p = write_replay(pid, "oracle", {"stream": r["stream"], "seed": r["seed"], "case": v["case"],
                                             "what": v["violations"][:10], "ops": case_ops(r["dir"], v["case"]),
                                             "broken": [b[0] for b in broken]})
            out_lines.append("VIOLATION property=%s replay=%s" % (pid, os.path.relpath(p, VERIF)))
        else:
            detail = {"broken": [{"what": b[0], "detail": b[1][:3000]} for b in broken]}
            if divergences:
                r, dv = divergences[0]
                detail.update({"stream": r["stream"], "seed": r["seed"], "case": dv["case"],
                               "correspondence": "model and implementation differ", "first_difference": dv,
                               "ops": case_ops(r["dir"], dv["case"]) if dv["case"] is not None else []})
            p = write_replay(pid, "unproved", detail)
            out_lines.append("VIOLATION property=%s replay=%s no-failing-input-found" % (pid, os.path.relpath(p, VERIF)))
        status = 1

    if race_fail:
        # the race run is a concrete failing schedule: it is the replay, whatever else broke
        out_lines = [l for l in out_lines if not l.startswith("VIOLATION")]
        out_lines.append("VIOLATION property=%s replay=%s" % (pid, os.path.relpath(race_replay, VERIF)))
        status = 1
    vio = [l for l in out_lines if l.startswith("VIOLATION")]
    if len(vio) > 1:
        concrete = [l for l in vio if not l.endswith("no-failing-input-found")]
        keep = (concrete or vio)[0]
        out_lines = [l for l in out_lines if not l.startswith("VIOLATION")] + [keep]
    wall = time.time() - t0
    n_thm = len(thms)
    n_gen_obl = len(cfg.get("generated_obligations", []))
    discharged = len([1 for _, n in thms if n in axres and set(axres[n]) <= ALLOWED_AXIOMS]) if not any(b[0] == "lake-build" for b in broken) else 0
    evidence = {
        "property_id": pid, "tier": tier, "seed": seed, "level": "proof",
        "coverage": {
            "obligations": n_thm, "discharged": discharged,
            "checker_cmd": "cd lean && lake build %s && lake env lean <generated #print axioms file>" % " ".join(cfg["modules"]),
            "trusted_base": ["Lean 4.33.0 kernel", "axioms: " + ", ".join(sorted(set(a for n in axres for a in axres[n])) or ["none"]),
                             "hand-written L1 model tied to /repo by the correspondence run below and by regenerated facts",
                             "Go harness (harness/), extractors (extract/), driver parser (lean/Driver.lean)"] + cfg.get("trusted", []),
            "theorems": [{"name": n, "axioms": axres.get(n)} for _, n in thms],
            "generated_facts": gen_info,
            "traces_validated_against_impl": total_cases,
            "evaluations": total_cases, "distinct_nontrivial": total_distinct,
            "rule": cfg.get("rule", ""), "protocol_lines_compared": total_lines,
            "streams": [{"stream": r["stream"], "seed": r["seed"], "cases": (r.get("report") or {}).get("cases"),
                         "lines": r.get("lines"), "wall_s": round(r.get("wall_s", 0), 2),
                         "oracle": ((r.get("report") or {}).get("oracle") or "")[:600]} for r in runs],
            "divergences": len(divergences), "oracle_violations": len(violations),
            "differences_outside_every_property_domain": [o for r in runs for o in r.get("outside_domain", [])][:10],
            "known_findings_hit": known_hit, "input_distribution": stats,
            "samples": samples[:3] or [["(no cases generated)"]],
            "broken_obligations": [b[0] for b in broken],
            "race_validation": race_info,
            "exhaustive_enumerations": exhaustive_info,
            "steps": [{"step": s, "rc": rc, "note": note[:300]} for (s, rc, note) in log],
        },
        "assumptions": cfg.get("assumptions", []),
        "wall_s": round(wall, 2), "violations": 1 if status else 0,
    }
    os.makedirs(os.path.join(VERIF, "evidence"), exist_ok=True)
    json.dump(evidence, open(os.path.join(VERIF, "evidence", pid + ".json"), "w"), indent=1)
    for r in runs:
        shutil.rmtree(r["dir"], ignore_errors=True)
    for l in out_lines:
        print(l)
    print("%s %s tier=%s seed=%d theorems=%d/%d cases=%d distinct=%d lines=%d divergences=%d oracle_hits=%d wall=%.1fs" % (
        pid, "FAIL" if status else "ok", tier, seed, discharged, n_thm, total_cases, total_distinct, total_lines,
        len(divergences), len(violations), wall))
    return status
