#!/bin/bash
# For each fix: commit in /repo: revert it in the working tree, run the checks of the properties it is recorded under, restore.
cd "$(dirname "$0")/.."
python3 - <<'PY' > /tmp/fixlist.txt
import json
kf=json.load(open('/verif/known_findings.json'))
m={}
for f in kf['findings']:
    if f['status']=='fixed':
        m.setdefault(f['commit'],[]).append(f['property'])
for c,ps in m.items():
    print(c," ".join(sorted(set(ps))))
PY
while read c props; do
  if git -C /repo diff $c~1 $c | git -C /repo apply -R 2>/dev/null; then
    for p in $props; do
      if [ -f lean/Tabmodel/Props/$p.lean ]; then
        out=$(./check $p 2>&1 | grep -E "VIOLATION|ok tier|FAIL tier" | tr '\n' ' ')
        echo "$c $p: $out" | cut -c1-260
      else
        echo "$c $p: (not claimed yet)"
      fi
    done
  else
    echo "$c: revert does not apply cleanly"
  fi
  git -C /repo checkout -- . 
done < /tmp/fixlist.txt
git -C /repo status --short | head -3
