#!/bin/bash
# For each `fix:` commit recorded in known_findings.json: revert it (as a patch, in a private universe —
# /repo itself is not touched), run the checks of the properties it is recorded under, and report whether the
# defect is flagged again.
V=$(cd "$(dirname "$0")/.." && pwd)
cd $V
python3 - > .work/fixlist.txt <<'PY'
import json
kf=json.load(open('known_findings.json'))
m={}
for f in kf['findings']:
    if f['status']=='fixed':
        m.setdefault(f['commit'],[]).append(f['property'])
for c,ps in m.items():
    print(c," ".join(sorted(set(ps))))
PY
while read c props; do
  git -C /repo diff $c $c~1 > .work/revert_$c.diff
  if ! git -C /repo apply --check $V/.work/revert_$c.diff 2>/dev/null; then echo "$c: revert does not apply cleanly on the current tree"; continue; fi
  for p in $props; do
    out=$(tools/uni.sh .work/revert_$c.diff $p 2>&1 | grep -E "VIOLATION|ok tier|FAIL tier" | tr '\n' ' ')
    echo "$c $p: $out" | cut -c1-220
  done
  rm -f .work/revert_$c.diff
done < .work/fixlist.txt
