#!/bin/bash
# usage: par_sweep.sh harmless|seeded <shards> [id-glob]
# Runs the stored patches against private copies ("universes": a copy of this directory plus a git
# worktree of /repo under /tmp/u_<k>) in parallel, so that /repo itself is never touched and several
# patches are exercised at once.  harmless: every check must stay silent.  seeded: the check of the
# patch's property must report a violation.  Results: .work/par_<kind>.log (and seeded/RESULTS.md).
kind=$1; shards=${2:-4}; glob=${3:-*}
V=$(cd "$(dirname "$0")/.." && pwd)
export GOFLAGS=-mod=mod GOPROXY=off GOSUMDB=off GOTOOLCHAIN=local RUNEWIDTH_EASTASIAN=0
if [ "$kind" = harmless ]; then ids=$(cd $V/seeded && ls -d harmless-$glob 2>/dev/null); else ids=$(cd $V/seeded && ls -d C$glob 2>/dev/null | grep -v harmless); fi
log=$V/.work/par_$kind.log; : > $log
mk() { # universe k
  u=/tmp/u_$1; rm -rf $u; mkdir -p $u
  # worktree bookkeeping is shared by all universes: one at a time
  flock /tmp/u_worktree.lock sh -c "git -C /repo worktree prune; git -C /repo worktree add -q --detach $u/repo HEAD" || return 1
  rsync -a --exclude .git --exclude .work --exclude replays $V/ $u/verif/
  mkdir -p $u/verif/.work $u/verif/replays
  sed -i "s|^REPO = \"/repo\"|REPO = \"$u/repo\"|" $u/verif/tools/runner.py
  sed -i "s|=> /repo|=> $u/repo|" $u/verif/harness/go.mod
}
runshard() {
  k=$1; shift; u=/tmp/u_$k
  mk $k || { echo "universe $k failed" >> $log; return; }
  for id in "$@"; do
    patch=$V/seeded/$id/patch.diff
    git -C $u/repo apply $patch 2>/dev/null || { echo "$id: patch does not apply" >> $log; continue; }
    if [ "$kind" = harmless ]; then
      out=$(cd $u/verif && tools/runall.sh 2>&1 | grep -E "FAIL|VIOLATION" | cut -c1-220)
      if [ -z "$out" ]; then echo "$id: no alarm" >> $log; else echo "$id: ALARM" >> $log; echo "$out" | sed "s/^/    /" >> $log; fi
    else
      prop=${id%%-*}; [ "$id" = "C06-A" ] && prop=C16
      out=$(cd $u/verif && ./check $prop 2>&1 | grep -E "VIOLATION" | head -1)
      if [ -z "$out" ]; then echo "$id $prop MISSED" >> $log
      else echo "$id $prop caught $(echo "$out" | grep -q no-failing-input-found && echo "obligation/correspondence broken, no-failing-input-found" || echo "concrete failing input")" >> $log; fi
    fi
    git -C $u/repo checkout -q -- . ; git -C $u/repo clean -fdq
  done
  flock /tmp/u_worktree.lock git -C /repo worktree remove --force $u/repo; rm -rf $u
}
i=0; declare -A bucket
for id in $ids; do b=$((i % shards)); bucket[$b]="${bucket[$b]} $id"; i=$((i+1)); done
for b in $(seq 0 $((shards-1))); do [ -n "${bucket[$b]}" ] && runshard $b ${bucket[$b]} & done
wait
sort $log -o $log
if [ "$kind" = seeded ]; then
  { echo "| seeded change | property check | result | replay kind |"; echo "|---|---|---|---|"
    grep -v "^ " $log | awk '{id=$1; p=$2; r=$3; $1="";$2="";$3=""; sub(/^ +/,""); print "| " id " | " p " | " r " | " $0 " |"}'; } > $V/seeded/RESULTS.md
fi
echo "done: $(grep -c . $log) lines in $log"
