#!/bin/bash
# usage: try_seeded.sh <worktree> <A|B> <seed-id> <prop> [more props...]
# 1. confirm in the worktree: suite passes with the patch, demo fails with it, passes without
# 2. apply the patch to /repo, run ./check for the given properties, restore /repo
export GOFLAGS=-mod=mod GOPROXY=off GOSUMDB=off GOTOOLCHAIN=local RUNEWIDTH_EASTASIAN=0
wt=$1; v=$2; sid=$3; shift 3
d=$wt/_seeded/$v
[ -f $d/patch.diff ] || { echo "no patch in $d"; exit 2; }
cd $wt && git checkout -q -- . 
demo=$(ls $d/*_test.go $d/main.go 2>/dev/null | head -1)
place=$(grep -oE '[a-z/]*zz_[a-z_]*test\.go' $d/demo.md | head -1)
[ -z "$place" ] && place=$(grep -oE '[a-z/]+/[a-z_]+_test\.go' $d/demo.md | head -1)
run=$(grep -oE 'go test[^`]*' $d/demo.md | head -1)
echo "== $sid: demo -> $place ; run: $run"
cp $demo $wt/$place
( cd $wt && eval "$run" >/tmp/demo_clean.log 2>&1 ); rc_clean=$?
git -C $wt apply $d/patch.diff || { echo "patch does not apply"; exit 2; }
( cd $wt && go build ./... && go vet ./... >/dev/null 2>&1 ); rc_build=$?
rm -f $wt/$place
( cd $wt && go test -count=1 ./... >/tmp/suite.log 2>&1 ); rc_suite=$?
cp $demo $wt/$place
( cd $wt && eval "$run" >/tmp/demo_mut.log 2>&1 ); rc_mut=$?
rm -f $wt/$place
git -C $wt checkout -q -- .
echo "   build=$rc_build suite=$rc_suite demo_without=$rc_clean demo_with=$rc_mut"
if [ $rc_build -ne 0 ] || [ $rc_suite -ne 0 ] || [ $rc_clean -ne 0 ] || [ $rc_mut -eq 0 ]; then echo "   NOT CONFIRMED"; exit 3; fi
# store
mkdir -p /verif/seeded/$sid && cp $d/patch.diff $d/meta.json $d/demo.md $demo /verif/seeded/$sid/ 2>/dev/null
# the checks run in a private universe (tools/uni.sh): /repo itself is never modified
cd /verif
res=""
for p in "$@"; do
  out=$(tools/uni.sh $d/patch.diff $p 2>&1 | grep -E "VIOLATION|ok tier|FAIL tier|does not apply" | tr '\n' ' ')
  echo "   $p: $out" | cut -c1-300
  res="$res $p:$(echo "$out" | grep -q VIOLATION && echo caught || echo missed)"
done
echo "   RESULT $sid $res"
