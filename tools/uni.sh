#!/bin/bash
# usage: uni.sh <patch.diff|none> <check args...>   e.g. uni.sh seeded/C16-D/patch.diff C16 quick
# Runs ./check in a private universe (/tmp/u_adhoc: fresh copy of this directory + git worktree of /repo)
# with the patch applied there; /repo itself is not touched.
V=$(cd "$(dirname "$0")/.." && pwd)
export GOFLAGS=-mod=mod GOPROXY=off GOSUMDB=off GOTOOLCHAIN=local RUNEWIDTH_EASTASIAN=0
u=/tmp/u_adhoc
patch=$1; shift
if [ ! -d $u/repo ]; then
  mkdir -p $u
  flock /tmp/u_worktree.lock sh -c "git -C /repo worktree prune; git -C /repo worktree add -q --detach $u/repo HEAD" || exit 2
fi
git -C $u/repo checkout -q --detach $(git -C /repo rev-parse HEAD); git -C $u/repo checkout -q -- .; git -C $u/repo clean -fdq
rsync -a --delete --exclude .git --exclude .work --exclude replays $V/ $u/verif/
mkdir -p $u/verif/.work $u/verif/replays
sed -i "s|^REPO = \"/repo\"|REPO = \"$u/repo\"|" $u/verif/tools/runner.py
sed -i "s|=> /repo|=> $u/repo|" $u/verif/harness/go.mod
if [ "$patch" != none ]; then
  case $patch in /*) ;; *) patch=$V/$patch;; esac
  git -C $u/repo apply $patch || { echo "patch does not apply"; exit 2; }
fi
cd $u/verif
if [ "$1" = all ]; then tools/runall.sh 2>&1 | grep -E "ok tier|FAIL|VIOLATION" | cut -c1-200
else ./check "$@" 2>&1 | grep -E "ok tier|FAIL|VIOLATION|KNOWN" | cut -c1-260; fi
git -C $u/repo checkout -q -- .; git -C $u/repo clean -fdq
