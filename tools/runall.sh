#!/bin/bash
# run every claimed check (quick tier by default) and summarise
cd "$(dirname "$0")/.."
tier=${1:-quick}
for p in $(python3 -c "import json;print(' '.join(c['property_id'] for c in json.load(open('MANIFEST.json'))['checks']))"); do
  ./check $p --tier $tier 2>&1 | grep -E "^C[0-9]+ (ok|FAIL)|VIOLATION" 
done
