#!/bin/bash
# How much of the library do the correspondence streams execute?  Builds the harness with -cover over
# every tabular package, runs every stream, prints per-function coverage below 100%.  (Generator
# quality bounds what the correspondence sees; this is evidence for DESIGN.md, not a check.)
cd "$(dirname "$0")/../harness"
export GOFLAGS=-mod=mod GOPROXY=off GOSUMDB=off GOTOOLCHAIN=local RUNEWIDTH_EASTASIAN=0
W=../.work; mkdir -p $W/cov $W/covout; rm -rf $W/cov/*
PK=$(go list -deps . | grep pennock | tr '\n' ',' | sed 's/,$//')
go build -cover -covermode=atomic -coverpkg=verifharness,$PK -o $W/harness-cov . || exit 1
for p in C01 C02 C03 C03D20 C04 C05 C06 C07 C08 C09 C10 C11 C12 C13 C14 C15 C17 C18 C19 L03 L04 L05 L06 L07 L08 L09 L14 L15 X02 H09 G01 G02 G03 G04 G05 G06 G07 G08 G09 G10 G11 G12 G13 G14 G15 G18 G19 S11 B02 Z03 Z05 Z06 Z07 Z08; do
  VERIF_COVDIR=$W/cov GOCOVERDIR=$W/cov $W/harness-cov -mode gen -prop $p -seed ${VERIF_SEED:-1} -n ${1:-300} -out $W/covout >/dev/null 2>&1
done
VERIF_COVDIR=$W/cov GOCOVERDIR=$W/cov $W/harness-cov -mode decorations -out $W/covout >/dev/null 2>&1
go tool covdata percent -i=$W/cov | grep -v verifharness
go tool covdata textfmt -i=$W/cov -o $W/cov.txt
echo "--- functions below 100%:"
go tool cover -func=$W/cov.txt | grep -v "100.0%" | grep -v verifharness
