#!/bin/bash
# usage: try_harmless.sh <worktree> <Pn> <id>: apply a behaviour-preserving patch to /repo, run every check, restore
export GOFLAGS=-mod=mod GOPROXY=off GOSUMDB=off GOTOOLCHAIN=local RUNEWIDTH_EASTASIAN=0
wt=$1; pn=$2; id=$3
d=$wt/_harmless/$pn
git -C /repo apply $d/patch.diff || { echo "$id: patch does not apply"; exit 2; }
( cd /repo && go build ./... && go test -count=1 ./... >/dev/null 2>&1 ) || { echo "$id: suite fails with patch"; git -C /repo checkout -q -- .; exit 2; }
mkdir -p /verif/seeded/harmless-$id && cp $d/patch.diff $d/meta.json /verif/seeded/harmless-$id/
out=$(/verif/tools/runall.sh 2>&1 | grep -E "FAIL|VIOLATION")
git -C /repo checkout -q -- .
git -C /repo status --short | grep -v '^??' | head -2
if [ -z "$out" ]; then echo "$id: no alarm"; else echo "$id: ALARM"; echo "$out" | cut -c1-220; fi
