/-
  What a renderer reads from a table after `InvokeRenderCallbacks`: the render view.
  Renderers are functions of this view; theorems about formats quantify over all views
  (with the structural hypotheses that the world invariant provides).
-/
import Tabmodel.Model.World
import Tabmodel.Model.Emit
namespace Tab

structure RCell where
  text : Bytes
  empty : Bool := false
  json : Option Bytes := none     -- json.Marshal(cell.Item())
  cellWidth : Int := 0            -- texttable CellPropertyExtractDimensions(..).cellWidth
  lws : List WidthString := []    -- texttable CellPropertyExtractLinesWidths
  mdw : Int := 0                  -- markdown CellPropertyExtractWidth
  deriving DecidableEq, Repr, Inhabited

structure RTable where
  ncols : Nat
  header : Option (List RCell)
  rows : List (Option (List RCell))   -- none = separator
  colAlign : List (Option Val)        -- GetProperty(align.PropertyType) of columns 0..ncols
  colSkip : List (Option Val)         -- GetProperty(properties.Skipable) of columns 0..ncols
  deriving DecidableEq, Repr, Inhabited

namespace World

def rcell (w : World) (c : Cell) : RCell :=
  { text := c.str
    empty := c.empty
    json := (w.item c.item).json
    cellWidth := match c.props.get .ttDims with | some (.dims cw _) => cw | _ => 0
    lws := match c.props.get .ttLines with | some (.lws l) => l | _ => []
    mdw := match c.props.get .mdWidth with | some (.mdw x) => x | _ => 0 }

def view (w : World) (t : Nat) : RTable :=
  let tb := w.table t
  { ncols := tb.nColumns
    header := tb.header.map (fun hr => (w.rowCells hr).map w.rcell)
    rows := tb.rows.map (fun r =>
      if (w.row r).isSep then none else some ((w.rowCells r).map w.rcell))
    colAlign := tb.columns.map (·.props.get .align)
    colSkip := tb.columns.map (·.props.get .skipable) }

end World
end Tab
