/- `texttable/decoration`: the Decoration record, Populate, the emitter lines, WidthString alignment. -/
import Tabmodel.Model.View
namespace Tab

structure Decoration where
  horizontal : Bytes := []
  vertical : Bytes := []
  crossPiece : Bytes := []
  topDown : Bytes := []
  vBorder : Bytes := []
  hOuter : Bytes := []
  hRule : Bytes := []
  vHeader : Bytes := []
  vBodyBorder : Bytes := []
  vBodyInner : Bytes := []
  topLeft : Bytes := []
  topRight : Bytes := []
  bottomLeft : Bytes := []
  bottomRight : Bytes := []
  leftBodyRule : Bytes := []
  rightBodyRule : Bytes := []
  hTopDown : Bytes := []
  bTopDown : Bytes := []
  bBottomUp : Bytes := []
  hBCross : Bytes := []
  hBLeft : Bytes := []
  hBRight : Bytes := []
  isBoxless : Bool := false
  deriving DecidableEq, Repr, Inhabited

def emptyDecoration : Decoration := {}

/-- `decorateDefaultTo`: fill when empty -/
def dflt (x src : Bytes) : Bytes := if x.length > 0 then x else src

/-- `Decoration.Populate`, step by step in source order (later steps read earlier results). -/
def Decoration.populate (d : Decoration) : Decoration :=
  let d := { d with horizontal := dflt d.horizontal [72] }
  let d := { d with vertical := dflt d.vertical [86] }
  let d := { d with crossPiece := dflt d.crossPiece [88] }
  let d := { d with topDown := dflt d.topDown d.crossPiece }
  let d := { d with vBorder := dflt d.vBorder d.vertical }
  let d := { d with hOuter := dflt d.hOuter d.horizontal }
  let d := { d with hRule := dflt d.hRule d.horizontal }
  let d := { d with vHeader := dflt d.vHeader d.vBorder }
  let d := { d with vBodyBorder := dflt d.vBodyBorder d.vBorder }
  let d := { d with vBodyInner := dflt d.vBodyInner d.vertical }
  let d := { d with topLeft := dflt d.topLeft d.crossPiece }
  let d := { d with topRight := dflt d.topRight d.crossPiece }
  let d := { d with bottomLeft := dflt d.bottomLeft d.crossPiece }
  let d := { d with bottomRight := dflt d.bottomRight d.crossPiece }
  let d := { d with leftBodyRule := dflt d.leftBodyRule d.crossPiece }
  let d := { d with rightBodyRule := dflt d.rightBodyRule d.crossPiece }
  let d := { d with hTopDown := dflt d.hTopDown d.topDown }
  let d := { d with bTopDown := dflt d.bTopDown d.topDown }
  let d := { d with bBottomUp := dflt d.bBottomUp d.crossPiece }
  let d := { d with hBCross := dflt d.hBCross d.crossPiece }
  let d := { d with hBLeft := dflt d.hBLeft d.leftBodyRule }
  let d := { d with hBRight := dflt d.hBRight d.rightBodyRule }
  d

/-- `WidthString.WithinWidthAligned(available, howAlign)`; `al = 0` is nil. -/
def withinWidthAligned (ws : WidthString) (available : Nat) (al : Nat) : Except Stop Bytes :=
  if ws.w < 0 then .ok (spaces available) else
  let al := if al = 0 then 1 else al
  let pad := ((available : Int) - ws.w).toNat
  if al = 1 then .ok (ws.s ++ spaces pad)
  else if al = 2 then .ok (spaces pad ++ ws.s)
  else if al = 3 then .ok (spaces (pad / 2) ++ ws.s ++ spaces (pad - pad / 2))
  else .error (.panic "unhandled alignment")

/-- `emitter.commonTemplateLine` (eol = "\n") -/
def templateLine (d : Decoration) (colWidths : List Nat) (left horiz cross right : Bytes) : Bytes :=
  if d.isBoxless then [] else
  let fields : List Bytes := [left]
  let fields :=
    if colWidths.length > 0 then
      let fs := fields ++ colWidths.flatMap (fun w => [repeatB horiz (2 + w), cross])
      fs.dropLast ++ [right]
    else fields ++ [right]
  (fields ++ [[LF]]).flatten

def lineHeaderTop (d : Decoration) (cw : List Nat) := templateLine d cw d.topLeft d.hOuter d.hTopDown d.topRight
def lineHeaderBodySep (d : Decoration) (cw : List Nat) := templateLine d cw d.hBLeft d.hOuter d.hBCross d.hBRight
def lineBodyTop (d : Decoration) (cw : List Nat) := templateLine d cw d.topLeft d.hOuter d.bTopDown d.topRight
def lineBottom (d : Decoration) (cw : List Nat) := templateLine d cw d.bottomLeft d.hOuter d.bBottomUp d.bottomRight
def lineSeparator (d : Decoration) (cw : List Nat) := templateLine d cw d.leftBodyRule d.hRule d.crossPiece d.rightBodyRule

/-- `strings.Join(fields, " ")` -/
def joinSP : List Bytes → Bytes
  | [] => []
  | [l] => l
  | l :: l' :: ls => l ++ SP :: joinSP (l' :: ls)

/-- `emitter.commonRenderedLine(ds, cellStrs, colAligns)` -/
def renderedLine (left inner right : Bytes) (colWidths : List Nat) (cellStrs : List WidthString)
    (aligns : List Nat) : Except Stop Bytes := do
  let fields : List Bytes := if left != [] then [left] else []
  let cols ← (colWidths.zipIdx).mapM (fun (cw, i) => do
    let cs ← idxE cellStrs i "emit.cellStrs[i]"
    let al ← idxE aligns i "emit.colAligns[i]"
    let s ← withinWidthAligned cs cw al
    pure (if inner != [] then [s, inner] else [s]))
  let fields := fields ++ cols.flatten
  let fields ←
    -- the trailing inner divider (if one was written) becomes the right border, or goes; with no field
    -- at all (no column, no left border) there is none to replace or drop
    if right != [] && inner != [] then pure (fields.dropLast ++ [right])
    else if right != [] then pure (fields ++ [right])
    else if inner != [] then pure fields.dropLast
    else pure fields
  pure (joinSP fields ++ [LF])

end Tab
