/- `texttable/render.go` -/
import Tabmodel.Model.Decoration
namespace Tab
open Emit

/-- column widths: header first, then widen by every body cell (`columnWidths[i]` is a checked index) -/
def ttWidenRow (ncols : Nat) : List RCell → Nat → List Int → Except Stop (List Int)
  | [], _, ws => .ok ws
  | c :: cs, i, ws =>
    if i > ncols then .ok ws else
    match ws[i]? with
    | none => .error (.panic "texttable.columnWidths[i]")
    | some w => ttWidenRow ncols cs (i + 1) (if c.cellWidth > w then ws.set i c.cellWidth else ws)

def ttColumnWidths (v : RTable) : Except Stop (List Int) := do
  let ws0 : List Int := (List.range v.ncols).map (fun i =>
    match v.header with
    | some hs => (match hs[i]? with | some h => h.cellWidth | none => 0)
    | none => 0)
  v.rows.foldlM (fun ws r => match r with
    | none => .ok ws
    | some cells => ttWidenRow v.ncols cells 0 ws) ws0

def ttAligns (v : RTable) : Except Stop (List Nat) :=
  (List.range v.ncols).mapM (fun i =>
    match v.colAlign.getD (i + 1) none with
    | some a => alignOf (some a)
    | none => alignOf (v.colAlign.getD 0 none))
where alignOf (raw : Option Val) : Except Stop Nat :=
  match raw with
  | none => .ok 0
  | some (.align a) => .ok a
  | some _ => .error (.panic "interface conversion: not align.Alignment")

/-- `RowToLinesOfWidthStrings` -/
def ttRowLines (cells : List RCell) (ncols : Nat) : List (List WidthString) :=
  let max := min cells.length ncols
  let columns : List (List WidthString) := (cells.take max).map (·.lws)
  let lineCount := columns.foldl (fun m c => if c.length > m then c.length else m) 1
  (List.range lineCount).map (fun l =>
    (List.range ncols).map (fun c =>
      match columns[c]? with
      | some col => (match col[l]? with | some ws => ws | none => { s := [], w := 0 })
      | none => { s := [], w := 0 }))

def ttEmitRow (left inner right : Bytes) (cw : List Nat) (aligns : List Nat)
    (cells : List RCell) (ncols : Nat) : Emit Unit :=
  forM' (ttRowLines cells ncols) (fun lineParts => do
    let s ← lift (renderedLine left inner right cw lineParts aligns)
    write s)

/-- `TextTable.RenderTo` after the decoration check and the callbacks pass -/
def renderTextBody (d : Decoration) (v : RTable) : Emit Unit := do
  let wsI ← lift (ttColumnWidths v)
  let cw : List Nat := wsI.map Int.toNat
  let aligns ← lift (ttAligns v)
  match v.header with
  | some hs => do
    write (lineHeaderTop d cw)
    ttEmitRow d.vHeader d.vHeader d.vHeader cw aligns hs v.ncols
    write (lineHeaderBodySep d cw)
  | none => write (lineBodyTop d cw)
  forM' v.rows (fun r => match r with
    | none => write (lineSeparator d cw)
    | some cells => ttEmitRow d.vBodyBorder d.vBodyInner d.vBodyBorder cw aligns cells v.ncols)
  write (lineBottom d cw)

end Tab
