/- `markdown/markdown.go` -/
import Tabmodel.Model.View
namespace Tab
open Emit

def bytesOfString (s : String) : Bytes := s.toUTF8.toList

/-- `html.EscapeString` then `|` and LF replaced: one per-byte map. -/
def mdEscByte (b : UInt8) : Bytes :=
  if b = 38 then bytesOfString "&amp;"
  else if b = 39 then bytesOfString "&#39;"
  else if b = 60 then bytesOfString "&lt;"
  else if b = 62 then bytesOfString "&gt;"
  else if b = 34 then bytesOfString "&#34;"
  else if b = 124 then bytesOfString "&#x7c;"
  else if b = 10 then bytesOfString "&#x0a;"
  else [b]

def mdEscape (s : Bytes) : Bytes := s.flatMap mdEscByte

/-- alignment of a column as the renderers see it: 0 = nil -/
def alignOf (raw : Option Val) : Except Stop Nat :=
  match raw with
  | none => .ok 0
  | some (.align a) => .ok a
  | some _ => .error (.panic "interface conversion: not align.Alignment")

def mdPadded (dw : Measure) (c : RCell) (want : Int) (al : Nat) : Bytes :=
  let baseline := mdEscape c.text
  let hv : Int := (dw baseline : Nat)
  if hv ≥ want then baseline else
  let pad := (want - hv).toNat
  if al = 2 then spaces pad ++ baseline
  else if al = 3 then spaces (pad / 2) ++ baseline ++ spaces (pad - pad / 2)
  else baseline ++ spaces pad

def mdEmitCells (dw : Measure) (widths : List Int) (aligns : List Nat) (barCenter barRight : Bytes) :
    List RCell → Nat → Emit Unit
  | [], _ => pure ()
  | c :: cs, i => do
    let wd ← idx widths i "markdown.widths[i]"
    let al ← idx aligns i "markdown.alignments[i]"
    write (mdPadded dw c wd al ++ (if cs.isEmpty then barRight else barCenter))
    mdEmitCells dw widths aligns barCenter barRight cs (i + 1)

/-- `emitRow` -/
def mdEmitRow (dw : Measure) (ncols : Nat) (cells : List RCell) (widths : List Int) (aligns : List Nat)
    (addPads : Bool) : Emit Unit := do
  let max := cells.length
  if ncols < max then fail .structural else
  let barLeft : Bytes := if max == 0 || !addPads then [124] else [124, 32]
  let barRight : Bytes := if addPads then [32, 124] else [124]
  let barCenter : Bytes := if addPads then [32, 124, 32] else [124]
  write barLeft
  mdEmitCells dw widths aligns barCenter barRight cells 0
  forM' (List.range (ncols - max)) (fun _ => write [32, 124])
  write [LF]

/-- widen `widths` by one row's cells -/
def mdWiden (widths : List Int) (cells : List RCell) : List Int :=
  widths.zipIdx.map (fun (w, i) => match cells[i]? with
    | some c => if c.mdw > w then c.mdw else w
    | none => w)

def mdControlCell (width : Int) (al : Nat) : Bytes :=
  let width := if width < 3 then 3 else width
  let dashes := List.replicate width.toNat (45 : UInt8)
  if al = 2 then [32] ++ dashes ++ [58]
  else if al = 3 then [58] ++ dashes ++ [58]
  else [32] ++ dashes ++ [32]

/-- `MarkdownTable.RenderTo` after the callbacks pass -/
def renderMarkdown (dw : Measure) (v : RTable) : Emit Unit := do
  if v.ncols < 1 then fail .noColumns else
  match v.header with
  | none => fail .noHeaders
  | some headers =>
    if headers.length > v.ncols then fail .structural else
    let widths0 : List Int := (List.range v.ncols).map (fun i => match headers[i]? with
      | some h => h.mdw | none => 0)
    -- body rows: structural check, then widen
    let widths ← lift (v.rows.foldlM (fun (ws : List Int) r =>
      match r with
      | none => .ok ws
      | some cells => if cells.length > v.ncols then .error (.err .structural) else .ok (mdWiden ws cells)) widths0)
    let aligns ← lift ((List.range v.ncols).mapM (fun i =>
      alignOf (match v.colAlign.getD (i + 1) none with
        | some a => some a
        | none => v.colAlign.getD 0 none)))
    let control : List RCell := (List.range v.ncols).map (fun i =>
      { text := mdControlCell (widths.getD i 0) (aligns.getD i 0) })
    mdEmitRow dw v.ncols headers widths aligns true
    mdEmitRow dw v.ncols control widths aligns false
    forM' v.rows (fun r =>
      match r with
      | none => pure ()
      | some cells => mdEmitRow dw v.ncols cells widths aligns true)

end Tab
