/-
  Renderers as programs that emit chunks (one per Go `Write` call) and may stop
  with an error or a panic.  `Emit α` is writer-over-except: the chunk list written
  so far plus how the program ended.  Running a chunk trace against a faulty
  `io.Writer` is the separate, generic `runScript` (Model/Writer.lean).
-/
import Tabmodel.Model.Bytes
namespace Tab

/-- Canonical error classes (messages are not compared, only the class). -/
inductive ErrClass
  | noColumns | noHeaders | tooFewHeaders | emptyHeader | dupHeader | nonboolSkipable
  | structural | marshal | noDecoration | writer | badAlign
  deriving DecidableEq, Repr, Inhabited

/-- Why a program stopped early. A `panic` records the site of the failing index/assertion. -/
inductive Stop
  | err (e : ErrClass)
  | panic (site : String)
  deriving DecidableEq, Repr, Inhabited

structure Emit (α : Type) where
  chunks : List Bytes
  res : Except Stop α

namespace Emit
def pure' (a : α) : Emit α := ⟨[], .ok a⟩
def bind' (m : Emit α) (f : α → Emit β) : Emit β :=
  match m.res with
  | .ok a => let n := f a; ⟨m.chunks ++ n.chunks, n.res⟩
  | .error e => ⟨m.chunks, .error e⟩
instance : Monad Emit where
  pure := pure'
  bind := bind'

/-- One checked `Write` of `b`. -/
def write (b : Bytes) : Emit Unit := ⟨[b], .ok ()⟩
def fail (e : ErrClass) : Emit α := ⟨[], .error (.err e)⟩
def panic (site : String) : Emit α := ⟨[], .error (.panic site)⟩
/-- Lift a pure partial computation. -/
def lift (r : Except Stop α) : Emit α := ⟨[], r⟩

/-- Checked slice index `a[i]`: out of range is a panic at `site`. -/
def idx (a : List α) (i : Nat) (site : String) : Emit α :=
  match a[i]? with
  | some x => pure' x
  | none => panic site

/-- `for x in xs { body x }` with early exit. -/
def forM' (xs : List α) (body : α → Emit Unit) : Emit Unit :=
  match xs with
  | [] => pure' ()
  | x :: xs => bind' (body x) (fun _ => forM' xs body)

/-- The concatenated output under a never-failing writer. -/
def output (m : Emit α) : Bytes := m.chunks.flatten
end Emit

/-- Pure checked index for non-emitting code. -/
def idxE (a : List α) (i : Nat) (site : String) : Except Stop α :=
  match a[i]? with
  | some x => .ok x
  | none => .error (.panic site)

end Tab
