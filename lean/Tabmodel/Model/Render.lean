/-
  Wrappers and the full render path: `X.Wrap(t)`, `RenderTo`, `Render`.
  With the wrapper-owner fix, `Wrap` of any table reference registers the measuring
  callback on the core table, so a wrapper is just (kind, core table, its own settings).
-/
import Tabmodel.Model.Registry
import Tabmodel.Model.Writer
namespace Tab

inductive WKind | csv | json | html | markdown | text
  deriving DecidableEq, Repr, Inhabited

structure Wrapper where
  kind : WKind
  core : Nat
  decor : Decoration := {}
  html : HtmlCfg := {}

/-- `(*TextTable).SetDecorationNamed(n)` (texttable/style.go): the wrapper takes whatever the registry
    holds under `n` — the empty decoration for a name never registered — and the call reports an error
    exactly in that case.  (The wrapper is changed either way: a later render then refuses.) -/
def Wrapper.setDecorationNamed (wr : Wrapper) (reg : Registry) (n : Bytes) : Wrapper × Option ErrClass :=
  let d := reg.named n
  ({ wr with decor := d }, if d = emptyDecoration then some .noDecoration else none)

/-- the wrapper `auto.Wrap` builds for a resolved format (`X.Wrap(t)`, plus `SetDecorationNamed`
for texttable) -/
def Format.wrapper (f : Format) (core : Nat) : Wrapper :=
  match f with
  | .csv => { kind := .csv, core := core }
  | .html => { kind := .html, core := core }
  | .markdown => { kind := .markdown, core := core }
  | .json => { kind := .json, core := core }
  | .text d => { kind := .text, core := core, decor := d }

structure Ext where
  dw : Measure
  js : JsonStr

namespace World

/-- the effect of `X.Wrap(ref)` on the world: texttable and markdown register their measuring callback -/
def wrapEffect (w : World) (k : WKind) (t : Nat) : World :=
  match k with
  | .text => w.modTable t (fun tb => { tb with cellCbs := tb.cellCbs.push .render .dimSetter })
  | .markdown => w.modTable t (fun tb => { tb with cellCbs := tb.cellCbs.push .render .widthSetter })
  | _ => w

/-- `RenderTo` as (world after the callbacks pass, emitted program) -/
def renderTo (x : Ext) (w : World) (wr : Wrapper) : World × Emit Unit :=
  match wr.kind with
  | .text =>
    if wr.decor = emptyDecoration then (w, Emit.fail .noDecoration)
    else
      let w' := invokeRenderCallbacks x.dw w wr.core
      (w', renderTextBody wr.decor (w'.view wr.core))
  | .csv => let w' := invokeRenderCallbacks x.dw w wr.core; (w', renderCsv (w'.view wr.core))
  | .json => let w' := invokeRenderCallbacks x.dw w wr.core; (w', renderJson x.js (w'.view wr.core))
  | .markdown => let w' := invokeRenderCallbacks x.dw w wr.core; (w', renderMarkdown x.dw (w'.view wr.core))
  | .html => let w' := invokeRenderCallbacks x.dw w wr.core; (w', renderHtml wr.html (w'.view wr.core))

/-- `Render()`: the string is empty whenever an error is returned -/
def renderString (m : Emit Unit) : Bytes × Option Stop :=
  match m.res with
  | .ok _ => (m.output, none)
  | .error s => ([], some s)

end World
end Tab
