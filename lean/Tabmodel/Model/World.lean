/-
  The table world (`atable.go`, `row.go`, `properties.go`, `render_callbacks.go`,
  `error_containers.go`): tables, rows (attached or not), the item store, cell copies,
  and the event log of callback invocations.  Objects are ids into stores, which is
  exactly the aliasing the Go code has through pointers.
-/
import Tabmodel.Model.Item
namespace Tab

/-- Reserved error ids for errors the library itself raises. -/
def errNonCellRow : Nat := 1000001      -- "can't add cells to a non-cell row"
def errTTNotCell : Nat := 1000002       -- texttable.ErrNotCellProperties
def errMDNotCell : Nat := 1000003       -- markdown.ErrNotCellProperties

/-- A row's embedded `*ErrorContainer`: nil, its own, or the table's (shared pointer). -/
inductive ECRef
  | none
  | own (es : List Nat)
  | table (t : Nat)
  deriving DecidableEq, Repr, Inhabited

structure Row where
  cells : Option (List Cell) := some []   -- `none` is Go's nil slice (separator / zero-value row)
  props : Chain := []
  cellCbs : CbSet := {}
  selfCbs : CbSet := {}
  inTable : Option Nat := none
  isSep : Bool := false
  rowNum : Nat := 0
  ec : ECRef := .none
  deriving DecidableEq, Repr, Inhabited

structure Column where
  props : Chain := []
  cellCbs : CbSet := {}
  selfCbs : CbSet := {}
  deriving DecidableEq, Repr, Inhabited

structure Table where
  errs : List Nat := []
  props : Chain := []
  header : Option Nat := none     -- id of the header row (a Row in the store, never `inTable`)
  rows : List Nat := []
  nColumns : Nat := 0
  columns : List Column := [{}]   -- nColumns + 1 entries; entry 0 is the defaults column
  selfCbs : CbSet := {}
  cellCbs : CbSet := {}
  rowCbs : CbSet := {}
  deriving DecidableEq, Repr, Inhabited

/-- What a callback was invoked on. -/
inductive Target
  | table (t : Nat)
  | column (t n : Nat)
  | row (r : Nat)
  | cell (r c : Nat)      -- row id, 0-based index
  | copy (n : Nat)        -- a by-value copy of a cell held by the caller
  deriving DecidableEq, Repr, Inhabited

structure Event where
  cb : Nat
  tgt : Target
  deriving DecidableEq, Repr, Inhabited

structure World where
  tables : List Table := []
  rows : List Row := []
  items : List Item := []
  copies : List Cell := []
  events : List Event := []
  deriving Repr, Inhabited

/-- Where a failing callback's error goes (`errTaker`). -/
inductive Taker
  | drop                  -- a typed-nil *ErrorContainer: AddError is a no-op
  | table (t : Nat)
  | rowOwn (r : Nat)      -- the row's own container (already allocated)
  | rowLazy (r : Nat)     -- the *Row itself: Row.AddError allocates on demand
  deriving DecidableEq, Repr, Inhabited

inductive Time | add | pre | render | post
  deriving DecidableEq, Repr, Inhabited

def CbSet.at (s : CbSet) : Time → List Cb
  | .add => s.add | .pre => s.pre | .render => s.render | .post => s.post

def CbSet.push (s : CbSet) (tm : Time) (cb : Cb) : CbSet :=
  match tm with
  | .add => { s with add := s.add ++ [cb] }
  | .pre => { s with pre := s.pre ++ [cb] }
  | .render => { s with render := s.render ++ [cb] }
  | .post => { s with post := s.post ++ [cb] }

namespace World

def table (w : World) (t : Nat) : Table := w.tables.getD t {}
def row (w : World) (r : Nat) : Row := w.rows.getD r {}
def item (w : World) (i : Nat) : Item := w.items.getD i default
def modTable (w : World) (t : Nat) (f : Table → Table) : World :=
  { w with tables := w.tables.modify t f }
def modRow (w : World) (r : Nat) (f : Row → Row) : World :=
  { w with rows := w.rows.modify r f }
def rowCells (w : World) (r : Nat) : List Cell := ((w.row r).cells).getD []
def cell? (w : World) (r c : Nat) : Option Cell := (w.rowCells r)[c]?
def modCell (w : World) (r c : Nat) (f : Cell → Cell) : World :=
  w.modRow r (fun rw => { rw with cells := rw.cells.map (fun cs => cs.modify c f) })
def column? (w : World) (t n : Nat) : Option Column := (w.table t).columns[n]?
def modColumn (w : World) (t n : Nat) (f : Column → Column) : World :=
  w.modTable t (fun tb => { tb with columns := tb.columns.modify n f })

/-! ### error containers -/

/-- `ErrorContainer.AddError` through a taker. -/
def addErrTo (w : World) (tk : Taker) (e : Nat) : World :=
  match tk with
  | .drop => w
  | .table t => w.modTable t (fun tb => { tb with errs := tb.errs ++ [e] })
  | .rowOwn r =>
    w.modRow r (fun rw => match rw.ec with
      | .own es => { rw with ec := .own (es ++ [e]) }
      | _ => rw)
  | .rowLazy r =>
    match (w.row r).ec with
    | .none => w.modRow r (fun rw => { rw with ec := .own [e] })
    | .own es => w.modRow r (fun rw => { rw with ec := .own (es ++ [e]) })
    | .table t => w.modTable t (fun tb => { tb with errs := tb.errs ++ [e] })

/-- The value of `row.ErrorContainer` used as an `ErrorReceiver` right now. -/
def rowECTaker (w : World) (r : Nat) : Taker :=
  match (w.row r).ec with
  | .none => .drop
  | .own _ => .rowOwn r
  | .table t => .table t

/-- `row.Errors()` as a plain list (nil = []). -/
def rowErrors (w : World) (r : Nat) : List Nat :=
  match (w.row r).ec with
  | .none => []
  | .own es => es
  | .table t => (w.table t).errs

/-! ### properties on owners -/

def getProp (w : World) (o : Target) (k : Key) : Option Val :=
  match o with
  | .table t => (w.table t).props.get k
  | .column t n => (w.column? t n).bind (·.props.get k)
  | .row r => (w.row r).props.get k
  | .cell r c => (w.cell? r c).bind (·.props.get k)
  | .copy n => (w.copies[n]?).bind (·.props.get k)

/-- the property chain an owner stores (`[]` for an owner that does not exist) -/
def ownerChain (w : World) (o : Target) : Chain :=
  match o with
  | .table t => (w.table t).props
  | .column t n => ((w.column? t n).map (·.props)).getD []
  | .row r => (w.row r).props
  | .cell r c => ((w.cell? r c).map (·.props)).getD []
  | .copy n => ((w.copies[n]?).map (·.props)).getD []

/-- number of links the owner stores: what the harness's `chainlen` walks by reflection -/
def chainLen (w : World) (o : Target) : Nat := (w.ownerChain o).length

def setProp (w : World) (o : Target) (k : Key) (v : Option Val) : World :=
  match o with
  | .table t => w.modTable t (fun tb => { tb with props := tb.props.set k v })
  | .column t n => w.modColumn t n (fun c => { c with props := c.props.set k v })
  | .row r => w.modRow r (fun rw => { rw with props := rw.props.set k v })
  | .cell r c => w.modCell r c (fun ce => { ce with props := ce.props.set k v })
  | .copy n => { w with copies := w.copies.modify n (fun ce => { ce with props := ce.props.set k v }) }

/-! ### callbacks -/

/-- the measuring callback of texttable on one cell (`dimensionSetter.UpdateProperties`) -/
def dimProps (dw : Measure) (it : Item) (c : Cell) : Val × Val :=
  let w := c.termWidth
  let h := c.hgt
  let ls := c.lines
  let n := max h.toNat ls.length
  let declared := it.mWidth.isSome   -- `cell.Item().(TerminalCellWidther)`
  let ws : List WidthString := ls.map (fun l =>
    { s := l, w := if declared && ls.length == 1 then w else (dw l : Nat) })
  (.dims w h, .lws (ws ++ List.replicate (n - ls.length) { s := [], w := 0 }))

def invokeOne (dw : Measure) (w : World) (cb : Cb) (tgt : Target) (tk : Taker) : World :=
  match cb with
  | .log id => { w with events := w.events ++ [⟨id, tgt⟩] }
  | .setProp id k v => setProp { w with events := w.events ++ [⟨id, tgt⟩] } tgt k v
  | .fail id e => addErrTo { w with events := w.events ++ [⟨id, tgt⟩] } tk e
  | .dimSetter =>
    match tgt with
    | .cell r c =>
      match w.cell? r c with
      | some ce =>
        let (d, l) := dimProps dw (w.item ce.item) ce
        setProp (setProp w tgt .ttDims (some d)) tgt .ttLines (some l)
      | none => w
    | _ => addErrTo w tk errTTNotCell
  | .widthSetter =>
    match tgt with
    | .cell r c =>
      match w.cell? r c with
      | some ce => setProp w tgt .mdWidth (some (.mdw ce.termWidth))
      | none => w
    | _ => addErrTo w tk errMDNotCell

/-- `invokePropertyCallbacks(set, time, owner, errTaker)` -/
def invoke (dw : Measure) (w : World) (cbs : List Cb) (tgt : Target) (tk : Taker) : World :=
  cbs.foldl (fun w cb => invokeOne dw w cb tgt tk) w

/-- `Cell.columnOfTable`: the (table, column number) whose cell callbacks apply. -/
def columnOf (w : World) (r c : Nat) : Option (Nat × Nat) :=
  match w.cell? r c with
  | none => none
  | some ce =>
    if ce.columnNum < 1 then none else
    match ce.inRow with
    | none => none
    | some r' =>
      match (w.row r').inTable with
      | none => none
      | some t => if ce.columnNum > (w.table t).nColumns then none else some (t, ce.columnNum)

def colCellCbs (w : World) (tc : Option (Nat × Nat)) (tm : Time) : List Cb :=
  match tc with
  | none => []
  | some (t, n) => ((w.column? t n).map (·.cellCbs.at tm)).getD []

/-! ### building -/

def resizeColumnsAtLeast (tb : Table) (n : Nat) : Table :=
  if n ≤ tb.nColumns then tb
  else { tb with columns := tb.columns ++ List.replicate (n + 1 - tb.columns.length) {}, nColumns := n }

def newTable (w : World) : World × Nat :=
  ({ w with tables := w.tables ++ [{}] }, w.tables.length)

def newRow (w : World) (rw : Row) : World × Nat :=
  ({ w with rows := w.rows ++ [rw] }, w.rows.length)

/-- `Row.Add(NewCell(item))` (the cell value `ce` has been built by the caller). -/
def rowAddCell (dw : Measure) (w : World) (r : Nat) (ce : Cell) : World :=
  match (w.row r).cells with
  | none => addErrTo w (.rowLazy r) errNonCellRow
  | some cs =>
    let col := cs.length + 1
    let w := w.modRow r (fun rw => { rw with cells := some (cs ++ [{ ce with inRow := some r, columnNum := col }]) })
    let w := match (w.row r).inTable with
      | some t => w.modTable t (fun tb => resizeColumnsAtLeast tb col)
      | none => w
    invoke dw w ((w.row r).cellCbs.at .add) (.cell r (col - 1)) (.rowLazy r)

def rowAdd (dw : Measure) (w : World) (r : Nat) (itemId : Nat) : World :=
  rowAddCell dw w r (newCell dw itemId (w.item itemId))

/-- per-cell part of AddRow / AddHeaders -/
def addTimeCells (dw : Measure) (t r : Nat) (colTaker : World → Taker) : Nat → Nat → World → World
  | 0, _, w => w
  | n + 1, i, w =>
    let w := invoke dw w (colCellCbs w (columnOf w r i) .add) (.cell r i) (colTaker w)
    let w := invoke dw w ((w.table t).cellCbs.at .add) (.cell r i) (colTaker w)
    addTimeCells dw t r colTaker n (i + 1) w

/-- `ATable.AddRow(row)` -/
def addRow (dw : Measure) (w : World) (t r : Nat) : World :=
  let w := w.modTable t (fun tb => { tb with rows := tb.rows ++ [r] })
  let n := (w.table t).rows.length
  let w := w.modRow r (fun rw => { rw with inTable := some t, rowNum := n })
  let w := w.modTable t (fun tb => resizeColumnsAtLeast tb (w.rowCells r).length)
  let es := w.rowErrors r
  let w := w.modTable t (fun tb => { tb with errs := tb.errs ++ es })
  let w := w.modRow r (fun rw => { rw with ec := .table t })
  let w := invoke dw w ((w.row r).selfCbs.at .add) (.row r) (.table t)
  let w := invoke dw w ((w.table t).rowCbs.at .add) (.row r) (.table t)
  addTimeCells dw t r (fun w => rowECTaker w r) (w.rowCells r).length 0 w

/-- `ATable.AddSeparator()` -/
def addSeparator (w : World) (t : Nat) : World :=
  let (w, r) := w.newRow { cells := none, isSep := true }
  let w := w.modTable t (fun tb => { tb with rows := tb.rows ++ [r] })
  let n := (w.table t).rows.length
  w.modRow r (fun rw => { rw with inTable := some t, rowNum := n, ec := .table t })

def rowAddMany (dw : Measure) (r : Nat) : List Nat → World → World
  | [], w => w
  | i :: is, w => rowAddMany dw r is (rowAdd dw w r i)

/-- `ATable.AddHeaders(items...)` -/
def addHeaders (dw : Measure) (w : World) (t : Nat) (items : List Nat) : World :=
  let w := w.modTable t (fun tb => resizeColumnsAtLeast tb items.length)
  let (w, hr) := w.newRow { ec := .table t }
  let w := rowAddMany dw hr items w
  let w := w.modTable t (fun tb => { tb with header := some hr })
  let w := invoke dw w ((w.table t).rowCbs.at .add) (.row hr) (.table t)
  addTimeCells dw t hr (fun _ => .table t) (w.rowCells hr).length 0 w

/-- `ATable.AddRowItems(items...)` -/
def addRowItems (dw : Measure) (w : World) (t : Nat) (items : List Nat) : World × Nat :=
  let (w, r) := w.newRow {}
  let w := rowAddMany dw r items w
  (addRow dw w t r, r)

/-- `ATable.AppendNewRow()` -/
def appendNewRow (dw : Measure) (w : World) (t : Nat) : World × Nat :=
  let (w, r) := w.newRow {}
  (addRow dw w t r, r)

/-! ### render-time traversal (`InvokeRenderCallbacks`) -/

def renderCells (dw : Measure) (t r : Nat) : Nat → Nat → World → World
  | 0, _, w => w
  | n + 1, i, w =>
    let tgt := Target.cell r i
    let ec := Taker.table t
    let col := columnOf w r i
    let w := invoke dw w ((w.table t).cellCbs.at .pre) tgt ec
    let w := invoke dw w (colCellCbs w col .pre) tgt (rowECTaker w r)
    let w := invoke dw w ((w.row r).cellCbs.at .pre) tgt ec
    let w := invoke dw w ((w.table t).cellCbs.at .render) tgt ec
    let w := invoke dw w (((w.cell? r i).map (·.cbs.at .render)).getD []) tgt ec
    let w := invoke dw w ((w.row r).cellCbs.at .post) tgt ec
    let w := invoke dw w (colCellCbs w col .post) tgt (rowECTaker w r)
    let w := invoke dw w ((w.table t).cellCbs.at .post) tgt ec
    renderCells dw t r n (i + 1) w

def renderRow (dw : Measure) (t : Nat) (w : World) (r : Nat) : World :=
  let w := invoke dw w ((w.row r).selfCbs.at .pre) (.row r) (.table t)
  let w := renderCells dw t r (w.rowCells r).length 0 w
  invoke dw w ((w.row r).selfCbs.at .post) (.row r) (.table t)

def renderColumns (dw : Measure) (t : Nat) (tm : Time) : Nat → Nat → World → World
  | 0, _, w => w
  | n + 1, i, w =>
    let w := invoke dw w (((w.column? t i).map (·.selfCbs.at tm)).getD []) (.column t i) (.table t)
    renderColumns dw t tm n (i + 1) w

def invokeRenderCallbacks (dw : Measure) (w : World) (t : Nat) : World :=
  let w := invoke dw w ((w.table t).selfCbs.at .pre) (.table t) (.table t)
  let ncol := (w.table t).columns.length
  let w := renderColumns dw t .pre ncol 0 w
  let w := match (w.table t).header with
    | some hr => renderRow dw t w hr
    | none => w
  let w := (w.table t).rows.foldl (renderRow dw t) w
  let w := renderColumns dw t .post ncol 0 w
  invoke dw w ((w.table t).selfCbs.at .post) (.table t) (.table t)

/-! ### registration (`RegisterPropertyCallback`) -/

inductive CbTarget | itself | cell | row
  deriving DecidableEq, Repr, Inhabited

/-- returns `none` when the (owner, target) combination is refused -/
def registerCb (w : World) (owner : Target) (tm : Time) (tg : CbTarget) (cb : Cb) : Option World :=
  match owner, tg with
  | .table t, .itself => some (w.modTable t (fun tb => { tb with selfCbs := tb.selfCbs.push tm cb }))
  | .table t, .cell => some (w.modTable t (fun tb => { tb with cellCbs := tb.cellCbs.push tm cb }))
  | .table t, .row => some (w.modTable t (fun tb => { tb with rowCbs := tb.rowCbs.push tm cb }))
  | .column t n, .itself => some (w.modColumn t n (fun c => { c with selfCbs := c.selfCbs.push tm cb }))
  | .column t n, .cell => some (w.modColumn t n (fun c => { c with cellCbs := c.cellCbs.push tm cb }))
  | .column _ _, .row => none
  | .row r, .cell => some (w.modRow r (fun rw => { rw with cellCbs := rw.cellCbs.push tm cb }))
  | .row r, _ => some (w.modRow r (fun rw => { rw with selfCbs := rw.selfCbs.push tm cb }))
  | .cell _ _, .row => none
  | .cell r c, _ => some (w.modCell r c (fun ce => { ce with cbs := ce.cbs.push tm cb }))
  | .copy _, .row => none
  | .copy n, _ => some { w with copies := w.copies.modify n (fun ce => { ce with cbs := ce.cbs.push tm cb }) }

/-! ### observers -/

/-- `CellAt(loc)`: the (row id, index) of the cell, or none for NoSuchCellError.  `r`, `c` are Go ints. -/
def cellAt (w : World) (t : Nat) (r c : Int) : Option (Nat × Nat) :=
  let tb := w.table t
  if r < 1 ∨ c < 1 ∨ r > tb.rows.length then none
  else
    match tb.rows[r.toNat - 1]? with
    | none => none
    | some rid =>
      match (w.row rid).cells with
      | none => none
      | some cs => if c > cs.length then none else some (rid, c.toNat - 1)

/-- `Cell.Location()` -/
def cellLocation (w : World) (ce : Cell) : Nat × Nat :=
  (match ce.inRow with | some r => (w.row r).rowNum | none => 0, ce.columnNum)

/-- `Column(n)` exists? -/
def hasColumn (w : World) (t : Nat) (n : Int) : Bool :=
  !(n < 0 || n > (w.table t).nColumns)

end World
end Tab
