/- `error_containers.go`: a stand-alone `*ErrorContainer` (constructed, zero value, or nil pointer). -/
import Tabmodel.Model.Bytes
namespace Tab

/-- `none` is the nil pointer; `some es` a container holding `es` (the zero value and
    `NewErrorContainer()` both hold `[]`: a nil and an empty `errors_` slice are not distinguishable
    through the API). An error argument is `Option Nat`: `none` is Go's nil error. -/
abbrev EC := Option (List Nat)

namespace EC
/-- `AddError` -/
def addError (c : EC) (e : Option Nat) : EC :=
  match c, e with
  | some es, some e => some (es ++ [e])
  | c, _ => c

/-- `AddErrorList` (as repaired: nil-safe, filters nil entries, never adopts the caller's slice) -/
def addErrorList (c : EC) (el : List (Option Nat)) : EC :=
  match c with
  | none => none
  | some es => some (es ++ el.filterMap id)

/-- `Errors()`: `none` is a nil slice; a returned list is never empty -/
def errors (c : EC) : Option (List Nat) :=
  match c with
  | none => none
  | some [] => none
  | some es => some es
end EC
end Tab
