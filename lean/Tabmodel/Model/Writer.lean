/-
  A faulty `io.Writer` and what happens when a chunk trace is run against it.
  Script: for call number `k`, `none` = accepts everything, `some n` = accepts
  `min n len` bytes of that chunk and returns an error.
-/
import Tabmodel.Model.Emit
namespace Tab

abbrev Script := Nat → Option Nat

structure WResult where
  failed : Bool        -- some attempted call returned an error
  calls : Nat          -- calls attempted
  accepted : Bytes     -- bytes the writer took
  deriving DecidableEq, Repr, Inhabited

/-- write the chunks one call each from call number `k`, stopping at the first failing call -/
def runChunks (σ : Script) : Nat → List Bytes → WResult
  | _, [] => ⟨false, 0, []⟩
  | k, c :: cs =>
    match σ k with
    | some n => ⟨true, 1, c.take n⟩
    | none =>
      let r := runChunks σ (k + 1) cs
      ⟨r.failed, r.calls + 1, c ++ r.accepted⟩

/-- the outcome of `RenderTo` on a faulty writer: the program's own stop wins if it comes first -/
def runEmit (σ : Script) (m : Emit Unit) : WResult × Option Stop :=
  let r := runChunks σ 0 m.chunks
  if r.failed then (r, some (.err .writer))
  else (r, match m.res with | .ok _ => none | .error s => some s)

end Tab
