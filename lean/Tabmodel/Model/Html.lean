/- `html/html.go`: the template's output, with `html/template`'s escaper as a per-byte map
   (trusted: that the engine applies exactly this escaper in text and quoted-attribute context). -/
import Tabmodel.Model.Markdown
namespace Tab
open Emit

def htmlEscByte (b : UInt8) : Bytes :=
  if b = 0 then [0xEF, 0xBF, 0xBD]
  else if b = 34 then bytesOfString "&#34;"
  else if b = 38 then bytesOfString "&amp;"
  else if b = 39 then bytesOfString "&#39;"
  else if b = 43 then bytesOfString "&#43;"
  else if b = 60 then bytesOfString "&lt;"
  else if b = 62 then bytesOfString "&gt;"
  else [b]

def htmlEscape (s : Bytes) : Bytes := s.flatMap htmlEscByte

structure HtmlCfg where
  id : Bytes := []
  cls : Bytes := []
  caption : Bytes := []
  rowClass : Option (Nat → Bytes) := none

def htmlTr (cfg : HtmlCfg) (n : Nat) (tag : String) (cells : List RCell) : Bytes :=
  bytesOfString "    <tr" ++
  (match cfg.rowClass with
   | some f => bytesOfString " class=\"" ++ htmlEscape (f n) ++ bytesOfString "\""
   | none => []) ++
  bytesOfString ">" ++
  cells.flatMap (fun c => bytesOfString ("<" ++ tag ++ ">") ++ htmlEscape c.text ++ bytesOfString ("</" ++ tag ++ ">")) ++
  bytesOfString "</tr>\n"

def htmlBytes (cfg : HtmlCfg) (v : RTable) : Bytes :=
  bytesOfString "<table" ++
  (if cfg.cls != [] then bytesOfString " class=\"" ++ htmlEscape cfg.cls ++ bytesOfString "\"" else []) ++
  (if cfg.id != [] then bytesOfString " id=\"" ++ htmlEscape cfg.id ++ bytesOfString "\"" else []) ++
  bytesOfString ">\n" ++
  (if cfg.caption != [] then bytesOfString "  <caption>" ++ htmlEscape cfg.caption ++ bytesOfString "</caption>\n" else []) ++
  bytesOfString "  <thead>\n" ++
  htmlTr cfg 0 "th" (v.header.getD []) ++
  bytesOfString "  </thead>\n  <tbody>\n" ++
  (v.rows.zipIdx.flatMap (fun (r, i) => match r with
    | none => []
    | some cells => htmlTr cfg (i + 1) "td" cells)) ++
  bytesOfString "  </tbody>\n</table>\n"

/-- The row numbers the row-class generator is called with during one render, in call order
    (what the harness's recording generator logs as `rc=`): 0 for the header row, then the 1-based
    position of every non-separator row.  `Props/DriverObs.lean` proves this is `rowClassArgs`, the
    list the C06 theorems speak about, and that it is empty-free, strictly increasing and bounded. -/
def rowClassCalls (v : RTable) : List Nat :=
  0 :: v.rows.zipIdx.filterMap (fun (r, i) => match r with | some _ => some (i + 1) | none => none)

/-- `HTMLTable.RenderTo` after the callbacks pass (chunking is the template engine's; one chunk here) -/
def renderHtml (cfg : HtmlCfg) (v : RTable) : Emit Unit := write (htmlBytes cfg v)

end Tab
