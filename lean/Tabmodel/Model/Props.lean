/-
  Property chains (`properties.go`): a linked list of (key, value) links, newest first.
  `strip` removes the FIRST link with the key (exactly what `stripReturnValue` does);
  the map behaviour relies on the `Nodup` invariant of keys, which `set` preserves.
-/
import Tabmodel.Model.Bytes
namespace Tab

/-- Property keys.  `user n`: the harness numbers distinct (dynamic type, value) pairs. -/
inductive Key
  | user (n : Nat)
  | align | skipable          -- align.PropertyType, properties.Skipable
  | ttDims | ttLines | mdWidth -- private keys of texttable / markdown
  deriving DecidableEq, Repr, Inhabited

/-- A measured line: `decoration.WidthString`. -/
structure WidthString where
  s : Bytes
  w : Int
  deriving DecidableEq, Repr, Inhabited

/-- Property values, as far as the library inspects them. -/
inductive Val
  | user (n : Nat)            -- opaque user value (also: a non-bool / non-alignment value)
  | align (a : Nat)           -- alignSimple{a}: 1 left, 2 right, 3 centre, anything else invalid
  | bool (b : Bool)
  | dims (w h : Int)          -- texttable.dimensions
  | lws (l : List WidthString)
  | mdw (w : Int)             -- markdown.width
  deriving DecidableEq, Repr, Inhabited

abbrev Chain := List (Key × Val)

namespace Chain
def get (c : Chain) (k : Key) : Option Val :=
  match c with
  | [] => none
  | (k', v) :: rest => if k' = k then some v else get rest k

/-- remove the first link whose key is `k` -/
def strip (c : Chain) (k : Key) : Chain :=
  match c with
  | [] => []
  | (k', v) :: rest => if k' = k then rest else (k', v) :: strip rest k

/-- `SetProperty(k, v)`; `none` is Go's `nil` value: remove only. -/
def set (c : Chain) (k : Key) (v : Option Val) : Chain :=
  match v with
  | none => strip c k
  | some v => (k, v) :: strip c k

def keys (c : Chain) : List Key := c.map Prod.fst
end Chain

end Tab
