/- `json/json.go`.  `js` is `json.Marshal` of a Go string (external, total). -/
import Tabmodel.Model.View
namespace Tab
open Emit

abbrev JsonStr := Bytes → Bytes

def asBoolOr (v : Option Val) (dflt : Bool) : Except Stop Bool :=
  match v with
  | none => .ok dflt
  | some (.bool b) => .ok b
  | some _ => .error (.err .nonboolSkipable)

/-- the per-column header loop: keys and skipable flags -/
def jsonKeys (js : JsonStr) (v : RTable) (headers : List RCell) (defSkip : Bool) :
    Nat → Nat → List Bytes → List (Bytes × Bool) → Except Stop (List (Bytes × Bool))
  | 0, _, _, acc => .ok acc
  | n + 1, i, seen, acc => do
    let h ← idxE headers i "json.headers[i]"
    let s := h.text
    if s == [] then .error (.err .emptyHeader) else
    if seen.contains s then .error (.err .dupHeader) else
    let key := js s ++ [58, 32]
    let sk ← asBoolOr ((v.colSkip.getD (i + 1) none)) defSkip
    jsonKeys js v headers defSkip n (i + 1) (s :: seen) (acc ++ [(key, sk)])

def jsonEmitCells (js : JsonStr) (keys : List (Bytes × Bool)) :
    List RCell → Nat → Bool → Emit Bool   -- returns whether the opening brace was written
  | [], _, opened => pure opened
  | c :: cs, i, opened => do
    let (key, sk) ← idx keys i "json.keys[i]"
    if sk && c.empty then jsonEmitCells js keys cs (i + 1) opened else
    write (if opened then [44, 32] else [123])
    write key
    let t ← (match c.json with
      | none => fail .marshal
      | some t => pure t)
    let t := if t == [123, 125] && c.text != [] then js c.text else t
    write t
    jsonEmitCells js keys cs (i + 1) true

/-- `emitRowAsJSONObject` -/
def jsonEmitRow (js : JsonStr) (keys : List (Bytes × Bool)) (cells : List RCell) : Emit Unit := do
  if keys.length < cells.length then fail .structural else
  let opened ← jsonEmitCells js keys cells 0 false
  if opened then write [125] else write [123, 125]

/-- index of the last non-separator row, as `lastObject` (+1, 0 = none) -/
def lastObject (rows : List (Option (List RCell))) : Nat :=
  (rows.zipIdx.foldl (fun acc (r, i) => if r.isSome then i + 1 else acc) 0)

def jsonRows (js : JsonStr) (keys : List (Bytes × Bool)) (lastObj : Nat) :
    List (Option (List RCell)) → Nat → Bool → Emit Unit
  | [], _, _ => pure ()
  | r :: rs, i, needComma => do
    if needComma then write [44, LF] else pure ()
    match r with
    | none => do
      write [LF]
      jsonRows js keys lastObj rs (i + 1) false
    | some cells => do
      jsonEmitRow js keys cells
      jsonRows js keys lastObj rs (i + 1) (decide (i + 1 < lastObj))

/-- `JSONTable.RenderTo` after the callbacks pass -/
def renderJson (js : JsonStr) (v : RTable) : Emit Unit := do
  if v.ncols < 1 then fail .noColumns else
  let defSkip ← lift (asBoolOr (v.colSkip.getD 0 none) false)
  match v.header with
  | none => fail .noHeaders
  | some headers =>
    if headers.length < v.ncols then fail .tooFewHeaders else
    let keys ← lift (jsonKeys js v headers defSkip v.ncols 0 [] [])
    write [91, LF]
    jsonRows js keys (lastObject v.rows) v.rows 0 false
    write [LF, 93, LF]

end Tab
