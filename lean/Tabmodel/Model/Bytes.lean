/-
  Byte strings and the line/width primitives of `length/length.go` and `strings`.
  Go strings are modelled as `List UInt8` (never Lean `String`): several properties
  quantify over arbitrary bytes, including invalid UTF-8.
-/
namespace Tab

abbrev Bytes := List UInt8

def LF : UInt8 := 10
def SP : UInt8 := 32
def DQ : UInt8 := 34
def COMMA : UInt8 := 44

/-- `strings.Repeat(" ", n)` -/
def spaces (n : Nat) : Bytes := List.replicate n SP

/-- `strings.Repeat(s, n)` -/
def repeatB (s : Bytes) : Nat → Bytes
  | 0 => []
  | n + 1 => s ++ repeatB s n

/-- `strings.Split(s, "\n")`: always at least one element. -/
def splitLF : Bytes → List Bytes
  | [] => [[]]
  | b :: bs =>
    if b = LF then [] :: splitLF bs
    else match splitLF bs with
      | [] => [[b]]
      | l :: ls => (b :: l) :: ls

/-- `strings.Join(ls, "\n")` -/
def joinLF : List Bytes → Bytes
  | [] => []
  | [l] => l
  | l :: l' :: ls => l ++ LF :: joinLF (l' :: ls)

/-- `length.Lines`: split on LF and drop one trailing empty segment. -/
def lines (s : Bytes) : List Bytes :=
  let ss := splitLF s
  match ss.getLast? with
  | some [] => ss.dropLast
  | _ => ss

/-- `strings.Count(s, "\n")` -/
def countLF (s : Bytes) : Nat := s.count LF

/-- `strings.HasSuffix(s, "\n")` -/
def hasSuffixLF (s : Bytes) : Bool := s.getLast? == some LF

/-- `max` fold used by the `LongestLine*` family (starts from 0, as the Go loops do). -/
def maxOf (f : Bytes → Nat) (ls : List Bytes) : Nat := ls.foldl (fun m l => if f l > m then f l else m) 0

/-- `length.LongestLineX` for a per-line measure `f`: the code's three-way switch. -/
def longestLine (f : Bytes → Nat) (s : Bytes) : Nat :=
  match lines s with
  | [] => 0
  | [l] => f l
  | ls => maxOf f ls

/-! ### UTF-8, as Go's `unicode/utf8` decodes it (an invalid byte is one rune of width 1) -/

def isCont (b : UInt8) : Bool := 0x80 ≤ b && b ≤ 0xBF

/-- Number of bytes consumed by `utf8.DecodeRuneInString` at the head of a non-empty string. -/
def runeLen : Bytes → Nat
  | [] => 0
  | b0 :: rest =>
    if b0 < 0x80 then 1
    else if b0 < 0xC2 then 1
    else if b0 ≤ 0xDF then
      match rest with
      | b1 :: _ => if isCont b1 then 2 else 1
      | _ => 1
    else if b0 ≤ 0xEF then
      match rest with
      | b1 :: b2 :: _ =>
        let lo : UInt8 := if b0 = 0xE0 then 0xA0 else 0x80
        let hi : UInt8 := if b0 = 0xED then 0x9F else 0xBF
        if lo ≤ b1 && b1 ≤ hi && isCont b2 then 3 else 1
      | _ => 1
    else if b0 ≤ 0xF4 then
      match rest with
      | b1 :: b2 :: b3 :: _ =>
        let lo : UInt8 := if b0 = 0xF0 then 0x90 else 0x80
        let hi : UInt8 := if b0 = 0xF4 then 0x8F else 0xBF
        if lo ≤ b1 && b1 ≤ hi && isCont b2 && isCont b3 then 4 else 1
      | _ => 1
    else 1

/-- `utf8.RuneCountInString`, by fuel = length (each step consumes at least one byte). -/
def runeCountFuel : Nat → Bytes → Nat
  | 0, _ => 0
  | _, [] => 0
  | fuel + 1, s@(_ :: _) => 1 + runeCountFuel fuel (s.drop (runeLen s))

def runeCount (s : Bytes) : Nat := runeCountFuel s.length s

/-- `string(rune)`: UTF-8 encoding; surrogates and out-of-range values become U+FFFD. -/
def encodeRune (r : Int) : Bytes :=
  if r < 0 then [0xEF, 0xBF, 0xBD]
  else
    let n := r.toNat
    if n < 0x80 then [n.toUInt8]
    else if n < 0x800 then [(0xC0 + n / 64).toUInt8, (0x80 + n % 64).toUInt8]
    else if 0xD800 ≤ n ∧ n ≤ 0xDFFF then [0xEF, 0xBF, 0xBD]
    else if n < 0x10000 then
      [(0xE0 + n / 4096).toUInt8, (0x80 + (n / 64) % 64).toUInt8, (0x80 + n % 64).toUInt8]
    else if n ≤ 0x10FFFF then
      [(0xF0 + n / 262144).toUInt8, (0x80 + (n / 4096) % 64).toUInt8,
       (0x80 + (n / 64) % 64).toUInt8, (0x80 + n % 64).toUInt8]
    else [0xEF, 0xBF, 0xBD]

end Tab
