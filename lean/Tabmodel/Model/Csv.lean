/- `csv/csv.go` -/
import Tabmodel.Model.View
namespace Tab
open Emit

/-- `csvEscape`: surround with quotes, double each embedded quote. -/
def csvEscBody : Bytes → Bytes
  | [] => []
  | b :: bs => if b = DQ then DQ :: DQ :: csvEscBody bs else b :: csvEscBody bs

def csvEscape (s : Bytes) : Bytes := DQ :: csvEscBody s ++ [DQ]

/-- `emitRow` -/
def csvEmitRow (ncols : Nat) (cells : List RCell) : Emit Unit := do
  let max := cells.length
  if ncols < max then fail .structural else
  -- all but the last available cell, each with a trailing separator
  forM' (cells.take (max - 1)) (fun c => write (csvEscape c.text ++ [COMMA]))
  let last ← (if max > 0 then (do let c ← idx cells (max - 1) "csv.emitRow.cells[i]"; pure c.text) else pure [])
  write (csvEscape last)
  forM' (List.range (ncols - (max - 1 + 1))) (fun _ => write [COMMA, DQ, DQ])
  write [LF]

/-- `CSVTable.RenderTo` after the callbacks pass -/
def renderCsv (v : RTable) : Emit Unit := do
  if v.ncols < 1 then fail .noColumns else
  match v.header with
  | some hs => csvEmitRow v.ncols hs
  | none => pure ()
  forM' v.rows (fun r =>
    match r with
    | none => pure ()
    | some cells => csvEmitRow v.ncols cells)

end Tab
