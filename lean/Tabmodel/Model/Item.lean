/-
  Items and cells (`cell.go`, `types.go`).
  An item is modelled as what the code can observe of it: which arm of the type switch
  it takes, the results of the methods it implements, its `%v` text and its
  `encoding/json` encoding.  The harness fills this record from the real Go value.
-/
import Tabmodel.Model.Props
namespace Tab

/-- Which arm of the `switch o := c.raw.(type)` can match, before the interface arms. -/
inductive ItemKind
  | nil
  | cell (str : Bytes) (width height : Int) (empty : Bool)  -- a `tabular.Cell` value and its fields
  | str (s : Bytes)
  | rune (r : Int)        -- `rune` is `int32`
  | other
  deriving DecidableEq, Repr, Inhabited

structure Item where
  kind : ItemKind
  mString : Option Bytes    -- result of String() if the item is a Stringer
  mGoString : Option Bytes  -- result of GoString() if a GoStringer
  mError : Option Bytes     -- result of Error() if an error
  fmtV : Bytes              -- fmt.Sprintf("%v", item)
  mHeight : Option Int      -- Height() if a Heighter
  mWidth : Option Int       -- TerminalCellWidth() if a TerminalCellWidther
  json : Option Bytes       -- json.Marshal(item); none = marshal error
  deriving DecidableEq, Repr, Inhabited

/-- `dw` is the external display-width measure (`length.StringCells`, go-runewidth). -/
abbrev Measure := Bytes → Nat

/-- Callbacks: the language of user callbacks the properties quantify over, plus the two built-ins. -/
inductive Cb
  | log (id : Nat)                                   -- records (id, target), returns nil
  | setProp (id : Nat) (k : Key) (v : Option Val)    -- records, sets a property on its target
  | fail (id : Nat) (e : Nat)                        -- records, returns error `e`
  | dimSetter                                        -- texttable.dimensionSetter
  | widthSetter                                      -- markdown.widthSetter
  deriving DecidableEq, Repr, Inhabited

structure CbSet where
  add : List Cb := []
  pre : List Cb := []
  render : List Cb := []
  post : List Cb := []
  deriving DecidableEq, Repr, Inhabited

structure Cell where
  item : Nat                -- id into the item store (`raw`)
  str : Bytes := []
  width : Int := 0
  height : Int := 0
  empty : Bool := false
  props : Chain := []
  cbs : CbSet := {}
  columnNum : Nat := 0
  inRow : Option Nat := none
  deriving DecidableEq, Repr, Inhabited

/-- The documented text form (C01), written from the property statement, not from the code. -/
def textForm (it : Item) : Bytes :=
  match it.kind with
  | .nil => []
  | .cell s _ _ _ => s
  | .str s => s
  | .rune r => encodeRune r
  | .other =>
    match it.mString with
    | some s => s
    | none => match it.mGoString with
      | some s => s
      | none => match it.mError with
        | some s => s
        | none => it.fmtV

/-- the text assigned to `c.str` by the arms after the `Cell` arm ("After this point, MUST set .str") -/
def Item.switchText (it : Item) : Bytes :=
  match it.kind with
  | .str s => s
  | .rune r => encodeRune r
  | _ =>
    match it.mString with
    | some s => s
    | none => match it.mGoString with
      | some s => s
      | none => match it.mError with
        | some s => s
        | none => it.fmtV

/-- height / width computed by `Update` once the text is known (the part after the type switch) -/
def sizeHeight (it : Item) (str : Bytes) : Int :=
  match it.mHeight with
  | some h => h
  | none => if str == [] then 0
            else (1 + countLF str : Nat) - (if hasSuffixLF str then 1 else 0)

def sizeWidth (dw : Measure) (it : Item) (str : Bytes) : Int :=
  match it.mWidth with
  | some w => w
  | none => if str == [] then 0 else (longestLine dw str : Nat)

/-- `(*Cell).Update`, arm by arm. -/
def Cell.update (dw : Measure) (it : Item) (c : Cell) : Cell :=
  match it.kind with
  | .nil => { c with empty := true, str := [], width := 0, height := 0 }
  | .cell s w h e => { c with str := s, width := w, height := h, empty := e || s == [] }
  | _ =>
    let str := it.switchText
    -- when the text is empty width/height are reset to 0 and only overrides apply
    { c with str := str, empty := str == [], width := sizeWidth dw it str, height := sizeHeight it str }

def newCell (dw : Measure) (itemId : Nat) (it : Item) : Cell :=
  Cell.update dw it { item := itemId }

/-- `Cell.TerminalCellWidth` (clamped at 0) -/
def Cell.termWidth (c : Cell) : Int := if c.width < 0 then 0 else c.width

/-- `Cell.Height` -/
def Cell.hgt (c : Cell) : Int :=
  if c.height < 1 then (if c.termWidth > 0 then 1 else 0) else c.height

/-- `Cell.Lines` -/
def Cell.lines (c : Cell) : List Bytes := Tab.lines c.str

end Tab
