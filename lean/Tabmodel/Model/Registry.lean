/- `texttable/decoration/registry.go`, `texttable/style.go`, `auto/auto.go` -/
import Tabmodel.Model.Text
import Tabmodel.Model.Csv
import Tabmodel.Model.Json
import Tabmodel.Model.Html
namespace Tab

/-- the registry: an association list, each operation atomic (the mutex's job) -/
abbrev Registry := List (Bytes × Decoration)

namespace Registry
def register (r : Registry) (n : Bytes) (d : Decoration) : Registry :=
  (n, d) :: r.filter (fun p => p.1 != n)

def named (r : Registry) (n : Bytes) : Decoration :=
  match r.find? (fun p => p.1 == n) with
  | some p => p.2
  | none => emptyDecoration

/-- bytewise `<` on strings (Go's string order) -/
def bytesLt : Bytes → Bytes → Bool
  | [], [] => false
  | [], _ :: _ => true
  | _ :: _, [] => false
  | a :: as, b :: bs => if a < b then true else if b < a then false else bytesLt as bs

def insertSorted (x : Bytes) : List Bytes → List Bytes
  | [] => [x]
  | y :: ys => if bytesLt y x then y :: insertSorted x ys else x :: y :: ys

def sortBytes (l : List Bytes) : List Bytes := l.foldr insertSorted []

def names (r : Registry) : List Bytes := sortBytes (r.map Prod.fst)
end Registry

/-- ASCII `strings.ToLower` -/
def asciiLower (s : Bytes) : Bytes := s.map (fun b => if 65 ≤ b && b ≤ 90 then b + 32 else b)

/-- `strings.ToLower` as far as it matters for comparing with the five ASCII sub-package names:
    ASCII letters fold, and the only non-ASCII code points whose Unicode lower case is an ASCII
    letter do too: U+212A KELVIN SIGN (E2 84 AA) → `k`, U+0130 (C4 B0) → `i`.  Every other
    non-ASCII rune lower-cases to a non-ASCII rune (and invalid UTF-8 to U+FFFD), which can never
    equal an ASCII name, so leaving those bytes alone decides the comparison the same way. -/
def goLower : Bytes → Bytes
  | 0xE2 :: 0x84 :: 0xAA :: rest => 0x6B :: goLower rest
  | 0xC4 :: 0xB0 :: rest => 0x69 :: goLower rest
  | b :: rest => (if 65 ≤ b && b ≤ 90 then b + 32 else b) :: goLower rest
  | [] => []

/-- `strings.Split(style, ".")` -/
def splitDot : Bytes → List Bytes
  | [] => [[]]
  | b :: bs =>
    if b = 46 then [] :: splitDot bs
    else match splitDot bs with
      | [] => [[b]]
      | l :: ls => (b :: l) :: ls

inductive Format
  | csv | html | markdown | json
  | text (d : Decoration)
  deriving DecidableEq, Repr, Inhabited

def defaultDecoration : Decoration :=   -- UTF8BoxHeavy(); the concrete value comes from Generated.Decorations
  {}

/-- `auto.Wrap(t, style)`: which renderer, and for texttable which decoration -/
def resolveStyle (reg : Registry) (heavy : Decoration) (style : Bytes) : Format :=
  let sections := splitDot style
  let first := sections.headD []
  let low := goLower first
  if low = bytesOfString "csv" then .csv
  else if low = bytesOfString "html" then .html
  else if low = bytesOfString "markdown" then .markdown
  else if low = bytesOfString "json" then .json
  else if low = bytesOfString "texttable" then
    match sections with
    | _ :: s1 :: _ => .text (reg.named s1)
    | _ => .text heavy
  else .text (reg.named first)

/-- `auto.ListStyles()` -/
def listStyles (reg : Registry) : List Bytes :=
  Registry.sortBytes (reg.names ++ [bytesOfString "csv", bytesOfString "html", bytesOfString "json", bytesOfString "markdown"])

end Tab
