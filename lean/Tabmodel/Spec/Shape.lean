/- Shared spec-level predicates on render views (used by several property files). -/
import Tabmodel.Model.View
namespace Tab

/-- the shape the table invariant guarantees: header and rows have at most `ncols` cells -/
def WFShape (v : RTable) : Prop :=
  (∀ hs, v.header = some hs → hs.length ≤ v.ncols) ∧
  (∀ cs, some cs ∈ v.rows → cs.length ≤ v.ncols)

instance (v : RTable) : Decidable (WFShape v) := by
  unfold WFShape
  have h1 : Decidable (∀ hs, v.header = some hs → hs.length ≤ v.ncols) := by
    cases h : v.header with
    | none => exact isTrue (by intro hs hh; cases hh)
    | some hs =>
      by_cases hl : hs.length ≤ v.ncols
      · exact isTrue (by intro hs' hh; cases hh; exact hl)
      · exact isFalse (fun hall => hl (hall hs rfl))
  have h2 : Decidable (∀ cs, some cs ∈ v.rows → cs.length ≤ v.ncols) := by
    have : Decidable (∀ r ∈ v.rows, ∀ cs, r = some cs → cs.length ≤ v.ncols) := by
      apply List.decidableBAll
    cases this with
    | isTrue h => exact isTrue (fun cs hm => h (some cs) hm cs rfl)
    | isFalse h => exact isFalse (fun hall => h (fun r hr cs hc => by subst hc; exact hall cs hr))
  exact instDecidableAnd

end Tab
