/-
  Spec side of C08 (definitions only): an independent reader for GFM table lines
  (pipe counting / splitting, entity decoding, space trimming), the refusal/acceptance
  predicate `MdOK`, and the effective-alignment and column-width rules.
  Nothing here refers to the renderer `renderMarkdown`.
-/
import Tabmodel.Model.Markdown
import Tabmodel.Spec.Shape
namespace Tab

/-! ### pipes -/

/-- number of bytes `|` (124) not immediately preceded by a backslash (92);
    `p` = "the previous byte was a backslash" -/
def unescapedPipesFrom : Bool → Bytes → Nat
  | _, [] => 0
  | p, b :: bs => (if b = 124 ∧ p = false then 1 else 0) + unescapedPipesFrom (b == 92) bs

def unescapedPipes (s : Bytes) : Nat := unescapedPipesFrom false s

/-- split on the pipes counted by `unescapedPipesFrom` (always at least one piece) -/
def splitPipesFrom : Bool → Bytes → List Bytes
  | _, [] => [[]]
  | p, b :: bs =>
    if b = 124 ∧ p = false then [] :: splitPipesFrom false bs
    else
      let r := splitPipesFrom (b == 92) bs
      (b :: r.headD []) :: r.tail

def splitPipes (s : Bytes) : List Bytes := splitPipesFrom false s

/-! ### entities -/

/-- the seven entities `mdEscape` can produce, with the byte each stands for -/
def mdEntities : List (Bytes × UInt8) :=
  [ ([38, 97, 109, 112, 59], 38),          -- &amp;   &
    ([38, 35, 51, 57, 59], 39),            -- &#39;   '
    ([38, 108, 116, 59], 60),              -- &lt;    <
    ([38, 103, 116, 59], 62),              -- &gt;    >
    ([38, 35, 51, 52, 59], 34),            -- &#34;   "
    ([38, 35, 120, 55, 99, 59], 124),      -- &#x7c;  |
    ([38, 35, 120, 48, 97, 59], 10) ]      -- &#x0a;  LF

/-- the first entity of `tbl` that is a prefix of `s`: (decoded byte, entity length) -/
def entityAt (tbl : List (Bytes × UInt8)) (s : Bytes) : Option (UInt8 × Nat) :=
  match tbl with
  | [] => none
  | (e, d) :: rest => if e.isPrefixOf s then some (d, e.length) else entityAt rest s

/-- decoder; `skip` = number of bytes still to drop (rest of an entity already decoded) -/
def mdDecodeFrom : Nat → Bytes → Bytes
  | _, [] => []
  | k + 1, _ :: r => mdDecodeFrom k r
  | 0, b :: r =>
    match entityAt mdEntities (b :: r) with
    | some (d, n) => d :: mdDecodeFrom (n - 1) r
    | none => b :: mdDecodeFrom 0 r

/-- inverse entity decoder for exactly the seven entities; every other byte is kept -/
def mdDecode (s : Bytes) : Bytes := mdDecodeFrom 0 s

/-! ### trimming -/

/-- drop leading spaces -/
def trimL : Bytes → Bytes
  | [] => []
  | b :: r => if b = 32 then trimL r else b :: r

/-- drop trailing spaces -/
def trimR : Bytes → Bytes
  | [] => []
  | b :: r => if b = 32 ∧ trimR r = [] then [] else b :: trimR r

/-- `strings.Trim(s, " ")` -/
def trimSp (s : Bytes) : Bytes := trimL (trimR s)

/-! ### acceptance predicate, alignment and width rules -/

/-- a column's alignment property is unset or an `align.Alignment` -/
def alignEntryOK : Option Val → Bool
  | none => true
  | some (.align _) => true
  | some _ => false

/-- every alignment property is nil or an alignment (otherwise the type assertion panics) -/
def AlignsOK (v : RTable) : Prop := v.colAlign.all alignEntryOK = true

instance (v : RTable) : Decidable (AlignsOK v) := by unfold AlignsOK; infer_instance

/-- the views Markdown rendering accepts -/
def MdOK (v : RTable) : Prop :=
  1 ≤ v.ncols ∧ v.header.isSome = true ∧ WFShape v ∧ AlignsOK v

instance (v : RTable) : Decidable (MdOK v) := by unfold MdOK; infer_instance

/-- effective alignment property of data column `i` (0-based): own setting of column `i+1`,
    else the column-0 default -/
def effAlign (v : RTable) (i : Nat) : Option Val :=
  match v.colAlign.getD (i + 1) none with
  | some a => some a
  | none => v.colAlign.getD 0 none

/-- as a number: 0 nil, 1 left, 2 right, 3 centre, other = invalid -/
def effAlignNat (v : RTable) (i : Nat) : Nat :=
  match effAlign v i with
  | some (.align a) => a
  | _ => 0

/-- measured width of column `i`: the maximum of the header cell's and every body cell's
    `mdw` in that column (0 where the header has no such cell) -/
def mdColWidth (v : RTable) (i : Nat) : Int :=
  v.rows.foldl (fun w r =>
      match r with
      | some cells => (match cells[i]? with | some c => if c.mdw > w then c.mdw else w | none => w)
      | none => w)
    (match v.header with
     | some hs => (match hs[i]? with | some h => h.mdw | none => 0)
     | none => 0)

/-- the non-separator rows, in order -/
def bodyRows (v : RTable) : List (List RCell) := v.rows.filterMap id

/-- marker bytes (first, last) of a delimiter cell for an alignment number -/
def mdMarkers (al : Nat) : UInt8 × UInt8 :=
  if al = 2 then (32, 58) else if al = 3 then (58, 58) else (32, 32)

end Tab
