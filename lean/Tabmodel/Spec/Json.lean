/-
  Specification side of C07 (definitions only): a token-level JSON grammar for
  "array of objects", the token stream the JSON renderer is claimed to produce,
  the objects a table denotes, and the well-formedness predicate `JsonOK`.

  Key and value texts are opaque byte strings produced by `encoding/json`
  (trusted to be valid JSON scalars/values); everything else is checked here.
-/
import Tabmodel.Model.Json
import Tabmodel.Spec.Shape
namespace Tab

/-! ### Tokens -/

/-- JSON tokens.  `ws true` is a line feed, `ws false` a space.  A `key k` token is the
encoded member name `k` together with the `": "` that follows it; `val e` is an encoded value. -/
inductive Tok
  | lbrack | rbrack | lbrace | rbrace | comma
  | ws (lf : Bool)
  | key (k : Bytes)
  | val (e : Bytes)
  deriving DecidableEq, Repr, Inhabited

/-- the bytes of a token -/
def tokBytes : Tok → Bytes
  | .lbrack => [91]
  | .rbrack => [93]
  | .lbrace => [123]
  | .rbrace => [125]
  | .comma => [44]
  | .ws true => [10]
  | .ws false => [32]
  | .key k => k ++ [58, 32]
  | .val e => e

/-! ### Grammar: a deterministic automaton for `ws* [ (obj (, obj)*)? ] ws*`,
`obj = { (key val (, key val)*)? }`, whitespace allowed between any two tokens. -/

inductive PMode
  | start      -- before `[`
  | arrFirst   -- after `[`: an object or `]`
  | arrElem    -- after `,` in the array: an object (no trailing comma)
  | arrAfter   -- after an object: `,` or `]`
  | objFirst   -- after `{`: a key or `}`
  | objKey     -- after `,` in an object: a key (no trailing comma)
  | objVal (k : Bytes)  -- after a key: its value
  | objAfter   -- after a value: `,` or `}`
  | done       -- after `]`: only whitespace
  deriving DecidableEq, Repr, Inhabited

structure PState where
  mode : PMode
  objs : List (List (Bytes × Bytes))   -- completed objects, in order
  cur : List (Bytes × Bytes)           -- members of the object being read, in order
  deriving DecidableEq, Repr, Inhabited

def pstep (s : PState) : Tok → Option PState
  | .ws _ => some s
  | .lbrack => match s.mode with
    | .start => some { s with mode := .arrFirst }
    | _ => none
  | .rbrack => match s.mode with
    | .arrFirst => some { s with mode := .done }
    | .arrAfter => some { s with mode := .done }
    | _ => none
  | .lbrace => match s.mode with
    | .arrFirst => some { s with mode := .objFirst, cur := [] }
    | .arrElem => some { s with mode := .objFirst, cur := [] }
    | _ => none
  | .rbrace => match s.mode with
    | .objFirst => some { mode := .arrAfter, objs := s.objs ++ [s.cur], cur := [] }
    | .objAfter => some { mode := .arrAfter, objs := s.objs ++ [s.cur], cur := [] }
    | _ => none
  | .comma => match s.mode with
    | .arrAfter => some { s with mode := .arrElem }
    | .objAfter => some { s with mode := .objKey }
    | _ => none
  | .key k => match s.mode with
    | .objFirst => some { s with mode := .objVal k }
    | .objKey => some { s with mode := .objVal k }
    | _ => none
  | .val e => match s.mode with
    | .objVal k => some { s with mode := .objAfter, cur := s.cur ++ [(k, e)] }
    | _ => none

def prun : PState → List Tok → Option PState
  | s, [] => some s
  | s, t :: ts => match pstep s t with
    | none => none
    | some s' => prun s' ts

/-- parse a token list as a JSON array of objects; the members of each object in order -/
def parseArr (ts : List Tok) : Option (List (List (Bytes × Bytes))) :=
  match prun { mode := .start, objs := [], cur := [] } ts with
  | none => none
  | some s => match s.mode with
    | .done => some s.objs
    | _ => none

/-! ### What a table denotes -/

def boolOrNone : Option Val → Bool
  | none => true
  | some (.bool _) => true
  | some _ => false

/-- skipable of cell index `i` (column `i+1`): own bool setting, else column 0's, else false -/
def skipableAt (v : RTable) (i : Nat) : Bool :=
  match v.colSkip.getD (i + 1) none with
  | some (.bool b) => b
  | _ => match v.colSkip.getD 0 none with
    | some (.bool b) => b
    | _ => false

def headerCells (v : RTable) : List RCell := v.header.getD []

/-- text of header cell `i` (empty if absent) -/
def headerText (v : RTable) (i : Nat) : Bytes :=
  match (headerCells v)[i]? with
  | some h => h.text
  | none => []

/-- the value written for a cell: its item's encoding, or the encoding of its text when the
item encodes as `{}` and the text is non-empty (`[]` when the item does not marshal) -/
def encCell (js : JsonStr) (c : RCell) : Bytes :=
  match c.json with
  | none => []
  | some t => if t = [123, 125] ∧ c.text ≠ [] then js c.text else t

/-- is the cell at index `i` written? (not when its column is skipable and the cell is empty) -/
def emitted (v : RTable) (c : RCell) (i : Nat) : Bool := !(skipableAt v i && c.empty)

/-- the members of the object for a row -/
def members (js : JsonStr) (v : RTable) (cells : List RCell) : List (Bytes × Bytes) :=
  cells.zipIdx.filterMap (fun (c, i) =>
    if emitted v c i then some (js (headerText v i), encCell js c) else none)

/-- one object per non-separator row, in order -/
def objects (js : JsonStr) (v : RTable) : List (List (Bytes × Bytes)) :=
  v.rows.filterMap (fun r => r.map (members js v))

/-! ### The claimed token stream -/

def objToks : List (Bytes × Bytes) → List Tok
  | [] => [.lbrace, .rbrace]
  | m :: ms =>
    [.lbrace, .key m.1, .val m.2] ++
      ms.flatMap (fun m => [.comma, .ws false, .key m.1, .val m.2]) ++ [.rbrace]

/-- rows: a separator is a blank line; an object is followed by `,\n` iff a later object exists -/
def rowsToks (js : JsonStr) (v : RTable) : List (Option (List RCell)) → List Tok
  | [] => []
  | none :: rs => .ws true :: rowsToks js v rs
  | some cells :: rs =>
    objToks (members js v cells) ++
      (if rs.any Option.isSome then [.comma, .ws true] else []) ++ rowsToks js v rs

def jsonToks (js : JsonStr) (v : RTable) : List Tok :=
  [.lbrack, .ws true] ++ rowsToks js v v.rows ++ [.ws true, .rbrack, .ws true]

/-! ### Well-formedness -/

/-- every cell that is written has an item that marshals -/
def MarshalOK (v : RTable) : Prop :=
  ∀ r ∈ v.rows, ∀ cs ∈ r, ∀ p ∈ cs.zipIdx, emitted v p.1 p.2 = true → p.1.json.isSome = true

instance (v : RTable) : Decidable (MarshalOK v) := by unfold MarshalOK; infer_instance

/-- the header part of `JsonOK` -/
def HeaderOK (v : RTable) : Prop :=
  1 ≤ v.ncols ∧
  boolOrNone (v.colSkip.getD 0 none) = true ∧
  v.header.isSome = true ∧
  v.ncols ≤ (headerCells v).length ∧
  (∀ i < v.ncols, headerText v i ≠ []) ∧
  (∀ i < v.ncols, ∀ j < i, headerText v j ≠ headerText v i) ∧
  (∀ i < v.ncols, boolOrNone (v.colSkip.getD (i + 1) none) = true)

instance (v : RTable) : Decidable (HeaderOK v) := by unfold HeaderOK; infer_instance

/-- the tables the JSON renderer accepts (`WFShape`, from Spec/Shape, is the table invariant:
header and rows have at most `ncols` cells) -/
def JsonOK (v : RTable) : Prop := HeaderOK v ∧ WFShape v ∧ MarshalOK v

instance (v : RTable) : Decidable (JsonOK v) := by unfold JsonOK; infer_instance

/-- the first complaint the header loop has about column `i+1`, if any -/
def headerDefect (v : RTable) (i : Nat) : Option ErrClass :=
  if headerText v i = [] then some .emptyHeader
  else if ∃ j < i, headerText v j = headerText v i then some .dupHeader
  else if boolOrNone (v.colSkip.getD (i + 1) none) = false then some .nonboolSkipable
  else none

end Tab
