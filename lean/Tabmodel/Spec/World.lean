/-
  Spec-level definitions for C02 (definitions only; lemmas are in `Proofs/World*.lean`).

  * the *shape* of a world: what is left when properties, callbacks, error containers,
    items, cell texts, copies and the event log are forgotten;
  * the abstract machine on shapes (`Shape.rowAdd`, `Shape.addRow`, …): the "slice of
    slices" reference the building operations are proved to refine;
  * the structural invariant `SInv` / `Inv`;
  * build histories: `BuildOp`, `applyOp`, `run`, validity, and the functions of a history
    that C02 speaks about (which row ids were attached to which table, in which order).
-/
import Tabmodel.Model.World

namespace Tab

/-- what a cell knows about its position: (`columnNum`, `inRow`) -/
abbrev CellGeo := Nat × Option Nat

structure RowShape where
  cells : Option (List CellGeo) := some []
  inTable : Option Nat := none
  isSep : Bool := false
  rowNum : Nat := 0
  deriving DecidableEq, Repr, Inhabited

structure TableShape where
  header : Option Nat := none
  rows : List Nat := []
  nColumns : Nat := 0
  nColRecs : Nat := 1        -- `len(t.columns)`
  deriving DecidableEq, Repr, Inhabited

structure Shape where
  tables : List TableShape := []
  rows : List RowShape := []
  deriving DecidableEq, Repr, Inhabited

def Cell.geo (c : Cell) : CellGeo := (c.columnNum, c.inRow)

def Row.shape (r : Row) : RowShape :=
  { cells := r.cells.map (·.map Cell.geo), inTable := r.inTable, isSep := r.isSep, rowNum := r.rowNum }

def Table.shape (t : Table) : TableShape :=
  { header := t.header, rows := t.rows, nColumns := t.nColumns, nColRecs := t.columns.length }

def World.shape (w : World) : Shape :=
  { tables := w.tables.map Table.shape, rows := w.rows.map Row.shape }

/-! ### the abstract machine -/
namespace Shape

def table (s : Shape) (t : Nat) : TableShape := s.tables.getD t {}
def row (s : Shape) (r : Nat) : RowShape := s.rows.getD r {}
def modTable (s : Shape) (t : Nat) (f : TableShape → TableShape) : Shape :=
  { s with tables := s.tables.modify t f }
def modRow (s : Shape) (r : Nat) (f : RowShape → RowShape) : Shape :=
  { s with rows := s.rows.modify r f }
/-- number of cells of a row (0 for a nil slice) -/
def width (s : Shape) (r : Nat) : Nat := ((s.row r).cells.getD []).length

def resize (tb : TableShape) (n : Nat) : TableShape :=
  if n ≤ tb.nColumns then tb
  else { tb with nColRecs := tb.nColRecs + (n + 1 - tb.nColRecs), nColumns := n }

def newTable (s : Shape) : Shape := { s with tables := s.tables ++ [{}] }
def newRow (s : Shape) (rs : RowShape) : Shape := { s with rows := s.rows ++ [rs] }

def rowAdd (s : Shape) (r : Nat) : Shape :=
  match (s.row r).cells with
  | none => s
  | some cs =>
    let col := cs.length + 1
    let s := s.modRow r (fun rw => { rw with cells := some (cs ++ [(col, some r)]) })
    match (s.row r).inTable with
    | some t => s.modTable t (fun tb => resize tb col)
    | none => s

def rowAddN (r : Nat) : Nat → Shape → Shape
  | 0, s => s
  | n + 1, s => rowAddN r n (s.rowAdd r)

def addRow (s : Shape) (t r : Nat) : Shape :=
  let s := s.modTable t (fun tb => { tb with rows := tb.rows ++ [r] })
  let n := (s.table t).rows.length
  let s := s.modRow r (fun rw => { rw with inTable := some t, rowNum := n })
  s.modTable t (fun tb => resize tb (s.width r))

def addSeparator (s : Shape) (t : Nat) : Shape :=
  let r := s.rows.length
  let s := s.newRow { cells := none, isSep := true }
  let s := s.modTable t (fun tb => { tb with rows := tb.rows ++ [r] })
  let n := (s.table t).rows.length
  s.modRow r (fun rw => { rw with inTable := some t, rowNum := n })

def addHeaders (s : Shape) (t n : Nat) : Shape :=
  let s := s.modTable t (fun tb => resize tb n)
  let hr := s.rows.length
  let s := s.newRow {}
  let s := rowAddN hr n s
  s.modTable t (fun tb => { tb with header := some hr })

def addRowItems (s : Shape) (t n : Nat) : Shape :=
  let r := s.rows.length
  let s := s.newRow {}
  let s := rowAddN r n s
  s.addRow t r

def appendNewRow (s : Shape) (t : Nat) : Shape :=
  let r := s.rows.length
  (s.newRow {}).addRow t r

end Shape

namespace Shape

/-- The structural invariant (all clauses hold trivially for ids outside the stores, whose
    `table`/`row` is the empty default). -/
structure SInv (s : Shape) : Prop where
  /-- `len(columns) = nColumns + 1` -/
  cols : ∀ t, (s.table t).nColRecs = (s.table t).nColumns + 1
  /-- row ids in a table's list exist -/
  rowsLt : ∀ t r, r ∈ (s.table t).rows → r < s.rows.length
  /-- the header row exists -/
  hdrLt : ∀ t h, (s.table t).header = some h → h < s.rows.length
  /-- the i-th row of table t knows it is row i+1 of t (so: in one table, once) -/
  att : ∀ t i r, (s.table t).rows[i]? = some r → (s.row r).inTable = some t ∧ (s.row r).rowNum = i + 1
  /-- a row that names a table is in that table's list (unattached rows have `inTable = none`) -/
  back : ∀ r t, (s.row r).inTable = some t → r ∈ (s.table t).rows
  /-- header rows are never attached -/
  hdrFree : ∀ t h, (s.table t).header = some h → (s.row h).inTable = none
  /-- attached rows are no wider than the column count -/
  wid : ∀ t r, r ∈ (s.table t).rows → s.width r ≤ (s.table t).nColumns
  /-- neither is the header -/
  hwid : ∀ t h, (s.table t).header = some h → s.width h ≤ (s.table t).nColumns
  /-- the j-th cell of row r says (column j+1, row r) -/
  geo : ∀ r cs j g, (s.row r).cells = some cs → cs[j]? = some g → g = (j + 1, some r)
  /-- separators have no cell slice -/
  sep : ∀ r, (s.row r).isSep = true → (s.row r).cells = none

end Shape

/-- the invariant on worlds -/
def Inv (w : World) : Prop := w.shape.SInv

/-! ### build histories -/

/-- The table-building operations of the public API (first group), and the operations that
    can be interleaved with them but never change the structure (second group). -/
inductive BuildOp
  | newTable
  | addHeaders (t : Nat) (items : List Nat)
  | addRowItems (t : Nat) (items : List Nat)
  | newRow                               -- NewRow / NewRowWithCapacity / NewRowSizedFor
  | zeroRow                              -- `&Row{}`: a row with a nil cell slice
  | appendNewRow (t : Nat)
  | rowAdd (r : Nat) (item : Nat)        -- Row.Add(NewCell(item)), before or after attaching
  | rowAddCell (r : Nat) (ce : Cell)     -- Row.Add of an arbitrary cell value
  | addRow (t r : Nat)
  | addSeparator (t : Nat)
  | regCb (owner : Target) (tm : Time) (tg : World.CbTarget) (cb : Cb)
  | setProp (o : Target) (k : Key) (v : Option Val)
  | addErr (tk : Taker) (e : Nat)
  | setItems (items : List Item)         -- any change to the item store
  | updateCell (r c : Nat)               -- Cell.Update
  | copyCell (r c : Nat)                 -- the caller keeps a by-value copy of a cell
  | render (t : Nat)                     -- InvokeRenderCallbacks, the world effect of every RenderTo

/-- one operation on the model -/
def applyOp (dw : Measure) (w : World) : BuildOp → World
  | .newTable => w.newTable.1
  | .addHeaders t items => w.addHeaders dw t items
  | .addRowItems t items => (w.addRowItems dw t items).1
  | .newRow => (w.newRow {}).1
  | .zeroRow => (w.newRow { cells := none }).1
  | .appendNewRow t => (w.appendNewRow dw t).1
  | .rowAdd r i => w.rowAdd dw r i
  | .rowAddCell r ce => w.rowAddCell dw r ce
  | .addRow t r => w.addRow dw t r
  | .addSeparator t => w.addSeparator t
  | .regCb o tm tg cb => (w.registerCb o tm tg cb).getD w
  | .setProp o k v => w.setProp o k v
  | .addErr tk e => w.addErrTo tk e
  | .setItems its => { w with items := its }
  | .updateCell r c => w.modCell r c (fun ce => ce.update dw (w.item ce.item))
  | .copyCell r c =>
    match w.cell? r c with
    | some ce => { w with copies := w.copies ++ [ce] }
    | none => w
  | .render t => w.invokeRenderCallbacks dw t

def runFrom (dw : Measure) (w : World) (ops : List BuildOp) : World := ops.foldl (applyOp dw) w
/-- the world a history builds, from nothing -/
def run (dw : Measure) (ops : List BuildOp) : World := runFrom dw {} ops

namespace Shape

/-- one operation on the abstract machine -/
def step (s : Shape) : BuildOp → Shape
  | .newTable => s.newTable
  | .addHeaders t items => s.addHeaders t items.length
  | .addRowItems t items => s.addRowItems t items.length
  | .newRow => s.newRow {}
  | .zeroRow => s.newRow { cells := none }
  | .appendNewRow t => s.appendNewRow t
  | .rowAdd r _ => s.rowAdd r
  | .rowAddCell r _ => s.rowAdd r
  | .addRow t r => s.addRow t r
  | .addSeparator t => s.addSeparator t
  | _ => s

def runFrom (s : Shape) (ops : List BuildOp) : Shape := ops.foldl step s

/-- `r` is some table's header row -/
def isHeader (s : Shape) (r : Nat) : Bool := s.tables.any (fun tb => tb.header == some r)

/-- Precondition of one operation (what a caller of the Go API can do):
    ids name existing objects; the header row is not reachable by callers, so it is never
    `Add`ed to or attached; `AddRow` takes a row that is not in a table yet. -/
def ok (s : Shape) : BuildOp → Bool
  | .addHeaders t _ => decide (t < s.tables.length)
  | .addRowItems t _ => decide (t < s.tables.length)
  | .appendNewRow t => decide (t < s.tables.length)
  | .addSeparator t => decide (t < s.tables.length)
  | .rowAdd r _ => decide (r < s.rows.length) && !s.isHeader r
  | .rowAddCell r _ => decide (r < s.rows.length) && !s.isHeader r
  | .addRow t r =>
    decide (t < s.tables.length) && decide (r < s.rows.length) &&
      ((s.row r).inTable == none) && !s.isHeader r
  | _ => true

def validFrom (s : Shape) : List BuildOp → Bool
  | [] => true
  | op :: ops => s.ok op && validFrom (s.step op) ops

end Shape

/-- validity of a whole history (a decidable, model-independent check: it runs on the
    abstract machine only) -/
def Valid (ops : List BuildOp) : Bool := Shape.validFrom {} ops

namespace BuildOp

/-- how many rows the operation adds to the row store -/
def newRows : BuildOp → Nat
  | .addHeaders _ _ => 1
  | .addRowItems _ _ => 1
  | .newRow => 1
  | .zeroRow => 1
  | .appendNewRow _ => 1
  | .addSeparator _ => 1
  | _ => 0

/-- the row ids the operation appends to table `t`'s list, when the store holds `n` rows -/
def attaches (t n : Nat) : BuildOp → List Nat
  | .addRowItems t' _ => if t' = t then [n] else []
  | .appendNewRow t' => if t' = t then [n] else []
  | .addSeparator t' => if t' = t then [n] else []
  | .addRow t' r => if t' = t then [r] else []
  | _ => []

/-- is this one of the four row-adding calls on table `t`? -/
def isAttach (t : Nat) : BuildOp → Bool
  | .addRowItems t' _ => t' == t
  | .appendNewRow t' => t' == t
  | .addSeparator t' => t' == t
  | .addRow t' _ => t' == t
  | _ => false

/-- the header length an `AddHeaders` on `t` asks for -/
def hdrDemand (t : Nat) : BuildOp → Nat
  | .addHeaders t' items => if t' = t then items.length else 0
  | _ => 0

end BuildOp

/-- the ids attached to `t` by a history, in order, when it starts with `n` rows in the store -/
def attachedFrom (t : Nat) : Nat → List BuildOp → List Nat
  | _, [] => []
  | n, op :: ops => op.attaches t n ++ attachedFrom t (n + op.newRows) ops

/-- number of AddRowItems / AppendNewRow / AddRow / AddSeparator calls on `t` -/
def attachCount (t : Nat) (ops : List BuildOp) : Nat := ops.countP (·.isAttach t)

/-- the largest header ever set on `t` -/
def hdrMax (t : Nat) (ops : List BuildOp) : Nat := ops.foldr (fun op m => max (op.hdrDemand t) m) 0

/-- the widest row currently attached to `t` -/
def Shape.rowsMax (s : Shape) (t : Nat) : Nat := ((s.table t).rows.map s.width).foldr max 0
def World.rowsMax (w : World) (t : Nat) : Nat :=
  ((w.table t).rows.map (fun r => (w.rowCells r).length)).foldr max 0

/-- the column demand of one operation on table `t` in state `s` (`resizeColumnsAtLeast` argument) -/
def Shape.demand (s : Shape) (t : Nat) : BuildOp → Nat
  | .addHeaders t' items => if t' = t then items.length else 0
  | .addRowItems t' items => if t' = t then items.length else 0
  | .rowAdd r _ =>
    match (s.row r).cells, (s.row r).inTable with
    | some cs, some t' => if t' = t then cs.length + 1 else 0
    | _, _ => 0
  | .rowAddCell r _ =>
    match (s.row r).cells, (s.row r).inTable with
    | some cs, some t' => if t' = t then cs.length + 1 else 0
    | _, _ => 0
  | .addRow t' r => if t' = t then s.width r else 0
  | _ => 0

end Tab
