/-
  Specification-side definitions for C03 / C04 (text table layout).  Definitions only:
  the layout of a text table written from the property statements (segments, slots,
  column widths, effective alignment, expected chunk list), independent of the
  renderer's control flow.  The lemmas tying them to `Model/Text.lean` are in
  `Proofs/TextLemmas.lean`, `Proofs/TextRender.lean`, `Proofs/TextDims.lean`.
-/
import Tabmodel.Model.Text
import Tabmodel.Spec.Shape
namespace Tab

/-- the blank entry (`decoration.WidthString{}`) -/
def blankWS : WidthString := { s := [], w := 0 }

/-! ### slots (C04) -/

/-- how `p` padding spaces are split (left, right) for alignment `al`
    (0 unset, 1 left, 2 right, 3 centre) -/
def padSplit (al p : Nat) : Nat × Nat :=
  if al = 2 then (p, 0) else if al = 3 then (p / 2, p - p / 2) else (0, p)

/-- padding available to a line laid out as `ws.w` wide in a column `cw` wide -/
def slotPad (ws : WidthString) (cw : Nat) : Nat := ((cw : Int) - ws.w).toNat

/-- the slot: the text unmodified, spaces left and right -/
def slotB (ws : WidthString) (cw al : Nat) : Bytes :=
  spaces (padSplit al (slotPad ws cw)).1 ++ ws.s ++ spaces (padSplit al (slotPad ws cw)).2

/-! ### segments (C03) -/

/-- A line (without its LF) is a list of segments. -/
inductive Seg
  | div (g : Bytes)                                 -- a corner / divider / cross glyph
  | run (g : Bytes) (k : Nat)                       -- the horizontal glyph, `k` copies
  | sp                                              -- the single joining space
  | slot (lp : Nat) (ws : WidthString) (rp : Nat)   -- `lp` spaces, the cell line, `rp` spaces
  deriving DecidableEq, Repr

def Seg.bytes : Seg → Bytes
  | .div g => g
  | .run g k => repeatB g k
  | .sp => [SP]
  | .slot lp ws rp => spaces lp ++ ws.s ++ spaces rp

/-- segment width: a glyph counts its `dw`, a slot counts padding plus the width its text is
    laid out with; `dw` is never applied to a concatenation -/
def Seg.width (dw : Measure) : Seg → Nat
  | .div g => dw g
  | .run g k => k * dw g
  | .sp => 1
  | .slot lp ws rp => lp + ws.w.toNat + rp

def segBytes (l : List Seg) : Bytes := (l.map Seg.bytes).flatten
def segWidth (dw : Measure) (l : List Seg) : Nat := (l.map (Seg.width dw)).sum

/-- the segment-sum offsets (from `a`) at which the `div` glyphs of a line start -/
def divOffsets (dw : Measure) : Nat → List Seg → List Nat
  | _, [] => []
  | a, .div g :: t => a :: divOffsets dw (a + dw g) t
  | a, s :: t => divOffsets dw (a + s.width dw) t

/-- the finest pieces of a segment, for the additivity hypothesis of `c03_whole_line` -/
def Seg.atoms : Seg → List Bytes
  | .div g => [g]
  | .run g k => List.replicate k g
  | .sp => [[SP]]
  | .slot lp ws rp => [spaces lp, ws.s, spaces rp]

/-- `dw` is additive over the atom boundaries of this line (FALSE for go-runewidth on some
    inputs: recorded finding D20) -/
def AdditiveOn (dw : Measure) (l : List Seg) : Prop :=
  dw ((l.flatMap Seg.atoms).flatten) = ((l.flatMap Seg.atoms).map dw).sum

/-- `[0, cw₀+3, cw₀+cw₁+6, …]` starting from `a`: one entry per divider, `cw.length + 1` entries -/
def colOffsets : Nat → List Nat → List Nat
  | a, [] => [a]
  | a, w :: t => a :: colOffsets (a + w + 3) t

/-- `1 + Σ (cwᵢ + 3)` -/
def boxedWidth (cw : List Nat) : Nat := 1 + (cw.map (· + 3)).sum

/-- `Σ cwᵢ + (n − 1)` -/
def boxlessWidth (cw : List Nat) : Nat := cw.sum + (cw.length - 1)

/-- rule line `left, run, cross, run, …, run, right` -/
def ruleSegs (left horiz cross right : Bytes) : List Nat → List Seg
  | [] => [.div left, .div right]
  | [w] => [.div left, .run horiz (w + 2), .div right]
  | w :: t => .div left :: .run horiz (w + 2) :: (ruleSegs cross horiz cross right t)

/-- a slot as structured data -/
structure SlotD where
  lp : Nat
  ws : WidthString
  rp : Nat
  deriving DecidableEq, Repr

def SlotD.bytes (s : SlotD) : Bytes := spaces s.lp ++ s.ws.s ++ spaces s.rp
def SlotD.seg (s : SlotD) : Seg := .slot s.lp s.ws s.rp
def SlotD.width (s : SlotD) : Nat := s.lp + s.ws.w.toNat + s.rp

def slotD (ws : WidthString) (cw al : Nat) : SlotD :=
  { lp := (padSplit al (slotPad ws cw)).1, ws := ws, rp := (padSplit al (slotPad ws cw)).2 }

/-- boxed content line: `left ␠ slot₀ ␠ inner ␠ slot₁ ␠ … ␠ slotₙ₋₁ ␠ right` -/
def boxedTail (inner right : Bytes) : List SlotD → List Seg
  | [] => [.div right]
  | [s] => [s.seg, .sp, .div right]
  | s :: t => s.seg :: .sp :: .div inner :: .sp :: boxedTail inner right t

def boxedSegs (left inner right : Bytes) (slots : List SlotD) : List Seg :=
  .div left :: .sp :: boxedTail inner right slots

/-- boxless content line: `slot₀ ␠ slot₁ ␠ … ␠ slotₙ₋₁` -/
def boxlessSegs : List SlotD → List Seg
  | [] => []
  | [s] => [s.seg]
  | s :: t => s.seg :: .sp :: boxlessSegs t

/-! ### the view: what each column and row contains -/

/-- the body cells of column `j` (separators and short rows contribute nothing) -/
def bodyColCells (rows : List (Option (List RCell))) (j : Nat) : List RCell :=
  rows.filterMap (fun r => r.bind (fun cells => cells[j]?))

/-- every header / body cell of (0-based) column `i`, header first -/
def RTable.colCells (v : RTable) (i : Nat) : List RCell :=
  (match v.header with | some hs => hs[i]?.toList | none => []) ++ bodyColCells v.rows i

/-- all cells of the view -/
def RTable.allCells (v : RTable) : List RCell :=
  (match v.header with | some hs => hs | none => []) ++
  v.rows.flatMap (fun r => match r with | some cells => cells | none => [])

def maxNat (xs : List Nat) : Nat := xs.foldl max 0

/-- column width: the maximum of 0 and the `cellWidth` of every cell of the column -/
def RTable.colWidth (v : RTable) (i : Nat) : Nat :=
  maxNat ((v.colCells i).map (fun c => c.cellWidth.toNat))

def RTable.colWidths (v : RTable) : List Nat := (List.range v.ncols).map v.colWidth

/-- the numeric alignment of a property value (anything else: unset) -/
def alignNum : Option Val → Nat
  | some (.align a) => a
  | _ => 0

/-- effective alignment of (0-based) column `i`: its own setting (column `i+1` of the API),
    else the all-columns default held by column 0 -/
def RTable.effAlign (v : RTable) (i : Nat) : Nat :=
  match v.colAlign.getD (i + 1) none with
  | some a => alignNum (some a)
  | none => alignNum (v.colAlign.getD 0 none)

def RTable.effAligns (v : RTable) : List Nat := (List.range v.ncols).map v.effAlign

/-- the entry of line `k` of a row in column `i`: the cell's `k`-th measured line, blank when the
    row has no such cell or the cell no such line -/
def cellLineWS (cells : List RCell) (i k : Nat) : WidthString :=
  match cells[i]? with
  | some c => c.lws.getD k blankWS
  | none => blankWS

/-- number of content lines of a row -/
def rowLineCount (cells : List RCell) (ncols : Nat) : Nat :=
  ((cells.take ncols).map (fun c => c.lws.length)).foldl max 1

/-- slots of a line: column `i` has width `cw[i]`, entry `g i`, alignment `aligns[i]` -/
def lineSlots (cw aligns : List Nat) (g : Nat → WidthString) : List SlotD :=
  cw.zipIdx.map (fun x => slotD (g x.2) x.1 (aligns.getD x.2 0))

/-- the slots of content line `k` of a row -/
def rowSlots (cw aligns : List Nat) (cells : List RCell) (k : Nat) : List SlotD :=
  lineSlots cw aligns (fun i => cellLineWS cells i k)

/-- a content line as bytes: the fields joined by one space, LF -/
def contentLine (left inner right : Bytes) (slots : List SlotD) : Bytes :=
  (if left = [] then joinSP (slots.map SlotD.bytes)
   else joinSP (left :: ((slots.map SlotD.bytes).intersperse inner ++ [right]))) ++ [LF]

def rowChunks (left inner right : Bytes) (cw aligns : List Nat) (cells : List RCell) (ncols : Nat) :
    List Bytes :=
  (List.range (rowLineCount cells ncols)).map (fun k =>
    contentLine left inner right (rowSlots cw aligns cells k))

/-- the expected chunk list of a render (one chunk per line; rule chunks are `[]` when boxless) -/
def specChunks (d : Decoration) (v : RTable) : List Bytes :=
  let cw := v.colWidths
  let al := v.effAligns
  (match v.header with
   | some hs => lineHeaderTop d cw :: (rowChunks d.vHeader d.vHeader d.vHeader cw al hs v.ncols
                  ++ [lineHeaderBodySep d cw])
   | none => [lineBodyTop d cw]) ++
  v.rows.flatMap (fun r => match r with
    | none => [lineSeparator d cw]
    | some cells => rowChunks d.vBodyBorder d.vBodyInner d.vBodyBorder cw al cells v.ncols) ++
  [lineBottom d cw]

/-- the (left, horiz, cross, right) glyphs of the five rule lines -/
def ruleGlyphs (d : Decoration) : List (Bytes × Bytes × Bytes × Bytes) :=
  [(d.topLeft, d.hOuter, d.hTopDown, d.topRight), (d.hBLeft, d.hOuter, d.hBCross, d.hBRight),
   (d.topLeft, d.hOuter, d.bTopDown, d.topRight), (d.bottomLeft, d.hOuter, d.bBottomUp, d.bottomRight),
   (d.leftBodyRule, d.hRule, d.crossPiece, d.rightBodyRule)]

/-- what a chunk of the expected chunk list can be -/
inductive LineKind (d : Decoration) (v : RTable) : Bytes → Prop
  | rule (l h x r : Bytes) (hm : (l, h, x, r) ∈ ruleGlyphs d) :
      LineKind d v (templateLine d v.colWidths l h x r)
  | header (hs : List RCell) (k : Nat) (hh : v.header = some hs) (hk : k < rowLineCount hs v.ncols) :
      LineKind d v (contentLine d.vHeader d.vHeader d.vHeader (rowSlots v.colWidths v.effAligns hs k))
  | body (cells : List RCell) (k : Nat) (hr : some cells ∈ v.rows) (hk : k < rowLineCount cells v.ncols) :
      LineKind d v (contentLine d.vBodyBorder d.vBodyInner d.vBodyBorder
        (rowSlots v.colWidths v.effAligns cells k))

/-! ### hypotheses -/

/-- alignment settings of columns `0 … ncols` are unset or one of left / right / centre -/
def AlignOK (v : RTable) : Prop :=
  ∀ i, i ≤ v.ncols → v.colAlign.getD i none = none ∨
    ∃ a, (a = 1 ∨ a = 2 ∨ a = 3) ∧ v.colAlign.getD i none = some (.align a)

/-- every glyph the renderer uses is non-empty and one display column wide; not boxless -/
structure GlyphOK (dw : Measure) (d : Decoration) : Prop where
  boxed : d.isBoxless = false
  ne : ∀ g ∈ [d.topLeft, d.hOuter, d.hTopDown, d.topRight, d.hBLeft, d.hBCross, d.hBRight, d.bTopDown,
      d.bottomLeft, d.bBottomUp, d.bottomRight, d.leftBodyRule, d.hRule, d.crossPiece, d.rightBodyRule,
      d.vHeader, d.vBodyBorder, d.vBodyInner], g ≠ []
  one : ∀ g ∈ [d.topLeft, d.hOuter, d.hTopDown, d.topRight, d.hBLeft, d.hBCross, d.hBRight, d.bTopDown,
      d.bottomLeft, d.bBottomUp, d.bottomRight, d.leftBodyRule, d.hRule, d.crossPiece, d.rightBodyRule,
      d.vHeader, d.vBodyBorder, d.vBodyInner], dw g = 1

/-- the boxless decoration: flag set, content dividers empty (rule glyphs are never read) -/
structure BoxlessOK (d : Decoration) : Prop where
  boxless : d.isBoxless = true
  vh : d.vHeader = []
  vb : d.vBodyBorder = []
  vi : d.vBodyInner = []

/-- the three dividers of a content line are all present (boxed) or all absent (boxless) -/
def DivsOK (L I R : Bytes) : Prop := (L ≠ [] ∧ I ≠ [] ∧ R ≠ []) ∨ (L = [] ∧ I = [] ∧ R = [])

/-- What the measuring callback (`dimProps`) establishes for a cell of the view:
    `lws` is one entry per text line (text unmodified) followed by blank entries; every laid-out
    width is non-negative; the line widths are either all measured by `dw`, or the text is a
    single line laid out with the cell width (declared-width item). -/
def CellOK (dw : Measure) (c : RCell) : Prop :=
  0 ≤ c.cellWidth ∧
  ∃ (wd : List Int) (k : Nat),
    wd.length = (lines c.text).length ∧
    c.lws = List.zipWith (fun l w => ({ s := l, w := w } : WidthString)) (lines c.text) wd
              ++ List.replicate k blankWS ∧
    (∀ w ∈ wd, 0 ≤ w) ∧
    (wd = (lines c.text).map (fun l => ((dw l : Nat) : Int)) ∨
     ((lines c.text).length = 1 ∧ wd = [c.cellWidth]))

/-- every laid-out line fits the cell width (holds when the item declares no width, or is a
    single line; FAILS for a multi-line item declaring a width smaller than its text) -/
def CellFits (c : RCell) : Prop := ∀ x ∈ c.lws, x.w ≤ c.cellWidth

/-- items that are not themselves a `tabular.Cell` value (nor nil): the arms of `Cell.Update`
    that measure the text and consult the override interfaces -/
def Item.plain (it : Item) : Prop := (∀ s w h e, it.kind ≠ .cell s w h e) ∧ it.kind ≠ .nil

/-- every laid-out width is the measure of its own text (true of cells without a declared width) -/
def CellMeasured (dw : Measure) (c : RCell) : Prop := ∀ x ∈ c.lws, x.w = ((dw x.s : Nat) : Int)

/-- the view cell of a plain text: measured lines, width of the longest (used for non-vacuity) -/
def measuredCell (dw : Measure) (text : Bytes) : RCell :=
  { text := text
    cellWidth := (longestLine dw text : Nat)
    lws := (lines text).map (fun l => { s := l, w := ((dw l : Nat) : Int) }) }

/-- `GlyphOK ∨ BoxlessOK`: the decorations the layout theorems cover -/
def DecoOK (dw : Measure) (d : Decoration) : Prop := GlyphOK dw d ∨ BoxlessOK d

def ViewOK (dw : Measure) (v : RTable) : Prop := ∀ c ∈ v.allCells, CellOK dw c ∧ CellFits c

end Tab
