/-
  Regenerated constants (C03, C07, C08, C19): literals and tables that the model copies from the
  source are re-extracted from /repo on every check (`Generated/Constants.lean`) and compared here,
  so an edit to one of them breaks a proof obligation (and the differential run then supplies the
  failing input, since output bytes change).  Each comparison is advisory when the extractor did
  not recognise the construct (a refactoring that builds the same thing differently).
-/
import Tabmodel.Generated.Constants
import Tabmodel.Model.Decoration
namespace Tab
open Generated

/-- the glyph fields of a decoration, by name -/
inductive DField
  | horizontal | vertical | crossPiece | topDown | vBorder | hOuter | hRule | vHeader | vBodyBorder
  | vBodyInner | topLeft | topRight | bottomLeft | bottomRight | leftBodyRule | rightBodyRule
  | hTopDown | bTopDown | bBottomUp | hBCross | hBLeft | hBRight
  deriving DecidableEq, Repr

def DField.get : DField → Decoration → Bytes
  | .horizontal, d => d.horizontal | .vertical, d => d.vertical | .crossPiece, d => d.crossPiece
  | .topDown, d => d.topDown | .vBorder, d => d.vBorder | .hOuter, d => d.hOuter | .hRule, d => d.hRule
  | .vHeader, d => d.vHeader | .vBodyBorder, d => d.vBodyBorder | .vBodyInner, d => d.vBodyInner
  | .topLeft, d => d.topLeft | .topRight, d => d.topRight | .bottomLeft, d => d.bottomLeft
  | .bottomRight, d => d.bottomRight | .leftBodyRule, d => d.leftBodyRule
  | .rightBodyRule, d => d.rightBodyRule | .hTopDown, d => d.hTopDown | .bTopDown, d => d.bTopDown
  | .bBottomUp, d => d.bBottomUp | .hBCross, d => d.hBCross | .hBLeft, d => d.hBLeft | .hBRight, d => d.hBRight

def DField.set : DField → Bytes → Decoration → Decoration
  | .horizontal, b, d => { d with horizontal := b } | .vertical, b, d => { d with vertical := b }
  | .crossPiece, b, d => { d with crossPiece := b } | .topDown, b, d => { d with topDown := b }
  | .vBorder, b, d => { d with vBorder := b } | .hOuter, b, d => { d with hOuter := b }
  | .hRule, b, d => { d with hRule := b } | .vHeader, b, d => { d with vHeader := b }
  | .vBodyBorder, b, d => { d with vBodyBorder := b } | .vBodyInner, b, d => { d with vBodyInner := b }
  | .topLeft, b, d => { d with topLeft := b } | .topRight, b, d => { d with topRight := b }
  | .bottomLeft, b, d => { d with bottomLeft := b } | .bottomRight, b, d => { d with bottomRight := b }
  | .leftBodyRule, b, d => { d with leftBodyRule := b } | .rightBodyRule, b, d => { d with rightBodyRule := b }
  | .hTopDown, b, d => { d with hTopDown := b } | .bTopDown, b, d => { d with bTopDown := b }
  | .bBottomUp, b, d => { d with bBottomUp := b } | .hBCross, b, d => { d with hBCross := b }
  | .hBLeft, b, d => { d with hBLeft := b } | .hBRight, b, d => { d with hBRight := b }

/-- Go field name → field -/
def DField.ofName (s : String) : Option DField :=
  [("Horizontal", DField.horizontal), ("Vertical", .vertical), ("CrossPiece", .crossPiece), ("TopDown", .topDown),
   ("VBorder", .vBorder), ("HOuter", .hOuter), ("HRule", .hRule), ("VHeader", .vHeader),
   ("VBodyBorder", .vBodyBorder), ("VBodyInner", .vBodyInner), ("TopLeft", .topLeft), ("TopRight", .topRight),
   ("BottomLeft", .bottomLeft), ("BottomRight", .bottomRight), ("LeftBodyRule", .leftBodyRule),
   ("RightBodyRule", .rightBodyRule), ("HTopDown", .hTopDown), ("BTopDown", .bTopDown), ("BBottomUp", .bBottomUp),
   ("HBCross", .hBCross), ("HBLeft", .hBLeft), ("HBRight", .hBRight)].lookup s

/-- the defaulting steps the model's `Decoration.populate` performs, as data -/
def documentedBase : List (DField × Bytes) := [(.horizontal, [72]), (.vertical, [86]), (.crossPiece, [88])]
def documentedPairs : List (DField × DField) :=
  [(.topDown, .crossPiece), (.vBorder, .vertical), (.hOuter, .horizontal), (.hRule, .horizontal),
   (.vHeader, .vBorder), (.vBodyBorder, .vBorder), (.vBodyInner, .vertical), (.topLeft, .crossPiece),
   (.topRight, .crossPiece), (.bottomLeft, .crossPiece), (.bottomRight, .crossPiece),
   (.leftBodyRule, .crossPiece), (.rightBodyRule, .crossPiece), (.hTopDown, .topDown), (.bTopDown, .topDown),
   (.bBottomUp, .crossPiece), (.hBCross, .crossPiece), (.hBLeft, .leftBodyRule), (.hBRight, .rightBodyRule)]

def applyDefaults (d : Decoration) : Decoration :=
  let d := documentedBase.foldl (fun d (p : DField × Bytes) => p.1.set (dflt (p.1.get d) p.2) d) d
  documentedPairs.foldl (fun d (p : DField × DField) => p.1.set (dflt (p.1.get d) (p.2.get d)) d) d

/-- the model's `populate` IS the interpretation of that table (for every decoration) -/
theorem c03_populate_is_table (d : Decoration) : d.populate = applyDefaults d := rfl

def populateRecognised : Bool :=
  populateBase.length == documentedBase.length && populatePairs.length == documentedPairs.length &&
  populatePairs.all (fun p => (DField.ofName p.1).isSome && (DField.ofName p.2).isSome)

/-- and the SOURCE's `Populate` performs exactly those steps in that order (regenerated) -/
theorem c03_populate_source :
    populateRecognised = false ∨
    (populateBase.map (fun p => (DField.ofName p.1, p.2)) = documentedBase.map (fun p => (some p.1, p.2)) ∧
     populatePairs.map (fun p => (DField.ofName p.1, DField.ofName p.2)) =
       documentedPairs.map (fun p => (some p.1, some p.2))) := by decide

/-- same elements with the same multiplicities (source order is irrelevant for these tables) -/
def sameMultiset (a b : List (List UInt8)) : Bool :=
  a.length == b.length && a.all (fun x => a.count x == b.count x)

/-- auto.Wrap's switch knows exactly the five sub-package names the model's `resolveStyle` tests
    (the order of `case` clauses over distinct strings does not matter) -/
theorem c19_auto_cases :
    autoCases.length != 5 ∨
    sameMultiset autoCases [[99, 115, 118], [104, 116, 109, 108], [109, 97, 114, 107, 100, 111, 119, 110],
                            [106, 115, 111, 110], [116, 101, 120, 116, 116, 97, 98, 108, 101]] = true := by decide

/-- auto.ListStyles appends exactly csv, html, json, markdown (the result is sorted afterwards) -/
theorem c19_liststyles_extra :
    listStylesExtra.length != 4 ∨
    sameMultiset listStylesExtra [[99, 115, 118], [104, 116, 109, 108], [106, 115, 111, 110],
                                  [109, 97, 114, 107, 100, 111, 119, 110]] = true := by decide

/-- the Markdown cell escaper replaces LF by `&#x0a;` and `|` by `&#x7c;` (on top of html.EscapeString);
    the two replacements are independent, so their order does not matter -/
theorem c08_md_replacements :
    mdReplacements.length != 4 ∨
    (mdReplacements = [[10], [38, 35, 120, 48, 97, 59], [124], [38, 35, 120, 55, 99, 59]] ∨
     mdReplacements = [[124], [38, 35, 120, 55, 99, 59], [10], [38, 35, 120, 48, 97, 59]]) := by decide

/-- the JSON renderer's punctuation literals: `[\n`  `,\n`  `\n`  `\n]\n`  `{}`  `}` -/
theorem c07_json_literals :
    jsonWritten.length != 6 ∨
    sameMultiset jsonWritten [[91, 10], [44, 10], [10], [10, 93, 10], [123, 125], [125]] = true := by decide

end Tab
