/-
  C10 — a table renders the same whatever wrapper created it or is wrapped around it.

  In the model a wrapper is `(kind, core, decor, html)` and `X.Wrap(ref)` acts on the world by
  `wrapEffect` (registers the measuring callback of texttable / markdown on the core table; the
  repaired Go behaviour).  Hypotheses, as in C14 (Proofs/StableDefs.lean): `LogOnly w t` (the
  table's render-time user callbacks only log) and `Needs w wr` (the measuring callback the
  renderer of `wr.kind` relies on is registered — true after `wrapEffect w wr.kind wr.core`).
-/
import Tabmodel.Proofs.StableBuild
namespace Tab
open World

/-- One more wrapper of any kind around any table of the world (so: extra accumulated measuring
    callbacks, of the same or of the other sub-package) never changes what `wr` emits. -/
theorem c10_wrap_indep (x : Ext) (w : World) (k : WKind) (t : Nat) (wr : Wrapper)
    (hL : LogOnly w wr.core) (hN : Needs w wr) :
    (renderTo x (w.wrapEffect k t) wr).2 = (renderTo x w wr).2 :=
  (Stable.wrap w k t).render_eq x wr hL hN

/-- Any nesting of wrappers, of whatever kinds, around the core table: rendering through the
    outermost equals rendering directly. -/
theorem c10_nesting (x : Ext) (w : World) (ks : List WKind) (wr : Wrapper)
    (hL : LogOnly w wr.core) (hN : Needs w wr) :
    (renderTo x (ks.foldl (fun w k => w.wrapEffect k wr.core) w) wr).2 = (renderTo x w wr).2 :=
  (stable_wraps wr.core ks w).render_eq x wr hL hN

/-- Whatever wrappers are already around an existing table (it was made by some `X.New()`, wrapped
    again, …), wrapping it once more for the target format and rendering gives what wrapping the
    bare core table and rendering gives.  No `Needs` hypothesis: the last wrap provides it. -/
theorem c10_created_by (x : Ext) (w : World) (ks : List WKind) (wr : Wrapper)
    (hL : LogOnly w wr.core) (ht : wr.core < w.tables.length) :
    (renderTo x ((ks.foldl (fun w k => w.wrapEffect k wr.core) w).wrapEffect wr.kind wr.core) wr).2 =
      (renderTo x (w.wrapEffect wr.kind wr.core) wr).2 := by
  have hs := stable_wraps wr.core ks w
  exact render_congr x _ _ wr (by rw [bare_wrapEffect, bare_wrapEffect, hs.bare])
    (logOnly_wrapEffect _ _ _ _ (hs.logOnly _ hL)) (logOnly_wrapEffect _ _ _ _ hL)
    (needs_wrapEffect_self _ wr (by rw [hs.ntables]; exact ht)) (needs_wrapEffect_self _ wr ht)

/-- "The same logical table": two worlds that agree once every callback set, the event log and
    the private measurement properties are forgotten (`World.bare`) — whatever created the table,
    whatever wrappers were put around it and when — give the same package-level rendering. -/
theorem c10_same_table (x : Ext) (w1 w2 : World) (wr : Wrapper) (hb : w1.bare = w2.bare)
    (hL1 : LogOnly w1 wr.core) (hL2 : LogOnly w2 wr.core) (ht : wr.core < w1.tables.length) :
    (renderTo x (w1.wrapEffect wr.kind wr.core) wr).2 = (renderTo x (w2.wrapEffect wr.kind wr.core) wr).2 := by
  have ht2 : wr.core < w2.tables.length := by
    have h := congrArg (fun w => w.tables.length) hb
    simp only [World.bare, List.length_map] at h
    omega
  exact render_congr x _ _ wr (by rw [bare_wrapEffect, bare_wrapEffect, hb])
    (logOnly_wrapEffect _ _ _ _ hL1) (logOnly_wrapEffect _ _ _ _ hL2)
    (needs_wrapEffect_self _ wr ht) (needs_wrapEffect_self _ wr ht2)

/-! ### the three ways to render -/

/-- the wrapper `X.Wrap(t)` returns; `heavy` is texttable's default decoration `UTF8BoxHeavy()` -/
def defaultWrapper (heavy : Decoration) (k : WKind) (t : Nat) : Wrapper :=
  { kind := k, core := t, decor := if k = .text then heavy else {} }

/-- package-level `X.RenderTo(t, …)`, i.e. `X.Wrap(t).RenderTo(…)` -/
def World.pkgRender (x : Ext) (heavy : Decoration) (w : World) (k : WKind) (t : Nat) : World × Emit Unit :=
  renderTo x (w.wrapEffect k t) (defaultWrapper heavy k t)

/-- the wrapper `auto.Wrap(t, style)` returns -/
def autoWrapper (reg : Registry) (heavy : Decoration) (style : Bytes) (t : Nat) : Wrapper :=
  match resolveStyle reg heavy style with
  | .csv => { kind := .csv, core := t }
  | .html => { kind := .html, core := t }
  | .markdown => { kind := .markdown, core := t }
  | .json => { kind := .json, core := t }
  | .text d => { kind := .text, core := t, decor := d }

/-- `auto.RenderTo(t, style, …)`, i.e. `auto.Wrap(t, style).RenderTo(…)` -/
def World.autoRender (x : Ext) (reg : Registry) (heavy : Decoration) (w : World) (t : Nat) (style : Bytes) :
    World × Emit Unit :=
  renderTo x (w.wrapEffect (autoWrapper reg heavy style t).kind t) (autoWrapper reg heavy style t)

/-- `renderTo` reads a wrapper only through its kind, its core table, its decoration (text only)
    and its html settings (html only): the wrapper method, the package-level function and `auto`
    are this one function. -/
theorem c10_paths (x : Ext) (w : World) (wr wr' : Wrapper) (hk : wr.kind = wr'.kind) (hc : wr.core = wr'.core)
    (hd : wr.kind = .text → wr.decor = wr'.decor) (hh : wr.kind = .html → wr.html = wr'.html) :
    renderTo x w wr = renderTo x w wr' := by
  unfold renderTo
  rw [← hk, ← hc]
  cases hkind : wr.kind with
  | text => simp only [hd hkind]
  | html => simp only [hh hkind]
  | _ => rfl

/-- `auto` with a style string is the package-level function of the format the string resolves
    to; for a texttable style it is the wrapper method of a text wrapper carrying the named
    decoration (for the plain style "texttable", the default one: the package-level function). -/
theorem c10_paths_auto (x : Ext) (reg : Registry) (heavy : Decoration) (w : World) (t : Nat) (style : Bytes) :
    World.autoRender x reg heavy w t style =
      match resolveStyle reg heavy style with
      | .csv => World.pkgRender x heavy w .csv t
      | .html => World.pkgRender x heavy w .html t
      | .markdown => World.pkgRender x heavy w .markdown t
      | .json => World.pkgRender x heavy w .json t
      | .text d => renderTo x (w.wrapEffect .text t) { kind := .text, core := t, decor := d } := by
  unfold World.autoRender autoWrapper World.pkgRender defaultWrapper
  cases resolveStyle reg heavy style <;> rfl

/-- `Render()` returns exactly the bytes `RenderTo` writes, or (with the error) nothing. -/
theorem c10_render_eq_renderto (m : Emit Unit) :
    (∀ u, m.res = .ok u → World.renderString m = (m.output, none)) ∧
    (∀ s, m.res = .error s → World.renderString m = ([], some s)) := by
  unfold World.renderString
  constructor
  · intro u h; rw [h]
  · intro s h; rw [h]

/-- `X.New()`: a new core table with the sub-package's wrapper around it -/
def World.newVia (w : World) (k : WKind) : World × Nat :=
  let (w', t) := w.newTable
  (w'.wrapEffect k t, t)

/-- `X.New()` is `X.Wrap(tabular.New())`; the table it returns satisfies the hypotheses of the
    theorems above for a wrapper of that kind, and differs from a core-made table only by the
    registered measuring callback (same observation). -/
theorem c10_new (w : World) (k : WKind) :
    w.newVia k = (w.newTable.1.wrapEffect k w.newTable.2, w.newTable.2) ∧
    LogOnly (w.newVia k).1 (w.newVia k).2 ∧
    (∀ wr : Wrapper, wr.kind = k → wr.core = (w.newVia k).2 → Needs (w.newVia k).1 wr) ∧
    (w.newVia k).1.obs (w.newVia k).2 = w.newTable.1.obs w.newTable.2 := by
  refine ⟨rfl, ?_, ?_, ?_⟩
  · exact logOnly_wrapEffect _ _ _ _ (logOnly_newTable w)
  · intro wr hk hc
    subst hk
    have : (w.newVia wr.kind).2 = w.newTable.2 := rfl
    rw [this] at hc
    have h := needs_wrapEffect_self w.newTable.1 wr (by rw [hc]; exact newTable_lt w)
    rw [hc] at h
    exact h
  · exact obs_wrapEffect _ _ _ _

/-- Filling a table commutes with wrapping it: `X.Wrap` (hence `X.New`) only appends to the
    table's render-time cell-callback list, which no content-building step reads. -/
theorem c10_build_commutes (dw : Measure) (k : WKind) (t : Nat) (ops : List ContentOp)
    (hops : ∀ op ∈ ops, op.okFor t) (w : World) :
    ops.foldl (ContentOp.run dw) (w.wrapEffect k t) = (ops.foldl (ContentOp.run dw) w).wrapEffect k t :=
  wrapEffect_buildOps dw k t ops hops w

/-- Creation paths: a table made by sub-package `k`'s `New()` and then filled by `ops` renders
    (package-level function / fresh wrapper of `wr.kind`) exactly as the table made by
    `tabular.New()` and filled by the same `ops`. -/
theorem c10_creation_paths (x : Ext) (w : World) (k : WKind) (ops : List ContentOp) (wr : Wrapper)
    (hc : wr.core = w.newTable.2) (hops : ∀ op ∈ ops, op.okFor wr.core)
    (hL : LogOnly (ops.foldl (ContentOp.run x.dw) w.newTable.1) wr.core)
    (ht : wr.core < (ops.foldl (ContentOp.run x.dw) w.newTable.1).tables.length) :
    (renderTo x ((ops.foldl (ContentOp.run x.dw) (w.newVia k).1).wrapEffect wr.kind wr.core) wr).2 =
      (renderTo x ((ops.foldl (ContentOp.run x.dw) w.newTable.1).wrapEffect wr.kind wr.core) wr).2 := by
  have h1 : (w.newVia k).1 = w.newTable.1.wrapEffect k wr.core := by rw [hc]; rfl
  rw [h1, wrapEffect_buildOps x.dw k wr.core ops hops]
  exact c10_created_by x _ [k] wr hL ht

/-! ### non-vacuity -/

def c10Item (b : UInt8) : Item :=
  { kind := .str [b], mString := none, mGoString := none, mError := none, fmtV := [b],
    mHeight := none, mWidth := none, json := some [34, b, 34] }

/-- one core-made table with a header, two rows and a separator, no wrapper yet -/
def c10World : World :=
  let w : World := { items := [c10Item 97, c10Item 98, c10Item 99, c10Item 100, c10Item 101, c10Item 102] }
  let (w, t) := w.newTable
  let w := w.addHeaders List.length t [0, 1]
  let (w, _) := w.addRowItems List.length t [2, 3]
  let w := w.addSeparator t
  (w.addRowItems List.length t [4, 5]).1

def c10Text : Wrapper := { kind := .text, core := 0, decor := { vHeader := [124] } }
def c10Md : Wrapper := { kind := .markdown, core := 0 }

/-- hypotheses of `c10_created_by` -/
example : LogOnly c10World 0 ∧ c10Text.core < c10World.tables.length := by decide
/-- hypotheses of `c10_wrap_indep` / `c10_nesting`, for a text and for a markdown wrapper, on the
    table wrapped as text, csv, markdown -/
example : LogOnly (((c10World.wrapEffect .text 0).wrapEffect .csv 0).wrapEffect .markdown 0) 0 ∧
    Needs (((c10World.wrapEffect .text 0).wrapEffect .csv 0).wrapEffect .markdown 0) c10Text ∧
    Needs (((c10World.wrapEffect .text 0).wrapEffect .csv 0).wrapEffect .markdown 0) c10Md := by decide
/-- hypotheses of `c10_same_table`: the core-made table and the same table wrapped as text first -/
example : (c10World.wrapEffect .text 0).bare = c10World.bare ∧ LogOnly (c10World.wrapEffect .text 0) 0 :=
  ⟨bare_wrapEffect _ _ _, by decide⟩
/-- hypotheses of `c10_build_commutes` / `c10_creation_paths`: the same table as a list of steps -/
def c10Ops : List ContentOp := [.addHeaders 0 [0, 1], .addRowItems 0 [2, 3], .addSeparator 0, .addRowItems 0 [4, 5]]
def c10Empty : World := { items := [c10Item 97, c10Item 98, c10Item 99, c10Item 100, c10Item 101, c10Item 102] }
example : c10Ops.foldl (ContentOp.run List.length) c10Empty.newTable.1 = c10World := rfl
example : ∀ op ∈ c10Ops, op.okFor 0 := by
  intro op hop
  simp only [c10Ops, List.mem_cons, List.mem_nil_iff, or_false] at hop
  rcases hop with h | h | h | h <;> subst h <;> trivial
example : c10Text.core = c10Empty.newTable.2 ∧
    LogOnly (c10Ops.foldl (ContentOp.run List.length) c10Empty.newTable.1) c10Text.core ∧
    c10Text.core < (c10Ops.foldl (ContentOp.run List.length) c10Empty.newTable.1).tables.length := by decide
/-- … and `Needs` is a real hypothesis: the bare core table does not have it -/
example : ¬ Needs c10World c10Text := by decide

end Tab
