/- C06 — HTML output has a fixed tag skeleton and cell text can never become markup.
   Spec side: a tokenizer, an entity decoder and the literal expected token list. -/
import Tabmodel.Model.Html
import Tabmodel.Proofs.C06Lit
import Tabmodel.Proofs.C06Esc
import Tabmodel.Proofs.C06List
namespace Tab

/-! ### Spec definitions -/

/-- An HTML token: a tag (its full source text, `<` … `>` inclusive) or a run of text. -/
inductive HTok
  | tag (body : Bytes)
  | text (body : Bytes)
  deriving DecidableEq, Repr

def HTok.body : HTok → Bytes
  | .tag b => b
  | .text b => b

/-- a pending text run becomes a token only when it is non-empty -/
def textTok (s : Bytes) : List HTok := if s = [] then [] else [.text s]

/-- Tokenizer state machine. `inTag = false`: collecting text in `acc` up to the next `<`;
    `inTag = true`: collecting a tag (`acc` starts with the `<`) up to and including the next `>`.
    An unterminated tag at end of input is still a tag token (nothing is dropped). -/
def tokGo : Bool → Bytes → Bytes → List HTok
  | false, acc, [] => textTok acc
  | true, acc, [] => [.tag acc]
  | false, acc, b :: bs =>
    if b = 60 then textTok acc ++ tokGo true [60] bs else tokGo false (acc ++ [b]) bs
  | true, acc, b :: bs =>
    if b = 62 then .tag (acc ++ [62]) :: tokGo false [] bs else tokGo true (acc ++ [b]) bs

def tokenize (s : Bytes) : List HTok := tokGo false [] s

/-- concatenation of token sources: `tokenize` loses nothing (`c06_tokenize_lossless`) -/
def untok (l : List HTok) : Bytes := l.flatMap HTok.body

/-- Inverse of `htmlEscape` on the six entities it produces; every other byte is kept. -/
def htmlDecode : Bytes → Bytes
  | 38 :: 35 :: 51 :: 52 :: 59 :: r => 34 :: htmlDecode r    -- &#34;
  | 38 :: 97 :: 109 :: 112 :: 59 :: r => 38 :: htmlDecode r  -- &amp;
  | 38 :: 35 :: 51 :: 57 :: 59 :: r => 39 :: htmlDecode r    -- &#39;
  | 38 :: 35 :: 52 :: 51 :: 59 :: r => 43 :: htmlDecode r    -- &#43;
  | 38 :: 108 :: 116 :: 59 :: r => 60 :: htmlDecode r        -- &lt;
  | 38 :: 103 :: 116 :: 59 :: r => 62 :: htmlDecode r        -- &gt;
  | b :: r => b :: htmlDecode r
  | [] => []

/-- the six entities -/
def htmlEntities : List Bytes :=
  [bytesOfString "&#34;", bytesOfString "&amp;", bytesOfString "&#39;",
   bytesOfString "&#43;", bytesOfString "&lt;", bytesOfString "&gt;"]

/-- what the escaper does to NUL: U+FFFD -/
def nulToFFFD (s : Bytes) : Bytes := s.flatMap (fun b => if b = 0 then [0xEF, 0xBF, 0xBD] else [b])

/-- ` name="` escaped-value `"` -/
def attrBytes (pre : String) (val : Bytes) : Bytes :=
  bytesOfString pre ++ htmlEscape val ++ bytesOfString "\""

/-- `<table[ class="…"][ id="…"]>` -/
def tableOpenTag (cfg : HtmlCfg) : Bytes :=
  bytesOfString "<table" ++
  (if cfg.cls != [] then attrBytes " class=\"" cfg.cls else []) ++
  (if cfg.id != [] then attrBytes " id=\"" cfg.id else []) ++
  bytesOfString ">"

/-- `<tr[ class="…"]>` for row number `n` (0 = header row) -/
def trOpenTag (cfg : HtmlCfg) (n : Nat) : Bytes :=
  bytesOfString "<tr" ++
  (match cfg.rowClass with
   | some f => attrBytes " class=\"" (f n)
   | none => []) ++
  bytesOfString ">"

/-- `<th>` escaped-text `</th>` (no text token for an empty cell) -/
def cellToks (tag : String) (c : RCell) : List HTok :=
  [.tag (bytesOfString ("<" ++ tag ++ ">"))] ++ textTok (htmlEscape c.text) ++
  [.tag (bytesOfString ("</" ++ tag ++ ">"))]

/-- newline + indent, `<tr…>`, the cells, `</tr>` -/
def rowToks (cfg : HtmlCfg) (n : Nat) (tag : String) (cells : List RCell) : List HTok :=
  [.text (bytesOfString "\n    "), .tag (trOpenTag cfg n)] ++ cells.flatMap (cellToks tag) ++
  [.tag (bytesOfString "</tr>")]

/-- The literal expected token list. -/
def skeleton (cfg : HtmlCfg) (v : RTable) : List HTok :=
  [.tag (tableOpenTag cfg)] ++
  (if cfg.caption != [] then
    [.text (bytesOfString "\n  "), .tag (bytesOfString "<caption>"),
     .text (htmlEscape cfg.caption), .tag (bytesOfString "</caption>")]
   else []) ++
  [.text (bytesOfString "\n  "), .tag (bytesOfString "<thead>")] ++
  rowToks cfg 0 "th" (v.header.getD []) ++
  [.text (bytesOfString "\n  "), .tag (bytesOfString "</thead>"),
   .text (bytesOfString "\n  "), .tag (bytesOfString "<tbody>")] ++
  (v.rows.zipIdx.flatMap (fun (r, i) => match r with
    | none => []
    | some cells => rowToks cfg (i + 1) "td" cells)) ++
  [.text (bytesOfString "\n  "), .tag (bytesOfString "</tbody>"),
   .text (bytesOfString "\n"), .tag (bytesOfString "</table>"), .text (bytesOfString "\n")]

/-- the arguments at which the row-class generator is evaluated, in order:
    0 for the header row, then `i+1` for every non-separator row `rows[i]` -/
def rowClassArgs (v : RTable) : List Nat :=
  0 :: v.rows.zipIdx.filterMap (fun (r, i) => if r.isSome then some (i + 1) else none)

/-- the tag literals of the template other than `<table…>` and `<tr…>` -/
def fixedLiteralTags : List Bytes :=
  [bytesOfString "<caption>", bytesOfString "</caption>", bytesOfString "<thead>",
   bytesOfString "</thead>", bytesOfString "<tbody>", bytesOfString "</tbody>",
   bytesOfString "</table>", bytesOfString "</tr>", bytesOfString "<th>", bytesOfString "</th>",
   bytesOfString "<td>", bytesOfString "</td>"]

/-- the fixed tag forms of the template for this configuration and table -/
def IsFixedTag (cfg : HtmlCfg) (v : RTable) (t : Bytes) : Prop :=
  t = tableOpenTag cfg ∨ (∃ n ∈ rowClassArgs v, t = trOpenTag cfg n) ∨ t ∈ fixedLiteralTags

/-- a `<tr` opening tag (with or without attributes) -/
def isTrOpen : HTok → Bool
  | .tag b => (bytesOfString "<tr").isPrefixOf b
  | .text _ => false

/-! ### Helper lemmas about the spec definitions above
   (private: they mention `tokGo`/`skeleton`/…, which are defined in this file, so they cannot live in
   `Proofs/`; everything that is about the model only is in `Proofs/C06{Lit,Esc,List}.lean`).
   The property theorems start at "Property theorems" below. -/

private theorem tokGo_text_cons (acc : Bytes) (b : UInt8) (rest : Bytes) :
    tokGo false acc (b :: rest) =
      if b = 60 then textTok acc ++ tokGo true [60] rest else tokGo false (acc ++ [b]) rest := by
  simp [tokGo]
private theorem tokGo_tag_cons (acc : Bytes) (b : UInt8) (rest : Bytes) :
    tokGo true acc (b :: rest) =
      if b = 62 then .tag (acc ++ [62]) :: tokGo false [] rest else tokGo true (acc ++ [b]) rest := by
  simp [tokGo]
private theorem tokGo_text_nil (acc : Bytes) : tokGo false acc [] = textTok acc := by simp [tokGo]
private theorem tokGo_tag_nil (acc : Bytes) : tokGo true acc [] = [.tag acc] := by simp [tokGo]

private theorem tokGo_text_app (s acc rest : Bytes) (h : ∀ b ∈ s, b ≠ 60) :
    tokGo false acc (s ++ rest) = tokGo false (acc ++ s) rest := by
  induction s generalizing acc with
  | nil => simp
  | cons b s ih =>
    have hb : b ≠ 60 := h b (by simp)
    rw [List.cons_append, tokGo_text_cons, if_neg hb, ih _ (fun c hc => h c (by simp [hc]))]
    simp

private theorem tokGo_tag_app (s acc rest : Bytes) (h : ∀ b ∈ s, b ≠ 62) :
    tokGo true acc (s ++ rest) = tokGo true (acc ++ s) rest := by
  induction s generalizing acc with
  | nil => simp
  | cons b s ih =>
    have hb : b ≠ 62 := h b (by simp)
    rw [List.cons_append, tokGo_tag_cons, if_neg hb, ih _ (fun c hc => h c (by simp [hc]))]
    simp

private theorem tokGo_text_esc (x acc rest : Bytes) :
    tokGo false acc (htmlEscape x ++ rest) = tokGo false (acc ++ htmlEscape x) rest :=
  tokGo_text_app _ _ _ (fun b hb => (htmlEscape_inert x b hb).1)
private theorem tokGo_tag_esc (x acc rest : Bytes) :
    tokGo true acc (htmlEscape x ++ rest) = tokGo true (acc ++ htmlEscape x) rest :=
  tokGo_tag_app _ _ _ (fun b hb => (htmlEscape_inert x b hb).2.1)

private theorem textTok_nil : textTok [] = [] := rfl
private theorem textTok_ne {s : Bytes} (h : s ≠ []) : textTok s = [.text s] := by simp [textTok, h]

/-- lossless -/
private theorem untok_tokGo (inTag : Bool) (acc s : Bytes) : untok (tokGo inTag acc s) = acc ++ s := by
  induction s generalizing inTag acc with
  | nil =>
    cases inTag
    · simp only [tokGo_text_nil, textTok]; split <;> simp_all [untok, HTok.body]
    · simp [tokGo_tag_nil, untok, HTok.body]
  | cons b s ih =>
    cases inTag
    · rw [tokGo_text_cons]
      split
      · rename_i hb; subst hb
        have : untok (textTok acc) = acc := by
          simp only [textTok]; split <;> simp_all [untok, HTok.body]
        simp only [untok, List.flatMap_append] at this ih ⊢
        rw [this, ih]; simp
      · rw [ih]; simp
    · rw [tokGo_tag_cons]
      split
      · rename_i hb; subst hb
        simp only [untok, List.flatMap_cons, HTok.body] at ih ⊢
        rw [ih]; simp
      · rw [ih]; simp

private theorem htmlDecode_cons_ne (b : UInt8) (r : Bytes) (h : b ≠ 38) : htmlDecode (b :: r) = b :: htmlDecode r := by
  rw [htmlDecode.eq_def]
  split <;> simp_all

private theorem htmlDecode_escByte (b : UInt8) (r : Bytes) :
    htmlDecode (htmlEscByte b ++ r) = (if b = 0 then [0xEF, 0xBF, 0xBD] else [b]) ++ htmlDecode r := by
  rcases htmlEscByte_cases b with h | h | h | h | h | h | h | h
  · rw [h.2, h.1]
    simp only [List.cons_append, List.nil_append]
    rw [htmlDecode_cons_ne _ _ (by decide), htmlDecode_cons_ne _ _ (by decide), htmlDecode_cons_ne _ _ (by decide)]
    simp
  · rw [h.2, h.1]; simp [htmlDecode]
  · rw [h.2, h.1]; simp [htmlDecode]
  · rw [h.2, h.1]; simp [htmlDecode]
  · rw [h.2, h.1]; simp [htmlDecode]
  · rw [h.2, h.1]; simp [htmlDecode]
  · rw [h.2, h.1]; simp [htmlDecode]
  · rw [h.2, if_neg h.1.1]
    simp only [List.cons_append, List.nil_append]
    rw [htmlDecode_cons_ne _ _ h.1.2.2.1]

private theorem decode_escape_nul (s : Bytes) : htmlDecode (htmlEscape s) = nulToFFFD s := by
  induction s with
  | nil => simp [htmlEscape_nil, htmlDecode, nulToFFFD]
  | cons b s ih =>
    rw [htmlEscape_cons, htmlDecode_escByte, ih]
    simp [nulToFFFD]


private theorem tok_table_open (cfg : HtmlCfg) (rest : Bytes) :
    tokGo false []
      (bytesOfString "<table" ++
        ((if cfg.cls != [] then bytesOfString " class=\"" ++ (htmlEscape cfg.cls ++ bytesOfString "\"") else []) ++
        ((if cfg.id != [] then bytesOfString " id=\"" ++ (htmlEscape cfg.id ++ bytesOfString "\"") else []) ++
        (bytesOfString ">\n" ++ rest)))) =
    .tag (tableOpenTag cfg) :: tokGo false [10] rest := by
  unfold tableOpenTag attrBytes
  html_lits
  by_cases hc : cfg.cls = [] <;> by_cases hi : cfg.id = [] <;>
    simp [hc, hi, tokGo_text_cons, tokGo_tag_cons, tokGo_tag_esc, textTok]

/-- the caption block of `skeleton` -/
private def captionToks (cfg : HtmlCfg) : List HTok :=
  if cfg.caption != [] then
    [.text (bytesOfString "\n  "), .tag (bytesOfString "<caption>"),
     .text (htmlEscape cfg.caption), .tag (bytesOfString "</caption>")]
  else []

private theorem tok_caption (cfg : HtmlCfg) (rest : Bytes) :
    tokGo false [10]
      ((if cfg.caption != [] then bytesOfString "  <caption>" ++ (htmlEscape cfg.caption ++ bytesOfString "</caption>\n") else []) ++ rest) =
    captionToks cfg ++ tokGo false [10] rest := by
  unfold captionToks
  html_lits
  by_cases hc : cfg.caption = [] <;>
    simp [hc, tokGo_text_cons, tokGo_tag_cons, tokGo_text_esc, textTok, htmlEscape_eq_nil]

private theorem tok_cells (tag : String) (htag : tag = "th" ∨ tag = "td") (cells : List RCell) (rest : Bytes) :
    tokGo false []
      (cells.flatMap (fun c => bytesOfString ("<" ++ tag ++ ">") ++ (htmlEscape c.text ++ bytesOfString ("</" ++ tag ++ ">"))) ++ rest) =
    cells.flatMap (cellToks tag) ++ tokGo false [] rest := by
  induction cells with
  | nil => simp
  | cons c cs ih =>
    simp only [List.flatMap_cons, List.append_assoc]
    rw [← ih]
    unfold cellToks
    rcases htag with rfl | rfl <;> html_lits <;>
      simp [tokGo_text_cons, tokGo_tag_cons, tokGo_text_esc, textTok_nil]

private theorem tok_tr_open (mid : Bytes) (hmid : ∀ b ∈ mid, b ≠ 62) (r : Bytes) :
    tokGo false [10] (bytesOfString "    <tr" ++ (mid ++ (bytesOfString ">" ++ r))) =
    .text (bytesOfString "\n    ") :: .tag (bytesOfString "<tr" ++ mid ++ bytesOfString ">") :: tokGo false [] r := by
  html_lits
  simp [tokGo_text_cons, tokGo_tag_cons, tokGo_tag_app _ _ _ hmid, textTok]

private theorem tok_tr (cfg : HtmlCfg) (n : Nat) (tag : String) (htag : tag = "th" ∨ tag = "td")
    (cells : List RCell) (rest : Bytes) :
    tokGo false [10] (htmlTr cfg n tag cells ++ rest) =
    rowToks cfg n tag cells ++ tokGo false [10] rest := by
  unfold htmlTr rowToks trOpenTag attrBytes
  have tail : ∀ r, tokGo false [] (bytesOfString "</tr>\n" ++ r) =
      .tag (bytesOfString "</tr>") :: tokGo false [10] r := by
    intro r; html_lits; simp [tokGo_text_cons, tokGo_tag_cons, textTok]
  cases cfg.rowClass with
  | none =>
    simp only [List.append_assoc]
    rw [tok_tr_open [] (by simp), tok_cells tag htag, tail]
    simp
  | some f =>
    simp only [List.append_assoc]
    have hopen : ∀ r, tokGo false [10] (bytesOfString "    <tr" ++ (bytesOfString " class=\"" ++
        (htmlEscape (f n) ++ (bytesOfString "\"" ++ (bytesOfString ">" ++ r))))) =
        .text (bytesOfString "\n    ") :: .tag (bytesOfString "<tr" ++ (bytesOfString " class=\"" ++
          (htmlEscape (f n) ++ (bytesOfString "\"" ++ bytesOfString ">")))) :: tokGo false [] r := by
      intro r; html_lits
      simp [tokGo_text_cons, tokGo_tag_cons, tokGo_tag_esc, textTok]
    rw [hopen, tok_cells tag htag, tail]
    simp

private theorem tok_flatMap {α : Type} (fb : α → Bytes) (ft : α → List HTok)
    (h : ∀ x rest, tokGo false [10] (fb x ++ rest) = ft x ++ tokGo false [10] rest)
    (l : List α) (rest : Bytes) :
    tokGo false [10] (l.flatMap fb ++ rest) = l.flatMap ft ++ tokGo false [10] rest := by
  induction l with
  | nil => simp
  | cons a l ih => simp only [List.flatMap_cons, List.append_assoc]; rw [h, ih]

private theorem skeleton_proof (cfg : HtmlCfg) (v : RTable) : tokenize (htmlBytes cfg v) = skeleton cfg v := by
  have head : ∀ r, tokGo false [10] (bytesOfString "  <thead>\n" ++ r) =
      .text (bytesOfString "\n  ") :: .tag (bytesOfString "<thead>") :: tokGo false [10] r := by
    intro r; html_lits; simp [tokGo_text_cons, tokGo_tag_cons, textTok]
  have mid : ∀ r, tokGo false [10] (bytesOfString "  </thead>\n  <tbody>\n" ++ r) =
      .text (bytesOfString "\n  ") :: .tag (bytesOfString "</thead>") ::
      .text (bytesOfString "\n  ") :: .tag (bytesOfString "<tbody>") :: tokGo false [10] r := by
    intro r; html_lits; simp [tokGo_text_cons, tokGo_tag_cons, textTok]
  have tail : tokGo false [10] (bytesOfString "  </tbody>\n</table>\n") =
      [.text (bytesOfString "\n  "), .tag (bytesOfString "</tbody>"),
       .text (bytesOfString "\n"), .tag (bytesOfString "</table>"), .text (bytesOfString "\n")] := by
    html_lits; simp [tokGo_text_cons, tokGo_tag_cons, tokGo_text_nil, textTok]
  unfold tokenize htmlBytes skeleton
  simp only [List.append_assoc]
  rw [tok_table_open, tok_caption, head, tok_tr cfg 0 "th" (Or.inl rfl), mid]
  simp only [captionToks, List.cons_append, List.nil_append, List.cons.injEq,
    true_and, List.append_cancel_left_eq]
  rw [← tail]
  refine tok_flatMap _ _ ?_ _ _
  intro x rest
  obtain ⟨r, i⟩ := x
  cases r with
  | none => simp
  | some cells => exact tok_tr cfg (i + 1) "td" (Or.inr rfl) cells rest

private theorem cell_tag_lits :
    bytesOfString ("<" ++ "th" ++ ">") = bytesOfString "<th>" ∧
    bytesOfString ("</" ++ "th" ++ ">") = bytesOfString "</th>" ∧
    bytesOfString ("<" ++ "td" ++ ">") = bytesOfString "<td>" ∧
    bytesOfString ("</" ++ "td" ++ ">") = bytesOfString "</td>" := by
  html_lits; simp

private theorem tag_mem_cells (tag : String) (htag : tag = "th" ∨ tag = "td") (cells : List RCell) (t : Bytes)
    (h : HTok.tag t ∈ cells.flatMap (cellToks tag)) : t ∈ fixedLiteralTags := by
  simp only [List.mem_flatMap, cellToks, textTok, List.mem_append, List.mem_singleton, HTok.tag.injEq] at h
  obtain ⟨c, _, h⟩ := h
  have hl := cell_tag_lits
  rcases htag with rfl | rfl
  · rcases h with (h | h) | h
    · rw [h, hl.1]; simp [fixedLiteralTags]
    · split at h <;> simp at h
    · rw [h, hl.2.1]; simp [fixedLiteralTags]
  · rcases h with (h | h) | h
    · rw [h, hl.2.2.1]; simp [fixedLiteralTags]
    · split at h <;> simp at h
    · rw [h, hl.2.2.2]; simp [fixedLiteralTags]

private theorem tag_mem_rowToks (cfg : HtmlCfg) (n : Nat) (tag : String) (htag : tag = "th" ∨ tag = "td")
    (cells : List RCell) (t : Bytes) (h : HTok.tag t ∈ rowToks cfg n tag cells) :
    t = trOpenTag cfg n ∨ t ∈ fixedLiteralTags := by
  simp only [rowToks, List.mem_append, List.mem_cons, List.not_mem_nil, or_false, HTok.tag.injEq,
    reduceCtorEq, false_or] at h
  rcases h with (h | h) | h
  · exact Or.inl h
  · exact Or.inr (tag_mem_cells tag htag cells t h)
  · right; rw [h]; simp [fixedLiteralTags]

private theorem mem_rowClassArgs_succ (v : RTable) (cells : List RCell) (i : Nat)
    (h : (some cells, i) ∈ v.rows.zipIdx) : i + 1 ∈ rowClassArgs v := by
  unfold rowClassArgs
  refine List.mem_cons_of_mem _ (List.mem_filterMap.mpr ⟨(some cells, i), h, ?_⟩)
  simp

private theorem tags_fixed_skel (cfg : HtmlCfg) (v : RTable) (t : Bytes) (h : HTok.tag t ∈ skeleton cfg v) :
    IsFixedTag cfg v t := by
  unfold skeleton at h
  simp only [List.mem_append, List.mem_cons, List.not_mem_nil, or_false, HTok.tag.injEq,
    reduceCtorEq, false_or, List.mem_flatMap] at h
  rcases h with (((((h | h) | h) | h) | h) | h) | h
  · exact Or.inl h
  · split at h
    · simp only [List.mem_cons, List.not_mem_nil, or_false, HTok.tag.injEq, reduceCtorEq, false_or] at h
      rcases h with h | h <;> (right; right; rw [h]; simp [fixedLiteralTags])
    · simp at h
  · right; right; rw [h]; simp [fixedLiteralTags]
  · rcases tag_mem_rowToks cfg 0 "th" (Or.inl rfl) _ t h with h | h
    · exact Or.inr (Or.inl ⟨0, by simp [rowClassArgs], h⟩)
    · exact Or.inr (Or.inr h)
  · rcases h with h | h <;> (right; right; rw [h]; simp [fixedLiteralTags])
  · obtain ⟨⟨r, i⟩, hmem, h⟩ := h
    cases r with
    | none => simp at h
    | some cells =>
      rcases tag_mem_rowToks cfg (i + 1) "td" (Or.inr rfl) _ t h with h | h
      · exact Or.inr (Or.inl ⟨i + 1, mem_rowClassArgs_succ v cells i hmem, h⟩)
      · exact Or.inr (Or.inr h)
  · rcases h with h | h <;> (right; right; rw [h]; simp [fixedLiteralTags])

/-! ### `<tr` tags and counts -/

private theorem isTrOpen_trOpenTag (cfg : HtmlCfg) (n : Nat) : isTrOpen (.tag (trOpenTag cfg n)) = true := by
  simp only [isTrOpen, trOpenTag]; html_lits; simp [List.isPrefixOf]

private theorem isTrOpen_lit : ∀ s ∈ fixedLiteralTags, isTrOpen (.tag s) = false := by
  unfold fixedLiteralTags
  simp only [isTrOpen]
  html_lits
  decide

private theorem filter_tr_cells (tag : String) (htag : tag = "th" ∨ tag = "td") (cells : List RCell) :
    (cells.flatMap (cellToks tag)).filter isTrOpen = [] := by
  rw [List.filter_eq_nil_iff]
  intro x hx
  cases x with
  | text b => simp [isTrOpen]
  | tag t =>
    simp [isTrOpen_lit t (tag_mem_cells tag htag cells t hx)]

private theorem filter_tr_rowToks (cfg : HtmlCfg) (n : Nat) (tag : String) (htag : tag = "th" ∨ tag = "td")
    (cells : List RCell) :
    (rowToks cfg n tag cells).filter isTrOpen = [.tag (trOpenTag cfg n)] := by
  unfold rowToks
  rw [List.filter_append, List.filter_append, filter_tr_cells tag htag]
  have h1 : isTrOpen (.text (bytesOfString "\n    ")) = false := rfl
  have h2 : isTrOpen (.tag (bytesOfString "</tr>")) = false := by
    simp only [isTrOpen]; html_lits; decide
  simp [h1, h2, isTrOpen_trOpenTag]

private theorem tr_tags_skel (cfg : HtmlCfg) (v : RTable) :
    (skeleton cfg v).filter isTrOpen = (rowClassArgs v).map (fun n => .tag (trOpenTag cfg n)) := by
  have hlit := isTrOpen_lit
  have htab : isTrOpen (.tag (tableOpenTag cfg)) = false := by
    simp only [isTrOpen, tableOpenTag]; html_lits; simp [List.isPrefixOf]
  have htext : ∀ b, isTrOpen (.text b) = false := fun _ => rfl
  unfold skeleton rowClassArgs
  simp only [List.filter_append, List.filter_flatMap, filter_tr_rowToks cfg 0 "th" (Or.inl rfl)]
  have hcap : List.filter isTrOpen (if (cfg.caption != []) = true then
      [HTok.text (bytesOfString "\n  "), HTok.tag (bytesOfString "<caption>"),
        HTok.text (htmlEscape cfg.caption), HTok.tag (bytesOfString "</caption>")] else []) = [] := by
    split
    · simp [htext, hlit _ (show bytesOfString "<caption>" ∈ fixedLiteralTags by simp [fixedLiteralTags]),
        hlit _ (show bytesOfString "</caption>" ∈ fixedLiteralTags by simp [fixedLiteralTags])]
    · rfl
  rw [hcap]
  simp only [List.filter_cons, List.filter_nil, htab, htext,
    hlit _ (show bytesOfString "<thead>" ∈ fixedLiteralTags by simp [fixedLiteralTags]),
    hlit _ (show bytesOfString "</thead>" ∈ fixedLiteralTags by simp [fixedLiteralTags]),
    hlit _ (show bytesOfString "<tbody>" ∈ fixedLiteralTags by simp [fixedLiteralTags]),
    hlit _ (show bytesOfString "</tbody>" ∈ fixedLiteralTags by simp [fixedLiteralTags]),
    hlit _ (show bytesOfString "</table>" ∈ fixedLiteralTags by simp [fixedLiteralTags])]
  simp only [Bool.false_eq_true, if_false, List.nil_append, List.append_nil, List.map_cons,
    List.singleton_append, List.cons.injEq, true_and]
  refine flatMap_eq_filterMap_map _ _ _ _ ?_
  rintro ⟨r, i⟩ _
  cases r with
  | none => simp
  | some cells => simp [filter_tr_rowToks cfg (i + 1) "td" (Or.inr rfl)]

private theorem count_tag_textTok (b s : Bytes) : (textTok s).count (.tag b) = 0 := by
  unfold textTok; split <;> simp

private theorem count_cells (tag : String) (b : Bytes) (cells : List RCell) :
    (cells.flatMap (cellToks tag)).count (.tag b) =
      (if bytesOfString ("<" ++ tag ++ ">") = b then cells.length else 0) +
      (if bytesOfString ("</" ++ tag ++ ">") = b then cells.length else 0) := by
  induction cells with
  | nil => simp
  | cons c cs ih =>
    rw [List.flatMap_cons, List.count_append, ih]
    simp only [cellToks, List.count_append, count_tag_textTok, List.count_cons, List.count_nil,
      beq_iff_eq, HTok.tag.injEq, List.length_cons]
    split <;> split <;> omega

private theorem count_rowToks (cfg : HtmlCfg) (n : Nat) (tag : String) (b : Bytes) (cells : List RCell) :
    (rowToks cfg n tag cells).count (.tag b) =
      (if trOpenTag cfg n = b then 1 else 0) +
      ((if bytesOfString ("<" ++ tag ++ ">") = b then cells.length else 0) +
       (if bytesOfString ("</" ++ tag ++ ">") = b then cells.length else 0)) +
      (if bytesOfString "</tr>" = b then 1 else 0) := by
  unfold rowToks
  simp only [List.count_append, count_cells, List.count_cons, List.count_nil, beq_iff_eq,
    HTok.tag.injEq, reduceCtorEq, if_false]
  omega

private theorem rowClassArgs_length (v : RTable) :
    (rowClassArgs v).length = 1 + (v.rows.filter Option.isSome).length := by
  unfold rowClassArgs
  rw [List.length_cons, length_filterMap_zipIdx]
  · omega
  · intro r i; cases r <;> simp

/-- count of a cell-level or `</tr>` tag in the skeleton: only rows contribute -/
private theorem count_skel (cfg : HtmlCfg) (v : RTable) (b : Bytes)
    (h1 : tableOpenTag cfg ≠ b) (h2 : ∀ n, trOpenTag cfg n ≠ b)
    (h3 : ∀ s ∈ [bytesOfString "<caption>", bytesOfString "</caption>", bytesOfString "<thead>",
      bytesOfString "</thead>", bytesOfString "<tbody>", bytesOfString "</tbody>", bytesOfString "</table>"], s ≠ b) :
    (skeleton cfg v).count (.tag b) =
      ((if bytesOfString ("<" ++ "th" ++ ">") = b then (v.header.getD []).length else 0) +
       (if bytesOfString ("</" ++ "th" ++ ">") = b then (v.header.getD []).length else 0) +
       (if bytesOfString "</tr>" = b then 1 else 0)) +
      (v.rows.map (fun r => match r with
        | none => 0
        | some cells =>
          (if bytesOfString ("<" ++ "td" ++ ">") = b then cells.length else 0) +
          (if bytesOfString ("</" ++ "td" ++ ">") = b then cells.length else 0) +
          (if bytesOfString "</tr>" = b then 1 else 0))).sum := by
  simp only [List.mem_cons, List.not_mem_nil, or_false, forall_eq_or_imp, forall_eq] at h3
  obtain ⟨c1, c2, c3, c4, c5, c6, c7⟩ := h3
  unfold skeleton
  have hcap : List.count (HTok.tag b) (if (cfg.caption != []) = true then
      [HTok.text (bytesOfString "\n  "), HTok.tag (bytesOfString "<caption>"),
        HTok.text (htmlEscape cfg.caption), HTok.tag (bytesOfString "</caption>")] else []) = 0 := by
    split <;> simp [c1, c2]
  simp only [List.count_append, hcap, count_rowToks, List.count_cons, List.count_nil, beq_iff_eq,
    HTok.tag.injEq, reduceCtorEq, if_false, h1, h2, c3, c4, c5, c6, c7, List.count_flatMap]
  simp only [Nat.zero_add, Nat.add_zero]
  congr 1
  refine sum_map_zipIdx _ _ _ _ ?_
  intro r i
  cases r with
  | none => simp
  | some cells => simp [count_rowToks, h2]

private theorem count_th_open (cfg : HtmlCfg) (v : RTable) :
    (skeleton cfg v).count (.tag (bytesOfString "<th>")) = (v.header.getD []).length := by
  rw [count_skel]
  · html_lits
    simp
    exact sum_map_zero _ _ (by intro r; cases r <;> rfl)
  · unfold tableOpenTag; html_lits; simp
  · intro n; unfold trOpenTag; html_lits; simp
  · html_lits; decide

private theorem count_th_close (cfg : HtmlCfg) (v : RTable) :
    (skeleton cfg v).count (.tag (bytesOfString "</th>")) = (v.header.getD []).length := by
  rw [count_skel]
  · html_lits
    simp
    exact sum_map_zero _ _ (by intro r; cases r <;> rfl)
  · unfold tableOpenTag; html_lits; simp
  · intro n; unfold trOpenTag; html_lits; simp
  · html_lits; decide

private theorem count_td_open (cfg : HtmlCfg) (v : RTable) :
    (skeleton cfg v).count (.tag (bytesOfString "<td>")) = (v.rows.map (fun r => (r.getD []).length)).sum := by
  rw [count_skel]
  · html_lits
    simp
    congr 1
    apply List.map_congr_left
    intro r _; cases r <;> simp
  · unfold tableOpenTag; html_lits; simp
  · intro n; unfold trOpenTag; html_lits; simp
  · html_lits; decide

private theorem count_td_close (cfg : HtmlCfg) (v : RTable) :
    (skeleton cfg v).count (.tag (bytesOfString "</td>")) = (v.rows.map (fun r => (r.getD []).length)).sum := by
  rw [count_skel]
  · html_lits
    simp
    congr 1
    apply List.map_congr_left
    intro r _; cases r <;> simp
  · unfold tableOpenTag; html_lits; simp
  · intro n; unfold trOpenTag; html_lits; simp
  · html_lits; decide

private theorem count_tr_close (cfg : HtmlCfg) (v : RTable) :
    (skeleton cfg v).count (.tag (bytesOfString "</tr>")) = 1 + (v.rows.filter Option.isSome).length := by
  rw [count_skel]
  · html_lits
    simp
    exact sum_isSome _ _ (by intro r; cases r <;> rfl)
  · unfold tableOpenTag; html_lits; simp
  · intro n; unfold trOpenTag; html_lits; simp
  · html_lits; decide

/-! ### Property theorems -/

/-- Escaped strings are inert: no `<`, `>`, `"`, `'` byte, and every `&` starts one of the six entities. -/
theorem c06_escape_inert (s : Bytes) :
    (∀ b ∈ htmlEscape s, b ≠ 60 ∧ b ≠ 62 ∧ b ≠ 34 ∧ b ≠ 39) ∧
    (∀ p r, htmlEscape s = p ++ 38 :: r → ∃ e ∈ htmlEntities, e <+: 38 :: r) := by
  refine ⟨fun b hb => htmlEscape_inert s b hb, fun p r h => ?_⟩
  have : htmlEntities = escEntities := by unfold htmlEntities escEntities; html_lits
  rw [this]
  exact htmlEscape_amp s p r h

/-- Decoding an escaped string gives the string back, except that NUL has become U+FFFD (all inputs). -/
theorem c06_decode_escape_nul (s : Bytes) : htmlDecode (htmlEscape s) = nulToFFFD s :=
  decode_escape_nul s

/-- Decoding an escaped NUL-free string gives exactly the string (entity look-alikes such as `&lt;`
    in the input are safe because `&` itself is escaped). -/
theorem c06_decode_escape (s : Bytes) (h : ∀ b ∈ s, b ≠ 0) : htmlDecode (htmlEscape s) = s := by
  rw [decode_escape_nul]
  unfold nulToFFFD
  induction s with
  | nil => rfl
  | cons b s ih =>
    rw [List.flatMap_cons, ih (fun c hc => h c (by simp [hc])), if_neg (h b (by simp))]
    rfl

/-- The tokenizer drops nothing: the token sources concatenate to the input. -/
theorem c06_tokenize_lossless (s : Bytes) : untok (tokenize s) = s := by
  unfold tokenize; rw [untok_tokGo]; rfl

/-- The output tokenizes to exactly the template's skeleton, for every configuration and view. -/
theorem c06_skeleton (cfg : HtmlCfg) (v : RTable) : tokenize (htmlBytes cfg v) = skeleton cfg v :=
  skeleton_proof cfg v

/-- Every tag of the output is one of the template's fixed forms. -/
theorem c06_tags_fixed (cfg : HtmlCfg) (v : RTable) (t : Bytes)
    (h : HTok.tag t ∈ tokenize (htmlBytes cfg v)) : IsFixedTag cfg v t := by
  rw [c06_skeleton] at h
  exact tags_fixed_skel cfg v t h

/-- The `<tr…>` tags of the output, in order: one per argument in `rowClassArgs v`. -/
theorem c06_tr_tags (cfg : HtmlCfg) (v : RTable) :
    (tokenize (htmlBytes cfg v)).filter isTrOpen =
      (rowClassArgs v).map (fun n => .tag (trOpenTag cfg n)) := by
  rw [c06_skeleton]; exact tr_tags_skel cfg v

/-- `rowClassArgs` has one entry for the header row and one per non-separator row. -/
theorem c06_rowClassArgs_length (v : RTable) :
    (rowClassArgs v).length = 1 + (v.rows.filter Option.isSome).length :=
  rowClassArgs_length v

/-- Exactly one `<tr…>` for the header plus one per non-separator row; as many `</tr>`. -/
theorem c06_count_tr (cfg : HtmlCfg) (v : RTable) :
    ((tokenize (htmlBytes cfg v)).filter isTrOpen).length = 1 + (v.rows.filter Option.isSome).length ∧
    (tokenize (htmlBytes cfg v)).count (.tag (bytesOfString "</tr>")) =
      1 + (v.rows.filter Option.isSome).length := by
  rw [c06_tr_tags, List.length_map, rowClassArgs_length, c06_skeleton, count_tr_close]
  exact ⟨rfl, rfl⟩

/-- One `<th>` and one `</th>` per header cell (none without a header). -/
theorem c06_count_th (cfg : HtmlCfg) (v : RTable) :
    (tokenize (htmlBytes cfg v)).count (.tag (bytesOfString "<th>")) = (v.header.getD []).length ∧
    (tokenize (htmlBytes cfg v)).count (.tag (bytesOfString "</th>")) = (v.header.getD []).length := by
  rw [c06_skeleton]; exact ⟨count_th_open cfg v, count_th_close cfg v⟩

/-- One `<td>` and one `</td>` per cell of the non-separator rows. -/
theorem c06_count_td (cfg : HtmlCfg) (v : RTable) :
    (tokenize (htmlBytes cfg v)).count (.tag (bytesOfString "<td>")) =
      (v.rows.map (fun r => (r.getD []).length)).sum ∧
    (tokenize (htmlBytes cfg v)).count (.tag (bytesOfString "</td>")) =
      (v.rows.map (fun r => (r.getD []).length)).sum := by
  rw [c06_skeleton]; exact ⟨count_td_open cfg v, count_td_close cfg v⟩

/-- The output depends on the row-class generator only through its values at `rowClassArgs v`. -/
theorem c06_rowclass_calls (cfg : HtmlCfg) (v : RTable) (f g : Nat → Bytes)
    (h : ∀ n ∈ rowClassArgs v, f n = g n) :
    htmlBytes { cfg with rowClass := some f } v = htmlBytes { cfg with rowClass := some g } v := by
  unfold htmlBytes
  rw [htmlTr_congr cfg f g 0 "th" _ (h 0 (by simp [rowClassArgs]))]
  congr 2
  apply flatMap_congr'
  rintro ⟨r, i⟩ hmem
  cases r with
  | none => rfl
  | some cells => exact htmlTr_congr cfg f g (i + 1) "td" cells (h _ (mem_rowClassArgs_succ v cells i hmem))

/-- With a generator `f`, the `<tr…>` tags are `<tr class="` escaped `f n` `">` for `n` running through
    `rowClassArgs v`, in that order, once each. -/
theorem c06_rowclass_tr_tags (cfg : HtmlCfg) (v : RTable) (f : Nat → Bytes) :
    (tokenize (htmlBytes { cfg with rowClass := some f } v)).filter isTrOpen =
      (rowClassArgs v).map (fun n =>
        .tag (bytesOfString "<tr class=\"" ++ htmlEscape (f n) ++ bytesOfString "\">")) := by
  rw [c06_tr_tags]
  apply List.map_congr_left
  intro n _
  simp only [trOpenTag, attrBytes]
  html_lits
  simp

/-- Every argument in `rowClassArgs v` is really used: equal outputs force equal (escaped) classes there. -/
theorem c06_rowclass_observed (cfg : HtmlCfg) (v : RTable) (f g : Nat → Bytes)
    (h : htmlBytes { cfg with rowClass := some f } v = htmlBytes { cfg with rowClass := some g } v) :
    ∀ n ∈ rowClassArgs v, htmlEscape (f n) = htmlEscape (g n) := by
  have hf := c06_rowclass_tr_tags cfg v f
  rw [h, c06_rowclass_tr_tags cfg v g] at hf
  intro n hn
  have := (List.map_inj_left.mp hf) n hn
  simp only [HTok.tag.injEq, List.append_assoc, List.append_cancel_left_eq,
    List.append_cancel_right_eq] at this
  exact this.symm

/-! ### Non-vacuity: a concrete hostile table, evaluated by the kernel (`decide`) -/

/-- quote in the id, `<` in the class, a script element and an entity look-alike in the caption, and a
    generator whose header class tries to close the attribute and the tag -/
def c06ExCfg : HtmlCfg :=
  { id := bytesOfString "t\"1", cls := bytesOfString "a<b",
    caption := bytesOfString "<script>x</script>&lt;",
    rowClass := some (fun n => if n = 0 then bytesOfString "h\"><i>" else [114, 48 + n.toUInt8]) }

/-- header; a row with markup, an empty cell and `&amp;+`; a separator; a zero-cell row; a row with quotes -/
def c06ExView : RTable :=
  { ncols := 2
    header := some [{ text := bytesOfString "<b>H</b>" }, { text := bytesOfString "&lt;" }]
    rows := [some [{ text := bytesOfString "<script>" }, { text := bytesOfString "" },
                   { text := bytesOfString "a&amp;+" }],
             none, some [], some [{ text := bytesOfString "'q\"" }]]
    colAlign := [], colSkip := [] }

/-- the whole token list of the concrete table (the model evaluated, not the skeleton) -/
example : tokenize (htmlBytes c06ExCfg c06ExView) =
    [.tag (bytesOfString "<table class=\"a&lt;b\" id=\"t&#34;1\">"),
     .text (bytesOfString "\n  "),
     .tag (bytesOfString "<caption>"),
     .text (bytesOfString "&lt;script&gt;x&lt;/script&gt;&amp;lt;"),
     .tag (bytesOfString "</caption>"),
     .text (bytesOfString "\n  "),
     .tag (bytesOfString "<thead>"),
     .text (bytesOfString "\n    "),
     .tag (bytesOfString "<tr class=\"h&#34;&gt;&lt;i&gt;\">"),
     .tag (bytesOfString "<th>"), .text (bytesOfString "&lt;b&gt;H&lt;/b&gt;"), .tag (bytesOfString "</th>"),
     .tag (bytesOfString "<th>"), .text (bytesOfString "&amp;lt;"), .tag (bytesOfString "</th>"),
     .tag (bytesOfString "</tr>"),
     .text (bytesOfString "\n  "),
     .tag (bytesOfString "</thead>"),
     .text (bytesOfString "\n  "),
     .tag (bytesOfString "<tbody>"),
     .text (bytesOfString "\n    "),
     .tag (bytesOfString "<tr class=\"r1\">"),
     .tag (bytesOfString "<td>"), .text (bytesOfString "&lt;script&gt;"), .tag (bytesOfString "</td>"),
     .tag (bytesOfString "<td>"), .tag (bytesOfString "</td>"),
     .tag (bytesOfString "<td>"), .text (bytesOfString "a&amp;amp;&#43;"), .tag (bytesOfString "</td>"),
     .tag (bytesOfString "</tr>"),
     .text (bytesOfString "\n    "),
     .tag (bytesOfString "<tr class=\"r3\">"),
     .tag (bytesOfString "</tr>"),
     .text (bytesOfString "\n    "),
     .tag (bytesOfString "<tr class=\"r4\">"),
     .tag (bytesOfString "<td>"), .text (bytesOfString "&#39;q&#34;"), .tag (bytesOfString "</td>"),
     .tag (bytesOfString "</tr>"),
     .text (bytesOfString "\n  "),
     .tag (bytesOfString "</tbody>"),
     .text (bytesOfString "\n"),
     .tag (bytesOfString "</table>"),
     .text (bytesOfString "\n")] := by
  unfold htmlBytes htmlTr htmlEscape htmlEscByte c06ExCfg c06ExView
  simp only [bytesOfString_eq]
  decide

/-- and the skeleton of the same table is that same list (`c06_skeleton` instantiated, then evaluated) -/
example : (skeleton c06ExCfg c06ExView).length = 45 ∧
    (skeleton c06ExCfg c06ExView).filter isTrOpen =
      [.tag (bytesOfString "<tr class=\"h&#34;&gt;&lt;i&gt;\">"), .tag (bytesOfString "<tr class=\"r1\">"),
       .tag (bytesOfString "<tr class=\"r3\">"), .tag (bytesOfString "<tr class=\"r4\">")] := by
  unfold skeleton rowToks cellToks tableOpenTag trOpenTag attrBytes isTrOpen htmlEscape htmlEscByte
    c06ExCfg c06ExView
  simp only [bytesOfString_eq]
  decide

/-- generator arguments of the concrete table: the separator's number 2 is skipped -/
example : rowClassArgs c06ExView = [0, 1, 3, 4] := by decide

/-- the escaper on hostile text, evaluated -/
example : htmlEscape (bytesOfString "<script>&lt;\"'+") =
    bytesOfString "&lt;script&gt;&amp;lt;&#34;&#39;&#43;" := by
  unfold htmlEscape htmlEscByte
  simp only [bytesOfString_eq]
  decide

/-- `c06_decode_escape`: its hypothesis holds for a hostile string, and the conclusion evaluated -/
example : htmlDecode (htmlEscape (bytesOfString "<script>&lt;&amp;lt;\"'+")) =
    bytesOfString "<script>&lt;&amp;lt;\"'+" :=
  c06_decode_escape _ (by rw [bytesOfString_eq]; decide)

example : htmlDecode (bytesOfString "&lt;script&gt;&amp;lt;&#34;&#39;&#43;") =
    bytesOfString "<script>&lt;\"'+" := by
  simp only [bytesOfString_eq]; decide

/-- the NUL case, evaluated: NUL comes back as U+FFFD -/
example : htmlDecode (htmlEscape [97, 0, 60]) = [97, 0xEF, 0xBF, 0xBD, 60] := by
  rw [c06_decode_escape_nul]; decide

/-- `c06_tags_fixed` is not vacuous: the hostile header class still yields a fixed-form `<tr…>` tag -/
example : IsFixedTag c06ExCfg c06ExView (trOpenTag c06ExCfg 0) :=
  c06_tags_fixed _ _ _ (by
    rw [c06_skeleton]; unfold skeleton rowToks
    simp)

/-- `c06_rowclass_calls`: two generators that differ only at the separator's number 2 (and beyond the
    table) satisfy the hypothesis, are different functions, and give the same output -/
example :
    let f : Nat → Bytes := fun n => [114, 48 + n.toUInt8]
    let g : Nat → Bytes := fun n => if n = 2 ∨ n > 4 then bytesOfString "<x>" else [114, 48 + n.toUInt8]
    f 2 ≠ g 2 ∧ (∀ n ∈ rowClassArgs c06ExView, f n = g n) ∧
    htmlBytes { c06ExCfg with rowClass := some f } c06ExView =
      htmlBytes { c06ExCfg with rowClass := some g } c06ExView := by
  intro f g
  have hfg : ∀ n ∈ rowClassArgs c06ExView, f n = g n := by
    rw [show rowClassArgs c06ExView = [0, 1, 3, 4] by decide]
    intro n hn
    simp only [List.mem_cons, List.not_mem_nil, or_false] at hn
    rcases hn with rfl | rfl | rfl | rfl <;> simp [f, g]
  refine ⟨?_, hfg, c06_rowclass_calls _ _ f g hfg⟩
  simp only [f, g, bytesOfString_eq]; decide

end Tab
