/-
  C13 — Callbacks fire once per target, on the live object, in the documented order.

  Spec vocabulary (`CbSlot`, `World.cbsAt`, `logEvents`, `expectedRender`, `renderTargets`,
  `expectedAddRow`, `expectedAddHeaders`, `LogOnlyAll`, `UniqueIn`, `slotFor`, ...) is in
  `Tabmodel/Proofs/C13Spec.lean` (definitions only); it is written with list comprehensions over the
  world's contents and does not mention the traversal code.  Helper lemmas are in `Tab.C13`
  (`Tabmodel/Proofs/C13*.lean`).

  The event log: every user callback (`Cb.log id`, `Cb.setProp id k v`, `Cb.fail id e`) appends
  `⟨id, target⟩` to `w.events` when invoked; the two built-in measuring callbacks append nothing.
  `logEvents cbs tgt` is the list of events the `.log` callbacks of `cbs` leave when invoked on `tgt`.
-/
import Tabmodel.Proofs.C13Render
import Tabmodel.Proofs.C13Register
import Tabmodel.Proofs.C13Live
import Tabmodel.Proofs.C13Add
import Tabmodel.Proofs.C13Once
import Tabmodel.Proofs.C13Unique
namespace Tab
open World C13

/-! ## Registration matrix (`RegisterPropertyCallback`)

An invalid *time* value never reaches the model: the driver's `parseTime` maps it to a refusal
(`properties.go`: "unhandled callbackTime when registering properties"), so `Time` has exactly the four
legal values and the theorems below quantify over all of them. -/

/-- Exactly the unsupported owner/target combinations are refused: a row-targeted callback on a
    column, on a cell, or on a cell value; every other combination is accepted. -/
theorem c13_refuse (w : World) (owner : Target) (tm : Time) (tg : CbTarget) (cb : Cb) :
    w.registerCb owner tm tg cb = none ↔
      ((∃ t n, owner = .column t n) ∧ tg = .row) ∨
      (((∃ r i, owner = .cell r i) ∨ (∃ n, owner = .copy n)) ∧ tg = .row) := by
  cases owner <;> cases tg <;> simp [registerCb]

/-- The same, against the documented matrix `slotFor`. -/
theorem c13_refuse_matrix (w : World) (owner : Target) (tm : Time) (tg : CbTarget) (cb : Cb) :
    w.registerCb owner tm tg cb = none ↔ slotFor owner tg = none := by
  cases owner <;> cases tg <;> simp [registerCb, slotFor]

/-- An accepted registration on an existing owner appends the callback to exactly the documented set
    (`slotFor`: table → itself/cell/row sets; column → itself/cell; row → `itself` and `row` both the
    row-itself set, `cell` the row's cell set; cell → `itself` and `cell` both the cell's own set) at
    the given time; every other (set, time) is unchanged, and so is everything that is not a callback
    set (`noCbs`), the event log included. -/
theorem c13_register_effect {w w' : World} {owner : Target} {tm : Time} {tg : CbTarget} {cb : Cb}
    (ho : w.hasObj owner) (h : w.registerCb owner tm tg cb = some w') :
    ∃ s, slotFor owner tg = some s ∧
      (∀ s' tm', w'.cbsAt s' tm' =
        if s' = s ∧ tm' = tm then w.cbsAt s' tm' ++ [cb] else w.cbsAt s' tm') ∧
      w'.noCbs = w.noCbs := by
  obtain ⟨s, hs, hset⟩ := registerCb_cbSet ho h
  refine ⟨s, hs, fun s' tm' => ?_, registerCb_noCbs h⟩
  simp only [World.cbsAt, hset s']
  by_cases h1 : s' = s
  · subst h1
    simp only [true_and, if_true, CbSet.push_at]
  · simp [h1]

/-! ### a concrete world for the non-vacuity examples, built through the model's API -/

/-- the measure used in the examples: one cell per byte -/
def c13ExDw : Measure := fun b => b.length
/-- the item `"a"` -/
def c13ExItem : Item :=
  { kind := .str [97], mString := none, mGoString := none, mError := none, fmtV := [97],
    mHeight := none, mWidth := none, json := none }

/-- table 0 with header row 0 = `[a]` and body row 1 = `[a]`; no callbacks yet -/
def c13ExBase : World :=
  let w : World := { items := [c13ExItem] }
  let w := w.newTable.1
  let w := addHeaders c13ExDw w 0 [0]
  (addRowItems c13ExDw w 0 [0]).1

/-- two registrations: `7` = table 0, pre-cell time, on cells; `9` = row 1, post-cell time, on the row -/
def c13ExW : World :=
  ((c13ExBase.registerCb (.table 0) .pre .cell (.log 7)).bind
    (fun w => w.registerCb (.row 1) .post .row (.log 9))).getD c13ExBase

example : c13ExBase.hasObj (.table 0) ∧ c13ExBase.hasObj (.row 1) ∧ c13ExBase.hasObj (.cell 1 0) ∧
    c13ExBase.hasObj (.column 0 1) := by decide
example : (c13ExBase.registerCb (.table 0) .pre .cell (.log 7)).isSome = true := by decide
example : c13ExBase.registerCb (.column 0 1) .pre .row (.log 7) = none := by decide
example : c13ExW.cbsAt (.tableCell 0) .pre = [.log 7] ∧ c13ExW.cbsAt (.rowSelf 1) .post = [.log 9] := by decide

/-! ## Render order -/

/-- One render pass in a world whose callbacks are all `.log` appends exactly the documented list
    `expectedRender w t` to the event log. -/
theorem c13_render_order (dw : Measure) (w : World) (t : Nat) (h : LogOnlyAll w) :
    (invokeRenderCallbacks dw w t).events = w.events ++ expectedRender w t := by
  rw [invokeRenderCallbacks_log dw (logOnlyAll_at h) t]; rfl

/-- ... and changes nothing else in the world. -/
theorem c13_render_frame (dw : Measure) (w : World) (t : Nat) (h : LogOnlyAll w) :
    { invokeRenderCallbacks dw w t with events := w.events } = w := by
  rw [invokeRenderCallbacks_log dw (logOnlyAll_at h) t]; rfl

/-- Several passes: each pass appends the same documented list again. -/
theorem c13_render_order_twice (dw : Measure) (w : World) (t : Nat) (h : LogOnlyAll w) :
    (invokeRenderCallbacks dw (invokeRenderCallbacks dw w t) t).events =
      w.events ++ expectedRender w t ++ expectedRender w t := by
  have hat := (logOnlyAll_at h)
  rw [invokeRenderCallbacks_log dw hat t]
  have hat' : LogOnlyAt (w.addEv (expectedRender w t)) := hat
  rw [invokeRenderCallbacks_log dw hat' t]
  rfl

/-- The inner pieces, for reference: the cells of a row, and a row. -/
theorem c13_render_order_row (dw : Measure) (w : World) (t r : Nat) (h : LogOnlyAll w) :
    (renderRow dw t w r).events = w.events ++ rowExpected w t r := by
  have := renderRow_log dw (logOnlyAll_at h) t r []
  rw [addEv_nil] at this
  rw [this]; simp

example : LogOnlyAll c13ExW := by decide
/-- the expected list of the example, computed: header cell, body cell, then row 1 itself (post) -/
example : expectedRender c13ExW 0 = [⟨7, .cell 0 0⟩, ⟨7, .cell 1 0⟩, ⟨9, .row 1⟩] := by decide
example : (invokeRenderCallbacks c13ExDw c13ExW 0).events = [⟨7, .cell 0 0⟩, ⟨7, .cell 1 0⟩, ⟨9, .row 1⟩] := by
  decide

/-! ## Once per target -/

/-- `UniqueIn` can be checked by evaluation. -/
theorem c13_unique_check {w : World} {id : Nat} {s : CbSlot} {tm : Time} (h : uniqueInB w id s tm = true) :
    UniqueIn w id s tm :=
  uniqueInB_sound h

/-- The whole matrix.  A registration that is the only one with its id, in slot `s` at time `tm`, is
    invoked during one render pass over table `t` exactly on the targets `renderTargets w t s tm`, in
    that order (first line); so the count of `⟨id, tgt⟩` grows by the number of occurrences of `tgt`
    in that list (second), which is 1 or 0 when no row is visited twice (third). -/
theorem c13_once (dw : Measure) (w : World) (t id : Nat) (s : CbSlot) (tm : Time) (tgt : Target)
    (h : LogOnlyAll w) (hu : UniqueIn w id s tm) :
    (expectedRender w t).filter (fun e => e.cb == id) = (renderTargets w t s tm).map (fun x => ⟨id, x⟩) ∧
    (invokeRenderCallbacks dw w t).events.count ⟨id, tgt⟩ =
      w.events.count ⟨id, tgt⟩ + (renderTargets w t s tm).count tgt ∧
    ((renderRows w t).Nodup →
      (invokeRenderCallbacks dw w t).events.count ⟨id, tgt⟩ =
        w.events.count ⟨id, tgt⟩ + if tgt ∈ renderTargets w t s tm then 1 else 0) := by
  have hproj := evOf_expectedRender_gen hu t
  have hcount : (invokeRenderCallbacks dw w t).events.count ⟨id, tgt⟩ =
      w.events.count ⟨id, tgt⟩ + (renderTargets w t s tm).count tgt := by
    rw [c13_render_order dw w t h, List.count_append, ← count_evOf id tgt (expectedRender w t), hproj,
      count_map_inj (fun x => (⟨id, x⟩ : Event)) (fun a b e => by cases e; rfl)]
  refine ⟨hproj, hcount, fun hnd => ?_⟩
  rw [hcount, (renderTargets_nodup s tm hnd).count]

/-- what `renderTargets` contains, spelled out -/
theorem c13_once_targets (w : World) (t : Nat) (s : CbSlot) (tm : Time) (tgt : Target) :
    tgt ∈ renderTargets w t s tm ↔
      (tableFires t s tm = true ∧ tgt = .table t) ∨
      (∃ n, n < (w.table t).columns.length ∧ colFires t s tm n = true ∧ tgt = .column t n) ∨
      (∃ r, r ∈ renderRows w t ∧
        ((rowFires s tm r = true ∧ tgt = .row r) ∨
         ∃ i, i < (w.rowCells r).length ∧ cellFires w t s tm r i = true ∧ tgt = .cell r i)) :=
  mem_renderTargets

example : UniqueIn c13ExW 7 (.tableCell 0) .pre := c13_unique_check (by decide)
example : UniqueIn c13ExW 9 (.rowSelf 1) .post := c13_unique_check (by decide)
example : (renderRows c13ExW 0).Nodup := by decide
example : renderTargets c13ExW 0 (.tableCell 0) .pre = [.cell 0 0, .cell 1 0] := by decide
example : renderTargets c13ExW 0 (.rowSelf 1) .post = [.row 1] := by decide
example : renderTargets c13ExW 0 (.rowSelf 1) .render = [] := by decide
example : cellTargets c13ExW 0 = [.cell 0 0, .cell 1 0] := by decide


/-- A table-level cell callback registered (uniquely, under id `id`) at a render-time `tm` fires in one
    pass exactly once on every cell of the header row and of every row in `rows`, and on nothing else:
    the count of `⟨id, tgt⟩` grows by 1 if `tgt` is such a cell and by 0 otherwise. -/
theorem c13_once_table_cell (dw : Measure) (w : World) (t id : Nat) (tm : Time) (tgt : Target)
    (h : LogOnlyAll w) (hu : UniqueIn w id (.tableCell t) tm) (htm : tm ≠ .add)
    (hnd : (renderRows w t).Nodup) :
    (invokeRenderCallbacks dw w t).events.count ⟨id, tgt⟩ =
      w.events.count ⟨id, tgt⟩ + if tgt ∈ cellTargets w t then 1 else 0 := by
  rw [c13_render_order dw w t h, List.count_append, ← count_evOf id tgt (expectedRender w t),
    evOf_expectedRender_tableCell hu htm,
    count_map_inj (fun tgt => (⟨id, tgt⟩ : Event)) (fun a b e => by cases e; rfl),
    (cellTargets_nodup hnd).count]

/-- which targets those are -/
theorem c13_once_table_cell_targets (w : World) (t : Nat) (tgt : Target) :
    tgt ∈ cellTargets w t ↔
      ∃ r i, tgt = .cell r i ∧ r ∈ renderRows w t ∧ i < (w.rowCells r).length :=
  mem_cellTargets

/-- The events of such a registration, in order: one per visited cell, in traversal order. -/
theorem c13_once_table_cell_trace (w : World) (t id : Nat) (tm : Time)
    (hu : UniqueIn w id (.tableCell t) tm) (htm : tm ≠ .add) :
    (expectedRender w t).filter (fun e => e.cb == id) = (cellTargets w t).map (fun tgt => ⟨id, tgt⟩) :=
  evOf_expectedRender_tableCell hu htm

/-- A row-itself callback registered (uniquely) at pre- or post-cell time on row `r` fires in one pass
    over table `t` exactly once, on row `r`, if `r` is the header row or one of the rows of `t`, and
    not at all otherwise. -/
theorem c13_once_row_self (dw : Measure) (w : World) (t r id : Nat) (tm : Time) (tgt : Target)
    (h : LogOnlyAll w) (hu : UniqueIn w id (.rowSelf r) tm) (htm : tm = .pre ∨ tm = .post)
    (hnd : (renderRows w t).Nodup) :
    (invokeRenderCallbacks dw w t).events.count ⟨id, tgt⟩ =
      w.events.count ⟨id, tgt⟩ + if tgt = .row r ∧ r ∈ renderRows w t then 1 else 0 := by
  rw [c13_render_order dw w t h, List.count_append, ← count_evOf id tgt (expectedRender w t),
    evOf_expectedRender_rowSelf hu htm t, List.filter_beq, List.map_replicate, hnd.count]
  by_cases hr : r ∈ renderRows w t
  · by_cases ht : tgt = .row r
    · subst ht; simp [hr]
    · have : ¬ (⟨id, Target.row r⟩ : Event) = ⟨id, tgt⟩ := fun e => ht (by cases e; rfl)
      simp [hr, ht, this]
  · simp [hr]

/-! ## Add-time order -/

/-- `Row.Add`: only the row's own cell callbacks at time add fire, on the new (stored) cell, in
    registration order; the resulting world is the linked state plus those events. -/
theorem c13_add_order_rowAddCell (dw : Measure) (w : World) (r : Nat) (ce : Cell) (cs : List Cell)
    (h : LogOnlyAll w) (hcs : (w.row r).cells = some cs) :
    rowAddCell dw w r ce =
      (rowAddLinked w r ce cs).addEv (logEvents (w.cbsAt (.rowCell r) .add) (.cell r cs.length)) ∧
    (rowAddCell dw w r ce).events = w.events ++ logEvents (w.cbsAt (.rowCell r) .add) (.cell r cs.length) := by
  have := rowAddCell_log dw (logOnlyAll_at h) r ce cs hcs
  refine ⟨this, ?_⟩
  rw [this, addEv_events, rowAddLinked_events]

/-- the new cell is the live, stored one: last cell of the row, with its back-pointers set -/
theorem c13_add_order_rowAddCell_target (w : World) (r : Nat) (ce : Cell) (cs : List Cell)
    (hr : r < w.rows.length) :
    (rowAddLinked w r ce cs).cell? r cs.length = some (placedCell r cs.length ce) := by
  simp [World.cell?, rowAddLinked_rowCells hr]

/-- `Row.Add` on a non-cell row (separator): an error, no callback, no cell. -/
theorem c13_add_order_rowAddCell_refused (dw : Measure) (w : World) (r : Nat) (ce : Cell)
    (hcs : (w.row r).cells = none) :
    (rowAddCell dw w r ce).events = w.events ∧ (rowAddCell dw w r ce).rowCells r = w.rowCells r := by
  rw [rowAddCell_nil dw w r ce hcs]
  exact ⟨events_addErrTo _ _ _, rowCells_addErrTo _ _ _ _⟩

/-- `AddRow`: the row's own add callbacks, then the table's row callbacks, both on the row; then per
    cell, in order, the column's cell callbacks (if the cell has a column) and the table's cell
    callbacks, on that cell.  All evaluated in the linked state `addRowLinked w t r`, which has the
    same callback sets as `w`. -/
theorem c13_add_order_addRow (dw : Measure) (w : World) (t r : Nat) (h : LogOnlyAll w) :
    addRow dw w t r = (addRowLinked w t r).addEv (expectedAddRow (addRowLinked w t r) t r) ∧
    (addRow dw w t r).events = w.events ++ expectedAddRow (addRowLinked w t r) t r ∧
    (∀ s tm, (addRowLinked w t r).cbsAt s tm = w.cbsAt s tm) := by
  have := addRow_log dw (logOnlyAll_at h) t r
  refine ⟨this, ?_, fun s tm => by simp only [World.cbsAt, cbSet_addRowLinked]⟩
  rw [this]; rfl

/-- `AddHeaders`: the table's row callbacks on the new header row, then per header cell the table's
    cell callbacks.  Column-level cell callbacks do NOT fire for header cells: the header row is not
    `inTable`, so `columnOfTable` is nil (the property text is silent on this; this is what the code
    does). -/
theorem c13_add_order_addHeaders (dw : Measure) (w : World) (t : Nat) (items : List Nat) (h : LogOnlyAll w) :
    addHeaders dw w t items = (addHeadersLinked dw w t items).addEv (expectedAddHeaders w t items) ∧
    (addHeaders dw w t items).events = w.events ++ expectedAddHeaders w t items := by
  have := addHeaders_log dw (logOnlyAll_at h) t items
  refine ⟨this, ?_⟩
  rw [this]; rfl

/-- `AddRow` of a well-formed row (as `Row.Add` builds them) to an existing table, stated in terms of
    the world before the call: cell `j` gets the cell callbacks of column `j + 1` as registered before
    the call (none if the table was narrower), then the table's cell callbacks. -/
theorem c13_add_order_addRow_wf (dw : Measure) (w : World) (t r : Nat) (h : LogOnlyAll w)
    (ht : t < w.tables.length) (hr : r < w.rows.length) (hwf : RowAddWF w r) :
    (addRow dw w t r).events = w.events ++ expectedAddRowWF w t r := by
  rw [(c13_add_order_addRow dw w t r h).2.1, expectedAddRow_wf ht hr hwf]

/-- The three add-time event-list equations together (log-only world). -/
theorem c13_add_order (dw : Measure) (w : World) (h : LogOnlyAll w) :
    (∀ r ce cs, (w.row r).cells = some cs →
      (rowAddCell dw w r ce).events = w.events ++ logEvents (w.cbsAt (.rowCell r) .add) (.cell r cs.length)) ∧
    (∀ t r, (addRow dw w t r).events = w.events ++ expectedAddRow (addRowLinked w t r) t r) ∧
    (∀ t items, (addHeaders dw w t items).events = w.events ++ expectedAddHeaders w t items) :=
  ⟨fun r ce cs hcs => (c13_add_order_rowAddCell dw w r ce cs h hcs).2,
   fun t r => (c13_add_order_addRow dw w t r h).2.1,
   fun t items => (c13_add_order_addHeaders dw w t items h).2⟩

/-- add-time example: table 0 (one column so far) with a table row-callback `1`, a table cell-callback
    `2` and a column-1 cell-callback `3`; a free row 1 with its own add callback `4` and a row
    cell-callback `5`. -/
def c13ExAdd : World :=
  let w := c13ExBase
  let w := (w.registerCb (.table 0) .add .row (.log 1)).getD w
  let w := (w.registerCb (.table 0) .add .cell (.log 2)).getD w
  let w := (w.registerCb (.column 0 1) .add .cell (.log 3)).getD w
  let w := (w.newRow {}).1
  let w := (w.registerCb (.row 2) .add .itself (.log 4)).getD w
  (w.registerCb (.row 2) .add .cell (.log 5)).getD w

example : LogOnlyAll c13ExAdd := by decide
example : (c13ExAdd.row 2).cells = some [] := by decide
example : (rowAddCell c13ExDw c13ExAdd 2 (newCell c13ExDw 0 c13ExItem)).events = [⟨5, .cell 2 0⟩] := by decide
/-- a separator row refuses cells -/
example : ((addSeparator c13ExAdd 0).row 3).cells = none := by decide
example : 0 < c13ExAdd.tables.length ∧ 2 < (rowAdd c13ExDw c13ExAdd 2 0).rows.length ∧
    RowAddWF (rowAdd c13ExDw c13ExAdd 2 0) 2 ∧ LogOnlyAll (rowAdd c13ExDw c13ExAdd 2 0) := by decide
/-- row itself, table row-callback, then for the cell: column callback, table callback -/
example : expectedAddRowWF (rowAdd c13ExDw c13ExAdd 2 0) 0 2 =
    [⟨4, .row 2⟩, ⟨1, .row 2⟩, ⟨3, .cell 2 0⟩, ⟨2, .cell 2 0⟩] := by decide
example : (addRow c13ExDw (rowAdd c13ExDw c13ExAdd 2 0) 0 2).events =
    [⟨5, .cell 2 0⟩, ⟨4, .row 2⟩, ⟨1, .row 2⟩, ⟨3, .cell 2 0⟩, ⟨2, .cell 2 0⟩] := by decide
/-- headers: the column callback `3` does not fire -/
example : expectedAddHeaders c13ExAdd 0 [0] = [⟨1, .row 3⟩, ⟨2, .cell 3 0⟩] := by decide
example : (addHeaders c13ExDw c13ExAdd 0 [0]).events = [⟨1, .row 3⟩, ⟨2, .cell 3 0⟩] := by decide

/-! ## Live object -/

/-- `get` after `set` on a property chain. -/
theorem c13_chain_get_set (c : Chain) (k : Key) (v : Option Val) (h : v.isSome = true ∨ c.keys.Nodup) :
    (c.set k v).get k = v :=
  chain_get_set c k v h

/-- other keys are not disturbed, and the `Nodup` invariant of keys is kept -/
theorem c13_chain_set_frame (c : Chain) (k k' : Key) (v : Option Val) (hk : k ≠ k') :
    (c.set k v).get k' = c.get k' ∧ (c.keys.Nodup → (c.set k v).keys.Nodup) :=
  ⟨chain_get_set_ne c v hk, chain_set_keys_nodup c k v⟩

/-- The object handed to a callback is the live one: after a `.setProp id k v` callback has been
    invoked on an existing table / column / row / cell (or caller-held cell value), reading `k` from
    that object through the world gives `v` — always for a proper value, and for `nil` (= remove)
    when the owner's chain has no duplicate keys (an invariant of `SetProperty`). -/
theorem c13_live (dw : Measure) (w : World) (id : Nat) (k : Key) (v : Option Val) (tgt : Target) (tk : Taker)
    (h : w.hasObj tgt) (hv : v.isSome = true ∨ (w.chainOf tgt).keys.Nodup) :
    (invokeOne dw w (.setProp id k v) tgt tk).getProp tgt k = v ∧
    (invokeOne dw w (.setProp id k v) tgt tk).events = w.events ++ [⟨id, tgt⟩] := by
  have e : invokeOne dw w (.setProp id k v) tgt tk = (w.addEv [⟨id, tgt⟩]).setProp tgt k v := rfl
  have h' : (w.addEv [⟨id, tgt⟩]).hasObj tgt := by cases tgt <;> exact h
  have hc : (w.addEv [⟨id, tgt⟩]).chainOf tgt = w.chainOf tgt := by cases tgt <;> rfl
  rw [e, getProp_setProp_self _ _ _ _ h', hc]
  refine ⟨chain_get_set _ k v hv, ?_⟩
  cases tgt <;> rfl

/-- it does not disturb the object's other properties -/
theorem c13_live_frame (dw : Measure) (w : World) (id : Nat) (k k' : Key) (v : Option Val) (tgt : Target)
    (tk : Taker) (h : w.hasObj tgt) (hk : k ≠ k') :
    (invokeOne dw w (.setProp id k v) tgt tk).getProp tgt k' = w.getProp tgt k' := by
  have e : invokeOne dw w (.setProp id k v) tgt tk = (w.addEv [⟨id, tgt⟩]).setProp tgt k v := rfl
  have h' : (w.addEv [⟨id, tgt⟩]).hasObj tgt := by cases tgt <;> exact h
  rw [e, getProp_setProp_other_key _ _ _ h' hk]
  cases tgt <;> rfl

example : c13ExW.hasObj (.cell 1 0) ∧ (c13ExW.chainOf (.cell 1 0)).keys.Nodup := by decide
example : (invokeOne c13ExDw c13ExW (.setProp 11 (.user 1) (some (.user 5))) (.cell 1 0) .drop).getProp
    (.cell 1 0) (.user 1) = some (.user 5) := by decide
example : (invokeOne c13ExDw c13ExW (.setProp 11 (.user 1) (some (.user 5))) (.column 0 1) .drop).getProp
    (.column 0 1) (.user 1) = some (.user 5) := by decide

end Tab
