/-
  C03h — the hypotheses that the text-table theorems left to the caller (`TableFits`, and
  "`cellWidth` = widest text line"), discharged for tables built through the API.

  Vocabulary (Proofs/C03hDefs.lean; every predicate is decidable):

  * `Item.isPlain it`  — `it` is not a nested `tabular.Cell` and declares neither
    `TerminalCellWidth()` nor `Height()`;
  * `Item.Fits dw it`  — the per-item condition that `Cell.FitsSrc` needs of the cell `Update` builds:
    an item declaring a width has a single-line text; a nested `Cell` that declares none carries a
    cached width equal to the widest line of its text; anything else is fine.  Declared heights are
    unconstrained (`TableFits` does not read heights);
  * `Cell.Measured dw ce` — `ce.width = longestLine dw ce.str ∧ ce.height = (lines ce.str).length`;
  * `PlainItems dw ops` — every item of every store a `setItems` installs is plain, and every cell
    VALUE given to `Row.Add(cell)` (`rowAddCell`; in Go a by-value copy, or `Cell{}`) is `Measured`
    (closed under adding copies the history itself made: `c03h_add_copy`);
  * `FitItems dw ops`  — a fold over the history tracking the current store `s` and the item ids `u`
    cells were made from: every item of a new store `Fits`; a new store does not change, for an id
    in `u`, WHETHER the item declares a width (in Go the dynamic type of a cell's item never
    changes); a cell value given to `Row.Add(cell)` satisfies `Cell.FitsSrc` for the item it names.

  Why no clause of `FitItems` can be dropped (examples at the end, `dw := List.length`):
  * `Fits`: an item declaring width 1 with the text "ab\ncd" gives lines of different widths (the
    documented exception: a declared width narrower than a multi-line text);
  * stability: a cell made from an item declaring width 3 with text "abcdef", whose item is then
    replaced by one declaring nothing, WITHOUT `Update`, keeps the cached 3: the line overflows.
    The other direction — an item that starts declaring a width after the cell was made — is forced
    by the definition of `Cell.FitsSrc`, not by the renderer; it is admitted by the weaker class
    `FitItemsW` (section "the weaker class"), which proves the same rectangle without `TableFits`.

  Theorems: `c03h_plain_fit`, `c03h_add_copy` (the classes); `c03h_cell_invariant(_fit)` (every cell of
  `run dw ops`); `c03h_tablefits`; `c03h_text_rectangle(_boxless)` (capstones on `e2ecb_text_rectangle*`,
  arbitrary callbacks under `UserKeysOnly`); for plain histories `c03h_view_cells`, `c03h_column_widths`,
  `c03h_text_rectangle_plain`, `c03h_row_lines`, `c03h_whole_line`; `c03h_fit_weak`,
  `c03h_tablefits_weak`, `c03h_text_rectangle_weak(_boxless)`.
-/
import Tabmodel.Proofs.C03hWeak
import Tabmodel.Proofs.C03hExample
import Tabmodel.Props.E2Ecb
namespace Tab
open World hiding CellOK
open E2Ecb C03h

/-! ### the two classes of histories -/

/-- plain histories are fitting histories -/
theorem c03h_plain_fit (dw : Measure) (ops : List BuildOp) (h : PlainItems dw ops) : FitItems dw ops :=
  fitFrom_of_plain dw ops [] [] (fun _ h => (List.not_mem_nil h).elim) h

/-- Both classes are closed under `Row.Add` of a by-value copy the history itself took (`copyCell`):
    the harness operation `rowaddcopy`. -/
theorem c03h_add_copy (dw : Measure) (ops : List BuildOp) (r : Nat) (ce : Cell)
    (hce : ce ∈ (run dw ops).copies) :
    (PlainItems dw ops → PlainItems dw (ops ++ [.rowAddCell r ce])) ∧
    (FitItems dw ops → FitItems dw (ops ++ [.rowAddCell r ce])) := by
  constructor
  · intro h op hop
    rcases List.mem_append.mp hop with h1 | h1
    · exact h op h1
    · rw [List.mem_singleton.mp h1]
      exact (plainInv_run dw ops h).2.2 ce hce
  · intro h
    unfold FitItems
    rw [fitFrom_append]
    exact ⟨h, ((fitInv_run dw ops h).2.2.2 ce hce).2, trivial⟩

/-! ### the cell invariant -/

/-- PLAIN histories: in the built world every item the store holds (and the `nil` an out-of-range id
    stands for) is plain, and EVERY cell — of every row in the store, attached or not, header or
    body, and every by-value copy — caches exactly the sizes of its text: `width` (and
    `TerminalCellWidth()`) = widest line in display cells, `height` (and `Height()`) = number of
    lines.  Kept by every operation, including `Update` after the item changed (`setItems` …
    `updateCell`), a stale cell whose item changed without `Update` (width and text are cached
    together), `copyCell`, and `Row.Add` of a copy.  No `Valid` needed. -/
theorem c03h_cell_invariant (dw : Measure) (ops : List BuildOp) (hP : PlainItems dw ops) :
    let w := run dw ops
    (∀ i, (w.item i).isPlain) ∧
    (∀ r, ∀ ce ∈ w.rowCells r,
      ce.width = (longestLine dw ce.str : Nat) ∧ ce.height = ((lines ce.str).length : Nat) ∧
      ce.termWidth = (longestLine dw ce.str : Nat) ∧ ce.hgt = ((lines ce.str).length : Nat)) ∧
    (∀ ce ∈ w.copies,
      ce.width = (longestLine dw ce.str : Nat) ∧ ce.height = ((lines ce.str).length : Nat)) := by
  intro w
  have h := plainInv_run dw ops hP
  refine ⟨h.item, ?_, fun ce hce => h.2.2 ce hce⟩
  intro r ce hce
  have hm := h.2.rowCells r ce hce
  exact ⟨hm.1, hm.2, measured_termWidth hm, measured_hgt hm⟩

/-- FITTING histories: the store is the last one installed, all its items `Fit`, and every cell of
    every row and every copy satisfies `Cell.FitsSrc` for the item the store NOW holds under the
    cell's id: the item declares no width and the cached width is the widest line of the cached text
    (the measured form), or it declares one and the cached text is a single line (the override form:
    the cached width is then whatever `TerminalCellWidth()` returned at the last `Update`). -/
theorem c03h_cell_invariant_fit (dw : Measure) (ops : List BuildOp) (hF : FitItems dw ops) :
    let w := run dw ops
    w.items = finalStore [] ops ∧ (∀ i, (w.item i).Fits dw) ∧
    (∀ r, ∀ ce ∈ w.rowCells r, Cell.FitsSrc dw (w.item ce.item) ce) ∧
    (∀ ce ∈ w.copies, Cell.FitsSrc dw (w.item ce.item) ce) := by
  intro w
  have h := fitInv_run dw ops hF
  refine ⟨h.1, fun i => (h.item i).2, ?_, ?_⟩
  · intro r ce hce
    rw [(h.item ce.item).1]
    exact (h.2.2.rowCells r ce hce).2
  · intro ce hce
    rw [(h.item ce.item).1]
    exact (h.2.2.2 ce hce).2

/-! ### `TableFits` -/

/-- `TableFits`, exactly as `e2e_text_rectangle` / `e2ecb_text_rectangle` ask for it, for every table
    of a fitting history. -/
theorem c03h_tablefits (dw : Measure) (ops : List BuildOp) (hF : FitItems dw ops) (t : Nat) :
    TableFits dw (run dw ops) t :=
  fun r _ ce hce => (c03h_cell_invariant_fit dw ops hF).2.2.1 r ce hce

/-! ### the rectangle, with no `TableFits` left to the caller -/

/-- `e2ecb_text_rectangle` (arbitrary user callbacks that name no private key) with `TableFits`
    replaced by the decidable condition `FitItems` on the history. -/
theorem c03h_text_rectangle (x : Ext) (ops : List BuildOp) (hv : Valid ops = true) (wr : Wrapper)
    (hk : wr.kind = .text) (ht : wr.core < (run x.dw ops).tables.length)
    (hU : (run x.dw ops).UserKeysOnly wr.core) (hN : Needs (run x.dw ops) wr) (hg : GlyphOK x.dw wr.decor)
    (ha : AlignOK ((invokeRenderCallbacks x.dw (run x.dw ops) wr.core).view wr.core))
    (hn : 1 ≤ ((run x.dw ops).table wr.core).nColumns) (hF : FitItems x.dw ops) :
    let w := run x.dw ops
    let v' := (invokeRenderCallbacks x.dw w wr.core).view wr.core
    let m := (w.renderTo x wr).2
    ViewOK x.dw v' ∧ m.res = .ok () ∧
    ∀ ch ∈ m.chunks, ∃ segs, ch = segBytes segs ++ [LF] ∧
      segWidth x.dw segs = 1 + (v'.colWidths.map (· + 3)).sum ∧
      divOffsets x.dw 0 segs = colOffsets 0 v'.colWidths :=
  e2ecb_text_rectangle x ops hv wr hk ht hU hN hg ha hn (c03h_tablefits x.dw ops hF wr.core)

/-- the same for the boxless decoration -/
theorem c03h_text_rectangle_boxless (x : Ext) (ops : List BuildOp) (hv : Valid ops = true) (wr : Wrapper)
    (hk : wr.kind = .text) (ht : wr.core < (run x.dw ops).tables.length)
    (hU : (run x.dw ops).UserKeysOnly wr.core) (hN : Needs (run x.dw ops) wr) (hb : BoxlessOK wr.decor)
    (ha : AlignOK ((invokeRenderCallbacks x.dw (run x.dw ops) wr.core).view wr.core))
    (hn : 1 ≤ ((run x.dw ops).table wr.core).nColumns) (hF : FitItems x.dw ops) :
    let w := run x.dw ops
    let v' := (invokeRenderCallbacks x.dw w wr.core).view wr.core
    let m := (w.renderTo x wr).2
    ViewOK x.dw v' ∧ m.res = .ok () ∧
    ∀ ch ∈ m.chunks, ch = [] ∨ ∃ slots, ch = segBytes (boxlessSegs slots) ++ [LF] ∧
      slots.map SlotD.width = v'.colWidths ∧
      segWidth x.dw (boxlessSegs slots) = v'.colWidths.sum + (v'.colWidths.length - 1) :=
  e2ecb_text_rectangle_boxless x ops hv wr hk ht hU hN hb ha hn (c03h_tablefits x.dw ops hF wr.core)

/-! ### plain histories: the view after the pass, cell by cell and column by column -/

/-- the widest text line of column `i` (0-based) of table `t` of the built world: the maximum, over
    the header cell and every body cell the column has, of the display widths of the cell's text
    lines; 0 when the column has no cell (or only empty ones) -/
def World.colTextWidth (dw : Measure) (w : World) (t i : Nat) : Nat :=
  maxNat ((w.colTexts t i).flatMap (fun s => (lines s).map dw))

/-- For a plain history with the measuring callback registered (`Needs`; any user callbacks under
    `UserKeysOnly`), every cell of the view the text renderer reads carries the measurement of its
    own text and nothing else: `cellWidth` is the widest line, `lws` is the list of its lines with
    their display widths (no blank padding: no declared height). -/
theorem c03h_view_cells (x : Ext) (ops : List BuildOp) (wr : Wrapper) (hk : wr.kind = .text)
    (hU : (run x.dw ops).UserKeysOnly wr.core) (hN : Needs (run x.dw ops) wr) (hP : PlainItems x.dw ops) :
    let v' := (invokeRenderCallbacks x.dw (run x.dw ops) wr.core).view wr.core
    ∀ c ∈ v'.allCells,
      c.cellWidth = ((longestLine x.dw c.text : Nat) : Int) ∧
      c.lws = (lines c.text).map (fun l => ({ s := l, w := ((x.dw l : Nat) : Int) } : WidthString)) ∧
      CellMeasured x.dw c :=
  fun c hc =>
    have h := plain_view_cell x.dw _ wr.core hU (hN.1 hk) (plainInv_run x.dw ops hP) c hc
    ⟨h.1, h.2, fun y hy => by
      rw [h.2] at hy
      obtain ⟨l, _, rfl⟩ := List.mem_map.mp hy
      rfl⟩

/-- COLUMN WIDTHS.  For a valid plain history, in the view the text renderer reads after its pass:
    * the cells of column `i`, in order (header first), carry the texts of the cells of column `i` of
      the built table (`colTexts`);
    * the column's width `colWidth i` is exactly the widest text line of any header or body cell in
      it (`colTextWidth`), 0 if it has none;
    * and these are the widths the renderer computes and pads to (`ttColumnWidths` succeeds with
      them): every slot is padded to `colWidth i` and set off by one space on either side
      (`c03_content_shape`, `c03_rule_shape`: rule runs are `colWidth i + 2` long; in
      `c03h_text_rectangle_plain` the dividers sit at `colOffsets`, i.e. `colWidth i + 3` apart). -/
theorem c03h_column_widths (x : Ext) (ops : List BuildOp) (hv : Valid ops = true) (wr : Wrapper)
    (hk : wr.kind = .text) (ht : wr.core < (run x.dw ops).tables.length)
    (hU : (run x.dw ops).UserKeysOnly wr.core) (hN : Needs (run x.dw ops) wr) (hP : PlainItems x.dw ops) :
    let w := run x.dw ops
    let v' := (invokeRenderCallbacks x.dw w wr.core).view wr.core
    (∀ i, (v'.colCells i).map (·.text) = w.colTexts wr.core i) ∧
    (∀ i, v'.colWidth i = w.colTextWidth x.dw wr.core i) ∧
    v'.colWidths = (List.range (w.table wr.core).nColumns).map (w.colTextWidth x.dw wr.core) ∧
    ∃ wsI, ttColumnWidths v' = .ok wsI ∧
      wsI.map Int.toNat = (List.range (w.table wr.core).nColumns).map (w.colTextWidth x.dw wr.core) := by
  intro w v'
  have hinv := c02_inv_run x.dw ops hv
  have hsep : ∀ r, (w.row r).isSep = true → w.rowCells r = [] := by
    intro r hs
    unfold World.rowCells
    rw [c02_inv_sep hinv r hs]; rfl
  have hpos := fun i => colCells_postpass x.dw w wr.core i hU (hN.1 hk) hsep
  have hPI := plainInv_run x.dw ops hP
  have htext : ∀ i, (v'.colCells i).map (·.text) = w.colTexts wr.core i := by
    intro i
    have := map_eq_map_comp (hpos i) RCell.text
    exact this
  have hwidth : ∀ i, v'.colWidth i = w.colTextWidth x.dw wr.core i := by
    intro i
    have h1 := map_eq_map_comp (hpos i) (fun c => c.cellWidth.toNat)
    have h2 : (v'.colCells i).map (fun c => c.cellWidth.toNat) =
        (w.colCellsOf wr.core i).map (fun ce => longestLine x.dw ce.str) := by
      refine Eq.trans h1 ?_
      apply List.map_congr_left
      intro ce hce
      obtain ⟨r, _, hr⟩ := colCellsOf_mem w wr.core i ce hce
      rw [canonCell_cellWidth, measured_termWidth (hPI.2.rowCells r ce hr)]
      rfl
    unfold RTable.colWidth World.colTextWidth World.colTexts
    rw [h2, maxNat_flatMap, List.map_map]
    congr 1
    apply List.map_congr_left
    intro ce _
    exact longestLine_eq x.dw ce.str
  have hnc : v'.ncols = (w.table wr.core).nColumns := (irc_view_content x.dw w wr.core wr.core).1
  have hcw : v'.colWidths = (List.range (w.table wr.core).nColumns).map (w.colTextWidth x.dw wr.core) := by
    unfold RTable.colWidths
    rw [hnc]
    exact List.map_congr_left (fun i _ => hwidth i)
  refine ⟨htext, hwidth, hcw, ?_⟩
  obtain ⟨_, hwf, _, _⟩ := c02_view_wf_after_callbacks x.dw hinv wr.core ht
  obtain ⟨wsI, h1, h2⟩ := (c03_column_widths v' hwf).1
  exact ⟨wsI, h1, h2.trans hcw⟩

/-- THE RECTANGLE FOR PLAIN HISTORIES, in terms of the texts: with `tw i` the widest text line of
    column `i` of the built table, the render succeeds and EVERY line written is a list of segments
    (+ LF) of segment-sum width `1 + Σ (tw i + 3)` whose dividers sit at `[0, tw₀+3, tw₀+tw₁+6, …]`
    (each column: one space, `tw i` cells, one space, then the next divider). -/
theorem c03h_text_rectangle_plain (x : Ext) (ops : List BuildOp) (hv : Valid ops = true) (wr : Wrapper)
    (hk : wr.kind = .text) (ht : wr.core < (run x.dw ops).tables.length)
    (hU : (run x.dw ops).UserKeysOnly wr.core) (hN : Needs (run x.dw ops) wr) (hg : GlyphOK x.dw wr.decor)
    (ha : AlignOK ((invokeRenderCallbacks x.dw (run x.dw ops) wr.core).view wr.core))
    (hn : 1 ≤ ((run x.dw ops).table wr.core).nColumns) (hP : PlainItems x.dw ops) :
    let w := run x.dw ops
    let tw := (List.range (w.table wr.core).nColumns).map (w.colTextWidth x.dw wr.core)
    let m := (w.renderTo x wr).2
    m.res = .ok () ∧
    ∀ ch ∈ m.chunks, ∃ segs, ch = segBytes segs ++ [LF] ∧
      segWidth x.dw segs = 1 + (tw.map (· + 3)).sum ∧
      divOffsets x.dw 0 segs = colOffsets 0 tw := by
  intro w tw m
  obtain ⟨_, hok, hall⟩ := c03h_text_rectangle x ops hv wr hk ht hU hN hg ha hn (c03h_plain_fit x.dw ops hP)
  have hcw := (c03h_column_widths x ops hv wr hk ht hU hN hP).2.2.1
  refine ⟨hok, ?_⟩
  intro ch hch
  obtain ⟨segs, h1, h2, h3⟩ := hall ch hch
  refine ⟨segs, h1, ?_, ?_⟩
  · rw [h2, hcw]
  · rw [h3, hcw]

/-- LINE COUNT of a row, plain histories: a header or body row of the view contributes
    `max 1 (most text lines of any of its cells within the first ncols)` content lines. -/
theorem c03h_row_lines (x : Ext) (ops : List BuildOp) (wr : Wrapper) (hk : wr.kind = .text)
    (hU : (run x.dw ops).UserKeysOnly wr.core) (hN : Needs (run x.dw ops) wr) (hP : PlainItems x.dw ops) :
    let v' := (invokeRenderCallbacks x.dw (run x.dw ops) wr.core).view wr.core
    ∀ cells, (v'.header = some cells ∨ some cells ∈ v'.rows) → ∀ (L I R : Bytes) (cw al : List Nat),
      (rowChunks L I R cw al cells v'.ncols).length =
        max 1 (maxNat ((cells.take v'.ncols).map (fun c => (lines c.text).length))) := by
  intro v' cells hrow L I R cw al
  rw [rowChunks_length, rowLineCount_eq]
  congr 2
  apply List.map_congr_left
  intro c hc
  have := (c03h_view_cells x ops wr hk hU hN hP c
    (mem_allCells v' cells c hrow (List.mem_of_mem_take hc))).2.1
  rw [this, List.length_map]

/-- WHOLE-LINE WIDTH, plain histories (conditional on additivity, as `c03_whole_line_render`; the
    other two premises of that theorem — `ViewOK` and "every slot's laid-out width is the measure of
    its text" — are discharged): every line written has a segmentation such that, IF `dw` is additive
    over its atoms, the line without its LF measures `1 + Σ (tw i + 3)` by the library's own measure. -/
theorem c03h_whole_line (x : Ext) (ops : List BuildOp) (hv : Valid ops = true) (wr : Wrapper)
    (hk : wr.kind = .text) (ht : wr.core < (run x.dw ops).tables.length)
    (hU : (run x.dw ops).UserKeysOnly wr.core) (hN : Needs (run x.dw ops) wr) (hg : GlyphOK x.dw wr.decor)
    (ha : AlignOK ((invokeRenderCallbacks x.dw (run x.dw ops) wr.core).view wr.core))
    (hn : 1 ≤ ((run x.dw ops).table wr.core).nColumns) (hP : PlainItems x.dw ops)
    (hsp : ∀ k, x.dw (spaces k) = k) :
    let w := run x.dw ops
    let tw := (List.range (w.table wr.core).nColumns).map (w.colTextWidth x.dw wr.core)
    ∀ ch ∈ (w.renderTo x wr).2.chunks, ∃ segs, ch = segBytes segs ++ [LF] ∧
      (AdditiveOn x.dw segs → x.dw (segBytes segs) = 1 + (tw.map (· + 3)).sum) := by
  intro w tw
  have hF := c03h_plain_fit x.dw ops hP
  obtain ⟨hm, hnc, hwf, _, _, _, _⟩ := e2ecb_text x ops hv wr hk ht hU hN (Or.inl hg) ha hn
  obtain ⟨hV, _, _⟩ := c03h_text_rectangle x ops hv wr hk ht hU hN hg ha hn hF
  have hcw := (c03h_column_widths x ops hv wr hk ht hU hN hP).2.2.1
  show ∀ ch ∈ ((run x.dw ops).renderTo x wr).2.chunks, _
  rw [hm]
  have := c03_whole_line_render x.dw wr.decor _ (by rw [hnc]; exact hn) hwf ha hg hV
    (fun c hc => (c03h_view_cells x ops wr hk hU hN hP c hc).2.2) hsp
  rw [hcw] at this
  exact this

/-! ### the weaker class `FitItemsW`: what the renderer needs, beyond `TableFits` as defined

  `Cell.FitsSrc` (Proofs/E2EDefs.lean) asks, in its "measured" disjunct, that the item declare no
  width.  The renderer does not need that: the measuring callback uses a declared width for
  single-line texts only, so a cached width equal to the widest line is enough whatever the item
  declares.  `Cell.FitsW` drops the clause; `FitItemsW` is `FitItems` with `FitsW` for `Fits` /
  `FitsSrc`, and lets an item id in use START declaring a width.  It additionally covers a nested
  multi-line `tabular.Cell` item (`NewCell(NewCell("ab\ncde"))`: a `Cell` always declares a width)
  and a declared width that happens to equal the widest line. -/

/-- fitting histories are weakly fitting -/
theorem c03h_fit_weak (dw : Measure) (ops : List BuildOp) (h : FitItems dw ops) : FitItemsW dw ops :=
  fitFromW_of_fitFrom dw ops [] [] h

/-- the cell invariant and `TableFitsW` for weakly fitting histories -/
theorem c03h_tablefits_weak (dw : Measure) (ops : List BuildOp) (hF : FitItemsW dw ops) :
    let w := run dw ops
    (∀ r, ∀ ce ∈ w.rowCells r, Cell.FitsW dw (w.item ce.item) ce) ∧
    (∀ ce ∈ w.copies, Cell.FitsW dw (w.item ce.item) ce) ∧
    ∀ t, TableFitsW dw w t := by
  intro w
  have h := fitInvW_run dw ops hF
  have h1 : ∀ r, ∀ ce ∈ w.rowCells r, Cell.FitsW dw (w.item ce.item) ce := by
    intro r ce hce
    rw [(h.item ce.item).1]
    exact (h.2.2.rowCells r ce hce).2
  refine ⟨h1, ?_, fun t r _ ce hce => h1 r ce hce⟩
  intro ce hce
  rw [(h.item ce.item).1]
  exact (h.2.2.2 ce hce).2

/-- `c03h_text_rectangle` for weakly fitting histories (not through `e2ecb_text_rectangle`, whose
    `TableFits` premise is false for some of them; same conclusion) -/
theorem c03h_text_rectangle_weak (x : Ext) (ops : List BuildOp) (hv : Valid ops = true) (wr : Wrapper)
    (hk : wr.kind = .text) (ht : wr.core < (run x.dw ops).tables.length)
    (hU : (run x.dw ops).UserKeysOnly wr.core) (hN : Needs (run x.dw ops) wr) (hg : GlyphOK x.dw wr.decor)
    (ha : AlignOK ((invokeRenderCallbacks x.dw (run x.dw ops) wr.core).view wr.core))
    (hn : 1 ≤ ((run x.dw ops).table wr.core).nColumns) (hF : FitItemsW x.dw ops) :
    let w := run x.dw ops
    let v' := (invokeRenderCallbacks x.dw w wr.core).view wr.core
    let m := (w.renderTo x wr).2
    ViewOK x.dw v' ∧ m.res = .ok () ∧
    ∀ ch ∈ m.chunks, ∃ segs, ch = segBytes segs ++ [LF] ∧
      segWidth x.dw segs = 1 + (v'.colWidths.map (· + 3)).sum ∧
      divOffsets x.dw 0 segs = colOffsets 0 v'.colWidths := by
  intro w v' m
  obtain ⟨hm, hnc, hwf, _, _, hok, _⟩ := e2ecb_text x ops hv wr hk ht hU hN (Or.inl hg) ha hn
  have hV : ViewOK x.dw v' :=
    viewOK_cb_weak x.dw w wr.core hU (hN.1 hk) ((c03h_tablefits_weak x.dw ops hF).2.2 wr.core)
  refine ⟨hV, hok, ?_⟩
  show ∀ ch ∈ (w.renderTo x wr).2.chunks, _
  rw [show (w.renderTo x wr).2 = renderTextBody wr.decor v' from hm]
  exact c03_rectangle x.dw wr.decor v' (by rw [hnc]; exact hn) hwf ha hg hV

/-- the same for the boxless decoration -/
theorem c03h_text_rectangle_weak_boxless (x : Ext) (ops : List BuildOp) (hv : Valid ops = true) (wr : Wrapper)
    (hk : wr.kind = .text) (ht : wr.core < (run x.dw ops).tables.length)
    (hU : (run x.dw ops).UserKeysOnly wr.core) (hN : Needs (run x.dw ops) wr) (hb : BoxlessOK wr.decor)
    (ha : AlignOK ((invokeRenderCallbacks x.dw (run x.dw ops) wr.core).view wr.core))
    (hn : 1 ≤ ((run x.dw ops).table wr.core).nColumns) (hF : FitItemsW x.dw ops) :
    let w := run x.dw ops
    let v' := (invokeRenderCallbacks x.dw w wr.core).view wr.core
    let m := (w.renderTo x wr).2
    ViewOK x.dw v' ∧ m.res = .ok () ∧
    ∀ ch ∈ m.chunks, ch = [] ∨ ∃ slots, ch = segBytes (boxlessSegs slots) ++ [LF] ∧
      slots.map SlotD.width = v'.colWidths ∧
      segWidth x.dw (boxlessSegs slots) = v'.colWidths.sum + (v'.colWidths.length - 1) := by
  intro w v' m
  obtain ⟨hm, hnc, hwf, _, _, hok, _⟩ := e2ecb_text x ops hv wr hk ht hU hN (Or.inr hb) ha hn
  have hV : ViewOK x.dw v' :=
    viewOK_cb_weak x.dw w wr.core hU (hN.1 hk) ((c03h_tablefits_weak x.dw ops hF).2.2 wr.core)
  refine ⟨hV, hok, ?_⟩
  show ∀ ch ∈ (w.renderTo x wr).2.chunks, _
  rw [show (w.renderTo x wr).2 = renderTextBody wr.decor v' from hm]
  exact c03_rectangle_boxless x.dw wr.decor v' (by rw [hnc]; exact hn) hwf ha hb hV

/-! ### non-vacuity (`dw := List.length`; histories in Proofs/C03hExample.lean)

  `plainOps`: items "name", "ab\ncde", "x", "", nil; a table with a property-setting cell callback and
  a failing table callback; headers `name | x`; row `"ab\ncde" | x`; a separator; a pre-built row `x`
  to which a by-value COPY of cell (1,0) is added; item "x" mutated to "wider\n!" and only cell (1,1)
  `Update`d (the header and the pre-built row keep the stale "x"); a row `"" | nil`; column 2
  right-aligned; wrapped as text. -/

namespace C03hExample

example : FitItems e2eX.dw plainOps := c03h_plain_fit e2eX.dw plainOps hP
example : PlainItems List.length (plainPre ++ [.rowAddCell 3 ((run List.length plainPre).copies.getD 0 default)]) :=
  (c03h_add_copy List.length plainPre 3 _ hcopy).1 (by decide +kernel)
example := c03h_cell_invariant e2eX.dw plainOps hP
-- the updated cell (1,1) holds the new text with its sizes; the stale header cell (0,1) the old one
example : ((run e2eX.dw plainOps).cell? 1 1).map (fun ce => (ce.str, ce.width, ce.height)) =
    some ([119, 105, 100, 101, 114, 10, 33], 5, 2) := by decide +kernel
example : ((run e2eX.dw plainOps).cell? 0 1).map (fun ce => (ce.str, ce.width, ce.height)) =
    some ([120], 1, 1) := by decide +kernel
example := c03h_cell_invariant_fit e2eX.dw plainOps (c03h_plain_fit e2eX.dw plainOps hP)
example : TableFits e2eX.dw (run e2eX.dw plainOps) 0 := c03h_tablefits e2eX.dw plainOps (c03h_plain_fit _ _ hP) 0
example := c03h_text_rectangle e2eX plainOps hv e2eText rfl ht hU hNt TextExample.hg ha hn (c03h_plain_fit _ _ hP)
example := c03h_text_rectangle_boxless e2eX plainOps hv e2eBoxless rfl ht hU hNb TextExample.hb ha hn
  (c03h_plain_fit _ _ hP)
example := c03h_view_cells e2eX plainOps e2eText rfl hU hNt hP
example := c03h_row_lines e2eX plainOps e2eText rfl hU hNt hP
-- the texts of the two columns, and their widest lines: "name" (4) and "wider" (5)
example : (List.range 2).map ((run e2eX.dw plainOps).colTexts 0) =
    [[[110, 97, 109, 101], [97, 98, 10, 99, 100, 101], [120], []],
     [[120], [119, 105, 100, 101, 114, 10, 33], [97, 98, 10, 99, 100, 101], []]] := by decide +kernel
example : (List.range 2).map ((run e2eX.dw plainOps).colTextWidth e2eX.dw 0) = [4, 5] := by decide +kernel
example : ((invokeRenderCallbacks e2eX.dw (run e2eX.dw plainOps) 0).view 0).colWidths = [4, 5] :=
  ((c03h_column_widths e2eX plainOps hv e2eText rfl ht hU hNt hP).2.2.1).trans (by decide +kernel)
/-- every line is 1 + (4+3) + (5+3) = 16 wide, dividers at 0, 7, 15 -/
example : ∀ ch ∈ ((run e2eX.dw plainOps).renderTo e2eX e2eText).2.chunks, ∃ segs, ch = segBytes segs ++ [LF] ∧
    segWidth e2eX.dw segs = 16 ∧ divOffsets e2eX.dw 0 segs = [0, 7, 15] := by
  have h := (c03h_text_rectangle_plain e2eX plainOps hv e2eText rfl ht hU hNt TextExample.hg ha hn hP).2
  have e : (List.range ((run e2eX.dw plainOps).table e2eText.core).nColumns).map
      ((run e2eX.dw plainOps).colTextWidth e2eX.dw e2eText.core) = [4, 5] := by decide +kernel
  rw [e] at h
  exact h
/-- and, `List.length` being additive, 16 bytes long -/
example : ∀ ch ∈ ((run e2eX.dw plainOps).renderTo e2eX e2eText).2.chunks, ∃ segs, ch = segBytes segs ++ [LF] ∧
    (segBytes segs).length = 16 := by
  intro ch hch
  have h := c03h_whole_line e2eX plainOps hv e2eText rfl ht hU hNt TextExample.hg ha hn hP TextExample.hsp ch hch
  have e : (List.range ((run e2eX.dw plainOps).table e2eText.core).nColumns).map
      ((run e2eX.dw plainOps).colTextWidth e2eX.dw e2eText.core) = [4, 5] := by decide +kernel
  rw [e] at h
  obtain ⟨segs, h1, h2⟩ := h
  exact ⟨segs, h1, h2 (TextExample.hadd segs)⟩
/-- the table as written:
```
+------+-------+
| name |     x |
+------+-------+
| ab   | wider |
| cde  |     ! |
+------+-------+
| x    |    ab |
|      |   cde |
|      |       |
+------+-------+
``` -/
example : ((run e2eX.dw plainOps).renderTo e2eX e2eText).2.output =
    [43,45,45,45,45,45,45,43,45,45,45,45,45,45,45,43,10, 124,32,110,97,109,101,32,124,32,32,32,32,32,120,32,124,10,
     43,45,45,45,45,45,45,43,45,45,45,45,45,45,45,43,10, 124,32,97,98,32,32,32,124,32,119,105,100,101,114,32,124,10,
     124,32,99,100,101,32,32,124,32,32,32,32,32,33,32,124,10, 43,45,45,45,45,45,45,43,45,45,45,45,45,45,45,43,10,
     124,32,120,32,32,32,32,124,32,32,32,32,97,98,32,124,10, 124,32,32,32,32,32,32,124,32,32,32,99,100,101,32,124,10,
     124,32,32,32,32,32,32,124,32,32,32,32,32,32,32,124,10, 43,45,45,45,45,45,45,43,45,45,45,45,45,45,45,43,10] := by
  decide +kernel

/-! `fitOps`: a fitting history that is NOT plain — "abc" declaring width 5, "x" declaring height 3, a
    nested `tabular.Cell`, "-" declaring width −1, "ab\ncd" declaring height 1 (shows both lines), and
    a later store in which item 0 declares another width and item 5 another text, with no `Update`. -/

example : ¬ PlainItems e2eX.dw fitOps := by decide +kernel
example : TableFits e2eX.dw (run e2eX.dw fitOps) 0 := c03h_tablefits e2eX.dw fitOps fhF 0
example := c03h_cell_invariant_fit e2eX.dw fitOps fhF
example := c03h_text_rectangle e2eX fitOps fhv e2eText rfl fht fhU fhNt TextExample.hg fha fhn fhF
/-- columns 5, 5, 7 wide (the declared 5 twice, and the stale "abcdefg") -/
example : ((invokeRenderCallbacks e2eX.dw (run e2eX.dw fitOps) 0).view 0).colWidths = [5, 5, 7] := by
  decide +kernel

/-! Why the clauses of `FitItems` cannot be dropped. -/

/-- `Fits`: "ab\ncd" declaring width 1 — not fitting, `TableFits` false, and the table is not a
    rectangle:
```
+---+
| x |
+---+
| ab |
| cd |
+---+
``` -/
example : ¬ FitItems e2eX.dw badWidthOps ∧ ¬ TableFits e2eX.dw (run e2eX.dw badWidthOps) 0 ∧
    ((run e2eX.dw badWidthOps).renderTo e2eX e2eText).2.output =
      [43,45,45,45,43,10, 124,32,120,32,124,10, 43,45,45,45,43,10, 124,32,97,98,32,124,10,
       124,32,99,100,32,124,10, 43,45,45,45,43,10] := by decide +kernel

/-- stability: the item under an id in use stops declaring a width and the cell is not `Update`d —
    every item of every store `Fits`, yet the cached width 3 is now read as a measured one:
```
+-----+
| x   |
+-----+
| abcdef |
+-----+
``` -/
example : (∀ op ∈ badStableOps, ∀ its, op = .setItems its → ∀ it ∈ its, it.Fits e2eX.dw) ∧
    ¬ FitItems e2eX.dw badStableOps ∧ ¬ TableFits e2eX.dw (run e2eX.dw badStableOps) 0 ∧
    ((run e2eX.dw badStableOps).renderTo e2eX e2eText).2.output =
      [43,45,45,45,45,45,43,10, 124,32,120,32,32,32,124,10, 43,45,45,45,45,45,43,10,
       124,32,97,98,99,100,101,102,32,124,10, 43,45,45,45,45,45,43,10] := by
  refine ⟨?_, by decide +kernel, by decide +kernel, by decide +kernel⟩
  intro op hop its e
  subst e
  simp only [badStableOps, wrapOps, List.cons_append, List.nil_append, List.mem_cons, List.not_mem_nil,
    or_false, reduceCtorEq, false_or, BuildOp.setItems.injEq] at hop
  rcases hop with rfl | rfl <;> decide +kernel

/-- the other direction of the stability clause is forced by the DEFINITION of `Cell.FitsSrc`, not by
    the renderer: a multi-line plain item that starts declaring a width, cell not `Update`d.
    `TableFits` is false, the table is still a rectangle (the measuring callback uses the declared
    width for single-line texts only). -/
example : ¬ FitItems e2eX.dw lateDeclOps ∧ ¬ TableFits e2eX.dw (run e2eX.dw lateDeclOps) 0 ∧
    ((run e2eX.dw lateDeclOps).renderTo e2eX e2eText).2.output =
      [43,45,45,45,45,43,10, 124,32,120,32,32,124,10, 43,45,45,45,45,43,10, 124,32,97,98,32,124,10,
       124,32,99,100,32,124,10, 43,45,45,45,45,43,10] := by decide +kernel

/-! The weaker class. -/

example : FitItemsW e2eX.dw fitOps := c03h_fit_weak e2eX.dw fitOps fhF
example := c03h_tablefits_weak e2eX.dw nestedOps nhF
example := c03h_text_rectangle_weak e2eX nestedOps nhv e2eText rfl nht nhU nhNt TextExample.hg nha nhn nhF
example := c03h_text_rectangle_weak_boxless e2eX plainOps hv e2eBoxless rfl ht hU hNb TextExample.hb ha hn
  (c03h_fit_weak _ _ (c03h_plain_fit _ _ hP))
/-- the nested two-line `Cell`: outside `FitItems`, `TableFits` false, covered by `FitItemsW` -/
example : ¬ FitItems e2eX.dw nestedOps ∧ ¬ TableFits e2eX.dw (run e2eX.dw nestedOps) 0 ∧
    ((run e2eX.dw nestedOps).renderTo e2eX e2eText).2.output =
      [43,45,45,45,45,45,43,10, 124,32,120,32,32,32,124,10, 43,45,45,45,45,45,43,10,
       124,32,97,98,32,32,124,10, 124,32,99,100,101,32,124,10, 43,45,45,45,45,45,43,10] := by decide +kernel
/-- so is the late declaration; the two real counterexamples stay outside -/
example : FitItemsW e2eX.dw lateDeclOps ∧ ¬ FitItemsW e2eX.dw badWidthOps ∧ ¬ FitItemsW e2eX.dw badStableOps := by
  decide +kernel

end C03hExample

end Tab
