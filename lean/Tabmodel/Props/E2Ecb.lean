/-
  E2Ecb — the capstone theorems of `Props/E2E.lean` without `LogOnly`: ARBITRARY user callbacks.

  The model's callback language `Cb` is `log`, `setProp id k v`, `fail id e` and the two measuring
  callbacks.  As in `render_callbacks.go` / `properties.go`, a callback is handed a property owner
  and can only set properties on it, record, or fail.  Consequences proved here; items 0–4 hold for
  EVERY world `w`, table `t` and measure `dw` (no `Valid`, no `LogOnly`, no side condition on keys):

   0. `e2ecb_schedule`: the pass is the left fold of single invocations over `passSteps w t`, a list
      computed from the world before the pass (callbacks cannot change which callbacks run, on what,
      in which order, or where their errors go); its user events are C13x's documented list.
   1. `e2ecb_content_stable`: column count, shape and every cell's `content` (text, empty, json) of
      the view are those before the pass; only column properties and the three measurement fields
      can differ.
   2. `e2ecb_props_chain` / `e2ecb_props_last_writer` / `e2ecb_props_frame`: the column properties
      the renderer reads are the last value written by the column's own callbacks.
   3. `e2ecb_render_reads_post_pass_view`: `RenderTo` is `renderView` of the view AFTER its pass.
   4. `e2ecb_errors`, `e2ecb_frame`, `e2ecb_other_tables`: the error list grows by the errors raised,
      in firing order; nothing outside the rendered table's owners changes.
   5. `e2ecb_csv`, `e2ecb_html`, `e2ecb_json`, `e2ecb_markdown`: the capstones, for any callbacks;
      `e2ecb_measured_view`, `e2ecb_text`, `e2ecb_text_rectangle`, `e2ecb_text_rectangle_boxless`:
      the text capstones for any callbacks that name no private key.

  Vocabulary: `Step`, `passSteps`, `passRows`, `runSteps` (Proofs/E2EcbSched.lean); `Cb.applyChain`,
  `Step.errTo`, `Table.noErrs` (Proofs/E2EcbRun.lean); `stepEvents` (Proofs/E2EcbPass.lean);
  `lastWrite`, `RTable.withCols` (Proofs/E2EcbView.lean); `World.core` (Proofs/E2EcbCore.lean);
  `RCell.content`, `wrapOps` (Proofs/E2EView.lean); `Cb.writes`, `expectedRenderAny` (C13x);
  `raises` (Proofs/C11Defs.lean).

  About private keys.  `Cb.setProp id k v` allows `k` to be one of the three private measurement
  keys, which a Go user cannot name (unexported types).  Nothing below needs to exclude that:
  `RCell.content` does not contain the measurement fields, and CSV / JSON / HTML do not read them.
  Only statements about the MEASURED fields (text tables, markdown column widths) need the side
  condition `UserKeysOnly w t` (Proofs/E2EcbMeas.lean, decidable: no callback the pass invokes is a
  `.setProp` on a private key): `e2ecb_measured_view`, `e2ecb_text`, `e2ecb_text_rectangle*`; the
  example at the end shows it is needed there.
-/
import Tabmodel.Props.E2E
import Tabmodel.Props.C13x
import Tabmodel.Proofs.E2EcbMeas
import Tabmodel.Proofs.E2EcbExample
namespace Tab
open World hiding CellOK
open E2Ecb

/-! ### definitions -/

/-- what `RenderTo` of wrapper `wr` emits, as a function of the view it reads -/
def renderView (x : Ext) (wr : Wrapper) (v : RTable) : Emit Unit :=
  match wr.kind with
  | .text => if wr.decor = emptyDecoration then Emit.fail .noDecoration else renderTextBody wr.decor v
  | .csv => renderCsv v
  | .json => renderJson x.js v
  | .markdown => renderMarkdown x.dw v
  | .html => renderHtml wr.html v

/-! ### 0. the static schedule -/

/-- Whatever the callbacks are, the pass over `t` is the left fold of single callback invocations over
    `passSteps w t` — table (pre), every column record (pre), header row, rows (row pre, per cell the
    eight calls, row post), every column record (post), table (post), all read from the world BEFORE
    the pass; the user events of that list are the documented list of `c13x_render_order`; every
    target is `t`, a column of `t`, a visited row or one of its cells, every error taker is `t` or a
    visited row's container; and the pass keeps the world's `core` (everything but property chains,
    error lists and the log). -/
theorem e2ecb_schedule (dw : Measure) (w : World) (t : Nat) :
    invokeRenderCallbacks dw w t = runSteps dw w (passSteps w t) ∧
    stepEvents (passSteps w t) = expectedRenderAny w t ∧
    (invokeRenderCallbacks dw w t).core = w.core ∧
    ∀ s ∈ passSteps w t,
      (s.tgt = .table t ∨ (∃ j, s.tgt = .column t j) ∨
        ∃ r ∈ passRows w t, s.tgt = .row r ∨ ∃ i, s.tgt = .cell r i) ∧
      (s.tk = .table t ∨ ∃ r ∈ passRows w t, s.tk = rowECTaker w r) :=
  ⟨irc_sched dw w t, stepEvents_passSteps w t, irc_core dw w t, fun _ hs => mem_passSteps hs⟩

/-! ### 1. the callbacks pass changes no text, whatever the callbacks -/

/-- For ANY registered callbacks: the view the renderer reads (`v'`, after the pass) has the same
    column count, the same header / row shape (separators in the same places, the same number of
    cells everywhere, the same number of column-property entries) and, cell by cell, the same
    `content` (text, empty, json) as the view before the pass (`v`); so up to the three measurement
    fields `v'` is `v` with the column properties of `v'`. -/
theorem e2ecb_content_stable (dw : Measure) (w : World) (t : Nat) :
    let v := w.view t
    let v' := (invokeRenderCallbacks dw w t).view t
    v'.ncols = v.ncols ∧
    v'.header.map (·.map RCell.content) = v.header.map (·.map RCell.content) ∧
    v'.rows.map (·.map (·.map RCell.content)) = v.rows.map (·.map (·.map RCell.content)) ∧
    v'.colAlign.length = v.colAlign.length ∧ v'.colSkip.length = v.colSkip.length ∧
    v'.mapCells (RCell.mask false false) =
      (v.withCols v'.colAlign v'.colSkip).mapCells (RCell.mask false false) := by
  intro v v'
  obtain ⟨hn, hh, hr⟩ := irc_view_content dw w t t
  have hl : ((invokeRenderCallbacks dw w t).table t).columns.length = (w.table t).columns.length :=
    of_core_eq (fun w => (w.table t).columns.length) (rd_ncolrecs t) (irc_core dw w t)
  refine ⟨hn, hh, hr, ?_, ?_, mapCells_mask_of_content hn hh hr⟩
  · show (List.map _ _).length = (List.map _ _).length
    rw [List.length_map, List.length_map, hl]
  · show (List.map _ _).length = (List.map _ _).length
    rw [List.length_map, List.length_map, hl]

/-- The same, read cell by cell: row `i` is a separator in `v'` iff it is in `v`, and cell `j` of
    row `i` (and of the header) exists in `v'` iff it exists in `v`, with the same content. -/
theorem e2ecb_content_stable_cell (dw : Measure) (w : World) (t : Nat) (i j : Nat) :
    let v := w.view t
    let v' := (invokeRenderCallbacks dw w t).view t
    (v'.rows[i]? = some none ↔ v.rows[i]? = some none) ∧
    ((v'.rows[i]?.bind (fun r => r.bind (·[j]?))).map RCell.content =
      (v.rows[i]?.bind (fun r => r.bind (·[j]?))).map RCell.content) ∧
    ((v'.header.bind (·[j]?)).map RCell.content = (v.header.bind (·[j]?)).map RCell.content) := by
  intro v v'
  obtain ⟨_, hh, hr, _⟩ := e2ecb_content_stable dw w t
  exact ⟨rows_sep_of_content hr i, rows_cell_of_content hr i j, header_cell_of_content hh j⟩

/-- A pass over `t` changes no text of ANY table's view (rows may be shared between tables). -/
theorem e2ecb_content_stable_any_table (dw : Measure) (w : World) (t t2 : Nat) :
    let v := w.view t2
    let v' := (invokeRenderCallbacks dw w t).view t2
    v'.ncols = v.ncols ∧
    v'.header.map (·.map RCell.content) = v.header.map (·.map RCell.content) ∧
    v'.rows.map (·.map (·.map RCell.content)) = v.rows.map (·.map (·.map RCell.content)) :=
  irc_view_content dw w t t2

/-! ### 2. column properties: the last writer -/

/-- The callbacks a pass invokes with column record `n` of `t` as owner are exactly that column's own
    pre-time callbacks followed by its own post-time callbacks, in registration order (none if the
    record does not exist).  Index 0 is the defaults column. -/
theorem e2ecb_column_firing (w : World) (t n : Nat) :
    ((passSteps w t).filter (fun s => decide (s.tgt = .column t n))).map (·.cb) =
      ((w.column? t n).map (fun c => c.selfCbs.pre ++ c.selfCbs.post)).getD [] :=
  filter_col_passSteps w t n

/-- Exact, for every world: after the pass each column record of `t` carries its chain from before
    with those callbacks applied in that order (`Cb.applyChain`: a `.setProp _ k v` does
    `SetProperty(k, v)`, every other callback leaves a column's chain alone).  No other callback of
    the pass — on the table, on rows, on cells, on other columns — touches it. -/
theorem e2ecb_props_chain (dw : Measure) (w : World) (t : Nat) :
    ((invokeRenderCallbacks dw w t).table t).columns.map (·.props) =
      (w.table t).columns.map (fun c => (c.selfCbs.pre ++ c.selfCbs.post).foldl Cb.applyChain c.props) :=
  irc_colProps dw w t

/-- Last writer.  When the column chains hold one link per key (true of every world a history builds
    from well-formed cell values: `c12h_nodup`, composed in `E2Ecb.columns_nodup_history`,
    Proofs/E2EcbHist.lean), the alignment / skipable value the renderer reads for
    column `i` after the pass is `lastWrite`: the value given by the LAST `.setProp _ align v`
    (resp. `skipable`) among the column's own pre-time then post-time callbacks, and the value before
    the pass if there is none. -/
theorem e2ecb_props_last_writer (dw : Measure) (w : World) (t : Nat)
    (hnd : ∀ c ∈ (w.table t).columns, c.props.keys.Nodup) :
    let v' := (invokeRenderCallbacks dw w t).view t
    v'.colAlign = (w.table t).columns.map (fun c =>
      lastWrite .align (c.selfCbs.pre ++ c.selfCbs.post) (c.props.get .align)) ∧
    v'.colSkip = (w.table t).columns.map (fun c =>
      lastWrite .skipable (c.selfCbs.pre ++ c.selfCbs.post) (c.props.get .skipable)) := by
  intro v'
  constructor
  · show ((invokeRenderCallbacks dw w t).table t).columns.map (·.props.get .align) = _
    rw [irc_colGet]
    exact List.map_congr_left (fun c hc => get_foldl_applyChain _ _ _ (hnd c hc))
  · show ((invokeRenderCallbacks dw w t).table t).columns.map (·.props.get .skipable) = _
    rw [irc_colGet]
    exact List.map_congr_left (fun c hc => get_foldl_applyChain _ _ _ (hnd c hc))

/-- Frame (no hypothesis on the chains): if none of the column records' own pre-time and post-time callbacks
    may write `align` (resp. `skipable`) — whatever every other callback of the table, its rows and
    cells does — the renderer reads the alignments (resp. skipable flags) from before the pass. -/
theorem e2ecb_props_frame (dw : Measure) (w : World) (t : Nat) :
    let v := w.view t
    let v' := (invokeRenderCallbacks dw w t).view t
    ((∀ c ∈ (w.table t).columns, ∀ cb ∈ c.selfCbs.pre ++ c.selfCbs.post, cb.writes .align = false) →
      v'.colAlign = v.colAlign) ∧
    ((∀ c ∈ (w.table t).columns, ∀ cb ∈ c.selfCbs.pre ++ c.selfCbs.post, cb.writes .skipable = false) →
      v'.colSkip = v.colSkip) := by
  intro v v'
  constructor
  · intro h
    show ((invokeRenderCallbacks dw w t).table t).columns.map (·.props.get .align) = _
    rw [irc_colGet]
    exact List.map_congr_left (fun c hc => get_foldl_applyChain_frame _ _ _ (h c hc))
  · intro h
    show ((invokeRenderCallbacks dw w t).table t).columns.map (·.props.get .skipable) = _
    rw [irc_colGet]
    exact List.map_congr_left (fun c hc => get_foldl_applyChain_frame _ _ _ (h c hc))

/-! ### 3. the renderer reads the view after its own pass -/

/-- `RenderTo`, every kind: what is emitted is `renderView` of the view taken AFTER the callbacks
    pass of that very call (so the layout uses the alignment / skipable values the callbacks set
    during it), and the world afterwards is the world after that pass — except for a text wrapper
    with the empty decoration, which is refused before any callback runs. -/
theorem e2ecb_render_reads_post_pass_view (x : Ext) (w : World) (wr : Wrapper) :
    let w' := invokeRenderCallbacks x.dw w wr.core
    (w.renderTo x wr).2 = renderView x wr (w'.view wr.core) ∧
    (w.renderTo x wr).1 = if wr.kind = .text ∧ wr.decor = emptyDecoration then w else w' := by
  intro w'
  unfold renderTo renderView
  cases hk : wr.kind with
  | text =>
    by_cases hd : wr.decor = emptyDecoration
    · simp [hd]
    · simp [hd]; exact ⟨rfl, rfl⟩
  | csv => simp; exact ⟨rfl, rfl⟩
  | json => simp; exact ⟨rfl, rfl⟩
  | html => simp; exact ⟨rfl, rfl⟩
  | markdown => simp; exact ⟨rfl, rfl⟩

/-- The three kinds that read no measurement: the output is a function of the texts BEFORE the pass
    and the column properties AFTER it (CSV and HTML read no column property at all). -/
theorem e2ecb_render_unmeasured (x : Ext) (w : World) (wr : Wrapper) :
    let v := w.view wr.core
    let v' := (invokeRenderCallbacks x.dw w wr.core).view wr.core
    (wr.kind = .csv → (w.renderTo x wr).2 = renderCsv v) ∧
    (wr.kind = .html → (w.renderTo x wr).2 = renderHtml wr.html v) ∧
    (wr.kind = .json → (w.renderTo x wr).2 = renderJson x.js (v.withCols v'.colAlign v'.colSkip)) := by
  intro v v'
  have hm := (e2ecb_content_stable x.dw w wr.core).2.2.2.2.2
  refine ⟨fun hk => ?_, fun hk => ?_, fun hk => ?_⟩
  · rw [renderTo_csv x w wr hk, ← renderCsv_mapCells (RCell.mask false false) (fun _ => rfl), hm,
      renderCsv_mapCells (RCell.mask false false) (fun _ => rfl)]
    rfl
  · rw [renderTo_html x w wr hk, ← renderHtml_mapCells wr.html (RCell.mask false false) (fun _ => rfl), hm,
      renderHtml_mapCells wr.html (RCell.mask false false) (fun _ => rfl)]
    rfl
  · rw [renderTo_json x w wr hk,
      ← renderJson_mapCells x.js (RCell.mask false false) (fun _ => rfl) (fun _ => rfl) (fun _ => rfl), hm,
      renderJson_mapCells x.js (RCell.mask false false) (fun _ => rfl) (fun _ => rfl) (fun _ => rfl)]

/-! ### 4. errors and frame -/

/-- After the pass the error list of every existing table `t2` (in particular of `t`) is the old list
    followed by the errors the invoked callbacks returned with that table as taker, in firing order
    (`Step.errTo t2 s = raises s.tgt s.cb` when `s.tk = .table t2`: a `.fail _ e` returns `e`, a
    measuring callback handed a non-cell returns its "not a cell" error); the event log grows by the
    documented list. -/
theorem e2ecb_errors (dw : Measure) (w : World) (t : Nat) :
    let w' := invokeRenderCallbacks dw w t
    (w'.table t).errs = (w.table t).errs ++ (passSteps w t).filterMap (Step.errTo t) ∧
    (∀ t2, t2 < w.tables.length →
      (w'.table t2).errs = (w.table t2).errs ++ (passSteps w t).filterMap (Step.errTo t2)) ∧
    w'.events = w.events ++ stepEvents (passSteps w t) := by
  intro w'
  refine ⟨?_, fun t2 ht2 => irc_errs dw w t t2 ht2, ?_⟩
  · by_cases ht : t < w.tables.length
    · exact irc_errs dw w t t ht
    · have hp := passSteps_oob (Nat.le_of_not_lt ht)
      show ((invokeRenderCallbacks dw w t).table t).errs = _
      rw [irc_sched, hp, runSteps_nil]; simp
  · show (invokeRenderCallbacks dw w t).events = _
    rw [c13x_render_order, stepEvents_passSteps]

/-- When every visited row shares the table's container (`attachedAll`, true after every valid
    history that never re-attaches a header row: `c11h_invariant`; the composition is
    `E2Ecb.errors_history` in Proofs/E2EcbHist.lean — `Props/C11h.lean` and `Props/E2E.lean` cannot be
    imported into one file, both define `World.Stable`), every error raised during the pass
    lands in the table's list: it grows by exactly the errors returned, in firing order. -/
theorem e2ecb_errors_attached (dw : Measure) (w : World) (t : Nat)
    (ha : ∀ r ∈ passRows w t, (w.row r).ec = .table t) :
    ((invokeRenderCallbacks dw w t).table t).errs =
      (w.table t).errs ++ (passSteps w t).filterMap (fun s => raises s.tgt s.cb) := by
  rw [(e2ecb_errors dw w t).1, errTo_attached w t ha]

/-- Nothing else changes: the item store, the caller-held cell copies, the number of tables and
    rows, the whole `core` (structure, texts, callback sets, kinds of containers) are as before; every
    OTHER table keeps everything but possibly its error list (which `e2ecb_errors` describes); every row
    the pass does not visit is untouched. -/
theorem e2ecb_frame (dw : Measure) (w : World) (t : Nat) :
    let w' := invokeRenderCallbacks dw w t
    w'.items = w.items ∧ w'.copies = w.copies ∧
    w'.tables.length = w.tables.length ∧ w'.rows.length = w.rows.length ∧
    w'.core = w.core ∧
    (∀ t2, t2 ≠ t → (w'.table t2).noErrs = (w.table t2).noErrs) ∧
    (∀ r, r ∉ passRows w t → w'.row r = w.row r) :=
  ⟨irc_items dw w t, irc_copies dw w t, irc_tables_length dw w t, irc_rows_length dw w t, irc_core dw w t,
   fun t2 h => irc_table_other dw w t t2 h, fun r h => irc_row_other dw w t r h⟩

/-- Other tables.  Rows live in a world-level store, so a row attached to (or a header row of) two
    tables is shared.  A table `t2 ≠ t` none of whose rows — header row included — is visited by the
    pass over `t` keeps its whole view, measurements included; a table that does share rows still keeps
    its column count, column properties, shape and every cell's content (only the measurement fields of
    the shared rows' cells can differ). -/
theorem e2ecb_other_tables (dw : Measure) (w : World) (t t2 : Nat) (hne : t2 ≠ t) :
    let v := w.view t2
    let v' := (invokeRenderCallbacks dw w t).view t2
    ((∀ r ∈ passRows w t2, r ∉ passRows w t) → v' = v) ∧
    v'.ncols = v.ncols ∧ v'.colAlign = v.colAlign ∧ v'.colSkip = v.colSkip ∧
    v'.header.map (·.map RCell.content) = v.header.map (·.map RCell.content) ∧
    v'.rows.map (·.map (·.map RCell.content)) = v.rows.map (·.map (·.map RCell.content)) := by
  intro v v'
  obtain ⟨hn, hh, hr⟩ := irc_view_content dw w t t2
  have hc : ((invokeRenderCallbacks dw w t).table t2).columns = (w.table t2).columns := by
    have := congrArg Table.columns (irc_table_other dw w t t2 hne); exact this
  refine ⟨fun hd => irc_view_other dw w t t2 hne hd, hn, ?_, ?_, hh, hr⟩
  · show ((invokeRenderCallbacks dw w t).table t2).columns.map _ = _
    rw [hc]; rfl
  · show ((invokeRenderCallbacks dw w t).table t2).columns.map _ = _
    rw [hc]; rfl

/-! ### 5. the capstones, for any callbacks -/

/-- CSV of a table built by any valid history, with ANY callbacks registered anywhere (CSV reads no
    column property and no measurement): exactly the statement of `e2e_csv`.  The renderer emits what
    it would emit on the view of the built world; no columns: refused, nothing written; otherwise it
    succeeds and the strict RFC 4180 reader gets back exactly `csvRecords`, the texts the history put
    into the cells. -/
theorem e2ecb_csv (x : Ext) (ops : List BuildOp) (hv : Valid ops = true) (wr : Wrapper) (hk : wr.kind = .csv)
    (ht : wr.core < (run x.dw ops).tables.length) :
    let w := run x.dw ops
    let m := (w.renderTo x wr).2
    m = renderCsv (w.view wr.core) ∧
    ((w.table wr.core).nColumns = 0 → m.res = .error (.err .noColumns) ∧ m.chunks = []) ∧
    (1 ≤ (w.table wr.core).nColumns →
      m.res = .ok () ∧ parse4180 m.output = some (w.csvRecords wr.core) ∧
      ∀ r ∈ w.csvRecords wr.core, r.length = (w.table wr.core).nColumns) := by
  intro w m
  have hm : m = renderCsv (w.view wr.core) := (e2ecb_render_unmeasured x w wr).1 hk
  have hwf := (c02_view_wf (c02_inv_run x.dw ops hv) wr.core ht).1
  refine ⟨hm, ?_, ?_⟩
  · intro h0; rw [hm]; exact c05_refuse _ h0
  · intro h1
    rw [hm, ← records_view]
    exact ⟨c05_total _ h1 hwf, c05_roundtrip _ h1 hwf, c05_field_count _ h1 hwf⟩

/-- HTML, any world, any callbacks: exactly the statement of `e2e_html`. -/
theorem e2ecb_html (x : Ext) (w : World) (wr : Wrapper) (hk : wr.kind = .html) :
    let v := w.view wr.core
    let m := (w.renderTo x wr).2
    m = renderHtml wr.html v ∧ m.res = .ok () ∧ m.output = htmlBytes wr.html v ∧
    tokenize m.output = skeleton wr.html v ∧
    ((tokenize m.output).filter isTrOpen).length = 1 + w.bodyRowCount wr.core := by
  intro v m
  have hm : m = renderHtml wr.html v := (e2ecb_render_unmeasured x w wr).2.1 hk
  have ho : m.output = htmlBytes wr.html v := by
    rw [hm]; simp [renderHtml, Emit.write, Emit.output]
  refine ⟨hm, by rw [hm]; rfl, ho, by rw [ho]; exact c06_skeleton _ _, ?_⟩
  rw [ho, (c06_count_tr wr.html v).1, filter_isSome_view_length]

/-- JSON of a table built by any valid history, any callbacks: the renderer emits exactly what it
    emits on `vj`, the view of the BUILT world (its texts, emptiness, item encodings) carrying the
    column properties as they are after the pass (`e2ecb_props_last_writer`; JSON reads `skipable`);
    it succeeds iff `JsonOK vj`, and then the bytes are those of the token stream `jsonToks`, which
    parses to `objects js vj`; on any error `Render` returns no text, and the error is never a panic. -/
theorem e2ecb_json (x : Ext) (ops : List BuildOp) (hv : Valid ops = true) (wr : Wrapper) (hk : wr.kind = .json)
    (ht : wr.core < (run x.dw ops).tables.length) :
    let w := run x.dw ops
    let v' := (invokeRenderCallbacks x.dw w wr.core).view wr.core
    let vj := (w.view wr.core).withCols v'.colAlign v'.colSkip
    let m := (w.renderTo x wr).2
    m = renderJson x.js vj ∧
    WFShape vj ∧
    (m.res = .ok () ↔ JsonOK vj) ∧
    (m.res = .ok () ↔ HeaderOK vj ∧ MarshalOK vj) ∧
    (m.res = .ok () →
      m.output = (jsonToks x.js vj).flatMap tokBytes ∧ parseArr (jsonToks x.js vj) = some (objects x.js vj)) ∧
    (∀ s, m.res = .error s → (renderString m).1 = [] ∧ ∀ site, s ≠ .panic site) := by
  intro w v' vj m
  have hm : m = renderJson x.js vj := (e2ecb_render_unmeasured x w wr).2.2 hk
  have hwf : WFShape vj := (c02_view_wf (c02_inv_run x.dw ops hv) wr.core ht).1
  have hiff : m.res = .ok () ↔ JsonOK vj := by
    rw [hm]
    exact ⟨fun hok => c07_ok_jsonOK x.js vj hwf hok, fun h => (c07_valid_mirror x.js vj h).1⟩
  refine ⟨hm, hwf, hiff, ?_, ?_, ?_⟩
  · rw [hiff]
    exact ⟨fun h => ⟨h.1, h.2.2⟩, fun h => ⟨h.1, hwf, h.2⟩⟩
  · intro hok
    rw [hm] at hok ⊢
    exact c07_ok_valid_mirror x.js vj hok
  · intro s hs
    refine ⟨(c09_render_empty m s hs).1, ?_⟩
    intro site he
    rw [hm, he] at hs
    exact c07_no_panic x.js vj site hs

/-- Markdown of a table built by any valid history, any callbacks, with the alignment properties AS
    THEY ARE AFTER THE PASS in their domain (`ha`; `e2ecb_props_last_writer` computes them): the
    statement of `e2e_markdown`.  Success iff the table has a header and a column; the only failures
    are the two refusals, which write nothing; on success the output is `2 + (non-separator rows)`
    LF-terminated lines with exactly `nColumns + 1` unescaped pipes each. -/
theorem e2ecb_markdown (x : Ext) (ops : List BuildOp) (hv : Valid ops = true) (wr : Wrapper)
    (hk : wr.kind = .markdown) (ht : wr.core < (run x.dw ops).tables.length)
    (ha : AlignOK ((invokeRenderCallbacks x.dw (run x.dw ops) wr.core).view wr.core)) :
    let w := run x.dw ops
    let n := (w.table wr.core).nColumns
    let v' := (invokeRenderCallbacks x.dw w wr.core).view wr.core
    let m := (w.renderTo x wr).2
    m = renderMarkdown x.dw v' ∧
    (m.res = .ok () ↔ (w.table wr.core).header.isSome = true ∧ 1 ≤ n) ∧
    (m.res = .ok () ↔ MdOK v') ∧
    (n = 0 → m.res = .error (.err .noColumns) ∧ m.chunks = []) ∧
    (1 ≤ n → (w.table wr.core).header = none → m.res = .error (.err .noHeaders) ∧ m.chunks = []) ∧
    (m.res = .ok () →
      m.output = ((lines m.output).map (· ++ [LF])).flatten ∧
      (lines m.output).length = 2 + w.bodyRowCount wr.core ∧
      ∀ l ∈ lines m.output,
        LF ∉ l ∧ unescapedPipes l = n + 1 ∧ l.count 124 = n + 1 ∧ (splitPipes l).length = n + 2) := by
  intro w n v' m
  have hm : m = renderMarkdown x.dw v' := by
    show (w.renderTo x wr).2 = _
    rw [renderTo_markdown x w wr hk]
  obtain ⟨_, hwf, hlen, _⟩ := c02_view_wf_after_callbacks x.dw (c02_inv_run x.dw ops hv) wr.core ht
  have hal : AlignsOK v' := alignsOK_of_alignOK v' hlen ha
  obtain ⟨hnc, hhc, _⟩ := irc_view_content x.dw w wr.core wr.core
  have hn : v'.ncols = n := hnc
  have hh : v'.header.isSome = (w.table wr.core).header.isSome := by
    have := congrArg Option.isSome hhc
    simp only [Option.isSome_map] at this
    rw [this, view_header_isSome]
  have hmd : m.res = .ok () ↔ MdOK v' := by rw [hm]; exact c08_ok_iff x.dw v' hal
  have hiff : MdOK v' ↔ (w.table wr.core).header.isSome = true ∧ 1 ≤ n := by
    unfold MdOK
    rw [hn, hh]
    exact ⟨fun h => ⟨h.2.1, h.1⟩, fun h => ⟨h.2, h.1, hwf, hal⟩⟩
  have hbody : (invokeRenderCallbacks x.dw w wr.core).bodyRowCount wr.core = w.bodyRowCount wr.core :=
    of_core_eq (fun w => w.bodyRowCount wr.core)
      (fun w => by unfold bodyRowCount; simp only [rd_rows, rd_isSep]) (irc_core x.dw w wr.core)
  refine ⟨hm, hmd.trans hiff, hmd, ?_, ?_, ?_⟩
  · intro h0; rw [hm]; exact c08_refuse_no_columns x.dw v' (by rw [hn]; exact h0)
  · intro h1 hnone
    rw [hm]
    apply c08_refuse_no_headers x.dw v' (by rw [hn]; exact h1)
    have : v'.header.isSome = false := by rw [hh, hnone]; rfl
    cases hv' : v'.header with
    | none => rfl
    | some _ => rw [hv'] at this; cases this
  · intro hok
    have hMd := hmd.mp hok
    obtain ⟨h1, h2, h3⟩ := c08_structure x.dw v' hMd
    rw [hm]
    refine ⟨h1, ?_, ?_⟩
    · rw [h2, bodyRows_view_length, hbody]
    · intro l hl
      have := h3 l hl
      rw [hn] at this
      exact this

/-! ### the measured view and text tables: callbacks that name no private key -/

/-- With the measuring callback registered (`Needs`) and `UserKeysOnly` — user callbacks may set any
    user key, `align`, `skipable` on anything, and fail — the text and markdown renderers emit exactly
    what they emit on `canonView` of the world BEFORE the pass (each cell: its text / emptiness,
    `cellWidth` and `mdw` = its `TerminalCellWidth`, `lws` = its lines as `dimProps` measures them)
    carrying the column properties AFTER the pass. -/
theorem e2ecb_measured_view (x : Ext) (w : World) (wr : Wrapper) (hU : w.UserKeysOnly wr.core) (hN : Needs w wr) :
    let v' := (invokeRenderCallbacks x.dw w wr.core).view wr.core
    (wr.kind = .text → wr.decor ≠ emptyDecoration →
      (w.renderTo x wr).2 =
        renderTextBody wr.decor ((canonView x.dw true false w wr.core).withCols v'.colAlign v'.colSkip)) ∧
    (wr.kind = .markdown →
      (w.renderTo x wr).2 =
        renderMarkdown x.dw ((canonView x.dw false true w wr.core).withCols v'.colAlign v'.colSkip)) := by
  intro v'
  constructor
  · intro hk hd
    rw [renderTo_text x w wr hk hd]
    rw [← view_measured_cb x.dw true false w wr.core hU (fun _ => hN.1 hk) (fun h => Bool.noConfusion h),
      renderTextBody_mapCells wr.decor (RCell.mask true false) (fun _ => rfl) (fun _ => rfl)]
  · intro hk
    rw [renderTo_markdown x w wr hk]
    rw [← view_measured_cb x.dw false true w wr.core hU (fun h => Bool.noConfusion h) (fun _ => hN.2 hk),
      renderMarkdown_mapCells x.dw (RCell.mask false true) (fun _ => rfl) (fun _ => rfl)]

/-- Text table of a table built by any valid history that was wrapped as text at least once, with ANY
    user callbacks that name no private key (`UserKeysOnly`), a complete or boxless decoration, the
    alignments as they are AFTER the pass in their domain, at least one column: the statement of
    `e2e_text` — every cell of the view the renderer reads is measured (`CellOK`) and comes from a cell
    of the built table, the render succeeds and writes exactly `specChunks`. -/
theorem e2ecb_text (x : Ext) (ops : List BuildOp) (hv : Valid ops = true) (wr : Wrapper) (hk : wr.kind = .text)
    (ht : wr.core < (run x.dw ops).tables.length) (hU : (run x.dw ops).UserKeysOnly wr.core)
    (hN : Needs (run x.dw ops) wr) (hd : DecoOK x.dw wr.decor)
    (ha : AlignOK ((invokeRenderCallbacks x.dw (run x.dw ops) wr.core).view wr.core))
    (hn : 1 ≤ ((run x.dw ops).table wr.core).nColumns) :
    let w := run x.dw ops
    let v' := (invokeRenderCallbacks x.dw w wr.core).view wr.core
    let m := (w.renderTo x wr).2
    m = renderTextBody wr.decor v' ∧
    v'.ncols = (w.table wr.core).nColumns ∧ WFShape v' ∧
    (∀ c ∈ v'.allCells, CellOK x.dw c) ∧
    (∀ c ∈ v'.allCells, ∃ r ∈ (w.table wr.core).header.toList ++ (w.table wr.core).rows,
      ∃ ce ∈ w.rowCells r, c.text = ce.str ∧ c.empty = ce.empty ∧ c.cellWidth = ce.termWidth) ∧
    m.res = .ok () ∧
    m.chunks = specChunks wr.decor v' := by
  intro w v' m
  have hm : m = renderTextBody wr.decor v' := by
    show (w.renderTo x wr).2 = _
    rw [renderTo_text x w wr hk (decoOK_ne_empty hd)]
  obtain ⟨_, hwf, _, _⟩ := c02_view_wf_after_callbacks x.dw (c02_inv_run x.dw ops hv) wr.core ht
  have hnc : v'.ncols = (w.table wr.core).nColumns := (irc_view_content x.dw w wr.core wr.core).1
  have hn' : 1 ≤ v'.ncols := by rw [hnc]; exact hn
  have hcells : ∀ c ∈ v'.allCells, CellOK x.dw c := cellOK_cb x.dw w wr.core hU (hN.1 hk)
  refine ⟨hm, hnc, hwf, hcells, cell_src_cb x.dw w wr.core hU (hN.1 hk), ?_, ?_⟩
  · rw [hm]; exact c03_ok x.dw wr.decor v' hn' hwf ha hd hcells
  · rw [hm]
    exact c03_line_structure_aux wr.decor v' hn' hwf ha hd.divs_header hd.divs_body
      (fun c hc => (hcells c hc).nonneg)

/-- The rectangle (`e2e_text_rectangle`) for any callbacks that name no private key: if every cell of
    the built table satisfies `Cell.FitsSrc`, the view is `ViewOK` and with a complete boxed
    decoration every line written has the same segment-sum width, dividers at the same offsets. -/
theorem e2ecb_text_rectangle (x : Ext) (ops : List BuildOp) (hv : Valid ops = true) (wr : Wrapper)
    (hk : wr.kind = .text) (ht : wr.core < (run x.dw ops).tables.length)
    (hU : (run x.dw ops).UserKeysOnly wr.core) (hN : Needs (run x.dw ops) wr) (hg : GlyphOK x.dw wr.decor)
    (ha : AlignOK ((invokeRenderCallbacks x.dw (run x.dw ops) wr.core).view wr.core))
    (hn : 1 ≤ ((run x.dw ops).table wr.core).nColumns) (hF : TableFits x.dw (run x.dw ops) wr.core) :
    let w := run x.dw ops
    let v' := (invokeRenderCallbacks x.dw w wr.core).view wr.core
    let m := (w.renderTo x wr).2
    ViewOK x.dw v' ∧ m.res = .ok () ∧
    ∀ ch ∈ m.chunks, ∃ segs, ch = segBytes segs ++ [LF] ∧
      segWidth x.dw segs = 1 + (v'.colWidths.map (· + 3)).sum ∧
      divOffsets x.dw 0 segs = colOffsets 0 v'.colWidths := by
  intro w v' m
  obtain ⟨hm, hnc, hwf, _, _, hok, _⟩ := e2ecb_text x ops hv wr hk ht hU hN (Or.inl hg) ha hn
  have hV : ViewOK x.dw v' := viewOK_cb x.dw w wr.core hU (hN.1 hk) hF
  refine ⟨hV, hok, ?_⟩
  show ∀ ch ∈ (w.renderTo x wr).2.chunks, _
  rw [show (w.renderTo x wr).2 = renderTextBody wr.decor v' from hm]
  exact c03_rectangle x.dw wr.decor v' (by rw [hnc]; exact hn) hwf ha hg hV

/-- The same for the boxless decoration (`e2e_text_rectangle_boxless`). -/
theorem e2ecb_text_rectangle_boxless (x : Ext) (ops : List BuildOp) (hv : Valid ops = true) (wr : Wrapper)
    (hk : wr.kind = .text) (ht : wr.core < (run x.dw ops).tables.length)
    (hU : (run x.dw ops).UserKeysOnly wr.core) (hN : Needs (run x.dw ops) wr) (hb : BoxlessOK wr.decor)
    (ha : AlignOK ((invokeRenderCallbacks x.dw (run x.dw ops) wr.core).view wr.core))
    (hn : 1 ≤ ((run x.dw ops).table wr.core).nColumns) (hF : TableFits x.dw (run x.dw ops) wr.core) :
    let w := run x.dw ops
    let v' := (invokeRenderCallbacks x.dw w wr.core).view wr.core
    let m := (w.renderTo x wr).2
    ViewOK x.dw v' ∧ m.res = .ok () ∧
    ∀ ch ∈ m.chunks, ch = [] ∨ ∃ slots, ch = segBytes (boxlessSegs slots) ++ [LF] ∧
      slots.map SlotD.width = v'.colWidths ∧
      segWidth x.dw (boxlessSegs slots) = v'.colWidths.sum + (v'.colWidths.length - 1) := by
  intro w v' m
  obtain ⟨hm, hnc, hwf, _, _, hok, _⟩ := e2ecb_text x ops hv wr hk ht hU hN (Or.inr hb) ha hn
  have hV : ViewOK x.dw v' := viewOK_cb x.dw w wr.core hU (hN.1 hk) hF
  refine ⟨hV, hok, ?_⟩
  show ∀ ch ∈ (w.renderTo x wr).2.chunks, _
  rw [show (w.renderTo x wr).2 = renderTextBody wr.decor v' from hm]
  exact c03_rectangle_boxless x.dw wr.decor v' (by rw [hnc]; exact hn) hwf ha hb hV

/-! ### non-vacuity: a history whose callbacks set properties and fail (`dw := List.length`)

  `cbHist`: items "a" … "f"; table 0 with, on its cells, a logging pre-time callback (1), a render-time
  callback setting user key 7 (2) and a post-time callback setting `align` ON THE CELLS (10), and on
  itself a failing pre-time callback (3, error 55); headers `a b`; a row `c d`; a separator; a ragged
  row `e`; column 1 right-aligned by the history; column 1 itself: pre-time callback (4) setting `align`
  to centre; column 2 itself: pre-time (5) sets `align` right, post-time (6) removes `align`, post-time
  (7) sets `skipable`; row 1 itself: failing post-time callback (8, error 56); column 1, on its cells:
  failing pre-time callback (9, error 57).  Then wrapped as text and as markdown.
  (`cbHist`, `cbOps`, `cbW` and the other example worlds: Proofs/E2EcbExample.lean.) -/

namespace E2EcbExample

-- the callbacks are not log-only, so no theorem of `Props/E2E.lean` applies to this history
example : ¬ LogOnly cbW 0 := by decide +kernel

-- 0. the schedule: 33 single invocations
example : (passSteps cbW 0).length = 33 := by decide +kernel
example := e2ecb_schedule e2eX.dw cbW 0

-- 1. texts are stable although properties, errors and measurements all change
example := e2ecb_content_stable e2eX.dw cbW 0
example := e2ecb_content_stable_cell e2eX.dw cbW 0 0 1
example : (invokeRenderCallbacks e2eX.dw cbW 0).view 0 ≠ cbW.view 0 := by decide +kernel
example : ((invokeRenderCallbacks e2eX.dw cbW 0).view 0).rows.map (·.map (·.map RCell.content)) =
    [some [([99], false, some [34, 99, 34]), ([100], false, some [34, 100, 34])], none,
     some [([101], false, some [34, 101, 34])]] := by
  rw [(e2ecb_content_stable e2eX.dw cbW 0).2.2.1]; decide +kernel

-- 2. last writer: column 1 was right-aligned (2), its own callback makes it centred (3); column 2 is
--    set right at pre time and cleared again at post time; `skipable` appears on column 2; the
--    `align` the table's cell callback (10) sets on CELLS does not reach any column
example : (cbW.view 0).colAlign = [none, some (.align 2), none] ∧ (cbW.view 0).colSkip = [none, none, none] := by
  decide +kernel
example : ((invokeRenderCallbacks e2eX.dw cbW 0).view 0).colAlign = [none, some (.align 3), none] := by
  rw [(e2ecb_props_last_writer e2eX.dw cbW 0 hnd).1]; decide +kernel
example : ((invokeRenderCallbacks e2eX.dw cbW 0).view 0).colSkip = [none, none, some (.bool true)] := by
  rw [(e2ecb_props_last_writer e2eX.dw cbW 0 hnd).2]; decide +kernel
example : ((passSteps cbW 0).filter (fun s => decide (s.tgt = .column 0 2))).map (·.cb) =
    [.setProp 5 .align (some (.align 2)), .setProp 6 .align none, .setProp 7 .skipable (some (.bool true))] := by
  rw [e2ecb_column_firing]; decide +kernel
-- the frame form: in the history WITHOUT the column callbacks, callback 10 still sets `align` on every
-- cell, and the column alignments are untouched
example : (∀ c ∈ (cbFrameW.table 0).columns, ∀ cb ∈ c.selfCbs.pre ++ c.selfCbs.post, cb.writes .align = false) ∧
    (∀ c ∈ (cbFrameW.table 0).columns, ∀ cb ∈ c.selfCbs.pre ++ c.selfCbs.post, cb.writes .skipable = false) ∧
    ¬ LogOnly cbFrameW 0 := by decide +kernel
example : ((invokeRenderCallbacks e2eX.dw cbFrameW 0).view 0).colAlign = (cbFrameW.view 0).colAlign :=
  (e2ecb_props_frame e2eX.dw cbFrameW 0).1 (by decide +kernel)
example : (invokeRenderCallbacks e2eX.dw cbFrameW 0).getProp (.cell 1 0) .align = some (.align 1) := by
  decide +kernel

-- 3. the renderer reads the view after its own pass: the delimiter row says centred (`:---:`), where
--    rendering the view before the pass would say right (`---:`)
example := e2ecb_render_reads_post_pass_view e2eX cbW e2eMd
example : (cbW.renderTo e2eX e2eMd).2.output =
    [124,32,97,32,124,32,98,32,124,10, 124,58,45,45,45,58,124,32,45,45,45,32,124,10,
     124,32,99,32,124,32,100,32,124,10, 124,32,101,32,124,32,124,10] := by decide +kernel
example : (renderMarkdown e2eX.dw (cbW.view 0)).output =
    [124,32,97,32,124,32,98,32,124,10, 124,32,45,45,45,58,124,32,45,45,45,32,124,10,
     124,32,99,32,124,32,100,32,124,10, 124,32,101,32,124,32,124,10] := by decide +kernel
example := e2ecb_render_unmeasured e2eX cbW e2eJson

-- 4. errors: table pre (55), column 1's cell callback on cells (1,0) and (3,0) (57), row 1 post (56),
--    in firing order; every visited row shares the table's container
example : ∀ r ∈ passRows cbW 0, (cbW.row r).ec = .table 0 := by decide +kernel
example : (cbW.table 0).errs = [] := by decide +kernel
example : ((invokeRenderCallbacks e2eX.dw cbW 0).table 0).errs = [55, 57, 56, 57] := by
  rw [e2ecb_errors_attached e2eX.dw cbW 0 (by decide +kernel)]; decide +kernel
example := e2ecb_errors e2eX.dw cbW 0
example := e2ecb_frame e2eX.dw cbW 0
-- other tables: a second table with rows of its own keeps its whole view …
example : ∀ r ∈ passRows cbTwo 1, r ∉ passRows cbTwo 0 := by decide +kernel
example : (invokeRenderCallbacks e2eX.dw cbTwo 0).view 1 = cbTwo.view 1 :=
  (e2ecb_other_tables e2eX.dw cbTwo 0 1 (by decide)).1 (by decide +kernel)
-- … but a table sharing row 1 with table 0 does not (the measurements of the shared cells change);
-- its texts and column properties are still the same
example : ¬ (∀ r ∈ passRows cbShare 1, r ∉ passRows cbShare 0) := by decide +kernel
example : (invokeRenderCallbacks e2eX.dw cbShare 0).view 1 ≠ cbShare.view 1 := by decide +kernel
example := (e2ecb_other_tables e2eX.dw cbShare 0 1 (by decide)).2

-- 5. CSV: what the reader gets back from the real output
example : parse4180 ((run e2eX.dw cbOps).renderTo e2eX e2eCsv).2.output =
    some [[[97], [98]], [[99], [100]], [[101], []]] := by
  have h := ((e2ecb_csv e2eX cbOps hv e2eCsv rfl ht).2.2 hn).2.1
  rw [h]; decide +kernel
-- HTML
example : ((tokenize (cbW.renderTo e2eX { kind := .html, core := 0 }).2.output).filter isTrOpen).length = 3 := by
  rw [(e2ecb_html e2eX cbW { kind := .html, core := 0 } rfl).2.2.2.2]
  decide +kernel
-- JSON: succeeds; `skipable` set during the pass makes the empty "b" of the last row disappear
example : ((run e2eX.dw cbOps).renderTo e2eX e2eJson).2.res = .ok () :=
  (e2ecb_json e2eX cbOps hv e2eJson rfl ht).2.2.1.mpr (by decide +kernel)
-- rendered: `[{"a": "a"}]`; on the view before the pass it would be `[{"a": "a", "b": ""}]`
example : (cbSkipW.renderTo e2eX e2eJson).2.output = [91,10, 123,34,97,34,58,32,34,97,34,125, 10,93,10] := by
  decide +kernel
example : (renderJson e2eX.js (cbSkipW.view 0)).output =
    [91,10, 123,34,97,34,58,32,34,97,34,44,32,34,98,34,58,32,34,34,125, 10,93,10] := by decide +kernel
-- Markdown
example : ((run e2eX.dw cbOps).renderTo e2eX e2eMd).2.res = .ok () :=
  (e2ecb_markdown e2eX cbOps hv e2eMd rfl ht ha).2.1.mpr (by decide +kernel)
example : (lines ((run e2eX.dw cbOps).renderTo e2eX e2eMd).2.output).length = 4 := by
  have hok := (e2ecb_markdown e2eX cbOps hv e2eMd rfl ht ha).2.1.mpr (by decide +kernel)
  rw [((e2ecb_markdown e2eX cbOps hv e2eMd rfl ht ha).2.2.2.2.2 hok).2.1]
  decide +kernel

-- the measured view and text tables
example := (e2ecb_measured_view e2eX (run e2eX.dw cbOps) e2eText hU hNt).1 rfl (by decide)
example := (e2ecb_measured_view e2eX (run e2eX.dw cbOps) e2eMd hU hNm).2 rfl
example : ((run e2eX.dw cbOps).renderTo e2eX e2eText).2.res = .ok () :=
  (e2ecb_text e2eX cbOps hv e2eText rfl ht hU hNt (Or.inl TextExample.hg) ha hn).2.2.2.2.2.1
example := e2ecb_text_rectangle e2eX cbOps hv e2eText rfl ht hU hNt TextExample.hg ha hn hF
example := e2ecb_text_rectangle_boxless e2eX cbOps hv e2eBoxless rfl ht hU hNb TextExample.hb ha hn hF
/-- the table as written (column 1 centred by its own callback; one-character cells look the same) -/
example : ((run e2eX.dw cbOps).renderTo e2eX e2eText).2.output =
    [43,45,45,45,43,45,45,45,43,10, 124,32,97,32,124,32,98,32,124,10, 43,45,45,45,43,45,45,45,43,10,
     124,32,99,32,124,32,100,32,124,10, 43,45,45,45,43,45,45,45,43,10,
     124,32,101,32,124,32,32,32,124,10, 43,45,45,45,43,45,45,45,43,10] := by decide +kernel

-- `UserKeysOnly` is needed for the measured fields only: a `.setProp` callback on texttable's private
-- dimension key (not expressible in Go) run after the measuring callback leaves a wrong `cellWidth`
-- in the view, while texts, shape and CSV output are unaffected
example : ¬ cbPriv.UserKeysOnly 0 := by decide +kernel
example : ((invokeRenderCallbacks e2eX.dw cbPriv 0).view 0).header.map (·.map (·.cellWidth)) = some [100, 100] := by
  decide +kernel
example := e2ecb_content_stable e2eX.dw cbPriv 0
example : (cbPriv.renderTo e2eX e2eCsv).2 = renderCsv (cbPriv.view 0) := (e2ecb_render_unmeasured e2eX cbPriv e2eCsv).1 rfl

end E2EcbExample

end Tab
