/- C05 — CSV output parses back, under RFC 4180 quoting, to exactly the table.

   Spec side (independent of the renderer): a strict all-fields-quoted RFC 4180 reader
   `parse4180`, the expected record list `records`, and the shape hypothesis `WFShape`.
   Model side: `renderCsv` (Model/Csv.lean, mirrors `/repo/csv/csv.go`). -/
import Tabmodel.Model.Csv
import Tabmodel.Proofs.EmitLemmas
import Tabmodel.Proofs.C05
import Tabmodel.Spec.Shape
namespace Tab
open Emit

/-! ### The reader -/

/-- Body of a quoted field, the opening quote already consumed: returns the field's bytes and
the input after the closing quote.  `""` is a literal quote; a quote followed by anything else
(or by the end of input) closes the field; every other byte (comma, CR, LF, NUL, ≥0x80 …) is
content.  `none` if the input ends inside the quotes. -/
def readBody : Bytes → Option (Bytes × Bytes)
  | [] => none
  | [b] => if b = DQ then some ([], []) else none
  | b :: b' :: bs =>
    if b = DQ then
      if b' = DQ then
        match readBody bs with
        | some (s, r) => some (DQ :: s, r)
        | none => none
      else some ([], b' :: bs)
    else
      match readBody (b' :: bs) with
      | some (s, r) => some (b :: s, r)
      | none => none

/-- One record: quoted fields separated by `,`, terminated by LF.  Every field must open with a
quote, and the closing quote must be followed by `,` or LF.  Fuel: one unit per field. -/
def readRecord : Nat → Bytes → Option (List Bytes × Bytes)
  | 0, _ => none
  | _ + 1, [] => none
  | fuel + 1, q :: inp =>
    if q = DQ then
      match readBody inp with
      | none => none
      | some (_, []) => none
      | some (s, c :: rest) =>
        if c = LF then some ([s], rest)
        else if c = COMMA then
          match readRecord fuel rest with
          | some (fs, r) => some (s :: fs, r)
          | none => none
        else none
    else none

/-- Records until the input is exhausted; the input may only end right after an LF
(or be empty: zero records).  Fuel: one unit per record plus one. -/
def readRecords : Nat → Bytes → Option (List (List Bytes))
  | 0, _ => none
  | _ + 1, [] => some []
  | fuel + 1, b :: bs =>
    match readRecord ((b :: bs).length + 1) (b :: bs) with
    | none => none
    | some (r, rest) =>
      match readRecords fuel rest with
      | some rs => some (r :: rs)
      | none => none

/-- Strict RFC 4180 all-fields-quoted reader (LF record terminator, as the library writes).
Fields and records each take at least three bytes, so `length + 1` fuel never runs out on an
input the grammar accepts. -/
def parse4180 (inp : Bytes) : Option (List (List Bytes)) := readRecords (inp.length + 1) inp

/-! ### What the output must parse to -/

/-- the texts of a row's cells, padded on the right with empty fields to exactly `n` fields -/
def padRow (n : Nat) (cells : List RCell) : List Bytes :=
  cells.map (·.text) ++ List.replicate (n - cells.length) []

/-- header row (if any), then every non-separator row in order, each padded to `ncols` fields -/
def records (v : RTable) : List (List Bytes) :=
  (match v.header with
    | some hs => [padRow v.ncols hs]
    | none => []) ++
  v.rows.filterMap (fun r => r.map (padRow v.ncols))

/-! ### Reader lemmas -/

private theorem readBody_DQ_DQ (t : Bytes) :
    readBody (DQ :: DQ :: t) =
      match readBody t with
      | some (s, r) => some (DQ :: s, r)
      | none => none := by
  simp [readBody]

private theorem readBody_cons_ne {b : UInt8} (hb : b ≠ DQ) (t : Bytes) :
    readBody (b :: t) =
      match readBody t with
      | some (s, r) => some (b :: s, r)
      | none => none := by
  cases t with
  | nil => simp [readBody, hb]
  | cons b' bs => simp [readBody, hb]

/-- **Escape inverse.**  For every byte string `s` (quotes, commas, CR, LF, NUL, invalid UTF-8 —
anything), reading a field body from the escaped `s` followed by the closing quote and any
continuation `rest` that does not itself begin with a quote yields exactly `s` and `rest`. -/
theorem c05_escape_inverse (s rest : Bytes) (hrest : rest.head? ≠ some DQ) :
    readBody (csvEscBody s ++ DQ :: rest) = some (s, rest) := by
  induction s with
  | nil =>
    cases rest with
    | nil => simp [csvEscBody, readBody]
    | cons c r =>
      have hc : c ≠ DQ := by simpa using hrest
      simp [csvEscBody, readBody, hc]
  | cons b s ih =>
    by_cases hb : b = DQ
    · subst hb
      simp only [csvEscBody, if_true, List.cons_append]
      rw [readBody_DQ_DQ, ih]
    · simp only [csvEscBody, if_neg hb, List.cons_append]
      rw [readBody_cons_ne hb, ih]

private theorem csvEncRow_length (fs : List Bytes) : fs.length ≤ (csvEncRow fs).length := by
  induction fs with
  | nil => simp
  | cons f fs ih =>
    cases fs with
    | nil => simp [csvEncRow]
    | cons f' fs =>
      rw [csvEncRow_cons_ne _ (by simp)]
      simp only [List.length_append, List.length_cons] at ih ⊢
      omega

private theorem readRecord_enc (fs : List Bytes) (hne : fs ≠ []) (rest : Bytes) (fuel : Nat)
    (hf : fs.length ≤ fuel) : readRecord fuel (csvEncRow fs ++ rest) = some (fs, rest) := by
  induction fs generalizing fuel with
  | nil => exact absurd rfl hne
  | cons f fs ih =>
    obtain ⟨fuel, rfl⟩ : ∃ k, fuel = k + 1 := ⟨fuel - 1, by simp at hf; omega⟩
    cases fs with
    | nil =>
      have h := c05_escape_inverse f (LF :: rest) (by simp [LF, DQ])
      simp only [csvEncRow, csvEscape, List.cons_append, List.append_assoc, List.nil_append]
      simp only [readRecord, if_true, h]
    | cons f' fs =>
      have h := c05_escape_inverse f (COMMA :: (csvEncRow (f' :: fs) ++ rest)) (by simp [COMMA, DQ])
      have ih' := ih (by simp) fuel (by simpa using hf)
      rw [csvEncRow_cons_ne _ (by simp)]
      simp only [csvEscape, List.cons_append, List.append_assoc, List.nil_append]
      simp only [readRecord, if_true, h, ih']
      simp [COMMA, LF]

private theorem readRecords_enc (recs : List (List Bytes)) (hne : ∀ r ∈ recs, r ≠ []) (fuel : Nat)
    (hf : recs.length < fuel) : readRecords fuel (recs.flatMap csvEncRow) = some recs := by
  induction recs generalizing fuel with
  | nil =>
    obtain ⟨fuel, rfl⟩ : ∃ k, fuel = k + 1 := ⟨fuel - 1, by simp at hf; omega⟩
    rfl
  | cons r recs ih =>
    obtain ⟨fuel, rfl⟩ : ∃ k, fuel = k + 1 := ⟨fuel - 1, by omega⟩
    have hr : r ≠ [] := hne r (by simp)
    have ih' := ih (fun x hx => hne x (by simp [hx])) fuel (by simpa using hf)
    rw [List.flatMap_cons]
    have hlen := csvEncRow_length r
    cases hin : csvEncRow r ++ recs.flatMap csvEncRow with
    | nil =>
      have : (csvEncRow r ++ recs.flatMap csvEncRow).length = 0 := by rw [hin]; rfl
      have : r.length = 0 := by simp only [List.length_append] at this; omega
      exact absurd (List.eq_nil_of_length_eq_zero this) hr
    | cons b bs =>
      have hrec := readRecord_enc r hr (recs.flatMap csvEncRow) ((b :: bs).length + 1) (by
        rw [← hin]; simp only [List.length_append]; omega)
      rw [hin] at hrec
      simp only [readRecords, hrec, ih']

/-- the spec's record list is the one the model-side lemmas talk about -/
private theorem records_eq (v : RTable) : records v = csvRecs v := by
  unfold records csvRecs csvRowRecs
  cases v.header with
  | none => rfl
  | some hs => rfl

private theorem padRow_length {n : Nat} {cells : List RCell} (h : cells.length ≤ n) :
    (padRow n cells).length = n := by
  simp [padRow]; omega

private theorem wf_header {v : RTable} (hw : WFShape v) :
    ∀ hs, v.header = some hs → hs.length ≤ v.ncols := hw.1

private theorem wf_rows {v : RTable} (hw : WFShape v) :
    ∀ cells, some cells ∈ v.rows → cells.length ≤ v.ncols := hw.2

/-! ### The property -/

/-- A table with no columns is refused with the "no columns" error and writes nothing. -/
theorem c05_refuse (v : RTable) (h0 : v.ncols = 0) :
    (renderCsv v).res = .error (.err .noColumns) ∧ (renderCsv v).chunks = [] := by
  rw [renderCsv_noColumns h0]; exact ⟨rfl, rfl⟩

/-- With at least one column and no over-wide row, rendering succeeds: the structural error
branch is not taken and nothing panics (in particular the zero-cell row does not index `cells[0]`). -/
theorem c05_total (v : RTable) (h1 : 1 ≤ v.ncols) (hw : WFShape v) : (renderCsv v).res = .ok () :=
  (renderCsv_ok h1 (wf_header hw) (wf_rows hw)).1

/-- Every expected record has exactly `ncols` fields. -/
theorem c05_field_count (v : RTable) (_h1 : 1 ≤ v.ncols) (hw : WFShape v) :
    ∀ r ∈ records v, r.length = v.ncols := by
  intro r hr
  unfold records at hr
  rcases List.mem_append.1 hr with hh | hb
  · cases hhd : v.header with
    | none => rw [hhd] at hh; simp at hh
    | some hs =>
      rw [hhd] at hh
      have : r = padRow v.ncols hs := by simpa using hh
      rw [this]; exact padRow_length (wf_header hw hs hhd)
  · obtain ⟨row, hrow, hmap⟩ := List.mem_filterMap.1 hb
    cases row with
    | none => simp at hmap
    | some cells =>
      have : padRow v.ncols cells = r := by simpa using hmap
      rw [← this]; exact padRow_length (wf_rows hw cells hrow)

/-- **Round trip.**  The complete output, read by the strict RFC 4180 reader, is exactly the header
row (if any) followed by each non-separator row in order, each with `ncols` fields (see
`c05_field_count`), each field byte-for-byte the cell text, missing cells as empty fields. -/
theorem c05_roundtrip (v : RTable) (h1 : 1 ≤ v.ncols) (hw : WFShape v) :
    parse4180 (renderCsv v).output = some (records v) := by
  have hout := (renderCsv_ok h1 (wf_header hw) (wf_rows hw)).2
  have hcount := c05_field_count v h1 hw
  rw [hout, ← records_eq]
  unfold parse4180
  apply readRecords_enc
  · intro r hr hnil
    have := hcount r hr
    rw [hnil] at this
    simp at this
    omega
  · have hl : ∀ recs : List (List Bytes), recs.length ≤ (recs.flatMap csvEncRow).length := by
      intro recs
      induction recs with
      | nil => simp
      | cons r recs ih =>
        have : 1 ≤ (csvEncRow r).length := by
          cases r with
          | nil => simp [csvEncRow]
          | cons f fs => have := csvEncRow_length (f :: fs); simp at this ⊢; omega
        simp only [List.flatMap_cons, List.length_append, List.length_cons]
        omega
    have := hl (records v)
    omega

/-- An over-wide header or row is reported as the structural error, never mis-rendered as a
successful output (and never a panic). -/
theorem c05_structural (v : RTable) (h1 : 1 ≤ v.ncols) (hw : ¬ WFShape v) :
    (renderCsv v).res = .error (.err .structural) := by
  apply renderCsv_bad h1
  by_cases hh : ∀ hs, v.header = some hs → hs.length ≤ v.ncols
  · right
    have : ¬ ∀ cs, some cs ∈ v.rows → cs.length ≤ v.ncols := fun hall => hw ⟨hh, hall⟩
    obtain ⟨cs, hr⟩ := Classical.not_forall.1 this
    obtain ⟨hmem, hnf⟩ := Classical.not_imp.1 hr
    exact ⟨cs, hmem, Nat.lt_of_not_le hnf⟩
  · left
    obtain ⟨hs, hr⟩ := Classical.not_forall.1 hh
    obtain ⟨heq, hnf⟩ := Classical.not_imp.1 hr
    exact ⟨hs, heq, Nat.lt_of_not_le hnf⟩

/-- "Whenever CSV rendering succeeds": success is exactly `1 ≤ ncols ∧ WFShape`, so
`c05_roundtrip`'s hypotheses are no stronger than "rendering succeeded". -/
theorem c05_ok_iff (v : RTable) : (renderCsv v).res = .ok () ↔ 1 ≤ v.ncols ∧ WFShape v := by
  constructor
  · intro hok
    by_cases h1 : 1 ≤ v.ncols
    · refine ⟨h1, ?_⟩
      by_cases hw : WFShape v
      · exact hw
      · rw [c05_structural v h1 hw] at hok; cases hok
    · rw [(c05_refuse v (by omega)).1] at hok; cases hok
  · exact fun ⟨h1, hw⟩ => c05_total v h1 hw

/-- the property exactly as worded: whenever rendering succeeds, the output parses back -/
theorem c05_roundtrip_of_ok (v : RTable) (hok : (renderCsv v).res = .ok ()) :
    parse4180 (renderCsv v).output = some (records v) ∧ ∀ r ∈ records v, r.length = v.ncols :=
  have h := (c05_ok_iff v).1 hok
  ⟨c05_roundtrip v h.1 h.2, c05_field_count v h.1 h.2⟩

/-- CSV rendering never panics, for any view at all. -/
theorem c05_no_panic (v : RTable) (site : String) : (renderCsv v).res ≠ .error (.panic site) := by
  by_cases h1 : 1 ≤ v.ncols
  · by_cases hw : WFShape v
    · rw [c05_total v h1 hw]; intro h; cases h
    · rw [c05_structural v h1 hw]; intro h; cases h
  · rw [(c05_refuse v (by omega)).1]; intro h; cases h

/-! ### Non-vacuity: the hypotheses are satisfiable, and the statements evaluate on a concrete view

Two columns; a header whose texts contain `"`, `,`, CR, LF; a short row (one cell, with `""`, NUL,
0xFF); a zero-cell row; a separator; a full row with an empty cell and a cell containing
`"`, `,`, `"`, CR, LF, 0x00, 0xFF and a truncated UTF-8 lead byte 0xC3. -/

def c05Example : RTable :=
  { ncols := 2
    header := some [{ text := [104, DQ] }, { text := [COMMA, 13, LF] }]
    rows := [some [{ text := [DQ, DQ, 0, 255] }], some [], none,
             some [{ text := [] }, { text := [DQ, COMMA, DQ, 13, LF, 0x00, 0xFF, 0xC3] }]]
    colAlign := [], colSkip := [] }

/-- hypotheses of `c05_total`, `c05_roundtrip`, `c05_field_count` -/
example : 1 ≤ c05Example.ncols ∧ WFShape c05Example := by decide
/-- hypothesis of `c05_roundtrip_of_ok` -/
example : (renderCsv c05Example).res = .ok () := rfl
example : (renderCsv c05Example).output =
    [34, 104, 34, 34, 34, 44, 34, 44, 13, 10, 34, 10,        -- "h""",",\r\n"\n
     34, 34, 34, 34, 34, 0, 255, 34, 44, 34, 34, 10,         -- """""\0\xff",""\n
     34, 34, 44, 34, 34, 10,                                 -- "",""\n
     34, 34, 44, 34, 34, 34, 44, 34, 34, 13, 10, 0, 255, 195, 34, 10] := by decide
example : records c05Example =
    [[[104, 34], [44, 13, 10]], [[34, 34, 0, 255], []], [[], []],
     [[], [34, 44, 34, 13, 10, 0, 255, 195]]] := by decide
example : parse4180 (renderCsv c05Example).output = some (records c05Example) := by decide
/-- hypothesis of `c05_refuse` -/
example : ({ c05Example with ncols := 0 } : RTable).ncols = 0 := rfl
example : (renderCsv { c05Example with ncols := 0 }).res = .error (.err .noColumns) := rfl
/-- hypotheses of `c05_structural` -/
example : 1 ≤ ({ c05Example with ncols := 1 } : RTable).ncols ∧ ¬ WFShape { c05Example with ncols := 1 } := by
  decide
example : (renderCsv { c05Example with ncols := 1 }).res = .error (.err .structural) := rfl
/-- hypothesis of `c05_escape_inverse` (continuations the renderer produces: `,` …, LF …, and end) -/
example : ([COMMA, DQ] : Bytes).head? ≠ some DQ ∧ ([LF] : Bytes).head? ≠ some DQ ∧
    ([] : Bytes).head? ≠ some DQ := by decide
example : readBody (csvEscBody [DQ, COMMA, 13, LF, 0, 255, DQ] ++ DQ :: [COMMA, DQ]) =
    some ([DQ, COMMA, 13, LF, 0, 255, DQ], [COMMA, DQ]) := by decide
/-- the reader is strict: each of these near-misses is rejected -/
example : parse4180 [DQ, DQ] = none := by decide                          -- no final LF
example : parse4180 [DQ, DQ, LF, DQ, DQ, COMMA] = none := by decide        -- ends after a comma
example : parse4180 [104, LF] = none := by decide                          -- unquoted field
example : parse4180 [DQ, DQ, 13, LF] = none := by decide                   -- CR after closing quote
example : parse4180 [DQ, DQ, DQ, LF] = none := by decide                   -- unterminated field
example : parse4180 [DQ, 104, LF] = none := by decide                      -- unterminated field
example : parse4180 [LF] = none := by decide                               -- empty line
example : parse4180 [] = some [] := by decide
example : parse4180 [DQ, DQ, LF] = some [[[]]] := by decide

end Tab
