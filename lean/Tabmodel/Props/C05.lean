/- C05 — CSV output parses back, under RFC 4180 quoting, to exactly the table. -/
import Tabmodel.Model.Csv
namespace Tab

/-- placeholder while the pipeline is brought up: the escaped body never ends a field early -/
theorem c05_escape_shape (s : Bytes) : csvEscape s = DQ :: csvEscBody s ++ [DQ] := rfl

end Tab
