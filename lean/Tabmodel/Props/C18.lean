/-
  C18 — Line and width metrics are mutually consistent.
  `dw` (display cells, go-runewidth) is an arbitrary function: every statement holds for all `dw`.
-/
import Tabmodel.Model.World
import Tabmodel.Proofs.Length
import Tabmodel.Proofs.Clusters
namespace Tab

/-- splitting into lines loses nothing but the line breaks and at most one trailing newline -/
theorem c18_lines_join (s : Bytes) : joinLF (lines s) = s ∨ joinLF (lines s) ++ [LF] = s := by
  rcases lines_cases s with ⟨h, _⟩ | h
  · left; rw [h]; exact joinLF_splitLF s
  · have hj := joinLF_splitLF s
    rw [h] at hj
    by_cases hn : lines s = []
    · left
      rw [hn] at hj ⊢
      simpa [joinLF] using hj
    · right
      rw [joinLF_append_nil_seg hn] at hj
      exact hj

/-- no line contains a line feed -/
theorem c18_lines_noLF (s : Bytes) : ∀ l ∈ lines s, LF ∉ l := by
  intro l hl
  rcases lines_cases s with ⟨h, _⟩ | h
  · exact splitLF_noLF s l (h ▸ hl)
  · exact splitLF_noLF s l (by rw [h]; simp [hl])

/-- the three-way switch of `LongestLineX` (no line / one line / loop) is just the maximum -/
theorem c18_longest_is_max (f : Bytes → Nat) (s : Bytes) : longestLine f s = maxOf f (lines s) := by
  unfold longestLine
  split
  · next h => simp [h, maxOf]
  · next l h => simp [h, maxOf]
  · rfl

/-- ... and the maximum is an upper bound attained by some line (or 0 when there is none) -/
theorem c18_longest_bound (f : Bytes → Nat) (s : Bytes) :
    (∀ l ∈ lines s, f l ≤ longestLine f s) ∧
    (longestLine f s = 0 ∨ ∃ l ∈ lines s, longestLine f s = f l) := by
  rw [c18_longest_is_max]
  unfold maxOf
  exact ⟨maxOf_foldl_mem f (lines s) 0, maxOf_foldl_attained f (lines s) 0⟩

/-- per line (indeed per string) runes never exceed bytes: each decoding step consumes at least a byte -/
theorem c18_runes_le_bytes (s : Bytes) : runeCount s ≤ s.length := runeCountFuel_le _ s

/-- hence the same for the longest-line measures -/
theorem c18_longest_runes_le_bytes (s : Bytes) : longestLine runeCount s ≤ longestLine List.length s := by
  rcases (c18_longest_bound runeCount s).2 with h | ⟨l, hl, h⟩
  · omega
  · rw [h]
    exact Nat.le_trans (c18_runes_le_bytes l) ((c18_longest_bound List.length s).1 l hl)

/-- display cells never exceed twice the runes, for EVERY width measure of go-runewidth's shape:
    the line is cut into clusters of one or more whole runes (`cr s ≥ 1` runes in the first cluster
    of `s`) and each cluster contributes at most 2 cells (`cw s ≤ 2`: the width of one of its runes).
    That go-runewidth has this shape (RuneWidth ≤ 2, one width per grapheme cluster) is the assumption;
    the oracle checks `cells ≤ 2·runes` on every generated line. -/
theorem c18_cells_le_2runes (cr cw : Bytes → Nat) (hcr : ∀ s, 1 ≤ cr s) (hcw : ∀ s, cw s ≤ 2)
    (fuel : Nat) (l : Bytes) : clusterWidth cr cw fuel l ≤ 2 * runeCount l :=
  clusterWidth_le cr cw hcr hcw fuel l

/- non-vacuity: one rune per cluster, CJK lead bytes (E3..E9) are wide -/
example : clusterWidth (fun _ => 1) (fun s => match s with | b :: _ => if 0xE3 ≤ b && b ≤ 0xE9 then 2 else 1 | [] => 0)
    10 [0xe4, 0xb8, 0x96, 0x41] = 3 := by decide

/-- an item that overrides neither size and is not a nested cell -/
def PlainItem (it : Item) : Prop :=
  it.mHeight = none ∧ it.mWidth = none ∧ (∀ s w h e, it.kind ≠ .cell s w h e) ∧ it.kind ≠ .nil

theorem splitLF_singleton {t l : Bytes} (h : splitLF t = [l]) : l = t := by
  have := joinLF_splitLF t
  rw [h] at this
  simpa [joinLF] using this

theorem hasSuffixLF_cons_cons (b c : UInt8) (cs : Bytes) :
    hasSuffixLF (b :: c :: cs) = hasSuffixLF (c :: cs) := by
  simp [hasSuffixLF, List.getLast?_cons_cons]

theorem hasSuffixLF_iff (s : Bytes) (hs : s ≠ []) :
    hasSuffixLF s = true ↔ (splitLF s).getLast? = some [] := by
  induction s with
  | nil => exact absurd rfl hs
  | cons b bs ih =>
    cases bs with
    | nil =>
      by_cases h : b = LF
      · subst h; simp [hasSuffixLF, splitLF]
      · simp [hasSuffixLF, splitLF, h]
    | cons c cs =>
      have ih' := ih (by simp)
      rw [hasSuffixLF_cons_cons, ih']
      by_cases h : b = LF
      · subst h
        rw [splitLF_cons_LF, List.getLast?_cons_of_ne_nil (splitLF_ne_nil _)]
      · obtain ⟨l, ls, h1, h2⟩ := splitLF_cons_ne h (c :: cs)
        rw [h2, h1]
        cases ls with
        | nil =>
          have := splitLF_singleton h1
          subst this
          simp
        | cons l' ls' => simp [List.getLast?_cons_cons]

theorem length_splitLF (s : Bytes) : (splitLF s).length = countLF s + 1 := by
  induction s with
  | nil => simp [splitLF, countLF]
  | cons b bs ih =>
    by_cases h : b = LF
    · subst h
      rw [splitLF_cons_LF]
      simp [countLF, ih] at *
    · obtain ⟨l, ls, h1, h2⟩ := splitLF_cons_ne h bs
      rw [h2]
      rw [h1] at ih
      have : countLF (b :: bs) = countLF bs := by
        simp [countLF, h]
      rw [this]
      simpa using ih

/-- the number of lines is what `Update` computes: 1 + count of LF, minus one for a trailing LF -/
theorem lines_length (s : Bytes) (hs : s ≠ []) :
    (lines s).length = 1 + countLF s - (if hasSuffixLF s then 1 else 0) := by
  have hlen := length_splitLF s
  rcases lines_cases s with ⟨h, hlast⟩ | h
  · have : hasSuffixLF s = false := by
      cases hh : hasSuffixLF s with
      | false => rfl
      | true => exact absurd ((hasSuffixLF_iff s hs).1 hh) hlast
    rw [h, this, hlen]; simp; omega
  · have : hasSuffixLF s = true := (hasSuffixLF_iff s hs).2 (by rw [h]; simp)
    rw [this]
    have : (splitLF s).length = (lines s).length + 1 := by rw [h]; simp
    simp; omega

/-- a non-empty text has at least one line -/
theorem lines_pos {str : Bytes} (hne : str ≠ []) :
    1 ≤ 1 + countLF str - (if hasSuffixLF str then 1 else 0) := by
  by_cases hsuf : hasSuffixLF str = true
  · simp only [hsuf, if_true]
    have : 1 ≤ countLF str := by
      unfold hasSuffixLF at hsuf
      have hm : LF ∈ str := List.mem_of_getLast? (by simpa using hsuf : str.getLast? = some LF)
      unfold countLF
      exact List.count_pos_iff.2 hm
    omega
  · simp only [Bool.not_eq_true] at hsuf
    simp [hsuf]

theorem newCell_plain (dw : Measure) (i : Nat) (it : Item) (hp : PlainItem it) :
    newCell dw i it = { item := i, str := it.switchText, empty := it.switchText == [],
                        width := sizeWidth dw it it.switchText, height := sizeHeight it it.switchText } := by
  obtain ⟨_, _, hcell, hnil⟩ := hp
  unfold newCell Cell.update
  split
  · next h => exact absurd h hnil
  · next s w h e hk => exact absurd hk (hcell s w h e)
  · rfl

/-- for a cell whose item does not override its size: the height is its number of lines … -/
theorem c18_height (dw : Measure) (i : Nat) (it : Item) (hp : PlainItem it) :
    (newCell dw i it).hgt = ((newCell dw i it).lines.length : Int) := by
  rw [newCell_plain dw i it hp]
  obtain ⟨hH, hW, _, _⟩ := hp
  simp only [Cell.hgt, Cell.termWidth, Cell.lines, sizeHeight, sizeWidth, hH, hW]
  generalize it.switchText = str
  by_cases hs : str = []
  · subst hs; simp [lines, splitLF]
  · have hb : (str == []) = false := by simpa using hs
    have hpos := lines_pos hs
    rw [lines_length str hs]
    simp only [hb, Bool.false_eq_true, if_false]
    cases hsuf : hasSuffixLF str with
    | false =>
      simp only [hsuf, Bool.false_eq_true, if_false] at hpos ⊢
      have h1 : ¬ (((1 + countLF str : Nat) : Int) - 0 < 1) := by omega
      simp only [h1, if_false]
      omega
    | true =>
      simp only [hsuf, if_true] at hpos ⊢
      have h1 : ¬ (((1 + countLF str : Nat) : Int) - 1 < 1) := by omega
      simp only [h1, if_false]
      omega

/-- … and the width is the longest line's display width -/
theorem c18_width (dw : Measure) (i : Nat) (it : Item) (hp : PlainItem it) :
    (newCell dw i it).termWidth = (longestLine dw (newCell dw i it).str : Int) := by
  rw [newCell_plain dw i it hp]
  obtain ⟨hH, hW, _, _⟩ := hp
  simp only [Cell.termWidth, sizeWidth, hW]
  generalize it.switchText = str
  by_cases hs : str = []
  · subst hs; simp [longestLine, lines, splitLF]
  · have hb : (str == []) = false := by simpa using hs
    simp only [hb, Bool.false_eq_true, if_false]
    have : ¬ ((longestLine dw str : Nat) : Int) < 0 := by omega
    simp [this]

/-- so the layout pass and the emit pass of the text renderer agree: the line array the measuring
    callback allocates has exactly one entry per text line (no override) -/
theorem c18_agree (dw : Measure) (i : Nat) (it : Item) (hp : PlainItem it) :
    match (World.dimProps dw it (newCell dw i it)).2 with
    | .lws l => l.length = (newCell dw i it).lines.length
    | _ => False := by
  have hh := c18_height dw i it hp
  simp only [World.dimProps]
  simp only [List.length_append, List.length_map, List.length_replicate]
  have : ((newCell dw i it).hgt).toNat = (newCell dw i it).lines.length := by rw [hh]; simp
  rw [this]; simp

/- non-vacuity -/
example : PlainItem { kind := .str [97, 10, 98], mString := none, mGoString := none, mError := none,
                      fmtV := [], mHeight := none, mWidth := none, json := none } := by
  refine ⟨rfl, rfl, ?_, ?_⟩ <;> intros <;> simp
example : lines [97, 10, 10] = [[97], []] := by decide
example : joinLF (lines [97, 10, 10]) ++ [LF] = [97, 10, 10] := by decide
example : lines [10] = [[]] := by decide
example : runeCount [0xe4, 0xb8, 0x96, 0xff, 0x41] = 3 := by decide

end Tab
