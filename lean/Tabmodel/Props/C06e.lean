/-
  C06e — C06 clause 3 stated directly: "the text in `th`/`td`, the caption and the attribute values
  entity-decode to exactly the supplied strings" — for the output of `RenderTo` of an HTML wrapper on
  ANY world with ANY callbacks (`e2ecb_html`).

  `c06_skeleton` says the output tokenizes to the literal list `skeleton cfg v` and
  `c06_decode_escape(_nul)` says what decoding an escaped string gives; no theorem said "the text at the
  position of cell (i, j) decodes to that cell's text".  Here the positions are found by independent
  READERS of the token list (Proofs/C06eSpec.lean; none of them mentions the renderer or `skeleton`):

   * `htmlReadRows toks`   : per `<tr…>` tag, in order, the raw text of each `<th>`/`<td>` element
                             (the text token that follows the opening tag; `[]` for an empty element);
   * `htmlReadCaption toks`: the raw text of the `<caption>` element, if any;
   * `htmlReadTableAttrs toks` / `htmlReadRowAttrs toks`: the (name, raw value) pairs of the first tag
     / of every `<tr…>` tag, found by a sequential attribute scanner (a value ends at the first `"`).

  `c06e_cell_decodes` (ALL strings): everything read, entity-decoded with `htmlDecode`, is `nulToFFFD` of
  the supplied string — the cell's text, the caption, `Class`, `Id`, the row-class generator's value for
  that row.  `c06e_cell_decodes_exact`: when the supplied strings hold no NUL byte it is exactly the
  supplied string.  `c06e_nul_gap`: the two differ precisely for strings containing NUL (finding D23:
  html/template writes U+FFFD for NUL), so D23 is the whole gap between the clause as worded and what
  holds.  The view `v` is that of the world BEFORE the render's callbacks pass (the texts the history put
  into the table; the pass cannot change them), and `c06e_cell_built` reads them from the row store.

  Optional part (C06 clause 4, "the generator is called once per emitted row"): `htmlBytesSt`, the
  template with a STATEFUL row-class generator `σ → Nat → Bytes × σ` threaded through it, and
  `c06e_rowclass_once`.
-/
import Tabmodel.Props.E2Ecb
import Tabmodel.Proofs.C06eRead
import Tabmodel.Proofs.C06eGen
import Tabmodel.Proofs.C08eCore
namespace Tab
open World hiding CellOK
open C06e

/-- Everything the readers find in the rendered HTML, entity-decoded, is `nulToFFFD` of the string
    that was supplied for that position:
    rows — entry 0 the header cells (none without a header), then one entry per non-separator row of
    the table, each the list of its cells' texts; the caption (absent iff the caption is empty);
    the `<table>` tag's attributes — `class` iff `Class` is non-empty, then `id` iff `Id` is non-empty;
    and the `<tr>` tags' attributes — none without a generator, else exactly one `class` per row whose
    value is the generator's at that row's number (`rowClassArgs v`: 0 for the header, 1-based position
    among ALL rows for body rows). -/
theorem c06e_cell_decodes (x : Ext) (w : World) (wr : Wrapper) (hk : wr.kind = .html) :
    let v := w.view wr.core
    let m := (w.renderTo x wr).2
    let toks := tokenize m.output
    m.res = .ok () ∧
    (htmlReadRows toks).map (·.map htmlDecode) =
      ((v.header.getD []) :: bodyRows v).map (·.map (fun c => nulToFFFD c.text)) ∧
    (htmlReadCaption toks).map htmlDecode =
      (if wr.html.caption != [] then some (nulToFFFD wr.html.caption) else none) ∧
    decodeAttrs (htmlReadTableAttrs toks) =
      (if wr.html.cls != [] then [(attrClass, nulToFFFD wr.html.cls)] else []) ++
      (if wr.html.id != [] then [(attrId, nulToFFFD wr.html.id)] else []) ∧
    (htmlReadRowAttrs toks).map decodeAttrs =
      (rowClassArgs v).map (fun n => match wr.html.rowClass with
        | some f => [(attrClass, nulToFFFD (f n))]
        | none => []) := by
  intro v m toks
  obtain ⟨_, hok, hout, hskel, _⟩ := e2ecb_html x w wr hk
  have htoks : toks = skeleton wr.html v := hskel
  refine ⟨hok, ?_, ?_, ?_, ?_⟩
  · rw [htoks, readRows_skeleton]
    simp only [bodyRows, List.map_map]
    apply List.map_congr_left
    intro cells _
    simp only [Function.comp, List.map_map]
    apply List.map_congr_left
    intro c _
    exact c06_decode_escape_nul c.text
  · rw [htoks, readCaption_skeleton]
    split
    · simp only [Option.map_some, c06_decode_escape_nul]
    · rfl
  · rw [htoks, readTableAttrs_skeleton]
    unfold decodeAttrs
    by_cases hc : wr.html.cls = [] <;> by_cases hi : wr.html.id = [] <;>
      simp [hc, hi, c06_decode_escape_nul]
  · have htr : toks.filter isTrOpen = (rowClassArgs v).map (fun n => .tag (trOpenTag wr.html n)) := by
      show (tokenize m.output).filter isTrOpen = _
      rw [hout]; exact c06_tr_tags wr.html v
    unfold htmlReadRowAttrs
    rw [htr, List.map_map, List.map_map]
    apply List.map_congr_left
    intro n _
    simp only [Function.comp, HTok.body, tagAttrs_trOpen]
    unfold decodeAttrs
    cases wr.html.rowClass with
    | none => rfl
    | some f => simp [c06_decode_escape_nul]

/-- Cell by cell.  Header cell `j` is element `j` of entry 0; cell `j` of the `k`-th non-separator row
    is element `j` of entry `k + 1`; decoded, each is `nulToFFFD` of that cell's text; and there is
    nothing else in those entries (same lengths). -/
theorem c06e_cell_at (x : Ext) (w : World) (wr : Wrapper) (hk : wr.kind = .html) :
    let v := w.view wr.core
    let toks := tokenize (w.renderTo x wr).2.output
    (htmlReadRows toks).length = 1 + (bodyRows v).length ∧
    (∀ (hs : List RCell) (j : Nat) (c : RCell), v.header = some hs → hs[j]? = some c →
      ((htmlReadRows toks)[0]?.bind (·[j]?)).map htmlDecode = some (nulToFFFD c.text)) ∧
    (∀ (k : Nat) (cells : List RCell) (j : Nat) (c : RCell), (bodyRows v)[k]? = some cells → cells[j]? = some c →
      ((htmlReadRows toks)[k + 1]?.bind (·[j]?)).map htmlDecode = some (nulToFFFD c.text)) ∧
    (∀ (k : Nat) (cells : List RCell), ((v.header.getD []) :: bodyRows v)[k]? = some cells →
      ((htmlReadRows toks)[k]?.map List.length) = some cells.length) := by
  intro v toks
  obtain ⟨_, hrows, _⟩ := c06e_cell_decodes x w wr hk
  have key : ∀ (k : Nat) (cells : List RCell) (j : Nat) (c : RCell), ((v.header.getD []) :: bodyRows v)[k]? = some cells →
      cells[j]? = some c →
      ((htmlReadRows toks)[k]?.bind (·[j]?)).map htmlDecode = some (nulToFFFD c.text) :=
    fun k cells j c hkc hjc => elem_of_map_map_eq htmlDecode (fun c => nulToFFFD c.text) _ _ hrows k cells hkc j c hjc
  refine ⟨?_, ?_, ?_, ?_⟩
  · have := congrArg List.length hrows
    simpa [Nat.add_comm] using this
  · intro hs j c hh hj
    exact key 0 hs j c (by simp [hh]) hj
  · intro k cells j c hkc hj
    exact key (k + 1) cells j c (by simpa using hkc) hj
  · intro k cells hkc
    exact length_of_map_map_eq htmlDecode (fun c => nulToFFFD c.text) _ _ hrows k cells hkc

/-- The same against the world's row store: `hr` the header row of the table, source row `k` of
    `hr :: (its non-separator rows, in order)` is row id `r`, whose cell `j` is `ce`: element `j` of
    entry `k` read from the output decodes to `nulToFFFD ce.str`, `ce.str` being the text the build
    history put into that cell. -/
theorem c06e_cell_built (x : Ext) (w : World) (wr : Wrapper) (hk : wr.kind = .html)
    (hr : Nat) (hh : (w.table wr.core).header = some hr) (k r : Nat)
    (hkr : (hr :: (w.table wr.core).rows.filter (fun r => !(w.row r).isSep))[k]? = some r)
    (j : Nat) (ce : Cell) (hce : (w.rowCells r)[j]? = some ce) :
    ((htmlReadRows (tokenize (w.renderTo x wr).2.output))[k]?.bind (·[j]?)).map htmlDecode =
      some (nulToFFFD ce.str) := by
  obtain ⟨hhv, hsrc⟩ := C08e.srcRows_view w wr.core hr hh
  obtain ⟨_, hhead, hbody, _⟩ := c06e_cell_at x w wr hk
  have hkk : (((w.rowCells hr).map w.rcell) :: bodyRows (w.view wr.core))[k]? =
      some ((w.rowCells r).map w.rcell) := by
    rw [hsrc, List.getElem?_map, hkr]; rfl
  have hc : ((w.rowCells r).map w.rcell)[j]? = some (w.rcell ce) := by
    rw [List.getElem?_map, hce]; rfl
  cases k with
  | zero =>
    simp only [List.getElem?_cons_zero, Option.some.injEq] at hkk
    exact hhead _ j _ hhv (by rw [hkk]; exact hc)
  | succ k =>
    exact hbody k _ j _ (by simpa using hkk) hc

/-- The clause as worded, under the hypothesis that makes it true: when no supplied string (cell
    texts, caption, class, id, the generator's values at the rows it is asked for) holds a NUL byte,
    everything read from the output entity-decodes to EXACTLY the supplied string. -/
theorem c06e_cell_decodes_exact (x : Ext) (w : World) (wr : Wrapper) (hk : wr.kind = .html)
    (hcells : ∀ cells ∈ ((w.view wr.core).header.getD []) :: bodyRows (w.view wr.core),
      ∀ c ∈ cells, NulFree c.text)
    (hcap : NulFree wr.html.caption) (hcls : NulFree wr.html.cls) (hid : NulFree wr.html.id)
    (hgen : ∀ f, wr.html.rowClass = some f → ∀ n ∈ rowClassArgs (w.view wr.core), NulFree (f n)) :
    let v := w.view wr.core
    let toks := tokenize (w.renderTo x wr).2.output
    (htmlReadRows toks).map (·.map htmlDecode) = ((v.header.getD []) :: bodyRows v).map (·.map (·.text)) ∧
    (htmlReadCaption toks).map htmlDecode = (if wr.html.caption != [] then some wr.html.caption else none) ∧
    decodeAttrs (htmlReadTableAttrs toks) =
      (if wr.html.cls != [] then [(attrClass, wr.html.cls)] else []) ++
      (if wr.html.id != [] then [(attrId, wr.html.id)] else []) ∧
    (htmlReadRowAttrs toks).map decodeAttrs =
      (rowClassArgs v).map (fun n => match wr.html.rowClass with
        | some f => [(attrClass, f n)]
        | none => []) := by
  intro v toks
  obtain ⟨_, h1, h2, h3, h4⟩ := c06e_cell_decodes x w wr hk
  refine ⟨?_, ?_, ?_, ?_⟩
  · rw [h1]
    apply List.map_congr_left
    intro cells hm
    apply List.map_congr_left
    intro c hc
    exact nulToFFFD_of_nulFree (hcells cells hm c hc)
  · rw [h2, nulToFFFD_of_nulFree hcap]
  · rw [h3, nulToFFFD_of_nulFree hcls, nulToFFFD_of_nulFree hid]
  · rw [h4]
    apply List.map_congr_left
    intro n hn
    cases hf : wr.html.rowClass with
    | none => rfl
    | some f => simp only; rw [nulToFFFD_of_nulFree (hgen f hf n hn)]

/-- D23 is exactly the gap: decoding the escaped form of `s` gives back `s` iff `s` holds no NUL byte
    (each NUL comes back as the three bytes of U+FFFD, two bytes longer). -/
theorem c06e_nul_gap (s : Bytes) :
    (htmlDecode (htmlEscape s) = s ↔ NulFree s) ∧
    (nulToFFFD s = s ↔ NulFree s) ∧
    (htmlDecode (htmlEscape s)).length = s.length + 2 * s.count 0 := by
  have h : nulToFFFD s = s ↔ NulFree s := ⟨nulFree_of_nulToFFFD, nulToFFFD_of_nulFree⟩
  refine ⟨by rw [c06_decode_escape_nul]; exact h, h, by rw [c06_decode_escape_nul]; exact nulToFFFD_length s⟩

/-! ### C06 clause 4 with a STATEFUL generator: called once per emitted row, in order

  `htmlBytesSt cfg gen s₀ v` (Proofs/C06eSpec.lean) is the template with a generator
  `gen : σ → Nat → Bytes × σ` whose state is threaded through in document order; `stepGen gen s₀ args`
  is the specification "step the generator once per element of `args`, in order" (returned values,
  final state). -/

/-- The generator is stepped exactly along `rowClassArgs v` — 0 for the header row, then `i + 1` for
    every non-separator row `rows[i]`, in order, once each, and never for a separator:
    (1) the final state is the state after stepping along `rowClassArgs v`;
    (2) the document is the PURE model's document (`htmlBytes`, about which all of C06 is proved) for
        the function sending each row number to the value returned at that step, so that
    (3) the `<tr…>` tags of the output, in order, carry exactly the returned values, one each;
    (4) instrumenting the generator with a call log changes nothing of the output or of its own
        state, and the log afterwards is literally `rowClassArgs v`. -/
theorem c06e_rowclass_once {σ : Type} (cfg : HtmlCfg) (gen : RowGen σ) (s₀ : σ) (v : RTable) :
    let args := rowClassArgs v
    let run := stepGen gen s₀ args
    (htmlBytesSt cfg gen s₀ v).2 = run.2 ∧
    (htmlBytesSt cfg gen s₀ v).1 = htmlBytes { cfg with rowClass := some (genFun args run.1) } v ∧
    args.map (genFun args run.1) = run.1 ∧
    (tokenize (htmlBytesSt cfg gen s₀ v).1).filter isTrOpen =
      run.1.map (fun c => .tag (bytesOfString "<tr class=\"" ++ htmlEscape c ++ bytesOfString "\">")) ∧
    (htmlBytesSt cfg (logGen gen) (s₀, []) v).1 = (htmlBytesSt cfg gen s₀ v).1 ∧
    (htmlBytesSt cfg (logGen gen) (s₀, []) v).2 = (run.2, args) := by
  intro args run
  have hmap : args.map (genFun args run.1) = run.1 :=
    map_genFun args run.1 (rowClassArgs_nodup v) (stepGen_length gen s₀ args)
  refine ⟨bytesSt_state cfg gen s₀ v, bytesSt_eq cfg gen s₀ v, hmap, ?_, ?_, ?_⟩
  · rw [bytesSt_eq, c06_rowclass_tr_tags]
    conv => rhs; rw [← hmap]
    rw [List.map_map]
    rfl
  · rw [bytesSt_eq, bytesSt_eq, stepGen_log]
  · rw [bytesSt_state, stepGen_log]
    rfl

/-- Agreement with the model: a generator that ignores (and keeps) its state `gen s n = (f n, s)`
    gives exactly the pure model's document for `f`, and the state is untouched. -/
theorem c06e_rowclass_pure {σ : Type} (cfg : HtmlCfg) (f : Nat → Bytes) (gen : RowGen σ)
    (hgen : ∀ s n, gen s n = (f n, s)) (s₀ : σ) (v : RTable) :
    htmlBytesSt cfg gen s₀ v = (htmlBytes { cfg with rowClass := some f } v, s₀) :=
  bytesSt_pure cfg f gen hgen s₀ v

/-- Through `RenderTo`: on any world, the HTML wrapper whose (pure) row-class function is the one the
    stateful generator induces writes exactly the stateful template's document for the view of the
    world before the pass. -/
theorem c06e_rowclass_render {σ : Type} (x : Ext) (w : World) (wr : Wrapper) (hk : wr.kind = .html)
    (gen : RowGen σ) (s₀ : σ) :
    let v := w.view wr.core
    let F := genFun (rowClassArgs v) (stepGen gen s₀ (rowClassArgs v)).1
    (w.renderTo x { wr with html := { wr.html with rowClass := some F } }).2.output =
      (htmlBytesSt wr.html gen s₀ v).1 := by
  intro v F
  obtain ⟨_, _, hout, _⟩ := e2ecb_html x w { wr with html := { wr.html with rowClass := some F } } hk
  rw [hout, bytesSt_eq]

/-! ### non-vacuity -/

namespace C06eExample
open E2EcbExample

/-- the hostile configuration of Props/C06.lean on the table built by `cbOps` (callbacks that set
    properties and fail; headers `a b`, rows `c d`, separator, `e`) -/
def wrH : Wrapper := { kind := .html, core := 0, html := c06ExCfg }

example := c06e_cell_decodes e2eX cbW wrH rfl
example := c06e_cell_at e2eX cbW wrH rfl
-- the texts of the built table, read back from the rendered bytes
example : (htmlReadRows (tokenize (cbW.renderTo e2eX wrH).2.output)).map (·.map htmlDecode) =
    [[[97], [98]], [[99], [100]], [[101]]] := by
  rw [(c06e_cell_decodes e2eX cbW wrH rfl).2.1]; decide +kernel
-- `c06e_cell_built`: source row 2 is row id 3, whose cell 0 holds `e`
example : ∃ ce, (cbW.rowCells 3)[0]? = some ce ∧ ce.str = [101] ∧
    ((htmlReadRows (tokenize (cbW.renderTo e2eX wrH).2.output))[2]?.bind (·[0]?)).map htmlDecode =
      some (nulToFFFD ce.str) := by
  obtain ⟨ce, hce, hs⟩ : ∃ ce, (cbW.rowCells 3)[0]? = some ce ∧ ce.str = [101] := by decide +kernel
  exact ⟨ce, hce, hs, c06e_cell_built e2eX cbW wrH rfl 0 (by decide +kernel) 2 3 (by decide +kernel) 0 ce hce⟩

-- the readers evaluated on the hostile view of Props/C06.lean, a NUL added to one header cell:
-- the NUL cell decodes to U+FFFD, every other cell to its text
def nulView : RTable :=
  { c06ExView with header := some [{ text := [97, 0, 60] }, { text := bytesOfString "&lt;" }] }

example : (htmlReadRows (skeleton c06ExCfg nulView)).map (·.map htmlDecode) =
    [[[97, 0xEF, 0xBF, 0xBD, 60], [38, 108, 116, 59]],
     [[60, 115, 99, 114, 105, 112, 116, 62], [], [97, 38, 97, 109, 112, 59, 43]], [], [[39, 113, 34]]] := by
  unfold skeleton rowToks cellToks textTok tableOpenTag trOpenTag attrBytes htmlEscape htmlEscByte
    nulView c06ExCfg c06ExView htmlReadRows
  simp only [bytesOfString_eq]
  decide +kernel
example : htmlReadCaption (skeleton c06ExCfg nulView) =
    some (bytesOfString "&lt;script&gt;x&lt;/script&gt;&amp;lt;") := by
  rw [readCaption_skeleton]
  unfold htmlEscape htmlEscByte c06ExCfg
  simp only [bytesOfString_eq]
  decide +kernel
example : tagAttrs (bytesOfString "<table class=\"a&lt;b id=\" id=\"t&#34;1\">") =
    [(attrClass, bytesOfString "a&lt;b id="), (attrId, bytesOfString "t&#34;1")] := by
  simp only [bytesOfString_eq]; decide +kernel
example : attrClass = bytesOfString "class" ∧ attrId = bytesOfString "id" := by
  simp only [bytesOfString_eq]; decide

-- `c06e_cell_decodes_exact`: every string supplied here is NUL-free
example := c06e_cell_decodes_exact e2eX cbW wrH rfl (by decide +kernel)
  (by unfold wrH c06ExCfg; simp only [bytesOfString_eq]; decide)
  (by unfold wrH c06ExCfg; simp only [bytesOfString_eq]; decide)
  (by unfold wrH c06ExCfg; simp only [bytesOfString_eq]; decide)
  (by
    intro f hf n hn
    have hargs : rowClassArgs (cbW.view wrH.core) = [0, 1, 3] := by decide +kernel
    rw [hargs] at hn
    have hf' : f = fun n => if n = 0 then bytesOfString "h\"><i>" else [114, 48 + n.toUInt8] :=
      (Option.some.inj hf).symm
    subst hf'
    simp only [List.mem_cons, List.not_mem_nil, or_false] at hn
    rcases hn with rfl | rfl | rfl <;> simp only [bytesOfString_eq] <;> decide)
-- … and `c06e_nul_gap` on a string that is not
example : ¬ NulFree [97, 0, 60] ∧ htmlDecode (htmlEscape [97, 0, 60]) ≠ [97, 0, 60] :=
  ⟨by decide, fun h => absurd ((c06e_nul_gap [97, 0, 60]).1.mp h) (by decide)⟩

-- a stateful generator: a flip-flop (the use case named in html.go's doc comment): the state is a
-- Bool, the argument is ignored; rows get `o`, `e`, `o` although their numbers are 0, 1, 3, 4
def flip : RowGen Bool := fun s _ => (if s then [101] else [111], !s)
example : stepGen flip false (rowClassArgs c06ExView) = ([[111], [101], [111], [101]], false) := by decide
example := c06e_rowclass_once c06ExCfg flip false c06ExView
example : (htmlBytesSt c06ExCfg (logGen flip) (false, []) c06ExView).2 = (false, [0, 1, 3, 4]) := by
  rw [(c06e_rowclass_once c06ExCfg flip false c06ExView).2.2.2.2.2]; decide
-- `c06e_rowclass_pure`: a generator that keeps its state
example : ∀ (s : Nat) (n : Nat), (fun s n => (([114, 48 + n.toUInt8] : Bytes), s)) s n =
    ((fun n => [114, 48 + n.toUInt8]) n, s) := fun _ _ => rfl

end C06eExample

end Tab
