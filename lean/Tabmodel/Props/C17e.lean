/-
  C17e — C17 clause 4/5 end to end: "A text table set to an unknown decoration name REPORTS THE ERROR
  and then REFUSES TO RENDER rather than falling back to a default."

  About `Wrapper.setDecorationNamed` (Model/Render.lean; mirror of `(*TextTable).SetDecorationNamed`,
  texttable/style.go): the wrapper's decoration becomes whatever `decoration.Named(n)` returns and the
  call returns an error exactly when that is `EmptyDecoration`; composed with `c17_fail_closed`
  (`RenderTo` of a text wrapper carrying the empty decoration) and with the history theorems
  `c17_named` / `c17_last_writer` (`regRun`, Props/C17.lean).

  Same atomicity assumption as Props/C17.lean: a registry history is a list of atomic operations.

  Remark (not a discrepancy; the Go code behaves the same): "unknown" means "resolves to the empty
  decoration".  A name that WAS registered, but with the zero `Decoration{}` as its value, is listed by
  `RegisteredDecorationNames` and is still reported as unknown by `SetDecorationNamed`, and the table
  still refuses to render (`c17e_registered_empty`).  So the exact characterisation of "an error is
  reported" is `reg.named n = emptyDecoration` (`c17e_set_named`), of which `n ∉ reg.names` is the
  sufficient condition of the clause (`c17e_unknown_reports_then_refuses`).
-/
import Tabmodel.Props.C17
namespace Tab
open Registry World

/-- `SetDecorationNamed(n)`: an error is returned iff the registry resolves `n` to the empty decoration
    (and then it is the `noDecoration` class, otherwise there is none); either way the wrapper's
    decoration is now what the registry returned, and nothing else of the wrapper changes. -/
theorem c17e_set_named (wr : Wrapper) (reg : Registry) (n : Bytes) :
    ((wr.setDecorationNamed reg n).2.isSome ↔ reg.named n = emptyDecoration) ∧
    (reg.named n = emptyDecoration → (wr.setDecorationNamed reg n).2 = some .noDecoration) ∧
    (reg.named n ≠ emptyDecoration → (wr.setDecorationNamed reg n).2 = none) ∧
    (wr.setDecorationNamed reg n).1.decor = reg.named n ∧
    (wr.setDecorationNamed reg n).1.kind = wr.kind ∧
    (wr.setDecorationNamed reg n).1.core = wr.core ∧
    (wr.setDecorationNamed reg n).1.html = wr.html := by
  unfold Wrapper.setDecorationNamed
  by_cases h : reg.named n = emptyDecoration
  · simp [h]
  · simp [h]

/-- The clause.  For a name that is not listed (`n ∉ reg.names`, i.e. never registered and not a
    built-in): the call reports an error, and every later `RenderTo` of that text table, on ANY world,
    returns the `noDecoration` error, writes no chunk, runs no callback (world unchanged), and
    `Render` returns the empty string with that error.  No default decoration is substituted:
    the wrapper carries `emptyDecoration`. -/
theorem c17e_unknown_reports_then_refuses (reg : Registry) (n : Bytes) (hn : n ∉ reg.names)
    (wr : Wrapper) (hk : wr.kind = .text) (x : Ext) (w : World) :
    (wr.setDecorationNamed reg n).2 = some .noDecoration ∧
    (wr.setDecorationNamed reg n).1.decor = emptyDecoration ∧
    (w.renderTo x (wr.setDecorationNamed reg n).1).2.res = .error (.err .noDecoration) ∧
    (w.renderTo x (wr.setDecorationNamed reg n).1).2.chunks = [] ∧
    (w.renderTo x (wr.setDecorationNamed reg n).1).1 = w ∧
    World.renderString (w.renderTo x (wr.setDecorationNamed reg n).1).2 = ([], some (.err .noDecoration)) := by
  obtain ⟨hempty, hrefuse, _⟩ := c17_fail_closed reg n x w
  have he : reg.named n = emptyDecoration := hempty hn
  obtain ⟨_, herr, _, hdec, hkind, _, _⟩ := c17e_set_named wr reg n
  have hd : (wr.setDecorationNamed reg n).1.decor = emptyDecoration := by rw [hdec, he]
  obtain ⟨h1, h2, h3, h4⟩ := hrefuse (wr.setDecorationNamed reg n).1 (by rw [hkind, hk]) hd
  exact ⟨herr he, hd, h1, h2, h3, h4⟩

/-- The same conclusion from the exact condition `reg.named n = emptyDecoration` (which also covers a
    name registered with the zero decoration as its value). -/
theorem c17e_empty_reports_then_refuses (reg : Registry) (n : Bytes) (he : reg.named n = emptyDecoration)
    (wr : Wrapper) (hk : wr.kind = .text) (x : Ext) (w : World) :
    (wr.setDecorationNamed reg n).2 = some .noDecoration ∧
    (w.renderTo x (wr.setDecorationNamed reg n).1).2.res = .error (.err .noDecoration) ∧
    (w.renderTo x (wr.setDecorationNamed reg n).1).2.chunks = [] ∧
    (w.renderTo x (wr.setDecorationNamed reg n).1).1 = w ∧
    World.renderString (w.renderTo x (wr.setDecorationNamed reg n).1).2 = ([], some (.err .noDecoration)) := by
  obtain ⟨_, hrefuse, _⟩ := c17_fail_closed reg n x w
  obtain ⟨_, herr, _, hdec, hkind, _, _⟩ := c17e_set_named wr reg n
  obtain ⟨h1, h2, h3, h4⟩ := hrefuse (wr.setDecorationNamed reg n).1 (by rw [hkind, hk]) (by rw [hdec, he])
  exact ⟨herr he, h1, h2, h3, h4⟩

/-- A name that resolves to a non-empty decoration: it is listed, no error is reported, and the text
    table then renders with EXACTLY that decoration (the callbacks pass runs, and what is emitted is
    `renderTextBody (reg.named n)` of the view after the pass): the refusal above is the only effect
    the name lookup has on rendering. -/
theorem c17e_known_ok (reg : Registry) (n : Bytes) (hne : reg.named n ≠ emptyDecoration)
    (wr : Wrapper) (hk : wr.kind = .text) (x : Ext) (w : World) :
    n ∈ reg.names ∧
    (wr.setDecorationNamed reg n).2 = none ∧
    (wr.setDecorationNamed reg n).1.decor = reg.named n ∧
    w.renderTo x (wr.setDecorationNamed reg n).1 =
      (invokeRenderCallbacks x.dw w wr.core,
       renderTextBody (reg.named n) ((invokeRenderCallbacks x.dw w wr.core).view wr.core)) := by
  obtain ⟨_, _, hok, hdec, hkind, hcore, _⟩ := c17e_set_named wr reg n
  refine ⟨?_, hok hne, hdec, ?_⟩
  · rw [mem_names]
    exact List.mem_map_of_mem (f := Prod.fst) (mem_of_named_ne_empty hne)
  · unfold World.renderTo
    rw [hkind, hk]
    simp only [hdec, if_neg hne, hcore]

/-! ### history form: after any sequence of registry operations -/

/-- After ANY history of registry operations (any interleaving so far) whose LAST registration of `n`
    stored `d`: `SetDecorationNamed(n)` installs `d`; it reports an error iff `d` is the empty
    decoration; when `d` is not empty the table renders with `d`, when it is, the table refuses. -/
theorem c17e_history_last (r₀ : Registry) (pre post : List RegOp) (n : Bytes) (d : Decoration)
    (hpost : ∀ d', RegOp.register n d' ∉ post) (wr : Wrapper) (hk : wr.kind = .text) (x : Ext) (w : World) :
    let reg := regRun r₀ (pre ++ RegOp.register n d :: post)
    (wr.setDecorationNamed reg n).1.decor = d ∧
    ((wr.setDecorationNamed reg n).2.isSome ↔ d = emptyDecoration) ∧
    (d ≠ emptyDecoration →
      (wr.setDecorationNamed reg n).2 = none ∧
      w.renderTo x (wr.setDecorationNamed reg n).1 =
        (invokeRenderCallbacks x.dw w wr.core,
         renderTextBody d ((invokeRenderCallbacks x.dw w wr.core).view wr.core))) ∧
    (d = emptyDecoration →
      (wr.setDecorationNamed reg n).2 = some .noDecoration ∧
      World.renderString (w.renderTo x (wr.setDecorationNamed reg n).1).2 = ([], some (.err .noDecoration))) := by
  intro reg
  have hnamed : reg.named n = d := (c17_named r₀ _ n).2.2.2.1 pre d post rfl hpost
  obtain ⟨hiff, _, _, hdec, _⟩ := c17e_set_named wr reg n
  refine ⟨by rw [hdec, hnamed], by rw [hiff, hnamed], fun hne => ?_, fun he => ?_⟩
  · obtain ⟨_, h1, _, h2⟩ := c17e_known_ok reg n (by rw [hnamed]; exact hne) wr hk x w
    rw [hnamed] at h2
    exact ⟨h1, h2⟩
  · obtain ⟨h1, _, _, _, h2⟩ := c17e_empty_reports_then_refuses reg n (by rw [hnamed, he]) wr hk x w
    exact ⟨h1, h2⟩

/-- `c17_last_writer` composed: two registrations of the same name in a row, in either order — the
    later value is what `SetDecorationNamed` installs, without error when it is not the empty
    decoration, whatever the earlier value was (in particular an earlier EMPTY registration does not
    poison the name, and a later empty one does un-register it as far as rendering goes). -/
theorem c17e_last_writer (r₀ : Registry) (pre : List RegOp) (n : Bytes) (d₁ d₂ : Decoration)
    (wr : Wrapper) :
    (wr.setDecorationNamed (regRun r₀ (pre ++ [.register n d₁, .register n d₂])) n).1.decor = d₂ ∧
    (wr.setDecorationNamed (regRun r₀ (pre ++ [.register n d₂, .register n d₁])) n).1.decor = d₁ ∧
    (d₂ ≠ emptyDecoration →
      (wr.setDecorationNamed (regRun r₀ (pre ++ [.register n d₁, .register n d₂])) n).2 = none) ∧
    (d₂ = emptyDecoration →
      (wr.setDecorationNamed (regRun r₀ (pre ++ [.register n d₁, .register n d₂])) n).2 = some .noDecoration) ∧
    wr.setDecorationNamed (regRun r₀ (pre ++ [.register n d₁, .register n d₂])) n =
      wr.setDecorationNamed (regRun r₀ (pre ++ [.register n d₂])) n := by
  obtain ⟨hreg, _, h12, h21⟩ := c17_last_writer r₀ pre n d₁ d₂
  obtain ⟨_, he, hne, hdec, _⟩ := c17e_set_named wr (regRun r₀ (pre ++ [.register n d₁, .register n d₂])) n
  obtain ⟨_, _, _, hdec', _⟩ := c17e_set_named wr (regRun r₀ (pre ++ [.register n d₂, .register n d₁])) n
  refine ⟨by rw [hdec, h12], by rw [hdec', h21], fun h => hne (by rw [h12]; exact h),
    fun h => he (by rw [h12, h]), by rw [hreg]⟩

/-- A name never registered in the history and not among the initial (built-in) names: after any
    history the call reports the error and the table refuses to render. -/
theorem c17e_history_unknown (r₀ : Registry) (hist : List RegOp) (n : Bytes)
    (hnever : ∀ d, RegOp.register n d ∉ hist) (h₀ : n ∉ r₀.map Prod.fst)
    (wr : Wrapper) (hk : wr.kind = .text) (x : Ext) (w : World) :
    let reg := regRun r₀ hist
    (wr.setDecorationNamed reg n).2 = some .noDecoration ∧
    (w.renderTo x (wr.setDecorationNamed reg n).1).2.res = .error (.err .noDecoration) ∧
    (w.renderTo x (wr.setDecorationNamed reg n).1).2.chunks = [] ∧
    (w.renderTo x (wr.setDecorationNamed reg n).1).1 = w ∧
    World.renderString (w.renderTo x (wr.setDecorationNamed reg n).1).2 = ([], some (.err .noDecoration)) := by
  intro reg
  exact c17e_empty_reports_then_refuses reg n ((c17_named r₀ hist n).2.2.2.2.2.2 hnever h₀) wr hk x w

/-- The quirk behind the exact condition: registering the zero decoration under a name makes the name
    LISTED, yet `SetDecorationNamed` still says "unknown" and the table still refuses to render. -/
theorem c17e_registered_empty (r : Registry) (n : Bytes) (wr : Wrapper) (hk : wr.kind = .text)
    (x : Ext) (w : World) :
    n ∈ (r.register n emptyDecoration).names ∧
    (wr.setDecorationNamed (r.register n emptyDecoration) n).2 = some .noDecoration ∧
    World.renderString (w.renderTo x (wr.setDecorationNamed (r.register n emptyDecoration) n).1).2 =
      ([], some (.err .noDecoration)) := by
  obtain ⟨h1, _, _, _, h2⟩ := c17e_empty_reports_then_refuses (r.register n emptyDecoration) n
    (named_register_self r n emptyDecoration) wr hk x w
  refine ⟨?_, h1, h2⟩
  rw [mem_names, mem_keys_register]; exact Or.inl rfl

/-! ### non-vacuity (the small registry `c17Ex0` of Props/C17.lean: `b ↦ c17ExD 1`, `a ↦ c17ExD 2`) -/

def c17eWr : Wrapper := { kind := .text, core := 0 }

-- `c17e_set_named`, both sides of the iff, evaluated
example : (c17eWr.setDecorationNamed c17Ex0 [122]).2 = some .noDecoration := by decide
example : (c17eWr.setDecorationNamed c17Ex0 [97]).2 = none ∧
    (c17eWr.setDecorationNamed c17Ex0 [97]).1.decor = c17ExD 2 := by decide
-- `c17e_unknown_reports_then_refuses`: an unlisted name, a text wrapper
example : ([122] : Bytes) ∉ c17Ex0.names ∧ c17eWr.kind = .text := by decide
example (x : Ext) (w : World) := c17e_unknown_reports_then_refuses c17Ex0 [122] (by decide) c17eWr rfl x w
-- `c17e_known_ok`: a name resolving to a non-empty decoration
example : c17Ex0.named [97] ≠ emptyDecoration := by decide
example (x : Ext) (w : World) := c17e_known_ok c17Ex0 [97] (by decide) c17eWr rfl x w
-- `c17e_history_last`: a history whose last registration of `c` is `c17ExD 4` (non-empty), then a lookup
example : (∀ d', RegOp.register [99] d' ∉ [RegOp.named [99]]) ∧ c17ExD 4 ≠ emptyDecoration :=
  ⟨by intro d' h; simp at h, by decide⟩
example (x : Ext) (w : World) :=
  (c17e_history_last c17Ex0 [.register [99] (c17ExD 3), .names] [.named [99]] [99] (c17ExD 4)
    (by intro d' h; simp at h) c17eWr rfl x w).2.2.1 (by decide)
example : (c17eWr.setDecorationNamed
    (regRun c17Ex0 [.register [99] (c17ExD 3), .names, .register [99] (c17ExD 4), .named [99]]) [99]).2 = none ∧
    (c17eWr.setDecorationNamed
    (regRun c17Ex0 [.register [99] (c17ExD 3), .names, .register [99] (c17ExD 4), .named [99]]) [99]).1.decor =
      c17ExD 4 := by decide
-- … and one whose last registration of `c` is the empty decoration
example : (c17eWr.setDecorationNamed
    (regRun c17Ex0 [.register [99] (c17ExD 3), .register [99] emptyDecoration]) [99]).2 = some .noDecoration := by
  decide
-- `c17e_history_unknown`: `z` is neither a built-in nor registered
example : (∀ d, RegOp.register [122] d ∉ [RegOp.register [99] (c17ExD 3)]) ∧ [122] ∉ c17Ex0.map Prod.fst :=
  ⟨by intro d h; simp at h, by decide⟩

end Tab
