/-
  C12 — Properties behave as an independent key-to-value map for each owner.
  A chain is the list of (key, value) links, newest first; keys are (dynamic type, value) pairs
  numbered by the harness, so "distinguished by type as well as value" is equality of `Key`.
-/
import Tabmodel.Model.World
import Tabmodel.Proofs.Chain
namespace Tab
open Chain

/-- a get returns the value most recently set for that key: right after the set … -/
theorem c12_get_set_same (c : Chain) (k : Key) (v : Val) : (c.set k (some v)).get k = some v := by
  simp [Chain.set]

/-- … and setting nil removes it (the owner keeps at most one link per key) -/
theorem c12_get_set_nil (c : Chain) (k : Key) (h : c.keys.Nodup) : (c.set k none).get k = none :=
  get_eq_none_of_not_mem _ _ (not_mem_strip c k h)

/-- a set on one key never changes what another key reports (keys differing in type or value) -/
theorem c12_get_set_other (c : Chain) (k k' : Key) (v : Option Val) (h : k' ≠ k) :
    (c.set k v).get k' = c.get k' := by
  cases v with
  | none => exact get_strip_of_ne c h
  | some v => simp [Chain.set, Ne.symm h, get_strip_of_ne c h]

/-- the one-link-per-key invariant is preserved by every set, so it holds after any history -/
theorem c12_nodup_set (c : Chain) (k : Key) (v : Option Val) (h : c.keys.Nodup) : (c.set k v).keys.Nodup := by
  cases v with
  | none => exact nodup_strip c k h
  | some v =>
    simp only [Chain.set, keys, List.map_cons, List.nodup_cons]
    exact ⟨not_mem_strip c k h, nodup_strip c k h⟩

theorem c12_nodup_history (ops : List (Key × Option Val)) :
    (Chain.keys (ops.foldl (fun (c : Chain) (p : Key × Option Val) => Chain.set c p.1 p.2) ([] : Chain))).Nodup := by
  suffices ∀ c : Chain, c.keys.Nodup → (Chain.keys (ops.foldl (fun (c : Chain) (p : Key × Option Val) => Chain.set c p.1 p.2) c)).Nodup from
    this [] (by simp [keys])
  induction ops with
  | nil => intro c h; exact h
  | cons p ops ih => intro c h; exact ih _ (c12_nodup_set c p.1 p.2 h)

/-- refinement to a finite map: after any history of sets (and sets-to-nil) from the empty chain,
    a get returns the value of the LAST operation on that key, or nil if there was none or it was nil -/
def lastSet (ops : List (Key × Option Val)) (k : Key) : Option Val :=
  match (ops.reverse.find? (fun p => p.1 = k)) with
  | some p => p.2
  | none => none

theorem c12_refine (ops : List (Key × Option Val)) (k : Key) :
    Chain.get (ops.foldl (fun (c : Chain) (p : Key × Option Val) => Chain.set c p.1 p.2) ([] : Chain)) k = lastSet ops k := by
  suffices ∀ (c : Chain), c.keys.Nodup →
      Chain.get (ops.foldl (fun (c : Chain) (p : Key × Option Val) => Chain.set c p.1 p.2) c) k =
        (match (ops.reverse.find? (fun p => p.1 = k)) with
         | some p => p.2
         | none => c.get k) by
    have := this [] (by simp [keys])
    simpa [lastSet] using this
  induction ops with
  | nil => intro c _; simp
  | cons p ops ih =>
    intro c hc
    simp only [List.foldl_cons]
    rw [ih _ (c12_nodup_set c p.1 p.2 hc)]
    simp only [List.reverse_cons, List.find?_append]
    cases hf : ops.reverse.find? (fun q => q.1 = k) with
    | some q => simp
    | none =>
      simp only [Option.none_or, List.find?_cons, List.find?_nil]
      by_cases hk : p.1 = k
      · simp only [hk, decide_true]
        subst hk
        cases hv : p.2 with
        | none => simpa [hv] using c12_get_set_nil c p.1 hc
        | some v => simpa [hv] using c12_get_set_same c p.1 v
      · simp only [hk, decide_false]
        exact c12_get_set_other c p.1 k p.2 (Ne.symm hk)

/-- setting the same key repeatedly does not grow the owner's stored state: a set adds a link only
    for a key not yet present, and the chain never holds more links than live keys -/
theorem c12_bounded (c : Chain) (k : Key) (v : Option Val) :
    (c.set k v).length ≤ c.length + 1 ∧ (k ∈ c.keys → (c.set k v).length ≤ c.length) := by
  cases v with
  | none =>
    exact ⟨Nat.le_succ_of_le (length_strip_le c k), fun _ => length_strip_le c k⟩
  | some v =>
    simp only [Chain.set, List.length_cons]
    exact ⟨by have := length_strip_le c k; omega, fun h => by have := length_strip_of_mem c k h; omega⟩

theorem c12_length_eq_keys (c : Chain) : c.length = c.keys.length := by simp [keys]

/-! ### owners are independent -/

/-- a by-value copy of a cell is a different owner: setting a property on the copy leaves the
    original (every cell of every row) untouched, and vice versa -/
theorem c12_copy_frame (w : World) (n : Nat) (k : Key) (v : Option Val) (r c : Nat) (k' : Key) :
    (w.setProp (.copy n) k v).getProp (.cell r c) k' = w.getProp (.cell r c) k' := rfl

theorem c12_copy_frame_rev (w : World) (n : Nat) (k : Key) (v : Option Val) (r c : Nat) (k' : Key) :
    (w.setProp (.cell r c) k v).getProp (.copy n) k' = w.getProp (.copy n) k' := by
  simp [World.setProp, World.getProp, World.modCell, World.modRow]

/-- table, column, row and cell owners live in different stores: a set on a table or a column
    never changes what a row or cell reports, and vice versa -/
theorem c12_frame_table_row (w : World) (t : Nat) (k : Key) (v : Option Val) (o : Target) (k' : Key)
    (ho : (∃ r, o = .row r) ∨ (∃ r c, o = .cell r c) ∨ (∃ n, o = .copy n)) :
    (w.setProp (.table t) k v).getProp o k' = w.getProp o k' := by
  rcases ho with ⟨r, rfl⟩ | ⟨r, c, rfl⟩ | ⟨n, rfl⟩ <;> rfl

theorem c12_frame_column_row (w : World) (t n : Nat) (k : Key) (v : Option Val) (o : Target) (k' : Key)
    (ho : (∃ r, o = .row r) ∨ (∃ r c, o = .cell r c) ∨ (∃ n, o = .copy n)) :
    (w.setProp (.column t n) k v).getProp o k' = w.getProp o k' := by
  rcases ho with ⟨r, rfl⟩ | ⟨r, c, rfl⟩ | ⟨m, rfl⟩ <;> rfl

theorem c12_frame_row_table (w : World) (r : Nat) (k : Key) (v : Option Val) (o : Target) (k' : Key)
    (ho : (∃ t, o = .table t) ∨ (∃ t n, o = .column t n) ∨ (∃ n, o = .copy n)) :
    (w.setProp (.row r) k v).getProp o k' = w.getProp o k' := by
  rcases ho with ⟨t, rfl⟩ | ⟨t, n, rfl⟩ | ⟨n, rfl⟩ <;> rfl

/-- two different columns of a table (including the defaults column 0) are independent -/
theorem c12_frame_columns (w : World) (t n m : Nat) (k k' : Key) (v : Option Val) (h : n ≠ m) :
    (w.setProp (.column t n) k v).getProp (.column t m) k' = w.getProp (.column t m) k' := by
  simp only [World.setProp, World.getProp, World.column?, World.modColumn, World.modTable, World.table]
  by_cases ht : t < w.tables.length
  · simp [List.getD_eq_getElem?_getD, List.getElem?_modify, ht, Ne.symm h, h]
  · have : w.tables.modify t (fun tb => { tb with columns := tb.columns.modify n fun c => { c with props := c.props.set k v } }) = w.tables := by
      apply List.ext_getElem?
      intro i
      rw [List.getElem?_modify]
      by_cases hi : t = i
      · subst hi; simp [List.getElem?_eq_none (Nat.le_of_not_lt ht)]
      · simp [hi]
    rw [this]

/-- on the owner itself the world-level get/set is the chain's -/
theorem c12_owner_table (w : World) (t : Nat) (ht : t < w.tables.length) (k : Key) (v : Option Val) (k' : Key) :
    (w.setProp (.table t) k v).getProp (.table t) k' = ((w.table t).props.set k v).get k' := by
  simp [World.setProp, World.getProp, World.modTable, World.table, List.getD_eq_getElem?_getD,
    List.getElem?_modify, ht]

/-- a column handle is (table, n): growing the table appends columns and never moves or copies the
    existing ones, so a handle obtained earlier keeps addressing the same column -/
theorem c12_handle (tb : Table) (m n : Nat) (hn : n < tb.columns.length) :
    (World.resizeColumnsAtLeast tb m).columns[n]? = tb.columns[n]? := by
  unfold World.resizeColumnsAtLeast
  split
  · rfl
  · simp [List.getElem?_append_left hn]

/- non-vacuity -/
example : (Chain.keys (Chain.set [] (.user 1) (some (.user 7)))).Nodup := by decide
example : (Chain.set (Chain.set [] (.user 1) (some (.user 7))) (.user 1) (some (.user 8))).length = 1 := by decide
example : lastSet [(.user 1, some (.user 7)), (.user 2, some (.user 9)), (.user 1, none)] (.user 1) = none := by decide
example : lastSet [(.user 1, some (.user 7)), (.user 2, some (.user 9)), (.user 1, none)] (.user 2) = some (.user 9) := by decide

end Tab
