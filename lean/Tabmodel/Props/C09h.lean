/-
  C09h — C09 ("every renderer is total") with hypotheses on the BUILD HISTORY and the decoration only.

  `c09_total` / `e2e_no_panic_any_history` carry `AlignOK` of the view AFTER the callbacks pass of the
  very render in question — a hypothesis about a world the caller never sees.  It is necessary
  (`c08_panic_bad_align`, `c04_eff_align_bad`: an alignment value outside {unset, left, right, centre}
  makes markdown / texttable panic), but nothing connected it to what the user did.  Here:

  * `AlignValuesOK ops` (Proofs/C09hAlign.lean, decidable): every value the history sets under `align`
    DIRECTLY on a column record (`setProp (.column t n) .align v`, `n = 0`: the defaults column), and
    every value carried by a `.setProp _ .align v` CALLBACK the history registers anywhere (on tables,
    columns, rows, cells, at any time; or riding on a ready-made cell value), is unset or one of the
    three alignments.  `align` values set on tables, rows, cells, copies are unrestricted.
  * `CellsOk ops` (Proofs/C12hDefs.lean): ready-made cell values hold one link per key (always true of
    values the Go API produces).

  `c09h_alignok`: then `AlignOK` holds of the post-pass view of every table — because (last writer,
  `irc_colGet` / `get_foldl_applyChain`) the value read is either the one the column had before the
  pass or the one the last of the column's own `align`-writing callbacks wrote, and (`C09h.colsOK_run`)
  along the history a column record's `align` only ever receives a value from a direct set on it or
  from a callback invocation.  No writer table, no unique ids, arbitrary other callbacks.
  `c09h_no_panic`: the capstone.  No `Valid` is needed for `c09h_alignok`; `c09h_no_panic` needs it for
  the shape of the view (`c02_inv_run`).  The table id is arbitrary (a missing table renders as the
  empty table: refused or empty, never a panic).

  Import note: this module is on the `Props/C12h.lean` side of the `PState` clash (`Proofs/C12hDefs.lean`
  vs `Spec/Json.lean`), so it cannot import `Props/C09.lean` (which imports `Props/C07.lean`).  The
  renderer-totality half is therefore re-assembled in `Proofs/C09hTotal.lean` from `c05_no_panic`,
  `c08_no_panic`, `renderTextBody_no_panic` and a direct proof that `renderJson` never panics
  (`Proofs/C09hJson.lean`); `DecorTotalH` below is, literally, `DecorTotal` of `Props/C09.lean`.
-/
import Tabmodel.Proofs.C09hAlign
import Tabmodel.Proofs.C09hTotal
namespace Tab
open World C09h

/-- `DecorTotal` of Props/C09.lean (same definition; that file cannot be imported here): the body
    dividers of the decoration are all present or all absent. -/
def DecorTotalH (d : Decoration) : Prop := DivsOK d.vBodyBorder d.vBodyInner d.vBodyBorder

/-- The alignment hypothesis of C09, from the history alone: after any history of well-formed cell
    values whose alignment values are within the domain, the view ANY renderer reads after its callbacks
    pass over ANY table has every column alignment unset or left / right / centre — whatever callbacks
    run during that pass. -/
theorem c09h_alignok (dw : Measure) (ops : List BuildOp) (hc : CellsOk ops) (ha : AlignValuesOK ops) (t : Nat) :
    AlignOK ((invokeRenderCallbacks dw (run dw ops) t).view t) := by
  obtain ⟨hw, hn, hco⟩ := colsOK_run dw ops hc ha
  exact alignOK_post dw hw hn hco t

/-- The invariant behind it, for use after further operations: every `align`-writing callback of the
    built world carries a value within the domain, and every column record reads one. -/
theorem c09h_align_invariant (dw : Measure) (ops : List BuildOp) (hc : CellsOk ops) (ha : AlignValuesOK ops) :
    (∀ s tm, ∀ cb ∈ (run dw ops).cbsAt s tm, cb.alignOK = true) ∧
    (∀ t n, alignInDomain ((run dw ops).getProp (.column t n) .align) = true) :=
  ⟨(colsOK_run dw ops hc ha).1, (colsOK_run dw ops hc ha).2.2⟩

/-- C09 with hypotheses on the history and the decoration only: for every valid build history of
    well-formed cell values whose alignment values are within the domain, every wrapper kind, every
    table id and — for a text wrapper — every decoration whose body dividers are all present or all
    absent, the outcome of `RenderTo` is never a panic, whatever callbacks are registered. -/
theorem c09h_no_panic (x : Ext) (ops : List BuildOp) (hv : Valid ops = true) (hc : CellsOk ops)
    (ha : AlignValuesOK ops) (wr : Wrapper) (hd : wr.kind = .text → DecorTotalH wr.decor) :
    ∀ site, ((run x.dw ops).renderTo x wr).2.res ≠ .error (.panic site) :=
  total_inv x (run x.dw ops) (c02_inv_run x.dw ops hv) wr (c09h_alignok x.dw ops hc ha wr.core) hd

/-- ... with the decoration hypothesis discharged for every built-in decoration, every
    `Populate`-completed decoration and the empty one (which is refused). -/
theorem c09h_no_panic_decor (x : Ext) (ops : List BuildOp) (hv : Valid ops = true) (hc : CellsOk ops)
    (ha : AlignValuesOK ops) (wr : Wrapper)
    (hd : wr.kind = .text → (∃ p ∈ Generated.builtins, wr.decor = p.2) ∨ (∃ d : Decoration, wr.decor = d.populate)
      ∨ wr.decor = emptyDecoration) :
    ∀ site, ((run x.dw ops).renderTo x wr).2.res ≠ .error (.panic site) := by
  refine c09h_no_panic x ops hv hc ha wr (fun hk => ?_)
  rcases hd hk with ⟨p, hp, e⟩ | ⟨d, e⟩ | e
  · rw [e]; exact (divsOKb_sound p.2 (builtins_divsOK p hp)).2
  · rw [e]; exact (divsOK_populate d).2
  · rw [e]; exact Or.inr ⟨rfl, rfl, rfl⟩

/-- `Render()` on such a table: either the complete text and no error, or the empty string and an error
    that is not a panic. -/
theorem c09h_render_empty_on_error (x : Ext) (ops : List BuildOp) (hv : Valid ops = true) (hc : CellsOk ops)
    (ha : AlignValuesOK ops) (wr : Wrapper) (hd : wr.kind = .text → DecorTotalH wr.decor) :
    let m := ((run x.dw ops).renderTo x wr).2
    (m.res = .ok () ∧ renderString m = (m.output, none)) ∨
    (∃ e, m.res = .error (.err e) ∧ renderString m = ([], some (.err e))) := by
  intro m
  have hnp := c09h_no_panic x ops hv hc ha wr hd
  unfold renderString
  cases hm : m.res with
  | ok u => exact Or.inl ⟨rfl, rfl⟩
  | error s =>
    cases s with
    | err e => exact Or.inr ⟨e, rfl, rfl⟩
    | panic site => exact absurd hm (hnp site)

/-! ### non-vacuity -/

namespace C09hExample

def item (b : UInt8) : Item :=
  { kind := .str [b], mString := none, mGoString := none, mError := none, fmtV := [b],
    mHeight := none, mWidth := none, json := some [34, b, 34] }

/-- items `a` … `e`; table 0 with, on its cells, a callback setting user key 7 (2) and one setting
    `align` on the CELLS (10); a failing
    callback on the table (3); header `a b`, row `c d`, separator, ragged row `e`; column 1 right-aligned
    by the history; an out-of-domain `align` value set on ROW 1 (unrestricted: no renderer reads it); column 1's own pre-time callback (4) centres it; column 2's own callbacks set `align`
    right (5) and remove it again (6); then wrapped as text and as markdown. -/
def ops : List BuildOp :=
  [ .setItems [item 97, item 98, item 99, item 100, item 101],
    .newTable,
    .regCb (.table 0) .render .cell (.setProp 2 (.user 7) (some (.user 70))),
    .regCb (.table 0) .post .cell (.setProp 10 .align (some (.align 1))),
    .regCb (.table 0) .pre .itself (.fail 3 55),
    .addHeaders 0 [0, 1], .addRowItems 0 [2, 3], .addSeparator 0,
    .newRow, .rowAdd 3 4, .addRow 0 3,
    .setProp (.column 0 1) .align (some (.align 2)),
    .setProp (.row 1) .align (some (.user 4)),
    .regCb (.column 0 1) .pre .itself (.setProp 4 .align (some (.align 3))),
    .regCb (.column 0 2) .pre .itself (.setProp 5 .align (some (.align 2))),
    .regCb (.column 0 2) .post .itself (.setProp 6 .align none) ] ++
  wrapOps .text 0 ++ wrapOps .markdown 0

def x : Ext := ⟨List.length, fun s => [34] ++ s ++ [34]⟩

theorem c09h_ex_valid : Valid ops = true := by decide +kernel
theorem c09h_ex_cells : CellsOk ops := by decide +kernel
theorem c09h_ex_align : AlignValuesOK ops := by decide +kernel

example := c09h_alignok x.dw ops c09h_ex_cells c09h_ex_align 0
example := c09h_align_invariant x.dw ops c09h_ex_cells c09h_ex_align
-- the alignments the markdown renderer reads: defaults unset, column 1 centred DURING the pass
example : ((invokeRenderCallbacks x.dw (run x.dw ops) 0).view 0).colAlign = [none, some (.align 3), none] := by
  decide +kernel
example := c09h_no_panic x ops c09h_ex_valid c09h_ex_cells c09h_ex_align { kind := .markdown, core := 0 } (fun h => by cases h)
example := c09h_no_panic_decor x ops c09h_ex_valid c09h_ex_cells c09h_ex_align { kind := .text, core := 0, decor := Generated.heavy }
  (fun _ => Or.inl ⟨([117, 116, 102, 56, 45, 104, 101, 97, 118, 121], Generated.heavy), by decide, rfl⟩)
example := c09h_no_panic_decor x ops c09h_ex_valid c09h_ex_cells c09h_ex_align { kind := .text, core := 0, decor := ({} : Decoration).populate }
  (fun _ => Or.inr (Or.inl ⟨_, rfl⟩))
example := c09h_render_empty_on_error x ops c09h_ex_valid c09h_ex_cells c09h_ex_align { kind := .json, core := 0 } (fun h => by cases h)
example : (match ((run x.dw ops).renderTo x { kind := .markdown, core := 0 }).2.res with
    | .ok _ => true | .error _ => false) = true := by decide +kernel

/-- `AlignValuesOK` is needed, in both of its parts: one value that is not an alignment set directly on
    a column, or written by a column's own callback during the pass, and the markdown renderer panics
    (the Go type assertion).  An alignment outside left / right / centre (`alignSimple{7}`) is tolerated
    by markdown but makes texttable panic ("unhandled alignment"): `bad3`.  So the domain
    `{unset, 1, 2, 3}` — that of `AlignOK` — is the right one for "every renderer". -/
def bad1 : List BuildOp :=
  [ .setItems [item 97], .newTable, .addHeaders 0 [0], .addRowItems 0 [0],
    .setProp (.column 0 1) .align (some (.bool true)) ] ++ wrapOps .markdown 0
def bad2 : List BuildOp :=
  [ .setItems [item 97], .newTable, .addHeaders 0 [0], .addRowItems 0 [0],
    .regCb (.column 0 1) .post .itself (.setProp 4 .align (some (.user 1))) ] ++ wrapOps .markdown 0
example : Valid bad1 = true ∧ CellsOk bad1 ∧ ¬ AlignValuesOK bad1 ∧
    (match ((run x.dw bad1).renderTo x { kind := .markdown, core := 0 }).2.res with
     | .error (.panic _) => true | _ => false) = true := by decide +kernel
def bad3 : List BuildOp :=
  [ .setItems [item 97], .newTable, .addHeaders 0 [0], .addRowItems 0 [0],
    .setProp (.column 0 0) .align (some (.align 7)) ] ++ wrapOps .text 0
example : Valid bad3 = true ∧ CellsOk bad3 ∧ ¬ AlignValuesOK bad3 ∧
    (match ((run x.dw bad3).renderTo x { kind := .text, core := 0, decor := Generated.heavy }).2.res with
     | .error (.panic _) => true | _ => false) = true := by decide +kernel
example : Valid bad2 = true ∧ CellsOk bad2 ∧ ¬ AlignValuesOK bad2 ∧
    (match ((run x.dw bad2).renderTo x { kind := .markdown, core := 0 }).2.res with
     | .error (.panic _) => true | _ => false) = true := by decide +kernel

end C09hExample

end Tab
