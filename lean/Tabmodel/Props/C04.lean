/-
  C04 — Text table shows every cell line in its own slot, aligned as the column asks.

  Spec-side definitions (`slotD`, `padSplit`, `cellLineWS`, `rowSlots`, `effAlign`, `CellOK`, …)
  are in `Tabmodel/Spec/Text.lean`.  A slot's width is the segment sum
  `lp + ws.w + rp` (`ws.w` = the width the line is laid out with), never `dw` of a concatenation.
-/
import Tabmodel.Proofs.TextExample
namespace Tab
open Emit World

/-! ### the slot -/

/-- For `0 ≤ ws.w ≤ cw` and alignment `al ∈ {0,1,2,3}` (0 = unset) the slot is
    `spaces lp ++ ws.s ++ spaces rp` — text unmodified, padded only with spaces — with
    `(lp, rp) = (0, p)` for unset/left, `(p, 0)` for right, `(p/2, p − p/2)` for centre, `p = cw − ws.w`;
    the slot's segment width `lp + ws.w + rp` is exactly `cw`; the odd space of centre goes right. -/
theorem c04_slot (ws : WidthString) (cw al : Nat) (hw : 0 ≤ ws.w) (hfit : ws.w ≤ cw) (hal : al ≤ 3) :
    ∃ lp rp, withinWidthAligned ws cw al = .ok (spaces lp ++ ws.s ++ spaces rp) ∧
      (al = 0 ∨ al = 1 → lp = 0 ∧ rp = cw - ws.w.toNat) ∧
      (al = 2 → lp = cw - ws.w.toNat ∧ rp = 0) ∧
      (al = 3 → lp = (cw - ws.w.toNat) / 2 ∧ rp = (cw - ws.w.toNat) - (cw - ws.w.toNat) / 2 ∧
                lp ≤ rp ∧ rp ≤ lp + 1) ∧
      lp + ws.w.toNat + rp = cw ∧
      lp = (slotD ws cw al).lp ∧ rp = (slotD ws cw al).rp := by
  refine ⟨(padSplit al (slotPad ws cw)).1, (padSplit al (slotPad ws cw)).2,
    withinWidthAligned_eq ws cw al hw hal, ?_, ?_, ?_, slotD_width ws cw al hw hfit, rfl, rfl⟩
  · have hp : slotPad ws cw = cw - ws.w.toNat := by unfold slotPad; omega
    rintro (rfl | rfl) <;> simp [padSplit, hp]
  · have hp : slotPad ws cw = cw - ws.w.toNat := by unfold slotPad; omega
    rintro rfl; simp [padSplit, hp]
  · have hp : slotPad ws cw = cw - ws.w.toNat := by unfold slotPad; omega
    rintro rfl
    simp only [padSplit, hp]
    refine ⟨by simp, by simp, ?_, ?_⟩ <;> simp <;> omega

/-- The other branches, covered explicitly: a line wider than the column is written unmodified with
    no padding (never truncated); a negative width yields blanks; an alignment value outside
    {unset, left, right, centre} is a panic. -/
theorem c04_slot_other (ws : WidthString) (cw al : Nat) :
    (0 ≤ ws.w → (cw : Int) ≤ ws.w → al ≤ 3 → withinWidthAligned ws cw al = .ok ws.s) ∧
    (ws.w < 0 → withinWidthAligned ws cw al = .ok (spaces cw)) ∧
    (0 ≤ ws.w → 4 ≤ al → withinWidthAligned ws cw al = .error (.panic "unhandled alignment")) := by
  refine ⟨?_, ?_, ?_⟩
  · intro h0 h1 h2
    rw [withinWidthAligned_eq ws cw al h0 h2]
    have hp : slotPad ws cw = 0 := by unfold slotPad; omega
    unfold slotB padSplit
    rw [hp]
    split
    · simp [spaces]
    · split <;> simp [spaces]
  · intro h; unfold withinWidthAligned; simp [h]
  · intro h0 h4
    unfold withinWidthAligned
    have : ¬ ws.w < 0 := by omega
    have h0' : ¬ al = 0 := by omega
    have h1 : ¬ al = 1 := by omega
    have h2 : ¬ al = 2 := by omega
    have h3 : ¬ al = 3 := by omega
    simp [this, h0', h1, h2, h3]

/-- A missing cell (row shorter than the column index) or a missing line (cell shorter than the
    row) yields the blank entry, whose slot is `cw` spaces under every alignment. -/
theorem c04_blank (cells : List RCell) (i k cw al : Nat) (hal : al ≤ 3)
    (hmiss : cells[i]? = none ∨ ∃ c, cells[i]? = some c ∧ c.lws.length ≤ k) :
    cellLineWS cells i k = blankWS ∧
    withinWidthAligned (cellLineWS cells i k) cw al = .ok (spaces cw) ∧
    (slotD (cellLineWS cells i k) cw al).bytes = spaces cw := by
  have hb : cellLineWS cells i k = blankWS := by
    unfold cellLineWS
    rcases hmiss with h | ⟨c, h, hk⟩
    · rw [h]
    · rw [h]
      simp only [List.getD_eq_getElem?_getD]
      have : c.lws[k]? = none := by simp; omega
      rw [this]; rfl
  rw [hb]
  exact ⟨rfl, by rw [withinWidthAligned_eq blankWS cw al (by simp [blankWS]) hal, slotB_blank],
    by rw [slotD_bytes, slotB_blank]⟩

/-! ### effective alignment -/

/-- The alignment list the renderer computes is, for each column `i < ncols`, the column's own
    setting (API column `i+1`) if set, else the all-columns default of column 0, else unset. -/
theorem c04_eff_align (v : RTable) (ha : AlignOK v) :
    ttAligns v = .ok ((List.range v.ncols).map v.effAlign) ∧
    (∀ i a, v.colAlign.getD (i + 1) none = some (.align a) → v.effAlign i = a) ∧
    (∀ i a, v.colAlign.getD (i + 1) none = none → v.colAlign.getD 0 none = some (.align a) →
        v.effAlign i = a) ∧
    (∀ i, v.colAlign.getD (i + 1) none = none → v.colAlign.getD 0 none = none → v.effAlign i = 0) := by
  refine ⟨ttAligns_eq v ha, ?_, ?_, ?_⟩
  · intro i a h; unfold RTable.effAlign; rw [h]; rfl
  · intro i a h h0; unfold RTable.effAlign; rw [h, h0]; rfl
  · intro i h h0; unfold RTable.effAlign; rw [h, h0]; rfl

/-- The error branch, covered explicitly: if every setting consulted is unset, an alignment, or
    some other value, and at least one consulted value is not an alignment, the render panics
    (Go: failed interface conversion). -/
theorem c04_eff_align_bad (v : RTable)
    (hbad : ∃ i, i < v.ncols ∧
      ((∃ x, v.colAlign.getD (i + 1) none = some x ∧ ∀ a, x ≠ .align a) ∨
       (v.colAlign.getD (i + 1) none = none ∧ ∃ x, v.colAlign.getD 0 none = some x ∧ ∀ a, x ≠ .align a))) :
    ttAligns v = .error (.panic "interface conversion: not align.Alignment") := by
  unfold ttAligns
  have hof : ∀ raw, (∃ b, ttAligns.alignOf raw = .ok b) ∨
      ttAligns.alignOf raw = .error (.panic "interface conversion: not align.Alignment") := by
    intro raw
    unfold ttAligns.alignOf
    cases raw with
    | none => exact Or.inl ⟨_, rfl⟩
    | some x => cases x <;> first | exact Or.inl ⟨_, rfl⟩ | exact Or.inr rfl
  have hofbad : ∀ x, (∀ a, x ≠ Val.align a) →
      ttAligns.alignOf (some x) = .error (.panic "interface conversion: not align.Alignment") := by
    intro x hx
    unfold ttAligns.alignOf
    cases x <;> first | rfl | exact absurd rfl (hx _)
  apply tt_mapM_except_err
  · intro i _
    cases h : v.colAlign.getD (i + 1) none with
    | none => exact hof _
    | some a => exact hof _
  · obtain ⟨i, hi, h⟩ := hbad
    refine ⟨i, by simp [hi], ?_⟩
    rcases h with ⟨x, hx, hxa⟩ | ⟨hn, x, hx, hxa⟩
    · simp only [hx]; exact hofbad x hxa
    · simp only [hn, hx]; exact hofbad x hxa

/-! ### declared width and height (from the measuring callback `dimProps`) -/

/-- A single-line item that declares display width `dd` (and is not itself a `tabular.Cell`): the cell
    stores `dd`; `dimProps` lays the one line out as `max dd 0` wide and reports the same as the cell
    width; hence the view cell is `CellOK` and fits, the column is at least that wide, and the slot
    is the text plus exactly `colWidth − max dd 0` spaces. -/
theorem c04_declared_width (dw : Measure) (it : Item) (c0 : Cell) (l : Bytes) (dd : Int)
    (hp : it.plain) (hd : it.mWidth = some dd) (h1 : (Cell.update dw it c0).lines = [l]) :
    let c := Cell.update dw it c0
    c.width = dd ∧
    dimProps dw it c = (.dims (max dd 0) c.hgt,
      .lws ({ s := l, w := max dd 0 } :: List.replicate (c.hgt.toNat - 1) blankWS)) ∧
    (∀ (v : RTable) (i : Nat) (rc : RCell), rc ∈ v.colCells i → rc.cellWidth = max dd 0 →
        max dd 0 ≤ (v.colWidth i : Int) ∧
        ∀ al, (slotD { s := l, w := max dd 0 } (v.colWidth i) al).width = v.colWidth i ∧
              (slotD { s := l, w := max dd 0 } (v.colWidth i) al).lp
                + (slotD { s := l, w := max dd 0 } (v.colWidth i) al).rp
                = v.colWidth i - (max dd 0).toNat) := by
  intro c
  have hw : c.width = dd := update_width_declared dw it c0 hp dd hd
  refine ⟨hw, dimProps_declared_width dw it c l dd (by simp [hd]) hw h1, ?_⟩
  intro v i rc hrc hcw
  have hge := colWidth_ge v i rc hrc
  rw [hcw] at hge
  refine ⟨hge, fun al => ?_⟩
  have hwd := slotD_width { s := l, w := max dd 0 } (v.colWidth i) al (by simp; omega) hge
  refine ⟨hwd, ?_⟩
  unfold SlotD.width at hwd
  simp only [slotD_ws] at hwd
  omega

/-- An item that declares height `hh ≥ 1` (and is not itself a `tabular.Cell`): the measured line list
    has `max hh (number of text lines)` entries (the text first, then blanks), so any row showing
    the cell in one of its first `ncols` positions has at least `hh` content lines. -/
theorem c04_declared_height (dw : Measure) (it : Item) (c0 : Cell) (hh : Int)
    (hp : it.plain) (hd : it.mHeight = some hh) (h1 : 1 ≤ hh) :
    let c := Cell.update dw it c0
    ∀ ls, (dimProps dw it c).2 = .lws ls →
      ls.length = max hh.toNat c.lines.length ∧
      ∀ (cells : List RCell) (n i : Nat) (rc : RCell), cells[i]? = some rc → i < n → rc.lws = ls →
        hh.toNat ≤ rowLineCount cells n ∧
        ∀ L I R cw al, hh.toNat ≤ (rowChunks L I R cw al cells n).length := by
  intro c ls hls
  have hht : c.height = hh := update_height_declared dw it c0 hp hh hd
  have hlen := dimProps_lws_length dw it c ls hls
  rw [hgt_of_height c (by omega), hht] at hlen
  refine ⟨hlen, ?_⟩
  intro cells n i rc hrc hi hl
  have := rowLineCount_ge cells n i rc hrc hi
  rw [hl, hlen] at this
  refine ⟨by omega, fun L I R cw al => ?_⟩
  rw [rowChunks_length]; omega

/-- In general (`dimProps` on any cell): the line list is one entry per text line, text unmodified,
    then blanks up to `max height #lines`. -/
theorem c04_lws_shape (dw : Measure) (it : Item) (c : Cell) :
    ∃ ls, (dimProps dw it c).2 = .lws ls ∧
      ls.length = max c.hgt.toNat c.lines.length ∧
      (ls.take c.lines.length).map (·.s) = c.lines ∧
      ls.drop c.lines.length = List.replicate (ls.length - c.lines.length) blankWS := by
  refine ⟨_, by rw [dimProps_eq], by simp; omega, ?_, ?_⟩
  · rw [List.take_left' (by simp)]; simp [Function.comp_def]
  · rw [List.drop_left' (by simp)]; simp

/-! ### the text is preserved, slot by slot -/

/-- The `k`-th content line of a row (header or body) of a measured view is
    `contentLine … (rowSlots … cells k)`, and for every column `i < ncols` its slot `i` is
    `spaces lp ++ t ++ spaces rp` where `t` is EXACTLY `(lines cellᵢ.text)[k]` — or empty when the row
    has no cell `i` or the cell no line `k` — laid out in the column's width with the column's
    effective alignment. -/
theorem c04_text_preserved (dw : Measure) (v : RTable) (cells : List RCell) (k i : Nat)
    (hrow : v.header = some cells ∨ some cells ∈ v.rows)
    (hv : ∀ c ∈ v.allCells, CellOK dw c) (hi : i < v.ncols) :
    let t : Bytes := match cells[i]? with
      | some c => (lines c.text).getD k []
      | none => []
    ∃ s : SlotD, (rowSlots v.colWidths v.effAligns cells k)[i]? = some s ∧
      s = slotD (cellLineWS cells i k) (v.colWidth i) (v.effAlign i) ∧
      s.ws.s = t ∧ s.bytes = spaces s.lp ++ t ++ spaces s.rp ∧
      (v.effAlign i ≤ 3 → withinWidthAligned (cellLineWS cells i k) (v.colWidth i) (v.effAlign i)
          = .ok s.bytes) := by
  intro t
  have hs : (rowSlots v.colWidths v.effAligns cells k)[i]?
      = some (slotD (cellLineWS cells i k) (v.colWidth i) (v.effAlign i)) := by
    unfold rowSlots
    rw [lineSlots_getElem?, colWidths_getElem? v i hi, effAligns_getD v i hi]; rfl
  have ht : (cellLineWS cells i k).s = t := by
    show _ = (match cells[i]? with | some c => (lines c.text).getD k [] | none => [])
    unfold cellLineWS
    cases hc : cells[i]? with
    | none => rfl
    | some c => exact (hv c (mem_allCells v cells c hrow (List.mem_of_getElem? hc))).text k
  have hnn := cellLineWS_nonneg cells
    (fun c hc => (hv c (mem_allCells v cells c hrow hc)).nonneg) i k
  refine ⟨_, hs, rfl, ht, ?_, fun hal => ?_⟩
  · unfold SlotD.bytes; rw [slotD_ws, ht]
  · rw [withinWidthAligned_eq _ _ _ hnn hal]; rfl

/-- … and that content line is what the render writes: the header's line `k` is chunk `1 + k`. -/
theorem c04_header_line_written (dw : Measure) (d : Decoration) (v : RTable) (hs' : List RCell) (k : Nat)
    (hn : 1 ≤ v.ncols) (hs : WFShape v) (ha : AlignOK v) (hd : DecoOK dw d)
    (hv : ∀ c ∈ v.allCells, CellOK dw c) (hh : v.header = some hs') (hk : k < rowLineCount hs' v.ncols) :
    (renderTextBody d v).chunks[1 + k]? =
      some (contentLine d.vHeader d.vHeader d.vHeader (rowSlots v.colWidths v.effAligns hs' k)) := by
  rw [c03_line_structure_aux d v hn hs ha hd.divs_header hd.divs_body (fun c hc => (hv c hc).nonneg)]
  unfold specChunks
  simp only [hh]
  rw [Nat.add_comm, List.append_assoc, List.cons_append, List.getElem?_cons_succ, List.append_assoc,
    List.getElem?_append_left (by rw [rowChunks_length]; exact hk)]
  exact rowChunks_getElem? _ _ _ _ _ _ _ _ hk

/-- Every content line written for a body row is one of that row's `contentLine`s (and every one
    of them is written): the row's block of chunks is `rowChunks`. -/
theorem c04_body_lines_written (dw : Measure) (d : Decoration) (v : RTable)
    (hn : 1 ≤ v.ncols) (hs : WFShape v) (ha : AlignOK v) (hd : DecoOK dw d)
    (hv : ∀ c ∈ v.allCells, CellOK dw c) :
    ∃ pre post, (renderTextBody d v).chunks = pre ++
      v.rows.flatMap (fun r => match r with
        | none => [lineSeparator d v.colWidths]
        | some cells => (List.range (rowLineCount cells v.ncols)).map (fun k =>
            contentLine d.vBodyBorder d.vBodyInner d.vBodyBorder
              (rowSlots v.colWidths v.effAligns cells k))) ++ post := by
  rw [c03_line_structure_aux d v hn hs ha hd.divs_header hd.divs_body (fun c hc => (hv c hc).nonneg)]
  exact ⟨_, _, rfl⟩

/-! ### non-vacuity (`dw := List.length`, the view and decorations of `Proofs/TextExample.lean`) -/

namespace C04Example
open TextExample

example : withinWidthAligned ⟨[97], 1⟩ 4 3 = .ok [32, 97, 32, 32] := rfl
example : ∃ lp rp, withinWidthAligned ⟨[97], 1⟩ 4 3 = .ok (spaces lp ++ [97] ++ spaces rp) ∧ lp = 1 ∧ rp = 2 := by
  obtain ⟨lp, rp, h, _, _, h3, _⟩ := c04_slot ⟨[97], 1⟩ 4 3 (by decide) (by decide) (by decide)
  exact ⟨lp, rp, h, (h3 rfl).1, (h3 rfl).2.1⟩
example : withinWidthAligned ⟨[97, 98, 99], 3⟩ 2 2 = .ok [97, 98, 99] :=
  (c04_slot_other ⟨[97, 98, 99], 3⟩ 2 2).1 (by decide) (by decide) (by decide)
example : withinWidthAligned ⟨[97], -1⟩ 2 1 = .ok [32, 32] := (c04_slot_other ⟨[97], -1⟩ 2 1).2.1 (by decide)
example : withinWidthAligned ⟨[97], 1⟩ 2 7 = .error (.panic "unhandled alignment") :=
  (c04_slot_other ⟨[97], 1⟩ 2 7).2.2 (by decide) (by decide)
/-- ragged row `f`: column 1 has no cell -/
example : (slotD (cellLineWS [measuredCell List.length [102]] 1 0) 2 3).bytes = [32, 32] :=
  (c04_blank [measuredCell List.length [102]] 1 0 2 3 (by decide) (Or.inl rfl)).2.2
/-- row `"ccc\nd" | e`: cell 1 has no second line -/
example : cellLineWS [measuredCell List.length [99, 99, 99, 10, 100], measuredCell List.length [101]] 1 1
    = blankWS :=
  (c04_blank _ 1 1 2 3 (by decide) (Or.inr ⟨_, rfl, by decide⟩)).1
example : ttAligns exView = .ok [2, 3] := (c04_eff_align exView ha).1
example : ttAligns { exView with colAlign := [some (.align 2), none, some (.align 1)] } = .ok [2, 1] := by
  refine (c04_eff_align _ ?_).1
  intro i hi
  have : i = 0 ∨ i = 1 ∨ i = 2 := by simp [exView] at hi; omega
  rcases this with rfl | rfl | rfl
  · right; exact ⟨2, by simp, rfl⟩
  · left; rfl
  · right; exact ⟨1, by simp, rfl⟩
example : ttAligns { exView with colAlign := [some (.user 7), none, some (.align 1)] }
    = .error (.panic "interface conversion: not align.Alignment") :=
  c04_eff_align_bad _ ⟨0, by decide, Or.inr ⟨rfl, .user 7, rfl, by intro a h; cases h⟩⟩

example : dimProps List.length wideItem (Cell.update List.length wideItem { item := 0 })
    = (.dims 5 3, .lws [⟨[97, 98], 5⟩, blankWS, blankWS]) := by
  have := (c04_declared_width List.length wideItem { item := 0 } [97, 98] 5 wide_plain rfl (by decide)).2.1
  rw [this]; decide
example := c04_declared_height List.length wideItem { item := 0 } 3 wide_plain rfl (by decide)
example := c04_lws_shape List.length wideItem { item := 0 }
/-- second line of the first body row, column 0: exactly `d` -/
example : ∃ s : SlotD, (rowSlots exView.colWidths exView.effAligns
      [measuredCell List.length [99, 99, 99, 10, 100], measuredCell List.length [101]] 1)[0]? = some s ∧
    s.ws.s = [100] := by
  obtain ⟨s, h1, _, h3, _⟩ := c04_text_preserved List.length exView
    [measuredCell List.length [99, 99, 99, 10, 100], measuredCell List.length [101]] 1 0
    (Or.inr (by simp [exView])) (fun c hc => (hall c hc).1) (by decide)
  exact ⟨s, h1, h3⟩
example := c04_header_line_written List.length asciiSimple exView _ 0 hn hs ha (Or.inl hg)
  (fun c hc => (hall c hc).1) rfl (by decide)
example := c04_body_lines_written List.length asciiSimple exView hn hs ha (Or.inl hg)
  (fun c hc => (hall c hc).1)

end C04Example

end Tab
