/-
  C10cb — C10 ("a table renders the same whatever wrapper created it or is wrapped around it")
  WITHOUT `LogOnly`: arbitrary user callbacks.

  `Props/C10.lean` proves its statements for tables whose render-time user callbacks only log.  Here
  the user callbacks are arbitrary terms of the model's callback language: they may set any user key,
  `align`, `skipable` on whatever they are handed (so: change the layout DURING the pass), and fail.
  The only side condition is `UserKeysOnly w t` (Proofs/E2EcbMeas.lean, decidable): no callback a pass
  over `t` invokes is a `.setProp` on one of the three PRIVATE measurement keys — which a Go user
  cannot name (unexported types); `e2ecb`'s last example shows that such a callback does break the
  measured view.  `Needs w wr` is as in C10 (the measuring callback `wr`'s renderer relies on is
  registered; true after `wrapEffect w wr.kind wr.core`).

  All statements are about what is EMITTED (`.2` of `renderTo`).  The world after the render is not
  the same on both sides: the wrapped world keeps its extra measuring callback, its cells carry one
  more private property, and — as in C10 — nothing is claimed about it.  (The table's error list does
  grow by the same errors on both sides: the extra callbacks are measuring callbacks invoked on cells,
  which never fail; that is `e2ecb_errors`, not restated here.)

  Proof: `e2ecb_measured_view` / `e2ecb_render_unmeasured` express the output by `canonView` / the
  masked view of the world BEFORE the pass — functions of `World.bare`, which a wrap keeps — and the
  column properties AFTER it, which by `e2ecb_props_chain` are a function of the column records, which
  a wrap keeps as well; a wrap adds only measuring callbacks to the schedule, so `UserKeysOnly` is kept
  (`C10cb.userKeysOnly_wrapEffect`).  Helper lemmas: `Tab.C10cb` (Proofs/C10cbWrap.lean).
-/
import Tabmodel.Proofs.C10cbWrap
import Tabmodel.Props.C10
namespace Tab
open World hiding CellOK
open E2Ecb C10cb

/-- One more wrapper of any kind around any table of the world (so: one more accumulated measuring
    callback, of the same or of the other sub-package) never changes what `wr` emits — whatever the
    user callbacks of the table set or raise. -/
theorem c10cb_wrap_indep (x : Ext) (w : World) (k : WKind) (t : Nat) (wr : Wrapper)
    (hU : w.UserKeysOnly wr.core) (hN : Needs w wr) :
    (renderTo x (w.wrapEffect k t) wr).2 = (renderTo x w wr).2 :=
  (CbStable.wrap w k t).render_eq x wr hU hN

/-- ... and it keeps the hypotheses, so the statement can be iterated. -/
theorem c10cb_wrap_keeps (w : World) (k : WKind) (t : Nat) (wr : Wrapper) :
    ((w.wrapEffect k t).UserKeysOnly wr.core ↔ w.UserKeysOnly wr.core) ∧
    (Needs w wr → Needs (w.wrapEffect k t) wr) :=
  ⟨userKeysOnly_wrapEffect w k t wr.core, needs_wrapEffect w k t wr⟩

/-- Any nesting of wrappers, of whatever kinds, around the core table: rendering through the
    outermost equals rendering directly. -/
theorem c10cb_nesting (x : Ext) (w : World) (ks : List WKind) (wr : Wrapper)
    (hU : w.UserKeysOnly wr.core) (hN : Needs w wr) :
    (renderTo x (ks.foldl (fun w k => w.wrapEffect k wr.core) w) wr).2 = (renderTo x w wr).2 :=
  (cbStable_wraps wr.core ks w).render_eq x wr hU hN

/-- Whatever wrappers are already around an existing table (it was made by some `X.New()`, wrapped
    again, …), wrapping it once more for the target format and rendering gives what wrapping the
    bare core table and rendering gives.  No `Needs` hypothesis: the last wrap provides it. -/
theorem c10cb_created_by (x : Ext) (w : World) (ks : List WKind) (wr : Wrapper)
    (hU : w.UserKeysOnly wr.core) (ht : wr.core < w.tables.length) :
    (renderTo x ((ks.foldl (fun w k => w.wrapEffect k wr.core) w).wrapEffect wr.kind wr.core) wr).2 =
      (renderTo x (w.wrapEffect wr.kind wr.core) wr).2 := by
  have hs := cbStable_wraps wr.core ks w
  have h1 := CbStable.wrap (ks.foldl (fun w k => w.wrapEffect k wr.core) w) wr.kind wr.core
  have h2 := CbStable.wrap w wr.kind wr.core
  exact render_congr_cb x _ _ wr (by rw [h1.bare, hs.bare, h2.bare])
    (by rw [h1.cols, hs.cols, h2.cols])
    ((h1.user _).mpr ((hs.user _).mpr hU)) ((h2.user _).mpr hU)
    (needs_wrapEffect_self _ wr (by rw [hs.ntables]; exact ht)) (needs_wrapEffect_self _ wr ht)

/-- "The same logical table": two worlds that agree once every callback set, the event log and the
    private measurement properties are forgotten (`World.bare`), whose core table has the same column
    records (properties and the columns' own callbacks — the callbacks that can change the layout), and
    whose passes name no private key, give the same package-level rendering. -/
theorem c10cb_same_table (x : Ext) (w1 w2 : World) (wr : Wrapper) (hb : w1.bare = w2.bare)
    (hc : (w1.table wr.core).columns = (w2.table wr.core).columns)
    (hU1 : w1.UserKeysOnly wr.core) (hU2 : w2.UserKeysOnly wr.core) (ht : wr.core < w1.tables.length) :
    (renderTo x (w1.wrapEffect wr.kind wr.core) wr).2 = (renderTo x (w2.wrapEffect wr.kind wr.core) wr).2 := by
  have ht2 : wr.core < w2.tables.length := by
    have h := congrArg (fun w => w.tables.length) hb
    simp only [World.bare, List.length_map] at h
    omega
  have h1 := CbStable.wrap w1 wr.kind wr.core
  have h2 := CbStable.wrap w2 wr.kind wr.core
  exact render_congr_cb x _ _ wr (by rw [h1.bare, h2.bare, hb]) (by rw [h1.cols, h2.cols, hc])
    ((h1.user _).mpr hU1) ((h2.user _).mpr hU2)
    (needs_wrapEffect_self _ wr ht) (needs_wrapEffect_self _ wr ht2)

/-- The three ways to render (`c10_paths`, `c10_paths_auto`: wrapper method, package-level function and
    `auto` are one function of kind, core, decoration, html settings — no hypothesis at all) give the
    same bytes whatever wrappers are already around the table: the package-level `X.RenderTo(t, …)` and
    `auto.RenderTo(t, style, …)` on a table wrapped any number of times equal the same calls on the
    table as it was. -/
theorem c10cb_paths (x : Ext) (reg : Registry) (heavy : Decoration) (w : World) (ks : List WKind) (k : WKind)
    (t : Nat) (style : Bytes) (hU : w.UserKeysOnly t) (ht : t < w.tables.length) :
    (World.pkgRender x heavy (ks.foldl (fun w k => w.wrapEffect k t) w) k t).2 = (World.pkgRender x heavy w k t).2 ∧
    (World.autoRender x reg heavy (ks.foldl (fun w k => w.wrapEffect k t) w) t style).2 =
      (World.autoRender x reg heavy w t style).2 := by
  have hcore : (autoWrapper reg heavy style t).core = t := by
    unfold autoWrapper; cases resolveStyle reg heavy style <;> rfl
  constructor
  · exact c10cb_created_by x w ks (defaultWrapper heavy k t) hU ht
  · have h := c10cb_created_by x w ks (autoWrapper reg heavy style t) (by rw [hcore]; exact hU)
      (by rw [hcore]; exact ht)
    rw [hcore] at h
    exact h

/-- `X.New()`: the table it returns satisfies the hypotheses of the theorems above for a wrapper of
    that kind (it has no user callback at all). -/
theorem c10cb_new (w : World) (k : WKind) :
    (w.newVia k).1.UserKeysOnly (w.newVia k).2 ∧
    (∀ wr : Wrapper, wr.kind = k → wr.core = (w.newVia k).2 → Needs (w.newVia k).1 wr) := by
  refine ⟨?_, (c10_new w k).2.2.1⟩
  show (w.newTable.1.wrapEffect k w.newTable.2).UserKeysOnly w.newTable.2
  rw [userKeysOnly_wrapEffect]
  intro s hs
  have ht := table_newTable w
  unfold passSteps passRows colsSteps colSteps World.column? at hs
  rw [ht] at hs
  simp [stepsOf, CbSet.at] at hs

/-- Creation paths: a table made by sub-package `k`'s `New()` and then filled by `ops` — which may
    register ANY callbacks (`okFor`: except a render-time cell callback on the table itself, the one
    list a wrap appends to) — renders (package-level function / fresh wrapper of `wr.kind`) exactly as
    the table made by `tabular.New()` and filled by the same `ops`. -/
theorem c10cb_creation_paths (x : Ext) (w : World) (k : WKind) (ops : List ContentOp) (wr : Wrapper)
    (hc : wr.core = w.newTable.2) (hops : ∀ op ∈ ops, op.okFor wr.core)
    (hU : (ops.foldl (ContentOp.run x.dw) w.newTable.1).UserKeysOnly wr.core)
    (ht : wr.core < (ops.foldl (ContentOp.run x.dw) w.newTable.1).tables.length) :
    (renderTo x ((ops.foldl (ContentOp.run x.dw) (w.newVia k).1).wrapEffect wr.kind wr.core) wr).2 =
      (renderTo x ((ops.foldl (ContentOp.run x.dw) w.newTable.1).wrapEffect wr.kind wr.core) wr).2 := by
  have h1 : (w.newVia k).1 = w.newTable.1.wrapEffect k wr.core := by rw [hc]; rfl
  rw [h1, wrapEffect_buildOps x.dw k wr.core ops hops]
  exact c10cb_created_by x _ [k] wr hU ht

/-! ### non-vacuity: `cbHist` (Proofs/E2EcbExample.lean) — callbacks that set user key 7 and `align`
    on cells, set `align` / `skipable` on columns during the pass, and fail on the table, on a row and
    on cells — unwrapped (`cbBase`) and wrapped as text and markdown (`cbW`) -/

namespace C10cbExample

def cbBase : World := run e2eX.dw cbHist

-- the theorems of `Props/C10.lean` do not apply
example : ¬ LogOnly cbBase 0 ∧ ¬ LogOnly cbW 0 := by decide +kernel
-- hypotheses of `c10cb_wrap_indep` / `c10cb_nesting` (text and markdown wrapper), on the wrapped table
example : cbW.UserKeysOnly 0 ∧ Needs cbW e2eText ∧ Needs cbW e2eMd := by decide +kernel
example := c10cb_wrap_indep e2eX cbW .markdown 0 e2eText (by decide +kernel) (by decide +kernel)
example := c10cb_nesting e2eX cbW [.text, .csv, .markdown, .text] e2eMd (by decide +kernel) (by decide +kernel)
-- hypotheses of `c10cb_created_by` / `c10cb_paths`, on the bare table; `Needs` is a real hypothesis of
-- the first two: the bare table does not have it
example : cbBase.UserKeysOnly 0 ∧ e2eText.core < cbBase.tables.length ∧ ¬ Needs cbBase e2eText := by
  decide +kernel
example := c10cb_created_by e2eX cbBase [.markdown, .text, .html] e2eText (by decide +kernel) (by decide +kernel)
example := c10cb_paths e2eX {} Generated.heavy cbBase [.markdown, .text] .markdown 0 [] (by decide +kernel)
  (by decide +kernel)
-- hypotheses of `c10cb_same_table`: the bare table and the table wrapped twice
theorem c10cb_ex_cbW : cbW = (cbBase.wrapEffect .text 0).wrapEffect .markdown 0 := by
  show run e2eX.dw (cbHist ++ wrapOps .text 0 ++ wrapOps .markdown 0) = _
  rw [run_wrapOps, run_wrapOps]; rfl
example : cbW.bare = cbBase.bare ∧ (cbW.table 0).columns = (cbBase.table 0).columns := by
  rw [c10cb_ex_cbW]
  exact ⟨((CbStable.wrap cbBase .text 0).trans (CbStable.wrap _ .markdown 0)).bare,
    ((CbStable.wrap cbBase .text 0).trans (CbStable.wrap _ .markdown 0)).cols 0⟩
example := c10cb_same_table e2eX cbW cbBase e2eJson (by rw [c10cb_ex_cbW, bare_wrapEffect, bare_wrapEffect])
  (by rw [c10cb_ex_cbW, columns_wrapEffect, columns_wrapEffect]) (by decide +kernel) (by decide +kernel) (by decide +kernel)
-- the callbacks do change what is written (column 1 becomes centred DURING the pass): the output is
-- not that of the view before the pass, and it is the same with three more wrappers around the table
example : (renderTo e2eX cbW e2eMd).2.output ≠ (renderMarkdown e2eX.dw (cbW.view 0)).output := by decide +kernel
example : (renderTo e2eX (((cbW.wrapEffect .text 0).wrapEffect .markdown 0).wrapEffect .json 0) e2eMd).2.output =
    [124,32,97,32,124,32,98,32,124,10, 124,58,45,45,45,58,124,32,45,45,45,32,124,10,
     124,32,99,32,124,32,100,32,124,10, 124,32,101,32,124,32,124,10] := by
  show (renderTo e2eX ([WKind.text, .markdown, .json].foldl (fun w k => w.wrapEffect k e2eMd.core) cbW) e2eMd).2.output = _
  rw [c10cb_nesting e2eX cbW [.text, .markdown, .json] e2eMd (by decide +kernel) (by decide +kernel)]
  decide +kernel
-- `UserKeysOnly` is needed: with a callback that overwrites texttable's private key AFTER the user's
-- own measuring callback, a further text wrap (whose measuring callback then runs last) changes the
-- output
def cbPriv2 : World :=
  run e2eX.dw (cbOps ++ [.regCb (.table 0) .render .cell (.setProp 11 .ttDims (some (.dims 5 1)))])
example : Needs cbPriv2 e2eText ∧ ¬ cbPriv2.UserKeysOnly 0 ∧
    (renderTo e2eX (cbPriv2.wrapEffect .text 0) e2eText).2.output ≠ (renderTo e2eX cbPriv2 e2eText).2.output := by
  decide +kernel

-- creation paths with a property-setting and a failing callback among the steps
def cbContent : List ContentOp :=
  [ .register (.table 0) .pre .cell (.setProp 2 (.user 7) (some (.user 70))),
    .register (.table 0) .pre .itself (.fail 3 55),
    .addHeaders 0 [0, 1], .addRowItems 0 [2, 3], .addSeparator 0, .addRowItems 0 [4],
    .register (.column 0 1) .pre .itself (.setProp 4 .align (some (.align 3))) ]
def cbEmpty : World := { items := [exItem 97, exItem 98, exItem 99, exItem 100, exItem 101, exItem 102] }
example : ∀ op ∈ cbContent, op.okFor 0 := by
  intro op hop
  simp only [cbContent, List.mem_cons, List.mem_nil_iff, or_false] at hop
  rcases hop with h | h | h | h | h | h | h <;> subst h <;> trivial
example : e2eText.core = cbEmpty.newTable.2 ∧
    (cbContent.foldl (ContentOp.run e2eX.dw) cbEmpty.newTable.1).UserKeysOnly e2eText.core ∧
    e2eText.core < (cbContent.foldl (ContentOp.run e2eX.dw) cbEmpty.newTable.1).tables.length ∧
    ¬ LogOnly (cbContent.foldl (ContentOp.run e2eX.dw) cbEmpty.newTable.1) 0 := by decide +kernel

end C10cbExample

end Tab
