/-
  C08eH — `c08e_delim` + `c08e_delim_last_writer` (Props/C08e.lean) with the `Nodup` hypothesis
  discharged for every history of well-formed cell values (`CellsOk ops`, via `c12h_nodup` /
  `E2Ecb.columns_nodup_history`).  In its own module because `Props/C12h` (through
  `Proofs/E2EcbHist.lean`) and `Props/E2E` (through `Props/E2Ecb.lean`, which Props/C08e.lean imports)
  declare clashing helper names (`PState`): the statement is therefore re-derived here from the shared
  helpers in Proofs/C08eCore.lean rather than from `c08e_delim` itself.  (`Proofs/E2EcbHist.lean` itself
  cannot be imported either: its `Props/C11h` import clashes with `Proofs/StableWrap.lean` on
  `World.Stable`; the five-line derivation of the `Nodup` fact from `c12h_nodup` is repeated below.)
-/
import Tabmodel.Proofs.C08eCore
import Tabmodel.Props.C12h
import Tabmodel.Proofs.C08eHExample
namespace Tab
open World E2Ecb

/-- Markdown of a table built by a `Valid`, `CellsOk` history with ANY callbacks, a header and at
    least one column, post-pass alignments in their domain: the render succeeds, and cell `i` of the
    delimiter line is the control cell (`nd ≥ 3` dashes between the two marker bytes) for the
    alignment `a` that is: the LAST `align` value written by column record `i + 1`'s own pre-time then
    post-time callbacks (what the history left if they write none) if that is set, otherwise the same
    for the defaults column, record 0. -/
theorem c08e_delim_history (x : Ext) (ops : List BuildOp) (hv : Valid ops = true) (hc : CellsOk ops)
    (wr : Wrapper) (hk : wr.kind = .markdown) (ht : wr.core < (run x.dw ops).tables.length)
    (ha : AlignOK ((invokeRenderCallbacks x.dw (run x.dw ops) wr.core).view wr.core))
    (hh : ((run x.dw ops).table wr.core).header.isSome = true)
    (hn : 1 ≤ ((run x.dw ops).table wr.core).nColumns)
    (i : Nat) (hi : i < ((run x.dw ops).table wr.core).nColumns) :
    let w := run x.dw ops
    let v' := (invokeRenderCallbacks x.dw w wr.core).view wr.core
    let m := (w.renderTo x wr).2
    let lw := fun n => ((w.table wr.core).columns[n]?).bind (fun c =>
      lastWrite .align (c.selfCbs.pre ++ c.selfCbs.post) (c.props.get .align))
    let a := match (match lw (i + 1) with | some a => some a | none => lw 0) with
      | some (.align a) => a
      | _ => 0
    m.res = .ok () ∧
    ∃ (line : Bytes) (l r nd : Nat),
      (lines m.output)[1]? = some line ∧
      (splitPipes line)[i + 1]? = some (spaces l ++ mdControlCell (mdColWidth v' i) a ++ spaces r) ∧
      (mdColWidth v' i ≤ (x.dw (mdControlCell (mdColWidth v' i) a) : Nat) → l = 0 ∧ r = 0) ∧
      3 ≤ nd ∧ mdColWidth v' i ≤ (nd : Int) ∧
      mdControlCell (mdColWidth v' i) a = (mdMarkers a).1 :: List.replicate nd 45 ++ [(mdMarkers a).2] := by
  intro w v' m lw a
  have hmd : MdOK v' := C08e.mdOK_history x.dw ops hv wr.core ht ha hh hn
  have hnd : ∀ c ∈ ((run x.dw ops).table wr.core).columns, c.props.keys.Nodup := by
    intro c hcm
    obtain ⟨n, hn', hget⟩ := List.getElem_of_mem hcm
    have := c12h_nodup x.dw ops hc (.column wr.core n)
    have hcol : (run x.dw ops).column? wr.core n = some c := by
      unfold World.column?; rw [List.getElem?_eq_getElem hn', hget]
    simpa [World.chainOf, hcol] using this
  have hnc : v'.ncols = ((run x.dw ops).table wr.core).nColumns := (irc_view_content x.dw w wr.core wr.core).1
  have hres : m.res = .ok () := by
    show (w.renderTo x wr).2.res = _
    rw [renderTo_markdown x w wr hk]; exact c08_ok x.dw v' hmd
  have ha' : effAlignNat v' i = a := by
    show (match effAlign v' i with | some (.align a) => a | _ => 0) = a
    have : effAlign v' i = (match lw (i + 1) with | some a => some a | none => lw 0) := by
      unfold effAlign
      rw [C08e.colAlign_getD_last_writer x.dw w wr.core hnd (i + 1),
        C08e.colAlign_getD_last_writer x.dw w wr.core hnd 0]
      rfl
    rw [this]
  have hd := C08e.delim_world x w wr hk hmd i (by rw [hnc]; exact hi)
  simp only at hd
  rw [ha'] at hd
  exact ⟨hres, hd⟩

/-! ### non-vacuity: a small history (`dw := List.length`)

  Table 0, headers `a b`, one row `c c`.  The history right-aligns column 1 (record 1); record 1's own
  pre-time callback then sets centre; the defaults column (record 0) gets right from its own post-time
  callback; column 2 (record 2) has no value of its own and inherits it.
  (`ops`, `wr`, `x` and the evaluated hypotheses: Proofs/C08eHExample.lean.) -/

namespace C08eHExample

example := c08e_delim_history x ops hv hc wr rfl ht ha hh hn 0 (by decide +kernel)
example := c08e_delim_history x ops hv hc wr rfl ht ha hh hn 1 (by decide +kernel)
/-- the output: `| a | b |`, `|:---:| ---:|`, `| c | c |` -/
example : ((run x.dw ops).renderTo x wr).2.output =
    [124,32,97,32,124,32,98,32,124,10, 124,58,45,45,45,58,124,32,45,45,45,58,124,10,
     124,32,99,32,124,32,99,32,124,10] := by decide +kernel

end C08eHExample

end Tab
