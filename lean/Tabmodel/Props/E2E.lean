/-
  E2E — capstone theorems: the format properties, stated about what the public API builds.

  The per-format theorems (C03, C05, C07, C08) are stated over an arbitrary render view with
  shape hypotheses.  Here they are composed with
    * C02: every world `run dw ops` of a `Valid` build history satisfies the structural invariant,
      so the view a renderer reads is well formed (`c02_view_wf_after_callbacks`);
    * C10/C14 (`Proofs/Stable*.lean`): under `LogOnly w t` ("no user callback fails or mutates")
      the callbacks pass of a render changes nothing but the three private measurement
      properties, and writes those on every cell when the measuring callback is registered;
    * C09: totality.
  All theorems are about `(run x.dw ops).renderTo x wr`, i.e. `X.RenderTo` on a table built
  through the API; `v` is the view of the built world, `v'` the view the renderer reads after its
  callbacks pass.  Extra theorems, attached to C03/C04 (text), C05, C07, C08, C09, C14.

  Vocabulary: `BuildOp`, `run`, `Valid` (Spec/World.lean); `LogOnly`, `Needs`
  (Proofs/StableDefs.lean); `TableFits`, `csvRecords`, `bodyRowCount` (Proofs/E2EDefs.lean);
  `RCell.content`, `wrapOps` (Proofs/E2EView.lean); `canonView` (Proofs/StableView.lean).
-/
import Tabmodel.Props.C03
import Tabmodel.Props.C06
import Tabmodel.Props.C09
import Tabmodel.Props.C14
import Tabmodel.Proofs.E2EText
import Tabmodel.Proofs.E2ENeeds
import Tabmodel.Proofs.E2EExample
namespace Tab
open World hiding CellOK

/-! ### 1. the callbacks pass changes no text -/

/-- Under `LogOnly`, the view the renderer reads (`v'`, after the callbacks pass) has the same
    column count, column properties, header/row shape (separators in the same places, the same
    number of cells everywhere) and, cell by cell, the same `text`, `empty` and `json` as the view
    of the built world (`v`); it differs at most in the three measurement fields.
    (Holds for every world, reachable or not; `Valid` is not needed.) -/
theorem e2e_texts_stable (dw : Measure) (w : World) (t : Nat) (hL : LogOnly w t) :
    let v := w.view t
    let v' := (invokeRenderCallbacks dw w t).view t
    v'.ncols = v.ncols ∧ v'.colAlign = v.colAlign ∧ v'.colSkip = v.colSkip ∧
    v'.header.map (·.map RCell.content) = v.header.map (·.map RCell.content) ∧
    v'.rows.map (·.map (·.map RCell.content)) = v.rows.map (·.map (·.map RCell.content)) ∧
    v'.mapCells (RCell.mask false false) = v.mapCells (RCell.mask false false) :=
  ⟨irc_view_ncols dw w t hL, irc_view_colAlign dw w t hL, irc_view_colSkip dw w t hL,
   (view_content_irc dw w t hL).1, (view_content_irc dw w t hL).2, view_mask_irc dw w t hL⟩

/-- The same, read cell by cell: row `i` is a separator in `v'` iff it is in `v`, and cell `j` of
    row `i` (and of the header) exists in `v'` iff it exists in `v`, with the same content. -/
theorem e2e_texts_stable_cell (dw : Measure) (w : World) (t : Nat) (hL : LogOnly w t) (i j : Nat) :
    let v := w.view t
    let v' := (invokeRenderCallbacks dw w t).view t
    (v'.rows[i]? = some none ↔ v.rows[i]? = some none) ∧
    ((v'.rows[i]?.bind (fun r => r.bind (·[j]?))).map RCell.content =
      (v.rows[i]?.bind (fun r => r.bind (·[j]?))).map RCell.content) ∧
    ((v'.header.bind (·[j]?)).map RCell.content = (v.header.bind (·[j]?)).map RCell.content) := by
  intro v v'
  obtain ⟨_, _, _, hh, hr, _⟩ := e2e_texts_stable dw w t hL
  exact ⟨rows_sep_of_content hr i, rows_cell_of_content hr i j, header_cell_of_content hh j⟩

/-! ### a `Wrap` is a history step -/

/-- `X.Wrap(t)` on a built table is the history extended by one `RegisterPropertyCallback` step
    (`wrapOps`); the extended history is valid, keeps `LogOnly`, and establishes `Needs` for every
    wrapper of that kind on that table.  So every theorem below applies to "build, wrap, render"
    by taking `ops ++ wrapOps k t` as the history. -/
theorem e2e_wrap (dw : Measure) (ops : List BuildOp) (hv : Valid ops = true) (k : WKind) (t : Nat)
    (ht : t < (run dw ops).tables.length) :
    run dw (ops ++ wrapOps k t) = (run dw ops).wrapEffect k t ∧
    Valid (ops ++ wrapOps k t) = true ∧
    (run dw (ops ++ wrapOps k t)).tables.length = (run dw ops).tables.length ∧
    (∀ t', LogOnly (run dw ops) t' → LogOnly (run dw (ops ++ wrapOps k t)) t') ∧
    (∀ wr : Wrapper, wr.kind = k → wr.core = t → Needs (run dw (ops ++ wrapOps k t)) wr) := by
  rw [run_wrapOps, valid_wrapOps]
  refine ⟨rfl, hv, ntables_wrapEffect _ _ _, fun t' h => logOnly_wrapEffect _ _ _ _ h, ?_⟩
  intro wr hk hc
  subst hk; subst hc
  exact needs_wrapEffect_self _ wr ht

/-- "Wrapped at least once" is a property of the history: if the history contains a `Wrap` step of
    the wrapper's kind on its table (at a point where the table exists), then `Needs` holds in the
    final world, whatever came before and after (registrations are never removed:
    `has_runFrom`, Proofs/E2ENeeds.lean). -/
theorem e2e_wrapped_needs (dw : Measure) (pre post : List BuildOp) (wr : Wrapper)
    (ht : wr.core < (run dw pre).tables.length) :
    Needs (run dw (pre ++ wrapOps wr.kind wr.core ++ post)) wr :=
  needs_of_wrapped dw pre post wr ht

/-! ### 2. CSV -/

/-- CSV of a table built by any valid history, under `LogOnly`: the renderer emits exactly what it
    would emit on the view of the built world; with no columns it is refused with the "no columns"
    error and nothing is written; otherwise it succeeds and the strict RFC 4180 reader gets back
    exactly `csvRecords`: the header row (if any) then every non-separator row in order, each field
    byte-for-byte the text the history put into that cell, each record `nColumns` fields long
    (missing cells as empty fields).  The structural-error branch is unreachable. -/
theorem e2e_csv (x : Ext) (ops : List BuildOp) (hv : Valid ops = true) (wr : Wrapper) (hk : wr.kind = .csv)
    (ht : wr.core < (run x.dw ops).tables.length) (hL : LogOnly (run x.dw ops) wr.core) :
    let w := run x.dw ops
    let m := (w.renderTo x wr).2
    m = renderCsv (w.view wr.core) ∧
    ((w.table wr.core).nColumns = 0 → m.res = .error (.err .noColumns) ∧ m.chunks = []) ∧
    (1 ≤ (w.table wr.core).nColumns →
      m.res = .ok () ∧ parse4180 m.output = some (w.csvRecords wr.core) ∧
      ∀ r ∈ w.csvRecords wr.core, r.length = (w.table wr.core).nColumns) := by
  intro w m
  have hm : m = renderCsv (w.view wr.core) := by
    show (w.renderTo x wr).2 = _
    rw [renderTo_csv x w wr hk]; exact renderCsv_irc x.dw w wr.core hL
  have hwf := (c02_view_wf (c02_inv_run x.dw ops hv) wr.core ht).1
  refine ⟨hm, ?_, ?_⟩
  · intro h0; rw [hm]; exact c05_refuse _ h0
  · intro h1
    rw [hm, ← records_view]
    exact ⟨c05_total _ h1 hwf, c05_roundtrip _ h1 hwf, c05_field_count _ h1 hwf⟩

/-! ### 3. JSON -/

/-- JSON of a table built by any valid history, under `LogOnly`: the renderer emits exactly what it
    would emit on the view `v` of the built world; it succeeds iff `JsonOK v` (the shape clause of
    which always holds), and then the bytes are those of the token stream `jsonToks`, which parses
    to one object per non-separator row, `objects js v`; on any error `Render` returns no text, and
    the error is never a panic. -/
theorem e2e_json (x : Ext) (ops : List BuildOp) (hv : Valid ops = true) (wr : Wrapper) (hk : wr.kind = .json)
    (ht : wr.core < (run x.dw ops).tables.length) (hL : LogOnly (run x.dw ops) wr.core) :
    let w := run x.dw ops
    let v := w.view wr.core
    let m := (w.renderTo x wr).2
    m = renderJson x.js v ∧
    WFShape v ∧
    (m.res = .ok () ↔ JsonOK v) ∧
    (m.res = .ok () ↔ HeaderOK v ∧ MarshalOK v) ∧
    (m.res = .ok () →
      m.output = (jsonToks x.js v).flatMap tokBytes ∧ parseArr (jsonToks x.js v) = some (objects x.js v)) ∧
    (∀ s, m.res = .error s → (renderString m).1 = [] ∧ ∀ site, s ≠ .panic site) := by
  intro w v m
  have hm : m = renderJson x.js v := by
    show (w.renderTo x wr).2 = _
    rw [renderTo_json x w wr hk]; exact renderJson_irc x.dw x.js w wr.core hL
  have hwf : WFShape v := (c02_view_wf (c02_inv_run x.dw ops hv) wr.core ht).1
  have hiff : m.res = .ok () ↔ JsonOK v := by
    rw [hm]
    exact ⟨fun hok => c07_ok_jsonOK x.js v hwf hok, fun h => (c07_valid_mirror x.js v h).1⟩
  refine ⟨hm, hwf, hiff, ?_, ?_, ?_⟩
  · rw [hiff]
    exact ⟨fun h => ⟨h.1, h.2.2⟩, fun h => ⟨h.1, hwf, h.2⟩⟩
  · intro hok
    rw [hm] at hok ⊢
    exact c07_ok_valid_mirror x.js v hok
  · intro s hs
    refine ⟨(c09_render_empty m s hs).1, ?_⟩
    intro site he
    rw [hm, he] at hs
    exact c07_no_panic x.js v site hs

/-! ### HTML -/

/-- HTML of a table built by any history (valid or not), under `LogOnly`: always succeeds, writes
    exactly `htmlBytes` of the view of the built world, which tokenizes to the template's skeleton
    (`c06_skeleton`) with one `<tr…>` for the header plus one per non-separator row. -/
theorem e2e_html (x : Ext) (w : World) (wr : Wrapper) (hk : wr.kind = .html) (hL : LogOnly w wr.core) :
    let v := w.view wr.core
    let m := (w.renderTo x wr).2
    m = renderHtml wr.html v ∧ m.res = .ok () ∧ m.output = htmlBytes wr.html v ∧
    tokenize m.output = skeleton wr.html v ∧
    ((tokenize m.output).filter isTrOpen).length = 1 + w.bodyRowCount wr.core := by
  intro v m
  have hm : m = renderHtml wr.html v := by
    show (w.renderTo x wr).2 = _
    rw [renderTo_html x w wr hk]; exact renderHtml_irc x.dw wr.html w wr.core hL
  have ho : m.output = htmlBytes wr.html v := by
    rw [hm]; simp [renderHtml, Emit.write, Emit.output]
  refine ⟨hm, by rw [hm]; rfl, ho, by rw [ho]; exact c06_skeleton _ _, ?_⟩
  rw [ho, (c06_count_tr wr.html v).1, filter_isSome_view_length]

/-! ### 4. Markdown -/

/-- Markdown of a table built by any valid history, under `LogOnly`, with alignment properties in
    their domain: rendering succeeds iff the table has a header and at least one column; the only
    possible failures are the "no columns" / "no headers" refusals, which write nothing (the
    structural error and the alignment panic are unreachable); on success the output is
    `2 + (non-separator rows)` LF-terminated lines, each with exactly `nColumns + 1` unescaped pipes
    (and no other `|`), splitting into `nColumns + 2` pieces (`c08_structure` on the real output). -/
theorem e2e_markdown (x : Ext) (ops : List BuildOp) (hv : Valid ops = true) (wr : Wrapper)
    (hk : wr.kind = .markdown) (ht : wr.core < (run x.dw ops).tables.length)
    (hL : LogOnly (run x.dw ops) wr.core) (ha : AlignOK ((run x.dw ops).view wr.core)) :
    let w := run x.dw ops
    let n := (w.table wr.core).nColumns
    let v' := (invokeRenderCallbacks x.dw w wr.core).view wr.core
    let m := (w.renderTo x wr).2
    m = renderMarkdown x.dw v' ∧
    (m.res = .ok () ↔ (w.table wr.core).header.isSome = true ∧ 1 ≤ n) ∧
    (m.res = .ok () ↔ MdOK v') ∧
    (n = 0 → m.res = .error (.err .noColumns) ∧ m.chunks = []) ∧
    (1 ≤ n → (w.table wr.core).header = none → m.res = .error (.err .noHeaders) ∧ m.chunks = []) ∧
    (m.res = .ok () →
      m.output = ((lines m.output).map (· ++ [LF])).flatten ∧
      (lines m.output).length = 2 + w.bodyRowCount wr.core ∧
      ∀ l ∈ lines m.output,
        LF ∉ l ∧ unescapedPipes l = n + 1 ∧ l.count 124 = n + 1 ∧ (splitPipes l).length = n + 2) := by
  intro w n v' m
  have hm : m = renderMarkdown x.dw v' := by
    show (w.renderTo x wr).2 = _
    rw [renderTo_markdown x w wr hk]
  obtain ⟨_, hwf, hlen, _⟩ := c02_view_wf_after_callbacks x.dw (c02_inv_run x.dw ops hv) wr.core ht
  have ha' : AlignOK v' := alignOK_irc x.dw w wr.core hL ha
  have hal : AlignsOK v' := alignsOK_of_alignOK v' hlen ha'
  have hn : v'.ncols = n := by
    show v'.ncols = (w.table wr.core).nColumns
    rw [irc_view_ncols x.dw w wr.core hL]; rfl
  have hh : v'.header.isSome = (w.table wr.core).header.isSome := irc_view_header_isSome x.dw w wr.core hL
  have hmd : m.res = .ok () ↔ MdOK v' := by rw [hm]; exact c08_ok_iff x.dw v' hal
  have hiff : MdOK v' ↔ (w.table wr.core).header.isSome = true ∧ 1 ≤ n := by
    unfold MdOK
    rw [hn, hh]
    exact ⟨fun h => ⟨h.2.1, h.1⟩, fun h => ⟨h.2, h.1, hwf, hal⟩⟩
  refine ⟨hm, hmd.trans hiff, hmd, ?_, ?_, ?_⟩
  · intro h0; rw [hm]; exact c08_refuse_no_columns x.dw v' (by rw [hn]; exact h0)
  · intro h1 hnone
    rw [hm]
    apply c08_refuse_no_headers x.dw v' (by rw [hn]; exact h1)
    have : v'.header.isSome = false := by rw [hh, hnone]; rfl
    cases hv' : v'.header with
    | none => rfl
    | some _ => rw [hv'] at this; cases this
  · intro hok
    have hMd := hmd.mp hok
    obtain ⟨h1, h2, h3⟩ := c08_structure x.dw v' hMd
    rw [hm]
    refine ⟨h1, ?_, ?_⟩
    · rw [h2, bodyRows_view_length, irc_bodyRowCount x.dw w wr.core hL]
    · intro l hl
      have := h3 l hl
      rw [hn] at this
      exact this

/-! ### the measured view, as a function of the built world -/

/-- With the measuring callback registered (`Needs`, true after `X.Wrap`: `e2e_wrap`) the text and
    markdown renderers emit exactly what they emit on `canonView`, the view computed from the built
    world alone: each cell has the text / emptiness of the world's cell, `cellWidth` and `mdw` equal
    to the cell's `TerminalCellWidth`, and `lws` = its text lines with the widths `dimProps` gives
    them (`canonCell_content`, `canonCell_tt`, `canonCell_md` in Proofs/E2EText.lean). -/
theorem e2e_measured_view (x : Ext) (w : World) (wr : Wrapper) (hL : LogOnly w wr.core) (hN : Needs w wr) :
    (wr.kind = .text → wr.decor ≠ emptyDecoration →
      (w.renderTo x wr).2 = renderTextBody wr.decor (canonView x.dw true false w wr.core)) ∧
    (wr.kind = .markdown →
      (w.renderTo x wr).2 = renderMarkdown x.dw (canonView x.dw false true w wr.core)) := by
  constructor
  · intro hk hd
    rw [renderTo_text x w wr hk hd]
    rw [← view_measured_irc x.dw true false w wr.core hL (fun _ => hN.1 hk) (fun h => Bool.noConfusion h),
      renderTextBody_mapCells wr.decor (RCell.mask true false) (fun _ => rfl) (fun _ => rfl)]
  · intro hk
    rw [renderTo_markdown x w wr hk]
    rw [← view_measured_irc x.dw false true w wr.core hL (fun h => Bool.noConfusion h) (fun _ => hN.2 hk),
      renderMarkdown_mapCells x.dw (RCell.mask false true) (fun _ => rfl) (fun _ => rfl)]

/-! ### 5. text tables -/

/-- Text table of a table built by any valid history that was wrapped as text at least once
    (`Needs`), under `LogOnly`, with a complete or boxless decoration, alignments in their domain and
    at least one column: every cell of the view the renderer reads satisfies `CellOK` (it was
    measured by the callbacks pass), the render succeeds, and it writes exactly the specified chunk
    list `specChunks` (= the right-hand side of `c03_line_structure`): top rule, header lines and
    header rule, one rule per separator, each row's content lines, bottom rule. -/
theorem e2e_text (x : Ext) (ops : List BuildOp) (hv : Valid ops = true) (wr : Wrapper) (hk : wr.kind = .text)
    (ht : wr.core < (run x.dw ops).tables.length) (hL : LogOnly (run x.dw ops) wr.core)
    (hN : Needs (run x.dw ops) wr) (hd : DecoOK x.dw wr.decor)
    (ha : AlignOK ((run x.dw ops).view wr.core)) (hn : 1 ≤ ((run x.dw ops).table wr.core).nColumns) :
    let w := run x.dw ops
    let v' := (invokeRenderCallbacks x.dw w wr.core).view wr.core
    let m := (w.renderTo x wr).2
    m = renderTextBody wr.decor v' ∧
    v'.ncols = (w.table wr.core).nColumns ∧ WFShape v' ∧ AlignOK v' ∧
    (∀ c ∈ v'.allCells, CellOK x.dw c) ∧
    (∀ c ∈ v'.allCells, ∃ r ∈ (w.table wr.core).header.toList ++ (w.table wr.core).rows,
      ∃ ce ∈ w.rowCells r, c.text = ce.str ∧ c.empty = ce.empty ∧ c.cellWidth = ce.termWidth) ∧
    m.res = .ok () ∧
    m.chunks = specChunks wr.decor v' := by
  intro w v' m
  have hm : m = renderTextBody wr.decor v' := by
    show (w.renderTo x wr).2 = _
    rw [renderTo_text x w wr hk (decoOK_ne_empty hd)]
  obtain ⟨_, hwf, _, _⟩ := c02_view_wf_after_callbacks x.dw (c02_inv_run x.dw ops hv) wr.core ht
  have ha' : AlignOK v' := alignOK_irc x.dw w wr.core hL ha
  have hnc : v'.ncols = (w.table wr.core).nColumns := by
    rw [irc_view_ncols x.dw w wr.core hL]; rfl
  have hn' : 1 ≤ v'.ncols := by rw [hnc]; exact hn
  have hcells : ∀ c ∈ v'.allCells, CellOK x.dw c := cellOK_irc x.dw w wr.core hL (hN.1 hk)
  refine ⟨hm, hnc, hwf, ha', hcells, cell_src_irc x.dw w wr.core hL (hN.1 hk), ?_, ?_⟩
  · rw [hm]; exact c03_ok x.dw wr.decor v' hn' hwf ha' hd hcells
  · rw [hm]
    exact c03_line_structure_aux wr.decor v' hn' hwf ha' hd.divs_header hd.divs_body
      (fun c hc => (hcells c hc).nonneg)

/-- The rectangle, for the real render.  If moreover every cell of the built table satisfies
    `Cell.FitsSrc` (`TableFits`: its stored width is what its text measures and its item declares no
    width, or the item declares a width and the text is one line — true of every cell freshly made
    from an item that is not a nested `Cell` and has no width override, `fitsSrc_update`), then the
    view is `ViewOK`, and with a complete boxed decoration EVERY line written is a line of segments
    of the same segment-sum width `1 + Σ (cwᵢ + 3)` with its dividers at the same offsets
    `[0, cw₀+3, cw₀+cw₁+6, …]`. -/
theorem e2e_text_rectangle (x : Ext) (ops : List BuildOp) (hv : Valid ops = true) (wr : Wrapper)
    (hk : wr.kind = .text) (ht : wr.core < (run x.dw ops).tables.length)
    (hL : LogOnly (run x.dw ops) wr.core) (hN : Needs (run x.dw ops) wr) (hg : GlyphOK x.dw wr.decor)
    (ha : AlignOK ((run x.dw ops).view wr.core)) (hn : 1 ≤ ((run x.dw ops).table wr.core).nColumns)
    (hF : TableFits x.dw (run x.dw ops) wr.core) :
    let w := run x.dw ops
    let v' := (invokeRenderCallbacks x.dw w wr.core).view wr.core
    let m := (w.renderTo x wr).2
    ViewOK x.dw v' ∧ m.res = .ok () ∧
    ∀ ch ∈ m.chunks, ∃ segs, ch = segBytes segs ++ [LF] ∧
      segWidth x.dw segs = 1 + (v'.colWidths.map (· + 3)).sum ∧
      divOffsets x.dw 0 segs = colOffsets 0 v'.colWidths := by
  intro w v' m
  obtain ⟨hm, hnc, hwf, ha', _, _, hok, _⟩ := e2e_text x ops hv wr hk ht hL hN (Or.inl hg) ha hn
  have hV : ViewOK x.dw v' := viewOK_irc x.dw w wr.core hL (hN.1 hk) hF
  refine ⟨hV, hok, ?_⟩
  show ∀ ch ∈ (w.renderTo x wr).2.chunks, _
  rw [show (w.renderTo x wr).2 = renderTextBody wr.decor v' from hm]
  exact c03_rectangle x.dw wr.decor v' (by rw [hnc]; exact hn) hwf ha' hg hV

/-- The same for the boxless decoration: every chunk is empty (a rule) or a line of slots joined by
    single spaces, every slot its column wide, of segment-sum width `Σ cwᵢ + (n − 1)`. -/
theorem e2e_text_rectangle_boxless (x : Ext) (ops : List BuildOp) (hv : Valid ops = true) (wr : Wrapper)
    (hk : wr.kind = .text) (ht : wr.core < (run x.dw ops).tables.length)
    (hL : LogOnly (run x.dw ops) wr.core) (hN : Needs (run x.dw ops) wr) (hb : BoxlessOK wr.decor)
    (ha : AlignOK ((run x.dw ops).view wr.core)) (hn : 1 ≤ ((run x.dw ops).table wr.core).nColumns)
    (hF : TableFits x.dw (run x.dw ops) wr.core) :
    let w := run x.dw ops
    let v' := (invokeRenderCallbacks x.dw w wr.core).view wr.core
    let m := (w.renderTo x wr).2
    ViewOK x.dw v' ∧ m.res = .ok () ∧
    ∀ ch ∈ m.chunks, ch = [] ∨ ∃ slots, ch = segBytes (boxlessSegs slots) ++ [LF] ∧
      slots.map SlotD.width = v'.colWidths ∧
      segWidth x.dw (boxlessSegs slots) = v'.colWidths.sum + (v'.colWidths.length - 1) := by
  intro w v' m
  obtain ⟨hm, hnc, hwf, ha', _, _, hok, _⟩ := e2e_text x ops hv wr hk ht hL hN (Or.inr hb) ha hn
  have hV : ViewOK x.dw v' := viewOK_irc x.dw w wr.core hL (hN.1 hk) hF
  refine ⟨hV, hok, ?_⟩
  show ∀ ch ∈ (w.renderTo x wr).2.chunks, _
  rw [show (w.renderTo x wr).2 = renderTextBody wr.decor v' from hm]
  exact c03_rectangle_boxless x.dw wr.decor v' (by rw [hnc]; exact hn) hwf ha' hb hV

/-! ### 6. totality, all five kinds, decoration hypothesis discharged -/

/-- No panic, for every valid history, every wrapper kind, and — for text — every built-in
    decoration, every `Populate`-completed decoration and the empty one (which is refused):
    `c09_total` with its decoration hypothesis discharged.  `ha`: alignment properties (as the
    renderer reads them, after the callbacks pass) are unset or left / right / centre. -/
theorem e2e_no_panic_any_history (x : Ext) (ops : List BuildOp) (hv : Valid ops = true) (wr : Wrapper)
    (ht : wr.core < (run x.dw ops).tables.length)
    (ha : AlignOK ((invokeRenderCallbacks x.dw (run x.dw ops) wr.core).view wr.core))
    (hd : wr.kind = .text → (∃ p ∈ Generated.builtins, wr.decor = p.2) ∨ (∃ d : Decoration, wr.decor = d.populate)
      ∨ wr.decor = emptyDecoration) :
    ∀ site, ((run x.dw ops).renderTo x wr).2.res ≠ .error (.panic site) := by
  by_cases hk : wr.kind = .text
  · have hT : DecorTotal wr.decor := by
      rcases hd hk with ⟨p, hp, e⟩ | ⟨d, e⟩ | e
      · rw [e]; exact c09_builtins_total p hp
      · rw [e]; exact c09_populated_total d
      · rw [e]; exact Or.inr ⟨rfl, rfl, rfl⟩
    exact c09_total x ops hv wr ht ha hT
  · have hT : DecorTotal ({ wr with decor := emptyDecoration } : Wrapper).decor := Or.inr ⟨rfl, rfl, rfl⟩
    have he : (run x.dw ops).renderTo x wr = (run x.dw ops).renderTo x { wr with decor := emptyDecoration } := by
      unfold renderTo
      cases hk' : wr.kind with
      | text => exact absurd hk' hk
      | _ => rfl
    rw [he]
    exact c09_total x ops hv { wr with decor := emptyDecoration } ht ha hT

/-- Under `LogOnly` the alignment hypothesis can be checked on the built world. -/
theorem e2e_no_panic_logonly (x : Ext) (ops : List BuildOp) (hv : Valid ops = true) (wr : Wrapper)
    (ht : wr.core < (run x.dw ops).tables.length) (hL : LogOnly (run x.dw ops) wr.core)
    (ha : AlignOK ((run x.dw ops).view wr.core))
    (hd : wr.kind = .text → (∃ p ∈ Generated.builtins, wr.decor = p.2) ∨ (∃ d : Decoration, wr.decor = d.populate)
      ∨ wr.decor = emptyDecoration) :
    ∀ site, ((run x.dw ops).renderTo x wr).2.res ≠ .error (.panic site) :=
  e2e_no_panic_any_history x ops hv wr ht (alignOK_irc x.dw _ wr.core hL ha) hd

/-! ### non-vacuity: a concrete history, every capstone instantiated on it (`dw := List.length`)

  `e2eHist` / `e2eOps` (Proofs/E2EExample.lean): items "a" … "f"; one table with a logging user
  callback on its cells; headers `a b`; a row `c d`; a separator; a pre-built ragged row `e`
  attached afterwards; column 1 right-aligned; an earlier render; then wrapped as text and as
  markdown (`wrapOps`). -/

namespace E2EExample

-- e2e_wrap: the example history IS "build, then Wrap twice"
example : run e2eX.dw e2eOps = ((run e2eX.dw e2eHist).wrapEffect .text 0).wrapEffect .markdown 0 := by
  have h1 := (e2e_wrap e2eX.dw e2eHist (by decide +kernel) .text 0 (by decide +kernel)).1
  have h2 := (e2e_wrap e2eX.dw (e2eHist ++ wrapOps .text 0) (by decide +kernel) .markdown 0
    (by decide +kernel)).1
  rw [← h1, ← h2]; rfl
example : Needs (run e2eX.dw (e2eHist ++ wrapOps .text 0)) e2eText :=
  (e2e_wrap e2eX.dw e2eHist (by decide +kernel) .text 0 (by decide +kernel)).2.2.2.2 e2eText rfl rfl

-- e2e_wrapped_needs: the text wrap is followed by another step, `Needs` still holds
example : Needs (run e2eX.dw e2eOps) e2eText :=
  e2e_wrapped_needs e2eX.dw e2eHist (wrapOps .markdown 0) e2eText (by decide +kernel)

-- 1. texts are stable (and the view really does change: the measurements are written)
example := e2e_texts_stable e2eX.dw (run e2eX.dw e2eOps) 0 hL
example := e2e_texts_stable_cell e2eX.dw (run e2eX.dw e2eOps) 0 hL 0 1
example : (invokeRenderCallbacks e2eX.dw (run e2eX.dw e2eOps) 0).view 0 ≠ (run e2eX.dw e2eOps).view 0 := by
  decide +kernel
example : ((run e2eX.dw e2eOps).view 0).rows.map (·.map (·.map RCell.content)) =
    [some [([99], false, some [34, 99, 34]), ([100], false, some [34, 100, 34])], none,
     some [([101], false, some [34, 101, 34])]] := by decide +kernel

-- 2. CSV: what the reader gets back from the real output
example : (run e2eX.dw e2eOps).csvRecords 0 = [[[97], [98]], [[99], [100]], [[101], []]] := by decide +kernel
example : parse4180 ((run e2eX.dw e2eOps).renderTo e2eX e2eCsv).2.output =
    some [[[97], [98]], [[99], [100]], [[101], []]] := by
  have h := ((e2e_csv e2eX e2eOps hv e2eCsv rfl ht hL).2.2 hn).2.1
  rw [h]; decide +kernel
-- … the refusal branch: a table with no columns
example : Valid [BuildOp.newTable] = true ∧ LogOnly (run e2eX.dw [.newTable]) 0 ∧
    ((run e2eX.dw [.newTable]).table 0).nColumns = 0 := by decide +kernel
example : ((run e2eX.dw [.newTable]).renderTo e2eX e2eCsv).2.res = .error (.err .noColumns) :=
  ((e2e_csv e2eX [.newTable] (by decide) e2eCsv rfl (by decide +kernel) (by decide +kernel)).2.1
    (by decide +kernel)).1
-- … and on the example history of C02 (five rows, four columns, all items nil)
example : LogOnly (run List.length exHist) 0 := by decide +kernel
example := e2e_csv e2eX exHist (by decide) e2eCsv rfl (by decide +kernel) (by decide +kernel)

-- 3. JSON
example : JsonOK ((run e2eX.dw e2eOps).view 0) := by decide +kernel
example : ((run e2eX.dw e2eOps).renderTo e2eX e2eJson).2.res = .ok () :=
  (e2e_json e2eX e2eOps hv e2eJson rfl ht hL).2.2.1.mpr (by decide +kernel)
example : objects e2eX.js ((run e2eX.dw e2eOps).view 0) =
    [[([34, 97, 34], [34, 99, 34]), ([34, 98, 34], [34, 100, 34])], [([34, 97, 34], [34, 101, 34])]] := by
  decide +kernel
-- … the error branch: on C02's history the header texts are empty, so `JsonOK` fails, the render
-- is an error (not a panic) and `Render` returns no text
example : ¬ JsonOK ((run e2eX.dw exHist).view 0) := by decide +kernel
example : ∃ s, ((run e2eX.dw exHist).renderTo e2eX e2eJson).2.res = .error s ∧
    (renderString ((run e2eX.dw exHist).renderTo e2eX e2eJson).2).1 = [] := by
  obtain ⟨_, _, hiff, _, _, herr⟩ := e2e_json e2eX exHist (by decide) e2eJson rfl (by decide +kernel)
    (by decide +kernel)
  cases hr : ((run e2eX.dw exHist).renderTo e2eX e2eJson).2.res with
  | ok u => exact absurd (hiff.mp hr) (by decide +kernel)
  | error s => exact ⟨s, rfl, (herr s hr).1⟩

-- HTML: three `<tr>` (header and two body rows)
example : ((tokenize ((run e2eX.dw e2eOps).renderTo e2eX { kind := .html, core := 0 }).2.output).filter
    isTrOpen).length = 3 := by
  rw [(e2e_html e2eX (run e2eX.dw e2eOps) { kind := .html, core := 0 } rfl hL).2.2.2.2]
  decide +kernel

-- 4. Markdown: header + delimiter + two body rows, three pipes per line
example : ((run e2eX.dw e2eOps).renderTo e2eX e2eMd).2.res = .ok () :=
  (e2e_markdown e2eX e2eOps hv e2eMd rfl ht hL ha).2.1.mpr (by decide +kernel)
example : (lines ((run e2eX.dw e2eOps).renderTo e2eX e2eMd).2.output).length = 4 := by
  have hok := (e2e_markdown e2eX e2eOps hv e2eMd rfl ht hL ha).2.1.mpr (by decide +kernel)
  rw [((e2e_markdown e2eX e2eOps hv e2eMd rfl ht hL ha).2.2.2.2.2 hok).2.1]
  decide +kernel
-- … the refusal branch: no header
example : ((run e2eX.dw [.newTable, .addRowItems 0 [0]]).renderTo e2eX e2eMd).2.res =
    .error (.err .noHeaders) :=
  ((e2e_markdown e2eX [.newTable, .addRowItems 0 [0]] (by decide) e2eMd rfl (by decide +kernel)
    (by decide +kernel) (alignOK_of_alignOKb _ (by decide +kernel))).2.2.2.2.1
      (by decide +kernel) (by decide +kernel)).1

-- the measured view
example := (e2e_measured_view e2eX (run e2eX.dw e2eOps) e2eText hL hNt).1 rfl (by decide)
example := (e2e_measured_view e2eX (run e2eX.dw e2eOps) e2eMd hL hNm).2 rfl

-- 5. text: the real render succeeds, is the specified chunk list, and is a rectangle 9 wide with
--    dividers at 0, 4, 8
example : ((run e2eX.dw e2eOps).renderTo e2eX e2eText).2.res = .ok () :=
  (e2e_text e2eX e2eOps hv e2eText rfl ht hL hNt (Or.inl TextExample.hg) ha hn).2.2.2.2.2.2.1
example : ((run e2eX.dw e2eOps).renderTo e2eX e2eBoxless).2.res = .ok () :=
  (e2e_text e2eX e2eOps hv e2eBoxless rfl ht hL hNb (Or.inr TextExample.hb) ha hn).2.2.2.2.2.2.1
example : ((invokeRenderCallbacks e2eX.dw (run e2eX.dw e2eOps) 0).view 0).colWidths = [1, 1] := by
  decide +kernel
example : ∀ ch ∈ ((run e2eX.dw e2eOps).renderTo e2eX e2eText).2.chunks, ∃ segs,
    ch = segBytes segs ++ [LF] ∧ segWidth List.length segs = 9 ∧
    divOffsets List.length 0 segs = [0, 4, 8] := by
  have h := (e2e_text_rectangle e2eX e2eOps hv e2eText rfl ht hL hNt TextExample.hg ha hn hF).2.2
  intro ch hch
  obtain ⟨segs, h1, h2, h3⟩ := h ch hch
  exact ⟨segs, h1, h2.trans (by decide +kernel), h3.trans (by decide +kernel)⟩
example := e2e_text_rectangle_boxless e2eX e2eOps hv e2eBoxless rfl ht hL hNb TextExample.hb ha hn hF
/-- the table as written:
```
+---+---+
| a | b |
+---+---+
| c | d |
+---+---+
| e |   |
+---+---+
``` -/
example : ((run e2eX.dw e2eOps).renderTo e2eX e2eText).2.output =
    [43,45,45,45,43,45,45,45,43,10, 124,32,97,32,124,32,98,32,124,10, 43,45,45,45,43,45,45,45,43,10,
     124,32,99,32,124,32,100,32,124,10, 43,45,45,45,43,45,45,45,43,10,
     124,32,101,32,124,32,32,32,124,10, 43,45,45,45,43,45,45,45,43,10] := by decide +kernel
-- `TableFits` fails exactly where it should: an item declaring width 1 for a two-line text
example : ¬ Cell.FitsSrc List.length { TextExample.wideItem with kind := .str [97, 10, 98] }
    (newCell List.length 0 { TextExample.wideItem with kind := .str [97, 10, 98] }) := by decide +kernel
example : Cell.FitsSrc List.length (exItem 97) (newCell List.length 0 (exItem 97)) :=
  fitsSrc_update _ _ _ (by intro s w h e hk; cases hk) rfl

-- 6. no panic: built-in decoration, populated decoration, the empty one, and a non-text kind
example : ([117, 116, 102, 56, 45, 104, 101, 97, 118, 121], Generated.heavy) ∈ Generated.builtins := by
  decide
example := e2e_no_panic_logonly e2eX e2eOps hv e2eHeavy ht hL ha
  (fun _ => Or.inl ⟨([117, 116, 102, 56, 45, 104, 101, 97, 118, 121], Generated.heavy), by decide, rfl⟩)
example := e2e_no_panic_logonly e2eX e2eOps hv e2eText ht hL ha (fun _ => Or.inr (Or.inl ⟨_, rfl⟩))
example := e2e_no_panic_logonly e2eX e2eOps hv { e2eText with decor := emptyDecoration } ht hL ha
  (fun _ => Or.inr (Or.inr rfl))
example := e2e_no_panic_any_history e2eX e2eOps hv e2eCsv ht (alignOK_irc _ _ _ hL ha)
  (fun h => by cases h)

end E2EExample

end Tab
