/-
  C12, history level — Properties behave as an independent key-to-value map for each owner, along
  every history of API calls.

  Vocabulary: pa_world's histories (`Spec/World.lean`: `BuildOp`, `applyOp`, `run`), owners are
  `Target` values (`.table t`, `.column t n` incl. the defaults column 0, `.row r`, `.cell r c`,
  `.copy n` = a by-value copy of a cell held by the caller), `Cb.writes` of C13x, and the definitions
  of `Proofs/C12hDefs.lean` (definitions only), in short:

  * `lastSetOn ops o k`: the value of the last `setProp o k v` of the history addressed to exactly
    that owner and key, `none` if there is none or it set nil.  Computed by a forward pass
    (`PState.step`) that records a value only for the three operations that can give an owner a
    value: `setProp` (on an existing owner; on a missing owner it is a no-op, as in the model),
    `copyCell` (the new copy starts with what the original has at that moment) and `rowAddCell`
    (Row.Add of a ready-made cell value: the new cell starts with what the value carries).  The
    theorems `c12h_last_*` below restate it as a recursion on the last operation of the history.
  * `QuietFor k ops`: no callback registered by the history (or carried by a ready-made cell) may
    write key `k`.  `NoSetCbs ops`: no `.setProp` callback at all (user callbacks log or fail; the
    measuring callbacks of texttable/markdown, which write only the three private keys, are allowed).
  * `CellsOk ops`: the chains of ready-made cell values hold one link per key (always true of values
    the Go API can produce).
  * `keysSetOn ops o`: the distinct keys of the history whose last set on `o` is not nil.
  * `setsOn ops o`: the `(key, value)` pairs of the `setProp`s addressed to exactly `o`, in order;
    `Addressed ops`: every `setProp` addresses an owner that exists at that point; `NoInherit ops o`:
    `o` is a table, column or row, or a cell of a history without ready-made cell values.
  * `Passive ops`: every callback of the history only logs or fails.
  * for callbacks that DO write the key: a writer table `f : id ↦ value` (`WritersOk f k ops`: the
    callbacks with id `id` are exactly `.setProp id k v` when `f id = some v`, and do not write `k`
    when `f id = none`), and `lastSetOnCb f dw ops k o`, which replays, operation by operation, the
    direct effect (`directK`: the three value-giving operations) and then the invocations the
    operation appended to the event log (`evApply`: an invocation of a writer on an existing target
    is a set on that target).  The order of the log is what C13x documents.

  None of the theorems needs `Valid ops`: operations addressed to owners that do not exist are
  no-ops in the model and in `lastSetOn` alike, so the statements hold for every history.
  Helper lemmas are in `Tab.C12h` (`Tabmodel/Proofs/C12h*.lean`); the traversals are handled with
  the induction principles of C13x (`invokeRenderCallbacks_any`, `addRow_any`, `rowAddCell_any`, ...).
-/
import Tabmodel.Proofs.C12hWRun
import Tabmodel.Props.C12
namespace Tab
open World C13 C13x C12h

/-! ## Refinement: a get returns the last value set on exactly that owner -/

/-- For EVERY key `k` (user or private) that no callback of the history may write — `.setProp`
    callbacks on other keys, failing callbacks and the measuring callbacks (for a user `k`) are all
    allowed — and every owner `o`, existing or not: after the history, `o` reports for `k` the value
    last set on `o`.  So a set on one owner never changes another (tables, columns incl. the defaults
    column, rows, cells, copies and their originals); growing the table never disturbs a column;
    appending cells never disturbs existing cells; renders never disturb `k`. -/
theorem c12h_refine_key (dw : Measure) (ops : List BuildOp) (k : Key) (hq : QuietFor k ops) (hc : CellsOk ops)
    (o : Target) : (run dw ops).getProp o k = lastSetOn ops o k :=
  ((refines_runFrom dw k ops {} {} (refines_empty k) (quiet_empty k) allNodup_empty hq hc).1).val o

/-- The user keys (`Key.user _`, `.align`, `.skipable`) in a history whose user callbacks only log or
    fail, measuring callbacks allowed. -/
theorem c12h_refine (dw : Measure) (ops : List BuildOp) (hs : NoSetCbs ops) (hc : CellsOk ops)
    (o : Target) (k : Key) (hk : k.isUser = true) : (run dw ops).getProp o k = lastSetOn ops o k :=
  c12h_refine_key dw ops k (quietFor_of_noSetCbs hs hk) hc o

/-- Every key, private ones included, when all callbacks only log or fail. -/
theorem c12h_refine_passive (dw : Measure) (ops : List BuildOp) (hp : Passive ops) (hc : CellsOk ops)
    (o : Target) (k : Key) : (run dw ops).getProp o k = lastSetOn ops o k :=
  c12h_refine_key dw ops k (quietFor_of_passive hp k) hc o

/-- The world a history builds has no callback that may write `k`, if the history brought none. -/
theorem c12h_quiet_run (dw : Measure) (ops : List BuildOp) (k : Key) (hq : QuietFor k ops) (hc : CellsOk ops) :
    Quiet k (run dw ops) :=
  (refines_runFrom dw k ops {} {} (refines_empty k) (quiet_empty k) allNodup_empty hq hc).2

/-! ## `lastSetOn`, read backwards from the last operation -/

/-- a `setProp` on an existing owner is the last set for its (owner, key) and for nothing else -/
theorem c12h_last_set (ops : List BuildOp) (o : Target) (k : Key) (v : Option Val) (o' : Target) (k' : Key) :
    lastSetOn (ops ++ [.setProp o k v]) o' k' =
      if (Shape.runFrom {} ops).hasOwner (PState.after ops).ncopies o = true ∧ o' = o ∧ k' = k then v
      else lastSetOn ops o' k' := by
  simp only [lastSetOn, after_snoc, PState.step, after_shape]
  by_cases h : (Shape.runFrom {} ops).hasOwner (PState.after ops).ncopies o = true
  · simp only [h, if_true, true_and]
  · simp [h]

/-- a copy of an existing cell starts with what the original has, for every key; nothing else changes -/
theorem c12h_last_copy (ops : List BuildOp) (r c : Nat) (o : Target) (k : Key) :
    lastSetOn (ops ++ [.copyCell r c]) o k =
      if c < (Shape.runFrom {} ops).width r ∧ o = .copy (PState.after ops).ncopies then lastSetOn ops (.cell r c) k
      else lastSetOn ops o k := by
  simp only [lastSetOn, after_snoc, PState.step, after_shape]
  by_cases h : c < (Shape.runFrom {} ops).width r
  · simp only [h, if_true, true_and]
  · simp only [h, if_false, false_and]

/-- a ready-made cell value appended to an existing row with a cell slice of length `n` becomes cell
    `(r, n)` and starts with what the value carries; nothing else changes -/
theorem c12h_last_cell (ops : List BuildOp) (r : Nat) (ce : Cell) (o : Target) (k : Key) :
    lastSetOn (ops ++ [.rowAddCell r ce]) o k =
      match ((Shape.runFrom {} ops).row r).cells with
      | some cs =>
        if r < (Shape.runFrom {} ops).rows.length ∧ o = .cell r cs.length then ce.props.get k else lastSetOn ops o k
      | none => lastSetOn ops o k := by
  simp only [lastSetOn, after_snoc, PState.step, after_shape]
  by_cases h : r < (Shape.runFrom {} ops).rows.length
  · simp only [h, if_true, true_and]
    cases ((Shape.runFrom {} ops).row r).cells <;> rfl
  · simp only [h, if_false, false_and]
    cases ((Shape.runFrom {} ops).row r).cells <;> rfl

/-- every other operation — all building calls, `Row.Add(NewCell(item))`, registration, renders, ... —
    changes no recorded value -/
theorem c12h_last_other (ops : List BuildOp) (op : BuildOp) (h1 : ∀ o k v, op ≠ .setProp o k v)
    (h2 : ∀ r c, op ≠ .copyCell r c) (h3 : ∀ r ce, op ≠ .rowAddCell r ce) (o : Target) (k : Key) :
    lastSetOn (ops ++ [op]) o k = lastSetOn ops o k := by
  simp only [lastSetOn, after_snoc]
  cases op with
  | setProp o k v => exact absurd rfl (h1 o k v)
  | copyCell r c => exact absurd rfl (h2 r c)
  | rowAddCell r ce => exact absurd rfl (h3 r ce)
  | _ => rfl

/-- nothing is set after the empty history -/
theorem c12h_last_nil (o : Target) (k : Key) : lastSetOn [] o k = none := rfl

/-- For an owner that never inherits (table, column, row; cell of a history without ready-made cell
    values), in a history that only addresses existing owners, `lastSetOn` is literally C12's
    `lastSet` of the sets addressed to that owner: the owner's chain is the map `c12_refine` describes,
    fed with exactly its own sets — whatever else happens in the history. -/
theorem c12h_last_eq_lastSet (ops : List BuildOp) (ha : Addressed ops) (o : Target) (hn : NoInherit ops o = true)
    (k : Key) : lastSetOn ops o k = lastSet (setsOn ops o) k := by
  have := foldl_val_sets o k ops {} ha hn
  unfold lastSetOn PState.after lastSet
  rw [this]
  rfl

/-- ... so, for such owners, a get after the history returns the last value set for that key on that
    owner (user keys; callbacks log, fail or measure). -/
theorem c12h_refine_lastSet (dw : Measure) (ops : List BuildOp) (hs : NoSetCbs ops) (hc : CellsOk ops)
    (ha : Addressed ops) (o : Target) (hn : NoInherit ops o = true) (k : Key) (hk : k.isUser = true) :
    (run dw ops).getProp o k = lastSet (setsOn ops o) k := by
  rw [c12h_refine dw ops hs hc o k hk, c12h_last_eq_lastSet ops ha o hn k]

/-! ## One step, in any world: what cannot change a property -/

/-- In ANY world none of whose callbacks may write `k`: every operation other than `setProp`,
    `copyCell` and `rowAddCell` (so: every table-building call incl. those that grow the table, `Row.Add`
    of a new cell on attached or unattached rows, registration of a callback that does not write `k`,
    `Cell.Update`, renders, ...) leaves `k` as it was on every owner. -/
theorem c12h_step_frame (dw : Measure) (w : World) (op : BuildOp) (k : Key) (hq : Quiet k w)
    (hop : op.cbsAll (fun cb => !cb.writes k) = true) (h1 : ∀ o k v, op ≠ .setProp o k v)
    (h2 : ∀ r c, op ≠ .copyCell r c) (h3 : ∀ r ce, op ≠ .rowAddCell r ce) (o : Target) :
    (applyOp dw w op).getProp o k = w.getProp o k ∧ Quiet k (applyOp dw w op) := by
  refine ⟨?_, quiet_applyOp dw hq op hop⟩
  by_cases hp : plain op = true
  · exact (keeps_applyOp dw k w op hp).val hq o
  · cases op with
    | setProp o k v => exact absurd rfl (h1 o k v)
    | copyCell r c => exact absurd rfl (h2 r c)
    | rowAddCell r ce => exact absurd rfl (h3 r ce)
    | regCb o' tm tg cb =>
      simp only [applyOp]
      cases e : registerCb w o' tm tg cb with
      | none => rfl
      | some w' => rw [Option.getD_some, getProp_eq_get, chainOf_registerCb e, ← getProp_eq_get]
    | _ => simp [plain] at hp

/-- `Row.Add` of a ready-made cell value changes `k` on no owner but the new cell. -/
theorem c12h_step_frame_cell (dw : Measure) (w : World) (r : Nat) (ce : Cell) (k : Key) (hq : Quiet k w)
    (hce : ce.cbs.all (fun cb => !cb.writes k) = true) (o : Target)
    (ho : ∀ cs, (w.row r).cells = some cs → o ≠ .cell r cs.length) :
    (applyOp dw w (.rowAddCell r ce)).getProp o k = w.getProp o k := by
  show (rowAddCell dw w r ce).getProp o k = _
  rcases rowAddCell_cases dw k w r ce with ⟨hk, _⟩ | ⟨cs, hlt, hcs, hk⟩
  · exact hk.val hq o
  · rw [hk.val (quiet_rowAddLinked hq hlt hcs ce hce) o, getProp_eq_get, chainOf_rowAddLinked hlt hcs,
      if_neg (ho cs hcs), ← getProp_eq_get]

/-- A `setProp` appended to ANY history (any callbacks) changes nothing but its own (owner, key):
    `c12_copy_frame`, `c12_copy_frame_rev`, `c12_frame_*` lifted to histories. -/
theorem c12h_set_frame (dw : Measure) (ops : List BuildOp) (o : Target) (k : Key) (v : Option Val) (o' : Target)
    (k' : Key) (h : o ≠ o' ∨ k ≠ k') :
    (run dw (ops ++ [.setProp o k v])).getProp o' k' = (run dw ops).getProp o' k' := by
  rw [run_snoc]; exact getProp_setProp_frame _ o k v o' k' h

/-- a set on a copy never changes its original, nor the reverse, after any history -/
theorem c12h_copy_frame (dw : Measure) (ops : List BuildOp) (n r c : Nat) (k k' : Key) (v : Option Val) :
    (run dw (ops ++ [.setProp (.copy n) k v])).getProp (.cell r c) k' = (run dw ops).getProp (.cell r c) k' ∧
    (run dw (ops ++ [.setProp (.cell r c) k v])).getProp (.copy n) k' = (run dw ops).getProp (.copy n) k' :=
  ⟨c12h_set_frame dw ops _ k v _ k' (.inl (by simp)), c12h_set_frame dw ops _ k v _ k' (.inl (by simp))⟩

/-- copying an existing cell after any history: the new copy reads like the original on every key, and
    every other owner (the original included) reads as before -/
theorem c12h_copy_snapshot (dw : Measure) (ops : List BuildOp) (r c : Nat)
    (h : (run dw ops).hasObj (.cell r c)) (o : Target) (k : Key) :
    (run dw (ops ++ [.copyCell r c])).getProp o k =
      if o = .copy (run dw ops).copies.length then (run dw ops).getProp (.cell r c) k
      else (run dw ops).getProp o k := by
  rw [run_snoc]
  obtain ⟨ce, hce⟩ := Option.isSome_iff_exists.mp h
  simp only [applyOp, hce, getProp_eq_get, chainOf_copy]
  split
  · simp [World.chainOf, hce]
  · rfl

/-! ## One link per key; repeated sets do not grow state -/

/-- After any history, with any callbacks, every owner's chain holds at most one link per key. -/
theorem c12h_nodup (dw : Measure) (ops : List BuildOp) (hc : CellsOk ops) (o : Target) :
    ((run dw ops).chainOf o).keys.Nodup :=
  allNodup_runFrom dw ops {} allNodup_empty hc o

/-- Among the keys selected by `P`, none of which a callback may write: the owner's chain holds no
    more links than there are distinct keys currently set on it. -/
theorem c12h_bounded_keys (dw : Measure) (ops : List BuildOp) (P : Key → Bool)
    (hq : ∀ k, P k = true → QuietFor k ops) (hc : CellsOk ops) (o : Target) :
    (((run dw ops).chainOf o).filter (fun l => P l.1)).length ≤ (keysSetOn ops o).length := by
  refine filter_links_le _ P _ (c12h_nodup dw ops hc o) ?_
  intro k hk hg
  rw [← getProp_eq_get, c12h_refine_key dw ops k (hq k hk) hc o] at hg
  unfold keysSetOn histKeys
  rw [List.mem_filter, List.mem_eraseDups]
  refine ⟨lastSetOn_keys ops o k hg, ?_⟩
  cases h : lastSetOn ops o k with
  | none => exact absurd h hg
  | some v => rfl

/-- User callbacks only log or fail: the links with user keys are no more than the distinct user-settable
    keys currently set on the owner — however often each was set, reset or removed. -/
theorem c12h_bounded (dw : Measure) (ops : List BuildOp) (hs : NoSetCbs ops) (hc : CellsOk ops) (o : Target) :
    (((run dw ops).chainOf o).filter (fun l => l.1.isUser)).length ≤ (keysSetOn ops o).length :=
  c12h_bounded_keys dw ops Key.isUser (fun _ hk => quietFor_of_noSetCbs hs hk) hc o

/-- No callback writes any key (e.g. all callbacks log or fail): the whole chain is bounded. -/
theorem c12h_bounded_all (dw : Measure) (ops : List BuildOp) (hq : ∀ k, QuietFor k ops) (hc : CellsOk ops)
    (o : Target) : ((run dw ops).chainOf o).length ≤ (keysSetOn ops o).length := by
  have := c12h_bounded_keys dw ops (fun _ => true) (fun k _ => hq k) hc o
  rwa [List.filter_eq_self.mpr (fun _ _ => rfl)] at this

/-- ... and that is at most the number of distinct keys the history mentions at all. -/
theorem c12h_keysSetOn_le (ops : List BuildOp) (o : Target) : (keysSetOn ops o).length ≤ (histKeys ops).length :=
  List.length_filter_le _ _

/-! ## Callbacks that write the key: every invocation acts as a set on its target -/

/-- With `.setProp id k v` callbacks allowed (registered anywhere, at any time, also carried by
    ready-made cells): after the history, owner `o` reports for `k` the value given last by a `setProp`
    operation, by inheritance, or by an invocation of a writer callback on `o` recorded in the event
    log, whichever came last. -/
theorem c12h_setprop_callbacks (dw : Measure) (ops : List BuildOp) (f : Nat → Option (Option Val)) (k : Key)
    (hw : WritersOk f k ops) (hc : CellsOk ops) (o : Target) :
    (run dw ops).getProp o k = lastSetOnCb f dw ops k o :=
  (runW_refines f k dw ops {} (fun _ => none) (fun o => (refines_empty k).val o) (cbsAll_empty _)
    allNodup_empty hw hc).2 o

/-- `lastSetOnCb`, read backwards from the last operation: its direct effect on the values so far, then
    the invocations it logged, in log order. -/
theorem c12h_lastcb_snoc (dw : Measure) (ops : List BuildOp) (op : BuildOp) (f : Nat → Option (Option Val))
    (k : Key) (o : Target) :
    lastSetOnCb f dw (ops ++ [op]) k o =
      (((run dw (ops ++ [op])).events.drop (run dw ops).events.length).foldl
        (evApply f (run dw (ops ++ [op])).has) (directK k (run dw ops) (lastSetOnCb f dw ops k) op)) o := by
  rw [lastSetOnCb_snoc, stepW_snd, run_snoc]

/-- without writers it is `lastSetOn` -/
theorem c12h_lastcb_quiet (dw : Measure) (ops : List BuildOp) (k : Key) (hq : QuietFor k ops) (hc : CellsOk ops)
    (o : Target) : lastSetOnCb (fun _ => none) dw ops k o = lastSetOn ops o k := by
  rw [← c12h_setprop_callbacks dw ops _ k (writersOk_none k hq) hc o, c12h_refine_key dw ops k hq hc o]

/-- One step in any world whose callbacks fit the writer table and whose chains hold one link per key. -/
theorem c12h_setprop_callbacks_step (dw : Measure) (w : World) (op : BuildOp) (f : Nat → Option (Option Val))
    (k : Key) (hw : CbsAll (Cb.agrees f k) w) (hn : AllNodup w) (hop : op.cbsAll (Cb.agrees f k) = true)
    (hc : op.cellOk = true) (o : Target) :
    (applyOp dw w op).getProp o k =
      (((applyOp dw w op).events.drop w.events.length).foldl (evApply f (applyOp dw w op).has)
        (directK k w (fun o => w.getProp o k) op)) o :=
  stepW_refines f k dw hw hn op hop hc o

/-! ## Non-vacuity -/

/-- a ready-made cell value carrying two properties and a callback of its own -/
def c12hCell : Cell :=
  { item := 0, props := [(.user 5, .user 50), (.align, .align 3)], cbs := { render := [.log 9] } }

/-- One table with texttable's measuring callback, a logging and a failing callback; sets on the table,
    on the defaults column, on column 2 before and after the table grows from 3 to 12 and then 14
    columns, on the last column, on a row, on a cell and on a copy of that cell (both directions); a
    set to nil; a ready-made cell value; a render. -/
def c12hEx : List BuildOp :=
  [ .newTable,
    .regCb (.table 0) .render .cell .dimSetter,
    .regCb (.table 0) .pre .cell (.log 1),
    .regCb (.table 0) .add .row (.fail 2 77),
    .setProp (.table 0) (.user 1) (some (.user 10)),
    .setProp (.column 0 0) (.user 1) (some (.user 11)),            -- the defaults column
    .addHeaders 0 [0, 1, 2],                                       -- row 0; 3 columns
    .setProp (.column 0 2) (.user 1) (some (.user 12)),
    .addRowItems 0 [0, 1, 2, 3, 4, 5, 6, 7, 8, 9, 10, 11],         -- row 1; 12 columns
    .setProp (.column 0 2) .align (some (.align 2)),
    .setProp (.column 0 12) .skipable (some (.bool true)),
    .setProp (.row 1) (.user 1) (some (.user 13)),
    .setProp (.cell 1 3) (.user 1) (some (.user 14)),
    .copyCell 1 3,                                                 -- copy 0
    .setProp (.copy 0) (.user 1) (some (.user 15)),
    .setProp (.cell 1 3) (.user 2) (some (.user 16)),
    .setProp (.table 0) (.user 1) (some (.user 17)),
    .setProp (.table 0) (.user 1) none,
    .rowAdd 1 0,                                                   -- cell (1,12); 13 columns
    .rowAddCell 1 c12hCell,                                        -- cell (1,13); 14 columns
    .setProp (.cell 1 13) (.user 5) none,
    .render 0 ]

example : Valid c12hEx = true := by decide +kernel
example : NoSetCbs c12hEx := by decide +kernel
example : CellsOk c12hEx := by decide +kernel
example : Addressed c12hEx := by decide +kernel
example : ¬ Passive c12hEx := by decide +kernel

/-- what the history has set, by evaluation of `lastSetOn` -/
theorem c12h_ex_last :
    lastSetOn c12hEx (.table 0) (.user 1) = none ∧
    lastSetOn c12hEx (.column 0 0) (.user 1) = some (.user 11) ∧
    lastSetOn c12hEx (.column 0 2) (.user 1) = some (.user 12) ∧
    lastSetOn c12hEx (.column 0 2) .align = some (.align 2) ∧
    lastSetOn c12hEx (.column 0 1) (.user 1) = none ∧
    lastSetOn c12hEx (.column 0 12) .skipable = some (.bool true) ∧
    lastSetOn c12hEx (.row 1) (.user 1) = some (.user 13) ∧
    lastSetOn c12hEx (.row 0) (.user 1) = none ∧
    lastSetOn c12hEx (.cell 1 3) (.user 1) = some (.user 14) ∧
    lastSetOn c12hEx (.cell 1 3) (.user 2) = some (.user 16) ∧
    lastSetOn c12hEx (.cell 1 2) (.user 1) = none ∧
    lastSetOn c12hEx (.copy 0) (.user 1) = some (.user 15) ∧
    lastSetOn c12hEx (.copy 0) (.user 2) = none ∧
    lastSetOn c12hEx (.cell 1 13) (.user 5) = none ∧
    lastSetOn c12hEx (.cell 1 13) .align = some (.align 3) := by decide +kernel

-- `c12h_refine` on the example, for every measure `dw`
example (dw : Measure) : (run dw c12hEx).getProp (.column 0 2) (.user 1) = some (.user 12) := by
  rw [c12h_refine dw c12hEx (by decide +kernel) (by decide +kernel) _ _ rfl]; exact c12h_ex_last.2.2.1
example (dw : Measure) : (run dw c12hEx).getProp (.copy 0) (.user 1) = some (.user 15) ∧
    (run dw c12hEx).getProp (.cell 1 3) (.user 1) = some (.user 14) ∧
    (run dw c12hEx).getProp (.copy 0) (.user 2) = none ∧
    (run dw c12hEx).getProp (.cell 1 3) (.user 2) = some (.user 16) ∧
    (run dw c12hEx).getProp (.table 0) (.user 1) = none ∧
    (run dw c12hEx).getProp (.cell 1 13) .align = some (.align 3) := by
  have h := fun o k hk => c12h_refine dw c12hEx (by decide +kernel) (by decide +kernel) o k hk
  refine ⟨?_, ?_, ?_, ?_, ?_, ?_⟩ <;> (rw [h _ _ rfl]; decide +kernel)
/-- the same by direct evaluation of the model with a concrete measure -/
def c12hDw : Measure := fun b => b.length
example : (run c12hDw c12hEx).getProp (.column 0 2) (.user 1) = some (.user 12) ∧
    (run c12hDw c12hEx).getProp (.copy 0) (.user 1) = some (.user 15) ∧
    (run c12hDw c12hEx).getProp (.cell 1 3) (.user 1) = some (.user 14) ∧
    ((run c12hDw c12hEx).table 0).nColumns = 14 := by decide +kernel
/-- the measuring callback did write its private keys on the rendered cells: the chain of cell (1,3) has
    four links, two of them with user keys -/
example : ((run c12hDw c12hEx).chainOf (.cell 1 3)).length = 4 ∧
    ((run c12hDw c12hEx).getProp (.cell 1 3) .ttDims).isSome = true := by decide +kernel

-- `c12h_refine_key`: a `.setProp` callback on another key is allowed
def c12hExB : List BuildOp :=
  [ .newTable, .regCb (.table 0) .render .cell (.setProp 3 (.user 7) (some (.user 70))),
    .addRowItems 0 [0, 1], .setProp (.cell 0 1) (.user 1) (some (.user 5)), .render 0 ]
example : ¬ NoSetCbs c12hExB := by decide +kernel
example (dw : Measure) : (run dw c12hExB).getProp (.cell 0 1) (.user 1) = some (.user 5) := by
  rw [c12h_refine_key dw c12hExB (.user 1) (by decide +kernel) (by decide +kernel)]; decide +kernel
example (dw : Measure) : Quiet (.user 1) (run dw c12hExB) :=
  c12h_quiet_run dw c12hExB (.user 1) (by decide +kernel) (by decide +kernel)

-- `c12h_refine_passive` / `c12h_bounded_all`: callbacks that log or fail, every key
def c12hExP : List BuildOp :=
  [ .newTable, .regCb (.table 0) .render .cell (.log 1), .regCb (.table 0) .pre .itself (.fail 2 5),
    .addRowItems 0 [0, 1], .setProp (.cell 0 1) .ttDims (some (.dims 3 1)),
    .setProp (.cell 0 1) .ttDims (some (.dims 4 1)), .setProp (.cell 0 1) (.user 1) (some (.user 5)),
    .setProp (.cell 0 1) (.user 1) none, .render 0 ]
example : Passive c12hExP := by decide +kernel
example (dw : Measure) : (run dw c12hExP).getProp (.cell 0 1) .ttDims = some (.dims 4 1) := by
  rw [c12h_refine_passive dw c12hExP (by decide +kernel) (by decide +kernel)]; decide +kernel
example (dw : Measure) : ((run dw c12hExP).chainOf (.cell 0 1)).length ≤ 1 := by
  have := c12h_bounded_all dw c12hExP (quietFor_of_passive (by decide +kernel)) (by decide +kernel) (.cell 0 1)
  have e : keysSetOn c12hExP (.cell 0 1) = [.ttDims] := by decide +kernel
  rwa [e] at this

-- `c12h_last_other`, `c12h_last_eq_lastSet`, `c12h_refine_lastSet`
example (o : Target) (k : Key) : lastSetOn (c12hEx ++ [.render 0]) o k = lastSetOn c12hEx o k :=
  c12h_last_other c12hEx (.render 0) (fun _ _ _ h => by cases h) (fun _ _ h => by cases h) (fun _ _ h => by cases h) o k
example : NoInherit c12hEx (.column 0 2) = true ∧ NoInherit c12hEx (.cell 1 3) = false := by decide +kernel
example : setsOn c12hEx (.table 0) = [(.user 1, some (.user 10)), (.user 1, some (.user 17)), (.user 1, none)] := by
  decide +kernel
example (k : Key) : lastSetOn c12hEx (.table 0) k = lastSet (setsOn c12hEx (.table 0)) k :=
  c12h_last_eq_lastSet c12hEx (by decide +kernel) (.table 0) rfl k
example (dw : Measure) : (run dw c12hEx).getProp (.column 0 2) .align = some (.align 2) := by
  rw [c12h_refine_lastSet dw c12hEx (by decide +kernel) (by decide +kernel) (by decide +kernel) _ rfl _ rfl]
  decide +kernel
/-- a set addressed to a column that does not exist yet is a no-op, in the model and in `lastSetOn` -/
def c12hExEarly : List BuildOp :=
  [ .newTable, .setProp (.column 0 2) (.user 1) (some (.user 99)), .addHeaders 0 [0, 1, 2] ]
example : ¬ Addressed c12hExEarly := by decide +kernel
example (dw : Measure) : (run dw c12hExEarly).getProp (.column 0 2) (.user 1) = none := by
  rw [c12h_refine dw c12hExEarly (by decide +kernel) (by decide +kernel) _ _ rfl]; decide +kernel

-- `c12h_step_frame`: growing the example table to 20 columns disturbs no user key on any owner
example (dw : Measure) (o : Target) :
    (applyOp dw (run dw c12hEx) (.addRowItems 0 (List.range 20))).getProp o (.user 1) =
      (run dw c12hEx).getProp o (.user 1) :=
  (c12h_step_frame dw (run dw c12hEx) (.addRowItems 0 (List.range 20)) (.user 1)
    (c12h_quiet_run dw c12hEx (.user 1) (by decide +kernel) (by decide +kernel)) rfl
    (fun _ _ _ h => by cases h) (fun _ _ h => by cases h) (fun _ _ h => by cases h) o).1
-- `c12h_step_frame_cell`: a ready-made cell appended to row 1 leaves row 1 itself alone
example (dw : Measure) :
    (applyOp dw (run dw c12hEx) (.rowAddCell 1 c12hCell)).getProp (.row 1) (.user 1) =
      (run dw c12hEx).getProp (.row 1) (.user 1) :=
  c12h_step_frame_cell dw (run dw c12hEx) 1 c12hCell (.user 1)
    (c12h_quiet_run dw c12hEx (.user 1) (by decide +kernel) (by decide +kernel)) (by decide +kernel) (.row 1)
    (fun _ _ h => by cases h)

-- `c12h_set_frame` / `c12h_copy_frame` / `c12h_copy_snapshot`
example (dw : Measure) : (run dw (c12hEx ++ [.setProp (.column 0 2) (.user 1) none])).getProp (.column 0 3) (.user 1) =
    (run dw c12hEx).getProp (.column 0 3) (.user 1) :=
  c12h_set_frame dw c12hEx _ _ _ _ _ (.inl (by simp))
example : (run c12hDw c12hEx).hasObj (.cell 1 3) := by decide +kernel
example (k : Key) : (run c12hDw (c12hEx ++ [.copyCell 1 3])).getProp (.copy 1) k = (run c12hDw c12hEx).getProp (.cell 1 3) k := by
  rw [c12h_copy_snapshot c12hDw c12hEx 1 3 (by decide +kernel)]
  have : (run c12hDw c12hEx).copies.length = 1 := by decide +kernel
  simp [this]

-- `c12h_nodup` / `c12h_bounded` / `c12h_bounded_keys`
example (dw : Measure) : ((run dw c12hEx).chainOf (.cell 1 3)).keys.Nodup := c12h_nodup dw c12hEx (by decide +kernel) _
example : ¬ CellsOk [.newRow, .rowAddCell 0 { item := 0, props := [(.user 1, .user 1), (.user 1, .user 2)] }] := by
  decide +kernel
example (dw : Measure) : (((run dw c12hEx).chainOf (.table 0)).filter (fun l => l.1.isUser)).length = 0 := by
  have := c12h_bounded dw c12hEx (by decide +kernel) (by decide +kernel) (.table 0)
  have e : keysSetOn c12hEx (.table 0) = [] := by decide +kernel
  rw [e] at this
  exact Nat.le_zero.mp this
example (dw : Measure) : (((run dw c12hEx).chainOf (.cell 1 3)).filter (fun l => l.1.isUser)).length ≤ 2 := by
  have := c12h_bounded dw c12hEx (by decide +kernel) (by decide +kernel) (.cell 1 3)
  have e : keysSetOn c12hEx (.cell 1 3) = [.user 1, .user 2] := by decide +kernel
  rwa [e] at this
example (dw : Measure) : (((run dw c12hExB).chainOf (.cell 0 1)).filter (fun l => l.1 == .user 1)).length ≤ 1 := by
  have := c12h_bounded_keys dw c12hExB (fun k => k == .user 1)
    (fun k hk => by have : k = .user 1 := by simpa using hk
                    subst this; decide +kernel) (by decide +kernel) (.cell 0 1)
  have e : keysSetOn c12hExB (.cell 0 1) = [.user 1] := by decide +kernel
  rwa [e] at this
example : histKeys c12hEx = [.user 1, .align, .skipable, .user 2, .user 5] := by decide +kernel

-- `c12h_setprop_callbacks`: a table cell-callback at render time and a row-level add-time callback both
-- write user key 7; sets before and after the firings
def c12hExW : List BuildOp :=
  [ .newTable,
    .regCb (.table 0) .render .cell (.setProp 3 (.user 7) (some (.user 70))),
    .regCb (.table 0) .add .row (.setProp 4 (.user 7) none),
    .regCb (.table 0) .pre .cell (.log 5),
    .newRow, .rowAdd 0 0, .rowAdd 0 1,
    .setProp (.row 0) (.user 7) (some (.user 1)),          -- removed by callback 4 when the row is attached
    .addRow 0 0,
    .setProp (.cell 0 0) (.user 7) (some (.user 2)),       -- overwritten by callback 3 at the render
    .copyCell 0 0,                                         -- copy 0 keeps `user 2`
    .render 0,
    .setProp (.cell 0 1) (.user 7) (some (.user 3)) ]      -- set after the render: stays
def c12hF : Nat → Option (Option Val) := fun id => if id = 3 then some (some (.user 70)) else if id = 4 then some none else none
example : WritersOk c12hF (.user 7) c12hExW := by decide +kernel
example : ¬ QuietFor (.user 7) c12hExW := by decide +kernel
example : CellsOk c12hExW := by decide +kernel
example : lastSetOnCb c12hF c12hDw c12hExW (.user 7) (.row 0) = none ∧
    lastSetOnCb c12hF c12hDw c12hExW (.user 7) (.cell 0 0) = some (.user 70) ∧
    lastSetOnCb c12hF c12hDw c12hExW (.user 7) (.copy 0) = some (.user 2) ∧
    lastSetOnCb c12hF c12hDw c12hExW (.user 7) (.cell 0 1) = some (.user 3) := by decide +kernel
example : (run c12hDw c12hExW).getProp (.cell 0 0) (.user 7) = some (.user 70) := by
  rw [c12h_setprop_callbacks c12hDw c12hExW c12hF (.user 7) (by decide +kernel) (by decide +kernel)]
  decide +kernel
example : (run c12hDw c12hExW).events = [⟨4, .row 0⟩, ⟨5, .cell 0 0⟩, ⟨3, .cell 0 0⟩, ⟨5, .cell 0 1⟩, ⟨3, .cell 0 1⟩] := by
  decide +kernel
example (dw : Measure) (o : Target) : lastSetOnCb (fun _ => none) dw c12hEx (.user 1) o = lastSetOn c12hEx o (.user 1) :=
  c12h_lastcb_quiet dw c12hEx (.user 1) (by decide +kernel) (by decide +kernel) o
example (o : Target) : (applyOp c12hDw (run c12hDw c12hExW) (.render 0)).getProp o (.user 7) =
    (((applyOp c12hDw (run c12hDw c12hExW) (.render 0)).events.drop (run c12hDw c12hExW).events.length).foldl
      (evApply c12hF (applyOp c12hDw (run c12hDw c12hExW) (.render 0)).has)
      (directK (.user 7) (run c12hDw c12hExW) (fun o => (run c12hDw c12hExW).getProp o (.user 7)) (.render 0))) o :=
  c12h_setprop_callbacks_step c12hDw (run c12hDw c12hExW) (.render 0) c12hF (.user 7)
    (cbsAll_run c12hDw c12hExW (by decide +kernel)) (c12h_nodup c12hDw c12hExW (by decide +kernel)) rfl rfl o

end Tab
