/-
  C13h — C13.2 ("each render-time callback fires exactly once per matching target per pass") for
  every table a VALID BUILD HISTORY produces, with the `(renderRows w t).Nodup` hypothesis of
  `c13x_once` discharged.

  `c13x_once` (Props/C13x.lean) holds in any world and says: the count of the event `⟨id, tgt⟩` grows,
  in one pass over `t`, by the number of occurrences of `tgt` in `renderTargets w t s tm`; that number
  is 0 or 1 when the pass visits no row twice.  In a world built by a valid history (at most one attach
  per row, the header row never attached: `Valid`, Spec/World.lean) it never does: `c13h_rows_nodup`,
  from the structural invariant of C02 (`c02_inv_rows_unique`, `c02_inv_header`).  Arbitrary callbacks
  (`.setProp`, `.fail`, measuring, logging); `UniqueAny` only says that the id names one registration,
  so that "the callback" can be recognised in the log.
-/
import Tabmodel.Props.C13x
import Tabmodel.Proofs.C13hRows
namespace Tab
open World C13 C13x C13h

/-- The rows a render pass over table `t` visits — header row, then body rows — are pairwise distinct,
    for every table (existing or not) of the world of every valid history. -/
theorem c13h_rows_nodup (dw : Measure) (ops : List BuildOp) (hv : Valid ops = true) (t : Nat) :
    (renderRows (run dw ops) t).Nodup :=
  renderRows_nodup_of_inv (c02_inv_run dw ops hv) t

/-- The same after any number of later render passes, over whatever tables (a pass keeps the
    structure). -/
theorem c13h_rows_nodup_inv (w : World) (hinv : Inv w) (t : Nat) : (renderRows w t).Nodup :=
  renderRows_nodup_of_inv hinv t

/-- The targets a registration fires on during one pass are pairwise distinct. -/
theorem c13h_targets_nodup (dw : Measure) (ops : List BuildOp) (hv : Valid ops = true) (t : Nat) (s : CbSlot)
    (tm : Time) : (renderTargets (run dw ops) t s tm).Nodup :=
  renderTargets_nodup s tm (c13h_rows_nodup dw ops hv t)

/-- C13.2 for API-built tables.  Let `id` name exactly one user callback of the world `run dw ops` of a
    valid history, registered in slot `s` at time `tm` (any callback: logging, property-setting, failing).
    During one render pass over ANY table `t`:
    * the events with that id are exactly one per element of `renderTargets w t s tm`, in that order;
    * for every target `tgt` that registration matches, the callback is invoked on it exactly ONCE
      (the count of `⟨id, tgt⟩` in the log grows by 1);
    * on every other target it is not invoked at all (the count does not change). -/
theorem c13h_once (dw : Measure) (ops : List BuildOp) (hv : Valid ops = true) (t id : Nat) (s : CbSlot)
    (tm : Time) (hu : UniqueAny (run dw ops) id s tm) :
    let w := run dw ops
    (expectedRenderAny w t).filter (fun e => e.cb == id) = (renderTargets w t s tm).map (fun x => ⟨id, x⟩) ∧
    (renderTargets w t s tm).Nodup ∧
    (∀ tgt ∈ renderTargets w t s tm,
      (invokeRenderCallbacks dw w t).events.count ⟨id, tgt⟩ = w.events.count ⟨id, tgt⟩ + 1) ∧
    (∀ tgt, tgt ∉ renderTargets w t s tm →
      (invokeRenderCallbacks dw w t).events.count ⟨id, tgt⟩ = w.events.count ⟨id, tgt⟩) := by
  intro w
  have hnd := c13h_rows_nodup dw ops hv t
  refine ⟨(c13x_once dw w t id s tm (.table t) hu).1, renderTargets_nodup s tm hnd, ?_, ?_⟩
  · intro tgt hm
    rw [(c13x_once dw w t id s tm tgt hu).2.2 hnd, if_pos hm]
  · intro tgt hm
    rw [(c13x_once dw w t id s tm tgt hu).2.2 hnd, if_neg hm]; rfl

/-- The same as a statement about histories: appending a render of `t` to a valid history makes the
    count of `⟨id, tgt⟩` grow by exactly 1 for a matching target and by 0 otherwise. -/
theorem c13h_once_history (dw : Measure) (ops : List BuildOp) (hv : Valid ops = true) (t id : Nat) (s : CbSlot)
    (tm : Time) (tgt : Target) (hu : UniqueAny (run dw ops) id s tm) :
    (run dw (ops ++ [.render t])).events.count ⟨id, tgt⟩ =
      (run dw ops).events.count ⟨id, tgt⟩ + if tgt ∈ renderTargets (run dw ops) t s tm then 1 else 0 := by
  rw [run_snoc']
  exact (c13x_once dw (run dw ops) t id s tm tgt hu).2.2 (c13h_rows_nodup dw ops hv t)

/-- `Valid` is needed: attaching one row twice (which `Valid` excludes) makes the pass visit it twice,
    and the callback then fires twice on it. -/
def c13hBad : List BuildOp :=
  [.newTable, .newRow, .regCb (.row 0) .pre .itself (.log 5), .addRow 0 0, .addRow 0 0]

example : Valid c13hBad = false := by decide
example : ¬ (renderRows (run (fun b => b.length) c13hBad) 0).Nodup := by decide
example : (invokeRenderCallbacks (fun b => b.length) (run (fun b => b.length) c13hBad) 0).events.count
    ⟨5, .row 0⟩ = 2 := by decide

/-! ### non-vacuity -/

/-- items `a`; table 0 with a property-setting callback (21) on its cells at render time, a failing
    callback (22) on itself at pre time and a logging one (23) on column 1's cells at post time; a
    header, a row, a separator, a row. -/
def c13hOps : List BuildOp :=
  [ .setItems [{ kind := .str [97], mString := none, mGoString := none, mError := none, fmtV := [97],
                 mHeight := none, mWidth := none, json := some [34, 97, 34] }],
    .newTable,
    .regCb (.table 0) .render .cell (.setProp 21 (.user 1) (some (.user 5))),
    .regCb (.table 0) .pre .itself (.fail 22 77),
    .addHeaders 0 [0],
    .regCb (.column 0 1) .post .cell (.log 23),
    .addRowItems 0 [0], .addSeparator 0, .addRowItems 0 [0, 0] ]

def c13hDw : Measure := fun b => b.length

example : Valid c13hOps = true := by decide
example : renderRows (run c13hDw c13hOps) 0 = [0, 1, 2, 3] := by decide
example : UniqueAny (run c13hDw c13hOps) 21 (.tableCell 0) .render := c13x_unique_check (by decide)
example : UniqueAny (run c13hDw c13hOps) 22 (.tableSelf 0) .pre := c13x_unique_check (by decide)
example : UniqueAny (run c13hDw c13hOps) 23 (.colCell 0 1) .post := c13x_unique_check (by decide)
example : renderTargets (run c13hDw c13hOps) 0 (.tableCell 0) .render =
    [.cell 0 0, .cell 1 0, .cell 3 0, .cell 3 1] := by decide
example : renderTargets (run c13hDw c13hOps) 0 (.colCell 0 1) .post = [.cell 1 0, .cell 3 0] := by decide
example := c13h_once c13hDw c13hOps (by decide) 0 21 (.tableCell 0) .render (c13x_unique_check (by decide))
example := c13h_rows_nodup c13hDw c13hOps (by decide) 0
example := c13h_rows_nodup_inv (run c13hDw c13hOps) (c02_inv_run c13hDw c13hOps (by decide)) 0
example := c13h_targets_nodup c13hDw c13hOps (by decide) 0 (.colCell 0 1) .post
example := c13h_once_history c13hDw c13hOps (by decide) 0 23 (.colCell 0 1) .post (.cell 3 0)
  (c13x_unique_check (by decide))
/-- the counts, by evaluation: once on a matching cell, never on the header cell for the column callback -/
example : (run c13hDw (c13hOps ++ [.render 0])).events.count ⟨21, .cell 3 1⟩ = 1 ∧
    (run c13hDw (c13hOps ++ [.render 0])).events.count ⟨23, .cell 0 0⟩ = 0 ∧
    (run c13hDw (c13hOps ++ [.render 0, .render 0])).events.count ⟨23, .cell 3 0⟩ = 2 := by decide

end Tab
