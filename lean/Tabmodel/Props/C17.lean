/-
  C17 — The decoration registry is safe under concurrency and fails closed (logic part).

  Model: `Model/Registry.lean` (`texttable/decoration/registry.go`), `Model/Render.lean`
  (`texttable/render.go`, first lines of `RenderTo`; `texttable/style.go` `SetDecorationNamed`).

  ASSUMPTION (stated, not proved here): every registry operation is one atomic step on the
  association list.  Atomicity is what the mutex in `registry.go` provides; the static lock
  discipline check and the `-race`/linearizability runs cover that part.  Under this assumption
  "every interleaving of the goroutines' operations" is "every list of operations", which is what
  the theorems below quantify over.  Nothing bounds the length of the list or the names/decorations.
-/
import Tabmodel.Model.Render
import Tabmodel.Proofs.RegOps
import Tabmodel.Proofs.EmitLemmas
namespace Tab
open Registry

/-- one registry operation: `RegisterDecorationName`, `Named`, `RegisteredDecorationNames` -/
inductive RegOp
  | register (n : Bytes) (d : Decoration)
  | named (n : Bytes)
  | names
  deriving DecidableEq, Repr

/-- what the operation returns to its caller -/
inductive RegRes
  | done
  | decor (d : Decoration)
  | names (l : List Bytes)
  deriving DecidableEq, Repr

/-- one atomic step: the new registry and the operation's result -/
def regStep (r : Registry) : RegOp → Registry × RegRes
  | .register n d => (r.register n d, .done)
  | .named n => (r, .decor (r.named n))
  | .names => (r, .names r.names)

/-- the registry after a history of operations, started from `r₀` (the built-ins) -/
def regRun (r₀ : Registry) (hist : List RegOp) : Registry :=
  hist.foldl (fun r op => (regStep r op).1) r₀

/-- `bytesLt` (Go's string `<`) is a strict total order on byte strings. -/
theorem c17_order :
    (∀ a, bytesLt a a = false) ∧
    (∀ a b c, bytesLt a b = true → bytesLt b c = true → bytesLt a c = true) ∧
    (∀ a b, bytesLt a b = true ∨ a = b ∨ bytesLt b a = true) :=
  ⟨bytesLt_irrefl, fun _ _ _ => bytesLt_trans, bytesLt_trichotomy⟩

/-- `sortBytes` (`sort.Strings`) permutes its input into a `bytesLt`-nondecreasing list, strictly
increasing when the input has no duplicates; the result does not depend on the input's order
(the Go map's iteration order). -/
theorem c17_sort (l : List Bytes) :
    (sortBytes l).Perm l ∧
    (sortBytes l).Pairwise (fun a b => bytesLt b a = false) ∧
    (l.Nodup → (sortBytes l).Pairwise (fun a b => bytesLt a b = true)) ∧
    (∀ l', l.Perm l' → sortBytes l = sortBytes l') :=
  ⟨sortBytes_perm l, sortBytes_sorted l, fun h => sortBytes_strict h, fun _ h => sortBytes_eq_of_perm h⟩

/-- `register` keeps the names duplicate-free, and adds exactly the registered name. -/
theorem c17_register_nodup (r : Registry) (n : Bytes) (d : Decoration) (h : (r.map Prod.fst).Nodup) :
    ((r.register n d).map Prod.fst).Nodup ∧
    (∀ m, m ∈ (r.register n d).map Prod.fst ↔ m = n ∨ m ∈ r.map Prod.fst) :=
  ⟨nodup_register h n d, fun _ => mem_keys_register⟩

/-- After any history `hist` (any interleaving so far), `Named n` returns:
 (a) the decoration of the LAST `register n d` in `hist`, if there is one;
 (b) otherwise whatever `r₀` (the built-ins) binds `n` to, which is
 (c) the stored built-in when `r₀` has duplicate-free names and contains `(n, d)`, and
 (d) `emptyDecoration` when `n` is not a name of `r₀` either.
 `Named` and `RegisteredDecorationNames` themselves never change the registry. -/
theorem c17_named (r₀ : Registry) (hist : List RegOp) (n : Bytes) :
    (regStep (regRun r₀ hist) (.named n)).2 = .decor ((regRun r₀ hist).named n) ∧
    (regStep (regRun r₀ hist) (.named n)).1 = regRun r₀ hist ∧
    (regStep (regRun r₀ hist) .names).1 = regRun r₀ hist ∧
    (∀ pre d post, hist = pre ++ RegOp.register n d :: post → (∀ d', RegOp.register n d' ∉ post) →
        (regRun r₀ hist).named n = d) ∧
    ((∀ d, RegOp.register n d ∉ hist) → (regRun r₀ hist).named n = r₀.named n) ∧
    ((∀ d, RegOp.register n d ∉ hist) → (r₀.map Prod.fst).Nodup →
        ∀ d, (n, d) ∈ r₀ → (regRun r₀ hist).named n = d) ∧
    ((∀ d, RegOp.register n d ∉ hist) → n ∉ r₀.map Prod.fst →
        (regRun r₀ hist).named n = emptyDecoration) := by
  -- operations that do not register `n` leave `named n` alone
  have keep : ∀ (ops : List RegOp) (r : Registry), (∀ d, RegOp.register n d ∉ ops) →
      (regRun r ops).named n = r.named n := by
    intro ops
    induction ops with
    | nil => intro r _; rfl
    | cons op ops ih =>
      intro r h
      have hops : ∀ d, RegOp.register n d ∉ ops := fun d hd => h d (List.mem_cons_of_mem _ hd)
      show (regRun (regStep r op).1 ops).named n = r.named n
      rw [ih _ hops]
      cases op with
      | register m e =>
        have : n ≠ m := by
          intro e'; subst e'; exact h e List.mem_cons_self
        exact named_register_ne r e this
      | named m => rfl
      | names => rfl
  refine ⟨rfl, rfl, rfl, ?_, keep hist r₀, ?_, ?_⟩
  · intro pre d post hh hpost
    subst hh
    have : regRun r₀ (pre ++ RegOp.register n d :: post) = regRun ((regRun r₀ pre).register n d) post := by
      unfold regRun; rw [List.foldl_append]; rfl
    rw [this, keep post _ hpost, named_register_self]
  · intro h hnd d hd
    rw [keep hist r₀ h]; exact named_of_mem hnd hd
  · intro h hn
    rw [keep hist r₀ h]; exact named_of_not_mem hn

/-- After any history from an `r₀` with duplicate-free names, `RegisteredDecorationNames` returns a
list that is strictly increasing w.r.t. `bytesLt` (hence sorted and duplicate-free) whose members are
exactly the names of `r₀` (the built-ins) plus every name registered so far; the registry's names
stay duplicate-free. -/
theorem c17_listing (r₀ : Registry) (hist : List RegOp) (h₀ : (r₀.map Prod.fst).Nodup) :
    (regStep (regRun r₀ hist) .names).2 = .names (regRun r₀ hist).names ∧
    (regRun r₀ hist).names.Pairwise (fun a b => bytesLt a b = true) ∧
    (regRun r₀ hist).names.Nodup ∧
    (∀ m, m ∈ (regRun r₀ hist).names ↔ (m ∈ r₀.map Prod.fst ∨ ∃ d, RegOp.register m d ∈ hist)) ∧
    ((regRun r₀ hist).map Prod.fst).Nodup := by
  have inv : ∀ (ops : List RegOp) (r : Registry), (r.map Prod.fst).Nodup →
      ((regRun r ops).map Prod.fst).Nodup ∧
      ∀ m, m ∈ (regRun r ops).map Prod.fst ↔ (m ∈ r.map Prod.fst ∨ ∃ d, RegOp.register m d ∈ ops) := by
    intro ops
    induction ops with
    | nil => intro r hr; exact ⟨hr, fun m => by simp [regRun]⟩
    | cons op ops ih =>
      intro r hr
      show ((regRun (regStep r op).1 ops).map Prod.fst).Nodup ∧ ∀ m, m ∈ (regRun (regStep r op).1 ops).map Prod.fst ↔ _
      cases op with
      | register k e =>
        have := ih (r.register k e) (nodup_register hr k e)
        refine ⟨this.1, fun m => ?_⟩
        refine (this.2 m).trans ?_
        rw [mem_keys_register]
        constructor
        · rintro ((rfl | h) | ⟨d, hd⟩)
          · exact .inr ⟨e, List.mem_cons_self⟩
          · exact .inl h
          · exact .inr ⟨d, List.mem_cons_of_mem _ hd⟩
        · rintro (h | ⟨d, hd⟩)
          · exact .inl (.inr h)
          · rcases List.mem_cons.mp hd with heq | hd
            · cases heq; exact .inl (.inl rfl)
            · exact .inr ⟨d, hd⟩
      | named k =>
        have := ih r hr
        refine ⟨this.1, fun m => ?_⟩
        refine (this.2 m).trans ?_
        constructor
        · rintro (h | ⟨d, hd⟩)
          · exact .inl h
          · exact .inr ⟨d, List.mem_cons_of_mem _ hd⟩
        · rintro (h | ⟨d, hd⟩)
          · exact .inl h
          · rcases List.mem_cons.mp hd with heq | hd
            · cases heq
            · exact .inr ⟨d, hd⟩
      | names =>
        have := ih r hr
        refine ⟨this.1, fun m => ?_⟩
        refine (this.2 m).trans ?_
        constructor
        · rintro (h | ⟨d, hd⟩)
          · exact .inl h
          · exact .inr ⟨d, List.mem_cons_of_mem _ hd⟩
        · rintro (h | ⟨d, hd⟩)
          · exact .inl h
          · rcases List.mem_cons.mp hd with heq | hd
            · cases heq
            · exact .inr ⟨d, hd⟩
  have := inv hist r₀ h₀
  refine ⟨rfl, names_strict this.1, names_nodup this.1, fun m => ?_, this.1⟩
  rw [mem_names]; exact this.2 m

/-- Two registrations of the same name, in either order: the later one wins, and the registry is
the one that a single registration of the later value would have produced. -/
theorem c17_last_writer (r₀ : Registry) (pre : List RegOp) (n : Bytes) (d₁ d₂ : Decoration) :
    regRun r₀ (pre ++ [.register n d₁, .register n d₂]) = regRun r₀ (pre ++ [.register n d₂]) ∧
    regRun r₀ (pre ++ [.register n d₂, .register n d₁]) = regRun r₀ (pre ++ [.register n d₁]) ∧
    (regRun r₀ (pre ++ [.register n d₁, .register n d₂])).named n = d₂ ∧
    (regRun r₀ (pre ++ [.register n d₂, .register n d₁])).named n = d₁ := by
  have run2 : ∀ a b, regRun r₀ (pre ++ [RegOp.register n a, RegOp.register n b]) =
      ((regRun r₀ pre).register n a).register n b := by
    intro a b; unfold regRun; rw [List.foldl_append]; rfl
  have run1 : ∀ a, regRun r₀ (pre ++ [RegOp.register n a]) = (regRun r₀ pre).register n a := by
    intro a; unfold regRun; rw [List.foldl_append]; rfl
  refine ⟨?_, ?_, ?_, ?_⟩
  · rw [run2, run1, register_register_same]
  · rw [run2, run1, register_register_same]
  · rw [run2, named_register_self]
  · rw [run2, named_register_self]

/-- Registrations of distinct names commute as far as `Named` and `RegisteredDecorationNames` can
tell: immediately (every lookup and the listing agree), and after any further operations `post`
every operation `op` returns the same result in both orders. -/
theorem c17_commute (r₀ : Registry) (pre post : List RegOp) (n m : Bytes) (d e : Decoration)
    (hnm : n ≠ m) (op : RegOp) :
    (∀ k, (regRun r₀ (pre ++ [.register n d, .register m e])).named k =
          (regRun r₀ (pre ++ [.register m e, .register n d])).named k) ∧
    (regRun r₀ (pre ++ [.register n d, .register m e])).names =
      (regRun r₀ (pre ++ [.register m e, .register n d])).names ∧
    (regStep (regRun r₀ (pre ++ [.register n d, .register m e] ++ post)) op).2 =
      (regStep (regRun r₀ (pre ++ [.register m e, .register n d] ++ post)) op).2 := by
  have run2 : ∀ a b x y, regRun r₀ (pre ++ [RegOp.register a x, RegOp.register b y]) =
      ((regRun r₀ pre).register a x).register b y := by
    intro a b x y; unfold regRun; rw [List.foldl_append]; rfl
  have h0 : ObsEq (regRun r₀ (pre ++ [.register n d, .register m e]))
      (regRun r₀ (pre ++ [.register m e, .register n d])) := by
    rw [run2, run2]; exact register_comm_obsEq _ hnm d e
  have pres : ∀ (ops : List RegOp) (r r' : Registry), ObsEq r r' → ObsEq (regRun r ops) (regRun r' ops) := by
    intro ops
    induction ops with
    | nil => intro r r' h; exact h
    | cons o ops ih =>
      intro r r' h
      show ObsEq (regRun (regStep r o).1 ops) (regRun (regStep r' o).1 ops)
      cases o with
      | register k x => exact ih _ _ (h.register k x)
      | named k => exact ih _ _ h
      | names => exact ih _ _ h
  refine ⟨h0.2, h0.names, ?_⟩
  have split : ∀ l, regRun r₀ (l ++ post) = regRun (regRun r₀ l) post := by
    intro l; unfold regRun; rw [List.foldl_append]
  rw [split, split]
  have h1 := pres post _ _ h0
  cases op with
  | register k x => rfl
  | named k => show RegRes.decor _ = RegRes.decor _; rw [h1.2 k]
  | names => show RegRes.names _ = RegRes.names _; rw [h1.names]

/-- Fail closed.  A name that is not listed resolves to the empty decoration (never to some
default), and a text wrapper whose decoration is the empty one refuses to render: `RenderTo` returns
the `noDecoration` error before anything else, writes nothing, runs no callback (the world is
unchanged), and `Render` returns the empty string with that error. -/
theorem c17_fail_closed (r : Registry) (n : Bytes) (x : Ext) (w : World) :
    (n ∉ r.names → r.named n = emptyDecoration) ∧
    (∀ wr : Wrapper, wr.kind = .text → wr.decor = emptyDecoration →
      (World.renderTo x w wr).2.res = .error (.err .noDecoration) ∧
      (World.renderTo x w wr).2.chunks = [] ∧
      (World.renderTo x w wr).1 = w ∧
      World.renderString (World.renderTo x w wr).2 = ([], some (.err .noDecoration))) ∧
    (n ∉ r.names → ∀ (core : Nat) (hc : HtmlCfg),
      World.renderString (World.renderTo x w
        { kind := .text, core := core, decor := r.named n, html := hc }).2
        = ([], some (.err .noDecoration))) := by
  have h1 : n ∉ r.names → r.named n = emptyDecoration :=
    fun h => named_of_not_mem (fun hm => h (mem_names.mpr hm))
  have h2 : ∀ wr : Wrapper, wr.kind = .text → wr.decor = emptyDecoration →
      World.renderTo x w wr = (w, Emit.fail .noDecoration) := by
    intro wr hk hd
    unfold World.renderTo
    rw [hk]; simp only [hd, if_true]
  refine ⟨h1, ?_, ?_⟩
  · intro wr hk hd
    rw [h2 wr hk hd]
    exact ⟨rfl, rfl, rfl, rfl⟩
  · intro hn core hc
    rw [h2 _ rfl (h1 hn)]; rfl

/-! ### non-vacuity: a small concrete registry -/

/-- two stand-in "built-ins" -/
def c17ExD (b : UInt8) : Decoration := { horizontal := [b] }
def c17Ex0 : Registry := [([98], c17ExD 1), ([97], c17ExD 2)]

example : (c17Ex0.map Prod.fst).Nodup := by decide
-- hypotheses of `c17_named` (a): a history with two registrations of `c`, the last one has no successor
example : ∃ pre d post, [RegOp.register [99] (c17ExD 3), .names, .register [99] (c17ExD 4), .named [99]]
    = pre ++ RegOp.register [99] d :: post ∧ (∀ d', RegOp.register [99] d' ∉ post) :=
  ⟨[.register [99] (c17ExD 3), .names], c17ExD 4, [.named [99]], rfl, by intro d' h; simp at h⟩
example : (regRun c17Ex0 [.register [99] (c17ExD 3), .names, .register [99] (c17ExD 4), .named [99]]).named [99]
    = c17ExD 4 := by decide
-- (b)/(c): nothing registered under `a`: the built-in; (d): `z` nowhere: empty
example : (regRun c17Ex0 [.register [99] (c17ExD 3)]).named [97] = c17ExD 2 := by decide
example : (∀ d, RegOp.register [122] d ∉ [RegOp.register [99] (c17ExD 3)]) ∧ [122] ∉ c17Ex0.map Prod.fst :=
  ⟨by intro d h; simp at h, by decide⟩
example : (regRun c17Ex0 [.register [99] (c17ExD 3)]).named [122] = emptyDecoration := by decide
-- listing: sorted, with the built-ins and the registered name, overwrites do not duplicate
example : (regRun c17Ex0 [.register [99] (c17ExD 3), .register [97] (c17ExD 5), .register [99] (c17ExD 4)]).names
    = [[97], [98], [99]] := by decide
-- commute: distinct names exist
example : ([97] : Bytes) ≠ [99] := by decide
-- fail closed: an unlisted name, and a wrapper that carries the empty decoration
example : ([122] : Bytes) ∉ c17Ex0.names := by decide
example : ({ kind := .text, core := 0, decor := c17Ex0.named [122] } : Wrapper).decor = emptyDecoration := by decide
-- ... while a listed name does not resolve to the empty decoration
example : c17Ex0.named [97] ≠ emptyDecoration := by decide

end Tab
