/-
  C11, history level — every error raised while building or rendering is reported exactly
  once, by the table's list once the row belongs to the table.

  Vocabulary: pa_world's histories (`Spec/World.lean`: `BuildOp`, `applyOp`, `run`, `Valid`) and
  the definitions of `Proofs/C11hDefs.lean`, restated below:
  * `raisedBy dw w op e`: how many times `e` is raised when `op` is applied in `w` — counted on
    the callbacks the operation invokes (and misuse / direct `addErr`), never on containers;
  * `raisedFrom`, `ledgerFrom`: the same along a history;
  * `BuildOp.dest`, `ownerOf`, `charged`: on which object an operation's errors are raised, and
    which object's list reports that object in a given world;
  * `HdrSafe`: rows created by `AddHeaders` are never attached by `AddRow` (the Go API gives a
    caller no handle on the header row; `Valid` alone only excludes the *current* header);
  * `HInv`: the invariant that makes every error taker live.
-/
import Tabmodel.Proofs.C11hS3
namespace Tab
open World

/-! ## The definitions, restated -/

/-- `raisedBy` is the counter of the counting re-run `applyOpK`, whose world component is the
    model's `applyOp`. -/
theorem c11h_def_raisedBy (dw : Measure) (w : World) (op : BuildOp) (e k : Nat) :
    raisedBy dw w op e = (applyOpK dw e (w, 0) op).2 ∧
    (applyOpK dw e (w, k) op).1 = applyOp dw w op := ⟨rfl, applyOpK_fst dw e (w, k) op⟩

/-- the only thing the counting re-run adds to the model: each `invoke` call counts the
    callbacks of its list that return `e` on its target -/
theorem c11h_def_invokeK (dw : Measure) (e : Nat) (c : Cnt) (cbs : World → List Cb) (tgt : Target)
    (tk : World → Taker) :
    invokeK dw e c cbs tgt tk
      = (invoke dw c.1 (cbs c.1) tgt (tk c.1),
         c.2 + ((cbs c.1).filter (fun cb => raises tgt cb == some e)).length) := rfl

theorem c11h_def_raisedFrom (dw : Measure) (e : Nat) (w : World) (op : BuildOp) (ops : List BuildOp) :
    raisedFrom dw e w [] = 0 ∧
    raisedFrom dw e w (op :: ops) = raisedBy dw w op e + raisedFrom dw e (applyOp dw w op) ops :=
  ⟨rfl, rfl⟩

/-- the history sum, position by position -/
theorem c11h_raisedFrom_sum (dw : Measure) (e : Nat) (ops : List BuildOp) :
    raisedFrom dw e {} ops =
      ((List.range ops.length).map
        (fun i => raisedBy dw (run dw (ops.take i)) (ops[i]?.getD .newTable) e)).sum :=
  raisedFrom_eq_sum dw e {} ops

theorem c11h_def_ledger (dw : Measure) (e : Nat) (w : World) (op : BuildOp) (ops : List BuildOp)
    (g : Src) (L : List (Option Src × Nat)) :
    ledgerFrom dw e w [] = [] ∧
    ledgerFrom dw e w (op :: ops) = (op.dest, raisedBy dw w op e) :: ledgerFrom dw e (applyOp dw w op) ops ∧
    charged w g L = ((L.filter (fun p => p.1.map w.ownerOf == some g)).map (·.2)).sum :=
  ⟨rfl, rfl, rfl⟩

/-- who reports for whom: a table for itself; a row sharing a table's container is reported by
    that table; any other row by itself -/
theorem c11h_def_ownerOf (w : World) (t r : Nat) :
    w.ownerOf (.table t) = .table t ∧
    ((w.row r).ec = .table t → w.ownerOf (.row r) = .table t) ∧
    (unattached w r → w.ownerOf (.row r) = .row r) :=
  ⟨rfl, fun h => by simp only [ownerOf, h], ownerOf_row_unattached⟩

/-! ## What each kind of operation raises -/

/-- a direct `AddError(e')` through taker `tk`: one, if the taker is live and the id matches -/
theorem c11h_raised_addErr (dw : Measure) (w : World) (tk : Taker) (e' e : Nat) :
    raisedBy dw w (.addErr tk e') e = if live w tk ∧ e' = e then 1 else 0 := by
  simp only [raisedBy, applyOpK, Nat.zero_add]

/-- `Row.Add` on a separator / zero-value row: one `errNonCellRow` -/
theorem c11h_raised_misuse (dw : Measure) (w : World) (r i : Nat) (ce : Cell) (e : Nat)
    (hc : (w.row r).cells = none) :
    raisedBy dw w (.rowAdd r i) e = (if errNonCellRow = e then 1 else 0) ∧
    raisedBy dw w (.rowAddCell r ce) e = (if errNonCellRow = e then 1 else 0) := by
  simp only [raisedBy, applyOpK, rowAddCellK, hc, Nat.zero_add, and_self]

/-- `Row.Add` on a cell row: the row's add-time cell callbacks that return `e` on the new cell -/
theorem c11h_raised_rowAdd (dw : Measure) (w : World) (r i : Nat) (ce : Cell) (cs : List Cell) (e : Nat)
    (hc : (w.row r).cells = some cs) :
    raisedBy dw w (.rowAdd r i) e = raiseCount (.cell r cs.length) e ((w.row r).cellCbs.at .add) ∧
    raisedBy dw w (.rowAddCell r ce) e = raiseCount (.cell r cs.length) e ((w.row r).cellCbs.at .add) := by
  simp only [raisedBy, applyOpK, rowAddCellK, hc, invokeK_snd, Nat.zero_add, rowAddCellPre_cellCbs,
    and_self]

/-- operations that invoke no callback and are no `AddError` raise nothing -/
theorem c11h_raised_zero (dw : Measure) (w : World) (e : Nat) :
    raisedBy dw w .newTable e = 0 ∧ raisedBy dw w .newRow e = 0 ∧ raisedBy dw w .zeroRow e = 0 ∧
    (∀ t, raisedBy dw w (.addSeparator t) e = 0) ∧
    (∀ o tm tg cb, raisedBy dw w (.regCb o tm tg cb) e = 0) ∧
    (∀ o k v, raisedBy dw w (.setProp o k v) e = 0) ∧
    (∀ its, raisedBy dw w (.setItems its) e = 0) ∧
    (∀ r c, raisedBy dw w (.updateCell r c) e = 0) ∧ (∀ r c, raisedBy dw w (.copyCell r c) e = 0) :=
  ⟨rfl, rfl, rfl, fun _ => rfl, fun _ _ _ _ => rfl, fun _ _ _ => rfl, fun _ => rfl, fun _ _ => rfl,
   fun _ _ => rfl⟩

/-- `AddRow`, `AddHeaders`, render, …: by definition the counters of the counting re-runs (every
    `invokeK` adds the `raiseCount` of the list the model's `invoke` is given at that moment) … -/
theorem c11h_raised_traversals (dw : Measure) (w : World) (t r : Nat) (items : List Nat) (e : Nat) :
    raisedBy dw w (.addRow t r) e = (addRowK dw e (w, 0) t r).2 ∧
    raisedBy dw w (.addHeaders t items) e = (addHeadersK dw e (w, 0) t items).2 ∧
    raisedBy dw w (.render t) e = (renderK dw e (w, 0) t).2 ∧
    raisedBy dw w (.appendNewRow t) e = (addRowK dw e ((w.newRow {}).1, 0) t w.rows.length).2 ∧
    raisedBy dw w (.addRowItems t items) e
      = (addRowK dw e (rowAddManyK dw e w.rows.length items ((w.newRow {}).1, 0)) t w.rows.length).2 :=
  ⟨rfl, rfl, rfl, rfl, rfl⟩

/-- … but callbacks can change neither which callbacks are registered nor the structure that
    decides which of them apply, so those counters are plain sums over the callback lists of
    one world.  The static sums (definitions in `Proofs/C11hStatic.lean`): -/
theorem c11h_def_static (w : World) (e t r n i : Nat) (b : Bool) (tm : Time) :
    addCellsCount w e t r 0 i = 0 ∧
    addCellsCount w e t r (n + 1) i =
      raiseCount (.cell r i) e (colCellCbs w (columnOf w r i) .add)
        + raiseCount (.cell r i) e ((w.table t).cellCbs.at .add) + addCellsCount w e t r n (i + 1) ∧
    addCbsCount w e t r b =
      (if b then raiseCount (.row r) e ((w.row r).selfCbs.at .add) else 0)
        + raiseCount (.row r) e ((w.table t).rowCbs.at .add)
        + addCellsCount w e t r (w.rowCells r).length 0 ∧
    cellRenderCount w e t r i =
      ((cellCalls t r i (columnOf w r i)).map (fun d => raiseCount (.cell r i) e (d.1 w))).sum ∧
    cellsRenderCount w e t r (n + 1) i = cellRenderCount w e t r i + cellsRenderCount w e t r n (i + 1) ∧
    rowRenderCount w e t r =
      raiseCount (.row r) e ((w.row r).selfCbs.at .pre)
        + cellsRenderCount w e t r (w.rowCells r).length 0
        + raiseCount (.row r) e ((w.row r).selfCbs.at .post) ∧
    colsRenderCount w e t tm (n + 1) i =
      raiseCount (.column t i) e (((w.column? t i).map (·.selfCbs.at tm)).getD [])
        + colsRenderCount w e t tm n (i + 1) ∧
    renderCount w e t =
      raiseCount (.table t) e ((w.table t).selfCbs.at .pre)
        + colsRenderCount w e t .pre (w.table t).columns.length 0
        + hdrRenderCount w e t
        + ((w.table t).rows.map (rowRenderCount w e t)).sum
        + colsRenderCount w e t .post (w.table t).columns.length 0
        + raiseCount (.table t) e ((w.table t).selfCbs.at .post) :=
  ⟨rfl, rfl, rfl, rfl, rfl, rfl, rfl, rfl⟩

/-- callback invocations leave the registered callbacks and the structure alone -/
theorem c11h_callbacks_frame (dw : Measure) (w : World) (cbs : List Cb) (tgt : Target) (tk : Taker) :
    (invoke dw w cbs tgt tk).cbv = w.cbv ∧ (invoke dw w cbs tgt tk).shape = w.shape :=
  ⟨cbv_invoke dw w cbs tgt tk, shape_invoke dw w cbs tgt tk⟩

/-- `addRow` is its structural part `addRowCore` (which invokes nothing) followed by the
    add-time callbacks; the structural part keeps the row's and the table's callbacks -/
theorem c11h_def_addRowCore (dw : Measure) (w : World) (t r : Nat) :
    addRow dw w t r = addRowCbs dw (addRowCore w t r) t r ∧
    ((addRowCore w t r).row r).selfCbs = (w.row r).selfCbs ∧
    ((addRowCore w t r).table t).rowCbs = (w.table t).rowCbs :=
  ⟨rfl, addRowCore_selfCbs w t r, addRowCore_rowCbs w t r⟩

/-- `AddRow(t, r)` raises what the row's own add-time callbacks, the table's add-time row
    callbacks and, cell by cell, the column's and the table's add-time cell callbacks return —
    all as registered when the row has just been put into the table. -/
theorem c11h_raised_addRow (dw : Measure) (w : World) (t r e : Nat) :
    raisedBy dw w (.addRow t r) e = addCbsCount (addRowCore w t r) e t r true :=
  raised_addRow dw w t r e

/-- a render raises what the table's, the columns', the header row's, each row's and each
    cell's render-time callbacks return, as registered when the render starts -/
theorem c11h_raised_render (dw : Measure) (w : World) (t e : Nat) :
    raisedBy dw w (.render t) e = renderCount w e t := raised_render dw w t e

/-- `AppendNewRow` / `AddRowItems`: the fresh row has no callbacks of its own, so building it
    raises nothing; then as `AddRow` -/
theorem c11h_raised_newRows (dw : Measure) (w : World) (t : Nat) (items : List Nat) (e : Nat) :
    raisedBy dw w (.appendNewRow t) e
      = addCbsCount (addRowCore (w.newRow {}).1 t w.rows.length) e t w.rows.length true ∧
    raisedBy dw w (.addRowItems t items) e
      = addCbsCount (addRowCore (rowAddMany dw w.rows.length items (w.newRow {}).1) t w.rows.length)
          e t w.rows.length true :=
  ⟨raised_appendNewRow dw w t e, raised_addRowItems dw w t items e⟩

/-- `AddHeaders`: building the fresh header row raises nothing; then the table's add-time row
    callbacks on the header row and the add-time cell callbacks on its cells, as registered in the
    world `hdrW4` where the header row is built and set -/
theorem c11h_raised_addHeaders (dw : Measure) (w : World) (t : Nat) (items : List Nat) (e : Nat) :
    raisedBy dw w (.addHeaders t items) e
      = addCbsCount (hdrW4 dw w t items) e t w.rows.length false ∧
    hdrW4 dw w t items =
      (rowAddMany dw w.rows.length items
        ((w.modTable t (fun tb => resizeColumnsAtLeast tb items.length)).newRow { ec := .table t }).1).modTable t
        (fun tb => { tb with header := some w.rows.length }) :=
  ⟨raised_addHeaders dw w t items e, rfl⟩

/-- a render of a table that does not exist invokes nothing -/
theorem c11h_raised_render_oob (dw : Measure) (w : World) (t e : Nat) (h : w.tables.length ≤ t) :
    raisedBy dw w (.render t) e = 0 ∧ invokeRenderCallbacks dw w t = w := by
  have := renderK_oob dw e (w, 0) t h
  refine ⟨by simp only [raisedBy, applyOpK, this], ?_⟩
  rw [← renderK_fst dw e (w, 0) t, this]

/-! ## The invariant of valid histories -/

/-- After every valid history that never attaches a header row: the structural invariant;
    every existing table has all its rows and its header row sharing its container
    (`attachedAll`); and every row either is `unattached` (no container, or its own) or shares
    the container of an existing table in whose list it is or whose header row it was made as. -/
theorem c11h_invariant (dw : Measure) (ops : List BuildOp) (hv : Valid ops = true)
    (hs : HdrSafe ops = true) :
    HInv (hdrIdsFrom 0 [] ops) (run dw ops) ∧
    (∀ t, t < (run dw ops).tables.length → attachedAll (run dw ops) t) ∧
    (∀ r, unattached (run dw ops) r ∨
      ∃ t, ((run dw ops).row r).ec = .table t ∧ t < (run dw ops).tables.length ∧
        (r ∈ ((run dw ops).table t).rows ∨ r ∈ hdrIdsFrom 0 [] ops)) := by
  have r := run_all dw ops inv_init he_init hv hs
  refine ⟨⟨r.inv, r.he.att, r.he.ect⟩, r.he.att, ?_⟩
  intro r'
  cases hec : ((run dw ops).row r').ec with
  | none => exact Or.inl (Or.inl hec)
  | own es => exact Or.inl (Or.inr ⟨es, hec⟩)
  | table t =>
    obtain ⟨h1, h2⟩ := r.he.ect r' t hec
    exact Or.inr ⟨t, rfl, h1, h2⟩

/-- hence every taker the library itself uses is live in such a world: the table, a row itself
    (`Row.AddError`), and the container of an attached row -/
theorem c11h_takers_live {hs : List Nat} {w : World} (h : HInv hs w) (t r : Nat) :
    (t < w.tables.length → live w (.table t)) ∧
    (r < w.rows.length → live w (.rowLazy r)) ∧
    (r ∈ (w.table t).rows → t < w.tables.length → live w (rowECTaker w r)) := by
  refine ⟨fun ht => ht, fun hr => ?_, fun hm ht => ?_⟩
  · exact live_of_resolve (resolve_rowLazy ⟨h.att, h.ect⟩ r hr)
  · have := (h.att t ht).2.1 r hm
    simp only [rowECTaker, this]; exact ht

/-! ## One step -/

/-- A valid step from a world satisfying the invariant: the invariant is kept, and the mass of
    every id grows by exactly what the operation raises — nothing is lost, nothing duplicated,
    whatever callbacks fail and whether or not the rows involved are attached. -/
theorem c11h_step (dw : Measure) {hs : List Nat} {w : World} (h : HInv hs w) (op : BuildOp)
    (hok : w.shape.ok op = true) (hh : op.hdrOk hs = true) :
    HInv (op.hdrStep w.rows.length hs) (applyOp dw w op) ∧
    ∀ e, mass (applyOp dw w op) e = mass w e + raisedBy dw w op e := by
  have s := step_all dw h.inv ⟨h.att, h.ect⟩ op hok hh
  exact ⟨⟨inv_step dw h.inv op hok, s.he.att, s.he.ect⟩, s.mass⟩

/-! ## Histories -/

/-- **No error is lost or duplicated by any valid history**: the number of occurrences of `e`
    in all error lists of the final world is the number of times `e` was raised along the way. -/
theorem c11h_history (dw : Measure) (ops : List BuildOp) (e : Nat) (hv : Valid ops = true)
    (hs : HdrSafe ops = true) : mass (run dw ops) e = raisedFrom dw e {} ops := by
  have r := run_all dw ops inv_init he_init hv hs
  have := r.mass e
  rw [mass_init, Nat.zero_add] at this
  exact this

/-- **Where they are**: in the final world, a table's list holds exactly what was raised on the
    table and on the rows that share its container at the end (in particular all rows in its
    list and its header row) — each once; and a row that is still unattached holds exactly what
    was raised on it. -/
theorem c11h_in_table (dw : Measure) (ops : List BuildOp) (e : Nat) (hv : Valid ops = true)
    (hs : HdrSafe ops = true) :
    (∀ t, ((run dw ops).table t).errs.count e
        = charged (run dw ops) (.table t) (ledgerFrom dw e {} ops)) ∧
    (∀ r, unattached (run dw ops) r →
      (rowErrors (run dw ops) r).count e
        = charged (run dw ops) (.row r) (ledgerFrom dw e {} ops)) := by
  have r := run_all dw ops inv_init he_init hv hs
  have hl := r.led e [] (led_init e)
  rw [List.nil_append] at hl
  refine ⟨fun t => hl (.table t) trivial, fun r' hu => ?_⟩
  rw [← cnt_row_unattached _ r' e hu]
  exact hl (.row r') hu

/-- … and the ledger accounts for everything raised (so the two parts of `c11h_in_table`
    together are a partition of `c11h_history`'s total) -/
theorem c11h_ledger_total (dw : Measure) (e : Nat) (ops : List BuildOp) :
    ((ledgerFrom dw e {} ops).map (·.2)).sum = raisedFrom dw e {} ops :=
  ledgerFrom_snd_sum dw e {} ops

/-- **Order**: between any two points of a valid history, every table's list has only been
    appended to; a row sharing a table's container still shares it; and a row's own list has
    only been appended to or — when the row was attached in between — sits, as one contiguous
    block in its original order, inside the list of the table it now belongs to. -/
theorem c11h_order (dw : Measure) (a b : List BuildOp) (hv : Valid (a ++ b) = true)
    (hs : HdrSafe (a ++ b) = true) :
    (∀ t, ((run dw a).table t).errs <+: ((run dw (a ++ b)).table t).errs) ∧
    (∀ r t, ((run dw a).row r).ec = .table t → ((run dw (a ++ b)).row r).ec = .table t) ∧
    (∀ r es, ((run dw a).row r).ec = .own es →
      (∃ l, ((run dw (a ++ b)).row r).ec = .own (es ++ l)) ∨
      (∃ t, ((run dw (a ++ b)).row r).ec = .table t ∧ es <:+: ((run dw (a ++ b)).table t).errs)) := by
  unfold Valid at hv
  unfold HdrSafe at hs
  rw [validFrom_append, Bool.and_eq_true] at hv
  rw [hdrSafeFrom_append, Bool.and_eq_true] at hs
  have ra := run_all dw a inv_init he_init hv.1 hs.1
  have hvb : (run dw a).shape.validFrom b = true := by rw [shape_run]; exact hv.2
  have hsb : hdrSafeFrom (run dw a).rows.length (hdrIdsFrom 0 [] a) b = true := by
    have := rows_length_runFrom dw {} a
    unfold run; rw [this]; exact hs.2
  have rb := run_all dw b ra.inv ra.he hvb hsb
  have e1 : run dw (a ++ b) = runFrom dw (run dw a) b := runFrom_append dw {} a b
  rw [e1]
  exact ⟨rb.grow.terrs, rb.grow.ecT, rb.grow.ecO⟩

/-! ## Non-vacuity -/

namespace C11hEx
def dw : Measure := fun b => b.length

/-- table 0 with a failing add-time row callback (50) and a failing render-time callback (60);
    row 0 built before attaching, with a failing add-time cell callback (70) and a direct error
    (7); a separator misused; headers; a row of items; a render; an unattached zero row misused -/
def hist : List BuildOp :=
  [ .newTable,
    .regCb (.table 0) .add .row (.fail 1 50),
    .regCb (.table 0) .pre .itself (.fail 2 60),
    .newRow,                                   -- row 0
    .regCb (.row 0) .add .cell (.fail 3 70),
    .addErr (.rowLazy 0) 7,
    .rowAdd 0 0,                               -- 70 into the row's own container
    .addRow 0 0,                               -- [7, 70] absorbed, then 50
    .addSeparator 0,                           -- row 1
    .rowAdd 1 0,                               -- misuse: errNonCellRow into the table
    .addHeaders 0 [0],                         -- row 2; 50 again (row callback on the header)
    .addRowItems 0 [0],                        -- row 3; 50 again
    .render 0,                                 -- 60
    .zeroRow,                                  -- row 4, never attached
    .rowAdd 4 0 ]                              -- misuse: errNonCellRow into the row's own
end C11hEx
open C11hEx

example : Valid hist = true ∧ HdrSafe hist = true := by decide
example : ((run dw hist).table 0).errs = [7, 70, 50, errNonCellRow, 50, 50, 60] := by decide
example : rowErrors (run dw hist) 4 = [errNonCellRow] ∧ unattached (run dw hist) 4 := by decide
example : raisedFrom dw 50 {} hist = 3 ∧ raisedFrom dw 70 {} hist = 1 ∧
    raisedFrom dw errNonCellRow {} hist = 2 ∧ raisedFrom dw 60 {} hist = 1 ∧ raisedFrom dw 7 {} hist = 1 ∧
    raisedFrom dw 8 {} hist = 0 := by decide
example : mass (run dw hist) 50 = 3 ∧ mass (run dw hist) errNonCellRow = 2 := by decide
example : charged (run dw hist) (.table 0) (ledgerFrom dw errNonCellRow {} hist) = 1 ∧
    charged (run dw hist) (.row 4) (ledgerFrom dw errNonCellRow {} hist) = 1 ∧
    charged (run dw hist) (.table 0) (ledgerFrom dw 70 {} hist) = 1 := by decide
example : addCbsCount (addRowCore (run dw (hist.take 7)) 0 0) 50 0 0 true = 1 ∧
    renderCount (run dw (hist.take 12)) 60 0 = 1 ∧ renderCount (run dw (hist.take 12)) 50 0 = 0 := by decide
example := c11h_history dw hist 50 (by decide) (by decide)
example := c11h_in_table dw hist 70 (by decide) (by decide)
example := c11h_invariant dw hist (by decide) (by decide)
example := c11h_order dw (hist.take 7) (hist.drop 7) (by decide) (by decide)
example := (c11h_invariant dw (hist.take 7) (by decide) (by decide)).1
-- the hypotheses of `c11h_step` (on the world after seven operations, next operation `addRow 0 0`)
example : (run dw (hist.take 7)).shape.ok (.addRow 0 0) = true ∧
    (BuildOp.addRow 0 0).hdrOk (hdrIdsFrom 0 [] (hist.take 7)) = true := by decide

/-- `HdrSafe` is necessary: `Valid` admits attaching a *former* header row, which still shares
    its old table's container, and `AddRow` then copies that table's whole list — the error 5 is
    raised once and reported twice.  (A Go caller cannot do this: it has no handle on the row.) -/
def C11hEx.bad : List BuildOp :=
  [ .newTable, .addHeaders 0 [], .addErr (.table 0) 5, .addHeaders 0 [], .newTable, .addRow 1 0 ]
example : Valid C11hEx.bad = true ∧ HdrSafe C11hEx.bad = false ∧
    raisedFrom dw 5 {} C11hEx.bad = 1 ∧ mass (run dw C11hEx.bad) 5 = 2 := by decide

end Tab
