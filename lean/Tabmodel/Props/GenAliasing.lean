/-
  Regenerated facts (C02, C12, C13): what the model takes for granted by its representation.

  The model holds a property chain as an immutable list per owner, the row list handed out by
  `AllRows` as a value, and a column as something addressed by (table, index).  In Go these are
  pointer structures: chains share their tails between owners (a by-value copy of a cell shares
  the whole chain with its original), `AllRows` could hand out the table's own slice, and a column
  handle could be a pointer into a slice of values that moves when the slice grows.  The theorems
  about independent owners (`c12_copy_frame`, `c12h_copy_frame`), the row list being a copy
  (`c02_allrows_copy`) and stable column handles (`c12_handle`, `c13_live`) are therefore true "by
  representation" in the model; what makes the representation faithful is re-extracted from the
  source on every check and stated here.  (Each of these was once false: the defects D13, and
  D14/D15 of DESIGN.md section 3.)
-/
import Tabmodel.Generated.Aliasing
namespace Tab
open Generated

/-- A link of a property chain is never written once built: no assignment in the core package
    goes through a field of a chain-link struct (links are built by composite literals only, and
    removal rebuilds the links above the removed one).  Sharing tails between owners is then
    unobservable, which is what lets the model give every owner its own list. -/
theorem c12_links_immutable : chainLinkWrites = [] := by decide

/-- the chain link type is recognised (otherwise the fact above would be vacuous) -/
theorem c12_links_recognised : chainLinkTypes ≠ [] := by decide

/-- `AllRows` returns a slice of its own making, never (a slice of) a field of the table. -/
theorem c02_allrows_own_slice : allRowsOwnSlice = true ∧ allRowsReturns ≠ ["(AllRows not found)"] := by decide

/-- The table's column list holds pointers: `Column(n)` is the live column, and stays the same
    object when the list grows. -/
theorem c13_columns_are_pointers : columnListElem.toList.head? = some (Char.ofNat 42) := by decide

end Tab
