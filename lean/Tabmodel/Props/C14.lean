/-
  C14 — rendering is repeatable and leaves the table unchanged.

  Hypothesis `LogOnly w t` (Proofs/StableDefs.lean, decidable) is the property's "absent user
  callbacks that themselves fail or mutate": every render-time callback of the table, its
  columns, its header and rows and their cells only logs; the measuring callbacks of texttable
  and markdown may sit (any number of times) in any cell-callback set.
  `Needs w wr`: the measuring callback the renderer of `wr.kind` relies on is registered on the
  core table, which is what `X.Wrap` / `X.New` / `X.Render` do (`wrapEffect`).
  `obs w t` (Proofs/StableDefs.lean): row / column counts, per row the separator flag, cell texts,
  cell locations, every owner's user properties, the table's and the rows' error lists.
-/
import Tabmodel.Proofs.StableWrap
namespace Tab
open World

/-- A render leaves every table of the world as the user sees it: counts, texts, locations,
    user properties, error lists. -/
theorem c14_obs (x : Ext) (w : World) (wr : Wrapper) (hL : LogOnly w wr.core) (t' : Nat) :
    (renderTo x w wr).1.obs t' = w.obs t' :=
  (Stable.render x w wr hL).obs t'

/-- … and the hypotheses themselves survive a render (so the theorems below iterate). -/
theorem c14_hyps_kept (x : Ext) (w : World) (wr : Wrapper) (hL : LogOnly w wr.core) :
    (∀ t, LogOnly w t → LogOnly (renderTo x w wr).1 t) ∧
    (∀ wr', Needs w wr' → Needs (renderTo x w wr).1 wr') :=
  ⟨(Stable.render x w wr hL).logOnly, (Stable.render x w wr hL).needs⟩

/-- Rendering `wr` after any other render `wr'` (any format, any decoration, the same table or
    another one of the same world) emits exactly what rendering `wr` first would have:
    same chunks, same result. -/
theorem c14_repeat (x : Ext) (w : World) (wr wr' : Wrapper) (hL : LogOnly w wr.core)
    (hL' : LogOnly w wr'.core) (hN : Needs w wr) :
    (renderTo x (renderTo x w wr').1 wr).2 = (renderTo x w wr).2 :=
  (Stable.render x w wr' hL').render_eq x wr hL hN

/-- Any finite history of wraps and renders, in any order of formats, decorations and tables,
    leaves every later output equal to what the same render gives on the initial world, and the
    observable table unchanged. -/
theorem c14_sequence (x : Ext) (w : World) (ops : List RenderOp) (hops : ∀ op ∈ ops, op.ok w)
    (wr : Wrapper) (hL : LogOnly w wr.core) (hN : Needs w wr) :
    (renderTo x (ops.foldl (RenderOp.run x) w) wr).2 = (renderTo x w wr).2 ∧
    ∀ t', (ops.foldl (RenderOp.run x) w).obs t' = w.obs t' :=
  ⟨(stable_ops x w ops hops).render_eq x wr hL hN, (stable_ops x w ops hops).obs⟩

/-- The same for the package-level `X.RenderTo(t, …)`, which wraps afresh each time (so measuring
    callbacks accumulate): no `Needs` hypothesis, the table only has to exist. -/
theorem c14_sequence_pkg (x : Ext) (w : World) (ops : List RenderOp) (hops : ∀ op ∈ ops, op.ok w)
    (wr : Wrapper) (hL : LogOnly w wr.core) (ht : wr.core < w.tables.length) :
    (renderTo x ((ops.foldl (RenderOp.run x) w).wrapEffect wr.kind wr.core) wr).2 =
      (renderTo x (w.wrapEffect wr.kind wr.core) wr).2 := by
  have hs := stable_ops x w ops hops
  exact render_congr x _ _ wr (by rw [bare_wrapEffect, bare_wrapEffect, hs.bare])
    (logOnly_wrapEffect _ _ _ _ (hs.logOnly _ hL)) (logOnly_wrapEffect _ _ _ _ hL)
    (needs_wrapEffect_self _ wr (by rw [hs.ntables]; exact ht)) (needs_wrapEffect_self _ wr ht)

/-! ### non-vacuity: one table, a header, two rows, a separator, wrapped as text twice and as
    markdown once -/

def exItem (b : UInt8) : Item :=
  { kind := .str [b], mString := none, mGoString := none, mError := none, fmtV := [b],
    mHeight := none, mWidth := none, json := some [34, b, 34] }

def exDw : Measure := List.length

def exWorld : World :=
  let w : World := { items := [exItem 97, exItem 98, exItem 99, exItem 100, exItem 101, exItem 102] }
  let (w, t) := w.newTable
  let w := w.addHeaders exDw t [0, 1]
  let (w, _) := w.addRowItems exDw t [2, 3]
  let w := w.addSeparator t
  let (w, _) := w.addRowItems exDw t [4, 5]
  let w := w.wrapEffect .text t
  let w := w.wrapEffect .text t
  w.wrapEffect .markdown t

def exText : Wrapper := { kind := .text, core := 0, decor := { vHeader := [124] } }
def exMd : Wrapper := { kind := .markdown, core := 0 }
def exCsv : Wrapper := { kind := .csv, core := 0 }

example : LogOnly exWorld 0 := by decide
example : Needs exWorld exText ∧ Needs exWorld exMd ∧ Needs exWorld exCsv := by decide
example : (exWorld.table 0).rows.length = 3 ∧ (exWorld.table 0).header.isSome = true ∧
    (exWorld.table 0).nColumns = 2 ∧ (exWorld.table 0).cellCbs.render = [.dimSetter, .dimSetter, .widthSetter] := by
  decide
/-- the hypotheses of `c14_sequence` hold for a history on the example world -/
example : ∀ op ∈ [RenderOp.render exText, .wrap .markdown 0, .render exCsv, .render exMd, .render exText],
    op.ok exWorld := by
  intro op hop
  simp only [List.mem_cons, List.mem_nil_iff, or_false] at hop
  rcases hop with h | h | h | h | h <;> subst h <;> first | trivial | (show LogOnly exWorld 0; decide)

end Tab
