/-
  C09 — Every renderer is total: it never panics, and failure is an error with no text.

  Assembly of the per-renderer totality theorems with the structural invariant of C02: for EVERY
  valid build history (tables with no rows, no header, an empty header, zero-cell rows, ragged rows,
  rows extended after attach, separators anywhere, items whose declared sizes disagree with their
  text) and every renderer, the outcome is never a panic.
-/
import Tabmodel.Props.C02
import Tabmodel.Props.C05
import Tabmodel.Props.C07
import Tabmodel.Props.C08
import Tabmodel.Proofs.TextTotal
import Tabmodel.Model.Render
namespace Tab

/-- alignment values within their documented domain imply the Markdown renderer's weaker demand -/
theorem alignsOK_of_alignOK (v : RTable) (hlen : v.colAlign.length = v.ncols + 1) (ha : AlignOK v) :
    AlignsOK v := by
  unfold AlignsOK
  rw [List.all_eq_true]
  intro e he
  obtain ⟨i, hi, hget⟩ := List.getElem_of_mem he
  have hle : i ≤ v.ncols := by omega
  have hd : v.colAlign.getD i none = e := by
    simp [List.getD_eq_getElem?_getD, List.getElem?_eq_getElem hi, hget]
  rcases ha i hle with h | ⟨a, _, h⟩
  · rw [hd] at h; subst h; rfl
  · rw [hd] at h; subst h; rfl

/-- what a decoration must satisfy for the text renderer to be total on every shape, including
    zero columns: its body dividers are all present or all absent (true of every built-in and of
    every Populate-completed decoration: `builtins_divsOK`, `divsOK_populate`) -/
def DecorTotal (d : Decoration) : Prop := DivsOK d.vBodyBorder d.vBodyInner d.vBodyBorder

/-- per renderer, on any view the invariant can produce -/
theorem c09_view_total (x : Ext) (wr : Wrapper) (v : RTable)
    (hs : WFShape v) (hlen : v.colAlign.length = v.ncols + 1) (ha : AlignOK v) (hd : DecorTotal wr.decor) :
    ∀ site,
      (match wr.kind with
       | .csv => (renderCsv v).res
       | .json => (renderJson x.js v).res
       | .markdown => (renderMarkdown x.dw v).res
       | .html => (renderHtml wr.html v).res
       | .text => (renderTextBody wr.decor v).res) ≠ .error (.panic site) := by
  intro site
  cases wr.kind with
  | csv => exact c05_no_panic v site
  | json => exact c07_no_panic x.js v site
  | markdown => exact c08_no_panic x.dw v (alignsOK_of_alignOK v hlen ha) site
  | html => simp [renderHtml, Emit.write]
  | text =>
    simp only []
    rw [renderTextBody_no_panic wr.decor v hs ha (divsOK_same _) hd]
    intro h; cases h

/-- C09: every world reachable by a valid build history renders without panic through every
    wrapper kind and any total decoration, provided alignment settings are within their domain -/
theorem c09_total (x : Ext) (ops : List BuildOp) (hv : Valid ops = true) (wr : Wrapper)
    (ht : wr.core < (run x.dw ops).tables.length)
    (ha : AlignOK ((World.invokeRenderCallbacks x.dw (run x.dw ops) wr.core).view wr.core))
    (hd : DecorTotal wr.decor) :
    ∀ site, ((run x.dw ops).renderTo x wr).2.res ≠ .error (.panic site) := by
  intro site
  have hinv := c02_inv_run x.dw ops hv
  obtain ⟨_, hs, hlen, _⟩ := c02_view_wf_after_callbacks x.dw hinv wr.core ht
  have hview := c09_view_total x wr _ hs hlen ha hd site
  unfold World.renderTo
  cases hk : wr.kind with
  | text =>
    simp only []
    split
    · simp [Emit.fail]
    · rw [hk] at hview; exact hview
  | csv => rw [hk] at hview; exact hview
  | json => rw [hk] at hview; exact hview
  | markdown => rw [hk] at hview; exact hview
  | html => rw [hk] at hview; exact hview

/-- the same from any world satisfying the invariant (e.g. after further renders) -/
theorem c09_total_inv (x : Ext) (w : World) (hinv : Inv w) (wr : Wrapper) (ht : wr.core < w.tables.length)
    (ha : AlignOK ((World.invokeRenderCallbacks x.dw w wr.core).view wr.core)) (hd : DecorTotal wr.decor) :
    ∀ site, (w.renderTo x wr).2.res ≠ .error (.panic site) := by
  intro site
  obtain ⟨_, hs, hlen, _⟩ := c02_view_wf_after_callbacks x.dw hinv wr.core ht
  have hview := c09_view_total x wr _ hs hlen ha hd site
  unfold World.renderTo
  cases hk : wr.kind with
  | text =>
    simp only []
    split
    · simp [Emit.fail]
    · rw [hk] at hview; exact hview
  | csv => rw [hk] at hview; exact hview
  | json => rw [hk] at hview; exact hview
  | markdown => rw [hk] at hview; exact hview
  | html => rw [hk] at hview; exact hview

/-- when Render returns an error the returned string is empty — for every renderer and world -/
theorem c09_render_empty (m : Emit Unit) (s : Stop) (h : m.res = .error s) :
    (World.renderString m).1 = [] ∧ (World.renderString m).2 = some s := by
  unfold World.renderString; rw [h]; exact ⟨rfl, rfl⟩

/-- … and complete output otherwise -/
theorem c09_render_complete (m : Emit Unit) (h : m.res = .ok ()) :
    World.renderString m = (m.output, none) := by
  unfold World.renderString; rw [h]

/-- every built-in decoration and every Populate-completed custom decoration is total -/
theorem c09_builtins_total : ∀ p ∈ Generated.builtins, DecorTotal p.2 :=
  fun p hp => (divsOKb_sound p.2 (builtins_divsOK p hp)).2

theorem c09_populated_total (d : Decoration) : DecorTotal d.populate := (divsOK_populate d).2

/-- the empty decoration (unknown style) is refused before anything else, also without panic -/
theorem c09_no_decoration (x : Ext) (w : World) (wr : Wrapper) (hk : wr.kind = .text)
    (he : wr.decor = emptyDecoration) : (w.renderTo x wr).2.res = .error (.err .noDecoration) := by
  unfold World.renderTo; rw [hk]; simp [he, Emit.fail]

/- non-vacuity: the example history of C02 is valid, and the hypotheses hold on it -/
example : DecorTotal ({} : Decoration).populate := c09_populated_total _
example : DecorTotal emptyDecoration := Or.inr ⟨rfl, rfl, rfl⟩

end Tab
