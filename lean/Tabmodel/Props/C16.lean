/-
  C16 — independent tables can be built and rendered concurrently (the LOGIC part).

  SCOPE.  Memory-level data-race freedom cannot be expressed in this model: its steps are whole API calls,
  so two goroutines inside the same call, a torn slice header, the Go memory model or `sync.Mutex` do not
  exist here.  That part of C16 is ASSUMED here and is sampled separately with the Go race detector.
  What is proved is state-locality / non-interference of API steps on distinct tables, for EVERY
  interleaving at API-step granularity, in the L1 model (`Model/World.lean`, `View.lean`, `Render.lean`).

  Vocabulary (definitions in `Proofs/C16*.lean`):
  * `Step`, `applyW`, `applyO`: the API calls (`NewRow`, `row.Add`, `AddRow`, `AddSeparator`, `AddHeaders`,
    `AddRowItems`, `AppendNewRow`, `SetProperty`/`RegisterPropertyCallback` on any owner, `X.Wrap`,
    `InvokeRenderCallbacks`, `RenderTo`, `CellAt`, `Column(n)!=nil`, `Errors()`), the world after a call and
    what the call returns.  Each step has an explicit footprint: `Step.tableOK t` (its table argument is `t`)
    and `Step.rowArgs` (its row argument); `s.on t R` = table argument `t` and row arguments in `R`.
  * `RowLocal t r rw`: row `r` refers to no table but `t` (`inTable ∈ {none, some t}`, `ec ∈ {none, own _,
    table t}`) and its cells' back pointers are `none` or `r` itself.  `OwnedBy w t R`: `R` contains the
    header and rows of `t`, and every row in `R` exists in the store and is `RowLocal` to `t`.
    `Local w t := OwnedBy w t (footprint w t)`.  All decidable.
  * `Sched`, `runI`, `ValidRun`, `ownedAfter`, `runAlone`, `skeleton`: see `c16_interleave`.

  Theorems:
  * `c16_frame_table`, `c16_frame_rows`, `c16_frame_footprint`, `c16_frame_newTable`: a step called on table
    `t` and rows owned with `t` writes only table `t`, those rows, and rows it appends to the store
    (allocation only appends: existing ids keep their contents);
  * `c16_local_preserved`: ownership (`OwnedBy`, hence `Local`) is preserved by every step;
  * `c16_depends`, `c16_depends_step`, `c16_depends_observers`: what a step returns (in particular the chunks
    and result of `RenderTo`) and the part of the world it owns afterwards depend only on table `t`, the
    owned rows and the items their cells reference;
  * `c16_interleave`: two goroutines A (table `a`) and B (table `b ≠ a`), disjoint row ownership, ANY
    interleaving of their calls, both free to allocate: what A's calls return (rendered output included),
    the render view of `a`, and — up to the renaming of row ids implied by the allocation order — table `a`
    and A's rows are what they are when A runs alone.  Special cases without renaming:
    `c16_interleave_norows` (A never names a row: "alone" is literally A's step list),
    `c16_interleave_skeleton` (B's calls replaced by the bare row allocations they perform: literal equality
    of table, rows and outputs), `c16_interleave_alone` (B allocates nothing: literal equality with A alone).
    `c16_interleave_other`: A and B can be exchanged.
  * `c16_registry_read_only`: the decoration registry is not part of `World`; lookups are pure.

  Not covered (besides memory-level races):
  * tables are allocated up front: `newTable` (`tabular.New()`) is not a step of the schedule language; it is
    framed by `c16_frame_newTable` (it appends to the table list and touches nothing else), but the renaming
    of TABLE ids that interleaved `New()` calls would imply is not carried through `c16_interleave`;
  * the event log (`World.events`) and the store of caller-held cell copies (`World.copies`) are model-level
    observation devices shared by construction (they have no counterpart shared between goroutines in Go);
    they are not part of the compared component, and `getProp` on a copy is not a step;
  * ownership is a hypothesis (`ValidRun`): a goroutine that calls a step on the other's table or row, or
    adds one row to both tables, is outside the theorem — as it is outside the property.
-/
import Tabmodel.Proofs.C16Alone
namespace Tab
open World C16

/-! ### frame properties -/

/-- C16 frame, tables: a step called on table `t` and rows in `R` (an owner set for `t`: it contains the header
    and rows of `t` plus the row argument of the step, all of them `RowLocal` to `t`) leaves every other
    table as it was, and does not change the number of tables. -/
theorem c16_frame_table (x : Ext) (w : World) (t : Nat) (R : List Nat) (s : Step)
    (ho : OwnedBy w t R) (hs : s.on t R) :
    (applyW x w s).tables.length = w.tables.length ∧
    ∀ t', t' ≠ t → (applyW x w s).tables[t']? = w.tables[t']? ∧ (applyW x w s).table t' = w.table t' := by
  have res := apply_local x s (ownedBy_iff_inv.1 ho) hs
  exact ⟨res.frame.tlen, fun t' ht => ⟨res.frame.tabs t' ht, res.frame.table ht⟩⟩

/-- C16 frame, rows: the same steps leave every existing row outside `R` as it was; existing ids keep
    their meaning (the store only grows, by exactly `nalloc s ∈ {0,1}` rows), and the item store is untouched. -/
theorem c16_frame_rows (x : Ext) (w : World) (t : Nat) (R : List Nat) (s : Step)
    (ho : OwnedBy w t R) (hs : s.on t R) :
    (applyW x w s).rows.length = w.rows.length + s.nalloc ∧
    (applyW x w s).items = w.items ∧
    ∀ r', r' < w.rows.length → r' ∉ R →
      (applyW x w s).rows[r']? = w.rows[r']? ∧ (applyW x w s).row r' = w.row r' := by
  have res := apply_local x s (ownedBy_iff_inv.1 ho) hs
  exact ⟨res.len, res.frame.items, fun r' hl hr => ⟨res.frame.rows r' hr hl, res.frame.row hr hl⟩⟩

/-- allocating a table (`tabular.New()`) touches no existing table and no row -/
theorem c16_frame_newTable (w : World) :
    (w.newTable).1.rows = w.rows ∧ (w.newTable).1.items = w.items ∧ (w.newTable).2 = w.tables.length ∧
    ∀ t', t' < w.tables.length → (w.newTable).1.tables[t']? = w.tables[t']? := by
  refine ⟨rfl, rfl, rfl, fun t' ht => ?_⟩
  simp [newTable, List.getElem?_append_left ht]

/-- ownership (hence `Local`) is preserved by every step; the freshly allocated row joins the owner set -/
theorem c16_local_preserved (x : Ext) (w : World) (t : Nat) (R : List Nat) (s : Step)
    (ho : OwnedBy w t R) (hs : s.on t R) :
    OwnedBy (applyW x w s) t (grow R w.rows.length s) ∧ Local (applyW x w s) t := by
  have res := apply_local x s (ownedBy_iff_inv.1 ho) hs
  have := ownedBy_iff_inv.2 (res.inv.congr (fun _ => mem_grow))
  exact ⟨this, this.local⟩

/-- the two frame properties with the footprint written out: if `t` is `Local` and the row argument of the
    step (if any) exists and is `RowLocal` to `t`, then a step with table argument `t` changes no other table
    and no existing row other than its row argument, the header of `t` and the rows of `t`. -/
theorem c16_frame_footprint (x : Ext) (w : World) (t : Nat) (s : Step)
    (hl : Local w t) (hargs : ∀ r ∈ s.rowArgs, r < w.rows.length ∧ RowLocal t r (w.row r))
    (ht : s.tableOK t) :
    (∀ t', t' ≠ t → (applyW x w s).tables[t']? = w.tables[t']?) ∧
    (∀ r', r' < w.rows.length → r' ∉ s.rowArgs → (w.table t).header ≠ some r' → r' ∉ (w.table t).rows →
      (applyW x w s).rows[r']? = w.rows[r']?) ∧
    Local (applyW x w s) t := by
  have ho : OwnedBy w t (footprint w t ++ s.rowArgs) :=
    ⟨fun r hr => List.mem_append.2 (.inl hr), fun r hr => by
      rcases List.mem_append.1 hr with h | h
      · exact hl.2 r h
      · exact hargs r h⟩
  have hs : s.on t (footprint w t ++ s.rowArgs) :=
    (Step.on_iff s t _).2 ⟨ht, fun r hr => List.mem_append.2 (.inr hr)⟩
  refine ⟨fun t' ht' => ((c16_frame_table x w t _ s ho hs).2 t' ht').1, fun r' hl' h1 h2 h3 => ?_,
    (c16_local_preserved x w t _ s ho hs).2⟩
  refine ((c16_frame_rows x w t _ s ho hs).2.2 r' hl' (fun hm => ?_)).1
  rcases List.mem_append.1 hm with h | h
  · rcases mem_footprint.1 h with h | h
    · exact h2 h
    · exact h3 h
  · exact h1 h

/-! ### dependence properties -/

/-- C16 dependence, rendering: the chunks and the result of `RenderTo` on a wrapper of table `t`, and table
    `t` and its rows afterwards, are determined by table `t`, the rows in its footprint and the items their
    cells reference. -/
theorem c16_depends (x : Ext) (wr : Wrapper) (w₁ w₂ : World)
    (hl : Local w₁ wr.core)
    (htab : w₁.tables[wr.core]? = w₂.tables[wr.core]?)
    (hrows : ∀ r ∈ footprint w₁ wr.core, w₁.rows[r]? = w₂.rows[r]?)
    (hitems : ∀ r ∈ footprint w₁ wr.core, ∀ ce ∈ w₁.rowCells r, w₁.item ce.item = w₂.item ce.item) :
    (renderTo x w₁ wr).2 = (renderTo x w₂ wr).2 ∧
    (renderTo x w₁ wr).1.tables[wr.core]? = (renderTo x w₂ wr).1.tables[wr.core]? ∧
    ∀ r ∈ footprint w₁ wr.core, (renderTo x w₁ wr).1.rows[r]? = (renderTo x w₂ wr).1.rows[r]? := by
  let I : Nat → Prop := fun i => ∃ r ∈ footprint w₁ wr.core, ∃ ce ∈ w₁.rowCells r, ce.item = i
  have inv : Inv wr.core (· ∈ footprint w₁ wr.core) I w₁ :=
    inv_of_ownedBy hl (fun r hr ce hce => ⟨r, hr, ce, hce, rfl⟩)
  have ag : Agree wr.core (· ∈ footprint w₁ wr.core) I w₁ w₂ :=
    ⟨htab, hrows, fun i ⟨r, hr, ce, hce, e⟩ => e ▸ hitems r hr ce hce⟩
  have h1 := (rd_renderOut (P := (· ∈ footprint w₁ wr.core)) (I := I) x wr rfl).ag w₁ w₂ inv ag
  have h2 := (ls_renderTo_world (P := (· ∈ footprint w₁ wr.core)) (I := I) x wr rfl w₁ inv).dep w₂ ag
  exact ⟨Obs.rendered.inj h1, h2.tab, h2.rows⟩

/-- C16 dependence, any step: two worlds that agree on table `t`, on the owned rows `R`, on the items and on
    the size of the row store give the same return value and agree again afterwards (on the grown owner set). -/
theorem c16_depends_step (x : Ext) (w₁ w₂ : World) (t : Nat) (R : List Nat) (s : Step)
    (ho : OwnedBy w₁ t R) (hs : s.on t R)
    (htab : w₁.tables[t]? = w₂.tables[t]?) (hrows : ∀ r ∈ R, w₁.rows[r]? = w₂.rows[r]?)
    (hitems : ∀ i, w₁.item i = w₂.item i) (hlen : w₂.rows.length = w₁.rows.length) :
    applyO x w₁ s = applyO x w₂ s ∧
    (applyW x w₁ s).tables[t]? = (applyW x w₂ s).tables[t]? ∧
    (∀ r ∈ grow R w₁.rows.length s, (applyW x w₁ s).rows[r]? = (applyW x w₂ s).rows[r]?) ∧
    (∀ i, (applyW x w₁ s).item i = (applyW x w₂ s).item i) := by
  have res := apply_local x s (ownedBy_iff_inv.1 ho) hs
  obtain ⟨ag, ob⟩ := res.dep w₂ ⟨htab, hrows, fun i _ => hitems i⟩ hlen
  exact ⟨ob, ag.tab, fun r hr => ag.rows r (mem_grow.1 hr), fun i => ag.items i trivial⟩

/-- C16 dependence, observers: `CellAt`, `Column(n) != nil`, `Errors()` of a row of the table. -/
theorem c16_depends_observers (w₁ w₂ : World) (t : Nat)
    (hl : Local w₁ t)
    (htab : w₁.tables[t]? = w₂.tables[t]?)
    (hrows : ∀ r ∈ footprint w₁ t, w₁.rows[r]? = w₂.rows[r]?) :
    (∀ r c, cellAt w₁ t r c = cellAt w₂ t r c) ∧
    (∀ n, hasColumn w₁ t n = hasColumn w₂ t n) ∧
    (∀ r ∈ footprint w₁ t, rowErrors w₁ r = rowErrors w₂ r) := by
  have inv := ownedBy_iff_inv.1 hl
  have ag : Agree t (· ∈ footprint w₁ t) anyItem w₁ { w₂ with items := w₁.items } :=
    ⟨htab, hrows, fun _ _ => rfl⟩
  exact ⟨fun r c => (rd_cellAt r c).ag w₁ { w₂ with items := w₁.items } inv ag,
    fun n => (rd_hasColumn n).ag w₁ { w₂ with items := w₁.items } inv ag,
    fun r hr => (rd_rowErrors (P := (· ∈ footprint w₁ t)) hr).ag w₁ { w₂ with items := w₁.items } inv ag⟩

/-! ### interleavings -/

/-- C16 interleaving, general form.  A works on table `a` with rows `Ra`, B on table `b ≠ a` with rows `Rb`,
    ownership is disjoint, and `I` is ANY interleaving of their steps (`true` = A's step) in which each
    goroutine only calls steps on its own table and on rows it owns at that moment (`ValidRun`; rows a
    goroutine allocates become its own; both may allocate freely).  Compare with `runAlone`: A's calls
    alone, from the same initial world, B's calls not executed at all, each call of A made on the row
    handles that A's own earlier calls returned in that run.  Then
    * everything A's calls return — the chunks and result of every `RenderTo`, error lists, `CellAt`
      column, refusals — is equal, the identity of returned row handles aside (`Obs.erase`);
    * the render view of table `a` at the end is equal;
    * table `a` and all of A's rows at the end are equal up to a renaming `ρ` of row ids that is injective
      on A's rows (row `r` of the interleaved run is row `ρ r` of the run alone; the ids stored in the table's
      `rows`/`header` and in the cells' back pointers are renamed by `ρ`);
    * A's final owner set is again an owner set (it contains the whole footprint of `a`). -/
theorem c16_interleave (x : Ext) (a b : Nat) (hab : a ≠ b) (w : World) (Ra Rb : List Nat)
    (ha : OwnedBy w a Ra) (hb : OwnedBy w b Rb) (hd : ∀ r ∈ Ra, r ∉ Rb)
    (I : Sched) (hv : ValidRun x a b w Ra Rb I) :
    (runAlone x w w (fun r => r) I).2.map Obs.erase = (runI x w I).2.map Obs.erase ∧
    (runAlone x w w (fun r => r) I).1.view a = (runI x w I).1.view a ∧
    (∃ ρ : Nat → Nat,
      (∀ r ∈ ownedAfter x w Ra I, ∀ r' ∈ ownedAfter x w Ra I, ρ r = ρ r' → r = r') ∧
      (runAlone x w w (fun r => r) I).1.tables[a]? = ((runI x w I).1.tables[a]?).map (renTable ρ) ∧
      ∀ r ∈ ownedAfter x w Ra I,
        (runAlone x w w (fun r => r) I).1.rows[ρ r]? = ((runI x w I).1.rows[r]?).map (renRow ρ)) ∧
    OwnedBy (runI x w I).1 a (ownedAfter x w Ra I) := by
  obtain ⟨⟨ρ, hs⟩, c2, c3⟩ := alone_main x hab I w w (fun r => r) Ra Rb (ownedBy_iff_inv.1 ha)
    (ownedBy_iff_inv.1 hb) hd (Sim.refl _ _ _ _) hv
  exact ⟨c2, sim_view c3 hs, ⟨ρ, fun r hr r' hr' => hs.inj r r' hr hr', hs.tab, hs.rows⟩, ownedBy_iff_inv.2 c3⟩

/-- C16 interleaving for programs that never name a row (A only uses `AddHeaders`, `AddRowItems`,
    `AddSeparator`, `AppendNewRow`, `NewRow`, table/column properties and callbacks, `Wrap`, `RenderTo`,
    `CellAt`, …): `runAlone` is then literally the run of A's step list. -/
theorem c16_interleave_norows (x : Ext) (a b : Nat) (hab : a ≠ b) (w : World) (Ra Rb : List Nat)
    (ha : OwnedBy w a Ra) (hb : OwnedBy w b Rb) (hd : ∀ r ∈ Ra, r ∉ Rb)
    (I : Sched) (hv : ValidRun x a b w Ra Rb I)
    (hA : ∀ p ∈ I, p.1 = true → p.2.rowArgs = []) :
    (run x w (projA I)).2.map Obs.erase = (runI x w I).2.map Obs.erase ∧
    (run x w (projA I)).1.view a = (runI x w I).1.view a := by
  have h := c16_interleave x a b hab w Ra Rb ha hb hd I hv
  rw [runAlone_noRows x I hA] at h
  exact ⟨h.1, h.2.1⟩

/-- C16 interleaving, literal form (no renaming).  A works on table `a` with rows `Ra`, B on table `b ≠ a` with rows `Rb`, ownership is
    disjoint, `I` is any interleaving of their steps (`true` = A's step) in which each goroutine only calls
    steps on its own table and on rows it owns at that moment (`ValidRun`; rows a goroutine allocates become
    its own).  Then table `a`, every row A owns at the end, and everything A's steps returned are the same
    as in the run of `skeleton I`, in which B's steps are reduced to the bare row allocations they perform.
    A's final owner set is again an owner set (so it contains the whole footprint of `a`). -/
theorem c16_interleave_skeleton (x : Ext) (a b : Nat) (hab : a ≠ b) (w : World) (Ra Rb : List Nat)
    (ha : OwnedBy w a Ra) (hb : OwnedBy w b Rb) (hd : ∀ r ∈ Ra, r ∉ Rb)
    (I : Sched) (hv : ValidRun x a b w Ra Rb I) :
    (runI x w I).1.tables[a]? = (runI x w (skeleton I)).1.tables[a]? ∧
    (∀ r ∈ ownedAfter x w Ra I, (runI x w I).1.rows[r]? = (runI x w (skeleton I)).1.rows[r]?) ∧
    (runI x w I).2 = (runI x w (skeleton I)).2 ∧
    OwnedBy (runI x w I).1 a (ownedAfter x w Ra I) := by
  have ia := ownedBy_iff_inv.1 ha
  obtain ⟨c1, c2, c3⟩ := interleave_main x hab I w w Ra Rb ia (ownedBy_iff_inv.1 hb) hd ia
    (Agree.refl _ _ _ _) rfl hv
  exact ⟨c1.tab, c1.rows, c2, ownedBy_iff_inv.2 c3⟩

/-- C16 interleaving when B's steps allocate no row (all of B's rows were allocated up front): the
    A-component and A's outputs after ANY interleaving are those of running A alone. -/
theorem c16_interleave_alone (x : Ext) (a b : Nat) (hab : a ≠ b) (w : World) (Ra Rb : List Nat)
    (ha : OwnedBy w a Ra) (hb : OwnedBy w b Rb) (hd : ∀ r ∈ Ra, r ∉ Rb)
    (I : Sched) (hv : ValidRun x a b w Ra Rb I)
    (hB : ∀ p ∈ I, p.1 = false → p.2.allocs = false) :
    (runI x w I).1.tables[a]? = (run x w (projA I)).1.tables[a]? ∧
    (∀ r ∈ ownedAfter x w Ra I, (runI x w I).1.rows[r]? = (run x w (projA I)).1.rows[r]?) ∧
    (runI x w I).2 = (run x w (projA I)).2 := by
  have h := c16_interleave_skeleton x a b hab w Ra Rb ha hb hd I hv
  rw [runI_skeleton_noalloc x w I hB] at h
  exact ⟨h.1, h.2.1, h.2.2.1⟩

/-- the roles of A and B in a schedule can be exchanged, so `c16_interleave` also speaks about B -/
theorem c16_interleave_other (x : Ext) (a b : Nat) (w : World) (Ra Rb : List Nat) (I : Sched)
    (hv : ValidRun x a b w Ra Rb I) :
    ValidRun x b a w Rb Ra (I.map (fun p => (!p.1, p.2))) := by
  induction I generalizing w Ra Rb with
  | nil => trivial
  | cons p rest ih =>
    obtain ⟨g, s⟩ := p
    cases g with
    | true => exact ⟨hv.1, ih _ _ _ hv.2⟩
    | false => exact ⟨hv.1, ih _ _ _ hv.2⟩

/-! ### the decoration registry -/

/-- C16, registry.  Type-level facts: `applyW : Ext → World → Step → World` and `renderTo : Ext → World →
    Wrapper → World × Emit Unit` neither take nor return a `Registry`; a text wrapper carries the
    `Decoration` value that was looked up when it was configured (`Wrapper.decor`).  The lookups themselves
    (`Registry.named`, `resolveStyle`) are pure functions that return no new registry; they read the registry
    only through `named`: registries with the same `named` resolve every style alike, and registering another
    name does not disturb a lookup. -/
theorem c16_registry_read_only (reg reg' : Registry) (heavy : Decoration) (style n m : Bytes) (d : Decoration) :
    ((∀ k, reg.named k = reg'.named k) → resolveStyle reg heavy style = resolveStyle reg' heavy style) ∧
    (m ≠ n → (reg.register m d).named n = reg.named n) := by
  constructor
  · intro h
    unfold resolveStyle
    simp only [h]
  · intro hmn
    have hne : (m == n) = false := by simpa using hmn
    unfold Registry.register Registry.named
    simp only [List.find?_cons, hne]
    have : ∀ l : List (Bytes × Decoration),
        (l.filter (fun p => p.1 != m)).find? (fun p => p.1 == n) = l.find? (fun p => p.1 == n) := by
      intro l
      induction l with
      | nil => rfl
      | cons p l ih =>
        by_cases hp : p.1 = m
        · have h1 : (p.1 != m) = false := by simp [hp]
          have h2 : (p.1 == n) = false := by rw [hp]; exact hne
          simp only [List.filter_cons, h1, List.find?_cons, h2]
          exact ih
        · have h1 : (p.1 != m) = true := by simp [hp]
          simp only [List.filter_cons, h1, if_true, List.find?_cons, ih]
    rw [this]

/-! ### non-vacuity: a concrete two-table world -/

namespace C16Ex

def it (s : Bytes) : Item :=
  { kind := .str s, mString := none, mGoString := none, mError := none, fmtV := s,
    mHeight := none, mWidth := none, json := some s }

/-- table 0: header row 0, one data row 1; table 1: data row 2 and separator 3;
    row 4: made with `NewRow()` by the owner of table 0, not yet attached; row 5: likewise for table 1 -/
def w0 : World :=
  { tables := [ { header := some 0, rows := [1], nColumns := 1, columns := [{}, {}] },
                { rows := [2, 3], nColumns := 1, columns := [{}, {}] } ]
    rows := [ { cells := some [{ item := 0, inRow := some 0, columnNum := 1 }], ec := .table 0 },
              { cells := some [{ item := 1, inRow := some 1, columnNum := 1 }], inTable := some 0,
                rowNum := 1, ec := .table 0 },
              { cells := some [{ item := 0, inRow := some 2, columnNum := 1 }], inTable := some 1,
                rowNum := 1, ec := .table 1 },
              { cells := none, isSep := true, inTable := some 1, rowNum := 2, ec := .table 1 },
              {}, {} ]
    items := [it [104], it [105]] }

def x0 : Ext := { dw := fun b => b.length, js := fun b => b }

/-- the same world seen after the other goroutine changed its table 1 and its row 2 -/
def w0' : World :=
  { w0 with
    tables := w0.tables.modify 1 (fun tb => { tb with errs := [7], nColumns := 3 })
    rows := w0.rows.modify 2 (fun rw => { rw with cells := some [], ec := .own [9] }) }

def csv0 : Wrapper := { kind := .csv, core := 0 }
def txt1 : Wrapper := { kind := .text, core := 1, decor := { emptyDecoration with vertical := [124], horizontal := [45] } }

/-- an interleaving: A fills and attaches its row 4, renders, adds a row; B adds a separator, appends a row, renders -/
def sched : Sched :=
  [ (true, .rowAdd 4 0), (false, .addSeparator 1), (true, .addRow 0 4), (false, .appendNewRow 1),
    (true, .render csv0), (false, .rowAdd 5 1), (true, .addRowItems 0 [1, 0]), (false, .render txt1),
    (true, .cellAt 0 2 1) ]

example : Local w0 0 ∧ Local w0 1 := by decide
example : OwnedBy w0 0 [0, 1, 4] ∧ OwnedBy w0 1 [2, 3, 5] := by decide
example : (Step.addRow 0 4).on 0 [0, 1, 4] := by decide
example : (∀ r ∈ (Step.addRow 0 4).rowArgs, r < w0.rows.length ∧ RowLocal 0 r (w0.row r)) ∧
    (Step.addRow 0 4).tableOK 0 := ⟨by decide, rfl⟩
example : ValidRun x0 0 1 w0 [0, 1, 4] [2, 3, 5] sched := by decide

/-- a schedule in which A names no row, and both goroutines allocate -/
def sched2 : Sched :=
  [ (true, .addHeaders 0 [0]), (false, .addRowItems 1 [1]), (true, .addRowItems 0 [1, 0]),
    (false, .addSeparator 1), (true, .wrap .markdown 0), (false, .appendNewRow 1),
    (true, .render { kind := .markdown, core := 0 }), (true, .addSeparator 0), (true, .render csv0) ]

example : ValidRun x0 0 1 w0 [0, 1, 4] [2, 3, 5] sched2 ∧ (∀ p ∈ sched2, p.1 = true → p.2.rowArgs = []) := by
  decide

-- and B allocates nothing in this one (hypothesis of `c16_interleave_alone`)
example : ValidRun x0 0 1 w0 [0, 1, 4] [2, 3, 5]
      [(true, .rowAdd 4 0), (false, .rowAdd 5 1), (true, .addRow 0 4), (false, .addRow 1 5)] ∧
    (∀ p ∈ [(true, Step.rowAdd 4 0), (false, .rowAdd 5 1), (true, .addRow 0 4), (false, .addRow 1 5)],
      p.1 = false → p.2.allocs = false) := by decide

-- the hypotheses of `c16_depends` hold for two different worlds
example : w0.tables ≠ w0'.tables ∧ Local w0 csv0.core ∧ w0.tables[csv0.core]? = w0'.tables[csv0.core]? ∧
    (∀ r ∈ footprint w0 csv0.core, w0.rows[r]? = w0'.rows[r]?) := by decide

end C16Ex

end Tab
