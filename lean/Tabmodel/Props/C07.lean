/-
  C07 — JSON output is valid JSON that mirrors the table, or an error and nothing.

  Specification-side definitions (`Tok`, `tokBytes`, `parseArr`, `objects`, `jsonToks`,
  `JsonOK`, `HeaderOK`, `MarshalOK`, `headerDefect`) are in `Tabmodel/Spec/Json.lean`,
  `WFShape` in `Tabmodel/Spec/Shape.lean`; helper lemmas in `Tabmodel/Proofs/C07.lean`.

  `js` is `json.Marshal` of a Go string (arbitrary function); a cell's `json` field is
  `json.Marshal(item)` (`none` = marshal error).  Key and value texts are opaque, so the
  token stream is given positionally (`jsonToks`) and tied to the bytes by `c07_tokens`.
-/
import Tabmodel.Model.Render
import Tabmodel.Proofs.C07
namespace Tab
open Emit C07

/-- The renderer succeeds exactly on the tables satisfying `HeaderOK`, with every row at most
`ncols` cells long and every written cell's item marshalling. -/
theorem c07_ok_iff (js : JsonStr) (v : RTable) :
    (renderJson js v).res = .ok () ↔
      HeaderOK v ∧ (∀ cs, some cs ∈ v.rows → cs.length ≤ v.ncols) ∧ MarshalOK v := by
  constructor
  · intro hok
    have hh : HeaderOK v := by
      apply Classical.byContradiction
      intro hn
      obtain ⟨e, he, _⟩ := renderJson_header_err js hn
      rw [he] at hok; cases hok
    exact ⟨hh, (rowGood_all_iff v).1 (renderJson_ok_rows js hh hok)⟩
  · rintro ⟨hh, hr⟩
    exact (renderJson_good js hh ((rowGood_all_iff v).2 hr)).1

/-- Converse of `c07_valid_mirror`: under the table invariant, success implies `JsonOK`. -/
theorem c07_ok_jsonOK (js : JsonStr) (v : RTable) (hw : WFShape v)
    (hok : (renderJson js v).res = .ok ()) : JsonOK v := by
  obtain ⟨h1, _, h3⟩ := (c07_ok_iff js v).1 hok
  exact ⟨h1, hw, h3⟩

/-- Chunk/token correspondence: whenever rendering succeeds, the bytes written are exactly the bytes of
the positional token stream `jsonToks js v`. -/
theorem c07_tokens (js : JsonStr) (v : RTable) (hok : (renderJson js v).res = .ok ()) :
    (renderJson js v).chunks.flatten = (jsonToks js v).flatMap tokBytes := by
  obtain ⟨hh, hr⟩ := (c07_ok_iff js v).1 hok
  exact (renderJson_good js hh ((rowGood_all_iff v).2 hr)).2

/-- On a `JsonOK` table rendering succeeds, its output is the token stream `jsonToks js v`, and that
stream parses, by the array-of-objects grammar, to exactly `objects js v`. -/
theorem c07_valid_mirror (js : JsonStr) (v : RTable) (h : JsonOK v) :
    (renderJson js v).res = .ok () ∧
    (renderJson js v).output = (jsonToks js v).flatMap tokBytes ∧
    parseArr (jsonToks js v) = some (objects js v) := by
  have hok : (renderJson js v).res = .ok () := (c07_ok_iff js v).2 ⟨h.1, h.2.1.2, h.2.2⟩
  exact ⟨hok, c07_tokens js v hok, parseArr_jsonToks js v⟩

/-- The property as stated: whenever JSON rendering returns no error, the output is the bytes of a
token stream that parses to one object per non-separator row, mirroring the table. -/
theorem c07_ok_valid_mirror (js : JsonStr) (v : RTable) (hok : (renderJson js v).res = .ok ()) :
    (renderJson js v).output = (jsonToks js v).flatMap tokBytes ∧
    parseArr (jsonToks js v) = some (objects js v) :=
  ⟨c07_tokens js v hok, parseArr_jsonToks js v⟩

/-- Each object is a genuine map: when the ENCODED keys of the first `ncols` headers are pairwise distinct,
no object repeats a key.  For an injective `js` this is implied by `JsonOK` (second theorem); Go's
`json.Marshal` is injective on valid UTF-8 strings only (every invalid byte becomes U+FFFD). -/
theorem c07_keys_distinct (js : JsonStr) (v : RTable) (hw : WFShape v)
    (hd : ∀ i < v.ncols, ∀ j < i, js (headerText v j) ≠ js (headerText v i)) :
    ∀ o ∈ objects js v, (o.map Prod.fst).Nodup := by
  intro o ho
  unfold objects at ho
  obtain ⟨r, hr, hro⟩ := List.mem_filterMap.1 ho
  cases r with
  | none => cases hro
  | some cs =>
    simp only [Option.map_some, Option.some.injEq] at hro
    subst hro
    exact members_keys_nodup js v cs (hw.2 cs hr) hd

theorem c07_keys_distinct_inj (js : JsonStr) (v : RTable) (h : JsonOK v) (hinj : Function.Injective js) :
    ∀ o ∈ objects js v, (o.map Prod.fst).Nodup :=
  c07_keys_distinct js v h.2.1 (fun i hi j hj he => h.1.2.2.2.2.2.1 i hi j hj (hinj he))

/-- Error classification, in the order the code checks.  Every header-phase error writes nothing.
The column clause is exact: the first column (in order) with a defect decides the class, an empty
text before a duplicate before a non-bool skipable. -/
theorem c07_errors (js : JsonStr) (v : RTable) :
    (v.ncols = 0 → renderJson js v = ⟨[], .error (.err .noColumns)⟩) ∧
    (1 ≤ v.ncols → boolOrNone (v.colSkip.getD 0 none) = false →
      renderJson js v = ⟨[], .error (.err .nonboolSkipable)⟩) ∧
    (1 ≤ v.ncols → boolOrNone (v.colSkip.getD 0 none) = true → v.header = none →
      renderJson js v = ⟨[], .error (.err .noHeaders)⟩) ∧
    (1 ≤ v.ncols → boolOrNone (v.colSkip.getD 0 none) = true →
      ∀ hs, v.header = some hs → hs.length < v.ncols →
      renderJson js v = ⟨[], .error (.err .tooFewHeaders)⟩) ∧
    (1 ≤ v.ncols → boolOrNone (v.colSkip.getD 0 none) = true →
      ∀ hs, v.header = some hs → v.ncols ≤ hs.length →
      ∀ i < v.ncols, (∀ j < i, headerDefect v j = none) → ∀ e, headerDefect v i = some e →
      renderJson js v = ⟨[], .error (.err e)⟩) ∧
    (HeaderOK v → ∀ s, (renderJson js v).res = .error s →
      ((s = .err .structural ∧ ∃ cs, some cs ∈ v.rows ∧ v.ncols < cs.length) ∨ s = .err .marshal) ∧
      ∃ ts, ts <+: jsonToks js v ∧ (renderJson js v).output = ts.flatMap tokBytes) ∧
    (HeaderOK v → (∀ cs, some cs ∈ v.rows → cs.length ≤ v.ncols) → ¬ MarshalOK v →
      (renderJson js v).res = .error (.err .marshal)) := by
  refine ⟨renderJson_noColumns js, renderJson_col0 js, renderJson_noHeaders js,
    fun h1 h0 hs hh hl => renderJson_tooFew js h1 h0 hh hl, ?_, ?_, ?_⟩
  · intro h1 h0 hs hh hl i hi hfine e hd
    obtain ⟨d, p⟩ := preOK_of h1 h0 hh hl
    exact renderJson_defect js p hi hfine hd
  · intro hh s herr
    exact renderJson_rows_err js hh herr
  · intro hh hshort hm
    cases hres : (renderJson js v).res with
    | ok u =>
      exact absurd ((c07_ok_iff js v).1 hres).2.2 hm
    | error s =>
      rcases (renderJson_rows_err js hh hres).1 with ⟨_, cs, hcs, hl⟩ | h2
      · have := hshort cs hcs; omega
      · rw [h2]

/-- The plain reading of the header clauses: a missing/short header, an empty or repeated header text
among the first `ncols`, or a non-boolean skipable on column 0 or any column makes rendering fail with a
header-phase error class before anything is written. -/
theorem c07_errors_header (js : JsonStr) (v : RTable)
    (h : v.ncols = 0 ∨ boolOrNone (v.colSkip.getD 0 none) = false ∨ v.header = none ∨
      (headerCells v).length < v.ncols ∨
      (∃ i < v.ncols, headerText v i = []) ∨
      (∃ i < v.ncols, ∃ j < i, headerText v j = headerText v i) ∨
      (∃ i < v.ncols, boolOrNone (v.colSkip.getD (i + 1) none) = false)) :
    ∃ e, renderJson js v = ⟨[], .error (.err e)⟩ ∧
      e ∈ [ErrClass.noColumns, .nonboolSkipable, .noHeaders, .tooFewHeaders, .emptyHeader, .dupHeader] := by
  apply renderJson_header_err js
  rintro ⟨h1, h2, h3, h4, h5, h6, h7⟩
  rcases h with h | h | h | h | ⟨i, hi, h⟩ | ⟨i, hi, j, hj, h⟩ | ⟨i, hi, h⟩
  · omega
  · rw [h] at h2; cases h2
  · rw [h] at h3; cases h3
  · omega
  · exact h5 i hi h
  · exact h6 i hi j hj h
  · rw [h7 i hi] at h; cases h

/-- `Render` returns no text when rendering fails. -/
theorem c07_render_empty (js : JsonStr) (v : RTable) (s : Stop)
    (h : (renderJson js v).res = .error s) : (World.renderString (renderJson js v)).1 = [] := by
  unfold World.renderString; rw [h]

/-- The JSON renderer never panics (no index goes out of range), on any view at all; in particular
under `WFShape`. -/
theorem c07_no_panic (js : JsonStr) (v : RTable) : ∀ s, (renderJson js v).res ≠ .error (.panic s) := by
  intro s hs
  by_cases hh : HeaderOK v
  · rcases (renderJson_rows_err js hh hs).1 with ⟨h, _⟩ | h <;> cases h
  · obtain ⟨e, he, _⟩ := renderJson_header_err js hh
    rw [he] at hs; cases hs

/-! ## Non-vacuity: concrete views (evaluated by `decide`/`rfl`, with a toy string encoder) -/

/-- a toy string encoder for evaluation: wrap in double quotes -/
def c07JsQ : JsonStr := fun s => [34] ++ s ++ [34]

namespace C07Ex
def c1 : RCell := { text := [49], json := some [49] }                          -- item 1
def c2 : RCell := { text := [50], json := some [50] }                          -- item 2
def cObj : RCell := { text := [120], json := some [123, 125] }                 -- encodes as {}, text "x"
def cObjE : RCell := { text := [], json := some [123, 125] }                   -- encodes as {}, empty text
def cNil : RCell := { text := [], empty := true, json := some [110, 117, 108, 108] }  -- nil item: null
def cBad : RCell := { text := [63], json := none }                             -- does not marshal
def hA : RCell := { text := [97] }
def hB : RCell := { text := [98] }
def hE : RCell := { text := [] }
def kA : Bytes := [34, 97, 34]
def kB : Bytes := [34, 98, 34]

def mk (rows : List (Option (List RCell))) : RTable :=
  { ncols := 2, header := some [hA, hB], rows := rows, colAlign := [], colSkip := [] }

def tLead : RTable := mk [none, some [c1, c2], some [c2]]
def tTrail : RTable := mk [some [c1], none]
def tConsec : RTable := mk [some [c1], none, none, some [c2]]
def tOnly : RTable := mk [none]
def tNoRows : RTable := mk []
/-- column 0 says skipable, column 2 overrides with false: the empty cell is dropped in column 1 only -/
def tSkip : RTable :=
  { mk [some [cNil, cNil], some [cNil]] with colSkip := [some (.bool true), none, some (.bool false)] }
def tObj : RTable := mk [some [cObj, cObjE]]
def tMix : RTable :=
  { mk [none, some [cObj, cNil], none, none, some [c1], some [], some [cNil, cNil], none] with
    colSkip := [none, none, some (.bool true)] }

-- hypotheses of c07_valid_mirror / c07_tokens / c07_ok_jsonOK hold
example : JsonOK tLead ∧ JsonOK tTrail ∧ JsonOK tConsec ∧ JsonOK tOnly ∧ JsonOK tNoRows ∧
    JsonOK tSkip ∧ JsonOK tObj ∧ JsonOK tMix := by decide
example : WFShape tMix := by decide
example : (renderJson c07JsQ tMix).res = .ok () := by rfl

-- separators leading / trailing / consecutive / only / no rows: parse results and bytes
example : parseArr (jsonToks c07JsQ tLead) = some [[(kA, [49]), (kB, [50])], [(kA, [50])]] := by decide
example : parseArr (jsonToks c07JsQ tTrail) = some [[(kA, [49])]] := by decide
example : parseArr (jsonToks c07JsQ tConsec) = some [[(kA, [49])], [(kA, [50])]] := by decide
example : parseArr (jsonToks c07JsQ tOnly) = some [] := by decide
example : parseArr (jsonToks c07JsQ tNoRows) = some [] := by decide
-- output: "[\n\n{\"a\": 1, \"b\": 2},\n{\"a\": 2}\n]\n"
example : (renderJson c07JsQ tLead).output = [91, 10, 10, 123, 34, 97, 34, 58, 32, 49, 44, 32, 34, 98, 34, 58, 32, 50, 125, 44, 10, 123, 34, 97, 34, 58, 32, 50, 125, 10, 93, 10] := by rfl
-- output: "[\n{\"a\": 1}\n\n]\n"
example : (renderJson c07JsQ tTrail).output = [91, 10, 123, 34, 97, 34, 58, 32, 49, 125, 10, 10, 93, 10] := by rfl
-- output: "[\n{\"a\": 1},\n\n\n{\"a\": 2}\n]\n"
example : (renderJson c07JsQ tConsec).output = [91, 10, 123, 34, 97, 34, 58, 32, 49, 125, 44, 10, 10, 10, 123, 34, 97, 34, 58, 32, 50, 125, 10, 93, 10] := by rfl
-- output: "[\n\n\n]\n"
example : (renderJson c07JsQ tOnly).output = [91, 10, 10, 10, 93, 10] := by rfl
-- skipable: column 1 inherits true from column 0, column 2 has its own false
example : parseArr (jsonToks c07JsQ tSkip) = some [[(kB, [110, 117, 108, 108])], []] := by decide
-- output: "[\n{\"b\": null},\n{}\n]\n"
example : (renderJson c07JsQ tSkip).output = [91, 10, 123, 34, 98, 34, 58, 32, 110, 117, 108, 108, 125, 44, 10, 123, 125, 10, 93, 10] := by rfl
-- `{}` falls back to the text only when the text is non-empty
example : parseArr (jsonToks c07JsQ tObj) = some [[(kA, [34, 120, 34]), (kB, [123, 125])]] := by decide
example : parseArr (jsonToks c07JsQ tMix) =
    some [[(kA, [34, 120, 34])], [(kA, [49])], [], [(kA, [110, 117, 108, 108])]] := by decide

-- c07_errors / c07_errors_header / c07_render_empty: each clause's hypotheses are satisfiable
def e0 : RTable := { mk [] with ncols := 0 }
def eCol0 : RTable := { mk [] with colSkip := [some (.user 7)] }
def eNoHdr : RTable := { mk [] with header := none }
def eFew : RTable := { mk [] with header := some [hA] }
def eEmpty : RTable := { mk [] with header := some [hA, hE] }
def eDup : RTable := { mk [] with header := some [hA, hA] }
def eSkip : RTable := { mk [] with colSkip := [none, none, some (.align 1)] }
def eMarshal : RTable := mk [some [c1, c2], none, some [c1, cBad], some [c1]]
def eLong : RTable := mk [some [c1], some [c1, c2, c1]]

example : e0.ncols = 0 := by decide
example : 1 ≤ eCol0.ncols ∧ boolOrNone (eCol0.colSkip.getD 0 none) = false := by decide
example : 1 ≤ eNoHdr.ncols ∧ boolOrNone (eNoHdr.colSkip.getD 0 none) = true ∧ eNoHdr.header = none := by decide
example : eFew.header = some [hA] ∧ [hA].length < eFew.ncols := by decide
example : (∀ j < 1, headerDefect eEmpty j = none) ∧ headerDefect eEmpty 1 = some .emptyHeader := by decide
example : (∀ j < 1, headerDefect eDup j = none) ∧ headerDefect eDup 1 = some .dupHeader := by decide
example : (∀ j < 1, headerDefect eSkip j = none) ∧ headerDefect eSkip 1 = some .nonboolSkipable := by decide
example : ∃ i < eDup.ncols, ∃ j < i, headerText eDup j = headerText eDup i := by decide
example : HeaderOK eMarshal ∧ WFShape eMarshal ∧ ¬ MarshalOK eMarshal := by decide
-- output: "[\n{\"a\": 1, \"b\": 2},\n\n{\"a\": 1, \"b\": "
example : (renderJson c07JsQ eMarshal).res = .error (.err .marshal) ∧
    (renderJson c07JsQ eMarshal).output = [91, 10, 123, 34, 97, 34, 58, 32, 49, 44, 32, 34, 98, 34, 58, 32, 50, 125, 44, 10, 10, 123, 34, 97, 34, 58, 32, 49, 44, 32, 34, 98, 34, 58, 32] ∧
    (World.renderString (renderJson c07JsQ eMarshal)).1 = [] := ⟨by rfl, by rfl, by rfl⟩
example : HeaderOK eLong ∧ (renderJson c07JsQ eLong).res = .error (.err .structural) := ⟨by decide, by rfl⟩
example : (renderJson c07JsQ eDup).res = .error (.err .dupHeader) := by rfl

-- the theorems applied to the concrete views
example := c07_valid_mirror c07JsQ tMix (by decide)
example := c07_tokens c07JsQ tConsec (by rfl)
example := c07_ok_jsonOK c07JsQ tTrail (by decide) (by rfl)
example := c07_keys_distinct c07JsQ tMix (by decide) (by decide)
example : Function.Injective c07JsQ := by
  intro a b h; simpa [c07JsQ] using h
example := (c07_errors c07JsQ e0).1 (by decide)
example := (c07_errors c07JsQ eCol0).2.1 (by decide) (by decide)
example := (c07_errors c07JsQ eNoHdr).2.2.1 (by decide) (by decide) (by decide)
example := (c07_errors c07JsQ eFew).2.2.2.1 (by decide) (by decide) [hA] (by decide) (by decide)
example := (c07_errors c07JsQ eDup).2.2.2.2.1 (by decide) (by decide) [hA, hA] (by decide) (by decide)
  1 (by decide) (by decide) .dupHeader (by decide)
example := (c07_errors c07JsQ eMarshal).2.2.2.2.2.1 (by decide) (.err .marshal) (by rfl)
example := (c07_errors c07JsQ eMarshal).2.2.2.2.2.2 (by decide) (show WFShape eMarshal by decide).2 (by decide)
example := c07_errors_header c07JsQ eEmpty (.inr (.inr (.inr (.inr (.inl (by decide))))))
example := c07_render_empty c07JsQ eMarshal (.err .marshal) (by rfl)
end C07Ex

end Tab
