/-
  C19e — "Every name returned by the style listing is accepted by the auto constructor and yields a
  table that renders without error", END TO END: from the style string to the result of
  `auto.RenderTo(t, style)` on a table built through the public API.

  Composition of
    * C19 (`c19_listed_ok`, `c19_listed_ok_all`, `c19_unknown`): what a style string resolves to;
    * C10 (`World.autoRender`, `c10_paths_auto`): `auto.RenderTo(t, style)` = resolve, `X.Wrap(t)`
      (`wrapEffect`), `RenderTo` of the wrapper `Format.wrapper`;
    * C02 (`Inv` for every valid history), the E2E view lemmas (`LogOnly`: the callbacks pass changes
      no text) and the per-renderer totality theorems C05 / C06 / C07 / C08 / C09
      (`renderTextBody_no_panic_sharp`);
    * C17 (`c17_fail_closed`) for the names that are not registered.

  Vocabulary: `GoodTable w t` (Proofs/C19eDefs.lean, decidable): the table exists, has ≥ 1 column and
  a header of exactly `nColumns` cells with non-empty, pairwise distinct texts; every row cell's item
  marshals; `Skipable` settings are unset or bool; alignments are unset or left/right/centre; the
  render-time user callbacks only log (`LogOnly`).  (Rows no wider than `nColumns` is the invariant
  `Inv`, true after every valid history.)

  A remark on the decoration: with at least one column the text renderer returns `.ok ()` for EVERY
  decoration other than the empty one (no `DecoOK` / `DecorTotal` / `DivsOK` side condition is
  needed; those matter for the shape of the output, C03, and for zero-column tables, C09).  So
  `Plain` — which contains `reg.named s ≠ emptyDecoration` — is all that is asked of a listed text
  style.

  The three classes of listed names outside `Plain` (recorded findings D21, see Props/C19.lean) are
  restated at this level as `example`s at the end.
-/
import Tabmodel.Proofs.C19e
namespace Tab
open World hiding CellOK
open Registry

/-- `auto.RenderTo(t, style)` on a table built by a valid history IS a `RenderTo` on a valid history:
    the history extended by the `Wrap` step of the resolved format, rendered through
    `(resolveStyle reg heavy style).wrapper t`.  The extended history keeps `LogOnly` and
    establishes `Needs`, so every capstone of Props/E2E.lean (`e2e_csv`, `e2e_json`, `e2e_html`,
    `e2e_markdown`, `e2e_text`, `e2e_text_rectangle`, …) applies verbatim to what `auto` emits. -/
theorem c19e_auto_as_history (x : Ext) (reg : Registry) (heavy : Decoration) (ops : List BuildOp)
    (hv : Valid ops = true) (t : Nat) (ht : t < (run x.dw ops).tables.length) (style : Bytes) :
    let wr := (resolveStyle reg heavy style).wrapper t
    let ops' := ops ++ wrapOps wr.kind t
    World.autoRender x reg heavy (run x.dw ops) t style = renderTo x (run x.dw ops') wr ∧
    wr.core = t ∧ Valid ops' = true ∧ t < (run x.dw ops').tables.length ∧
    (LogOnly (run x.dw ops) t → LogOnly (run x.dw ops') t) ∧
    (GoodTable (run x.dw ops) t → GoodTable (run x.dw ops') t) ∧
    Needs (run x.dw ops') wr := by
  intro wr ops'
  obtain ⟨h1, h2, h3, h4, h5⟩ := e2e_wrap x.dw ops hv wr.kind t ht
  have hc : wr.core = t := wrapper_core _ t
  refine ⟨?_, hc, h2, by rw [h3]; exact ht, h4 t, ?_, h5 wr rfl hc⟩
  · rw [autoRender_eq]
    show renderTo x ((run x.dw ops).wrapEffect wr.kind t) wr = renderTo x (run x.dw ops') wr
    rw [← h1]
  · intro hg
    show GoodTable (run x.dw (ops ++ wrapOps wr.kind t)) t
    rw [h1]
    exact goodTable_wrapEffect _ _ _ _ hg

/-- The core statement, for ANY world satisfying the structural invariant (every valid history, and
    everything reachable from one by further renders and wraps) and ANY style string, listed or not:
    if the style does not resolve to a text table carrying the empty decoration, then
    `auto.RenderTo(t, style)` on a good table returns no error, and `auto.Render(t, style)` returns
    the complete output. -/
theorem c19e_renders_inv (x : Ext) (reg : Registry) (heavy : Decoration) {w : World} (hinv : Inv w)
    (t : Nat) (hg : GoodTable w t) (style : Bytes)
    (hne : resolveStyle reg heavy style ≠ .text emptyDecoration) :
    (World.autoRender x reg heavy w t style).2.res = .ok () ∧
    World.renderString (World.autoRender x reg heavy w t style).2 =
      ((World.autoRender x reg heavy w t style).2.output, none) := by
  have hok : (World.autoRender x reg heavy w t style).2.res = .ok () := by
    rw [autoRender_eq]
    apply renderTo_ok_of_good x (inv_wrapEffect hinv _ _)
    · rw [wrapper_core]
      exact goodTable_wrapEffect _ _ _ _ hg
    · intro hk he
      apply hne
      rw [wrapper_text _ t hk, he]
  exact ⟨hok, c09_render_complete _ hok⟩

/-- C19, end to end.  For every registry `reg`, default decoration `heavy`, measure / JSON string
    encoder `x`, every valid build history `ops` and every good table `t` of the world it builds:
    every style `s` returned by `ListStyles` that is one of the four renderer names or `Plain`
    (dot-free, not case-folding to a sub-package name, bound to a non-empty decoration) is accepted
    by `auto` and `auto.RenderTo(t, s)` returns no error; `auto.Render(t, s)` returns the complete
    output and no error; and the renderer used is the one of that name, resp. the text renderer with
    the decoration registered under `s`.  (`_hs` is implied by `hok`; it is kept to mirror the
    property text.) -/
theorem c19e_listed_renders (x : Ext) (reg : Registry) (heavy : Decoration) (ops : List BuildOp)
    (hv : Valid ops = true) (t : Nat) (hg : GoodTable (run x.dw ops) t) (s : Bytes)
    (_hs : s ∈ listStyles reg) (hok : Plain reg s ∨ s ∈ formatNames) :
    let r := World.autoRender x reg heavy (run x.dw ops) t s
    r.2.res = .ok () ∧
    World.renderString r.2 = (r.2.output, none) ∧
    (Plain reg s → r = renderTo x ((run x.dw ops).wrapEffect .text t)
      { kind := .text, core := t, decor := reg.named s }) ∧
    (s = bytesOfString "csv" → r = World.pkgRender x heavy (run x.dw ops) .csv t) ∧
    (s = bytesOfString "html" → r = World.pkgRender x heavy (run x.dw ops) .html t) ∧
    (s = bytesOfString "markdown" → r = World.pkgRender x heavy (run x.dw ops) .markdown t) ∧
    (s = bytesOfString "json" → r = World.pkgRender x heavy (run x.dw ops) .json t) := by
  intro r
  obtain ⟨hne, hp, h1, h2, h3, h4⟩ := c19_listed_ok reg heavy s _hs hok
  obtain ⟨r1, r2⟩ := c19e_renders_inv x reg heavy (c02_inv_run x.dw ops hv) t hg s hne
  have hpa := c10_paths_auto x reg heavy (run x.dw ops) t s
  refine ⟨r1, r2, ?_, ?_, ?_, ?_, ?_⟩
  · intro h; show World.autoRender _ _ _ _ _ _ = _; rw [hpa, (hp h).1]
  · intro h; show World.autoRender _ _ _ _ _ _ = _; rw [hpa, h1 h]
  · intro h; show World.autoRender _ _ _ _ _ _ = _; rw [hpa, h2 h]
  · intro h; show World.autoRender _ _ _ _ _ _ = _; rw [hpa, h3 h]
  · intro h; show World.autoRender _ _ _ _ _ _ = _; rw [hpa, h4 h]

/-- The same when every registered entry is plain: then EVERY listed style renders, no side
    condition on the individual style. -/
theorem c19e_all_listed_render (x : Ext) (reg : Registry) (heavy : Decoration)
    (hreg : ∀ p ∈ reg, NoDot p.1 ∧ goLower p.1 ∉ reservedNames ∧ p.2 ≠ emptyDecoration)
    (ops : List BuildOp) (hv : Valid ops = true) (t : Nat) (hg : GoodTable (run x.dw ops) t)
    (s : Bytes) (hs : s ∈ listStyles reg) :
    (World.autoRender x reg heavy (run x.dw ops) t s).2.res = .ok () ∧
    World.renderString (World.autoRender x reg heavy (run x.dw ops) t s).2 =
      ((World.autoRender x reg heavy (run x.dw ops) t s).2.output, none) :=
  c19e_renders_inv x reg heavy (c02_inv_run x.dw ops hv) t hg s (c19_listed_ok_all reg heavy hreg s hs).2

/-- The registry as it is at init (`Generated.builtins`, regenerated from a run of the real code on
    every check): EVERY style `ListStyles` returns — the six built-in decoration names and the four
    renderer names — renders every good table of every valid history without error.  No side
    condition is left (the built-in names are plain and bound to non-empty decorations:
    `builtins_plain`, i.e. `c19_builtin_names_plain` / `c19_builtins_nonempty`). -/
theorem c19e_builtins (x : Ext) (heavy : Decoration) (ops : List BuildOp) (hv : Valid ops = true)
    (t : Nat) (hg : GoodTable (run x.dw ops) t) (s : Bytes) (hs : s ∈ listStyles Generated.builtins) :
    (World.autoRender x Generated.builtins heavy (run x.dw ops) t s).2.res = .ok () ∧
    World.renderString (World.autoRender x Generated.builtins heavy (run x.dw ops) t s).2 =
      ((World.autoRender x Generated.builtins heavy (run x.dw ops) t s).2.output, none) :=
  c19e_all_listed_render x Generated.builtins heavy builtins_plain ops hv t hg s hs

/-- … and the listing at init is exactly these ten names, in this order. -/
theorem c19e_builtins_listing :
    listStyles Generated.builtins =
      [[97, 115, 99, 105, 105, 45, 115, 105, 109, 112, 108, 101],                          -- ascii-simple
       bCsv, bHtml, bJson, bMarkdown,
       [110, 111, 110, 101],                                                               -- none
       [117, 116, 102, 56, 45, 100, 111, 117, 98, 108, 101],                               -- utf8-double
       [117, 116, 102, 56, 45, 104, 101, 97, 118, 121],                                    -- utf8-heavy
       [117, 116, 102, 56, 45, 108, 105, 103, 104, 116],                                   -- utf8-light
       [117, 116, 102, 56, 45, 108, 105, 103, 104, 116, 45, 99, 117, 114, 118, 101, 100]]  -- utf8-light-curved
    := by
  rw [listStyles_lit]; decide

/-- Unknown names fail closed, end to end, on EVERY world and table (good or not): a name that is
    not registered, has no dot and does not case-fold to a sub-package name — bare, or prefixed with
    `texttable.` in any casing — makes `auto.RenderTo` return the `noDecoration` error having written
    nothing and run no callback (the only effect is `Wrap`'s), and `auto.Render` return no text. -/
theorem c19e_unknown_fails (x : Ext) (reg : Registry) (heavy : Decoration) (w : World) (t : Nat) (n : Bytes)
    (hn : n ∉ reg.names) (hdot : NoDot n) :
    (goLower n ∉ reservedNames →
      (World.autoRender x reg heavy w t n).2.res = .error (.err .noDecoration) ∧
      (World.autoRender x reg heavy w t n).2.chunks = [] ∧
      (World.autoRender x reg heavy w t n).1 = w.wrapEffect .text t ∧
      World.renderString (World.autoRender x reg heavy w t n).2 = ([], some (.err .noDecoration))) ∧
    (∀ tt, goLower tt = bytesOfString "texttable" →
      (World.autoRender x reg heavy w t (tt ++ [46] ++ n)).2.res = .error (.err .noDecoration) ∧
      (World.autoRender x reg heavy w t (tt ++ [46] ++ n)).2.chunks = [] ∧
      (World.autoRender x reg heavy w t (tt ++ [46] ++ n)).1 = w.wrapEffect .text t ∧
      World.renderString (World.autoRender x reg heavy w t (tt ++ [46] ++ n)).2 =
        ([], some (.err .noDecoration))) := by
  obtain ⟨h1, h2⟩ := c19_unknown reg heavy n hn hdot
  exact ⟨fun hres => autoRender_empty x reg heavy w t n (h2 hres).1,
    fun tt htt => autoRender_empty x reg heavy w t _ (h1 tt htt)⟩

/-- How the format capstones of Props/E2E.lean attach: e.g. for the listed style `"csv"`, on every
    good table of every valid history, what `auto.RenderTo(t, "csv")` writes is read back by the
    strict RFC 4180 reader as exactly the table's records (`e2e_csv`). -/
example (x : Ext) (reg : Registry) (heavy : Decoration) (ops : List BuildOp) (hv : Valid ops = true)
    (t : Nat) (hg : GoodTable (run x.dw ops) t) :
    parse4180 (World.autoRender x reg heavy (run x.dw ops) t (bytesOfString "csv")).2.output =
      some ((run x.dw ops).csvRecords t) := by
  rw [(c19e_listed_renders x reg heavy ops hv t hg _ (c19_listing reg).2.1
    (.inr (by simp [formatNames]))).2.2.2.1 rfl]
  exact ((e2e_csv x ops hv (defaultWrapper heavy .csv t) rfl hg.1 hg.2.2.2.2.2.2.2.2.2).2.2 hg.2.1).2.1

/-! ### non-vacuity: the example history of Props/E2E.lean, hypotheses by `decide` -/

namespace C19eExample
open E2EExample

-- `hG : GoodTable (run e2eX.dw e2eOps) 0` (by `decide +kernel`) and `sLight` = "light" are in
-- Proofs/C19e.lean

/-- `GoodTable` is a real hypothesis: C02's example table (empty header texts) is not good, and
    indeed its JSON render fails (Props/E2E.lean) -/
example : ¬ GoodTable (run e2eX.dw exHist) 0 := by decide +kernel

-- c19e_auto_as_history
example := c19e_auto_as_history e2eX c19Reg c19Heavy e2eOps hv 0 ht sLight
-- c19e_renders_inv / c19e_listed_renders: "light" (plain, registered in `c19Reg`) and "json"
example : (World.autoRender e2eX c19Reg c19Heavy (run e2eX.dw e2eOps) 0 sLight).2.res = .ok () :=
  (c19e_listed_renders e2eX c19Reg c19Heavy e2eOps hv 0 hG sLight (by rw [listStyles_lit]; decide)
    (.inl ⟨by decide, by rw [reservedNames, reserved_lit]; decide, by decide⟩)).1
example : (World.autoRender e2eX c19Reg c19Heavy (run e2eX.dw e2eOps) 0 (bytesOfString "json")).2.res = .ok () :=
  (c19e_listed_renders e2eX c19Reg c19Heavy e2eOps hv 0 hG _ (c19_listing c19Reg).2.2.2.1
    (.inr (by simp [formatNames]))).1
-- … from a world reached by a further render (not of the form `run … ops` syntactically)
example := c19e_renders_inv e2eX c19Reg c19Heavy
  (c02_inv_render e2eX.dw (c02_inv_run e2eX.dw e2eOps hv) 0) 0
-- c19e_all_listed_render
example := c19e_all_listed_render e2eX c19Reg c19Heavy (by rw [reservedNames, reserved_lit]; decide)
  e2eOps hv 0 hG
-- c19e_builtins: all ten listed names, e.g. "none" (the boxless one) and "utf8-light-curved"
example : ([110, 111, 110, 101] : Bytes) ∈ listStyles Generated.builtins := by
  rw [c19e_builtins_listing]; decide
example : (World.autoRender e2eX Generated.builtins Generated.heavy (run e2eX.dw e2eOps) 0
    [110, 111, 110, 101]).2.res = .ok () :=
  (c19e_builtins e2eX Generated.heavy e2eOps hv 0 hG _ (by rw [c19e_builtins_listing]; decide)).1
example : ∀ s ∈ listStyles Generated.builtins,
    (World.autoRender e2eX Generated.builtins Generated.heavy (run e2eX.dw e2eOps) 0 s).2.res = .ok () :=
  fun s hs => (c19e_builtins e2eX Generated.heavy e2eOps hv 0 hG s hs).1
/-- what `auto.Render(t, "ascii-simple")` returns on the example table (computed by the model):
```
+---+---+
| a | b |
+---+---+
| c | d |
+---+---+
| e |   |
+---+---+
``` -/
example : World.renderString (World.autoRender e2eX Generated.builtins Generated.heavy (run e2eX.dw e2eOps) 0
      [97, 115, 99, 105, 105, 45, 115, 105, 109, 112, 108, 101]).2 =
    ([43,45,45,45,43,45,45,45,43,10, 124,32,97,32,124,32,98,32,124,10, 43,45,45,45,43,45,45,45,43,10,
      124,32,99,32,124,32,100,32,124,10, 43,45,45,45,43,45,45,45,43,10,
      124,32,101,32,124,32,32,32,124,10, 43,45,45,45,43,45,45,45,43,10], none) := by decide +kernel
-- c19e_unknown_fails: "nope"
example := (c19e_unknown_fails e2eX c19Reg c19Heavy (run e2eX.dw e2eOps) 0 [110, 111, 112, 101]
  (by decide) (by decide)).1 (by rw [reservedNames, reserved_lit]; decide)
example : goLower [84, 101, 120, 116, 84, 97, 98, 108, 101] = bytesOfString "texttable" := by
  rw [bytes_texttable]; decide

/-! #### Recorded findings (D21) at this level: listed names that `auto` cannot reach.
    The failures hold on EVERY world and table, in particular on the good table above. -/

/-- KF 1, a dotted registered name: `"my.style"` is listed and bound to a non-empty decoration, yet
    `auto.RenderTo(t, "my.style")` fails with `noDecoration` and `auto.Render` returns no text. -/
example (x : Ext) (w : World) (t : Nat) :
    ([109, 121, 46, 115, 116, 121, 108, 101] : Bytes) ∈ listStyles c19KfDotted ∧
    c19KfDotted.named [109, 121, 46, 115, 116, 121, 108, 101] = c19D ∧ c19D ≠ emptyDecoration ∧
    (World.autoRender x c19KfDotted c19D w t [109, 121, 46, 115, 116, 121, 108, 101]).2.res =
      .error (.err .noDecoration) ∧
    World.renderString (World.autoRender x c19KfDotted c19D w t [109, 121, 46, 115, 116, 121, 108, 101]).2 =
      ([], some (.err .noDecoration)) := by
  have h := autoRender_empty x c19KfDotted c19D w t [109, 121, 46, 115, 116, 121, 108, 101]
    (by rw [resolveStyle_lit]; decide)
  exact ⟨by rw [listStyles_lit]; decide, by decide, by decide, h.1, h.2.2.2⟩

/-- KF 2, a name registered with the empty decoration: `"empty"` is listed and does not render. -/
example (x : Ext) (w : World) (t : Nat) :
    ([101, 109, 112, 116, 121] : Bytes) ∈ listStyles c19KfEmpty ∧
    (World.autoRender x c19KfEmpty c19D w t [101, 109, 112, 116, 121]).2.res = .error (.err .noDecoration) ∧
    World.renderString (World.autoRender x c19KfEmpty c19D w t [101, 109, 112, 116, 121]).2 =
      ([], some (.err .noDecoration)) := by
  have h := autoRender_empty x c19KfEmpty c19D w t [101, 109, 112, 116, 121]
    (by rw [resolveStyle_lit]; decide)
  exact ⟨by rw [listStyles_lit]; decide, h.1, h.2.2.2⟩

/-- KF 3, a registered name that case-folds to a sub-package name: `"CSV"` is listed as a decoration
    and `auto.RenderTo(t, "CSV")` does render the good table — but as CSV (it is the package-level
    `csv.RenderTo`), not as a text table with the registered decoration; `"texttable.CSV"` is the
    text table. -/
example (x : Ext) (w : World) (t : Nat) :
    ([67, 83, 86] : Bytes) ∈ listStyles c19KfFold ∧
    World.autoRender x c19KfFold c19D w t [67, 83, 86] = World.pkgRender x c19D w .csv t ∧
    World.autoRender x c19KfFold c19D w t ([116, 101, 120, 116, 116, 97, 98, 108, 101] ++ [46] ++ [67, 83, 86]) =
      renderTo x (w.wrapEffect .text t) { kind := .text, core := t, decor := c19D } := by
  refine ⟨by rw [listStyles_lit]; decide, ?_, ?_⟩
  · rw [c10_paths_auto, show resolveStyle c19KfFold c19D [67, 83, 86] = .csv from by
      rw [resolveStyle_lit]; decide]
  · rw [c10_paths_auto, show resolveStyle c19KfFold c19D
      ([116, 101, 120, 116, 116, 97, 98, 108, 101] ++ [46] ++ [67, 83, 86]) = .text c19D from by
      rw [resolveStyle_lit]; decide]
/-- … on the example table: no error, and the text returned is the CSV `"a","b" / "c","d" / "e",""` -/
example : (World.autoRender e2eX c19KfFold c19D (run e2eX.dw e2eOps) 0 [67, 83, 86]).2.res = .ok () ∧
    World.renderString (World.autoRender e2eX c19KfFold c19D (run e2eX.dw e2eOps) 0 [67, 83, 86]).2 =
      ([34, 97, 34, 44, 34, 98, 34, 10, 34, 99, 34, 44, 34, 100, 34, 10, 34, 101, 34, 44, 34, 34, 10], none) := by
  refine ⟨(c19e_renders_inv e2eX c19KfFold c19D (c02_inv_run e2eX.dw e2eOps hv) 0 hG _
    (by rw [resolveStyle_lit]; decide)).1, ?_⟩
  rw [c10_paths_auto, show resolveStyle c19KfFold c19D [67, 83, 86] = .csv from by
    rw [resolveStyle_lit]; decide]
  decide +kernel

end C19eExample

end Tab
