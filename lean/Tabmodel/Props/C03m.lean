/-
  C03m — the measure-side hypotheses of the text-table theorems, discharged or made exact.

  The rectangle theorems (`Props/C03.lean`, `e2e(cb)_text_rectangle*`) talk about the external
  display-width measure `dw` (go-runewidth's `StringWidth`, trusted) through three hypotheses:
  `GlyphOK dw d` (every glyph one cell wide), `AdditiveOn dw segs` (whole-line width = segment sum,
  FALSE for go-runewidth on some inputs: finding D20), and — in C18 — an unnamed "cluster shape".

   1. `c03m_additive_measure`, `c03m_rectangle_additive(_boxless)`: a fully additive measure satisfies
      `AdditiveOn` on every line, so the whole-line rectangle holds with that single hypothesis.
   2. `c03m_glyph_bridge`, `c03m_rectangle_builtins`, `c03m_e2ecb_rectangle_builtins`: for the
      built-in decorations the ONLY assumption about `dw` is that it agrees with the regenerated table
      of the library's own glyph measurements (`Generated.glyphWidths`).  `c03m_glyphok_iff`,
      `c03m_populated_glyphok`, `c03m_populate_sources`: exactly which glyphs must be one cell wide for
      a custom decoration completed by `Populate`.
   3. `c03m_additive_across`, `c03m_additiveOn_render(_boxless)`, `c03m_whole_line_across(_boxless)`,
      `c03m_whole_line_builtins`, `c03m_e2ecb_whole_line_builtins`: D20 made exact.  The hypothesis
      on `dw` is additivity ACROSS ACCEPTED BOUNDARIES only (`AdditiveAcross dw J`, `J` a junction
      relation looking at the end of the left and the start of the right string); the conclusion is
      `AdditiveOn` — hence the whole-line width — for every rendered line, provided every cell text
      line is `TextSafe J` (may stand between two spaces) and the glyphs are `GlyphJunctions J d`;
      both are decidable for `Junction.clusters joinsPrev joinsNext` (first / last code point not in
      given ranges).  `toyDw` is a non-additive measure with exactly go-runewidth's D20 behaviour that
      satisfies the hypothesis.
   4. `c03m_cells_le_2runes`: `ClusterShaped dw → dw l ≤ 2 * runeCount l` — the assumption behind
      `c18_cells_le_2runes` stated about `dw` itself.

  Definitions: `Proofs/C03mDefs.lean` (junctions, `cpOfExact`, `ClusterShaped`), `Proofs/C03mGlyph.lean`
  (`TableAgrees`, `populateSources`), `Proofs/C03mHist.lean` (`NoDeclaredWidth`, `TextsSafe`),
  `Proofs/C03mExample.lean` (`boxCp`, `toyDw`).
-/
import Tabmodel.Props.E2Ecb
import Tabmodel.Props.C03Decor
import Tabmodel.Props.C18
import Tabmodel.Proofs.C03mExample
import Tabmodel.Proofs.C03mHistExample
import Tabmodel.Proofs.C03mCluster
import Tabmodel.Proofs.C03mUtf8
namespace Tab
open World hiding CellOK
open E2Ecb Emit Generated

/-! ### 3 (core). additivity across accepted boundaries gives `AdditiveOn` -/

/-- The abstract step: if `dw` is additive across every boundary the junction `J` accepts, then on
    any line whose consecutive non-empty atoms are joined by accepted boundaries (`chainFrom J []`),
    `dw` of the concatenation is the sum of `dw` of the atoms. -/
theorem c03m_additive_across (dw : Measure) (J : Junction) (hA : AdditiveAcross dw J) (segs : List Seg)
    (h : chainFrom J [] (segs.flatMap Seg.atoms)) : AdditiveOn dw segs :=
  additiveOn_of_chain dw J hA segs h

/-- the three line shapes of the renderer are chains, under the glyph- and text-side conditions -/
theorem c03m_line_shapes_chain (J : Junction) :
    (∀ l h x r cw, cw ≠ [] → l ≠ [] → h ≠ [] → x ≠ [] → r ≠ [] →
      J.ok l h → J.ok h h → J.ok h x → J.ok x h → J.ok h r →
      chainFrom J [] ((ruleSegs l h x r cw).flatMap Seg.atoms)) ∧
    (∀ L I R slots, J.ok [SP] [SP] → L ≠ [] → I ≠ [] → R ≠ [] →
      J.ok L [SP] → J.ok [SP] I → J.ok I [SP] → J.ok [SP] R → (∀ s ∈ slots, TextSafe J s.ws.s) →
      chainFrom J [] ((boxedSegs L I R slots).flatMap Seg.atoms)) ∧
    (∀ slots, J.ok [SP] [SP] → (∀ s ∈ slots, TextSafe J s.ws.s) →
      chainFrom J [] ((boxlessSegs slots).flatMap Seg.atoms)) :=
  ⟨fun l h x r cw hcw hl hh hx hr j1 j2 j3 j4 j5 =>
      chain_ruleSegs J h x r cw hcw hh hx hr j2 j3 j4 j5 l [] hl j1 (Or.inl rfl),
   fun L I R slots hss hL hI hR a b c d ht => chain_boxedSegs J L I R slots hss hL hI hR a b c d ht,
   fun slots hss ht => chain_boxlessSegs J slots hss ht [] allSp_nil⟩

/-- `AdditiveOn` DISCHARGED for a boxed render: every chunk written is a line of segments (+ LF) of
    the common segment-sum width with the dividers at the common offsets (`c03_rectangle`), and `dw`
    is additive on it — under additivity across accepted boundaries only. -/
theorem c03m_additiveOn_render (dw : Measure) (J : Junction) (d : Decoration) (v : RTable)
    (hn : 1 ≤ v.ncols) (hs : WFShape v) (ha : AlignOK v) (hg : GlyphOK dw d) (hv : ViewOK dw v)
    (hA : AdditiveAcross dw J) (hJ : GlyphJunctions J d)
    (ht : ∀ c ∈ v.allCells, ∀ l ∈ lines c.text, TextSafe J l) :
    ∀ ch ∈ (renderTextBody d v).chunks, ∃ segs, ch = segBytes segs ++ [LF] ∧ AdditiveOn dw segs ∧
      segWidth dw segs = 1 + (v.colWidths.map (· + 3)).sum ∧
      divOffsets dw 0 segs = colOffsets 0 v.colWidths := by
  intro ch hch
  rw [(renderTextBody_eq d v hn hs ha hg.divs_header hg.divs_body hv.nonneg).2] at hch
  obtain ⟨segs, h1, h2, h3, h4, _⟩ :=
    lineKind_boxed_chain dw J d v ch hg hn hv hJ ht (specChunks_kinds d v ch hch)
  exact ⟨segs, h1, additiveOn_of_chain dw J hA segs h4, h2, h3⟩

/-- The same for a boxless render: every chunk is empty (a rule) or a line of slots joined by single
    spaces on which `dw` is additive. -/
theorem c03m_additiveOn_render_boxless (dw : Measure) (J : Junction) (d : Decoration) (v : RTable)
    (hn : 1 ≤ v.ncols) (hs : WFShape v) (ha : AlignOK v) (hb : BoxlessOK d) (hv : ViewOK dw v)
    (hA : AdditiveAcross dw J) (hss : J.ok [SP] [SP])
    (ht : ∀ c ∈ v.allCells, ∀ l ∈ lines c.text, TextSafe J l) :
    ∀ ch ∈ (renderTextBody d v).chunks, ch = [] ∨ ∃ slots, ch = segBytes (boxlessSegs slots) ++ [LF] ∧
      AdditiveOn dw (boxlessSegs slots) ∧ slots.map SlotD.width = v.colWidths ∧
      segWidth dw (boxlessSegs slots) = v.colWidths.sum + (v.colWidths.length - 1) := by
  intro ch hch
  have hd : DecoOK dw d := Or.inr hb
  rw [(renderTextBody_eq d v hn hs ha hd.divs_header hd.divs_body hv.nonneg).2] at hch
  rcases lineKind_boxless_chain dw J d v ch hb hv hss ht (specChunks_kinds d v ch hch) with h | h
  · exact Or.inl h
  · obtain ⟨slots, h1, h2, h3, h4, _⟩ := h
    exact Or.inr ⟨slots, h1, additiveOn_of_chain dw J hA _ h4, h2, h3⟩

/-- WHOLE-LINE rectangle, boxed, under additivity across accepted boundaries: with cells measured by
    `dw` (`CellMeasured`: no declared widths) and `dw " " = 1`, the library's own measure of every
    line written (without its LF) is `1 + Σ (cwᵢ + 3)`. -/
theorem c03m_whole_line_across (dw : Measure) (J : Junction) (d : Decoration) (v : RTable)
    (hn : 1 ≤ v.ncols) (hs : WFShape v) (ha : AlignOK v) (hg : GlyphOK dw d) (hv : ViewOK dw v)
    (hmeas : ∀ c ∈ v.allCells, CellMeasured dw c) (h1 : dw [SP] = 1)
    (hA : AdditiveAcross dw J) (hJ : GlyphJunctions J d)
    (ht : ∀ c ∈ v.allCells, ∀ l ∈ lines c.text, TextSafe J l) :
    ∀ ch ∈ (renderTextBody d v).chunks, ∃ line, ch = line ++ [LF] ∧
      dw line = 1 + (v.colWidths.map (· + 3)).sum := by
  intro ch hch
  rw [(renderTextBody_eq d v hn hs ha hg.divs_header hg.divs_body hv.nonneg).2] at hch
  obtain ⟨segs, e, hw, _, hc, hsrc⟩ :=
    lineKind_boxed_chain dw J d v ch hg hn hv hJ ht (specChunks_kinds d v ch hch)
  refine ⟨segBytes segs, e, ?_⟩
  have hw' : segWidth dw segs = 1 + (v.colWidths.map (· + 3)).sum := hw
  rw [← hw']
  exact dw_segBytes_of_additive dw segs (additiveOn_of_chain dw J hA segs hc)
    (dw_spaces_of_across dw J hA hJ.sp_sp h1)
    (fun lp ws rp hm => slot_measured_of_src dw v (dw_nil_of_across dw J hA) hmeas ws (hsrc lp ws rp hm))

/-- WHOLE-LINE rectangle, boxless: every chunk is empty or a line measuring `Σ cwᵢ + (n − 1)`. -/
theorem c03m_whole_line_across_boxless (dw : Measure) (J : Junction) (d : Decoration) (v : RTable)
    (hn : 1 ≤ v.ncols) (hs : WFShape v) (ha : AlignOK v) (hb : BoxlessOK d) (hv : ViewOK dw v)
    (hmeas : ∀ c ∈ v.allCells, CellMeasured dw c) (h1 : dw [SP] = 1)
    (hA : AdditiveAcross dw J) (hss : J.ok [SP] [SP])
    (ht : ∀ c ∈ v.allCells, ∀ l ∈ lines c.text, TextSafe J l) :
    ∀ ch ∈ (renderTextBody d v).chunks, ch = [] ∨ ∃ line, ch = line ++ [LF] ∧
      dw line = v.colWidths.sum + (v.colWidths.length - 1) := by
  intro ch hch
  have hd : DecoOK dw d := Or.inr hb
  rw [(renderTextBody_eq d v hn hs ha hd.divs_header hd.divs_body hv.nonneg).2] at hch
  rcases lineKind_boxless_chain dw J d v ch hb hv hss ht (specChunks_kinds d v ch hch) with h | h
  · exact Or.inl h
  · obtain ⟨slots, e, _, hw, hc, hsrc⟩ := h
    refine Or.inr ⟨segBytes (boxlessSegs slots), e, ?_⟩
    have hw' : segWidth dw (boxlessSegs slots) = v.colWidths.sum + (v.colWidths.length - 1) := hw
    rw [← hw']
    exact dw_segBytes_of_additive dw _ (additiveOn_of_chain dw J hA _ hc)
      (dw_spaces_of_across dw J hA hss h1)
      (fun lp ws rp hm => slot_measured_of_src dw v (dw_nil_of_across dw J hA) hmeas ws (hsrc lp ws rp hm))

/-! ### 1. fully additive measures -/

/-- A measure additive on every concatenation is additive on every line (any segmentation). -/
theorem c03m_additive_measure (dw : Measure) (h : ∀ a b, dw (a ++ b) = dw a + dw b) (segs : List Seg) :
    AdditiveOn dw segs :=
  dw_flatten_of_additive dw h _

/-- … and then `dw " " = 1` gives `dw (spaces k) = k` (the other hypothesis of `c03_whole_line`). -/
theorem c03m_spaces_additive (dw : Measure) (h : ∀ a b, dw (a ++ b) = dw a + dw b) (h1 : dw [SP] = 1) :
    ∀ k, dw (spaces k) = k :=
  dw_spaces_of_additive dw h h1

/-- plain additivity is the junction that accepts every boundary -/
theorem c03m_additive_iff_all (dw : Measure) :
    (∀ a b, dw (a ++ b) = dw a + dw b) ↔ AdditiveAcross dw Junction.all :=
  (additiveAcross_all_iff dw).symm

/-- The rectangle in the library's OWN measure, boxed decoration, for an additive `dw`: every line
    written, without its LF, measures `1 + Σ (cwᵢ + 3)`; no `AdditiveOn` hypothesis is left. -/
theorem c03m_rectangle_additive (dw : Measure) (d : Decoration) (v : RTable)
    (hn : 1 ≤ v.ncols) (hs : WFShape v) (ha : AlignOK v) (hg : GlyphOK dw d) (hv : ViewOK dw v)
    (hmeas : ∀ c ∈ v.allCells, CellMeasured dw c)
    (hadd : ∀ a b, dw (a ++ b) = dw a + dw b) (h1 : dw [SP] = 1) :
    ∀ ch ∈ (renderTextBody d v).chunks, ∃ line, ch = line ++ [LF] ∧
      dw line = 1 + (v.colWidths.map (· + 3)).sum :=
  c03m_whole_line_across dw Junction.all d v hn hs ha hg hv hmeas h1
    ((c03m_additive_iff_all dw).mp hadd) (glyphJunctions_all d) (fun _ _ l _ => textSafe_all l)

/-- The same for a boxless decoration: every chunk is empty or measures `Σ cwᵢ + (n − 1)`. -/
theorem c03m_rectangle_additive_boxless (dw : Measure) (d : Decoration) (v : RTable)
    (hn : 1 ≤ v.ncols) (hs : WFShape v) (ha : AlignOK v) (hb : BoxlessOK d) (hv : ViewOK dw v)
    (hmeas : ∀ c ∈ v.allCells, CellMeasured dw c)
    (hadd : ∀ a b, dw (a ++ b) = dw a + dw b) (h1 : dw [SP] = 1) :
    ∀ ch ∈ (renderTextBody d v).chunks, ch = [] ∨ ∃ line, ch = line ++ [LF] ∧
      dw line = v.colWidths.sum + (v.colWidths.length - 1) :=
  c03m_whole_line_across_boxless dw Junction.all d v hn hs ha hb hv hmeas h1
    ((c03m_additive_iff_all dw).mp hadd) trivial (fun _ _ l _ => textSafe_all l)

/-! ### 2. the glyph side: from the regenerated table to `GlyphOK dw` -/

/-- The bridge.  If `dw` agrees with the library's own measurement of each built-in glyph (the
    regenerated table `Generated.glyphWidths`), then every boxed built-in decoration is `GlyphOK dw`
    and every boxless one is `BoxlessOK`. -/
theorem c03m_glyph_bridge (dw : Measure) (hT : ∀ p ∈ glyphWidths, dw p.1 = p.2) :
    ∀ p ∈ builtins, (p.2.isBoxless = false → GlyphOK dw p.2) ∧ (p.2.isBoxless = true → BoxlessOK p.2) := by
  intro p hp
  rcases c03_builtins_complete p hp with ⟨hb, hall⟩ | ⟨hb, hok⟩
  · exact ⟨fun h => (by rw [hb] at h; cases h), fun _ => boxlessOK_of_all_empty p.2 hb hall⟩
  · exact ⟨fun _ => glyphOK_of_glyphOKBy dw hT p.2 hb hok, fun h => (by rw [hb] at h; cases h)⟩

/-- hence every built-in is a decoration the layout theorems cover -/
theorem c03m_builtins_decoOK (dw : Measure) (hT : ∀ p ∈ glyphWidths, dw p.1 = p.2) :
    ∀ p ∈ builtins, DecoOK dw p.2 := by
  intro p hp
  cases hb : p.2.isBoxless with
  | false => exact Or.inl ((c03m_glyph_bridge dw hT p hp).1 hb)
  | true => exact Or.inr ((c03m_glyph_bridge dw hT p hp).2 hb)

/-- the general form of the bridge: the table-driven check `glyphOKBy` (what `c03_builtins_complete`
    establishes) implies `GlyphOK dw` for every measure that agrees with the table -/
theorem c03m_glyphokby_sound (dw : Measure) (hT : ∀ p ∈ glyphWidths, dw p.1 = p.2) (d : Decoration)
    (hb : d.isBoxless = false) (h : glyphOKBy d = true) : GlyphOK dw d :=
  glyphOK_of_glyphOKBy dw hT d hb h

/-- `GlyphOK`, exactly: not boxless, and each of the 18 glyph fields the renderer reads
    (`renderGlyphs`) is non-empty and one cell wide.  (Necessary as well as sufficient: this IS the
    hypothesis.) -/
theorem c03m_glyphok_iff (dw : Measure) (d : Decoration) :
    GlyphOK dw d ↔ d.isBoxless = false ∧ ∀ g ∈ renderGlyphs d, g ≠ [] ∧ dw g = 1 :=
  glyphOK_iff dw d

/-- A custom decoration completed by `Populate` (not boxless): non-emptiness is automatic, so the
    ONLY side condition is `dw g = 1` for the 18 render glyphs of the populated record. -/
theorem c03m_populated_glyphok (dw : Measure) (d : Decoration) (hb : d.isBoxless = false)
    (h1 : ∀ g ∈ renderGlyphs d.populate, dw g = 1) : GlyphOK dw d.populate := by
  rw [glyphOK_iff]
  refine ⟨hb, fun g hg => ⟨?_, h1 g hg⟩⟩
  exact populate_glyphs_ne d g (mem_field_of_renderGlyphs d.populate g hg)

/-- Where those 18 glyphs come from: each is a non-empty field the caller wrote, or one of the three
    defaults "H", "V", "X". -/
theorem c03m_populate_sources (d : Decoration) :
    ∀ g ∈ renderGlyphs d.populate, g ∈ d.fields.filter (fun x => x != []) ++ [[72], [86], [88]] :=
  populate_sources d

/-- So it suffices that every non-empty field the caller wrote, and "H", "V", "X", are one cell wide. -/
theorem c03m_populated_glyphok_sources (dw : Measure) (d : Decoration) (hb : d.isBoxless = false)
    (h1 : ∀ g ∈ d.fields.filter (fun x => x != []) ++ [[72], [86], [88]], dw g = 1) :
    GlyphOK dw d.populate :=
  c03m_populated_glyphok dw d hb (fun g hg => h1 g (populate_sources d g hg))

/-- The rectangle for EVERY built-in decoration, no `GlyphOK` left to the caller: the only hypothesis
    about `dw` is agreement with the glyph table.  Boxed built-ins: every chunk is a line of segments
    of segment-sum width `1 + Σ (cwᵢ + 3)`, dividers at `[0, cw₀+3, …]`; the boxless one: every chunk
    is empty or a line of slots of segment-sum width `Σ cwᵢ + (n − 1)`. -/
theorem c03m_rectangle_builtins (dw : Measure) (hT : ∀ p ∈ glyphWidths, dw p.1 = p.2)
    (p : Bytes × Decoration) (hp : p ∈ builtins) (v : RTable)
    (hn : 1 ≤ v.ncols) (hs : WFShape v) (ha : AlignOK v) (hv : ViewOK dw v) :
    (renderTextBody p.2 v).res = .ok () ∧
    (p.2.isBoxless = false →
      ∀ ch ∈ (renderTextBody p.2 v).chunks, ∃ segs, ch = segBytes segs ++ [LF] ∧
        segWidth dw segs = 1 + (v.colWidths.map (· + 3)).sum ∧
        divOffsets dw 0 segs = colOffsets 0 v.colWidths) ∧
    (p.2.isBoxless = true →
      ∀ ch ∈ (renderTextBody p.2 v).chunks, ch = [] ∨ ∃ slots, ch = segBytes (boxlessSegs slots) ++ [LF] ∧
        slots.map SlotD.width = v.colWidths ∧
        segWidth dw (boxlessSegs slots) = v.colWidths.sum + (v.colWidths.length - 1)) :=
  ⟨c03_ok dw p.2 v hn hs ha (c03m_builtins_decoOK dw hT p hp) (fun c hc => (hv c hc).1),
   fun hb => c03_rectangle dw p.2 v hn hs ha ((c03m_glyph_bridge dw hT p hp).1 hb) hv,
   fun hb => c03_rectangle_boxless dw p.2 v hn hs ha ((c03m_glyph_bridge dw hT p hp).2 hb) hv⟩

/-- The same END TO END (`e2ecb_text_rectangle*` with `hg` / `hb` removed): any valid history, any
    callbacks naming no private key, the wrapper's decoration one of the built-ins. -/
theorem c03m_e2ecb_rectangle_builtins (x : Ext) (ops : List BuildOp) (hv : Valid ops = true) (wr : Wrapper)
    (hk : wr.kind = .text) (ht : wr.core < (run x.dw ops).tables.length)
    (hU : (run x.dw ops).UserKeysOnly wr.core) (hN : Needs (run x.dw ops) wr)
    (hT : ∀ p ∈ glyphWidths, x.dw p.1 = p.2) (hd : wr.decor ∈ builtins.map (·.2))
    (ha : AlignOK ((invokeRenderCallbacks x.dw (run x.dw ops) wr.core).view wr.core))
    (hn : 1 ≤ ((run x.dw ops).table wr.core).nColumns) (hF : TableFits x.dw (run x.dw ops) wr.core) :
    let w := run x.dw ops
    let v' := (invokeRenderCallbacks x.dw w wr.core).view wr.core
    let m := (w.renderTo x wr).2
    ViewOK x.dw v' ∧ m.res = .ok () ∧
    (wr.decor.isBoxless = false →
      ∀ ch ∈ m.chunks, ∃ segs, ch = segBytes segs ++ [LF] ∧
        segWidth x.dw segs = 1 + (v'.colWidths.map (· + 3)).sum ∧
        divOffsets x.dw 0 segs = colOffsets 0 v'.colWidths) ∧
    (wr.decor.isBoxless = true →
      ∀ ch ∈ m.chunks, ch = [] ∨ ∃ slots, ch = segBytes (boxlessSegs slots) ++ [LF] ∧
        slots.map SlotD.width = v'.colWidths ∧
        segWidth x.dw (boxlessSegs slots) = v'.colWidths.sum + (v'.colWidths.length - 1)) := by
  intro w v' m
  obtain ⟨p, hp, hpe⟩ := List.mem_map.mp hd
  have hbr : (wr.decor.isBoxless = false → GlyphOK x.dw wr.decor) ∧
      (wr.decor.isBoxless = true → BoxlessOK wr.decor) := by
    rw [← hpe]; exact c03m_glyph_bridge x.dw hT p hp
  have hdeco : DecoOK x.dw wr.decor := by rw [← hpe]; exact c03m_builtins_decoOK x.dw hT p hp
  obtain ⟨_, _, _, _, _, hok, _⟩ := e2ecb_text x ops hv wr hk ht hU hN hdeco ha hn
  have hV : ViewOK x.dw v' := E2Ecb.viewOK_cb x.dw w wr.core hU (hN.1 hk) hF
  exact ⟨hV, hok,
    fun hb => (e2ecb_text_rectangle x ops hv wr hk ht hU hN (hbr.1 hb) ha hn hF).2.2,
    fun hb => (e2ecb_text_rectangle_boxless x ops hv wr hk ht hU hN (hbr.2 hb) ha hn hF).2.2⟩

/-! ### 3 (assembled). built-in decorations and the code-point junction -/

/-- The glyph-side boundary conditions hold for every boxed built-in decoration and every
    code-point junction that accepts space, `+ - |` and the box-drawing block U+2500–U+257F on both
    sides (`boxCp`): each built-in glyph is exactly one such code point (regenerated fact). -/
theorem c03m_builtins_junctions (e s : Nat → Bool) (hes : ∀ c, boxCp c = true → e c = true ∧ s c = true) :
    ∀ p ∈ builtins, p.2.isBoxless = false → GlyphJunctions (Junction.cps e s) p.2 :=
  fun p hp hb => glyphJunctions_of_boxCp e s p.2 (builtins_boxCp p hp hb) hes

/-- … in particular for `Junction.clusters joinsPrev joinsNext` whenever neither range list contains
    a `boxCp` code point (`rangesAvoidBox`, decidable) -/
theorem c03m_builtins_junctions_clusters (jp jn : List (Nat × Nat))
    (h1 : rangesAvoidBox jp = true) (h2 : rangesAvoidBox jn = true) :
    ∀ p ∈ builtins, p.2.isBoxless = false → GlyphJunctions (Junction.clusters jp jn) p.2 :=
  c03m_builtins_junctions _ _ (boxCp_clusters jp jn h1 h2)

/-- WHOLE-LINE rectangle for every built-in decoration.  Hypotheses about `dw`: agreement with the
    glyph table, `dw " " = 1`, and additivity across boundaries between a whole code point in `e` and
    a whole code point in `s`, where `e`, `s` contain `boxCp`.  Hypothesis about the texts: every
    cell line is empty or starts with a whole code point in `s` and ends with one in `e` (`TextSafe`,
    decidable).  Then every line written measures `1 + Σ (cwᵢ + 3)` (boxed) resp. is empty or
    measures `Σ cwᵢ + (n − 1)` (boxless) in the library's own measure. -/
theorem c03m_whole_line_builtins (dw : Measure) (e s : Nat → Bool)
    (hT : ∀ p ∈ glyphWidths, dw p.1 = p.2) (h1 : dw [SP] = 1)
    (hA : AdditiveAcross dw (Junction.cps e s)) (hes : ∀ c, boxCp c = true → e c = true ∧ s c = true)
    (p : Bytes × Decoration) (hp : p ∈ builtins) (v : RTable)
    (hn : 1 ≤ v.ncols) (hs : WFShape v) (ha : AlignOK v) (hv : ViewOK dw v)
    (hmeas : ∀ c ∈ v.allCells, CellMeasured dw c)
    (ht : ∀ c ∈ v.allCells, ∀ l ∈ lines c.text, TextSafe (Junction.cps e s) l) :
    (p.2.isBoxless = false →
      ∀ ch ∈ (renderTextBody p.2 v).chunks, ∃ line, ch = line ++ [LF] ∧
        dw line = 1 + (v.colWidths.map (· + 3)).sum) ∧
    (p.2.isBoxless = true →
      ∀ ch ∈ (renderTextBody p.2 v).chunks, ch = [] ∨ ∃ line, ch = line ++ [LF] ∧
        dw line = v.colWidths.sum + (v.colWidths.length - 1)) := by
  have hsp : (Junction.cps e s).ok [SP] [SP] := by
    have hc : cpOfExact [SP] = some 32 := by decide
    exact ⟨endsCp_of_exact e _ 32 hc (hes 32 (by decide)).1, startsCp_of_exact s _ 32 hc (hes 32 (by decide)).2⟩
  exact ⟨fun hb => c03m_whole_line_across dw _ p.2 v hn hs ha ((c03m_glyph_bridge dw hT p hp).1 hb) hv hmeas h1 hA
      (c03m_builtins_junctions e s hes p hp hb) ht,
    fun hb => c03m_whole_line_across_boxless dw _ p.2 v hn hs ha ((c03m_glyph_bridge dw hT p hp).2 hb) hv hmeas h1 hA
      hsp ht⟩

/-- END TO END.  A table built by any valid history, any callbacks naming no private key, a built-in
    decoration, no item declaring a display width (`NoDeclaredWidth`, decidable), every text line of
    every cell `TextSafe` (decidable); `dw` agrees with the glyph table, measures a space as 1 and is
    additive across the accepted code-point boundaries.  Then the render succeeds and the library's
    own measure of EVERY line written is the same: `1 + Σ (cwᵢ + 3)` (boxed), resp. every chunk is
    empty or measures `Σ cwᵢ + (n − 1)` (boxless).  This is C03 clause 1 as worded, with D20 turned
    into the explicit side condition `TextsSafe`. -/
theorem c03m_e2ecb_whole_line_builtins (x : Ext) (ops : List BuildOp) (hv : Valid ops = true) (wr : Wrapper)
    (hk : wr.kind = .text) (ht : wr.core < (run x.dw ops).tables.length)
    (hU : (run x.dw ops).UserKeysOnly wr.core) (hN : Needs (run x.dw ops) wr)
    (e s : Nat → Bool) (hT : ∀ p ∈ glyphWidths, x.dw p.1 = p.2) (h1 : x.dw [SP] = 1)
    (hA : AdditiveAcross x.dw (Junction.cps e s)) (hes : ∀ c, boxCp c = true → e c = true ∧ s c = true)
    (hd : wr.decor ∈ builtins.map (·.2))
    (ha : AlignOK ((invokeRenderCallbacks x.dw (run x.dw ops) wr.core).view wr.core))
    (hn : 1 ≤ ((run x.dw ops).table wr.core).nColumns) (hF : TableFits x.dw (run x.dw ops) wr.core)
    (hD : (run x.dw ops).NoDeclaredWidth wr.core)
    (hS : (run x.dw ops).TextsSafe (Junction.cps e s) wr.core) :
    let w := run x.dw ops
    let v' := (invokeRenderCallbacks x.dw w wr.core).view wr.core
    let m := (w.renderTo x wr).2
    m.res = .ok () ∧
    (wr.decor.isBoxless = false →
      ∀ ch ∈ m.chunks, ∃ line, ch = line ++ [LF] ∧ x.dw line = 1 + (v'.colWidths.map (· + 3)).sum) ∧
    (wr.decor.isBoxless = true →
      ∀ ch ∈ m.chunks, ch = [] ∨ ∃ line, ch = line ++ [LF] ∧
        x.dw line = v'.colWidths.sum + (v'.colWidths.length - 1)) := by
  intro w v' m
  obtain ⟨p, hp, hpe⟩ := List.mem_map.mp hd
  have hdeco : DecoOK x.dw wr.decor := by rw [← hpe]; exact c03m_builtins_decoOK x.dw hT p hp
  obtain ⟨hm, hnc, hwf, _, _, hok, _⟩ := e2ecb_text x ops hv wr hk ht hU hN hdeco ha hn
  have hV : ViewOK x.dw v' := E2Ecb.viewOK_cb x.dw w wr.core hU (hN.1 hk) hF
  have hmeas : ∀ c ∈ v'.allCells, CellMeasured x.dw c :=
    cellMeasured_cb x.dw w wr.core hU (hN.1 hk) (dw_nil_of_across x.dw _ hA) hD
  have hts : ∀ c ∈ v'.allCells, ∀ l ∈ lines c.text, TextSafe (Junction.cps e s) l :=
    textsSafe_cb x.dw _ w wr.core hU (hN.1 hk) hS
  have hn' : 1 ≤ v'.ncols := by rw [hnc]; exact hn
  have hall := c03m_whole_line_builtins x.dw e s hT h1 hA hes p hp v' hn' hwf ha hV hmeas hts
  have hm' : (w.renderTo x wr).2 = renderTextBody p.2 v' := by rw [hpe]; exact hm
  refine ⟨hok, fun hb => ?_, fun hb => ?_⟩
  · show ∀ ch ∈ (w.renderTo x wr).2.chunks, _
    rw [hm']; exact hall.1 (by rw [hpe]; exact hb)
  · show ∀ ch ∈ (w.renderTo x wr).2.chunks, _
    rw [hm']; exact hall.2 (by rw [hpe]; exact hb)

/-- `TextSafe` for a code-point junction, spelled out: the line is empty, or (a space is accepted on
    both sides and) it starts with a whole code point in `s` and ends with a whole code point in `e`. -/
theorem c03m_textsafe_cps (e s : Nat → Bool) (t : Bytes) :
    TextSafe (Junction.cps e s) t ↔
      t = [] ∨ (e 32 = true ∧ s 32 = true ∧ startsCp s t = true ∧ endsCp e t = true) := by
  have h1 : endsCp e [SP] = e 32 := by simp [endsCp, cpOfExact, SP]
  have h2 : startsCp s [SP] = s 32 := by simp [startsCp, cpOfExact, SP]
  unfold TextSafe Junction.cps
  simp only [h1, h2]
  constructor
  · rintro (h | ⟨⟨a, b⟩, c, d⟩)
    · exact Or.inl h
    · exact Or.inr ⟨a, d, b, c⟩
  · rintro (h | ⟨a, b, c, d⟩)
    · exact Or.inl h
    · exact Or.inr ⟨⟨a, c⟩, d, b⟩

/-- The spec-level code-point reader agrees with the model of Go's decoder: a byte string `cpOfExact`
    accepts is consumed whole by one `utf8.DecodeRune` step and counts as exactly one rune. -/
theorem c03m_cp_whole_rune (g : Bytes) (c : Nat) (h : cpOfExact g = some c) :
    runeLen g = g.length ∧ runeCount g = 1 :=
  ⟨cpOfExact_runeLen g c h, cpOfExact_runeCount g c h⟩

/-! ### 4. cluster-shaped measures (C18 clause 4, stated about `dw`) -/

/-- If `dw` has go-runewidth's shape (`ClusterShaped`: the string is cut into clusters of ≥ 1 whole
    runes, each contributing ≤ 2 cells) then display cells never exceed twice the runes. -/
theorem c03m_cells_le_2runes (dw : Measure) (h : ClusterShaped dw) : ∀ l, dw l ≤ 2 * runeCount l :=
  clusterShaped_le dw h

/-- … hence the same for the longest-line measures the cell metrics are built from. -/
theorem c03m_longest_cells_le_2runes (dw : Measure) (h : ClusterShaped dw) (s : Bytes) :
    longestLine dw s ≤ 2 * longestLine runeCount s := by
  rcases (c18_longest_bound dw s).2 with h0 | ⟨l, hl, he⟩
  · omega
  · rw [he]
    exact Nat.le_trans (clusterShaped_le dw h l)
      (Nat.mul_le_mul_left 2 ((c18_longest_bound runeCount s).1 l hl))

/-- `ClusterShaped` is what `c18_cells_le_2runes` assumes: any `clusterWidth cr cw` with fuel = length -/
theorem c03m_clusterShaped_intro (cr cw : Bytes → Nat) (hcr : ∀ s, 1 ≤ cr s) (hcw : ∀ s, cw s ≤ 2) :
    ClusterShaped (fun l => clusterWidth cr cw l.length l) :=
  ⟨cr, cw, hcr, hcw, fun _ => rfl⟩

/-! ### non-vacuity -/

namespace C03mExample
open TextExample


-- 1. byte length is additive; `runeCount` and `toyDw` are not
example : ∀ a b : Bytes, List.length (a ++ b) = List.length a + List.length b := len_add
example : ¬ ∀ a b, runeCount (a ++ b) = runeCount a + runeCount b := by
  intro h; have := h [0xE4] [0xB8, 0x96]; revert this; decide
example : ¬ ∀ a b, toyDw (a ++ b) = toyDw a + toyDw b := toyDw_not_additive
example (segs : List Seg) : AdditiveOn List.length segs := c03m_additive_measure _ len_add segs
example : ∀ k, List.length (spaces k) = k := c03m_spaces_additive _ len_add rfl
example : AdditiveAcross List.length Junction.all := (c03m_additive_iff_all _).mp len_add
/-- every line of the example table is 12 wide in the (additive) measure itself -/
example : ∀ ch ∈ (renderTextBody asciiSimple exView).chunks, ∃ line, ch = line ++ [LF] ∧ line.length = 12 :=
  c03m_rectangle_additive List.length _ _ hn hs ha hg hv (fun c hc => (hall c hc).2.2) len_add rfl
example : ∀ ch ∈ (renderTextBody boxlessDeco exView).chunks, ch = [] ∨ ∃ line, ch = line ++ [LF] ∧ line.length = 6 :=
  c03m_rectangle_additive_boxless List.length _ _ hn hs ha hb hv (fun c hc => (hall c hc).2.2)
    len_add rfl

-- 2. `toyDw` agrees with the glyph table (byte length does not: a box glyph is 3 bytes, 1 cell)
example : ∀ p ∈ glyphWidths, toyDw p.1 = p.2 := toyDw_table
example : ¬ ∀ p ∈ glyphWidths, List.length p.1 = p.2 := by decide
example : GlyphOK toyDw heavy :=
  (c03m_glyph_bridge toyDw toyDw_table heavyP heavy_mem).1 rfl
example : ∀ p ∈ builtins, DecoOK toyDw p.2 := c03m_builtins_decoOK toyDw toyDw_table
example : GlyphOK toyDw heavy := c03m_glyphokby_sound toyDw toyDw_table heavy rfl (by decide)
example : GlyphOK List.length asciiSimple :=
  c03m_populated_glyphok List.length { horizontal := [45], vertical := [124], crossPiece := [43] } rfl (by decide)
example : GlyphOK List.length asciiSimple :=
  c03m_populated_glyphok_sources List.length { horizontal := [45], vertical := [124], crossPiece := [43] } rfl
    (by decide)
/-- a wide glyph breaks `GlyphOK` (the side condition is necessary) -/
example : ¬ GlyphOK List.length ({ horizontal := [226, 148, 128] } : Decoration).populate := by
  rw [c03m_glyphok_iff]; rintro ⟨_, h⟩; have := (h [226, 148, 128] (by decide)).2; revert this; decide
example := c03m_populate_sources { horizontal := [45] }
/-- the example view under the built-in heavy decoration: segment-sum width 12, dividers at 0, 6, 11 -/
example : ∀ ch ∈ (renderTextBody heavy exView).chunks, ∃ segs, ch = segBytes segs ++ [LF] ∧
    segWidth toyDw segs = 12 ∧ divOffsets toyDw 0 segs = [0, 6, 11] :=
  (c03m_rectangle_builtins toyDw toyDw_table heavyP heavy_mem exView hn hs ha toy_hv).2.1 rfl

-- 3. `toyDw` is additive across `toyJ` although it is not additive
example : AdditiveAcross toyDw toyJ := toyDw_across
example : TextSafe toyJ [97, 94, 98] := by decide            -- "a^b"
example : ¬ TextSafe toyJ [94, 98] := by decide               -- "^b": joins the padding space
example : toyDw ([SP] ++ [94, 98]) ≠ toyDw [SP] + toyDw [94, 98] := by decide
example : GlyphJunctions toyJ heavy :=
  c03m_builtins_junctions _ _ toy_box heavyP heavy_mem rfl
example : ∀ c ∈ exView.allCells, ∀ l ∈ lines c.text, TextSafe toyJ l := by decide
example : ∀ ch ∈ (renderTextBody heavy exView).chunks, ∃ segs, ch = segBytes segs ++ [LF] ∧
    AdditiveOn toyDw segs ∧ segWidth toyDw segs = 12 ∧ divOffsets toyDw 0 segs = [0, 6, 11] :=
  c03m_additiveOn_render toyDw toyJ heavy exView hn hs ha
    ((c03m_glyph_bridge toyDw toyDw_table heavyP heavy_mem).1 rfl) toy_hv toyDw_across
    (c03m_builtins_junctions _ _ toy_box heavyP heavy_mem rfl) (by decide)
/-- the whole-line rectangle for the non-additive `toyDw` -/
example : ∀ ch ∈ (renderTextBody heavy exView).chunks, ∃ line, ch = line ++ [LF] ∧ toyDw line = 12 :=
  (c03m_whole_line_builtins toyDw _ _ toyDw_table toyDw_sp toyDw_across toy_box
    heavyP heavy_mem exView hn hs ha toy_hv
    (fun c hc => (toy_hall c hc).2.2) (by decide)).1 rfl
example : ∀ ch ∈ (renderTextBody boxlessDeco exView).chunks, ch = [] ∨ ∃ line, ch = line ++ [LF] ∧ toyDw line = 6 :=
  c03m_whole_line_across_boxless toyDw toyJ _ _ hn hs ha hb toy_hv (fun c hc => (toy_hall c hc).2.2)
    toyDw_sp toyDw_across (by decide) (by decide)
example := c03m_additiveOn_render_boxless toyDw toyJ _ _ hn hs ha hb toy_hv toyDw_across (by decide) (by decide)
example : AdditiveOn toyDw (boxedSegs [124] [124] [124] [⟨1, ⟨[97], 1⟩, 0⟩]) :=
  c03m_additive_across toyDw toyJ toyDw_across _
    ((c03m_line_shapes_chain toyJ).2.1 [124] [124] [124] [⟨1, ⟨[97], 1⟩, 0⟩] (by decide) (by decide) (by decide)
      (by decide) (by decide) (by decide) (by decide) (by decide) (by decide))
example := (c03m_line_shapes_chain toyJ).2.2 [] (by decide) (by simp)

/-- the D20 inputs with an illustrative (NOT exhaustive) pair of range lists: combining diacritics,
    U+0903 (spacing mark), ZWJ, emoji modifiers join the previous character; U+0600–0605, U+0D4E
    (prepend) join the next one -/
abbrev d20J : Junction :=
  Junction.clusters [(0x300, 0x36F), (0x903, 0x903), (0x200D, 0x200D), (0x1F3FB, 0x1F3FF)]
    [(0x600, 0x605), (0xD4E, 0xD4E)]
example : TextSafe d20J [97, 98, 99] := by decide                            -- "abc"
example : TextSafe d20J [0xE6, 0x97, 0xA5, 0xE6, 0x9C, 0xAC] := by decide    -- "日本"
example : ¬ TextSafe d20J [0xE0, 0xA4, 0x83, 97] := by decide                -- U+0903 "a"
example : ¬ TextSafe d20J [0xF0, 0x9F, 0x8F, 0xBB, 97] := by decide          -- U+1F3FB "a"
example : ¬ TextSafe d20J [97, 0xE0, 0xB5, 0x8E] := by decide                -- "a" U+0D4E
example : ¬ TextSafe d20J [97, 0xD8, 0x80] := by decide                      -- "a" U+0600
example : ¬ TextSafe d20J [97, 0xE4] := by decide                            -- truncated UTF-8 at the end
example : ∀ p ∈ builtins, p.2.isBoxless = false → GlyphJunctions d20J p.2 :=
  c03m_builtins_junctions_clusters _ _ (by decide) (by decide)

-- end to end: the history of `Props/E2Ecb.lean` (callbacks that set properties and fail), measured by the
-- non-additive `toyDw`, rendered with the built-in heavy decoration
example := c03m_e2ecb_rectangle_builtins toyX cbOps C03mHistExample.hv e2eHeavy rfl C03mHistExample.ht
  C03mHistExample.hU C03mHistExample.hN toyDw_table C03mHistExample.hd C03mHistExample.ha C03mHistExample.hn
  C03mHistExample.hF
/-- every line of the real render is 9 cells wide in the measure itself -/
example : ∀ ch ∈ ((run toyX.dw cbOps).renderTo toyX e2eHeavy).2.chunks, ∃ line, ch = line ++ [LF] ∧
    toyDw line = 9 := by
  have h := (c03m_e2ecb_whole_line_builtins toyX cbOps C03mHistExample.hv e2eHeavy rfl C03mHistExample.ht
    C03mHistExample.hU C03mHistExample.hN _ _ toyDw_table toyDw_sp toyDw_across toy_box C03mHistExample.hd
    C03mHistExample.ha C03mHistExample.hn C03mHistExample.hF C03mHistExample.hD C03mHistExample.hS).2.1 rfl
  rw [C03mHistExample.hcw] at h
  exact h

example : TextSafe toyJ [97, 94, 98] := (c03m_textsafe_cps _ _ _).mpr (Or.inr (by decide))
example := c03m_cp_whole_rune [226, 148, 131] 0x2503 (by decide)
-- `cpOfExact` inverts the model's `encodeRune` on the D20 code points
example : [0x903, 0x1F3FB, 0xD4E, 0x600, 0x2503, 0x41].map (fun c => cpOfExact (encodeRune c)) =
    [some 0x903, some 0x1F3FB, some 0xD4E, some 0x600, some 0x2503, some 0x41] := by decide
example : cpOfExact [0xC0, 0x80] = none ∧ cpOfExact [0xED, 0xA0, 0x80] = none ∧ cpOfExact [0xE4, 0xB8] = none := by
  decide                                                                    -- overlong, surrogate, truncated

-- 4. cluster-shaped measures
example : ClusterShaped runeCount := runeCount_clusterShaped
example : ∀ l, runeCount l ≤ 2 * runeCount l := c03m_cells_le_2runes _ runeCount_clusterShaped
/-- byte length is additive but NOT cluster-shaped: "世" is 3 bytes, 1 rune -/
example : ¬ ClusterShaped List.length := by
  intro h; have := c03m_cells_le_2runes _ h [0xe4, 0xb8, 0x96]; revert this; decide
example := c03m_longest_cells_le_2runes _ runeCount_clusterShaped [97, 10, 98, 99]
/-- one rune per cluster, CJK lead bytes (E3..E9) wide: the example of `Props/C18.lean` -/
example := c03m_clusterShaped_intro (fun _ => 1)
  (fun s => match s with | b :: _ => if 0xE3 ≤ b && b ≤ 0xE9 then 2 else 1 | [] => 0)
  (fun _ => Nat.le_refl 1) (fun s => by cases s <;> simp <;> split <;> omega)

end C03mExample

end Tab
