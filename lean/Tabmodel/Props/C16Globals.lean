/-
  C16 / C17 (regenerated fact) — shared mutable state.  `Generated.globals` lists every
  package-level variable of every non-test file of /repo with whether any statement outside
  `init` writes it (assigns, takes its address, increments) and, for struct globals, how many of
  its field accesses are lexically outside a Lock/Unlock pair.
-/
import Tabmodel.Generated.Globals
namespace Tab
open Generated

/-- the only package-level variables written after init live in the decoration registry's package:
    building and rendering distinct tables shares no other mutable state -/
theorem c16_globals : ∀ g ∈ globals, g.mutatedOutsideInit = true → g.pkg = "texttable/decoration" := by
  decide

/-- such state exists and is the thing the lock discipline below is about (non-vacuity) -/
theorem c16_registry_listed : ∃ g ∈ globals, g.pkg = "texttable/decoration" ∧ g.mutatedOutsideInit = true := by decide

/-- every use of a package-level variable that is written after init — in `RegisterDecorationName`,
    `Named`, `RegisteredDecorationNames` — is lexically between `Lock()`/`RLock()` and the matching
    `Unlock()` (or a deferred one): a lookup or listing outside the lock shows up as an unguarded use.
    (`fieldAccesses ≥ 1`: there is at least one use to speak of; the count was `≥ 3` — one per
    function — until a harmless rewrite routed all three through one locked accessor.) -/
theorem c17_lock_discipline :
    ∀ g ∈ globals, g.mutatedOutsideInit = true → g.unguardedAccesses = 0 ∧ g.fieldAccesses ≥ 1 := by decide

end Tab
