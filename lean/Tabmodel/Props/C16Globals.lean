/-
  C16 / C17 (regenerated fact) — shared mutable state.  `Generated.globals` lists every
  package-level variable of every non-test file of /repo with whether any statement outside
  `init` writes it (assigns, takes its address, increments) and, for struct globals, how many of
  its field accesses are lexically outside a Lock/Unlock pair.
-/
import Tabmodel.Generated.Globals
namespace Tab
open Generated

/-- the only package-level variable written after init is the decoration registry:
    building and rendering distinct tables shares no other mutable state -/
theorem c16_globals : ∀ g ∈ globals, g.mutatedOutsideInit = true → (g.pkg = "texttable/decoration" ∧ g.name = "registry") := by
  decide

/-- the registry exists and is the thing the lock discipline below is about (non-vacuity) -/
theorem c16_registry_listed : ∃ g ∈ globals, g.name = "registry" ∧ g.mutatedOutsideInit = true := by decide

/-- every access to the registry's table — in `init`, `RegisterDecorationName`, `Named` and
    `RegisteredDecorationNames` — is lexically between `Lock()` and `Unlock()` (or a deferred
    `Unlock()`): a lookup or listing outside the lock would show up here as an unguarded access -/
theorem c17_lock_discipline :
    ∀ g ∈ globals, g.name = "registry" → g.unguardedAccesses = 0 ∧ g.fieldAccesses ≥ 4 := by decide

end Tab
