/-
  C08 — Markdown output keeps GFM table structure and neutralises cell content.

  About `renderMarkdown` (Model/Markdown.lean, mirror of markdown/markdown.go `RenderTo`,
  `emitRow`, `mdPaddedCellEscape`, `mdCellEscape`).  All theorems hold for every display-width
  measure `dw`.  The spec-side readers (`unescapedPipes`, `splitPipes`, `mdDecode`, `trimSp`),
  the acceptance predicate `MdOK` and the rules `effAlign` / `mdColWidth` are defined in
  Spec/Markdown.lean without reference to the renderer; `WFShape` is in Spec/Shape.lean.
  Lines are read back with `lines` (= Go's `length.Lines`): split at LF, drop the final empty piece.
-/
import Tabmodel.Proofs.C08Render
namespace Tab
open Emit

/-! ### refusals (error class, nothing written) -/

theorem c08_refuse_no_columns (dw : Measure) (v : RTable) (h : v.ncols = 0) :
    (renderMarkdown dw v).res = .error (.err .noColumns) ∧ (renderMarkdown dw v).chunks = [] := by
  rw [renderMarkdown_no_columns dw v (by omega)]; exact ⟨rfl, rfl⟩

theorem c08_refuse_no_headers (dw : Measure) (v : RTable) (hn : 1 ≤ v.ncols) (h : v.header = none) :
    (renderMarkdown dw v).res = .error (.err .noHeaders) ∧ (renderMarkdown dw v).chunks = [] := by
  rw [renderMarkdown_no_headers dw v (by omega) h]; exact ⟨rfl, rfl⟩

/-- a header or row with more cells than columns: structural error before anything is written -/
theorem c08_refuse_structural (dw : Measure) (v : RTable) (hn : 1 ≤ v.ncols) (hh : v.header.isSome = true)
    (h : ¬ WFShape v) :
    (renderMarkdown dw v).res = .error (.err .structural) ∧ (renderMarkdown dw v).chunks = [] := by
  obtain ⟨hs, hhs⟩ := Option.isSome_iff_exists.mp hh
  by_cases hl : hs.length > v.ncols
  · rw [renderMarkdown_long_header dw v hs (by omega) hhs hl]; exact ⟨rfl, rfl⟩
  · apply renderMarkdown_long_row dw v hs (by omega) hhs hl
    apply Classical.byContradiction
    intro hne
    apply h
    refine ⟨fun hs' e => by rw [hhs] at e; cases e; omega, fun cs hcs => ?_⟩
    apply Classical.byContradiction
    intro hlen
    exact hne ⟨cs, hcs, by omega⟩

/-- a column (or column-0 default) alignment property that is not an `align.Alignment`:
    the type assertion panics, after the shape checks and before anything is written -/
theorem c08_panic_bad_align (dw : Measure) (v : RTable) (hn : 1 ≤ v.ncols) (hh : v.header.isSome = true)
    (hs : WFShape v) (hbad : ∃ i, i < v.ncols ∧ alignEntryOK (effAlign v i) = false) :
    (∃ site, (renderMarkdown dw v).res = .error (.panic site)) ∧ (renderMarkdown dw v).chunks = [] := by
  obtain ⟨hs', hhs⟩ := Option.isSome_iff_exists.mp hh
  have := renderMarkdown_bad_align dw v hs' hn hhs hs hbad
  exact ⟨⟨_, this.1⟩, this.2⟩

/-! ### acceptance -/

theorem c08_ok (dw : Measure) (v : RTable) (h : MdOK v) : (renderMarkdown dw v).res = .ok () := by
  obtain ⟨hn, hh, hshape, hal⟩ := h
  obtain ⟨hs, hhs⟩ := Option.isSome_iff_exists.mp hh
  exact (renderMarkdown_ok dw v hs hn hhs hshape hal).1

/-- with well-typed alignment properties the renderer never panics, whatever the shape of the view
    (in particular for zero-cell and short rows, and without headers or columns) -/
theorem c08_no_panic (dw : Measure) (v : RTable) (h : AlignsOK v) (site : String) :
    (renderMarkdown dw v).res ≠ .error (.panic site) := by
  by_cases hn : 1 ≤ v.ncols
  · cases hh : v.header with
    | none => rw [(c08_refuse_no_headers dw v hn hh).1]; intro e; cases e
    | some hs =>
      by_cases hshape : WFShape v
      · rw [c08_ok dw v ⟨hn, by simp [hh], hshape, h⟩]; intro e; cases e
      · rw [(c08_refuse_structural dw v hn (by simp [hh]) hshape).1]; intro e; cases e
  · rw [(c08_refuse_no_columns dw v (by omega)).1]; intro e; cases e

/-- with well-typed alignment properties, `MdOK` is exactly the set of accepted views -/
theorem c08_ok_iff (dw : Measure) (v : RTable) (h : AlignsOK v) :
    (renderMarkdown dw v).res = .ok () ↔ MdOK v := by
  constructor
  · intro hok
    by_cases hn : 1 ≤ v.ncols
    · cases hh : v.header with
      | none => rw [(c08_refuse_no_headers dw v hn hh).1] at hok; cases hok
      | some hs =>
        by_cases hshape : WFShape v
        · exact ⟨hn, by simp [hh], hshape, h⟩
        · rw [(c08_refuse_structural dw v hn (by simp [hh]) hshape).1] at hok; cases hok
    · rw [(c08_refuse_no_columns dw v (by omega)).1] at hok; cases hok
  · exact c08_ok dw v

/-! ### line structure -/

/-- The output is `2 + (number of non-separator rows)` LF-terminated lines (header, delimiter, one
    per body row), none containing LF; every line has exactly `ncols + 1` unescaped pipes, these are
    all the `|` bytes of the line (so no `|` at all follows a backslash), and splitting on them
    gives `ncols + 2` pieces (an empty one before the first pipe, the `ncols` cells, an empty one
    after the last pipe). -/
theorem c08_structure (dw : Measure) (v : RTable) (h : MdOK v) :
    (renderMarkdown dw v).output = ((lines (renderMarkdown dw v).output).map (· ++ [LF])).flatten ∧
    (lines (renderMarkdown dw v).output).length = 2 + (bodyRows v).length ∧
    ∀ l ∈ lines (renderMarkdown dw v).output,
      LF ∉ l ∧ unescapedPipes l = v.ncols + 1 ∧ l.count 124 = v.ncols + 1 ∧
      (splitPipes l).length = v.ncols + 2 := by
  obtain ⟨hn, hh, hshape, hal⟩ := h
  obtain ⟨hs, hhs⟩ := Option.isSome_iff_exists.mp hh
  have hout : (renderMarkdown dw v).output = ((mdLinesOf dw v hs).map (· ++ [LF])).flatten :=
    (renderMarkdown_ok dw v hs hn hhs hshape hal).2
  have hform := mdLinesOf_form dw v hs hhs hshape
  have hlines : lines (renderMarkdown dw v).output = mdLinesOf dw v hs := by
    rw [hout]; exact lines_flatten _ (fun l hl => (hform l hl).facts.1)
  rw [hlines]
  exact ⟨hout, mdLinesOf_length dw v hs, fun l hl => (hform l hl).facts⟩

/-! ### the delimiter row -/

/-- shape of a delimiter cell: at least three dashes (and at least `width` of them) between the two
    marker bytes: (space, space) for nil / left / invalid, (space, colon) for right,
    (colon, colon) for centre -/
theorem c08_control_cell (width : Int) (al : Nat) :
    ∃ n : Nat, 3 ≤ n ∧ width ≤ n ∧
      mdControlCell width al = (mdMarkers al).1 :: List.replicate n 45 ++ [(mdMarkers al).2] := by
  refine ⟨(if width < 3 then 3 else width).toNat, ?_, ?_, ?_⟩
  · split <;> omega
  · split <;> omega
  · unfold mdControlCell mdMarkers
    by_cases h2 : al = 2
    · simp [h2]
    · by_cases h3 : al = 3
      · simp [h3]
      · simp [h2, h3]

/-- The `i`-th cell of the delimiter line (second line) is `mdControlCell w a` for `w` the measured
    width of column `i` and `a` its effective alignment (own setting, else column 0's), possibly
    with spaces around it; there are none when the measure gives the delimiter cell at least its
    column's width (true of every measure that counts ASCII bytes as 1). -/
theorem c08_delim (dw : Measure) (v : RTable) (h : MdOK v) (i : Nat) (hi : i < v.ncols) :
    ∃ line l r,
      (lines (renderMarkdown dw v).output)[1]? = some line ∧
      (splitPipes line)[i + 1]? =
        some (spaces l ++ mdControlCell (mdColWidth v i) (effAlignNat v i) ++ spaces r) ∧
      (mdColWidth v i ≤ (dw (mdControlCell (mdColWidth v i) (effAlignNat v i)) : Nat) → l = 0 ∧ r = 0) := by
  obtain ⟨hn, hh, hshape, hal⟩ := h
  obtain ⟨hs, hhs⟩ := Option.isSome_iff_exists.mp hh
  have hout : (renderMarkdown dw v).output = ((mdLinesOf dw v hs).map (· ++ [LF])).flatten :=
    (renderMarkdown_ok dw v hs hn hhs hshape hal).2
  have hform := mdLinesOf_form dw v hs hhs hshape
  have hlines : lines (renderMarkdown dw v).output = mdLinesOf dw v hs := by
    rw [hout]; exact lines_flatten _ (fun l hl => (hform l hl).facts.1)
  have hget := mdRowLine_get dw v.ncols (mdControlRow v (mdWidthsOf v hs) (mdAlignsOf v)) (mdWidthsOf v hs)
    (mdAlignsOf v) false (mdRowBodies_good_control _ _ _ _ _ _) (by simp [mdControlRow]) i hi
  have hcell : (mdControlRow v (mdWidthsOf v hs) (mdAlignsOf v))[i]? =
      some { text := mdControlCell (mdColWidth v i) (effAlignNat v i) } := by
    have hw := mdWidthsOf_get v hs hhs i hi
    have ha := mdAlignsOf_get v i hi
    rw [List.getD_eq_getElem?_getD] at hw ha
    simp [mdControlRow, hi, hw, ha]
  rw [hcell] at hget
  simp only [mdSeg, mdWidthsOf_get v hs hhs i hi, mdAlignsOf_get v i hi] at hget
  obtain ⟨l, r, hshapeP, hzero⟩ := mdPadded_shape dw { text := mdControlCell (mdColWidth v i) (effAlignNat v i) }
    (mdColWidth v i) (effAlignNat v i)
  simp only [mdEscape_controlCell] at hshapeP hzero
  refine ⟨_, l, r, by rw [hlines]; rfl, ?_, hzero⟩
  rw [← hshapeP]; exact hget

/-! ### cell content -/

theorem c08_decode_escape (s : Bytes) : mdDecode (mdEscape s) = s := mdDecode_mdEscape s

/-- whichever of the three padding shapes `mdPadded` chooses (and with the bar's own spaces around
    it), trimming gives the trimmed escaped text, which is the escape of the trimmed text -/
theorem c08_trim_pad (dw : Measure) (c : RCell) (want : Int) (al : Nat) :
    trimSp (mdPadded dw c want al) = trimSp (mdEscape c.text) ∧
    trimSp ([32] ++ mdPadded dw c want al ++ [32]) = trimSp (mdEscape c.text) ∧
    trimSp (mdEscape c.text) = mdEscape (trimSp c.text) := by
  obtain ⟨l, r, h, _⟩ := mdPadded_shape dw c want al
  have e1 : trimSp (mdPadded dw c want al) = trimSp (mdEscape c.text) := by
    rw [h, trimSp_append_spaces, trimSp_spaces_append]
  refine ⟨e1, ?_, trimSp_mdEscape _⟩
  have : ([32] : Bytes) = spaces 1 := rfl
  rw [this, trimSp_append_spaces, trimSp_spaces_append, e1]

/-- Every header / body cell can be read back: with `hs` the header and source row `k` of
    `hs :: bodyRows v` on line `0` (header) or `k + 1` (body; line 1 is the delimiter), the `j`-th
    piece between unescaped pipes is the escaped cell text with at least one space on either side
    and nothing else, and, trimmed and entity-decoded, is the trimmed cell text; a column the row
    has no cell for holds a single space. -/
theorem c08_cells (dw : Measure) (v : RTable) (h : MdOK v) (hs : List RCell) (hh : v.header = some hs)
    (k : Nat) (cells : List RCell) (hk : (hs :: bodyRows v)[k]? = some cells) :
    ∃ line, (lines (renderMarkdown dw v).output)[if k = 0 then 0 else k + 1]? = some line ∧
      (∀ j c, cells[j]? = some c →
        ∃ e l r, (splitPipes line)[j + 1]? = some e ∧
          e = spaces (l + 1) ++ mdEscape c.text ++ spaces (r + 1) ∧
          mdDecode (trimSp e) = trimSp c.text) ∧
      (∀ j, cells.length ≤ j → j < v.ncols → (splitPipes line)[j + 1]? = some [32]) := by
  obtain ⟨hn, _, hshape, hal⟩ := h
  have hout : (renderMarkdown dw v).output = ((mdLinesOf dw v hs).map (· ++ [LF])).flatten :=
    (renderMarkdown_ok dw v hs hn hh hshape hal).2
  have hform := mdLinesOf_form dw v hs hh hshape
  have hlines : lines (renderMarkdown dw v).output = mdLinesOf dw v hs := by
    rw [hout]; exact lines_flatten _ (fun l hl => (hform l hl).facts.1)
  -- the row is short enough
  have hlen : cells.length ≤ v.ncols := by
    cases k with
    | zero => simp at hk; subst hk; exact hshape.1 hs hh
    | succ k =>
      simp at hk
      have hm : cells ∈ bodyRows v := List.mem_of_getElem? hk
      simp only [bodyRows, List.mem_filterMap, id] at hm
      obtain ⟨r, hr, e⟩ := hm
      subst e; exact hshape.2 cells hr
  have hline : (mdLinesOf dw v hs)[if k = 0 then 0 else k + 1]? =
      some (mdRowLine dw v.ncols cells (mdWidthsOf v hs) (mdAlignsOf v) true) := by
    cases k with
    | zero => simp at hk; subst hk; simp [mdLinesOf]
    | succ k =>
      simp at hk
      simp [mdLinesOf, hk]
  refine ⟨_, by rw [hlines]; exact hline, ?_, ?_⟩
  · intro j c hc
    have hj : j < v.ncols := by
      have := (List.getElem?_eq_some_iff.mp hc).1; omega
    have hget := mdRowLine_get dw v.ncols cells (mdWidthsOf v hs) (mdAlignsOf v) true
      (mdRowBodies_good_true _ _ _ _ _) hlen j hj
    rw [hc] at hget
    obtain ⟨l, r, hp, _⟩ := mdPadded_shape dw c ((mdWidthsOf v hs).getD j 0) ((mdAlignsOf v).getD j 0)
    refine ⟨_, l, r, hget, ?_, ?_⟩
    · simp only [mdSeg, if_true]
      rw [hp]
      have e1 : spaces (l + 1) = [32] ++ spaces l := rfl
      have e2 : spaces (r + 1) = spaces r ++ [32] := List.replicate_succ'
      rw [e1, e2]; simp only [List.append_assoc]
    · simp only [mdSeg, if_true]
      rw [(c08_trim_pad dw c _ _).2.1, trimSp_mdEscape, mdDecode_mdEscape]
  · intro j hj1 hj2
    have hget := mdRowLine_get dw v.ncols cells (mdWidthsOf v hs) (mdAlignsOf v) true
      (mdRowBodies_good_true _ _ _ _ _) hlen j hj2
    rw [List.getElem?_eq_none hj1] at hget
    exact hget

/-! ### inert content -/

/-- No pipe, line feed, angle bracket or quote survives escaping, and every ampersand of the
    escaped text starts one of the seven entities (so an entity look-alike in the input, such as
    `&amp;`, has its `&` escaped and decodes back to itself by `c08_decode_escape`). -/
theorem c08_inert (s : Bytes) :
    (∀ b ∈ mdEscape s, b ∉ ([124, 10, 60, 62, 34, 39] : List UInt8)) ∧
    (∀ pre post, mdEscape s = pre ++ 38 :: post → ∃ p ∈ mdEntities, p.1 <+: (38 :: post)) := by
  refine ⟨fun b hb hm => ?_, mdEscape_amp s⟩
  obtain ⟨h1, h2, h3, h4, h5, h6⟩ := mdEscape_inert s b hb
  simp only [List.mem_cons, List.not_mem_nil, or_false] at hm
  rcases hm with e | e | e | e | e | e
  · exact h1 e
  · exact h2 e
  · exact h3 e
  · exact h4 e
  · exact h5 e
  · exact h6 e

/-- escaping maps a space to a space and nothing else to or from one, so it commutes with trimming -/
theorem c08_escape_trim (s : Bytes) : trimSp (mdEscape s) = mdEscape (trimSp s) := trimSp_mdEscape s

/-! ### non-vacuity: a concrete hostile table -/

/-- a cell as the width callback leaves it (`mdw` = byte length, exact for ASCII) -/
def c08Cell (s : Bytes) : RCell := { text := s, mdw := s.length }

/-- 3 columns.  Header: `a|b`, `x\` (trailing backslash), `&amp;` (entity look-alike).
    Body: [`1 LF 2`, `<i>"'`, `\|`]; a separator; a zero-cell row; a one-cell row ` p `.
    Alignments: column-0 default right, column 2 centre, column 3 an invalid value (7). -/
def c08Table : RTable :=
  { ncols := 3
    header := some [c08Cell [97, 124, 98], c08Cell [120, 92], c08Cell [38, 97, 109, 112, 59]]
    rows := [some [c08Cell [49, 10, 50], c08Cell [60, 105, 62, 34, 39], c08Cell [92, 124]], none, some [],
             some [c08Cell [32, 112, 32]]]
    colAlign := [some (.align 2), none, some (.align 3), some (.align 7)]
    colSkip := [] }

example : MdOK c08Table := by decide
example : AlignsOK c08Table := by decide

/-- what the model (and the Go code) writes for it under the byte-count measure:
```
| a&#x7c;b |  x\   | &amp;amp; |
| ---:|:-----:| ----- |
| 1&#x0a;2 | &lt;i&gt;&#34;&#39; | \&#x7c; |
| | | |
|  p  | | |
``` -/
example : (lines (renderMarkdown List.length c08Table).output).map splitPipes =
    [[[], [32, 97, 38, 35, 120, 55, 99, 59, 98, 32], [32, 32, 120, 92, 32, 32, 32],
        [32, 38, 97, 109, 112, 59, 97, 109, 112, 59, 32], []],
     [[], [32, 45, 45, 45, 58], [58, 45, 45, 45, 45, 45, 58], [32, 45, 45, 45, 45, 45, 32], []],
     [[], [32, 49, 38, 35, 120, 48, 97, 59, 50, 32],
        [32, 38, 108, 116, 59, 105, 38, 103, 116, 59, 38, 35, 51, 52, 59, 38, 35, 51, 57, 59, 32],
        [32, 92, 38, 35, 120, 55, 99, 59, 32], []],
     [[], [32], [32], [32], []],
     [[], [32, 32, 112, 32, 32], [32], [32], []]] := by decide +kernel

/-! instances of each theorem's hypotheses -/

-- refusals
example : ({ c08Table with ncols := 0 } : RTable).ncols = 0 := rfl
example : (renderMarkdown List.length { c08Table with ncols := 0 }).res = .error (.err .noColumns) :=
  (c08_refuse_no_columns _ _ rfl).1
example : (renderMarkdown List.length { c08Table with header := none }).res = .error (.err .noHeaders) :=
  (c08_refuse_no_headers _ _ (by decide) rfl).1
-- the header has three cells: too many for two columns
example : (renderMarkdown List.length { c08Table with ncols := 2 }).res = .error (.err .structural) :=
  (c08_refuse_structural _ _ (by decide) (by decide) (by decide)).1
-- a non-alignment value as the column-0 default reaches column 1 (which has no own setting)
example : ∃ site, (renderMarkdown List.length { c08Table with colAlign := [some (.user 5)] }).res =
    .error (.panic site) :=
  (c08_panic_bad_align _ _ (by decide) (by decide) (by decide) ⟨0, by decide, by decide⟩).1

-- acceptance, structure
example : (renderMarkdown List.length c08Table).res = .ok () := c08_ok _ _ (by decide)
example : (lines (renderMarkdown (fun _ => 0) c08Table).output).length = 5 :=
  (c08_structure (fun _ => 0) c08Table (by decide)).2.1
example : bodyRows c08Table = [[c08Cell [49, 10, 50], c08Cell [60, 105, 62, 34, 39], c08Cell [92, 124]], [],
    [c08Cell [32, 112, 32]]] := by decide

-- delimiter row: column 0 inherits "right", column 1 is centre, column 2 has an invalid value;
-- under the byte-count measure the exactness hypothesis of `c08_delim` holds for every column
example : (List.range 3).map (effAlignNat c08Table) = [2, 3, 7] := by decide
example : (List.range 3).map (mdColWidth c08Table) = [3, 5, 5] := by decide
example : ∀ i, i < 3 → mdColWidth c08Table i ≤
    ((mdControlCell (mdColWidth c08Table i) (effAlignNat c08Table i)).length : Nat) := by decide
example : ∃ line, (lines (renderMarkdown List.length c08Table).output)[1]? = some line ∧
    (splitPipes line)[1]? = some (mdControlCell 3 2) := by
  obtain ⟨line, l, r, h1, h2, h3⟩ := c08_delim List.length c08Table (by decide) 0 (by decide)
  obtain ⟨rfl, rfl⟩ := h3 (by decide)
  have e1 : mdColWidth c08Table 0 = 3 := by decide
  have e2 : effAlignNat c08Table 0 = 2 := by decide
  rw [e1, e2] at h2
  exact ⟨line, h1, by simpa [spaces] using h2⟩

-- cells: source row 1 (first body row) is on line 2; its cell 2 is `\|`; source row 3 has one cell
example : c08Table.header = some [c08Cell [97, 124, 98], c08Cell [120, 92], c08Cell [38, 97, 109, 112, 59]] := rfl
example : ∃ line e, (lines (renderMarkdown (fun _ => 0) c08Table).output)[2]? = some line ∧
    (splitPipes line)[3]? = some e ∧ mdDecode (trimSp e) = [92, 124] := by
  obtain ⟨line, h1, h2, _⟩ := c08_cells (fun _ => 0) c08Table (by decide) _ rfl 1 _ rfl
  obtain ⟨e, _, _, he, _, hd⟩ := h2 2 (c08Cell [92, 124]) rfl
  exact ⟨line, e, h1, he, by rw [hd]; decide⟩
example : trimSp (c08Cell [32, 112, 32]).text = [112] := by decide

end Tab
