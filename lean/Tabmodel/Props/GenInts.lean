/-
  Regenerated fact (C02): integer widths.  The model counts rows, columns, cell positions, widths
  and heights with unbounded naturals.  That is a faithful reading of Go's `int` (64 bits on every
  supported platform; every count here is bounded by the number of objects in memory), and of
  nothing narrower: a counter stored in, or converted to, an 8-, 16- or 32-bit integer wraps at a
  size a caller can reach.  The extractor lists every struct field of such a type and every
  explicit conversion of a non-literal to such a type in the library's packages
  (`Generated/Ints.lean`); the obligation is that there is none.  When it breaks, the check builds
  rows of 300 and of 65,537 cells against the real code (stream B02) to look for the wrapped value.
-/
import Tabmodel.Generated.Ints
namespace Tab
open Generated

/-- no count, position or size of the library lives in an integer narrower than `int` -/
theorem ints_not_narrowed : narrowIntFields = [] ∧ narrowIntConversions = [] := by decide

end Tab
