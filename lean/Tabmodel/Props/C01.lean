/-
  C01 — A cell's text is the documented text form of the item stored in it.
  `textForm` (Model/Item.lean) is written from the property statement; `Cell.update` mirrors the
  Go type switch arm by arm.  The arm order of the SOURCE is the regenerated fact
  `Generated.typeSwitchArms`.
-/
import Tabmodel.Model.World
import Tabmodel.Generated.TypeSwitch
namespace Tab

/-- the switch's text is the documented form, whatever the kind -/
theorem switchText_eq_textForm (it : Item)
    (hnil : it.kind ≠ .nil) (hcell : ∀ s w h e, it.kind ≠ .cell s w h e) :
    it.switchText = textForm it := by
  unfold Item.switchText textForm
  cases hk : it.kind with
  | nil => exact absurd hk hnil
  | cell s w h e => exact absurd hk (hcell s w h e)
  | str s => rfl
  | rune r => rfl
  | other => rfl

/-- the cell's text is the documented text form of the item: for every item of every dynamic type
    and every combination of String/GoString/Error/Height/TerminalCellWidth -/
theorem c01_text (dw : Measure) (i : Nat) (it : Item) : (newCell dw i it).str = textForm it := by
  unfold newCell Cell.update
  split
  · next h => simp [textForm, h]
  · next s w h e hk => simp [textForm, hk]
  · next k hn hc =>
    simp only []
    exact switchText_eq_textForm it (fun h => hn h) (fun s w h e hk => hc s w h e hk)

/-- nested-cell items come from real cells: an inner cell flagged empty has empty text
    (true of every cell built by `newCell`/`update`, see `c01_wf`, and of the zero-value `Cell{}`) -/
def ItemWF (it : Item) : Prop := ∀ s w h e, it.kind = .cell s w h e → e = true → s = []

/-- the cell reports itself empty exactly when its text is empty -/
theorem c01_empty (dw : Measure) (i : Nat) (it : Item) (hwf : ItemWF it) :
    (newCell dw i it).empty = (textForm it == []) := by
  unfold newCell Cell.update
  split
  · next h => simp [textForm, h]
  · next s w h e hk =>
    simp only [textForm, hk]
    cases e with
    | false => simp
    | true => simp [hwf s w h true hk rfl]
  · next k hn hc =>
    simp only []
    rw [switchText_eq_textForm it (fun h => hn h) (fun s w h e hk => hc s w h e hk)]

/-- every cell produced by `update` is itself well-formed as a nested item: by induction on the
    nesting depth, `empty ↔ text = []` holds for cells of cells of cells … -/
theorem c01_wf (dw : Measure) (it : Item) (c : Cell) (hwf : ItemWF it) :
    ((c.update dw it).empty = true → (c.update dw it).str = []) := by
  unfold Cell.update
  split
  · intro _; rfl
  · next s w h e hk =>
    intro he
    simp only [Bool.or_eq_true, beq_iff_eq] at he
    rcases he with he | he
    · exact hwf s w h e hk he
    · exact he
  · intro he; simpa using he

/-- the zero-value `tabular.Cell{}` used as an item is well-formed too -/
theorem c01_zero_cell_wf (it : Item) (h : it.kind = .cell [] 0 0 false) : ItemWF it := by
  intro s w h' e hk he
  rw [h] at hk
  cases hk
  rfl

/-- the stored item is handed back unchanged (the cell keeps the item's identity) -/
theorem c01_item (dw : Measure) (i : Nat) (it : Item) : (newCell dw i it).item = i := by
  unfold newCell Cell.update
  split <;> rfl

/-- `Update` re-reads the (possibly mutated) item: afterwards the text is the documented form of
    the item's CURRENT state -/
theorem c01_update (dw : Measure) (it' : Item) (c : Cell) : (c.update dw it').str = textForm it' := by
  have := c01_text dw c.item it'
  unfold newCell at this
  unfold Cell.update at this ⊢
  split <;> simp_all

/-- … and only then: mutating the item store leaves every cell of every row as it was
    (a cell is a value computed at `NewCell`/`Update` time; nothing else reads the item) -/
theorem c01_stale (w : World) (items' : List Item) (r c : Nat) :
    ({ w with items := items' } : World).cell? r c = w.cell? r c := rfl

/-- precedence, stated outright: String() wins over GoString() wins over Error() wins over %v -/
theorem c01_precedence (it : Item) (hk : it.kind = .other) :
    textForm it =
      match it.mString, it.mGoString, it.mError with
      | some s, _, _ => s
      | none, some g, _ => g
      | none, none, some e => e
      | none, none, none => it.fmtV := by
  unfold textForm
  rw [hk]
  cases it.mString <;> cases it.mGoString <;> cases it.mError <;> rfl

/-- a string is itself, a rune is that character, nil is empty, a nested cell gives the inner text:
    these kinds take precedence over any method the dynamic type may also have -/
theorem c01_kinds (it : Item) :
    (∀ s, it.kind = .str s → textForm it = s) ∧
    (∀ r, it.kind = .rune r → textForm it = encodeRune r) ∧
    (it.kind = .nil → textForm it = []) ∧
    (∀ s w h e, it.kind = .cell s w h e → textForm it = s) := by
  refine ⟨?_, ?_, ?_, ?_⟩ <;> intros <;> simp_all [textForm]

/-- the documented arms: (case type, what becomes the text), in precedence order -/
def documentedArms : List (String × String) :=
  [("nil", "\"\""), ("Cell", "o.str"), ("string", "o"), ("rune", "string(o)"),
   ("Stringer", "o.String()"), ("GoStringer", "o.GoString()"), ("error", "o.Error()"),
   ("default", "fmt.Sprintf(\"%v\", o)")]

/-- the extractor recognised the switch when it found one whose case TYPES are exactly the
    documented ones in some order (a refactoring that splits or moves the switch is not recognised;
    the property then rests on the exhaustive differential run over all interface combinations) -/
def typeSwitchRecognised : Bool :=
  Generated.typeSwitchFound &&
  (Generated.typeSwitchArms.map (·.1)).all (fun t => (documentedArms.map (·.1)).contains t) &&
  (documentedArms.map (·.1)).all (fun t => (Generated.typeSwitchArms.map (·.1)).contains t) &&
  Generated.typeSwitchArms.length == documentedArms.length

/-- the arms of the type switch in the SOURCE, in order, with what each assigns (regenerated):
    whenever the switch is recognised, its precedence order and assignments are the documented ones -/
theorem c01_switch_arms : typeSwitchRecognised = false ∨ Generated.typeSwitchArms = documentedArms := by decide

/- non-vacuity -/
example : ItemWF { kind := .cell [] 0 0 false, mString := none, mGoString := none, mError := none,
                   fmtV := [], mHeight := none, mWidth := none, json := none } :=
  c01_zero_cell_wf _ rfl
example : textForm { kind := .other, mString := none, mGoString := some [103], mError := some [101],
                     fmtV := [118], mHeight := none, mWidth := none, json := none } = [103] := by decide
example : textForm { kind := .rune 0x4e16, mString := some [1], mGoString := none, mError := none,
                     fmtV := [118], mHeight := none, mWidth := none, json := none } = [0xe4, 0xb8, 0x96] := by decide
example : encodeRune 0xD800 = [0xEF, 0xBF, 0xBD] := by decide

end Tab
