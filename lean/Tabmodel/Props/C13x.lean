/-
  C13x — C13 for ARBITRARY callbacks (no `LogOnlyAll` hypothesis).

  In the model a `.setProp id k v` callback only rewrites its target's property chain, a `.fail id e`
  callback only appends an error through its taker, and the two measuring callbacks only write their
  private property keys (or report "not a cell"); none touches a callback set, the structure, or the
  event log beyond its own event.  So the event trace of a pass is the documented list whatever the
  callbacks are.  `userEvents`, `expectedRenderAny`, `expectedAddRowAny`, `expectedAddHeadersAny`,
  `UniqueAny`, `SameSkeleton`, `SoleWriter` are in `Tabmodel/Proofs/C13xSpec.lean` (definitions only);
  slots, `cbsAt`, `renderTargets`, the linked states &c. are those of C13 (`Proofs/C13Spec.lean`).
  Helper lemmas are in `Tab.C13x` (`Tabmodel/Proofs/C13x*.lean`); the shape part of the frame statements
  rests on pa_world's `shape_setProp` / `shape_addErrTo` (`Proofs/WorldShape.lean`, as in
  `c02_render_keeps_shape`).
-/
import Tabmodel.Proofs.C13xAdd
import Tabmodel.Proofs.C13xOnce
import Tabmodel.Proofs.C13xLive
import Tabmodel.Proofs.C13xFrame
import Tabmodel.Props.C13
namespace Tab
open World C13 C13x

/-! ## Render order -/

/-- One render pass in ANY world appends exactly the documented list (every user callback leaves its
    event; the measuring callbacks leave none). -/
theorem c13x_render_order (dw : Measure) (w : World) (t : Nat) :
    (invokeRenderCallbacks dw w t).events = w.events ++ expectedRenderAny w t :=
  (invokeRenderCallbacks_any dw (J := fun _ _ => True) (fun _ _ _ _ _ _ _ _ => trivial) t trivial).events

/-- ... and leaves every callback set, the structural skeleton (`World.shape`) and the number of
    caller-held cell values as they were.  Only properties, error containers and the log can differ. -/
theorem c13x_render_frame (dw : Measure) (w : World) (t : Nat) :
    SameSkeleton (invokeRenderCallbacks dw w t) w :=
  (invokeRenderCallbacks_any dw (J := fun _ _ => True) (fun _ _ _ _ _ _ _ _ => trivial) t trivial).same

/-- What `SameSkeleton` gives, spelled out: callback lists, header, row lists, column counts, cell
    counts, each cell's (`columnNum`, `inRow`), each row's `inTable`, `columnOfTable`, and which
    objects exist. -/
theorem c13x_skeleton_obs {w' w : World} (h : SameSkeleton w' w) :
    (∀ s tm, w'.cbsAt s tm = w.cbsAt s tm) ∧
    (∀ t, (w'.table t).header = (w.table t).header ∧ (w'.table t).rows = (w.table t).rows ∧
      (w'.table t).nColumns = (w.table t).nColumns ∧ (w'.table t).columns.length = (w.table t).columns.length) ∧
    (∀ r, (w'.rowCells r).length = (w.rowCells r).length ∧ (w'.row r).inTable = (w.row r).inTable) ∧
    (∀ r c, (w'.cell? r c).map Cell.geo = (w.cell? r c).map Cell.geo ∧ w'.columnOf r c = w.columnOf r c) ∧
    (∀ o, w.hasObj o → w'.hasObj o) :=
  ⟨same_cbsAt h,
   fun t => ⟨same_header h t, same_rows h t, same_nColumns h t, same_ncolrecs h t⟩,
   fun r => ⟨same_rowCells_length h r, same_inTable h r⟩,
   fun r c => ⟨same_cell_geo h r c, same_columnOf h r c⟩,
   hasObj_same h⟩

/-- The documented list depends on callback sets and skeleton only; so every further pass appends the
    same list again. -/
theorem c13x_render_order_twice (dw : Measure) (w : World) (t : Nat) :
    (invokeRenderCallbacks dw (invokeRenderCallbacks dw w t) t).events =
      w.events ++ expectedRenderAny w t ++ expectedRenderAny w t := by
  rw [c13x_render_order, c13x_render_order, expectedRenderAny_same (c13x_render_frame dw w t)]

/-- In a log-only world the list is the one of `c13_render_order`. -/
theorem c13x_agrees (w : World) (t : Nat) (h : LogOnlyAll w) : expectedRenderAny w t = expectedRender w t :=
  expectedRenderAny_log (logOnlyAll_at h) t

/-- Induction principle for a pass: a predicate on (world, events so far) that holds initially and is
    kept by invoking any callback registered in `w` on any target, in a world with `w`'s callback sets
    and skeleton, holds at the end with the documented list. -/
theorem c13x_pass_induction (dw : Measure) (w : World) (t : Nat) (J : World → List Event → Prop)
    (h0 : J w [])
    (hstep : ∀ w' es cb tgt tk, SameSkeleton w' w → (∃ s tm, cb ∈ w.cbsAt s tm) → J w' es →
      J (invokeOne dw w' cb tgt tk) (es ++ userEvents [cb] tgt)) :
    J (invokeRenderCallbacks dw w t) (expectedRenderAny w t) :=
  (invokeRenderCallbacks_any dw hstep t h0).inv

/-! ## Once per target -/

theorem c13x_unique_check {w : World} {id : Nat} {s : CbSlot} {tm : Time} (h : uniqueAnyB w id s tm = true) :
    UniqueAny w id s tm :=
  uniqueAnyB_sound h

/-- The whole matrix, for any callbacks: a user callback that is the only one with its id, registered
    in slot `s` at time `tm`, is invoked during one pass over `t` exactly on `renderTargets w t s tm`,
    in that order; the count of `⟨id, tgt⟩` grows by the number of occurrences of `tgt` there, which is
    1 or 0 when no row is visited twice. -/
theorem c13x_once (dw : Measure) (w : World) (t id : Nat) (s : CbSlot) (tm : Time) (tgt : Target)
    (hu : UniqueAny w id s tm) :
    (expectedRenderAny w t).filter (fun e => e.cb == id) = (renderTargets w t s tm).map (fun x => ⟨id, x⟩) ∧
    (invokeRenderCallbacks dw w t).events.count ⟨id, tgt⟩ =
      w.events.count ⟨id, tgt⟩ + (renderTargets w t s tm).count tgt ∧
    ((renderRows w t).Nodup →
      (invokeRenderCallbacks dw w t).events.count ⟨id, tgt⟩ =
        w.events.count ⟨id, tgt⟩ + if tgt ∈ renderTargets w t s tm then 1 else 0) := by
  have hproj := evOf_expectedRenderAny hu t
  have hcount : (invokeRenderCallbacks dw w t).events.count ⟨id, tgt⟩ =
      w.events.count ⟨id, tgt⟩ + (renderTargets w t s tm).count tgt := by
    rw [c13x_render_order dw w t, List.count_append, ← count_evOf id tgt (expectedRenderAny w t), hproj,
      count_map_inj (fun x => (⟨id, x⟩ : Event)) (fun a b e => by cases e; rfl)]
  refine ⟨hproj, hcount, fun hnd => ?_⟩
  rw [hcount, (renderTargets_nodup s tm hnd).count]

/-! ## Add-time order -/

/-- `Row.Add`, any callbacks: the row's own add-time cell callbacks on the new cell, and nothing else
    happens to the linked state's callback sets and skeleton. -/
theorem c13x_add_order_rowAddCell (dw : Measure) (w : World) (r : Nat) (ce : Cell) (cs : List Cell)
    (hcs : (w.row r).cells = some cs) :
    (rowAddCell dw w r ce).events = w.events ++ userEvents (w.cbsAt (.rowCell r) .add) (.cell r cs.length) ∧
    SameSkeleton (rowAddCell dw w r ce) (rowAddLinked w r ce cs) := by
  have := rowAddCell_any dw w r ce cs hcs (J := fun _ _ => True) (fun _ _ _ _ _ _ _ _ => trivial) trivial
  exact ⟨by rw [this.events, rowAddLinked_events], this.same⟩

/-- `AddRow`, any callbacks (events evaluated in the linked state, whose callback sets are `w`'s). -/
theorem c13x_add_order_addRow (dw : Measure) (w : World) (t r : Nat) :
    (addRow dw w t r).events = w.events ++ expectedAddRowAny (addRowLinked w t r) t r ∧
    SameSkeleton (addRow dw w t r) (addRowLinked w t r) ∧
    (∀ s tm, (addRowLinked w t r).cbsAt s tm = w.cbsAt s tm) := by
  have := addRow_any dw w t r (J := fun _ _ => True) (fun _ _ _ _ _ _ _ _ => trivial) trivial
  exact ⟨by rw [this.events, addRowLinked_events], this.same,
    fun s tm => by simp only [World.cbsAt, cbSet_addRowLinked]⟩

/-- `AddRow` of a well-formed row to an existing table, in terms of the world before the call. -/
theorem c13x_add_order_addRow_wf (dw : Measure) (w : World) (t r : Nat)
    (ht : t < w.tables.length) (hr : r < w.rows.length) (hwf : RowAddWF w r) :
    (addRow dw w t r).events = w.events ++ expectedAddRowAnyWF w t r := by
  rw [(c13x_add_order_addRow dw w t r).1, expectedAddRowAny_wf ht hr hwf]

/-- `AddHeaders`, any callbacks: the table's row callbacks on the header row, then per header cell the
    table's cell callbacks (no column-level callbacks: the header row is not `inTable`). -/
theorem c13x_add_order_addHeaders (dw : Measure) (w : World) (t : Nat) (items : List Nat) :
    (addHeaders dw w t items).events = w.events ++ expectedAddHeadersAny w t items ∧
    SameSkeleton (addHeaders dw w t items) (addHeadersLinked dw w t items) := by
  have := addHeaders_any dw w t items (J := fun _ _ => True) (fun _ _ _ _ _ _ _ _ => trivial) trivial
  exact ⟨by rw [this.events, addHeadersLinked_events], this.same⟩

/-- The three add-time event-list equations together, for every world. -/
theorem c13x_add_order (dw : Measure) (w : World) :
    (∀ r ce cs, (w.row r).cells = some cs →
      (rowAddCell dw w r ce).events = w.events ++ userEvents (w.cbsAt (.rowCell r) .add) (.cell r cs.length)) ∧
    (∀ t r, (addRow dw w t r).events = w.events ++ expectedAddRowAny (addRowLinked w t r) t r) ∧
    (∀ t items, (addHeaders dw w t items).events = w.events ++ expectedAddHeadersAny w t items) :=
  ⟨fun r ce cs hcs => (c13x_add_order_rowAddCell dw w r ce cs hcs).1,
   fun t r => (c13x_add_order_addRow dw w t r).1,
   fun t items => (c13x_add_order_addHeaders dw w t items).1⟩

/-! ## Live object -/

/-- Through one `invokePropertyCallbacks` call (a list of callbacks on one existing target): if the
    last callback of the list that may write key `k` is `.setProp id k (some v)`, then afterwards `k`
    reads `v` on the target.  (`Cb.writes`: `.setProp _ k' _` writes `k'`; `dimSetter` writes
    texttable's two private keys, `widthSetter` markdown's; `.log`, `.fail` write nothing.) -/
theorem c13x_live_all (dw : Measure) (w : World) (pre post : List Cb) (id : Nat) (k : Key) (v : Val)
    (tgt : Target) (tk : Taker) (h : w.hasObj tgt) (hpost : ∀ cb ∈ post, cb.writes k = false) :
    (invoke dw w (pre ++ [.setProp id k (some v)] ++ post) tgt tk).getProp tgt k = some v :=
  getProp_invoke_last_writer dw w pre post id k v tgt tk h hpost

/-- A callback that cannot write `k` changes `k` on no object; a `.setProp` changes nothing on any
    object other than its target. -/
theorem c13x_live_frame (dw : Measure) (w : World) (cb : Cb) (tgt : Target) (tk : Taker) (k : Key) (o : Target) :
    (cb.writes k = false → (invokeOne dw w cb tgt tk).getProp o k = w.getProp o k) ∧
    (∀ id k' v, cb = .setProp id k' v → tgt ≠ o → (invokeOne dw w cb tgt tk).getProp o k = w.getProp o k) :=
  ⟨fun hw => getProp_invokeOne_not_writes dw w cb tgt tk k hw o,
   fun id k' v e hne => by subst e; exact getProp_invokeOne_setProp_other dw w id k' v tgt tk o k hne⟩

theorem c13x_sole_writer_check {w : World} {id : Nat} {k : Key} {v : Val} (h : soleWriterB w id k v = true) :
    SoleWriter w id k v :=
  soleWriterB_sound h

/-- Over a whole pass: if `.setProp id k (some v)` is the only callback of the world that carries id
    `id` or may write `k`, then after the pass `k` reads `v` on every existing object the callback was
    invoked on (every `tgt` with `⟨id, tgt⟩` in the documented list), and `k` is untouched on every
    object it was not invoked on. -/
theorem c13x_live_pass (dw : Measure) (w : World) (t id : Nat) (k : Key) (v : Val) (hs : SoleWriter w id k v) :
    (∀ tgt, (⟨id, tgt⟩ : Event) ∈ expectedRenderAny w t → w.hasObj tgt →
      (invokeRenderCallbacks dw w t).getProp tgt k = some v) ∧
    (∀ tgt, (⟨id, tgt⟩ : Event) ∉ expectedRenderAny w t →
      (invokeRenderCallbacks dw w t).getProp tgt k = w.getProp tgt k) :=
  (invokeRenderCallbacks_any dw (liveInv_step dw hs) t (liveInv_init w id k v)).inv

/-! ## Non-vacuity: a world with a `.setProp`, a `.fail` and a measuring callback -/

/-- `c13ExBase` (header row 0 = `[a]`, body row 1 = `[a]`) with: `21` = table 0, render time, on cells,
    sets user key 1 to 5; `22` = row 1, pre-cell time, on the row, fails; the texttable measuring
    callback on table cells at render time; `23` = column 1, post-cell time, on cells, logs. -/
def c13xExW : World :=
  let w := c13ExBase
  let w := (w.registerCb (.table 0) .render .cell (.setProp 21 (.user 1) (some (.user 5)))).getD w
  let w := (w.registerCb (.row 1) .pre .itself (.fail 22 77)).getD w
  let w := (w.registerCb (.table 0) .render .cell .dimSetter).getD w
  (w.registerCb (.column 0 1) .post .cell (.log 23)).getD w

example : ¬ LogOnlyAll c13xExW := by decide
example : expectedRenderAny c13xExW 0 =
    [⟨21, .cell 0 0⟩, ⟨22, .row 1⟩, ⟨21, .cell 1 0⟩, ⟨23, .cell 1 0⟩] := by decide
example : (invokeRenderCallbacks c13ExDw c13xExW 0).events =
    [⟨21, .cell 0 0⟩, ⟨22, .row 1⟩, ⟨21, .cell 1 0⟩, ⟨23, .cell 1 0⟩] := by decide
example : UniqueAny c13xExW 21 (.tableCell 0) .render := c13x_unique_check (by decide)
example : renderTargets c13xExW 0 (.tableCell 0) .render = [.cell 0 0, .cell 1 0] := by decide
example : renderTargets c13xExW 0 (.colCell 0 1) .post = [.cell 1 0] := by decide
example : SoleWriter c13xExW 21 (.user 1) (.user 5) := c13x_sole_writer_check (by decide)
example : c13xExW.hasObj (.cell 0 0) ∧ c13xExW.hasObj (.cell 1 0) := by decide
example : (invokeRenderCallbacks c13ExDw c13xExW 0).getProp (.cell 1 0) (.user 1) = some (.user 5) ∧
    (invokeRenderCallbacks c13ExDw c13xExW 0).getProp (.row 1) (.user 1) = none := by decide
/-- the failing callback's error reached the table; the measuring callback wrote its private key -/
example : ((invokeRenderCallbacks c13ExDw c13xExW 0).table 0).errs = [77] ∧
    ((invokeRenderCallbacks c13ExDw c13xExW 0).getProp (.cell 1 0) .ttDims).isSome = true := by decide
/-- add time with a `.setProp` and a `.fail` callback -/
def c13xExAdd : World :=
  let w := c13ExBase
  let w := (w.registerCb (.table 0) .add .row (.fail 31 78)).getD w
  let w := (w.registerCb (.table 0) .add .cell (.setProp 32 (.user 2) (some (.user 6)))).getD w
  let w := (w.registerCb (.column 0 1) .add .cell (.log 33)).getD w
  let w := (w.newRow {}).1
  let w := (w.registerCb (.row 2) .add .cell (.setProp 34 (.user 3) none)).getD w
  rowAdd c13ExDw w 2 0
example : (c13xExAdd.row 2).cells.isSome = true ∧ 0 < c13xExAdd.tables.length ∧ 2 < c13xExAdd.rows.length ∧
    RowAddWF c13xExAdd 2 := by decide
example : c13xExAdd.events = [⟨34, .cell 2 0⟩] := by decide
example : (addRow c13ExDw c13xExAdd 0 2).events =
    [⟨34, .cell 2 0⟩, ⟨31, .row 2⟩, ⟨33, .cell 2 0⟩, ⟨32, .cell 2 0⟩] := by decide
example : c13xExAdd.events ++ expectedAddRowAnyWF c13xExAdd 0 2 =
    [⟨34, .cell 2 0⟩, ⟨31, .row 2⟩, ⟨33, .cell 2 0⟩, ⟨32, .cell 2 0⟩] := by decide
example : (addHeaders c13ExDw c13xExAdd 0 [0]).events = [⟨34, .cell 2 0⟩, ⟨31, .row 3⟩, ⟨32, .cell 3 0⟩] := by
  decide
example : c13xExW.hasObj (.cell 1 0) := by decide
example : (invoke c13ExDw c13xExW [.log 1, .setProp 2 (.user 9) (some (.user 4)), .fail 3 5, .dimSetter]
    (.cell 1 0) .drop).getProp (.cell 1 0) (.user 9) = some (.user 4) := by decide

end Tab
