/-
  C09t — C09 ("every renderer is total"), text renderer: total for EVERY decoration value.

  `commonRenderedLine` (texttable/decoration/emit.go) used to panic (`fields[:len(fields)-1]`, slice
  bounds out of range) on a table with no columns when the decoration had an inner body divider but no
  body border — a value only a hand-assembled, never-`Populate`d decoration can have.  That was
  repaired (finding D28: the last field is only touched when there is one) and the model's
  `renderedLine` follows (`fields.dropLast`).  The older totality theorems (`renderTextBody_no_panic`,
  `c09_total*`, `c09h_no_panic*`) still carry a hypothesis on the decoration (`DivsOK`, `DecorTotal`,
  `DecorTotalH`: body dividers all present or all absent); they stay true, and here the hypothesis is
  gone:

  * `c09t_rendered_line_total`: one content line, any three dividers;
  * `c09t_text_body_total` / `c09t_text_body_no_panic`: the text renderer proper returns `.ok ()` for
    ANY `Decoration` value — built-in, `Populate`-completed, hand-assembled and never populated,
    boxless, even the all-empty one (which `RenderTo` refuses BEFORE getting here, with an error, not a
    panic: `c09t_text_outcome`) — on any well-shaped view with handled alignment values, zero-column
    views included;
  * `c09t_no_panic`: the history-level capstone (`c09h_no_panic` with NO hypothesis on `wr.decor`);
    `c09t_no_panic_inv` from any world satisfying the structural invariant; `c09t_text_outcome` and
    `c09t_render_empty_on_error` say what the outcome is instead;
  * `c09t_wrapped_any`, `c09t_registered_any`, `c09t_registered_text_ok`: `X.Wrap(t)` then `RenderTo`,
    hence the package-level functions and `auto.RenderTo(t, style)` with ANY registry contents (any
    names bound to any decoration values, e.g. hand-assembled ones the application registered), any
    default decoration and any style string.

  What remains necessary, and is kept: `Valid` (shape of the view, C02), `CellsOk` and `AlignValuesOK`
  (alignment values within {unset, left, right, centre}: an unhandled alignment value still makes
  `WithinWidthAligned` panic — `C09hExample.bad3`, and the last example below for one line).

  Import note: on the `Props/C12h.lean` side of the `PState` clash (see Props/C09h.lean); `Props/C10.lean`
  (`autoRender`, `pkgRender`) is importable from this side, so no second module is needed.
-/
import Tabmodel.Props.C09h
import Tabmodel.Props.C10
import Tabmodel.Proofs.C09tTotal
import Tabmodel.Proofs.RegStyle
namespace Tab
open World C09h C09t

/-- One content line (`commonRenderedLine`) is produced — no error, no panic — for ALL left / inner /
    right dividers (any of them empty or not, in any combination, with or without columns), as soon as
    the two per-column indexings are in range and every alignment value is a handled one
    (0 = nil, 1 = left, 2 = right, 3 = centre). -/
theorem c09t_rendered_line_total (L I R : Bytes) (cw : List Nat) (parts : List WidthString) (aligns : List Nat)
    (hparts : cw.length ≤ parts.length) (hal : cw.length ≤ aligns.length) (hal3 : ∀ a ∈ aligns, a ≤ 3) :
    ∃ b, renderedLine L I R cw parts aligns = .ok b :=
  renderedLine_total L I R cw parts aligns hparts hal hal3

/-- The text renderer proper (`TextTable.RenderTo` after the empty-decoration check and the callbacks
    pass) returns `.ok ()` for EVERY decoration `d` on every well-shaped view whose alignment values
    are unset / left / right / centre: zero-column views, header-less views, negative laid-out widths
    and never-measured cells included.  No `DivsOK` / `DecorTotal` / `LineSafe` hypothesis. -/
theorem c09t_text_body_total (d : Decoration) (v : RTable) (hs : WFShape v) (ha : AlignOK v) :
    (renderTextBody d v).res = .ok () :=
  renderTextBody_total d v hs ha

/-- … in particular it never panics (and never returns an error either). -/
theorem c09t_text_body_no_panic (d : Decoration) (v : RTable) (hs : WFShape v) (ha : AlignOK v) :
    (∀ site, (renderTextBody d v).res ≠ .error (.panic site)) ∧
    (∀ e, (renderTextBody d v).res ≠ .error (.err e)) := by
  rw [c09t_text_body_total d v hs ha]
  exact ⟨fun _ h => (nomatch h), fun _ h => (nomatch h)⟩

/-- From any world satisfying the structural invariant (every valid history, and everything reachable
    from one by further renders and wraps), given `AlignOK` of the view after the pass: no panic, for
    every wrapper kind, every table id and EVERY decoration. -/
theorem c09t_no_panic_inv (x : Ext) (w : World) (hinv : Inv w) (wr : Wrapper)
    (ha : AlignOK ((invokeRenderCallbacks x.dw w wr.core).view wr.core)) :
    ∀ site, (w.renderTo x wr).2.res ≠ .error (.panic site) :=
  total_inv_any x w hinv wr ha

/-- C09, history level, every decoration: for every valid build history of well-formed cell values
    whose alignment values are within the domain, every wrapper kind, every table id and EVERY value of
    `wr.decor`, the outcome of `RenderTo` is never a panic, whatever callbacks are registered.
    (`c09h_no_panic` without its hypothesis `hd`.) -/
theorem c09t_no_panic (x : Ext) (ops : List BuildOp) (hv : Valid ops = true) (hc : CellsOk ops)
    (ha : AlignValuesOK ops) (wr : Wrapper) :
    ∀ site, ((run x.dw ops).renderTo x wr).2.res ≠ .error (.panic site) :=
  total_inv_any x (run x.dw ops) (c02_inv_run x.dw ops hv) wr (c09h_alignok x.dw ops hc ha wr.core)

/-- What a text wrapper does instead, exactly: with the all-empty decoration value (an unknown style
    name resolves to it) `RenderTo` is refused with the `noDecoration` ERROR, nothing is written and no
    callback runs; with ANY other decoration value it returns `.ok ()`. -/
theorem c09t_text_outcome (x : Ext) (ops : List BuildOp) (hv : Valid ops = true) (hc : CellsOk ops)
    (ha : AlignValuesOK ops) (wr : Wrapper) (hk : wr.kind = .text) :
    (wr.decor = emptyDecoration →
      ((run x.dw ops).renderTo x wr).2.res = .error (.err .noDecoration) ∧
      ((run x.dw ops).renderTo x wr).2.chunks = [] ∧ ((run x.dw ops).renderTo x wr).1 = run x.dw ops) ∧
    (wr.decor ≠ emptyDecoration → ((run x.dw ops).renderTo x wr).2.res = .ok ()) :=
  text_outcome x (run x.dw ops) (c02_inv_run x.dw ops hv) wr hk (c09h_alignok x.dw ops hc ha wr.core)

/-- `Render()` on such a table, any wrapper, any decoration: either the complete text and no error, or
    the empty string and an error that is not a panic. -/
theorem c09t_render_empty_on_error (x : Ext) (ops : List BuildOp) (hv : Valid ops = true) (hc : CellsOk ops)
    (ha : AlignValuesOK ops) (wr : Wrapper) :
    let m := ((run x.dw ops).renderTo x wr).2
    (m.res = .ok () ∧ renderString m = (m.output, none)) ∨
    (∃ e, m.res = .error (.err e) ∧ renderString m = ([], some (.err e))) := by
  intro m
  have hnp := c09t_no_panic x ops hv hc ha wr
  unfold renderString
  cases hm : m.res with
  | ok u => exact Or.inl ⟨rfl, rfl⟩
  | error s =>
    cases s with
    | err e => exact Or.inr ⟨e, rfl, rfl⟩
    | panic site => exact absurd hm (hnp site)

/-- "`X.Wrap(t)`, then `RenderTo`": one more wrapper of any kind `k` around any table `t` of the built
    world (the measuring callback it registers is a history step: `wrapOps`), then rendering through
    ANY wrapper value — any kind, any core table, any decoration — never panics. -/
theorem c09t_wrapped_any (x : Ext) (ops : List BuildOp) (hv : Valid ops = true) (hc : CellsOk ops)
    (ha : AlignValuesOK ops) (k : WKind) (t : Nat) (wr : Wrapper) :
    ∀ site, (((run x.dw ops).wrapEffect k t).renderTo x wr).2.res ≠ .error (.panic site) := by
  rw [← run_wrapOps]
  exact c09t_no_panic x (ops ++ wrapOps k t) (by rw [valid_wrapOps]; exact hv)
    (cellsOk_wrapOps ops hc k t) (alignValuesOK_wrapOps ops ha k t) wr

/-- `auto` and the package-level functions.  For EVERY registry `reg` — any names bound to any
    decoration values, e.g. hand-assembled, never-populated ones registered by the application —, every
    default decoration `heavy`, every style string (listed or not, dotted or not, resolving to whatever
    it resolves to) and every table id: `auto.RenderTo(t, style)` on the world of such a history never
    panics; nor does the package-level `X.RenderTo(t)` of any sub-package `k`. -/
theorem c09t_registered_any (x : Ext) (reg : Registry) (heavy : Decoration) (ops : List BuildOp)
    (hv : Valid ops = true) (hc : CellsOk ops) (ha : AlignValuesOK ops) (t : Nat) :
    (∀ (style : Bytes) site,
      (World.autoRender x reg heavy (run x.dw ops) t style).2.res ≠ .error (.panic site)) ∧
    (∀ (k : WKind) site,
      (World.pkgRender x heavy (run x.dw ops) k t).2.res ≠ .error (.panic site)) :=
  ⟨fun style site => c09t_wrapped_any x ops hv hc ha _ t (autoWrapper reg heavy style t) site,
   fun k site => c09t_wrapped_any x ops hv hc ha k t (defaultWrapper heavy k t) site⟩

/-- … and when the style resolves to the text renderer with a decoration `d`, the outcome is: the
    `noDecoration` error (nothing written) iff `d` is the all-empty value, `.ok ()` for any other `d`. -/
theorem c09t_registered_text_ok (x : Ext) (reg : Registry) (heavy : Decoration) (ops : List BuildOp)
    (hv : Valid ops = true) (hc : CellsOk ops) (ha : AlignValuesOK ops) (t : Nat) (style : Bytes)
    (d : Decoration) (hr : resolveStyle reg heavy style = .text d) :
    (d = emptyDecoration →
      (World.autoRender x reg heavy (run x.dw ops) t style).2.res = .error (.err .noDecoration) ∧
      (World.autoRender x reg heavy (run x.dw ops) t style).2.chunks = []) ∧
    (d ≠ emptyDecoration → (World.autoRender x reg heavy (run x.dw ops) t style).2.res = .ok ()) := by
  rw [c10_paths_auto, hr]
  simp only []
  rw [← run_wrapOps]
  have h := c09t_text_outcome x (ops ++ wrapOps .text t) (by rw [valid_wrapOps]; exact hv)
    (cellsOk_wrapOps ops hc .text t) (alignValuesOK_wrapOps ops ha .text t)
    { kind := .text, core := t, decor := d } rfl
  exact ⟨fun he => ⟨(h.1 he).1, (h.1 he).2.1⟩, h.2⟩

/-! ### non-vacuity -/

namespace C09tExample
open TextTotalExample

/-- a width string -/
def ws (b : UInt8) : WidthString := { s := [b], w := 1 }

-- `c09t_rendered_line_total`: inner divider only, NO column (the repaired case: the line is empty) …
example := c09t_rendered_line_total [] [124] [] [] [] [] (Nat.le_refl _) (Nat.le_refl _) (by simp)
example : renderedLine [] [124] [] [] [] [] = .ok [10] := by rfl
-- … inner and right divider only, no column: the right border alone
example : renderedLine [] [124] [35] [] [] [] = .ok [35, 10] := by rfl
-- … and with two columns, left-less: `a | b` (the trailing inner divider is dropped)
example := c09t_rendered_line_total [] [124] [] [1, 1] [ws 97, ws 98] [0, 2] (by simp) (by simp) (by simp)
example : renderedLine [] [124] [] [1, 1] [ws 97, ws 98] [0, 2] = .ok [97, 32, 124, 32, 98, 10] := by rfl
/-- the alignment hypothesis is a real one: an unhandled alignment value panics -/
example : renderedLine [] [124] [] [1] [ws 97] [4] = .error (.panic "unhandled alignment") := by rfl

-- `c09t_text_body_total`, the zero-column view explicitly: the hand-assembled decoration with an inner
-- body divider and no body border (not `DivsOK`: Proofs/TextTotal.lean), the all-empty value, the
-- boxless one, a populated one
example : (renderTextBody partialDeco zeroView).res = .ok () := c09t_text_body_total _ _ zero_wf zero_al
example : (renderTextBody emptyDecoration zeroView).res = .ok () := c09t_text_body_total _ _ zero_wf zero_al
example : (renderTextBody boxless zeroView).res = .ok () := c09t_text_body_total _ _ zero_wf zero_al
example : (renderTextBody ascii zeroView).res = .ok () := c09t_text_body_total _ _ zero_wf zero_al
example := c09t_text_body_no_panic partialDeco zeroView zero_wf zero_al
/-- what it writes: rule lines of the two (empty) corner glyphs, i.e. bare newlines, and empty content
    lines for the header, the two rows (the separator is a rule) -/
example : (renderTextBody partialDeco zeroView).output = [10, 10, 10, 10, 10, 10, 10] := by decide
/-- the other lopsided combination (a body border, no inner divider) on zero columns -/
example : (renderTextBody { vBodyBorder := [124] } zeroView).res = .ok () :=
  c09t_text_body_total _ _ zero_wf zero_al

/-- a ZERO-COLUMN table built through the API: a header with zero cells, a row with zero cells, a
    separator, another empty row; wrapped as text -/
def zops : List BuildOp :=
  [ .newTable, .addHeaders 0 [], .addRowItems 0 [], .addSeparator 0, .addRowItems 0 [] ] ++ wrapOps .text 0

def x : Ext := C09hExample.x

theorem c09t_ex_valid : Valid zops = true := by decide +kernel
theorem c09t_ex_cells : CellsOk zops := by decide +kernel
theorem c09t_ex_align : AlignValuesOK zops := by decide +kernel

example : ((run x.dw zops).view 0).ncols = 0 := by decide +kernel

-- `c09t_no_panic` on it with the hand-assembled decoration — which `c09h_no_panic` does not cover
example := c09t_no_panic x zops c09t_ex_valid c09t_ex_cells c09t_ex_align { kind := .text, core := 0, decor := partialDeco }
example : ¬ DecorTotalH partialDeco := by
  rintro (⟨h, _, _⟩ | ⟨_, h, _⟩)
  · exact h rfl
  · cases h
example : ((run x.dw zops).renderTo x { kind := .text, core := 0, decor := partialDeco }).2.res = .ok () :=
  (c09t_text_outcome x zops c09t_ex_valid c09t_ex_cells c09t_ex_align { kind := .text, core := 0, decor := partialDeco } rfl).2
    (by decide)
example : ((run x.dw zops).renderTo x { kind := .text, core := 0, decor := partialDeco }).2.output =
    [10, 10, 10, 10, 10, 10, 10] := by decide +kernel
-- … the empty decoration is refused with an error
example : ((run x.dw zops).renderTo x { kind := .text, core := 0 }).2.res = .error (.err .noDecoration) :=
  ((c09t_text_outcome x zops c09t_ex_valid c09t_ex_cells c09t_ex_align { kind := .text, core := 0 } rfl).1 rfl).1
-- … every other kind, and a table id that does not exist
example := c09t_no_panic x zops c09t_ex_valid c09t_ex_cells c09t_ex_align { kind := .csv, core := 0 }
example := c09t_no_panic x zops c09t_ex_valid c09t_ex_cells c09t_ex_align { kind := .text, core := 5, decor := partialDeco }
example := c09t_render_empty_on_error x zops c09t_ex_valid c09t_ex_cells c09t_ex_align
  { kind := .text, core := 0, decor := partialDeco }
example := c09t_no_panic_inv x (run x.dw zops) (c02_inv_run x.dw zops c09t_ex_valid)
  { kind := .text, core := 0, decor := partialDeco } (c09h_alignok x.dw zops c09t_ex_cells c09t_ex_align 0)
-- … and on the example history of Props/C09h.lean (callbacks of every sort, a ragged row)
example := c09t_no_panic C09hExample.x C09hExample.ops C09hExample.c09h_ex_valid C09hExample.c09h_ex_cells
  C09hExample.c09h_ex_align { kind := .text, core := 0, decor := partialDeco }

/-- a registry holding hand-assembled, never-populated decorations under application-chosen names:
    `"p"` ↦ inner body divider only, `"e"` ↦ the all-empty value, `"b"` ↦ boxless -/
def reg : Registry :=
  Registry.register (Registry.register (Registry.register [] [112] partialDeco) [101] emptyDecoration) [98] boxless

-- `c09t_wrapped_any`, `c09t_registered_any`
example := c09t_wrapped_any x zops c09t_ex_valid c09t_ex_cells c09t_ex_align .markdown 0
  { kind := .text, core := 0, decor := partialDeco }
example := c09t_registered_any x reg Generated.heavy zops c09t_ex_valid c09t_ex_cells c09t_ex_align 0
theorem c09t_ex_reg_p : resolveStyle reg Generated.heavy [112] = .text partialDeco := by rw [resolveStyle_lit]; decide
theorem c09t_ex_reg_e : resolveStyle reg Generated.heavy [101] = .text emptyDecoration := by rw [resolveStyle_lit]; decide
example : (World.autoRender x reg Generated.heavy (run x.dw zops) 0 [112]).2.res = .ok () :=
  (c09t_registered_text_ok x reg Generated.heavy zops c09t_ex_valid c09t_ex_cells c09t_ex_align 0 [112] partialDeco c09t_ex_reg_p).2 (by decide)
example : (World.autoRender x reg Generated.heavy (run x.dw zops) 0 [101]).2.res = .error (.err .noDecoration) :=
  ((c09t_registered_text_ok x reg Generated.heavy zops c09t_ex_valid c09t_ex_cells c09t_ex_align 0 [101] emptyDecoration c09t_ex_reg_e).1 rfl).1
-- the default decoration itself may be a hand-assembled one (`texttable`, no style name)
example : (match (World.pkgRender x partialDeco (run x.dw zops) .text 0).2.res with
    | .ok _ => true | .error _ => false) = true := by decide +kernel

end C09tExample

end Tab
