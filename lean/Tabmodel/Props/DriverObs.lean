/-
  Observations the correspondence driver prints that used to be computed inside `Driver.lean`
  (audit 3, item 11: "a few expected behaviours live in the driver").  They are now definitions of
  the model (`rowClassCalls` in Model/Html.lean, `World.ownerChain`/`World.chainLen` in
  Model/World.lean); this file ties them to the objects the property theorems speak about, so the
  value diffed against the library is provably the value the C06 / C12 theorems characterise.
-/
import Tabmodel.Props.C06
import Tabmodel.Props.C12
import Tabmodel.Proofs.C06eGen
namespace Tab

/-- the `rc=` list the driver prints is exactly the argument list of the C06 theorems -/
theorem rowClassCalls_eq_args (v : RTable) : rowClassCalls v = rowClassArgs v := by
  unfold rowClassCalls rowClassArgs
  congr 2
  funext ⟨r, i⟩
  cases r <;> rfl

/-- the generator is never called twice with one row number -/
theorem rowClassCalls_nodup (v : RTable) : (rowClassCalls v).Nodup := by
  rw [rowClassCalls_eq_args]; exact C06e.rowClassArgs_nodup v

/-- the header call comes first -/
theorem rowClassCalls_head (v : RTable) : (rowClassCalls v).head? = some 0 := rfl

/-- every row number handed to the generator is 0 (header) or the 1-based position of a
    non-separator row of the view, and every such position is handed over -/
theorem rowClassCalls_mem (v : RTable) (n : Nat) :
    n ∈ rowClassCalls v ↔ n = 0 ∨ ∃ i cells, v.rows[i]? = some (some cells) ∧ n = i + 1 := by
  unfold rowClassCalls
  simp only [List.mem_cons, List.mem_filterMap, Prod.exists, List.mem_zipIdx_iff_getElem?]
  constructor
  · rintro (h | ⟨r, i, hget, hr⟩)
    · exact .inl h
    · cases r with
      | none => simp at hr
      | some cells => simp at hr; exact .inr ⟨i, cells, hget, hr.symm⟩
  · rintro (h | ⟨i, cells, hget, hn⟩)
    · exact .inl h
    · exact .inr ⟨some cells, i, hget, by simp [hn]⟩

/-- no call goes past the last row -/
theorem rowClassCalls_le (v : RTable) (n : Nat) (h : n ∈ rowClassCalls v) : n ≤ v.rows.length := by
  rcases (rowClassCalls_mem v n).1 h with h | ⟨i, cells, hget, hn⟩
  · omega
  · have : i < v.rows.length := by
      rcases List.getElem?_eq_some_iff.1 hget with ⟨hi, _⟩; exact hi
    omega

/-- non-vacuity: header, row, separator, row → calls 0, 1, 3 -/
example : rowClassCalls ⟨0, none, [some [], none, some []], [], []⟩ = [0, 1, 3] := by decide

/-! ### `chainlen` -/

/-- `getProp` reads the chain `ownerChain` names -/
theorem getProp_eq_ownerChain (w : World) (o : Target) (k : Key) :
    w.getProp o k = (w.ownerChain o).get k := by
  cases o with
  | table t => rfl
  | row r => rfl
  | column t n =>
    simp only [World.getProp, World.ownerChain]
    cases w.column? t n <;> simp
  | cell r c =>
    simp only [World.getProp, World.ownerChain]
    cases w.cell? r c <;> simp
  | copy n =>
    simp only [World.getProp, World.ownerChain]
    cases w.copies[n]? <;> simp

/-- the number compared with the library's link count is the number of keys stored -/
theorem chainLen_eq_keys (w : World) (o : Target) : w.chainLen o = (w.ownerChain o).keys.length :=
  c12_length_eq_keys _

/-- a key that reads back a value is stored, so the chain is non-empty -/
theorem chainLen_pos_of_get (w : World) (o : Target) (k : Key) (v : Val) (h : w.getProp o k = some v) :
    0 < w.chainLen o := by
  rw [getProp_eq_ownerChain] at h
  unfold World.chainLen
  cases hc : w.ownerChain o with
  | nil => rw [hc] at h; simp [Chain.get] at h
  | cons _ _ => simp

/-- setting a property on a table stores the result of `Chain.set` on that table's own chain … -/
theorem ownerChain_setProp_table (w : World) (t : Nat) (ht : t < w.tables.length) (k : Key) (v : Option Val) :
    (w.setProp (.table t) k v).ownerChain (.table t) = (w.ownerChain (.table t)).set k v := by
  simp [World.setProp, World.ownerChain, World.modTable, World.table, List.getD_eq_getElem?_getD, ht]

/-- … so one `SetProperty` grows the link count by at most one, and not at all when the key is
    already stored: what the harness's `chainlen` bound asks of the library after repeated sets -/
theorem chainLen_setProp_table (w : World) (t : Nat) (ht : t < w.tables.length) (k : Key) (v : Option Val) :
    (w.setProp (.table t) k v).chainLen (.table t) ≤ w.chainLen (.table t) + 1 ∧
    (k ∈ (w.ownerChain (.table t)).keys →
      (w.setProp (.table t) k v).chainLen (.table t) ≤ w.chainLen (.table t)) := by
  unfold World.chainLen
  rw [ownerChain_setProp_table w t ht]
  exact c12_bounded _ k v

/-- the same for a row -/
theorem ownerChain_setProp_row (w : World) (r : Nat) (hr : r < w.rows.length) (k : Key) (v : Option Val) :
    (w.setProp (.row r) k v).ownerChain (.row r) = (w.ownerChain (.row r)).set k v := by
  simp [World.setProp, World.ownerChain, World.modRow, World.row, List.getD_eq_getElem?_getD, hr]

theorem chainLen_setProp_row (w : World) (r : Nat) (hr : r < w.rows.length) (k : Key) (v : Option Val) :
    (w.setProp (.row r) k v).chainLen (.row r) ≤ w.chainLen (.row r) + 1 ∧
    (k ∈ (w.ownerChain (.row r)).keys →
      (w.setProp (.row r) k v).chainLen (.row r) ≤ w.chainLen (.row r)) := by
  unfold World.chainLen
  rw [ownerChain_setProp_row w r hr]
  exact c12_bounded _ k v

end Tab
