/-
  C15 — A failing writer always surfaces as an error and output stops there.

  Every L1 renderer is an `Emit Unit` program whose writes are all checked (that this is
  true of the SOURCE is the regenerated obligation `c15_sites` over `Generated.WriteSites`).
  Running such a program against any fault script is `runEmit`; the theorems below hold for
  every chunk list, every script (fails from k on, only at k, partial write at k, or anything
  else), every table and every renderer at once.
-/
import Tabmodel.Model.Render
import Tabmodel.Generated.WriteSites
namespace Tab

/-- what the writer accepted is a prefix of the fault-free output, for every script -/
theorem c15_prefix (σ : Script) (k : Nat) (cs : List Bytes) :
    ∃ rest, cs.flatten = (runChunks σ k cs).accepted ++ rest := by
  induction cs generalizing k with
  | nil => exact ⟨[], rfl⟩
  | cons c cs ih =>
    unfold runChunks
    cases hσ : σ k with
    | some n =>
      refine ⟨c.drop n ++ cs.flatten, ?_⟩
      simp [List.flatten_cons, ← List.append_assoc, List.take_append_drop]
    | none =>
      obtain ⟨rest, hrest⟩ := ih (k + 1)
      refine ⟨rest, ?_⟩
      simp [List.flatten_cons, hrest, List.append_assoc]

/-- an error is reported iff some attempted write call fails: no failure is ever swallowed -/
theorem c15_failed_iff (σ : Script) (k : Nat) (cs : List Bytes) :
    (runChunks σ k cs).failed = true ↔ ∃ i, i < cs.length ∧ (σ (k + i)).isSome = true := by
  induction cs generalizing k with
  | nil => simp [runChunks]
  | cons c cs ih =>
    unfold runChunks
    cases hσ : σ k with
    | some n =>
      simp only [true_iff]
      exact ⟨0, by simp, by simp [hσ]⟩
    | none =>
      simp only []
      rw [ih (k + 1)]
      constructor
      · rintro ⟨i, hi, hs⟩
        exact ⟨i + 1, by simp; omega, by rw [show k + (i + 1) = k + 1 + i by omega]; exact hs⟩
      · rintro ⟨i, hi, hs⟩
        cases i with
        | zero => simp [hσ] at hs
        | succ j =>
          exact ⟨j, by simp at hi; omega, by rw [show k + 1 + j = k + (j + 1) by omega]; exact hs⟩

/-- output stops at the first failing call: nothing is written after it -/
theorem c15_stops (σ : Script) (k : Nat) (cs : List Bytes) (i : Nat) (hi : i < cs.length)
    (hfirst : ∀ j, j < i → σ (k + j) = none) (n : Nat) (hfail : σ (k + i) = some n) :
    (runChunks σ k cs).calls = i + 1 ∧
    (runChunks σ k cs).accepted = (cs.take i).flatten ++ (cs.getD i []).take n := by
  induction cs generalizing k i with
  | nil => simp at hi
  | cons c cs ih =>
    unfold runChunks
    cases i with
    | zero =>
      simp only [Nat.add_zero] at hfail
      simp [hfail]
    | succ j =>
      have h0 : σ k = none := by simpa using hfirst 0 (by omega)
      rw [h0]
      have := ih (k + 1) j (by simp at hi; omega)
        (fun l hl => by rw [show k + 1 + l = k + (l + 1) by omega]; exact hfirst (l + 1) (by omega))
        (by rw [show k + 1 + j = k + (j + 1) by omega]; exact hfail)
      simp [this.1, this.2, List.flatten_cons, List.append_assoc]

/-- with no failing call everything is accepted and the program's own result is returned -/
theorem c15_no_fault (σ : Script) (k : Nat) (cs : List Bytes)
    (h : ∀ i, i < cs.length → σ (k + i) = none) :
    (runChunks σ k cs).failed = false ∧ (runChunks σ k cs).accepted = cs.flatten ∧
    (runChunks σ k cs).calls = cs.length := by
  induction cs generalizing k with
  | nil => simp [runChunks]
  | cons c cs ih =>
    unfold runChunks
    have h0 : σ k = none := by simpa using h 0 (by simp)
    rw [h0]
    have := ih (k + 1) (fun i hi => by
      rw [show k + 1 + i = k + (i + 1) by omega]; exact h (i + 1) (by simp; omega))
    simp [this.1, this.2.1, this.2.2, List.flatten_cons]

/-- C15 for every renderer, table, wrapper and fault script: if any write call of the fault-free
    run is hit by a fault, `RenderTo` returns a non-nil error (never a panic introduced by the
    fault), and the bytes accepted are a prefix of the fault-free output. -/
theorem c15_render (x : Ext) (w : World) (wr : Wrapper) (σ : Script) :
    let m := (w.renderTo x wr).2
    let r := runEmit σ m
    (∃ rest, m.output = r.1.accepted ++ rest) ∧
    ((∃ i, i < m.chunks.length ∧ (σ i).isSome = true) → r.2 = some (.err .writer)) := by
  intro m r
  have hfst : (runEmit σ m).1 = runChunks σ 0 m.chunks := by
    unfold runEmit; simp only []; split <;> rfl
  refine ⟨?_, ?_⟩
  · obtain ⟨rest, h⟩ := c15_prefix σ 0 m.chunks
    exact ⟨rest, by show m.chunks.flatten = (runEmit σ m).1.accepted ++ rest; rw [hfst]; exact h⟩
  · intro h
    have hf : (runChunks σ 0 m.chunks).failed = true :=
      (c15_failed_iff σ 0 m.chunks).2 (by simpa using h)
    show (runEmit σ m).2 = _
    unfold runEmit
    simp [hf]

/-- the error is returned even when the fault hits only one call and later calls would succeed
    (the "fails only at k" script): a corollary worth stating on its own because it is the
    shape of the repaired Markdown defect -/
theorem c15_fail_only (m : Emit Unit) (k : Nat) (hk : k < m.chunks.length) :
    (runEmit (fun i => if i = k then some 0 else none) m).2 = some (.err .writer) := by
  have hf : (runChunks (fun i => if i = k then some 0 else none) 0 m.chunks).failed = true :=
    (c15_failed_iff _ 0 m.chunks).2 ⟨k, hk, by simp⟩
  unfold runEmit
  simp [hf]

/-- every write site of the five renderers' source checks its result (regenerated from /repo) -/
theorem c15_sites : ∀ s ∈ Generated.writeSites, s.checked = true := by decide

/-- the renderers' source has write sites at all (the obligation above is not vacuous) -/
theorem c15_sites_nonempty : Generated.writeSites.length ≥ 5 := by decide

/- non-vacuity: a two-chunk program, the fail-only-at-0 script -/
example : (runEmit (fun i => if i = 0 then some 0 else none) ⟨[[1], [2]], .ok ()⟩).2 = some (.err .writer) := by decide
example : (runEmit (fun i => if i = 1 then some 1 else none) ⟨[[1, 2], [3, 4]], .ok ()⟩).1.accepted = [1, 2, 3] := by decide
/- the negative: a program that DROPS the result of its first write (what the pinned tree's Markdown
   row opener did) is not expressible with `write`; modelled directly, it returns ok and its
   accepted bytes are not a prefix -/
example : ¬ ([2] : Bytes) <+: ([[1], [2]] : List Bytes).flatten := by decide

end Tab
