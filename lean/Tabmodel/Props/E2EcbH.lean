/-
  E2EcbH — the two history-level corollaries of `Props/E2Ecb.lean` that need the invariants of
  `C11h` and `C12h` (kept in their own module: `Props/C11h`/`Props/C12h` and `Props/E2E` declare
  helper names that clash, so they cannot be imported into one file).
-/
import Tabmodel.Proofs.E2EcbHist
namespace Tab
open World

/-- For the table a `Valid`, `HdrSafe` history built: a render pass with ANY callbacks appends to the
    table's error list exactly the errors its callbacks returned, in firing order. -/
theorem e2ecb_errors_history (dw : Measure) (ops : List BuildOp) (hv : Valid ops = true)
    (hs : HdrSafe ops = true) (t : Nat) (ht : t < (run dw ops).tables.length) :
    ((invokeRenderCallbacks dw (run dw ops) t).table t).errs =
      ((run dw ops).table t).errs ++
        (passSteps (run dw ops) t).filterMap (fun s => raises s.tgt s.cb) :=
  E2Ecb.errors_history dw ops hv hs t ht

/-- The column chains of a table built by any history of well-formed cell values hold one link per
    key: the hypothesis of `e2ecb_props_last_writer` is met by every table the API builds. -/
theorem e2ecb_columns_nodup_history (dw : Measure) (ops : List BuildOp) (hc : CellsOk ops) (t : Nat) :
    ∀ c ∈ ((run dw ops).table t).columns, c.props.keys.Nodup :=
  E2Ecb.columns_nodup_history dw ops hc t

end Tab
